import N2k.Model.Layout
/-! # FROZEN specification: published NMEA 2000 field layouts of the PGNs named in property C15

Hand-written from the public definition of each PGN (the canboat-style field lists, as also reproduced in the
doc comments of `N2kMessages.h` / `NMEA2000.h`): field name, bit offset, bit length, signedness, resolution
(`resNum / 10^resExp` in the unit of the library's parameter) and which parameter of the library's setter is
the value of the field. NOT derived from the setter code. `free` marks reserved bits and published fields for
which the library has no parameter (not constrained by C15).
Parameters are named, not numbered, so the table does not depend on the order of the setter's arguments.
PGN 126464 (PGN list, a repeated 24-bit field) has no fixed layout and is checked by the harness only. -/
namespace N2k.Spec
open N2k.Layout

inductive Src where
  | free
  | param (name : String)
  /-- the function has no parameter for this field and must write this constant (an alias wrapper that fixes the
  heading reference, or passes "not available") -/
  | const (v : Nat)
  deriving DecidableEq, Repr

structure PubField where
  name : String
  off : Nat
  len : Nat
  signed : Bool
  resNum : Nat
  resExp : Nat
  src : Src
  deriving Repr

/-- the number of low bits of the field that must carry the parameter: for a plain integer parameter the PUBLISHED
length (cut to the width of its C type) - a setter that masks the parameter more narrowly than the field is wrong -;
for enumerations, flags, status unions, scaled and text parameters the width `W` their type documents -/
def pubW (P : Pair) (f : PubField) (o : Nat) : Nat :=
  if P.intBits.getD o 0 ≠ 0 ∧ (lookupRec P.setScaled o).isNone then min (P.intBits.getD o 0) f.len else P.W o

/-- bit `i` of the field is bit `i` of the parameter; bits of the field above the width the parameter can
use (`pubW`, e.g. a 3-bit enumeration in a 4-bit field, a flag in a 2-bit field) are 0 or still the parameter's
bit `i` (which is 0 for every value below `2^pubW`) -/
def bitsAgree (P : Pair) (f : PubField) (o : Nat) : Bool :=
  (List.range f.len).all fun i =>
    srcAt P.setter (f.off + i) == some (.param o i) ||
      (decide (pubW P f o ≤ i) && srcAt P.setter (f.off + i) == some .zero)

/-- a scaled parameter uses exactly the published offset, width, signedness and resolution; an integer
parameter is a field of resolution 1 and, when it fills its C type, of the published signedness -/
def recAgree (P : Pair) (f : PubField) (o : Nat) : Bool :=
  match lookupRec P.setScaled o with
  | some r => decide (r = ⟨f.off, f.len / 8, f.signed, f.resNum, f.resExp⟩) && f.len % 8 == 0
  | none => f.resNum == 1 && f.resExp == 0 &&
      (P.intBits.getD o 0 != f.len || P.signedInts.contains o == f.signed)

/-- the field holds the constant `v` -/
def constAgree (P : Pair) (f : PubField) (v : Nat) : Bool :=
  (List.range f.len).all fun i => srcAt P.setter (f.off + i) == some (if v.testBit i then .one else .zero)

def agreesField (P : Pair) (f : PubField) : Bool :=
  match f.src with
  | .free => true
  | .const v => constAgree P f v
  | .param n =>
    match P.names.findIdx? (· == n) with
    | none => false
    | some o => bitsAgree P f o && recAgree P f o

def agreesOnFields (P : Pair) (L : List PubField) : Bool := L.all (agreesField P)

/-- the integer a payload holds in the bits `[off, off+len)` (little endian, as every NMEA 2000 field) -/
def fieldValue (payload : List Bool) (off len : Nat) : Nat := ofBits ((payload.drop off).take len)

/-- PGN 59392 ISO Acknowledgement -/
def layout_59392 : List PubField := [
  ⟨"Control", 0, 8, false, 1, 0, .param "Control"⟩,
  ⟨"Group Function", 8, 8, false, 1, 0, .param "GroupFunction"⟩,
  ⟨"Reserved", 16, 24, false, 1, 0, .free⟩,
  ⟨"PGN", 40, 24, false, 1, 0, .param "PGN"⟩]

/-- PGN 59904 ISO Request -/
def layout_59904 : List PubField := [
  ⟨"PGN", 0, 24, false, 1, 0, .param "RequestedPGN"⟩]

/-- PGN 60928 ISO Address Claim -/
def layout_60928 : List PubField := [
  ⟨"Unique Number", 0, 21, false, 1, 0, .param "UniqueNumber"⟩,
  ⟨"Manufacturer Code", 21, 11, false, 1, 0, .param "ManufacturerCode"⟩,
  ⟨"Device Instance", 32, 8, false, 1, 0, .param "DeviceInstance"⟩,
  ⟨"Device Function", 40, 8, false, 1, 0, .param "DeviceFunction"⟩,
  ⟨"Reserved", 48, 1, false, 1, 0, .free⟩,
  ⟨"Device Class", 49, 7, false, 1, 0, .param "DeviceClass"⟩,
  ⟨"System Instance", 56, 4, false, 1, 0, .param "SystemInstance"⟩,
  ⟨"Industry Group", 60, 3, false, 1, 0, .param "IndustryGroup"⟩,
  ⟨"Reserved", 63, 1, false, 1, 0, .free⟩]

/-- PGN 126993 Heartbeat -/
def layout_126993 : List PubField := [
  -- published name "Data transmit offset": 0.01 s per bit, i.e. 10 per bit in the library's unit (ms)
  ⟨"interval", 0, 16, false, 10, 0, .param "timeInterval_ms"⟩,
  ⟨"Sequence Counter", 16, 8, false, 1, 0, .param "sequenceCounter"⟩,
  ⟨"Reserved", 24, 40, false, 1, 0, .free⟩]

/-- PGN 126996 Product Information -/
def layout_126996 : List PubField := [
  ⟨"NMEA 2000 Version", 0, 16, false, 1, 0, .param "N2kVersion"⟩,
  ⟨"Product Code", 16, 16, false, 1, 0, .param "ProductCode"⟩,
  ⟨"Model ID", 32, 256, false, 1, 0, .param "ModelID"⟩,
  ⟨"Software Version Code", 288, 256, false, 1, 0, .param "SwCode"⟩,
  ⟨"Model Version", 544, 256, false, 1, 0, .param "ModelVersion"⟩,
  ⟨"Model Serial Code", 800, 256, false, 1, 0, .param "ModelSerialCode"⟩,
  ⟨"Certification Level", 1056, 8, false, 1, 0, .param "CertificationLevel"⟩,
  ⟨"Load Equivalency", 1064, 8, false, 1, 0, .param "LoadEquivalency"⟩]

/-- PGN 126992 System Time -/
def layout_126992 : List PubField := [
  ⟨"SID", 0, 8, false, 1, 0, .param "SID"⟩,
  ⟨"Source", 8, 4, false, 1, 0, .param "TimeSource"⟩,
  ⟨"Reserved", 12, 4, false, 1, 0, .free⟩,
  ⟨"Date", 16, 16, false, 1, 0, .param "SystemDate"⟩,
  ⟨"Time", 32, 32, false, 1, 4, .param "SystemTime"⟩]

/-- PGN 127245 Rudder -/
def layout_127245 : List PubField := [
  ⟨"Instance", 0, 8, false, 1, 0, .param "Instance"⟩,
  ⟨"Direction Order", 8, 3, false, 1, 0, .param "RudderDirectionOrder"⟩,
  ⟨"Reserved", 11, 5, false, 1, 0, .free⟩,
  ⟨"Angle Order", 16, 16, true, 1, 4, .param "AngleOrder"⟩,
  ⟨"Position", 32, 16, true, 1, 4, .param "RudderPosition"⟩,
  ⟨"Reserved", 48, 16, false, 1, 0, .free⟩]

/-- PGN 127250 Vessel Heading -/
def layout_127250 : List PubField := [
  ⟨"SID", 0, 8, false, 1, 0, .param "SID"⟩,
  ⟨"Heading", 8, 16, false, 1, 4, .param "Heading"⟩,
  ⟨"Deviation", 24, 16, true, 1, 4, .param "Deviation"⟩,
  ⟨"Variation", 40, 16, true, 1, 4, .param "Variation"⟩,
  ⟨"Reference", 56, 2, false, 1, 0, .param "ref"⟩,
  ⟨"Reserved", 58, 6, false, 1, 0, .free⟩]

/-- PGN 127251 Rate of Turn -/
def layout_127251 : List PubField := [
  ⟨"SID", 0, 8, false, 1, 0, .param "SID"⟩,
  ⟨"Rate", 8, 32, true, 3125, 11, .param "RateOfTurn"⟩,
  ⟨"Reserved", 40, 24, false, 1, 0, .free⟩]

/-- PGN 127257 Attitude -/
def layout_127257 : List PubField := [
  ⟨"SID", 0, 8, false, 1, 0, .param "SID"⟩,
  ⟨"Yaw", 8, 16, true, 1, 4, .param "Yaw"⟩,
  ⟨"Pitch", 24, 16, true, 1, 4, .param "Pitch"⟩,
  ⟨"Roll", 40, 16, true, 1, 4, .param "Roll"⟩,
  ⟨"Reserved", 56, 8, false, 1, 0, .free⟩]

/-- PGN 127488 Engine Parameters, Rapid Update -/
def layout_127488 : List PubField := [
  ⟨"Instance", 0, 8, false, 1, 0, .param "EngineInstance"⟩,
  ⟨"Speed", 8, 16, false, 25, 2, .param "EngineSpeed"⟩,
  ⟨"Boost Pressure", 24, 16, false, 100, 0, .param "EngineBoostPressure"⟩,
  ⟨"Tilt/Trim", 40, 8, true, 1, 0, .param "EngineTiltTrim"⟩,
  ⟨"Reserved", 48, 16, false, 1, 0, .free⟩]

/-- PGN 127489 Engine Parameters, Dynamic -/
def layout_127489 : List PubField := [
  ⟨"Instance", 0, 8, false, 1, 0, .param "EngineInstance"⟩,
  ⟨"Oil pressure", 8, 16, false, 100, 0, .param "EngineOilPress"⟩,
  ⟨"Oil temperature", 24, 16, false, 1, 1, .param "EngineOilTemp"⟩,
  ⟨"Temperature", 40, 16, false, 1, 2, .param "EngineCoolantTemp"⟩,
  ⟨"Alternator Potential", 56, 16, true, 1, 2, .param "AltenatorVoltage"⟩,
  ⟨"Fuel Rate", 72, 16, true, 1, 1, .param "FuelRate"⟩,
  ⟨"Total Engine hours", 88, 32, false, 1, 0, .param "EngineHours"⟩,
  ⟨"Coolant Pressure", 120, 16, false, 100, 0, .param "EngineCoolantPress"⟩,
  ⟨"Fuel Pressure", 136, 16, false, 1000, 0, .param "EngineFuelPress"⟩,
  ⟨"Reserved", 152, 8, false, 1, 0, .free⟩,
  ⟨"Discrete Status 1", 160, 16, false, 1, 0, .param "Status1"⟩,
  ⟨"Discrete Status 2", 176, 16, false, 1, 0, .param "Status2"⟩,
  ⟨"Engine Load", 192, 8, true, 1, 0, .param "EngineLoad"⟩,
  ⟨"Engine Torque", 200, 8, true, 1, 0, .param "EngineTorque"⟩]

/-- PGN 127505 Fluid Level -/
def layout_127505 : List PubField := [
  ⟨"Instance", 0, 4, false, 1, 0, .param "Instance"⟩,
  ⟨"Type", 4, 4, false, 1, 0, .param "FluidType"⟩,
  ⟨"Level", 8, 16, true, 4, 3, .param "Level"⟩,
  ⟨"Capacity", 24, 32, false, 1, 1, .param "Capacity"⟩,
  ⟨"Reserved", 56, 8, false, 1, 0, .free⟩]

/-- PGN 127508 Battery Status -/
def layout_127508 : List PubField := [
  ⟨"Instance", 0, 8, false, 1, 0, .param "BatteryInstance"⟩,
  ⟨"Voltage", 8, 16, true, 1, 2, .param "BatteryVoltage"⟩,
  ⟨"Current", 24, 16, true, 1, 1, .param "BatteryCurrent"⟩,
  ⟨"Temperature", 40, 16, false, 1, 2, .param "BatteryTemperature"⟩,
  ⟨"SID", 56, 8, false, 1, 0, .param "SID"⟩]

/-- PGN 128259 Speed -/
def layout_128259 : List PubField := [
  ⟨"SID", 0, 8, false, 1, 0, .param "SID"⟩,
  ⟨"Speed Water Referenced", 8, 16, false, 1, 2, .param "WaterReferenced"⟩,
  ⟨"Speed Ground Referenced", 24, 16, false, 1, 2, .param "GroundReferenced"⟩,
  ⟨"Speed Water Referenced Type", 40, 8, false, 1, 0, .param "SWRT"⟩,
  ⟨"Reserved", 48, 4, false, 1, 0, .free⟩,
  ⟨"Reserved", 52, 12, false, 1, 0, .free⟩]

/-- PGN 128267 Water Depth -/
def layout_128267 : List PubField := [
  ⟨"SID", 0, 8, false, 1, 0, .param "SID"⟩,
  ⟨"Depth", 8, 32, false, 1, 2, .param "DepthBelowTransducer"⟩,
  ⟨"Offset", 40, 16, true, 1, 3, .param "Offset"⟩,
  ⟨"Range", 56, 8, false, 10, 0, .param "Range"⟩]

/-- PGN 128275 Distance Log -/
def layout_128275 : List PubField := [
  ⟨"Date", 0, 16, false, 1, 0, .param "DaysSince1970"⟩,
  ⟨"Time", 16, 32, false, 1, 4, .param "SecondsSinceMidnight"⟩,
  ⟨"Log", 48, 32, false, 1, 0, .param "Log"⟩,
  ⟨"Trip Log", 80, 32, false, 1, 0, .param "TripLog"⟩]

/-- PGN 129025 Position, Rapid Update -/
def layout_129025 : List PubField := [
  ⟨"Latitude", 0, 32, true, 1, 7, .param "Latitude"⟩,
  ⟨"Longitude", 32, 32, true, 1, 7, .param "Longitude"⟩]

/-- PGN 129026 COG & SOG, Rapid Update -/
def layout_129026 : List PubField := [
  ⟨"SID", 0, 8, false, 1, 0, .param "SID"⟩,
  ⟨"COG Reference", 8, 2, false, 1, 0, .param "ref"⟩,
  ⟨"Reserved", 10, 6, false, 1, 0, .free⟩,
  ⟨"COG", 16, 16, false, 1, 4, .param "COG"⟩,
  ⟨"SOG", 32, 16, false, 1, 2, .param "SOG"⟩,
  ⟨"Reserved", 48, 16, false, 1, 0, .free⟩]

/-- PGN 129029 GNSS Position Data -/
def layout_129029 : List PubField := [
  ⟨"SID", 0, 8, false, 1, 0, .param "SID"⟩,
  ⟨"Date", 8, 16, false, 1, 0, .param "DaysSince1970"⟩,
  ⟨"Time", 24, 32, false, 1, 4, .param "SecondsSinceMidnight"⟩,
  ⟨"Latitude", 56, 64, true, 1, 16, .param "Latitude"⟩,
  ⟨"Longitude", 120, 64, true, 1, 16, .param "Longitude"⟩,
  ⟨"Altitude", 184, 64, true, 1, 6, .param "Altitude"⟩,
  ⟨"GNSS type", 248, 4, false, 1, 0, .param "GNSStype"⟩,
  ⟨"Method", 252, 4, false, 1, 0, .param "GNSSmethod"⟩,
  ⟨"Reserved", 256, 2, false, 1, 0, .free⟩,
  ⟨"Reserved", 258, 6, false, 1, 0, .free⟩,
  ⟨"Number of SVs", 264, 8, false, 1, 0, .param "nSatellites"⟩,
  ⟨"HDOP", 272, 16, true, 1, 2, .param "HDOP"⟩,
  ⟨"PDOP", 288, 16, true, 1, 2, .param "PDOP"⟩,
  ⟨"Geoidal Separation", 304, 32, true, 1, 2, .param "GeoidalSeparation"⟩]

/-- PGN 129029, the repeated reference-station record as the library writes it for exactly one station
(`pair_129029_a`: the setter path with `nReferenceStations` in 1..254; the count itself is written as 1) -/
def layout_129029_a : List PubField := [
  ⟨"Reference Station Type", 344, 4, false, 1, 0, .param "ReferenceStationType"⟩,
  ⟨"Reference Station ID", 348, 12, false, 1, 0, .param "ReferenceSationID"⟩,
  ⟨"Age of DGNSS Corrections", 360, 16, false, 1, 2, .param "AgeOfCorrection"⟩]

/-- PGN 129033 Time & Date -/
def layout_129033 : List PubField := [
  ⟨"Date", 0, 16, false, 1, 0, .param "DaysSince1970"⟩,
  ⟨"Time", 16, 32, false, 1, 4, .param "SecondsSinceMidnight"⟩,
  ⟨"Local Offset", 48, 16, true, 1, 0, .param "LocalOffset"⟩]

/-- PGN 129283 Cross Track Error -/
def layout_129283 : List PubField := [
  ⟨"SID", 0, 8, false, 1, 0, .param "SID"⟩,
  ⟨"XTE mode", 8, 4, false, 1, 0, .param "XTEMode"⟩,
  ⟨"Reserved", 12, 2, false, 1, 0, .free⟩,
  ⟨"Navigation Terminated", 14, 2, false, 1, 0, .param "NavigationTerminated"⟩,
  ⟨"XTE", 16, 32, true, 1, 2, .param "XTE"⟩,
  ⟨"Reserved", 48, 16, false, 1, 0, .free⟩]

/-- PGN 129284 Navigation Data -/
def layout_129284 : List PubField := [
  ⟨"SID", 0, 8, false, 1, 0, .param "SID"⟩,
  ⟨"Distance to Waypoint", 8, 32, false, 1, 2, .param "DistanceToWaypoint"⟩,
  ⟨"Course/Bearing reference", 40, 2, false, 1, 0, .param "BearingReference"⟩,
  ⟨"Perpendicular Crossed", 42, 2, false, 1, 0, .param "PerpendicularCrossed"⟩,
  ⟨"Arrival Circle Entered", 44, 2, false, 1, 0, .param "ArrivalCircleEntered"⟩,
  ⟨"Calculation Type", 46, 2, false, 1, 0, .param "CalculationType"⟩,
  ⟨"ETA Time", 48, 32, false, 1, 4, .param "ETATime"⟩,
  ⟨"ETA Date", 80, 16, false, 1, 0, .param "ETADate"⟩,
  ⟨"Bearing, Origin to Destination Waypoint", 96, 16, false, 1, 4, .param "BearingOriginToDestinationWaypoint"⟩,
  ⟨"Bearing, Position to Destination Waypoint", 112, 16, false, 1, 4, .param "BearingPositionToDestinationWaypoint"⟩,
  ⟨"Origin Waypoint Number", 128, 32, false, 1, 0, .param "OriginWaypointNumber"⟩,
  ⟨"Destination Waypoint Number", 160, 32, false, 1, 0, .param "DestinationWaypointNumber"⟩,
  ⟨"Destination Latitude", 192, 32, true, 1, 7, .param "DestinationLatitude"⟩,
  ⟨"Destination Longitude", 224, 32, true, 1, 7, .param "DestinationLongitude"⟩,
  ⟨"Waypoint Closing Velocity", 256, 16, true, 1, 2, .param "WaypointClosingVelocity"⟩]

/-- PGN 129539 GNSS DOPs -/
def layout_129539 : List PubField := [
  ⟨"SID", 0, 8, false, 1, 0, .param "SID"⟩,
  ⟨"Desired Mode", 8, 3, false, 1, 0, .param "DesiredMode"⟩,
  ⟨"Actual Mode", 11, 3, false, 1, 0, .param "ActualMode"⟩,
  ⟨"Reserved", 14, 2, false, 1, 0, .free⟩,
  ⟨"HDOP", 16, 16, true, 1, 2, .param "HDOP"⟩,
  ⟨"VDOP", 32, 16, true, 1, 2, .param "VDOP"⟩,
  ⟨"TDOP", 48, 16, true, 1, 2, .param "TDOP"⟩]

/-- PGN 130306 Wind Data -/
def layout_130306 : List PubField := [
  ⟨"SID", 0, 8, false, 1, 0, .param "SID"⟩,
  ⟨"Wind Speed", 8, 16, false, 1, 2, .param "WindSpeed"⟩,
  ⟨"Wind Angle", 24, 16, false, 1, 4, .param "WindAngle"⟩,
  ⟨"Reference", 40, 3, false, 1, 0, .param "WindReference"⟩,
  ⟨"Reserved", 43, 21, false, 1, 0, .free⟩]

/-- PGN 130310 Environmental Parameters (outside) -/
def layout_130310 : List PubField := [
  ⟨"SID", 0, 8, false, 1, 0, .param "SID"⟩,
  ⟨"Water Temperature", 8, 16, false, 1, 2, .param "WaterTemperature"⟩,
  ⟨"Outside Ambient Air Temperature", 24, 16, false, 1, 2, .param "OutsideAmbientAirTemperature"⟩,
  ⟨"Atmospheric Pressure", 40, 16, false, 100, 0, .param "AtmosphericPressure"⟩,
  ⟨"Reserved", 56, 8, false, 1, 0, .free⟩]

/-- PGN 130311 Environmental Parameters -/
def layout_130311 : List PubField := [
  ⟨"SID", 0, 8, false, 1, 0, .param "SID"⟩,
  ⟨"Temperature Source", 8, 6, false, 1, 0, .param "TempSource"⟩,
  ⟨"Humidity Source", 14, 2, false, 1, 0, .param "HumiditySource"⟩,
  ⟨"Temperature", 16, 16, false, 1, 2, .param "Temperature"⟩,
  ⟨"Humidity", 32, 16, true, 4, 3, .param "Humidity"⟩,
  ⟨"Atmospheric Pressure", 48, 16, false, 100, 0, .param "AtmosphericPressure"⟩]

/-- PGN 130312 Temperature -/
def layout_130312 : List PubField := [
  ⟨"SID", 0, 8, false, 1, 0, .param "SID"⟩,
  ⟨"Instance", 8, 8, false, 1, 0, .param "TempInstance"⟩,
  ⟨"Source", 16, 8, false, 1, 0, .param "TempSource"⟩,
  ⟨"Actual Temperature", 24, 16, false, 1, 2, .param "ActualTemperature"⟩,
  ⟨"Set Temperature", 40, 16, false, 1, 2, .param "SetTemperature"⟩,
  ⟨"Reserved", 56, 8, false, 1, 0, .free⟩]

/-- PGN 130313 Humidity -/
def layout_130313 : List PubField := [
  ⟨"SID", 0, 8, false, 1, 0, .param "SID"⟩,
  ⟨"Instance", 8, 8, false, 1, 0, .param "HumidityInstance"⟩,
  ⟨"Source", 16, 8, false, 1, 0, .param "HumiditySource"⟩,
  ⟨"Actual Humidity", 24, 16, true, 4, 3, .param "ActualHumidity"⟩,
  ⟨"Set Humidity", 40, 16, true, 4, 3, .param "SetHumidity"⟩,
  ⟨"Reserved", 56, 8, false, 1, 0, .free⟩]

/-- PGN 130314 Actual Pressure -/
def layout_130314 : List PubField := [
  ⟨"SID", 0, 8, false, 1, 0, .param "SID"⟩,
  ⟨"Instance", 8, 8, false, 1, 0, .param "PressureInstance"⟩,
  ⟨"Source", 16, 8, false, 1, 0, .param "PressureSource"⟩,
  ⟨"Pressure", 24, 32, true, 1, 1, .param "ActualPressure"⟩,
  ⟨"Reserved", 56, 8, false, 1, 0, .free⟩]

/-- PGN 130316 Temperature, Extended Range -/
def layout_130316 : List PubField := [
  ⟨"SID", 0, 8, false, 1, 0, .param "SID"⟩,
  ⟨"Instance", 8, 8, false, 1, 0, .param "TempInstance"⟩,
  ⟨"Source", 16, 8, false, 1, 0, .param "TempSource"⟩,
  ⟨"Temperature", 24, 24, false, 1, 3, .param "ActualTemperature"⟩,
  ⟨"Set Temperature", 48, 16, false, 1, 1, .param "SetTemperature"⟩]


/-! ## Published code points of the enumerated fields (frozen)

`(library enumerator, published numeric code)`: the code is the number the public lookup table of the field gives
for the MEANING of the enumerator (canboat-style lookups: WIND_REFERENCE, TEMPERATURE_SOURCE, …); "error" and
"not available" are the two highest codes of the field. Written as numeric literals, never via the library's
enumeration, so an exchanged pair of enumerators in `N2kTypes.h` (which setter and parser would share) is caught. -/
def enum_TimeSource : List (String × Nat) := [("N2ktimes_GPS", 0), ("N2ktimes_GLONASS", 1), ("N2ktimes_RadioStation", 2),
  ("N2ktimes_LocalCesiumClock", 3), ("N2ktimes_LocalRubidiumClock", 4), ("N2ktimes_LocalCrystalClock", 5)]
def enum_RudderDirectionOrder : List (String × Nat) := [("N2kRDO_NoDirectionOrder", 0), ("N2kRDO_MoveToStarboard", 1),
  ("N2kRDO_MoveToPort", 2), ("N2kRDO_Unavailable", 7)]
def enum_HeadingReference : List (String × Nat) := [("N2khr_true", 0), ("N2khr_magnetic", 1), ("N2khr_error", 2), ("N2khr_Unavailable", 3)]
def enum_FluidType : List (String × Nat) := [("N2kft_Fuel", 0), ("N2kft_Water", 1), ("N2kft_GrayWater", 2), ("N2kft_LiveWell", 3),
  ("N2kft_Oil", 4), ("N2kft_BlackWater", 5), ("N2kft_FuelGasoline", 6), ("N2kft_Error", 14), ("N2kft_Unavailable", 15)]
def enum_SpeedWaterReferenceType : List (String × Nat) := [("N2kSWRT_Paddle_wheel", 0), ("N2kSWRT_Pitot_tube", 1),
  ("N2kSWRT_Doppler_log", 2), ("N2kSWRT_Ultra_Sound", 3), ("N2kSWRT_Electro_magnetic", 4), ("N2kSWRT_Error", 254), ("N2kSWRT_Unavailable", 255)]
def enum_GNSStype : List (String × Nat) := [("N2kGNSSt_GPS", 0), ("N2kGNSSt_GLONASS", 1), ("N2kGNSSt_GPSGLONASS", 2),
  ("N2kGNSSt_GPSSBASWAAS", 3), ("N2kGNSSt_GPSSBASWAASGLONASS", 4), ("N2kGNSSt_Chayka", 5), ("N2kGNSSt_integrated", 6),
  ("N2kGNSSt_surveyed", 7), ("N2kGNSSt_Galileo", 8)]
def enum_GNSSmethod : List (String × Nat) := [("N2kGNSSm_noGNSS", 0), ("N2kGNSSm_GNSSfix", 1), ("N2kGNSSm_DGNSS", 2),
  ("N2kGNSSm_PreciseGNSS", 3), ("N2kGNSSm_RTKFixed", 4), ("N2kGNSSm_RTKFloat", 5), ("N2kGNSSm_Error", 14), ("N2kGNSSm_Unavailable", 15)]
def enum_XTEMode : List (String × Nat) := [("N2kxtem_Autonomous", 0), ("N2kxtem_Differential", 1), ("N2kxtem_Estimated", 2),
  ("N2kxtem_Simulator", 3), ("N2kxtem_Manual", 4)]
def enum_DistanceCalculationType : List (String × Nat) := [("N2kdct_GreatCircle", 0), ("N2kdct_RhumbLine", 1)]
def enum_GNSSDOPmode : List (String × Nat) := [("N2kGNSSdm_1D", 0), ("N2kGNSSdm_2D", 1), ("N2kGNSSdm_3D", 2), ("N2kGNSSdm_Auto", 3),
  ("N2kGNSSdm_Error", 6), ("N2kGNSSdm_Unavailable", 7)]
def enum_WindReference : List (String × Nat) := [("N2kWind_True_North", 0), ("N2kWind_Magnetic", 1), ("N2kWind_Apparent", 2),
  ("N2kWind_True_boat", 3), ("N2kWind_True_water", 4), ("N2kWind_Error", 6), ("N2kWind_Unavailable", 7)]
def enum_TempSource : List (String × Nat) := [("N2kts_SeaTemperature", 0), ("N2kts_OutsideTemperature", 1), ("N2kts_InsideTemperature", 2),
  ("N2kts_EngineRoomTemperature", 3), ("N2kts_MainCabinTemperature", 4), ("N2kts_LiveWellTemperature", 5), ("N2kts_BaitWellTemperature", 6),
  ("N2kts_RefridgerationTemperature", 7), ("N2kts_HeatingSystemTemperature", 8), ("N2kts_DewPointTemperature", 9),
  ("N2kts_ApparentWindChillTemperature", 10), ("N2kts_TheoreticalWindChillTemperature", 11), ("N2kts_HeatIndexTemperature", 12),
  ("N2kts_FreezerTemperature", 13), ("N2kts_ExhaustGasTemperature", 14), ("N2kts_ShaftSealTemperature", 15)]
def enum_HumiditySource : List (String × Nat) := [("N2khs_InsideHumidity", 0), ("N2khs_OutsideHumidity", 1), ("N2khs_Undef", 255)]
def enum_PressureSource : List (String × Nat) := [("N2kps_Atmospheric", 0), ("N2kps_Water", 1), ("N2kps_Steam", 2), ("N2kps_CompressedAir", 3),
  ("N2kps_Hydraulic", 4), ("N2kps_Filter", 5), ("N2kps_AltimeterSetting", 6), ("N2kps_Oil", 7), ("N2kps_Fuel", 8),
  ("N2kps_Reserved", 253), ("N2kps_Error", 254), ("N2kps_Unavailable", 255)]
def enum_PGNList : List (String × Nat) := [("N2kpgnl_transmit", 0), ("N2kpgnl_receive", 1)]

/-- which published field carries which enumeration: (table id, published field name, enumeration table); in a
field narrower than the code (a 2-bit humidity source) the code is cut to the field, NA staying all ones -/
def enumFields : List (String × String × String) := [
  ("126992", "Source", "enum_TimeSource"), ("127245", "Direction Order", "enum_RudderDirectionOrder"),
  ("127250", "Reference", "enum_HeadingReference"), ("127505", "Type", "enum_FluidType"),
  ("128259", "Speed Water Referenced Type", "enum_SpeedWaterReferenceType"), ("129026", "COG Reference", "enum_HeadingReference"),
  ("129029", "GNSS type", "enum_GNSStype"), ("129029", "Method", "enum_GNSSmethod"), ("129029_a", "Reference Station Type", "enum_GNSStype"),
  ("129283", "XTE mode", "enum_XTEMode"), ("129284", "Course/Bearing reference", "enum_HeadingReference"),
  ("129284", "Calculation Type", "enum_DistanceCalculationType"), ("129539", "Desired Mode", "enum_GNSSDOPmode"),
  ("129539", "Actual Mode", "enum_GNSSDOPmode"), ("130306", "Reference", "enum_WindReference"),
  ("130311", "Temperature Source", "enum_TempSource"), ("130311", "Humidity Source", "enum_HumiditySource"),
  ("130312", "Source", "enum_TempSource"), ("130313", "Source", "enum_HumiditySource"), ("130314", "Source", "enum_PressureSource"),
  ("130316", "Source", "enum_TempSource")]

/-! ## Every public way of producing a listed PGN (frozen)

`mainTables`: PGN ↦ published layout, used for every setter overload / alias wrapper whose parameter names are those of
the table. `wrapperTables`: overloads whose parameters differ (flag-style overloads, wrappers that fix a field) have
a table of their own, keyed by `name/number of parameters`. Status bits: the published bit assignment of
"Discrete Status 1" (DD206) and "Discrete Status 2" (DD223) of PGN 127489, one 1-bit field per flag. -/
def engineFlagBits : List PubField := [
  ⟨"DS1 Check Engine", 160, 1, false, 1, 0, .param "flagCheckEngine"⟩, ⟨"DS1 Over Temperature", 161, 1, false, 1, 0, .param "flagOverTemp"⟩,
  ⟨"DS1 Low Oil Pressure", 162, 1, false, 1, 0, .param "flagLowOilPress"⟩, ⟨"DS1 Low Oil Level", 163, 1, false, 1, 0, .param "flagLowOilLevel"⟩,
  ⟨"DS1 Low Fuel Pressure", 164, 1, false, 1, 0, .param "flagLowFuelPress"⟩, ⟨"DS1 Low System Voltage", 165, 1, false, 1, 0, .param "flagLowSystemVoltage"⟩,
  ⟨"DS1 Low Coolant Level", 166, 1, false, 1, 0, .param "flagLowCoolantLevel"⟩, ⟨"DS1 Water Flow", 167, 1, false, 1, 0, .param "flagWaterFlow"⟩,
  ⟨"DS1 Water In Fuel", 168, 1, false, 1, 0, .param "flagWaterInFuel"⟩, ⟨"DS1 Charge Indicator", 169, 1, false, 1, 0, .param "flagChargeIndicator"⟩,
  ⟨"DS1 Preheat Indicator", 170, 1, false, 1, 0, .param "flagPreheatIndicator"⟩, ⟨"DS1 High Boost Pressure", 171, 1, false, 1, 0, .param "flagHighBoostPress"⟩,
  ⟨"DS1 Rev Limit Exceeded", 172, 1, false, 1, 0, .param "flagRevLimitExceeded"⟩, ⟨"DS1 EGR System", 173, 1, false, 1, 0, .param "flagEgrSystem"⟩,
  ⟨"DS1 Throttle Position Sensor", 174, 1, false, 1, 0, .param "flagTPS"⟩, ⟨"DS1 Engine Emergency Stop Mode", 175, 1, false, 1, 0, .param "flagEmergencyStopMode"⟩,
  ⟨"DS2 Warning Level 1", 176, 1, false, 1, 0, .param "flagWarning1"⟩, ⟨"DS2 Warning Level 2", 177, 1, false, 1, 0, .param "flagWarning2"⟩,
  ⟨"DS2 Power Reduction", 178, 1, false, 1, 0, .param "flagPowerReduction"⟩, ⟨"DS2 Maintenance Needed", 179, 1, false, 1, 0, .param "flagMaintenanceNeeded"⟩,
  ⟨"DS2 Engine Comm Error", 180, 1, false, 1, 0, .param "flagEngineCommError"⟩, ⟨"DS2 Sub or Secondary Throttle", 181, 1, false, 1, 0, .param "flagSubThrottle"⟩,
  ⟨"DS2 Neutral Start Protect", 182, 1, false, 1, 0, .param "flagNeutralStartProtect"⟩, ⟨"DS2 Engine Shutting Down", 183, 1, false, 1, 0, .param "flagEngineShuttingDown"⟩]

/-- PGN 127489 through the overloads that take one bool per status bit -/
def wlayout_SetN2kPGN127489_35 : List PubField := [
  ⟨"Instance", 0, 8, false, 1, 0, .param "EngineInstance"⟩,
  ⟨"Oil pressure", 8, 16, false, 100, 0, .param "EngineOilPress"⟩,
  ⟨"Oil temperature", 24, 16, false, 1, 1, .param "EngineOilTemp"⟩,
  ⟨"Temperature", 40, 16, false, 1, 2, .param "EngineCoolantTemp"⟩,
  ⟨"Alternator Potential", 56, 16, true, 1, 2, .param "AltenatorVoltage"⟩,
  ⟨"Fuel Rate", 72, 16, true, 1, 1, .param "FuelRate"⟩,
  ⟨"Total Engine hours", 88, 32, false, 1, 0, .param "EngineHours"⟩,
  ⟨"Coolant Pressure", 120, 16, false, 100, 0, .param "EngineCoolantPress"⟩,
  ⟨"Fuel Pressure", 136, 16, false, 1000, 0, .param "EngineFuelPress"⟩,
  ⟨"Reserved", 152, 8, false, 1, 0, .free⟩,
  ⟨"Engine Load", 192, 8, true, 1, 0, .param "EngineLoad"⟩,
  ⟨"Engine Torque", 200, 8, true, 1, 0, .param "EngineTorque"⟩,
  ⟨"DS1 Check Engine", 160, 1, false, 1, 0, .param "flagCheckEngine"⟩,
  ⟨"DS1 Over Temperature", 161, 1, false, 1, 0, .param "flagOverTemp"⟩,
  ⟨"DS1 Low Oil Pressure", 162, 1, false, 1, 0, .param "flagLowOilPress"⟩,
  ⟨"DS1 Low Oil Level", 163, 1, false, 1, 0, .param "flagLowOilLevel"⟩,
  ⟨"DS1 Low Fuel Pressure", 164, 1, false, 1, 0, .param "flagLowFuelPress"⟩,
  ⟨"DS1 Low System Voltage", 165, 1, false, 1, 0, .param "flagLowSystemVoltage"⟩,
  ⟨"DS1 Low Coolant Level", 166, 1, false, 1, 0, .param "flagLowCoolantLevel"⟩,
  ⟨"DS1 Water Flow", 167, 1, false, 1, 0, .param "flagWaterFlow"⟩,
  ⟨"DS1 Water In Fuel", 168, 1, false, 1, 0, .param "flagWaterInFuel"⟩,
  ⟨"DS1 Charge Indicator", 169, 1, false, 1, 0, .param "flagChargeIndicator"⟩,
  ⟨"DS1 Preheat Indicator", 170, 1, false, 1, 0, .param "flagPreheatIndicator"⟩,
  ⟨"DS1 High Boost Pressure", 171, 1, false, 1, 0, .param "flagHighBoostPress"⟩,
  ⟨"DS1 Rev Limit Exceeded", 172, 1, false, 1, 0, .param "flagRevLimitExceeded"⟩,
  ⟨"DS1 EGR System", 173, 1, false, 1, 0, .param "flagEgrSystem"⟩,
  ⟨"DS1 Throttle Position Sensor", 174, 1, false, 1, 0, .param "flagTPS"⟩,
  ⟨"DS1 Engine Emergency Stop Mode", 175, 1, false, 1, 0, .param "flagEmergencyStopMode"⟩,
  ⟨"DS2 Warning Level 1", 176, 1, false, 1, 0, .param "flagWarning1"⟩,
  ⟨"DS2 Warning Level 2", 177, 1, false, 1, 0, .param "flagWarning2"⟩,
  ⟨"DS2 Power Reduction", 178, 1, false, 1, 0, .param "flagPowerReduction"⟩,
  ⟨"DS2 Maintenance Needed", 179, 1, false, 1, 0, .param "flagMaintenanceNeeded"⟩,
  ⟨"DS2 Engine Comm Error", 180, 1, false, 1, 0, .param "flagEngineCommError"⟩,
  ⟨"DS2 Sub or Secondary Throttle", 181, 1, false, 1, 0, .param "flagSubThrottle"⟩,
  ⟨"DS2 Neutral Start Protect", 182, 1, false, 1, 0, .param "flagNeutralStartProtect"⟩,
  ⟨"DS2 Engine Shutting Down", 183, 1, false, 1, 0, .param "flagEngineShuttingDown"⟩]
def wlayout_SetN2kEngineDynamicParam_35 : List PubField := [
  ⟨"Instance", 0, 8, false, 1, 0, .param "EngineInstance"⟩,
  ⟨"Oil pressure", 8, 16, false, 100, 0, .param "EngineOilPress"⟩,
  ⟨"Oil temperature", 24, 16, false, 1, 1, .param "EngineOilTemp"⟩,
  ⟨"Temperature", 40, 16, false, 1, 2, .param "EngineCoolantTemp"⟩,
  ⟨"Alternator Potential", 56, 16, true, 1, 2, .param "AltenatorVoltage"⟩,
  ⟨"Fuel Rate", 72, 16, true, 1, 1, .param "FuelRate"⟩,
  ⟨"Total Engine hours", 88, 32, false, 1, 0, .param "EngineHours"⟩,
  ⟨"Coolant Pressure", 120, 16, false, 100, 0, .param "EngineCoolantPress"⟩,
  ⟨"Fuel Pressure", 136, 16, false, 1000, 0, .param "EngineFuelPress"⟩,
  ⟨"Reserved", 152, 8, false, 1, 0, .free⟩,
  ⟨"Engine Load", 192, 8, true, 1, 0, .param "EngineLoad"⟩,
  ⟨"Engine Torque", 200, 8, true, 1, 0, .param "EngineTorque"⟩,
  ⟨"DS1 Check Engine", 160, 1, false, 1, 0, .param "flagCheckEngine"⟩,
  ⟨"DS1 Over Temperature", 161, 1, false, 1, 0, .param "flagOverTemp"⟩,
  ⟨"DS1 Low Oil Pressure", 162, 1, false, 1, 0, .param "flagLowOilPress"⟩,
  ⟨"DS1 Low Oil Level", 163, 1, false, 1, 0, .param "flagLowOilLevel"⟩,
  ⟨"DS1 Low Fuel Pressure", 164, 1, false, 1, 0, .param "flagLowFuelPress"⟩,
  ⟨"DS1 Low System Voltage", 165, 1, false, 1, 0, .param "flagLowSystemVoltage"⟩,
  ⟨"DS1 Low Coolant Level", 166, 1, false, 1, 0, .param "flagLowCoolantLevel"⟩,
  ⟨"DS1 Water Flow", 167, 1, false, 1, 0, .param "flagWaterFlow"⟩,
  ⟨"DS1 Water In Fuel", 168, 1, false, 1, 0, .param "flagWaterInFuel"⟩,
  ⟨"DS1 Charge Indicator", 169, 1, false, 1, 0, .param "flagChargeIndicator"⟩,
  ⟨"DS1 Preheat Indicator", 170, 1, false, 1, 0, .param "flagPreheatIndicator"⟩,
  ⟨"DS1 High Boost Pressure", 171, 1, false, 1, 0, .param "flagHighBoostPress"⟩,
  ⟨"DS1 Rev Limit Exceeded", 172, 1, false, 1, 0, .param "flagRevLimitExceeded"⟩,
  ⟨"DS1 EGR System", 173, 1, false, 1, 0, .param "flagEgrSystem"⟩,
  ⟨"DS1 Throttle Position Sensor", 174, 1, false, 1, 0, .param "flagTPS"⟩,
  ⟨"DS1 Engine Emergency Stop Mode", 175, 1, false, 1, 0, .param "flagEmergencyStopMode"⟩,
  ⟨"DS2 Warning Level 1", 176, 1, false, 1, 0, .param "flagWarning1"⟩,
  ⟨"DS2 Warning Level 2", 177, 1, false, 1, 0, .param "flagWarning2"⟩,
  ⟨"DS2 Power Reduction", 178, 1, false, 1, 0, .param "flagPowerReduction"⟩,
  ⟨"DS2 Maintenance Needed", 179, 1, false, 1, 0, .param "flagMaintenanceNeeded"⟩,
  ⟨"DS2 Engine Comm Error", 180, 1, false, 1, 0, .param "flagEngineCommError"⟩,
  ⟨"DS2 Sub or Secondary Throttle", 181, 1, false, 1, 0, .param "flagSubThrottle"⟩,
  ⟨"DS2 Neutral Start Protect", 182, 1, false, 1, 0, .param "flagNeutralStartProtect"⟩,
  ⟨"DS2 Engine Shutting Down", 183, 1, false, 1, 0, .param "flagEngineShuttingDown"⟩]

/-- PGN 127250 through the wrappers that fix the heading reference (and, for true heading, send deviation and
variation as not available, 0x7fff) -/
def wlayout_SetN2kMagneticHeading_4 : List PubField := [
  ⟨"SID", 0, 8, false, 1, 0, .param "SID"⟩, ⟨"Heading", 8, 16, false, 1, 4, .param "Heading"⟩,
  ⟨"Deviation", 24, 16, true, 1, 4, .param "Deviation"⟩, ⟨"Variation", 40, 16, true, 1, 4, .param "Variation"⟩,
  ⟨"Reference", 56, 2, false, 1, 0, .const 1⟩]
def wlayout_SetN2kTrueHeading_2 : List PubField := [
  ⟨"SID", 0, 8, false, 1, 0, .param "SID"⟩, ⟨"Heading", 8, 16, false, 1, 4, .param "Heading"⟩,
  ⟨"Deviation", 24, 16, true, 1, 4, .const 32767⟩, ⟨"Variation", 40, 16, true, 1, 4, .const 32767⟩,
  ⟨"Reference", 56, 2, false, 1, 0, .const 0⟩]

/-- PGN 130314 through `SetN2kPressure` (the value parameter is called `Pressure`) -/
def wlayout_SetN2kPressure_4 : List PubField := [
  ⟨"SID", 0, 8, false, 1, 0, .param "SID"⟩, ⟨"Instance", 8, 8, false, 1, 0, .param "PressureInstance"⟩,
  ⟨"Source", 16, 8, false, 1, 0, .param "PressureSource"⟩, ⟨"Pressure", 24, 32, true, 1, 1, .param "Pressure"⟩]

/-- PGN 60928 through the overloads that take the 64-bit NAME as a whole -/
def wlayout_SetN2kPGN60928_1 : List PubField := [⟨"NAME", 0, 64, false, 1, 0, .param "Name"⟩]
def wlayout_SetN2kISOAddressClaim_1 : List PubField := [⟨"NAME", 0, 64, false, 1, 0, .param "Name"⟩]

/-- PGN 129284 through `SetN2kNavigationInfo`: as the main setter, the ETA date being the same open finding
(`C15:129284:ETA_Date`, `int16_t` parameter for an unsigned field) -/
def wlayout_SetN2kNavigationInfo_15 : List PubField := [
  ⟨"SID", 0, 8, false, 1, 0, .param "SID"⟩,
  ⟨"Distance to Waypoint", 8, 32, false, 1, 2, .param "DistanceToWaypoint"⟩,
  ⟨"Course/Bearing reference", 40, 2, false, 1, 0, .param "BearingReference"⟩,
  ⟨"Perpendicular Crossed", 42, 2, false, 1, 0, .param "PerpendicularCrossed"⟩,
  ⟨"Arrival Circle Entered", 44, 2, false, 1, 0, .param "ArrivalCircleEntered"⟩,
  ⟨"Calculation Type", 46, 2, false, 1, 0, .param "CalculationType"⟩,
  ⟨"ETA Time", 48, 32, false, 1, 4, .param "ETATime"⟩,
  ⟨"Bearing, Origin to Destination Waypoint", 96, 16, false, 1, 4, .param "BearingOriginToDestinationWaypoint"⟩,
  ⟨"Bearing, Position to Destination Waypoint", 112, 16, false, 1, 4, .param "BearingPositionToDestinationWaypoint"⟩,
  ⟨"Origin Waypoint Number", 128, 32, false, 1, 0, .param "OriginWaypointNumber"⟩,
  ⟨"Destination Waypoint Number", 160, 32, false, 1, 0, .param "DestinationWaypointNumber"⟩,
  ⟨"Destination Latitude", 192, 32, true, 1, 7, .param "DestinationLatitude"⟩,
  ⟨"Destination Longitude", 224, 32, true, 1, 7, .param "DestinationLongitude"⟩,
  ⟨"Waypoint Closing Velocity", 256, 16, true, 1, 2, .param "WaypointClosingVelocity"⟩]

def mainTables : List (Nat × List PubField) := [
  (59392, layout_59392), (59904, layout_59904), (60928, layout_60928), (126993, layout_126993), (126996, layout_126996),
  (126992, layout_126992), (127245, layout_127245), (127250, layout_127250), (127251, layout_127251), (127257, layout_127257),
  (127488, layout_127488), (127489, layout_127489), (127505, layout_127505), (127508, layout_127508), (128259, layout_128259),
  (128267, layout_128267), (128275, layout_128275), (129025, layout_129025), (129026, layout_129026), (129029, layout_129029),
  (129033, layout_129033), (129283, layout_129283), (129284, layout_129284), (129539, layout_129539), (130306, layout_130306),
  (130310, layout_130310), (130311, layout_130311), (130312, layout_130312), (130313, layout_130313), (130314, layout_130314),
  (130316, layout_130316)]

def wrapperTables : List (String × List PubField) := [
  ("SetN2kPGN127489/35", wlayout_SetN2kPGN127489_35), ("SetN2kEngineDynamicParam/35", wlayout_SetN2kEngineDynamicParam_35),
  ("SetN2kMagneticHeading/4", wlayout_SetN2kMagneticHeading_4), ("SetN2kTrueHeading/2", wlayout_SetN2kTrueHeading_2),
  ("SetN2kPressure/4", wlayout_SetN2kPressure_4), ("SetN2kPGN60928/1", wlayout_SetN2kPGN60928_1),
  ("SetN2kISOAddressClaim/1", wlayout_SetN2kISOAddressClaim_1), ("SetN2kNavigationInfo/15", wlayout_SetN2kNavigationInfo_15)]

def lookupKey (l : List (String × List PubField)) (k : String) : Option (List PubField) :=
  match l with
  | [] => none
  | (a, t) :: r => if a == k then some t else lookupKey r k

def lookupPgn (l : List (Nat × List PubField)) (k : Nat) : Option (List PubField) :=
  match l with
  | [] => none
  | (a, t) :: r => if a = k then some t else lookupPgn r k

/-- the published table a public setter is held against: its own, else the one of its PGN (none: PGN not listed) -/
def tableFor (P : Pair) : Option (List PubField) :=
  match lookupKey wrapperTables P.setterKey with
  | some t => some t
  | none => lookupPgn mainTables P.pgn

/-- the parameter of the field is not stored on this setter path (a constant is written instead, e.g. the heartbeat
interval above its limit) or lies in bits the translator cannot express: nothing to compare on this path -/
def notStored (P : Pair) (f : PubField) : Bool :=
  match f.src with
  | .param n =>
    match P.names.findIdx? (· == n) with
    | some o => P.W o == 0 && (lookupRec P.setScaled o).isNone
    | none => false
  | _ => false

def setterAgrees (P : Pair) : Bool :=
  match tableFor P with
  | some L => L.all fun f => agreesField P f || notStored P f
  | none => true

/-! ## Repeated records (frozen)

`(PGN, bit offset of the 8-bit count field, bytes in front of the records, bytes per record)`: the published message
has exactly `count` records behind the fixed part (a count of 0xff, "not available", has none). PGN 129029: the
reference stations (type, id, age of corrections = 4 bytes each) behind byte 42. -/
def repeats : List (Nat × Nat × Nat × Nat) := [(129029, 336, 43, 4)]

def Cond.onlyField (o : Nat) : Cond → Bool
  | .tt => true
  | .eq f _ => f == o | .ne f _ => f == o | .lt f _ => f == o | .le f _ => f == o | .gt f _ => f == o | .ge f _ => f == o
  | .and a b => Cond.onlyField o a && Cond.onlyField o b
  | .or a b => Cond.onlyField o a && Cond.onlyField o b
  | .not a => Cond.onlyField o a

/-- the 8 bits at `off` as a constant, if they are one -/
def countConst (P : Pair) (off : Nat) : Option Nat :=
  (List.range 8).foldr (fun i acc => match acc, srcAt P.setter (off + i) with
    | some v, some .zero => some (2 * v)
    | some v, some .one => some (2 * v + 1)
    | _, _ => none) (some 0)

/-- the parameter whose low 8 bits are the 8 bits at `off`, if they are one parameter -/
def countParam (P : Pair) (off : Nat) : Option Nat :=
  match srcAt P.setter off with
  | some (.param o 0) => if (List.range 8).all (fun i => srcAt P.setter (off + i) == some (.param o i)) then some o else none
  | _ => none

def recordsFor (count : Nat) : Nat := if count = 255 then 0 else count

/-- on this setter path the payload length is the fixed part plus one record per counted entry, for EVERY value of
the count the path can be taken with (the path condition may only speak about the count parameter) -/
def recordCountOK (P : Pair) (off base rec : Nat) : Bool :=
  match countConst P off with
  | some c => setterLen P.setter == 8 * (base + rec * recordsFor c)
  | none =>
    match countParam P off with
    | some o => Cond.onlyField o P.setCond &&
        (List.range 256).all fun v => !(P.setCond.eval fun f => if f = o then v else 0) ||
          setterLen P.setter == 8 * (base + rec * recordsFor v)
    | none => false

def repeatsOK (P : Pair) : Bool :=
  repeats.all fun r => P.pgn != r.1 || P.setterPrefixOnly || !P.setterOK || recordCountOK P r.2.1 r.2.2.1 r.2.2.2

/-- every published (enumerator, code) is declared with exactly that code in the headers read on this run -/
def enumAgrees (spec gen : List (String × Nat)) : Bool := spec.all fun nc => gen.contains nc

end N2k.Spec
