import N2k.Lemmas.SeqCounter
/-! Slot availability for `GetSequenceCounter`: the slot array has one slot per declared fast-packet
transmit PGN (plus the common one), free slots are taken only by such PGNs, so a declared PGN that owns no
slot yet always finds a free one (pigeonhole). -/
namespace N2k.Send

theorem nodup_subset_length : ∀ (P L : List Nat), P.Nodup → (∀ x ∈ P, x ∈ L) → P.length ≤ L.length
  | [], _, _, _ => Nat.zero_le _
  | a :: t, L, hnd, hs => by
    have ha : a ∈ L := hs a (by simp)
    have hnd' := List.nodup_cons.mp hnd
    have ih := nodup_subset_length t (L.erase a) hnd'.2 (fun x hx => by
      have hne : x ≠ a := fun e => hnd'.1 (e ▸ hx)
      exact (List.mem_erase_of_ne hne).mpr (hs x (by simp [hx])))
    have hl := List.length_erase_of_mem ha
    have hpos : 0 < L.length := List.length_pos_of_mem ha
    simp only [List.length_cons]
    omega

/-- PGN stored in a slot -/
def slotPgn (e : Nat) : Nat := e &&& 0x00ffffff

/-- invariant of the per-PGN slots `front` w.r.t. the declared fast-packet transmit list `L` -/
structure SlotInv (front L : List Nat) : Prop where
  len : front.length = L.length
  /-- the used slots come first: `front = used ++ zeros` -/
  split : ∃ used k, front = used ++ List.replicate k 0 ∧ (∀ e ∈ used, e ≠ 0) ∧
            (used.map slotPgn).Nodup ∧ ∀ e ∈ used, slotPgn e ∈ L

theorem lookup_append_zero (pgn : Nat) : ∀ (used : List Nat) (k : Nat), (∀ e ∈ used, e ≠ 0) →
    lookup pgn (used ++ List.replicate k 0) = none → pgn ∉ used.map slotPgn
  | [], _, _, _ => by simp
  | e :: t, k, hnz, h => by
    have he : e ≠ 0 := hnz e (by simp)
    simp only [List.cons_append, lookup, he, ↓reduceIte] at h
    by_cases hm : e &&& 0x00ffffff = pgn
    · simp [hm] at h
    · simp only [hm, ↓reduceIte] at h
      have ih := lookup_append_zero pgn t k (fun x hx => hnz x (by simp [hx])) h
      simp only [List.map_cons, List.mem_cons, not_or]
      exact ⟨fun e' => hm (by unfold slotPgn at e'; exact e'.symm), ih⟩

/-- **a declared fast-packet transmit PGN that owns no slot yet finds a free one** -/
theorem free_slot_exists (pgn : Nat) (front L : List Nat) (hI : SlotInv front L) (hd : pgn ∈ L)
    (hn : lookup pgn front = none) :
    0 ∈ front ∧ ∀ e ∈ front, e ≠ 0 → e &&& 0x00ffffff ≠ pgn := by
  obtain ⟨hlen, used, k, hf, hnz, hnd, hin⟩ := hI
  subst hf
  have hnot := lookup_append_zero pgn used k hnz hn
  have hle := nodup_subset_length (pgn :: used.map slotPgn) L
    (List.nodup_cons.mpr ⟨hnot, hnd⟩)
    (by
      intro x hx
      rcases List.mem_cons.mp hx with h | h
      · rw [h]; exact hd
      · obtain ⟨e, he, rfl⟩ := List.mem_map.mp h; exact hin e he)
  simp only [List.length_cons, List.length_map] at hle
  simp only [List.length_append, List.length_replicate] at hlen
  have hk : 0 < k := by omega
  refine ⟨?_, ?_⟩
  · apply List.mem_append.mpr; right
    exact List.mem_replicate.mpr ⟨by omega, rfl⟩
  · intro e he hne hm
    rcases List.mem_append.mp he with h | h
    · exact hnot (List.mem_map.mpr ⟨e, h, hm⟩)
    · exact hne (List.mem_replicate.mp h).2

/-- the freshly allocated array satisfies the invariant -/
theorem slotInv_init (L : List Nat) : SlotInv (List.replicate L.length 0) L :=
  ⟨by simp, [], L.length, by simp, by simp, by simp, by simp⟩

end N2k.Send

namespace N2k.Send

theorem slotPgn_self (pgn : Nat) (hp : pgn < 2^24) : slotPgn pgn = pgn := by
  unfold slotPgn; rw [and24]; omega

/-- shape of a successful scan over `used ++ zeros` -/
theorem scan_shape (pgn : Nat) (d : Bool) (hp : pgn < 2^24) (h0 : pgn ≠ 0) :
    ∀ (used : List Nat) (k : Nat) (front' : List Nat) (sc : Nat), (∀ e ∈ used, e ≠ 0) →
      seqScan pgn d (used ++ List.replicate k 0) = some (front', sc) →
      ∃ used' k', front' = used' ++ List.replicate k' 0 ∧ (∀ e ∈ used', e ≠ 0) ∧
        used'.length + k' = used.length + k ∧
        (used'.map slotPgn = used.map slotPgn ∨
         (d = true ∧ pgn ∉ used.map slotPgn ∧ used'.map slotPgn = used.map slotPgn ++ [pgn]))
  | [], 0, _, _, _, h => by simp [seqScan] at h
  | [], k+1, front', sc, _, h => by
    simp only [List.nil_append, List.replicate_succ, seqScan, ↓reduceIte] at h
    cases d with
    | false => simp at h
    | true =>
      simp only [↓reduceIte, Option.some.injEq, Prod.mk.injEq] at h
      refine ⟨[pgn], k, by rw [← h.1]; rfl, by simp [h0], by simp; omega, Or.inr ⟨rfl, by simp, ?_⟩⟩
      simp [slotPgn_self pgn hp]
  | e :: t, k, front', sc, hnz, h => by
    have he : e ≠ 0 := hnz e (by simp)
    simp only [List.cons_append, seqScan, he, ↓reduceIte] at h
    by_cases hm : e &&& 0x00ffffff = pgn
    · simp only [hm, ↓reduceIte, Option.some.injEq, Prod.mk.injEq] at h
      have hf := slot_fields pgn (if e >>> 24 + 1 > 7 then 0 else e >>> 24 + 1) hp
      have hz := slot_ne_zero pgn (if e >>> 24 + 1 > 7 then 0 else e >>> 24 + 1) hp h0
      refine ⟨(pgn ||| ((if e >>> 24 + 1 > 7 then 0 else e >>> 24 + 1) <<< 24)) :: t, k, by rw [← h.1]; rfl, ?_, by simp, Or.inl ?_⟩
      · intro x hx
        rcases List.mem_cons.mp hx with h1 | h1
        · rw [h1]; exact hz
        · exact hnz x (by simp [h1])
      · simp only [List.map_cons, List.cons.injEq, and_true]
        unfold slotPgn; rw [hf.1, hm]
    · simp only [hm, ↓reduceIte] at h
      cases hs : seqScan pgn d (t ++ List.replicate k 0) with
      | none => rw [hs] at h; cases h
      | some r =>
        obtain ⟨t', sc'⟩ := r
        rw [hs] at h
        simp only [Option.some.injEq, Prod.mk.injEq] at h
        obtain ⟨u', k', a, b, c, dd⟩ := scan_shape pgn d hp h0 t k t' sc' (fun x hx => hnz x (by simp [hx])) hs
        refine ⟨e :: u', k', by rw [← h.1, a]; rfl, ?_, by simp; omega, ?_⟩
        · intro x hx
          rcases List.mem_cons.mp hx with h1 | h1
          · rw [h1]; exact he
          · exact b x h1
        · rcases dd with dd | ⟨d1, d2, d3⟩
          · left; simp [dd]
          · right
            refine ⟨d1, ?_, by simp [d3]⟩
            simp only [List.map_cons, List.mem_cons, not_or]
            exact ⟨fun e' => hm (by unfold slotPgn at e'; exact e'.symm), d2⟩

/-- the slot invariant is preserved by every successful scan whose PGN, if it may take a free slot, is declared -/
theorem slotInv_scan (pgn : Nat) (d : Bool) (hp : pgn < 2^24) (h0 : pgn ≠ 0) (front L front' : List Nat) (sc : Nat)
    (hI : SlotInv front L) (hd : d = true → pgn ∈ L) (h : seqScan pgn d front = some (front', sc)) :
    SlotInv front' L := by
  obtain ⟨hlen, used, k, hf, hnz, hnd, hin⟩ := hI
  subst hf
  obtain ⟨u', k', a, b, c, dd⟩ := scan_shape pgn d hp h0 used k front' sc hnz h
  subst a
  refine ⟨by simp only [List.length_append, List.length_replicate] at hlen ⊢; omega, u', k', rfl, b, ?_, ?_⟩
  · rcases dd with dd | ⟨_, d2, d3⟩
    · rw [dd]; exact hnd
    · rw [d3]
      apply List.nodup_append.mpr
      refine ⟨hnd, by simp, ?_⟩
      intro x hx y hy
      simp only [List.mem_singleton] at hy
      rw [hy]; intro e; exact d2 (e ▸ hx)
  · intro e he
    have hme : slotPgn e ∈ u'.map slotPgn := List.mem_map.mpr ⟨e, he, rfl⟩
    rcases dd with dd | ⟨d1, _, d3⟩
    · rw [dd] at hme
      obtain ⟨e2, he2, heq⟩ := List.mem_map.mp hme
      rw [← heq]; exact hin e2 he2
    · rw [d3] at hme
      rcases List.mem_append.mp hme with h1 | h1
      · obtain ⟨e2, he2, heq⟩ := List.mem_map.mp h1
        rw [← heq]; exact hin e2 he2
      · simp only [List.mem_singleton] at h1; rw [h1]; exact hd d1

end N2k.Send

namespace N2k.Send

theorem lookup_none_of_not_mem (pgn : Nat) : ∀ (used : List Nat) (k : Nat), (∀ e ∈ used, e ≠ 0) →
    pgn ∉ used.map slotPgn → lookup pgn (used ++ List.replicate k 0) = none
  | [], 0, _, _ => rfl
  | [], k+1, _, _ => by simp [List.replicate_succ, lookup]
  | e :: t, k, hnz, h => by
    have he : e ≠ 0 := hnz e (by simp)
    simp only [List.map_cons, List.mem_cons, not_or] at h
    have hm : ¬ (e &&& 0x00ffffff = pgn) := fun e' => h.1 (by unfold slotPgn; exact e'.symm)
    simp only [List.cons_append, lookup, he, ↓reduceIte, hm]
    exact lookup_none_of_not_mem pgn t k (fun x hx => hnz x (by simp [hx])) h.2

/-- a call for another PGN keeps "pgn owns no slot" -/
theorem lookup_none_scan (pgn p : Nat) (d : Bool) (hne : p ≠ pgn) (hp : p < 2^24) (h0 : p ≠ 0)
    (front L front' : List Nat) (sc : Nat) (hI : SlotInv front L) (hn : lookup pgn front = none)
    (h : seqScan p d front = some (front', sc)) : lookup pgn front' = none := by
  obtain ⟨_, used, k, hf, hnz, _, _⟩ := hI
  subst hf
  have hnot := lookup_append_zero pgn used k hnz hn
  obtain ⟨u', k', a, b, _, dd⟩ := scan_shape p d hp h0 used k front' sc hnz h
  subst a
  apply lookup_none_of_not_mem pgn u' k' b
  rcases dd with dd | ⟨_, _, d3⟩
  · rw [dd]; exact hnot
  · rw [d3]; intro hm
    rcases List.mem_append.mp hm with h1 | h1
    · exact hnot h1
    · simp only [List.mem_singleton] at h1; exact hne h1.symm

theorem seqStep_dropLast (p : Nat) (d : Bool) (slots : List Nat) :
    (seqStep p d slots).1.dropLast =
      match seqScan p d slots.dropLast with
      | some r => r.1
      | none => slots.dropLast := by
  unfold seqStep
  cases seqScan p d slots.dropLast with
  | none => simp
  | some r => obtain ⟨f, sc⟩ := r; simp

end N2k.Send
