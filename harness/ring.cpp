// C20 harness: drives the real tRingBuffer<uint32_t> / tPriorityRingBuffer<uint32_t> (src/RingBuffer.*)
// ops: new n | pnew n p | add v [p] | addref v [p] | read | readref | readp p | readany | peek | clear |
//      count | empty [p]
#include "common.h"
#include <cstring>
#include <deque>
#include "RingBuffer.h"

using namespace vh;
static Ctx C;

// ---- reference queues written from the property statement (model independent) -------------------
struct RefEntry { uint32_t v; int p; bool alive; };
struct Ref {
  bool prio = false; size_t cap = 0; int P = 1;
  std::deque<RefEntry> log;   // from the oldest value still stored to the newest
  int clamp(int p) const { return p >= P ? P - 1 : p; }
  void trim() { while (!log.empty() && !log.front().alive) log.pop_front(); }
};

static tRingBuffer<uint32_t> *rb = nullptr;
static tPriorityRingBuffer<uint32_t> *prb = nullptr;
static Ref ref;
static std::string caseDesc; static bool caseHasRead = false, caseHasRefuse = false, caseOoo = false;

static void endCase() {
  if (!caseDesc.empty()) {
    C.cases++;
    if (caseHasRead) { C.nontrivial(caseDesc); }
    if (caseHasRefuse) C.count("cases_with_refused_add");
    if (caseOoo) C.count("cases_with_out_of_order_release");
  }
  caseDesc.clear(); caseHasRead = caseHasRefuse = caseOoo = false;
}

static void expectBool(const char *what, bool got, bool want) {
  if (got != want) C.fail(std::string("C20:") + what, "got %d want %d", (int)got, (int)want);
}

static void exec(const std::string &line) {
  std::vector<std::string> w = split(line);
  C.op("%s", line.c_str());
  C.count("op_" + w[0]);
  if (w[0] == "new" || w[0] == "pnew") endCase();
  caseDesc += line; caseDesc += ';';
  auto num = [&](size_t i) { return (unsigned long)strtoul(w[i].c_str(), nullptr, 10); };
  if (w[0] == "new") {
    delete rb; delete prb; rb = nullptr; prb = nullptr;
    unsigned n = num(1);
    rb = new tRingBuffer<uint32_t>((uint16_t)n);
    ref = Ref(); ref.prio = false; ref.cap = (n < 3 ? 3 : n) - 1;
    C.out("ok"); return;
  }
  if (w[0] == "pnew") {
    delete rb; delete prb; rb = nullptr; prb = nullptr;
    unsigned n = num(1), p = num(2);
    prb = new tPriorityRingBuffer<uint32_t>((uint16_t)n, (uint8_t)p);
    ref = Ref(); ref.prio = true; ref.cap = (n < 3 ? 3 : n) - 1;
    ref.P = p < 1 ? 1 : (p == 255 ? 254 : (int)p);
    C.out("ok"); return;
  }
  if (!rb && !prb) { C.out("bad-op"); return; }
  if (w[0] == "add" || w[0] == "addref") {
    uint32_t v = num(1); int p = w.size() > 2 ? (int)num(2) : 0;
    bool ok;
    if (rb) {
      if (w[0] == "add") ok = rb->add(v); else { uint32_t *r = rb->getAddRef(); ok = r != 0; if (r) *r = v; }
    } else {
      if (w[0] == "add") ok = prb->add(v, (uint8_t)p); else { uint32_t *r = prb->getAddRef((uint8_t)p); ok = r != 0; if (r) *r = v; }
    }
    bool want = ref.log.size() < ref.cap;
    if (want) ref.log.push_back({v, ref.prio ? ref.clamp(p) : 0, true}); else caseHasRefuse = true;
    expectBool("add-refusal", ok, want);
    C.out("%d", (int)ok); return;
  }
  if (w[0] == "read" || w[0] == "readref" || w[0] == "readany" || w[0] == "readp") {
    bool got = false; uint32_t v = 0; int gp = -1;
    int askP = -1;
    if (rb) {
      if (w[0] == "read") got = rb->read(v);
      else if (w[0] == "readref") { const uint32_t *r = rb->getReadRef(); got = r != 0; if (r) v = *r; }
      else { C.out("ok"); return; }
    } else {
      if (w[0] == "read") got = prb->read(v);
      else if (w[0] == "readany" || w[0] == "readref") { uint8_t pp = 0xEE; const uint32_t *r = prb->getReadRef(&pp); got = r != 0; if (r) { v = *r; gp = pp; } }
      else { askP = (int)num(1); const uint32_t *r = prb->getReadRef((uint8_t)askP); got = r != 0; if (r) v = *r; }
    }
    // reference
    bool wgot = false; uint32_t wv = 0; int wp = -1;
    if (!ref.prio) {
      if (!ref.log.empty()) { wgot = true; wv = ref.log.front().v; ref.log.pop_front(); }
    } else {
      int target = -1;
      if (askP >= 0) target = ref.clamp(askP);
      else { for (auto &e : ref.log) if (e.alive && (target < 0 || e.p < target)) target = e.p; }
      if (target >= 0) for (size_t i = 0; i < ref.log.size(); i++) if (ref.log[i].alive && ref.log[i].p == target) {
        wgot = true; wv = ref.log[i].v; wp = target; ref.log[i].alive = false; if (i != 0) caseOoo = true; break; }
      ref.trim();
    }
    if (got != wgot) C.fail("C20:read-availability", "got %d want %d", (int)got, (int)wgot);
    else if (got && v != wv) C.fail("C20:read-order", "got value %u want %u", v, wv);
    else if (got && gp >= 0 && gp != wp) C.fail("C20:read-priority", "got prio %d want %d", gp, wp);
    if (got) caseHasRead = true;
    if (!got) C.out("-");
    else if (prb && (w[0] == "readany" || w[0] == "readref")) C.out("%u %d", v, gp);
    else C.out("%u", v);
    return;
  }
  if (w[0] == "peek") {
    if (!rb) { C.out("ok"); return; }
    uint32_t *r = rb->peek();
    bool wgot = !ref.log.empty();
    if ((r != 0) != wgot) C.fail("C20:peek-availability", "got %d want %d", (int)(r != 0), (int)wgot);
    else if (r && *r != ref.log.front().v) C.fail("C20:peek-value", "got %u want %u", *r, ref.log.front().v);
    if (r) C.out("%u", *r); else C.out("-");
    return;
  }
  if (w[0] == "clear") { if (rb) rb->clear(); else prb->clear(); ref.log.clear(); C.out("ok"); return; }
  if (w[0] == "count") {
    unsigned c = rb ? rb->count() : prb->count();
    if (c != ref.log.size()) C.fail("C20:count", "got %u want %zu", c, ref.log.size());
    C.out("%u", c); return;
  }
  if (w[0] == "empty") {
    bool e; bool want;
    if (rb) { e = rb->isEmpty(); want = ref.log.empty(); }
    else {
      int p = w.size() > 1 ? (int)num(1) : 255;
      e = prb->isEmpty((uint8_t)p);
      if (p >= ref.P) want = ref.log.empty();
      else { want = true; for (auto &x : ref.log) if (x.alive && x.p == p) want = false; }
    }
    expectBool("isEmpty", e, want);
    C.out("%d", (int)e); return;
  }
  C.out("bad-op");
}

static uint32_t nextVal = 1;
static void randomCase(Rng &R, bool prio, unsigned n, unsigned P, int len) {
  char b[96];
  if (prio) snprintf(b, sizeof b, "pnew %u %u", n, P); else snprintf(b, sizeof b, "new %u", n);
  exec(b);
  unsigned effP = P < 1 ? 1 : (P == 255 ? 254 : P);
  // phases bias towards full and empty rings
  int bias = (int)R.below(3);   // 0 balanced, 1 fill, 2 drain
  for (int i = 0; i < len; i++) {
    if (R.chance(1, 40)) bias = (int)R.below(3);
    unsigned r = (unsigned)R.below(100);
    unsigned addW = bias == 1 ? 70 : bias == 2 ? 25 : 45;
    unsigned p = R.chance(1, 12) ? (unsigned)R.range(effP, 255) : (unsigned)R.below(effP);
    if (r < addW) { snprintf(b, sizeof b, "%s %u %u", R.chance(1, 4) ? "addref" : "add", nextVal++, p); }
    else if (r < 88) {
      if (!prio) snprintf(b, sizeof b, "%s", R.chance(1, 3) ? "readref" : "read");
      else { unsigned k = (unsigned)R.below(3); if (k == 0) snprintf(b, sizeof b, "readp %u", p); else if (k == 1) snprintf(b, sizeof b, "readany"); else snprintf(b, sizeof b, "read"); }
    }
    else if (r < 91) snprintf(b, sizeof b, "peek");
    else if (r < 93) snprintf(b, sizeof b, "clear");
    else if (r < 96) snprintf(b, sizeof b, "count");
    else { if (prio && R.chance(2, 3)) snprintf(b, sizeof b, "empty %u", p); else snprintf(b, sizeof b, "empty"); }
    exec(b);
  }
}


// directed: rings larger than 256 slots (8-bit index slips), every kind of add through the slots 254..258 and the last slot,
// once with the tail at slot 0 and once with the tail elsewhere
static void bigRingCase(Rng &R, bool prio, unsigned n, unsigned P, unsigned tailShift) {
  char b[96];
  if (prio) snprintf(b, sizeof b, "pnew %u %u", n, P); else snprintf(b, sizeof b, "new %u", n);
  exec(b);
  unsigned effP = P < 1 ? 1 : (P == 255 ? 254 : P);
  auto add = [&](bool byRef) { snprintf(b, sizeof b, "%s %u %u", byRef ? "addref" : "add", nextVal++, (unsigned)R.below(effP)); exec(b); };
  auto rd = [&]() { if (!prio) exec(R.chance(1, 2) ? "readref" : "read"); else exec(R.chance(1, 2) ? "readany" : "read"); };
  for (unsigned i = 0; i < tailShift; i++) { add(i & 1); rd(); }            // move head and tail together
  for (unsigned round = 0; round < 2; round++) {
    for (unsigned i = 0; i < n + 3; i++) { add(round == 0 ? true : R.chance(1, 2)); if (i % 97 == 0) exec("count"); }   // fill to full (+3 refused)
    exec("count");
    for (unsigned i = 0; i < n + 2; i++) rd();                                 // drain to empty (+ reads on empty)
    exec("empty");
  }
}

// exhaustive: all sequences over `alphabet` of length exactly L (prefixes are covered as prefixes)
static void exhaustive(bool prio, unsigned n, unsigned P, const std::vector<std::string> &alphabet, int L) {
  std::vector<int> idx(L, 0);
  char b[96];
  while (true) {
    if (prio) snprintf(b, sizeof b, "pnew %u %u", n, P); else snprintf(b, sizeof b, "new %u", n);
    exec(b);
    for (int i = 0; i < L; i++) {
      std::string a = alphabet[idx[i]];
      size_t pos = a.find("$v");
      if (pos != std::string::npos) a.replace(pos, 2, std::to_string(100 + i));
      exec(a);
    }
    exec("count");
    int k = L - 1; while (k >= 0 && ++idx[k] == (int)alphabet.size()) { idx[k] = 0; k--; }
    if (k < 0) break;
  }
  C.count("exhaustive_spaces");
}

int main(int argc, char **argv) {
  C.init(argc, argv);
  C.rule = "case = one ring instance with its op sequence; non-trivial = at least one successful read; distinct = hash of the whole op sequence";
  if (!C.replay.empty()) { for (auto &l : readLines(C.replay)) exec(l); endCase(); C.finish(); return 0; }
  Rng R(C.seed);
  // fixed corner cases first (sizes below the minimum, priority-count clamps, out-of-range priorities)
  for (unsigned n : {0u, 1u, 2u, 3u}) { randomCase(R, false, n, 1, 30); }
  for (unsigned P : {0u, 1u, 2u, 254u, 255u}) randomCase(R, true, (unsigned)R.range(0, 6), P, 60);
  for (unsigned n : {255u, 256u, 257u, 258u, 300u, 512u, 513u}) for (unsigned sh : {0u, 5u}) { bigRingCase(R, false, n, 1, sh); bigRingCase(R, true, n, (unsigned)R.range(1, 4), sh); }
  if (C.thorough) for (unsigned n : {1000u, 4097u}) { bigRingCase(R, false, n, 1, 7); bigRingCase(R, true, n, 3, 7); }
  C.sample("directed: rings of 255..513 (thorough: up to 4097) slots filled by reference through the 8-bit index boundary, drained, twice");
  int ncases = C.thorough ? 3000 : 300;
  for (int i = 0; i < ncases; i++) {
    bool prio = R.chance(3, 4);
    unsigned n = R.chance(1, 10) ? (unsigned)R.range(7, 1000) : (unsigned)R.range(0, 7);
    unsigned P = R.chance(1, 10) ? (unsigned)R.range(5, 255) : (unsigned)R.range(0, 4);
    int len = n > 20 ? (int)R.range(200, 2500) : (int)R.range(5, 250);
    randomCase(R, prio, n, P, len);
  }
  C.sample("random: pnew/new + mixed add/addref/read/readp/readany/peek/clear/count/empty with fill/drain phases");
  // exhaustive small scopes
  {
    int Lp = C.thorough ? 6 : 4, Lf = C.thorough ? 9 : 6;
    for (unsigned n = 3; n <= (C.thorough ? 5u : 4u); n++) {
      exhaustive(false, n, 1, {"add $v", "read", "peek", "clear"}, Lf);
      for (unsigned P = 1; P <= (C.thorough ? 3u : 2u); P++) {
        std::vector<std::string> al;
        for (unsigned p = 0; p < P; p++) { al.push_back("add $v " + std::to_string(p)); al.push_back("readp " + std::to_string(p)); }
        al.push_back("readany"); al.push_back("clear");
        exhaustive(true, n, P, al, Lp);
      }
    }
    C.sample("exhaustive: every sequence of add(p)/readp(p)/readany/clear of length " + std::to_string(Lp) + " for sizes 3.." + std::to_string(C.thorough ? 5 : 4));
  }
  endCase();
  C.finish();
  return 0;
}
