import N2k.Lemmas.Scaled
/-!
# C06 — Scaled numeric fields quantise, saturate and mark "not available" correctly

Property theorems only. The model is `N2k.Scaled` (`Model/Scaled.lean`), transcribing
`SetBuf*Double` / `GetBuf*Double` / `tN2kMsg::Add*` / `tN2kMsg::Get*` / the float helpers of
`src/N2kMsg.cpp` with the two C06 `fix:` commits applied. The C++ is split at
`vd = round(v/precision)`: the IEEE computation of `vd` is *modelled, not verified* (its exact
counterpart over ℚ is `roundHalfAway`; `C06_quantise*` are statements about that counterpart, the
harness' front-end stream ties it to the real arithmetic). Everything after `vd` is integer logic and
every theorem below quantifies over **all** integers `k`, all nine field kinds (`Kind w s`: widths
1,2,3,4 signed and unsigned, 8 signed), all buffer contents, offsets and payload lengths.
-/
namespace N2k.C06
open N2k.Scaled

/-! ## round trip of every representable code -/

/-- **C06_code_roundtrip.** For every field kind and every integer code `k` between the kind's minimum
and its out-of-range code (negative as well as positive): the store neither faults nor saturates, writes
exactly `w` bytes, and the load of those bytes (whatever follows them in the buffer) is `k` again —
in particular never "not available" and, for 3-byte signed fields, with the sign restored. -/
theorem C06_code_roundtrip (w : Nat) (s : Bool) (k : Int) (hw : Kind w s)
    (hlo : loBound w s ≤ k) (hhi : k ≤ orCode w s) :
    ∃ bs, setBufDouble w s (.int k) = .ok bs ∧ bs.length = w ∧ (∀ b ∈ bs, b < 256) ∧
      ∀ rest, getBufDouble w s (bs ++ rest) = some k := by
  refine ⟨leBytes w (toUnsigned (tBits w) k), ?_, leBytes_length _ _, leBytes_lt _ _,
    load_bytes w s k hw hlo hhi⟩
  by_cases hin : k < orAsDouble w s
  · exact store_in w s k hw hlo hin
  · -- only `k = orCode` is left: the range test fails and the out-of-range code — `k` itself — is stored
    have hk : k = orCode w s := by
      rcases hw with rfl | rfl | rfl | rfl | ⟨rfl, rfl⟩ <;> try cases s
      all_goals simp [orAsDouble, orCode] at hin hhi ⊢
      all_goals omega
    rw [store_out w s (.int k) (by simp [Vd.lt, hin]), hk]

example : Kind 3 true ∧ loBound 3 true ≤ (-5 : Int) ∧ (-5 : Int) ≤ orCode 3 true := by
  refine ⟨Or.inr (Or.inr (Or.inl rfl)), by decide, by decide⟩

/-- **C06_msg_roundtrip.** The same through the message wrappers: `Add…` (value not the undefined
marker) appended to a payload `pre`, then `Get…` at index `pre.length` of the resulting message —
with arbitrary stale bytes `junk` behind the payload — returns `k` and advances the index by `w`. -/
theorem C06_msg_roundtrip (w : Nat) (s : Bool) (k : Int) (hw : Kind w s)
    (hlo : loBound w s ≤ k) (hhi : k ≤ orCode w s) (pre junk : List Nat) :
    ∃ bs, addDouble w s false false (.int k) = .ok bs ∧
      getDouble w s (pre ++ bs ++ junk) (pre.length + w) pre.length = .ok (some k, pre.length + w) := by
  obtain ⟨bs, h1, h2, _, h4⟩ := C06_code_roundtrip w s k hw hlo hhi
  refine ⟨bs, by simp [addDouble, h1], ?_⟩
  unfold getDouble
  rw [if_pos (Nat.le_refl _), if_pos (by simp [h2])]
  simp [List.append_assoc, h4]
  rfl

/-! ## "not available" -/

/-- **C06_na.** (1) `Add…` of the caller's undefined marker stores the NA code, whatever `vd` would
have been; (2) the 8-byte field also does so for `N2kDoubleNA` itself; (3) the NA bytes load as
"not available" (`none` = the caller's default); (4) through the message getter the index still
advances by `w`. -/
theorem C06_na (w : Nat) (s : Bool) (hw : Kind w s) (isNA : Bool) (vd : Vd) (pre junk : List Nat) :
    addDouble w s true isNA vd = .ok (naBytes w s) ∧
    (w = 8 → addDouble w s false true vd = .ok (naBytes w s)) ∧
    (∀ rest, getBufDouble w s (naBytes w s ++ rest) = none) ∧
    getDouble w s (pre ++ naBytes w s ++ junk) (pre.length + w) pre.length = .ok (none, pre.length + w) := by
  refine ⟨by simp [addDouble]; rfl, fun h => by simp [addDouble, h]; rfl, load_na w s hw, ?_⟩
  unfold getDouble
  rw [if_pos (Nat.le_refl _), if_pos (by simp [naBytes, leBytes_length])]
  simp [List.append_assoc, load_na w s hw]
  rfl

/-! ## saturation -/

/-- `vd` is outside the representable range of the field: NaN, an infinity, or a finite value below the
minimum or at/above the out-of-range code -/
def OutOfRange (w : Nat) (s : Bool) : Vd → Prop
  | .int k => k < loBound w s ∨ orCode w s ≤ k
  | _ => True

/-- **C06_saturate.** For every field kind: a `vd` outside the range — any integer below the minimum or
at/above the out-of-range code (so the upper bound of the test is exclusive exactly at that code), NaN,
+inf, −inf — is stored, without a fault (no undefined conversion is reached), as exactly the bytes of the
reserved out-of-range code; these bytes load as that code, never as "not available" or another value.
For the 8-byte field `k` must be a value a `double` can have (`DoubleInt`): the C++ compares with
`(double)N2kInt64OR = 2^63`, which separates the same doubles as `2^63-2` does. -/
theorem C06_saturate (w : Nat) (s : Bool) (vd : Vd) (hw : Kind w s) (ho : OutOfRange w s vd)
    (hd : ∀ k, w = 8 → vd = .int k → DoubleInt k) :
    setBufDouble w s vd = .ok (leBytes w (orCode w s).toNat) ∧
    ∀ rest, getBufDouble w s (leBytes w (orCode w s).toNat ++ rest) = some (orCode w s) := by
  have hbytes : leBytes w (toUnsigned (tBits w) (orCode w s)) = leBytes w (orCode w s).toNat := by
    rcases hw with rfl | rfl | rfl | rfl | ⟨rfl, rfl⟩ <;> try cases s
    all_goals simp [toUnsigned, tBits, orCode]
  have hload : ∀ rest, getBufDouble w s (leBytes w (orCode w s).toNat ++ rest) = some (orCode w s) := by
    intro rest
    rw [← hbytes]
    refine load_bytes w s _ hw ?_ (Int.le_refl _) rest
    rcases hw with rfl | rfl | rfl | rfl | ⟨rfl, rfl⟩ <;> try cases s
    all_goals simp [loBound, orCode]
  refine ⟨?_, hload⟩
  cases vd with
  | nan => rw [store_out w s _ (by simp [Vd.ge]), hbytes]
  | posInf => rw [store_out w s _ (by simp [Vd.lt]), hbytes]
  | negInf => rw [store_out w s _ (by simp [Vd.ge]), hbytes]
  | int k =>
    by_cases hin : loBound w s ≤ k ∧ k < orAsDouble w s
    · -- the test passes although `k` is out of range: only possible at the code itself, or (8 bytes)
      -- at 2^63-1, which is not a double
      have hk : k = orCode w s := by
        have hne : w = 8 → k ≠ 9223372036854775807 := fun h8 => (hd k h8 rfl).ne_na8
        rcases hw with rfl | rfl | rfl | rfl | ⟨rfl, rfl⟩ <;> try cases s
        all_goals simp [OutOfRange, orAsDouble, orCode, loBound] at hin ho hne ⊢
        all_goals omega
      have hhi : k ≤ orCode w s := by omega
      have hr := C06_code_roundtrip w s k hw hin.1 hhi
      obtain ⟨bs, h1, _⟩ := hr
      rw [store_in w s k hw hin.1 hin.2, hk, hbytes]
    · rw [store_out w s _ (by simp only [Vd.ge, Vd.lt]; simpa using hin), hbytes]

example : OutOfRange 8 true (.int 9223372036854775808) ∧
    (∀ k, (8 : Nat) = 8 → Vd.int 9223372036854775808 = .int k → DoubleInt k) := by
  refine ⟨Or.inr (by decide), ?_⟩
  intro k _ h
  cases h
  exact ⟨1, 63, by decide, Or.inl (by decide)⟩

/-! ## quantisation (exact rational counterpart of `round(v/precision)`) -/

/-- **C06_quantise.** For every value `v` and resolution `p > 0` (rationals): the code
`roundHalfAway (v/p)`, scaled back by `p`, is within half a resolution step of `v` — for negative as
well as positive `v`. -/
theorem C06_quantise (v p : Rat) (hp : 0 < p) :
    -(p / 2) ≤ (roundHalfAway (v / p) : Rat) * p - v ∧ (roundHalfAway (v / p) : Rat) * p - v ≤ p / 2 := by
  have hb := round_bounds (v / p)
  have hv : v / p * p = v := Rat.div_mul_cancel (by grind)
  generalize (roundHalfAway (v / p) : Rat) = r at *
  generalize v / p = q at *
  subst hv
  have e : r * p - q * p = (r - q) * p := by grind
  rw [e]
  have a1 := Rat.mul_le_mul_of_nonneg_right (c := p) hb.1 (by grind)
  have a2 := Rat.mul_le_mul_of_nonneg_right (c := p) hb.2 (by grind)
  constructor <;> grind

example : (0 : Rat) < 1 / 100 := by grind

/-- **C06_quantise_trunc.** The 8-byte field truncates `v/p` toward zero: the read-back value lies
between zero and `v`, less than one resolution step from `v`. -/
theorem C06_quantise_trunc (v p : Rat) (hp : 0 < p) :
    (0 ≤ v → (truncQ (v / p) : Rat) * p ≤ v ∧ v - p < (truncQ (v / p) : Rat) * p ∧ 0 ≤ truncQ (v / p)) ∧
    (v < 0 → v ≤ (truncQ (v / p) : Rat) * p ∧ (truncQ (v / p) : Rat) * p < v + p ∧ truncQ (v / p) ≤ 0) := by
  have hb := trunc_bounds (v / p)
  have hv : v / p * p = v := Rat.div_mul_cancel (by grind)
  have hpi : 0 < p⁻¹ := Rat.inv_pos.mpr hp
  have hq0 : 0 ≤ v → 0 ≤ v / p := fun h => by rw [Rat.div_def]; exact Rat.mul_nonneg h (Rat.le_of_lt hpi)
  have hq1 : v < 0 → v / p < 0 := fun h => by
    rw [Rat.div_def]
    have := Rat.mul_lt_mul_of_pos_right h hpi
    simpa using this
  generalize (truncQ (v / p)) = t at *
  generalize v / p = q at *
  subst hv
  constructor
  · intro h0
    have hq : 0 ≤ q := hq0 h0
    obtain ⟨b1, b2, b3⟩ := hb.1 hq
    have a1 := Rat.mul_le_mul_of_nonneg_right (c := p) b1 (by grind)
    have a2 := Rat.mul_lt_mul_of_pos_right b2 hp
    refine ⟨a1, by grind, b3⟩
  · intro h0
    have hq : q < 0 := hq1 h0
    obtain ⟨b1, b2, b3⟩ := hb.2 hq
    have a1 := Rat.mul_le_mul_of_nonneg_right (c := p) b1 (by grind)
    have a2 := Rat.mul_lt_mul_of_pos_right b2 hp
    refine ⟨a1, by grind, b3⟩

/-- **C06_front_accepted.** The property fixes a tolerance, not a rounding policy; the correspondence therefore
judges the bytes the library stored with `acceptsQ` (within half a step — one step for the 8-byte field — of the
exact quotient `q`, or the out-of-range code when `q` is that close to an integer outside the code range).
This theorem shows the judge is satisfiable and consistent with the rest: for every exact quotient `q` and
every field kind, storing the model's own `frontQ w q` (round half away; truncation for 8 bytes) and loading it
back is accepted with zero slack — in range by the round trip, out of range by saturation. -/
theorem C06_front_accepted (w : Nat) (s : Bool) (q : Rat) (hw : Kind w s)
    (hd : w = 8 → DoubleInt (frontQ w q)) :
    ∃ bs, setBufDouble w s (.int (frontQ w q)) = .ok bs ∧
      ∀ rest, acceptsQ w s q 0 (getBufDouble w s (bs ++ rest)) = true := by
  have hb := front_within w q
  generalize frontQ w q = k at *
  by_cases hin : loBound w s ≤ k ∧ k ≤ orCode w s
  · obtain ⟨bs, h1, _, _, h4⟩ := C06_code_roundtrip w s k hw hin.1 hin.2
    refine ⟨bs, h1, fun rest => ?_⟩
    rw [h4]
    simp only [acceptsQ, Bool.or_eq_true, decide_eq_true_eq]
    left; grind
  · have ho : OutOfRange w s (.int k) := by simp only [OutOfRange]; omega
    obtain ⟨h1, h2⟩ := C06_saturate w s (.int k) hw ho (fun k' h8 e => by cases e; exact hd h8)
    refine ⟨_, h1, fun rest => ?_⟩
    rw [h2]
    simp only [acceptsQ, Bool.or_eq_true, decide_eq_true_eq, Bool.and_eq_true, beq_self_eq_true, true_and]
    right
    have hk : k ≤ loBound w s - 1 ∨ orCode w s ≤ k := by omega
    unfold absQ at hb
    rcases hk with hk | hk
    · right
      have := Rat.intCast_le_intCast.mpr hk
      split at hb <;> grind
    · left
      have := Rat.intCast_le_intCast.mpr hk
      split at hb <;> grind

example : Kind 2 true ∧ ((2 : Nat) = 8 → DoubleInt (frontQ 2 (5 / 2))) := ⟨Or.inr (Or.inl rfl), fun h => by cases h⟩

/-- **C06_round_ties_sign.** Ties go away from zero on both sides, integers (and so −0) are fixed
points, and rounding is odd: `round(−q) = −round(q)`. -/
theorem C06_round_ties_sign (n : Int) (q : Rat) :
    roundHalfAway (n : Rat) = n ∧
    (0 ≤ n → roundHalfAway ((n : Rat) + 1 / 2) = n + 1 ∧ roundHalfAway (-((n : Rat) + 1 / 2)) = -(n + 1)) ∧
    roundHalfAway (-q) = -roundHalfAway q := by
  have hfl : ∀ m : Int, ((m : Rat) + 1 / 2 + 1 / 2).floor = m + 1 := fun m => by
    have : (m : Rat) + 1 / 2 + 1 / 2 = ((m + 1 : Int) : Rat) := by rw [Rat.intCast_add]; grind
    rw [this, Rat.floor_intCast]
  have hhalf : ∀ m : Int, ((m : Rat) + 1 / 2).floor = m := fun m => by
    have h1 := Rat.floor_le ((m : Rat) + 1 / 2)
    have h2 := Rat.lt_floor_add_one ((m : Rat) + 1 / 2)
    rw [Rat.intCast_add] at h2
    have a : (((m : Rat) + 1 / 2).floor : Rat) < ((m + 1 : Int) : Rat) := by rw [Rat.intCast_add]; grind
    have b : ((m : Int) : Rat) < ((((m : Rat) + 1 / 2).floor + 1 : Int) : Rat) := by
      rw [Rat.intCast_add]; grind
    have a' := Rat.intCast_lt_intCast.mp a
    have b' := Rat.intCast_lt_intCast.mp b
    omega
  refine ⟨?_, ?_, ?_⟩
  · unfold roundHalfAway
    by_cases h : (0 : Rat) ≤ (n : Rat)
    · rw [if_pos h, hhalf]
    · rw [if_neg h]
      have : -(n : Rat) + 1 / 2 = ((-n : Int) : Rat) + 1 / 2 := by rw [Rat.intCast_neg]
      rw [this, hhalf]; omega
  · intro hn
    have hn' : (0 : Rat) ≤ (n : Rat) := by
      have := Rat.intCast_le_intCast.mpr hn
      simpa using this
    unfold roundHalfAway
    constructor
    · rw [if_pos (by grind), hfl]
    · rw [if_neg (by grind)]
      have : - -((n : Rat) + 1 / 2) + 1 / 2 = (n : Rat) + 1 / 2 + 1 / 2 := by grind
      rw [this, hfl]
  · unfold roundHalfAway
    by_cases h : 0 ≤ q
    · by_cases h0 : q = 0
      · subst h0
        have z : -(0 : Rat) = 0 := by grind
        have e := hhalf 0
        rw [Rat.intCast_zero] at e
        rw [z, if_pos h, e]; rfl
      · have : ¬ (0 ≤ -q) := by grind
        rw [if_pos h, if_neg this]
        have : - -q + 1 / 2 = q + 1 / 2 := by grind
        rw [this]
    · have : 0 ≤ -q := by grind
      rw [if_neg h, if_pos this]; omega

/-! ## bounded getters -/

/-- **C06_bounded_get.** For every field kind width `w`, every `Data` array, every payload length
`n ≤ capacity`, every read offset `i`: (1) the getter never accesses outside the array; (2) a field that
does not fit in the payload returns the caller's default and leaves the index unchanged; (3) a field that
fits advances the index by exactly `w` and decodes exactly the `w` bytes at `i`; (4) the result does not
depend on any byte at index ≥ `n` (stale bytes behind the payload are never read). -/
theorem C06_bounded_get (w : Nat) (s : Bool) (data : List Nat) (n i : Nat) (hn : n ≤ data.length) :
    (∃ r, getDouble w s data n i = .ok r) ∧
    (n < i + w → getDouble w s data n i = .ok (none, i)) ∧
    (i + w ≤ n → getDouble w s data n i = .ok (getBufDouble w s ((data.drop i).take w), i + w)) ∧
    (∀ data', data'.take n = data.take n → n ≤ data'.length →
      getDouble w s data' n i = getDouble w s data n i) := by
  have hfit : ∀ d : List Nat, n ≤ d.length → i + w ≤ n →
      getDouble w s d n i = .ok (getBufDouble w s ((d.drop i).take w), i + w) := by
    intro d hd h
    unfold getDouble
    rw [if_pos h, if_pos (by omega)]
    have e : getBufDouble w s (d.drop i) = getBufDouble w s ((d.drop i).take w) := by
      simp [getBufDouble, List.take_take]
    rw [e]; rfl
  have hnofit : ∀ d : List Nat, n < i + w → getDouble w s d n i = .ok (none, i) := by
    intro d h
    unfold getDouble
    rw [if_neg (by omega)]; rfl
  refine ⟨?_, hnofit data, hfit data hn, ?_⟩
  · by_cases h : i + w ≤ n
    · exact ⟨_, hfit data hn h⟩
    · exact ⟨_, hnofit data (by omega)⟩
  · intro data' heq hn'
    by_cases h : i + w ≤ n
    · rw [hfit data hn h, hfit data' hn' h]
      have e : ∀ d : List Nat, (d.drop i).take w = ((d.take n).drop i).take w := by
        intro d
        rw [List.drop_take, List.take_take, Nat.min_eq_left (by omega)]
      rw [e data, e data', heq]
    · rw [hnofit data (by omega), hnofit data' (by omega)]

example : (3 : Nat) ≤ [1, 2, 3, 4].length := by decide

/-- **C06_bounded_get_float.** The same for `GetFloat`. -/
theorem C06_bounded_get_float (data : List Nat) (n i : Nat) (hn : n ≤ data.length) :
    (∃ r, getFloat data n i = .ok r) ∧
    (n < i + 4 → getFloat data n i = .ok (none, i)) ∧
    (i + 4 ≤ n → getFloat data n i = .ok (getBufFloat ((data.drop i).take 4), i + 4)) ∧
    (∀ data', data'.take n = data.take n → n ≤ data'.length → getFloat data' n i = getFloat data n i) := by
  have hfit : ∀ d : List Nat, n ≤ d.length → i + 4 ≤ n →
      getFloat d n i = .ok (getBufFloat ((d.drop i).take 4), i + 4) := by
    intro d hd h
    unfold getFloat
    rw [if_pos h, if_pos (by omega)]
    have e : getBufFloat (d.drop i) = getBufFloat ((d.drop i).take 4) := by
      simp [getBufFloat, List.take_take]
    rw [e]; rfl
  have hnofit : ∀ d : List Nat, n < i + 4 → getFloat d n i = .ok (none, i) := by
    intro d h
    unfold getFloat
    rw [if_neg (by omega)]; rfl
  refine ⟨?_, hnofit data, hfit data hn, ?_⟩
  · by_cases h : i + 4 ≤ n
    · exact ⟨_, hfit data hn h⟩
    · exact ⟨_, hnofit data (by omega)⟩
  · intro data' heq hn'
    by_cases h : i + 4 ≤ n
    · rw [hfit data hn h, hfit data' hn' h]
      have e : ∀ d : List Nat, (d.drop i).take 4 = ((d.take n).drop i).take 4 := by
        intro d
        rw [List.drop_take, List.take_take, Nat.min_eq_left (by omega)]
      rw [e data, e data', heq]
    · rw [hnofit data (by omega), hnofit data' (by omega)]

/-! ## float fields -/

/-- **C06_float.** For every 32-bit pattern `p` and undefined marker `undef`: (1) a pattern that is not
a NaN and does not compare equal (as a float) to the marker or to `N2kFloatNA` round-trips bit-exactly —
infinities, denormals and −0 included; (2) the marker, and `N2kFloatNA`, are stored as the NA pattern;
(3) the NA pattern and every NaN pattern read as the caller's default; (4) a NaN is stored as itself —
a NaN pattern — hence also reads as the default, never as a number. -/
theorem C06_float (p undef : Nat) (hp : p < 2 ^ 32) :
    (f32IsNaN p = false → f32Eq p undef = false → f32Eq p f32NA = false →
      ∀ rest, getBufFloat (addFloat p undef ++ rest) = some p) ∧
    (f32Eq p undef = true ∨ f32Eq p f32NA = true → addFloat p undef = leBytes 4 i32NA) ∧
    (∀ rest, getBufFloat (leBytes 4 i32NA ++ rest) = none) ∧
    (f32IsNaN p = true → ∀ rest, getBufFloat (addFloat p undef ++ rest) = none) := by
  have hget : ∀ u rest, u < 2 ^ 32 → getBufFloat (leBytes 4 u ++ rest) =
      if u = i32NA then none else if f32IsNaN u then none else some u := by
    intro u rest hu
    unfold getBufFloat
    rw [leVal_take_leBytes, Nat.mod_eq_of_lt (by simpa using hu)]
  refine ⟨?_, ?_, ?_, ?_⟩
  · intro h1 h2 h3 rest
    have hne : p ≠ i32NA := by
      intro h; subst h; revert h1; decide
    simp [addFloat, setBufFloat, h2, h3, hget p rest hp, hne, h1]
  · intro h
    unfold addFloat setBufFloat
    rcases h with h | h
    · simp [h]
    · by_cases h2 : f32Eq p undef = true <;> simp [h, h2]
  · intro rest
    rw [hget i32NA rest (by decide)]; rfl
  · intro h rest
    have h2 : f32Eq p undef = false := by simp [f32Eq, h]
    have h3 : f32Eq p f32NA = false := by simp [f32Eq, h]
    simp [addFloat, setBufFloat, h2, h3, hget p rest hp, h]

example : f32IsNaN 0xC2F70000 = false ∧ f32Eq 0xC2F70000 f32NA = false := by decide

/-! ## the two defects of the pinned tree (fixed in the C06 worktree), as witnesses -/

/-- **C06_witness_pinned_3byte.** `GetBuf3ByteDouble` as pinned (no sign extension) reads the bytes of
−5 as 16777211 — the round trip fails for every negative 3-byte value. -/
theorem C06_witness_pinned_3byte :
    setBufDouble 3 true (.int (-5)) = .ok [0xfb, 0xff, 0xff] ∧
    getBufDouble3Pinned [0xfb, 0xff, 0xff] = some 16777211 ∧
    getBufDouble 3 true [0xfb, 0xff, 0xff] = some (-5) := ⟨rfl, rfl, rfl⟩

/-- **C06_witness_pinned_8byte.** `SetBuf8ByteDouble` as pinned (no range test) reaches the undefined
conversion for NaN, ±inf and 2^63; the fixed function stores the out-of-range code. -/
theorem C06_witness_pinned_8byte :
    setBuf8Pinned .nan = .error .ub ∧ setBuf8Pinned .posInf = .error .ub ∧
    setBuf8Pinned (.int 9223372036854775808) = .error .ub ∧
    setBufDouble 8 true .nan = .ok [0xfe, 0xff, 0xff, 0xff, 0xff, 0xff, 0xff, 0x7f] := ⟨rfl, rfl, rfl, rfl⟩

end N2k.C06
