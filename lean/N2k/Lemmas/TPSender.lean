import N2k.Lemmas.TPSend
import N2k.Lemmas.TPPacket
/-! C10 helper lemmas: the sending side on a quiet node in closed form (`sendTPDT`, the CTS loop, announce). -/
namespace N2k.TP
open N2k.Send N2k.Time N2k.Spec

/-- the node after the driver accepted the frames `fs` -/
def Node.pushes (n : Node) (fs : List Frame) : Node :=
  { n with s := { n.s with drv := { n.s.drv with sent := n.s.drv.sent ++ fs } } }

theorem Node.pushes_pushes (n : Node) (a b : List Frame) : (n.pushes a).pushes b = n.pushes (a ++ b) := by
  simp [Node.pushes, List.append_assoc]

theorem Node.pushes_nil (n : Node) : n.pushes [] = n := by simp [Node.pushes]

theorem Node.setTp_setTp (n : Node) (i : Nat) (t t' : TpDev) : (n.setTp i t).setTp i t' = n.setTp i t' := by
  unfold Node.setTp
  congr 1
  funext j
  by_cases h : j = i <;> simp [h]

theorem Node.setTp_self (n : Node) (i : Nat) : n.setTp i (n.tp i) = n := by
  unfold Node.setTp
  have : (fun j => if j = i then n.tp i else n.tp j) = n.tp := by
    funext j; by_cases h : j = i <;> simp [h]
  rw [this]

@[simp] theorem Node.setTp_tp (n : Node) (i : Nat) (t : TpDev) : (n.setTp i t).tp i = t := by simp [Node.setTp]
@[simp] theorem Node.setTp_s (n : Node) (i : Nat) (t : TpDev) : (n.setTp i t).s = n.s := rfl
@[simp] theorem Node.pushes_tp (n : Node) (fs : List Frame) : (n.pushes fs).tp = n.tp := rfl
@[simp] theorem Node.pushes_slots (n : Node) (fs : List Frame) : (n.pushes fs).slots = n.slots := rfl
@[simp] theorem Node.pushes_devs (n : Node) (fs : List Frame) : (n.pushes fs).s.devs = n.s.devs := rfl
@[simp] theorem Node.pushes_now (n : Node) (fs : List Frame) : (n.pushes fs).s.now = n.s.now := rfl
@[simp] theorem Node.pushes_flavor (n : Node) (fs : List Frame) : (n.pushes fs).s.flavor = n.s.flavor := rfl
@[simp] theorem Node.pushes_claimMode (n : Node) (fs : List Frame) : (n.pushes fs).s.claimMode = n.s.claimMode := rfl
@[simp] theorem Node.pushes_sent (n : Node) (fs : List Frame) : (n.pushes fs).s.drv.sent = n.s.drv.sent ++ fs := rfl

theorem Quiet.pushes {n : Node} {i : Nat} (h : Quiet n.s i) (fs : List Frame) : Quiet (n.pushes fs).s i :=
  ⟨h.dev, h.notListen, h.active, h.ringEmpty, h.script, h.dflt, h.notFpCM, h.notFpDT⟩

theorem srcAddr_eq (n : Node) (i : Nat) (d : Dev) (hd : n.s.devs[i]? = some d) : srcAddr n i = d.source := by
  simp [srcAddr, hd]

theorem emit_quiet (n : Node) (i : Nat) (m : Msg) (d : Dev) (hq : Quiet n.s i) (hd : n.s.devs[i]? = some d) (hm : IsTpMsg m) :
    emit n m i = (n.pushes [tpFrame d.source m], true) := by
  unfold emit
  rw [sendMsg_quiet n.s i m hq hm d hd]
  rfl

theorem dtBytes_length (m : Msg) (k : Nat) : (dtBytes m k).length = 8 := by simp [dtBytes]

theorem isTp_dt (src : Nat) (m : Msg) (k : Nat) (hdst : m.dst < 256) : IsTpMsg (dtMsg src m k) :=
  ⟨Or.inr rfl, rfl, rfl, dtBytes_length m k, hdst⟩

theorem isTp_cm (src dst : Nat) (b : List Nat) (hb : b.length = 8) (hdst : dst < 256) : IsTpMsg (cmMsg src dst b) :=
  ⟨Or.inl rfl, rfl, rfl, hb, hdst⟩

/-- the CAN frame of data packet `k` (0-based) of message `m` sent from address `src` -/
def dtFrame (src : Nat) (m : Msg) (k : Nat) : Frame := tpFrame src (dtMsg src m k)
/-- the CAN frame of a TP.CM message with bytes `b` from `src` to `dst` -/
def cmFrame (src dst : Nat) (b : List Nat) : Frame := tpFrame src (cmMsg src dst b)

theorem sendTPDT_quiet (n : Node) (i : Nat) (d : Dev) (hq : Quiet n.s i) (hd : n.s.devs[i]? = some d)
    (hdst : (n.tp i).pend.dst < 256) :
    sendTPDT n i = ((n.setTp i { n.tp i with nextSeq := ((n.tp i).nextSeq + 1) % 256 }).pushes
                      [dtFrame d.source (n.tp i).pend (n.tp i).nextSeq], true) := by
  unfold sendTPDT
  rw [srcAddr_eq n i d hd]
  rw [emit_quiet _ i _ d (by simpa using hq) (by simpa using hd) (isTp_dt _ _ _ hdst)]
  rfl

theorem hasAllSent_iff (n : Node) (i : Nat) : hasAllSent n i = true ↔ tpPacketCount (n.tp i).pend.len ≤ (n.tp i).nextSeq := by
  unfold hasAllSent tpPacketCount
  simp only [decide_eq_true_eq]
  omega

/-- closed form of the CTS loop on a quiet node: `min k (packets - nextSeq)` packets, numbered on from `nextSeq` -/
theorem ctsLoop_quiet (i : Nat) (d : Dev) : ∀ (k : Nat) (n : Node), Quiet n.s i → n.s.devs[i]? = some d →
    (n.tp i).pend.dst < 256 → tpPacketCount (n.tp i).pend.len ≤ 255 →
    ctsLoop k n i =
      ((n.setTp i { n.tp i with nextSeq := (n.tp i).nextSeq + min k (tpPacketCount (n.tp i).pend.len - (n.tp i).nextSeq) }).pushes
          ((List.range (min k (tpPacketCount (n.tp i).pend.len - (n.tp i).nextSeq))).map
             fun x => dtFrame d.source (n.tp i).pend ((n.tp i).nextSeq + x)), true)
  | 0, n, _, _, _, _ => by
    simp only [ctsLoop, Nat.zero_min, Nat.add_zero, List.range_zero, List.map_nil, Node.pushes_nil]
    rw [Node.setTp_self]
  | k+1, n, hq, hd, hdst, hk => by
    unfold ctsLoop
    by_cases ha : hasAllSent n i = true
    · rw [if_pos ha]
      have := (hasAllSent_iff n i).1 ha
      have h0 : tpPacketCount (n.tp i).pend.len - (n.tp i).nextSeq = 0 := by omega
      simp only [h0, Nat.min_zero, Nat.add_zero, List.range_zero, List.map_nil, Node.pushes_nil]
      rw [Node.setTp_self]
    · rw [if_neg ha]
      have hlt : (n.tp i).nextSeq < tpPacketCount (n.tp i).pend.len := by
        rcases Nat.lt_or_ge (n.tp i).nextSeq (tpPacketCount (n.tp i).pend.len) with h | h
        · exact h
        · exact absurd ((hasAllSent_iff n i).2 h) ha
      rw [sendTPDT_quiet n i d hq hd hdst]
      simp only [↓reduceIte]
      have hmod : ((n.tp i).nextSeq + 1) % 256 = (n.tp i).nextSeq + 1 := Nat.mod_eq_of_lt (by omega)
      rw [hmod]
      rw [ctsLoop_quiet i d k _ (Quiet.pushes (by simpa using hq) _) (by simpa using hd) (by simpa using hdst)
            (by simpa using hk)]
      simp only [Node.pushes_tp, Node.setTp_tp]
      have hc : min (k + 1) (tpPacketCount (n.tp i).pend.len - (n.tp i).nextSeq)
          = 1 + min k (tpPacketCount (n.tp i).pend.len - ((n.tp i).nextSeq + 1)) := by omega
      rw [hc]
      generalize min k (tpPacketCount (n.tp i).pend.len - ((n.tp i).nextSeq + 1)) = c
      congr 1
      have e1 : ((n.setTp i { n.tp i with nextSeq := (n.tp i).nextSeq + 1 }).pushes
                  [dtFrame d.source (n.tp i).pend (n.tp i).nextSeq]).setTp i
                  { pend := (n.tp i).pend, nextSeq := (n.tp i).nextSeq + 1 + c, timer := (n.tp i).timer, hasPending := (n.tp i).hasPending }
              = (n.setTp i { n.tp i with nextSeq := (n.tp i).nextSeq + (1 + c) }).pushes [dtFrame d.source (n.tp i).pend (n.tp i).nextSeq] := by
        have : (n.tp i).nextSeq + 1 + c = (n.tp i).nextSeq + (1 + c) := by omega
        rw [this]
        show ((n.setTp i _).setTp i _).pushes _ = _
        rw [Node.setTp_setTp]
      rw [e1, Node.pushes_pushes]
      congr 1
      rw [List.range_add, List.map_append, List.map_map]
      simp only [List.range_one, List.map_cons, List.map_nil, Nat.add_zero, List.cons_append, List.nil_append]
      congr 1
      apply List.map_congr_left
      intro x _
      simp only [Function.comp]
      congr 1; omega

end N2k.TP
