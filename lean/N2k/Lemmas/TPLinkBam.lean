import N2k.Lemmas.TPLinkMain
/-! C10: BAM transfer between two library nodes - the sender's paced polls and the listening receiver. -/
namespace N2k.TP
open N2k.Send N2k.Time N2k.Spec

variable {i : Nat}

/-! ## sender -/

/-- `SendMsg` of a transport-flagged message of more than 8 bytes to the global address: the BAM announce goes out -/
theorem sendMsgTP_start_bam (a : Node) (m : Msg) (d : Dev) (hq : Quiet a.s i) (hd : a.s.devs[i]? = some d)
    (hlow : m.pgn &&& 0xff = 0) (hp0 : m.pgn ≠ 0) (hid : n2kToCanId m.prio m.pgn d.source m.dst ≠ 0)
    (htp : m.tp = true) (h9 : 9 ≤ m.len) (hdst : m.dst = 255) (hidle : (a.tp i).pend.pgn = 0) :
    sendMsgTP a m (some i) =
      (a.upd (txTp i a (pendMsg m d) 0 a.s.now 50) a.slots a.out
          (a.s.drv.sent ++ [cmFrame d.source 255 (announceBytes 32 (pendMsg m d))]) a.rxq, true) := by
  unfold sendMsgTP
  rw [gate_quiet a.s i m d hq hd hlow hp0 hid]
  have hbig : m.tp = true ∧ ¬ (m.len ≤ 8 ∧ ¬ (m.prio < 0x80 ∧ isFastPacketPGN a.s.lists m.pgn = true)) := by
    refine ⟨htp, ?_⟩; intro h; omega
  simp only []
  rw [if_pos hbig]
  simp only [Option.getD_some, hlow, srcOf, ne_eq, not_true_eq_false, ↓reduceIte]
  unfold startSendTP
  have hlen : ¬ (i ≥ a.s.devs.length) := by
    intro h
    have : a.s.devs[i]? = none := List.getElem?_eq_none h
    rw [this] at hd; cases hd
  have hidle' : ¬ ((a.tp i).pend.pgn ≠ 0) := by simp [hidle]
  simp only [hlen, hidle', ↓reduceIte]
  rw [if_pos (show m.dst = 0xff from hdst)]
  unfold sendBAM
  simp only [Node.setTp_s, hq.active, not_true_eq_false, ↓reduceIte]
  rw [announce_quiet 32 _ i d (by simpa using hq) (by simpa using hd) 255 (by omega)]
  simp only [Node.setTp_tp, ↓reduceIte]
  rfl

/-- the sender's transport state after BAM data packet `seq` (0-based) went out at time `t` -/
def bamTp (i : Nat) (a : Node) (m : Msg) (seq t : Nat) : Nat → TpDev :=
  if seq + 1 < tpPacketCount m.len then txTp i a m (seq + 1) t a.bamGap else doneTp i a m (seq + 1)

/-- **the sender polls when the 50 ms pacing timer is due**: exactly one data packet; after the last one the transfer is over -/
theorem poll_bam (a : Node) (d : Dev) (m : Msg) (seq t0 tmo : Nat) (sl : List Slot) (out : List Delivery)
    (hd : Lead a i d) (hq : Quiet a.s i) (hi : InfoIdle a i) (hm : m.dst = 255) (hp0 : m.pgn ≠ 0) (hlen : m.len ≤ 223)
    (hdue : t0 + tmo + 1 ≤ a.s.now ∧ a.s.now < t0 + tmo + INT32_MAX) (h64 : a.s.now + 100 < M64)
    (hseq : seq < tpPacketCount m.len) :
    poll (a.upd (txTp i a m seq t0 tmo) sl out [] []) =
      a.upd (bamTp i a m seq a.s.now) sl out [dtFrame d.source m seq] [] := by
  have hpc := tpPacketCount_le m.len hlen
  generalize hN : a.upd (txTp i a m seq t0 tmo) sl out [] [] = N
  have hNq : Quiet N.s i := by subst hN; exact upd_quiet _ _ _ _ _ _ hq
  have hNd : Lead N i d := by subst hN; exact hd.upd _ _ _ _ _ (fun k hk => by simp [txTp, hk, hd.others k hk])
  have hNd0 : N.s.devs[i]? = some d := hNd.dev0
  have hNt : (N.tp i).timer.isTime N.s.flavor N.s.now = true := by
    subst hN
    simp only [upd_tp, txTp, ↓reduceIte, upd_flavor, upd_now]
    exact isTime_fromNow_late _ _ _ _ hdue.1 hdue.2 (by omega)
  have hpend : (N.tp i).pend = m := by subst hN; simp [txTp]
  have hns : (N.tp i).nextSeq = seq := by subst hN; simp [txTp]
  have hhp : (N.tp i).hasPending = true := by subst hN; simp [txTp]
  have hrx : N.rxq = [] := by subst hN; rfl
  unfold poll
  rw [flush_quiet N i hNq, pendingAll_solo N d hNd (by subst hN; exact hi), hhp, hrx]
  simp only [↓reduceIte, List.take_nil, List.drop_nil, rxList, List.foldl_nil]
  have hpt : pendingTP N i =
      (if tpPacketCount m.len ≤ seq + 1
       then endSendTP (setTimer ((N.setTp i { N.tp i with nextSeq := ((N.tp i).nextSeq + 1) % 256 }).pushes
              [dtFrame d.source (N.tp i).pend (N.tp i).nextSeq]) i N.bamGap) i
       else setTimer ((N.setTp i { N.tp i with nextSeq := ((N.tp i).nextSeq + 1) % 256 }).pushes
              [dtFrame d.source (N.tp i).pend (N.tp i).nextSeq]) i N.bamGap) := by
    unfold pendingTP
    have hc : (N.tp i).pend.pgn ≠ 0 ∧ (N.tp i).timer.isTime N.s.flavor N.s.now = true := ⟨by rw [hpend]; exact hp0, hNt⟩
    have hb : (N.tp i).pend.dst = 0xff := by rw [hpend]; exact hm
    simp only []
    rw [if_pos hc, if_pos hb]
    rw [sendTPDT_quiet N i d hNq hNd0 (by rw [hb]; omega)]
    simp only []
    have hX : hasAllSent (setTimer ((N.setTp i { N.tp i with nextSeq := ((N.tp i).nextSeq + 1) % 256 }).pushes
          [dtFrame d.source (N.tp i).pend (N.tp i).nextSeq]) i N.bamGap) i = true ↔ tpPacketCount m.len ≤ seq + 1 := by
      rw [hasAllSent_iff]; simp [setTimer, Node.setTp, hpend, hns, Nat.mod_eq_of_lt (show seq + 1 < 256 by omega)]
    by_cases hall : tpPacketCount m.len ≤ seq + 1
    · rw [if_pos hall, if_pos (hX.2 hall)]
    · rw [if_neg hall, if_neg (fun h => hall (hX.1 h))]
  rw [hpt]
  subst hN
  have hres : ∀ X : Node, X = a.upd (bamTp i a m seq a.s.now) sl out [dtFrame d.source m seq] [] →
      claimTick { X with rxq := [] } = a.upd (bamTp i a m seq a.s.now) sl out [dtFrame d.source m seq] [] := by
    intro X hX; subst hX
    exact claimTick_lead _ hd.claims
  apply hres
  unfold bamTp
  by_cases hall : tpPacketCount m.len ≤ seq + 1
  · rw [if_pos hall, if_neg (by omega)]
    simp only [endSendTP, setTimer, upd_setTp, upd_pushes, upd_tp, upd_flavor, upd_now, List.nil_append]
    unfold Node.upd
    congr 1
    all_goals first
      | (funext j; by_cases hj : j = i <;> simp [txTp, doneTp, hj, hi.1, hi.2, Nat.mod_eq_of_lt (show seq + 1 < 256 by omega)])
      | simp [txTp]
  · rw [if_neg hall, if_pos (by omega)]
    simp only [setTimer, upd_setTp, upd_pushes, upd_tp, upd_flavor, upd_now, List.nil_append]
    unfold Node.upd
    congr 1
    all_goals first
      | (funext j; by_cases hj : j = i <;> simp [txTp, hj, Nat.mod_eq_of_lt (show seq + 1 < 256 by omega)])
      | simp [txTp]


/-! ## receiver -/

/-- the receive slot of a BAM transfer after `k` packets -/
def sessB (a0 : Slot) (m : Msg) (src mt k : Nat) : Slot :=
  { bamSlot a0 m.pgn src 255 mt m.len (tpPacketCount m.len) with data := gotBytes m k, lastFrame := k }

theorem sessOf_sessB (a0 : Slot) (m : Msg) (src mt k : Nat) : sessOf src 255 (sessB a0 m src mt k) = true := by
  simp [sessOf, sessB, bamSlot, startSlot]

section
variable (b : Node) (db : Dev) (m : Msg) (srcA j : Nat) (S' : List Slot) (a0 : Slot)

/-- the listening node in the middle of a BAM transfer -/
def rcvB (mt : Nat) (out : List Delivery) (k : Nat) (fs rxq : List Frame) : Node :=
  b.upd b.tp (S'.set j (sessB a0 m srcA mt k)) out fs rxq

/-- one BAM data packet arrives, not the last one -/
theorem rxB_mid (mt k : Nat) (out : List Delivery) (fs rxq : List Frame) (hsrc : srcA < 256) (hdst : m.dst = 255)
    (hnone : findIdx (sessOf srcA 255) S' = none) (hj : j < S'.length) (hreq : a0.reqCTS = 0)
    (hk : 7 * (k + 1) < m.len) (hlen : m.len ≤ 223) :
    rxFrame (rcvB b m srcA j S' a0 mt out k fs rxq) (dtFrame srcA m k) = rcvB b m srcA j S' a0 (millis32 b.s.now) out (k + 1) fs rxq := by
  have hk255 : k < 255 := by omega
  unfold rcvB
  generalize hN : b.upd b.tp (S'.set j (sessB a0 m srcA mt k)) out fs rxq = N
  have hfj : findIdx (sessOf srcA 255) N.slots = some j := by
    subst hN; exact findIdx_set_of_none _ _ _ _ hnone hj (sessOf_sessB _ _ _ _ _)
  have hsl : N.slots[j]? = some (sessB a0 m srcA mt k) := by subst hN; exact List.getElem?_set_self hj
  rw [dtFrame_eq, hdst, rxFrame_dt N srcA 255 _ hsrc (by omega) (dtBytes_length m k)]
  rw [handleData_silent N srcA 255 j 8 _ _ hfj hsl (by simpa [sessB, bamSlot, startSlot] using hreq)]
  have hseq : (sessB a0 m srcA mt k).lastFrame + 1 = (dtBytes m k).getD 0 0 := by rw [dtBytes_head m k hk255]; rfl
  rw [if_pos hseq]
  have hcopy : copyBuf (sessB a0 m srcA mt k).data 1 8 (dtBytes m k) = gotBytes m (k + 1) := copyBuf_mid m k (by omega)
  have hmore : ¬ ((copyBuf (sessB a0 m srcA mt k).data 1 8 (dtBytes m k)).length ≥ (sessB a0 m srcA mt k).dataLen) := by
    rw [hcopy, gotBytes_length]; show ¬ (7 * (k + 1) ≥ m.len); omega
  simp only [hmore, ↓reduceIte, finish]
  rw [hcopy, dtBytes_head m k hk255]
  subst hN
  simp only [upd_setSlot, List.set_set, upd_now]
  rfl

/-- the last BAM data packet arrives: exactly one delivery -/
theorem rxB_last (mt k : Nat) (out : List Delivery) (fs rxq : List Frame) (hsrc : srcA < 256) (hdst : m.dst = 255)
    (hnone : findIdx (sessOf srcA 255) S' = none) (hj : j < S'.length) (hreq : a0.reqCTS = 0)
    (hk : m.len ≤ 7 * (k + 1)) (hk' : 7 * k < m.len) (hlen : m.len ≤ 223) (hl : m.len ≤ m.data.length) :
    ∃ S'', rxFrame (rcvB b m srcA j S' a0 mt out k fs rxq) (dtFrame srcA m k) =
      b.upd b.tp S'' (out ++ [delivered m srcA 255]) fs rxq := by
  have hk255 : k < 255 := by omega
  unfold rcvB
  generalize hN : b.upd b.tp (S'.set j (sessB a0 m srcA mt k)) out fs rxq = N
  have hfj : findIdx (sessOf srcA 255) N.slots = some j := by
    subst hN; exact findIdx_set_of_none _ _ _ _ hnone hj (sessOf_sessB _ _ _ _ _)
  have hsl : N.slots[j]? = some (sessB a0 m srcA mt k) := by subst hN; exact List.getElem?_set_self hj
  obtain ⟨hge, htake⟩ := copyBuf_last m k (by omega) hlen hk hl
  rw [dtFrame_eq, hdst, rxFrame_dt N srcA 255 _ hsrc (by omega) (dtBytes_length m k)]
  rw [handleData_silent N srcA 255 j 8 _ _ hfj hsl (by simpa [sessB, bamSlot, startSlot] using hreq)]
  have hseq : (sessB a0 m srcA mt k).lastFrame + 1 = (dtBytes m k).getD 0 0 := by rw [dtBytes_head m k hk255]; rfl
  rw [if_pos hseq]
  have hdone : (copyBuf (sessB a0 m srcA mt k).data 1 8 (dtBytes m k)).length ≥ (sessB a0 m srcA mt k).dataLen := hge
  simp only [hdone, ↓reduceIte, finish]
  subst hN
  refine ⟨S'.set j (freeMessage { sessB a0 m srcA mt k with
      data := copyBuf (sessB a0 m srcA mt k).data 1 8 (dtBytes m k), lastFrame := (dtBytes m k).getD 0 0,
      msgTime := millis32 b.s.now }), ?_⟩
  unfold deliver
  simp only [upd_setSlot, upd_slots, List.set_set, List.getElem?_set_self hj, upd_now]
  rw [systemMessage_tp _ _ (by rfl)]
  simp only [upd_slots, upd_out, List.set_set, deliveryOf]
  have e1 : (copyBuf (sessB a0 m srcA mt k).data 1 8 (dtBytes m k)).take m.len = m.data.take m.len := htake
  simp only [Node.upd]
  congr 1
  simp only [sessB, bamSlot, startSlot] at e1 ⊢
  simp [e1, delivered]

variable (hd : Lead b i db) (hq : Quiet b.s i) (hnotp : (b.tp i).hasPending = false) (hib : InfoIdle b i)
include hd hq hnotp hib

/-- the listening node polls with the BAM announce in its queue -/
theorem poll_bam_announce (hsrc : srcA < 256) (hlen : m.len ≤ 223) (hpgn : m.pgn < 2^24)
    (hknown : (checkKnown m.pgn).1 = true ∨ ¬ b.onlyKnown = true)
    (hS : S' = b.slots.map (freeSess srcA 255))
    (hj : findIdx (slotHit m.pgn srcA 255 true) S' = some j) (ha0 : S'[j]? = some a0) :
    poll (b.upd b.tp b.slots [] [] [cmFrame srcA 255 (announceBytes 32 m)]) =
      rcvB b m srcA j S' a0 (millis32 b.s.now) [] 0 [] [] := by
  generalize hN : b.upd b.tp b.slots [] [] [cmFrame srcA 255 (announceBytes 32 m)] = N
  have hNq : Quiet N.s i := by subst hN; exact upd_quiet _ _ _ _ _ _ hq
  have hNd : Lead N i db := by subst hN; exact hd.same _ _ _ _
  rw [poll_solo N db hNd hNq (by subst hN; exact hib) (fun h => by subst hN; simp [hnotp] at h) (by subst hN; simp)]
  have hrx : N.rxq = [cmIn srcA 255 (announceBytes 32 m)] := by subst hN; rfl
  rw [hrx]
  simp only [rxList, List.foldl_cons, List.foldl_nil]
  rw [rxFrame_cm N srcA 255 _ hsrc (by omega) (by simp [announceBytes, le3])]
  unfold handleCM
  have hpc : packetCount m.len % 256 = tpPacketCount m.len := by
    rw [packetCount_eq]; have := tpPacketCount_le m.len hlen; omega
  have hsz : m.len % 256 + m.len / 256 % 256 * 256 = m.len := by omega
  simp only [announceBytes, le3, List.cons_append, List.nil_append, List.getD_cons_zero, List.getD_cons_succ,
    le3_sum m.pgn hpgn, hpc, hsz]
  simp only [Nat.reduceEqDiff, true_or, ↓reduceIte]
  have hNs : N.slots = b.slots := by subst hN; rfl
  have hNn : N.s.now = b.s.now := by subst hN; rfl
  have hNo : N.onlyKnown = b.onlyKnown := by subst hN; rfl
  rw [handleStart_listen N srcA 255 m.pgn m.len (tpPacketCount m.len) j _ _ a0 (by simp) hlen
        (by rw [hNo]; exact hknown) (by rw [hNs, ← hS]; exact hj) (by rw [hNs, ← hS]; exact ha0)]
  rw [hNs, ← hS, hNn]
  subst hN
  have hres : ∀ X : Node, X = rcvB b m srcA j S' a0 (millis32 b.s.now) [] 0 [] [cmFrame srcA 255 (announceBytes 32 m)] →
      claimTick { X with rxq := [] } = rcvB b m srcA j S' a0 (millis32 b.s.now) [] 0 [] [] := by
    intro X hX; subst hX
    exact claimTick_lead _ hd.claims
  apply hres
  rfl

/-- the listening node polls with one BAM data packet (not the last) in its queue -/
theorem poll_bam_mid (mt k : Nat) (hsrc : srcA < 256) (hdst : m.dst = 255)
    (hnone : findIdx (sessOf srcA 255) S' = none) (hj : j < S'.length) (hreq : a0.reqCTS = 0)
    (hk : 7 * (k + 1) < m.len) (hlen : m.len ≤ 223) :
    poll (rcvB b m srcA j S' a0 mt [] k [] [dtFrame srcA m k]) = rcvB b m srcA j S' a0 (millis32 b.s.now) [] (k + 1) [] [] := by
  have hNd : Lead (rcvB b m srcA j S' a0 mt [] k [] [dtFrame srcA m k]) i db := hd.same _ _ _ _
  have hNq : Quiet (rcvB b m srcA j S' a0 mt [] k [] [dtFrame srcA m k]).s i := upd_quiet _ _ _ _ _ _ hq
  rw [poll_solo _ db hNd hNq hib (fun h => by simp [rcvB, hnotp] at h) (by simp [rcvB])]
  have hrxq : (rcvB b m srcA j S' a0 mt [] k [] [dtFrame srcA m k]).rxq = [dtFrame srcA m k] := rfl
  rw [hrxq]
  simp only [rxList, List.foldl_cons, List.foldl_nil]
  rw [rxB_mid b m srcA j S' a0 mt k [] [] _ hsrc hdst hnone hj hreq hk hlen]
  exact claimTick_lead _ hd.claims

/-- the listening node polls with the last BAM data packet in its queue: exactly one delivery -/
theorem poll_bam_last (mt k : Nat) (hsrc : srcA < 256) (hdst : m.dst = 255)
    (hnone : findIdx (sessOf srcA 255) S' = none) (hj : j < S'.length) (hreq : a0.reqCTS = 0)
    (hk : m.len ≤ 7 * (k + 1)) (hk' : 7 * k < m.len) (hlen : m.len ≤ 223) (hl : m.len ≤ m.data.length) :
    ∃ S'', poll (rcvB b m srcA j S' a0 mt [] k [] [dtFrame srcA m k]) = b.upd b.tp S'' [delivered m srcA 255] [] [] := by
  have hNd : Lead (rcvB b m srcA j S' a0 mt [] k [] [dtFrame srcA m k]) i db := hd.same _ _ _ _
  have hNq : Quiet (rcvB b m srcA j S' a0 mt [] k [] [dtFrame srcA m k]).s i := upd_quiet _ _ _ _ _ _ hq
  rw [poll_solo _ db hNd hNq hib (fun h => by simp [rcvB, hnotp] at h) (by simp [rcvB])]
  have hrxq : (rcvB b m srcA j S' a0 mt [] k [] [dtFrame srcA m k]).rxq = [dtFrame srcA m k] := rfl
  rw [hrxq]
  simp only [rxList, List.foldl_cons, List.foldl_nil]
  obtain ⟨S'', hS⟩ := rxB_last b m srcA j S' a0 mt k [] [] [dtFrame srcA m k] hsrc hdst hnone hj hreq hk hk' hlen hl
  rw [hS]
  refine ⟨S'', ?_⟩
  exact claimTick_lead _ hd.claims

end

/-! ## the rounds of a BAM transfer -/

/-- a free slot has no CTS obligation left over (`FreeMessage` and the constructor reset it): carried to the slot the search finds -/
theorem found_slot_silent (slots : List Slot) (pgn src j : Nat) (a0 : Slot)
    (hinv : ∀ sl ∈ slots, sl.free = true → sl.reqCTS = 0)
    (hj : findIdx (slotHit pgn src 255 true) (slots.map (freeSess src 255)) = some j)
    (ha0 : (slots.map (freeSess src 255))[j]? = some a0) : a0.reqCTS = 0 := by
  obtain ⟨a1, ha1, hhit⟩ := findIdx_get _ _ _ hj
  rw [ha0] at ha1; cases ha1
  have hmem : a0 ∈ slots.map (freeSess src 255) := List.mem_of_getElem? ha0
  obtain ⟨x, hx, hxe⟩ := List.mem_map.1 hmem
  have hns : sessOf src 255 a0 = false := by rw [← hxe]; exact sessOf_freeSess src 255 x
  have hfree : a0.free = true := by
    cases hf : a0.free with
    | true => rfl
    | false =>
      simp only [slotHit, hf, Bool.false_or, Bool.and_eq_true, beq_iff_eq] at hhit
      simp [sessOf, hf, hhit.1.2, hhit.2, hhit.1.1.2] at hns
  rw [← hxe] at hfree ⊢
  unfold freeSess at hfree ⊢
  by_cases hs : sessOf src 255 x = true
  · rw [if_pos hs]; simp [freeMessage]
  · rw [if_neg hs] at hfree ⊢; exact hinv x hx hfree

section
variable (a b : Node) (ia ib : Nat) (da db : Dev) (m : Msg) (j : Nat) (S' : List Slot) (a0 : Slot)

structure BamHyp : Prop where
  devA : Lead a ia da
  devB : Lead b ib db
  qa : Quiet a.s ia
  qb : Quiet b.s ib
  bIdle : (b.tp ib).hasPending = false
  aInfo : InfoIdle a ia
  bInfo : InfoIdle b ib
  mdst : m.dst = 255
  len9 : 9 ≤ m.len
  len223 : m.len ≤ 223
  hdata : m.len ≤ m.data.length
  pgn24 : m.pgn < 2^24
  pgn0 : m.pgn ≠ 0
  known : (checkKnown m.pgn).1 = true ∨ ¬ b.onlyKnown = true
  hS : S' = b.slots.map (freeSess da.source 255)
  hj : findIdx (slotHit m.pgn da.source 255 true) S' = some j
  ha0 : S'[j]? = some a0
  hreq : a0.reqCTS = 0

variable {a b ia ib da db m j S' a0}

theorem BamHyp.srcA (h : BamHyp a b ia ib da db m j S' a0) : da.source ≤ 251 := by
  exact h.devA.src h.qa

theorem BamHyp.none (h : BamHyp a b ia ib da db m j S' a0) : findIdx (sessOf da.source 255) S' = none := by
  rw [h.hS]
  apply findIdx_none_of_all
  intro x hx
  obtain ⟨c, _, hc⟩ := List.mem_map.1 hx
  rw [← hc]; exact sessOf_freeSess _ _ c

theorem BamHyp.jlt (h : BamHyp a b ia ib da db m j S' a0) : j < S'.length := findIdx_lt _ _ _ h.hj

/-- the sender after BAM data packet `k` went out at time `tA` -/
def sndB (ia : Nat) (a : Node) (da : Dev) (m : Msg) (tA k : Nat) : Node :=
  (atTime a tA).upd (bamTp ia a m k tA) a.slots a.out [dtFrame da.source m k] []

theorem bamTp_atTime (i : Nat) (n : Node) (t : Nat) (m : Msg) (seq t1 : Nat) : bamTp i (atTime n t) m seq t1 = bamTp i n m seq t1 := rfl

/-- first round: the BAM announce is heard; at least 51 ms later the sender's poll sends data packet 1 -/
theorem roundB_first (h : BamHyp a b ia ib da db m j S' a0) (tA tB dB dA : Nat) (hdA : 51 ≤ dA ∧ dA < INT32_MAX)
    (h64 : tA + dA + 100 < M64) :
    round dB dA ((atTime a tA).upd (txTp ia a m 0 tA 50) a.slots a.out [cmFrame da.source 255 (announceBytes 32 m)] [],
                 (atTime b tB).upd b.tp b.slots [] [] []) =
      (sndB ia a da m (tA + dA) 0, rcvB (atTime b (tB + dB)) m da.source j S' a0 (millis32 (tB + dB)) [] 0 [] []) := by
  have hsa := h.srcA
  have hnp : 2 ≤ tpPacketCount m.len := by have := h.len9; unfold tpPacketCount; omega
  unfold round
  simp only [wire_upd, List.nil_append, advance_upd]
  have hp := poll_bam_announce (atTime b (tB + dB)) db m da.source j S' a0 (h.devB.atTime _) (atTime_quiet _ h.qb) h.bIdle h.bInfo (by omega) h.len223
    h.pgn24 h.known h.hS h.hj h.ha0
  rw [show (atTime b (tB + dB)).tp = b.tp from rfl, show (atTime b (tB + dB)).slots = b.slots from rfl] at hp
  rw [hp]
  unfold rcvB
  simp only [wire_upd, List.append_nil, advance_upd]
  have hc := poll_bam (atTime a (tA + dA)) da m 0 tA 50 a.slots a.out (h.devA.atTime _) (atTime_quiet _ h.qa) h.aInfo h.mdst h.pgn0 h.len223
    ⟨by show tA + 50 + 1 ≤ tA + dA; omega, by show tA + dA < tA + 50 + INT32_MAX; omega⟩ (by show tA + dA + 100 < M64; exact h64) (by omega)
  rw [txTp_atTime, bamTp_atTime] at hc
  rw [hc]
  rfl

/-- a middle round: data packet `k` is heard; at least 51 ms after its last poll the sender sends packet `k+1` -/
theorem roundB_mid (h : BamHyp a b ia ib da db m j S' a0) (k tA tB mt dB dA : Nat) (hk : k + 1 < tpPacketCount m.len)
    (hdA : a.bamGap + 1 ≤ dA ∧ dA < INT32_MAX) (h64 : tA + dA + 100 < M64) :
    round dB dA (sndB ia a da m tA k, rcvB (atTime b tB) m da.source j S' a0 mt [] k [] []) =
      (sndB ia a da m (tA + dA) (k + 1), rcvB (atTime b (tB + dB)) m da.source j S' a0 (millis32 (tB + dB)) [] (k + 1) [] []) := by
  have hsa := h.srcA
  have htight := tpPacketCount_tight m.len (by have := h.len9; omega)
  unfold round sndB rcvB
  simp only [wire_upd, List.nil_append, advance_upd]
  have hp := poll_bam_mid (atTime b (tB + dB)) db m da.source j S' a0 (h.devB.atTime _) (atTime_quiet _ h.qb) h.bIdle h.bInfo mt k (by omega) h.mdst h.none
    h.jlt h.hreq (by omega) h.len223
  unfold rcvB at hp
  rw [show (atTime b (tB + dB)).tp = b.tp from rfl] at hp
  rw [show (atTime b tB).tp = b.tp from rfl]
  rw [hp]
  simp only [wire_upd, List.append_nil, advance_upd]
  have hbt : bamTp ia a m k tA = txTp ia a m (k + 1) tA a.bamGap := by unfold bamTp; rw [if_pos hk]
  rw [hbt]
  have hc := poll_bam (atTime a (tA + dA)) da m (k + 1) tA a.bamGap a.slots a.out (h.devA.atTime _) (atTime_quiet _ h.qa) h.aInfo h.mdst h.pgn0 h.len223
    ⟨by show tA + a.bamGap + 1 ≤ tA + dA; omega, by show tA + dA < tA + a.bamGap + INT32_MAX; omega⟩ (by show tA + dA + 100 < M64; exact h64) hk
  rw [txTp_atTime, bamTp_atTime] at hc
  rw [hc]
  rfl

/-- the last round: the last data packet is heard and delivered; the sender has nothing left to do -/
theorem roundB_last (h : BamHyp a b ia ib da db m j S' a0) (k tA tB mt dB dA : Nat) (hk : k + 1 = tpPacketCount m.len) :
    ∃ S'', round dB dA (sndB ia a da m tA k, rcvB (atTime b tB) m da.source j S' a0 mt [] k [] []) =
      ((atTime a (tA + dA)).upd (doneTp ia a m (tpPacketCount m.len)) a.slots a.out [] [],
       (atTime b (tB + dB)).upd b.tp S'' [delivered m da.source 255] [] []) := by
  have hsa := h.srcA
  have htight := tpPacketCount_tight m.len (by have := h.len9; omega)
  have hcov := tpPacketCount_cover m.len
  unfold round sndB rcvB
  simp only [wire_upd, List.nil_append, advance_upd]
  obtain ⟨S'', hp⟩ := poll_bam_last (atTime b (tB + dB)) db m da.source j S' a0 (h.devB.atTime _) (atTime_quiet _ h.qb) h.bIdle h.bInfo mt k (by omega) h.mdst
    h.none h.jlt h.hreq (by omega) (by omega) h.len223 h.hdata
  unfold rcvB at hp
  rw [show (atTime b (tB + dB)).tp = b.tp from rfl] at hp
  rw [show (atTime b tB).tp = b.tp from rfl]
  rw [hp]
  refine ⟨S'', ?_⟩
  simp only [wire_upd, List.append_nil, advance_upd]
  have hbt : bamTp ia a m k tA = doneTp ia a m (tpPacketCount m.len) := by unfold bamTp; rw [if_neg (by omega), hk]
  rw [hbt]
  have hidle := poll_idle ((atTime a (tA + dA)).upd (doneTp ia a m (tpPacketCount m.len)) a.slots a.out [] []) da ((h.devA.atTime _).upd _ _ _ _ _ (fun k hk => by simp [doneTp, hk, h.devA.others k hk]))
    (upd_quiet _ _ _ _ _ _ (atTime_quiet _ h.qa)) h.aInfo (fun hh => by simp [doneTp] at hh) rfl
  rw [hidle]

/-- from any packet on, the BAM transfer completes in the remaining number of rounds, whatever the delays from 51 ms on -/
theorem roundsB_complete (h : BamHyp a b ia ib da db m j S' a0) : ∀ (fuel k tA tB mt : Nat) (ds : List (Nat × Nat)),
    k < tpPacketCount m.len → tpPacketCount m.len - k ≤ fuel → fuel ≤ ds.length → (∀ p ∈ ds, a.bamGap + 1 ≤ p.2 ∧ p.2 < INT32_MAX) →
    tA + totalA ds + 100 < M64 →
    ∃ r S'' tA' tB', r ≤ fuel ∧ rounds (ds.take r) (sndB ia a da m tA k, rcvB (atTime b tB) m da.source j S' a0 mt [] k [] []) =
      ((atTime a tA').upd (doneTp ia a m (tpPacketCount m.len)) a.slots a.out [] [],
       (atTime b tB').upd b.tp S'' [delivered m da.source 255] [] [])
  | 0, k, _, _, _, _, hk, hf, _, _, _ => by omega
  | fuel+1, k, tA, tB, mt, [], _, _, hl, _, _ => by simp at hl
  | fuel+1, k, tA, tB, mt, p :: ds, hk, hf, hl, hd, h64 => by
    have hp := hd p (by simp)
    have htot : totalA (p :: ds) = p.2 + totalA ds := by simp [totalA]
    by_cases hlast : k + 1 = tpPacketCount m.len
    · obtain ⟨S'', hr⟩ := roundB_last h k tA tB mt p.1 p.2 hlast
      exact ⟨1, S'', tA + p.2, tB + p.1, by omega, by simp only [List.take_succ_cons, List.take_zero, rounds]; exact hr⟩
    · have hmore : k + 1 < tpPacketCount m.len := by omega
      obtain ⟨r, S'', tA', tB', hr, hR⟩ := roundsB_complete h fuel (k + 1) (tA + p.2) (tB + p.1) (millis32 (tB + p.1)) ds
        hmore (by omega) (by simpa using hl) (fun q hq => hd q (by simp [hq])) (by omega)
      refine ⟨r + 1, S'', tA', tB', by omega, ?_⟩
      simp only [List.take_succ_cons, rounds]
      rw [roundB_mid h k tA tB mt p.1 p.2 hmore hp (by omega)]
      exact hR

end

end N2k.TP
