import N2k.Lemmas.TPPacket
import N2k.Lemmas.TPSender
import N2k.Lemmas.TPRecv
import N2k.Lemmas.TPRecvStep
import N2k.Lemmas.TPTime
import N2k.Lemmas.TPLinkMain
import N2k.Lemmas.TPLinkBam
import N2k.Lemmas.TPLinkSched
import N2k.Lemmas.TPLinkBamSched
import N2k.Lemmas.TPPacing
import N2k.Lemmas.TPSafeRx
/-!
# C10 — ISO transport protocol transfers complete intact or abort cleanly

Theorems over `Model/TP.lean` (the model of the tree with the `fix:` commits of known_findings.d/C10.json and
C07_tp.json). "Quiet" = the device may transmit and the CAN driver takes every frame (`Lemmas/TPSend.lean`); under
back-pressure the frames still leave through the send queue of C11 and the transfer ends cleanly
(`EndSendTPMessage`) when a frame cannot be queued - that path is covered by the correspondence run, not by these theorems.
-/
namespace N2k.C10
open N2k.Send N2k.Time N2k.Spec N2k.TP

/-! ## packetisation -/

/-- **Packetisation.** For every message of at most 223 bytes (in particular 9..223, the range `SendMsg` hands to the
transport protocol): the RTS and BAM announce frames carry the size, ⌈size/7⌉ and
the PGN as J1939-21 lays them out; data packet `k` (`k` = 0, 1, …) is `[k+1, 7 payload bytes]` with 0xFF beyond the
payload (bytes of `Data[]` beyond `DataLen` have no influence: only `data.take len` appears on the right); every packet
has 8 bytes; and the reference receiver `tpReassemble` applied to all ⌈size/7⌉ packets returns the payload. -/
theorem C10_packetise (m : Msg) (h223 : m.len ≤ 223) (hl : m.len ≤ m.data.length) :
    announceBytes 16 m = tpAnnounce 16 (m.data.take m.len) m.pgn ∧
    announceBytes 32 m = tpAnnounce 32 (m.data.take m.len) m.pgn ∧
    packetCount m.len = tpPacketCount (m.data.take m.len).length ∧
    (∀ k, k < packetCount m.len → dtBytes m k = tpDT (m.data.take m.len) (k + 1) ∧ (dtBytes m k).length = 8) ∧
    (List.range (packetCount m.len)).map (dtBytes m) = tpDTs (m.data.take m.len) ∧
    tpReassemble m.len ((List.range (packetCount m.len)).map (dtBytes m)) = m.data.take m.len := by
  have hlen := take_len m hl
  have hpc : packetCount m.len ≤ 32 := by rw [packetCount_eq]; exact tpPacketCount_le _ h223
  have hall : (List.range (packetCount m.len)).map (dtBytes m) = tpDTs (m.data.take m.len) := by
    unfold tpDTs
    rw [hlen, packetCount_eq]
    apply List.map_congr_left
    intro k hk
    have : k < tpPacketCount m.len := by simpa using hk
    rw [packetCount_eq] at hpc
    exact dtBytes_eq m k (by omega) hl
  refine ⟨announce_eq 16 m hl h223, announce_eq 32 m hl h223, by rw [hlen, packetCount_eq], ?_, hall, ?_⟩
  · intro k hk
    exact ⟨dtBytes_eq m k (by omega) hl, dtBytes_length m k⟩
  · rw [hall]
    have := tpReassemble_tpDTs (m.data.take m.len)
    rw [hlen] at this
    exact this

example : 9 ≤ exMsg.len ∧ exMsg.len ≤ 223 ∧ exMsg.len ≤ exMsg.data.length := by decide

/-- the data packets really leave as TP.DT frames to the destination of the pending message: on a quiet node
`SendTPDT` hands exactly one frame to the driver - identifier of PGN 60160 from the device's address to the
destination, 8 bytes `dtBytes pend nextSeq` - and advances `NextDTSequence`. -/
theorem C10_packet_frame (n : Node) (i : Nat) (d : Dev) (hq : Quiet n.s i) (hd : n.s.devs[i]? = some d)
    (hdst : (n.tp i).pend.dst < 256) :
    (sendTPDT n i).2 = true ∧
    (sendTPDT n i).1.s.drv.sent = n.s.drv.sent ++ [⟨n2kToCanId 6 60160 d.source (n.tp i).pend.dst, 8, dtBytes (n.tp i).pend (n.tp i).nextSeq⟩] ∧
    ((sendTPDT n i).1.tp i).nextSeq = ((n.tp i).nextSeq + 1) % 256 ∧
    canIdToN2k (n2kToCanId 6 60160 d.source (n.tp i).pend.dst) = (6, 60160, d.source, (n.tp i).pend.dst) := by
  obtain ⟨d', hd', hsrc, _⟩ := hq.dev
  rw [hd] at hd'; cases hd'
  rw [sendTPDT_quiet n i d hq hd hdst]
  refine ⟨rfl, rfl, by simp, ?_⟩
  exact tpId_decode 60160 d.source _ (Or.inr rfl) (by omega) hdst

example : Quiet exNode.s 0 ∧ exNode.s.devs[0]? = some exDev ∧ (exNode.tp 0).pend.dst < 256 := ⟨exQuiet, rfl, by decide⟩

/-! ## the sender obeys clear-to-send -/

/-- **CTS obedience.** Device `i` has an RTS/CTS transfer pending (destination `src` ≠ 255, at most 223 bytes) and a CTS
`(b1 packets, from packet b2)` arrives from that destination for that PGN, on a quiet node.
* `b1 = 0` (hold): nothing is sent, only the timeout is re-armed to 100 ms.
* `b1 > 0` and `b2 - 1 ≠ NextDTSequence`: nothing is sent and the transfer is ended.
* `b1 > 0` and `b2 - 1 = NextDTSequence`: exactly `min b1 remaining` data packets are handed to the driver, numbered on
  from `b2`, nothing else; `NextDTSequence` advances by that count, the message stays pending, the timeout is 100 ms.
A CTS for another PGN or from another node than the destination changes nothing at all. -/
theorem C10_sender_obeys_cts (n : Node) (i src b1 b2 : Nat) (d : Dev) (hq : Quiet n.s i) (hd : n.s.devs[i]? = some d)
    (hdst : (n.tp i).pend.dst = src) (hne : src ≠ 255) (hsrc : src < 256) (hlen : (n.tp i).pend.len ≤ 223) :
    (b1 = 0 → handleCTS n i src (n.tp i).pend.pgn b1 b2 = setTimer n i 100) ∧
    (b1 > 0 → b2 ≠ (n.tp i).nextSeq + 1 → handleCTS n i src (n.tp i).pend.pgn b1 b2 = endSendTP n i) ∧
    (b1 > 0 → b2 = (n.tp i).nextSeq + 1 →
      handleCTS n i src (n.tp i).pend.pgn b1 b2 =
        setTimer ((n.setTp i { n.tp i with
                      nextSeq := (n.tp i).nextSeq + min b1 (tpPacketCount (n.tp i).pend.len - (n.tp i).nextSeq) }).pushes
          ((List.range (min b1 (tpPacketCount (n.tp i).pend.len - (n.tp i).nextSeq))).map
              fun x => dtFrame d.source (n.tp i).pend ((n.tp i).nextSeq + x))) i 100) ∧
    (∀ pgn' src', pgn' ≠ (n.tp i).pend.pgn ∨ src' ≠ src → handleCTS n i src' pgn' b1 b2 = n) := by
  have hd255 : ¬ ((n.tp i).pend.dst = 0xff) := by rw [hdst]; exact hne
  have hmine : ¬ ((n.tp i).pend.pgn ≠ (n.tp i).pend.pgn ∨ (n.tp i).pend.dst ≠ src) := by
    intro h; rcases h with h | h
    · exact h rfl
    · exact h hdst
  refine ⟨?_, ?_, ?_, ?_⟩
  · intro h0
    unfold handleCTS
    rw [if_neg hd255, if_neg hmine, if_neg (by omega)]
  · intro hb hseq
    unfold handleCTS
    rw [if_neg hd255, if_neg hmine, if_pos hb, if_pos hseq]
  · intro hb hseq
    unfold handleCTS
    have hpc : tpPacketCount (n.tp i).pend.len ≤ 255 := by have := tpPacketCount_le _ hlen; omega
    rw [if_neg hd255, if_neg hmine, if_pos hb, if_neg (by simp [hseq])]
    rw [ctsLoop_quiet i d b1 n hq hd (by rw [hdst]; exact hsrc) hpc]
    rfl
  · intro pgn' src' hx
    unfold handleCTS
    have : (n.tp i).pend.pgn ≠ pgn' ∨ (n.tp i).pend.dst ≠ src' := by
      rcases hx with h | h
      · exact Or.inl (Ne.symm h)
      · exact Or.inr (by rw [hdst]; exact Ne.symm h)
    rw [if_neg hd255, if_pos this]

/-- hypotheses of `C10_sender_obeys_cts` are satisfiable: the example node after `SendMsg` of a 20-byte message to 30 -/
example : let n := (sendMsgTP exNode exMsg (some 0)).1
    Quiet n.s 0 ∧ n.s.devs[0]? = some exDev ∧ (n.tp 0).pend.dst = 30 ∧ (n.tp 0).pend.len ≤ 223 ∧ (n.tp 0).pend.pgn = 126464 := by
  refine ⟨⟨⟨exDev, rfl, by decide, by decide⟩, rfl, rfl, rfl, rfl, rfl, by decide, by decide⟩, rfl, by decide, by decide, by decide⟩

/-- the CTS reaches `handleCTS` through the receive path: a TP.CM frame with control byte 17 addressed to device `i` -/
theorem C10_cts_frame_dispatch (n : Node) (i src dst b1 b2 pgn : Nat) (hs : src < 256) (hdlt : dst < 256)
    (hi : findDev n.s.devs dst = some i) (hp : pgn < 2^24) :
    rxFrame n ⟨n2kToCanId 6 60416 src dst, 8, tpCTS b1 b2 pgn⟩ = handleCTS n i src pgn b1 b2 := by
  unfold rxFrame
  rw [tpId_decode 60416 src dst (Or.inl rfl) hs hdlt]
  rw [buf8_of_len8 _ _ (by simp [tpCTS, pgnBytes])]
  simp only [TP_CM, ↓reduceIte]
  unfold handleCM
  simp only [hi, tpCTS, pgnBytes, List.cons_append, List.nil_append, List.getD_cons_zero, List.getD_cons_succ]
  have : pgn % 256 + pgn / 256 % 256 * 256 + pgn / 65536 % 256 * 65536 = pgn := by omega
  simp [this, finish]

/-! ## BAM pacing -/

/-- **BAM pacing.** The interval the library re-arms the BAM timer with is a parameter `bamGap` of the node (the statement only
says "at least 50 ms"; the pinned tree uses 50, the check reads the value back from the node). For every `bamGap ≥ 50`: when
a poll at time `t1` sends a BAM data packet (`SendPendingTPMessage` with the timer due), then any poll at a time `t2` with
`t1 ≤ t2 < t1 + 50` changes nothing - in particular sends nothing: consecutive data packets are at least 50 ms apart, for
both scheduler flavours and whatever the driver does. (The first data packet is at least 50 ms after the BAM announce in
the same way: `C10_bam_first_packet`.) -/
theorem C10_bam_pacing (n : Node) (i t2 : Nat) (hb : (n.tp i).pend.dst = 255) (hp : (n.tp i).pend.pgn ≠ 0)
    (ht : (n.tp i).timer.isTime n.s.flavor n.s.now = true) (hg : 50 ≤ n.bamGap ∧ n.bamGap ≤ 100000)
    (h1 : n.s.now ≤ t2) (h2 : t2 < n.s.now + 50) (h64 : n.s.now + n.bamGap < M64) :
    pendingTP (atTime (pendingTP n i) t2) i = atTime (pendingTP n i) t2 := by
  obtain ⟨hnow, hfl, hor⟩ := pendingTP_bam_timer n i hb hp ht
  generalize pendingTP n i = n1 at *
  unfold pendingTP
  rcases hor with h0 | htm
  · simp [atTime, h0]
  · have : (n1.tp i).timer.isTime n1.s.flavor t2 = false := by
      rw [htm, hfl]; exact isTime_fromNow_early _ _ _ _ h1 (by omega) hg.2 h64
    simp [atTime, this]

example : 50 ≤ exNode.bamGap ∧ exNode.bamGap ≤ 100000 := by decide

/-- exact bound per flavour: with the 64-bit scheduler (`now > NextTime`, strict) the next data packet is due from
`t1 + 51` on; with the 32-bit scheduler (`now - NextTime < 2^31`) from `t1 + 50` on, unless `t1 + 50 ≡ 2^32 - 1`
(the value that means "disabled" is moved to 0), then from `t1 + 51` on. -/
theorem C10_bam_pacing_exact (t1 t2 : Nat) (h64 : t1 + 50 < M64) :
    ((Sched.fromNow .t64 t1 50).isTime .t64 t2 = decide (t1 + 50 < t2)) ∧
    ((t1 + 50) % M32 ≠ M32 - 1 → (Sched.fromNow .t32 t1 50).isTime .t32 (t1 + 50) = true) ∧
    (∀ f, t1 + 51 ≤ t2 → t2 < t1 + 50 + INT32_MAX → (Sched.fromNow f t1 50).isTime f t2 = true) ∧
    (∀ f, t1 ≤ t2 → t2 < t1 + 50 → (Sched.fromNow f t1 50).isTime f t2 = false) :=
  ⟨isTime_fromNow_t64 t1 t2 50 h64, isTime_fromNow_t32_at t1 50,
   fun f a b => isTime_fromNow_late f t1 t2 50 a b h64, fun f a b => isTime_fromNow_early f t1 t2 50 a b (by omega) h64⟩

/-- the first data packet of a BAM transfer is not sent before 50 ms after the announce -/
theorem C10_bam_first_packet (n : Node) (m : Msg) (i t2 : Nat)
    (hok : (startSendTP n m i).2 = true) (h1 : n.s.now ≤ t2) (h2 : t2 < n.s.now + 50) (h64 : n.s.now + 50 < M64) :
    pendingTP (atTime (startSendTP n m i).1 t2) i = atTime (startSendTP n m i).1 t2 := by
  obtain ⟨htm, _, hfl⟩ := startSendTP_timer n m i hok
  generalize (startSendTP n m i).1 = n1 at *
  unfold pendingTP
  have : (n1.tp i).timer.isTime n1.s.flavor t2 = false := by
    rw [htm, hfl]; exact isTime_fromNow_early _ _ _ _ h1 h2 (by omega) h64
  simp [atTime, this]

example : (exNode.tp 0).pend.pgn = 0 ∧ (startSendTP exNode { exMsg with dst := 255 } 0).2 = true := by decide

/-! ## the receiving side -/

/-- **Receiver.** On a quiet node whose device `i` owns address `dst`:
1. an RTS `[16, size, packets, _, PGN]` from `src` for a message the node can hold (`size ≤ 223`, PGN known or the
   known-message filter off) with some receive slot free is answered by exactly one frame, CTS `[17, min(max(packets,1),5), 1,
   FF, FF, PGN]` to `src`; nothing is delivered; a slot `j` now holds the session (found by source/destination);
   an RTS for more than 223 bytes is answered by Abort and takes no slot;
2. the data packet with the expected number that completes the announced size is answered by exactly one frame,
   EndOfMsgACK `[19, size, packet number, FF, PGN]`, and the handler is called exactly once, with the PGN of the RTS, source,
   destination, the announced length and the collected bytes cut at that length; the slot is free again;
3. a data packet with any other number than `LastFrame+1` is answered by Abort, the slot is freed and nothing is delivered. -/
theorem C10_receiver (n : Node) (src dst i : Nat) (d : Dev) (hq : Quiet n.s i) (hd : n.s.devs[i]? = some d)
    (hsrc : src < 256) (hdst : dst < 256) (hi : findDev n.s.devs dst = some i) :
    -- 1. RTS
    (∀ size npk mx pgn, pgn < 2^24 → size < 65536 → npk < 256 → (∃ a ∈ n.slots, a.free = true) →
      ((checkKnown pgn).1 = true ∨ ¬ n.onlyKnown = true) →
      (size ≤ 223 →
        ∃ j a0, rxFrame n (cmIn src dst ([16, size % 256, size / 256, npk, mx] ++ pgnBytes pgn)) =
          ({ n with slots := (n.slots.map (freeSess src dst)).set j (rtsSlot a0 pgn src dst (millis32 n.s.now) size npk) }).pushes
            [cmFrame d.source src (ctsBytes pgn npk 1)] ∧
          findIdx (sessOf src dst) ((n.slots.map (freeSess src dst)).set j (rtsSlot a0 pgn src dst (millis32 n.s.now) size npk)) = some j) ∧
      (size > 223 →
        rxFrame n (cmIn src dst ([16, size % 256, size / 256, npk, mx] ++ pgnBytes pgn)) =
          ({ n with slots := n.slots.map (freeSess src dst) }).pushes [cmFrame d.source src (abortBytes pgn 1)])) ∧
    -- 2. / 3. data packets of an RTS/CTS session in slot j
    (∀ j a buf, findIdx (sessOf src dst) n.slots = some j → n.slots[j]? = some a → a.reqCTS > 0 → buf.length = 8 →
      (a.lastFrame + 1 = buf.getD 0 0 → (copyBuf a.data 1 8 buf).length ≥ a.dataLen →
        rxFrame n (dtIn src dst buf) =
          { (n.pushes [cmFrame d.source src (endAckBytes a.pgn a.dataLen (buf.getD 0 0))]) with
              slots := n.slots.set j (freeMessage (dtSlot a buf (millis32 n.s.now))),
              out := n.out ++ [{ pgn := a.pgn, src := a.src, dst := a.dst, prio := a.prio, len := a.dataLen, tp := a.tp,
                                 data := (copyBuf a.data 1 8 buf).take a.dataLen }] }) ∧
      (a.lastFrame + 1 ≠ buf.getD 0 0 →
        rxFrame n (dtIn src dst buf) =
          { (n.pushes [cmFrame d.source src (abortBytes a.pgn 3)]) with slots := n.slots.set j (freeMessage a) })) := by
  refine ⟨?_, ?_⟩
  · intro size npk mx pgn hp hsz hnpk hfree hknown
    have hb : ([16, size % 256, size / 256, npk, mx] ++ pgnBytes pgn).length = 8 := by simp [pgnBytes]
    rw [rxFrame_cm n src dst _ hsrc hdst hb]
    unfold handleCM
    have hpg : pgn % 256 + pgn / 256 % 256 * 256 + pgn / 65536 % 256 * 65536 = pgn := by omega
    have hsize : size % 256 + size / 256 * 256 = size := by omega
    simp only [hi, pgnBytes, List.cons_append, List.nil_append, List.getD_cons_zero, List.getD_cons_succ, hpg, hsize]
    simp only [Nat.reduceEqDiff, or_true, ↓reduceIte, BEq.rfl]
    obtain ⟨j, a0, hj, ha0⟩ := start_slot_exists n.slots pgn src dst hfree
    refine ⟨?_, ?_⟩
    · intro h223
      refine ⟨j, a0, handleStart_rts_quiet n src dst i pgn size npk j d a0 hq hd hsrc h223 hknown hj ha0, ?_⟩
      apply findIdx_set_of_none
      · apply findIdx_none_of_all
        intro b hb'
        obtain ⟨c, _, hc⟩ := List.mem_map.1 hb'
        rw [← hc]; exact sessOf_freeSess src dst c
      · have := findIdx_lt _ _ _ hj; exact this
      · simp [sessOf, rtsSlot, startSlot]
    · intro h223
      exact handleStart_oversize_quiet n src dst i pgn size npk j d hq hd hsrc h223 hj
  · intro j a buf hj ha hreq hb
    have hjl : j < n.slots.length := findIdx_lt _ _ _ hj
    have htp : a.tp = true := by
      obtain ⟨a', ha', hs⟩ := findIdx_get _ _ _ hj
      rw [ha] at ha'; cases ha'
      simp only [sessOf, Bool.and_eq_true] at hs; exact hs.1.1.2
    refine ⟨?_, ?_⟩
    · intro hseq hdone
      rw [rxFrame_dt n src dst buf hsrc hdst hb, handleData_last_quiet n src dst i j d a buf hq hd hsrc hi hj ha hseq hdone]
      simp only [hreq, ↓reduceIte, finish]
      unfold deliver
      simp only [Node.pushes_slots, Node.setSlot, List.getElem?_set_self hjl]
      rw [systemMessage_tp _ _ (show (dtSlot a buf (millis32 n.s.now)).tp = true from htp)]
      simp [Node.pushes, dtSlot, deliveryOf]
    · intro hseq
      rw [rxFrame_dt n src dst buf hsrc hdst hb, handleData_fault_quiet n src dst i j 8 d a buf hq hd hsrc hi hj ha hseq]
      simp only [hreq, ↓reduceIte, finish]
      rfl

/-- the hypotheses of `C10_receiver` are satisfiable (the example node, a peer at address 30) -/
example : Quiet exNode.s 0 ∧ exNode.s.devs[0]? = some exDev ∧ findDev exNode.s.devs 20 = some 0 ∧ (∃ a ∈ exNode.slots, a.free = true) :=
  ⟨exQuiet, rfl, by decide, ⟨{}, by simp [exNode], rfl⟩⟩

/-- **Receiver, BAM.** A BAM `[32, size, packets, _, PGN]` (destination 255) for a message the node can hold, with a receive
slot free, is answered by nothing; its data packets never produce a frame; the packet with the expected number that
completes the announced size calls the handler exactly once (PGN of the BAM, source, destination 255, announced length,
collected bytes cut at that length) and frees the slot; a packet with another number frees the slot and nothing is
delivered. No hypothesis on the node's ability to transmit is needed. -/
theorem C10_receiver_bam (n : Node) (src : Nat) (hsrc : src < 256) :
    (∀ size npk mx pgn, pgn < 2^24 → size ≤ 223 → (∃ a ∈ n.slots, a.free = true) →
      ((checkKnown pgn).1 = true ∨ ¬ n.onlyKnown = true) →
      ∃ j a0, rxFrame n (cmIn src 255 ([32, size % 256, size / 256, npk, mx] ++ pgnBytes pgn)) =
          { n with slots := (n.slots.map (freeSess src 255)).set j (bamSlot a0 pgn src 255 (millis32 n.s.now) size npk) } ∧
        (n.slots.map (freeSess src 255))[j]? = some a0 ∧
        findIdx (sessOf src 255) ((n.slots.map (freeSess src 255)).set j (bamSlot a0 pgn src 255 (millis32 n.s.now) size npk)) = some j) ∧
    (∀ j a buf, findIdx (sessOf src 255) n.slots = some j → n.slots[j]? = some a → a.reqCTS = 0 → buf.length = 8 →
      (a.lastFrame + 1 = buf.getD 0 0 → (copyBuf a.data 1 8 buf).length ≥ a.dataLen →
        rxFrame n (dtIn src 255 buf) =
          { n with slots := n.slots.set j (freeMessage { a with data := copyBuf a.data 1 8 buf, lastFrame := buf.getD 0 0,
                                                                 msgTime := millis32 n.s.now }),
                   out := n.out ++ [{ pgn := a.pgn, src := a.src, dst := a.dst, prio := a.prio, len := a.dataLen, tp := a.tp,
                                      data := (copyBuf a.data 1 8 buf).take a.dataLen }] }) ∧
      (a.lastFrame + 1 = buf.getD 0 0 → (copyBuf a.data 1 8 buf).length < a.dataLen →
        rxFrame n (dtIn src 255 buf) =
          { n with slots := n.slots.set j { a with data := copyBuf a.data 1 8 buf, lastFrame := buf.getD 0 0,
                                                   msgTime := millis32 n.s.now } }) ∧
      (a.lastFrame + 1 ≠ buf.getD 0 0 →
        rxFrame n (dtIn src 255 buf) = { n with slots := n.slots.set j (freeMessage a) })) := by
  refine ⟨?_, ?_⟩
  · intro size npk mx pgn hp hsz hfree hknown
    have hb : ([32, size % 256, size / 256, npk, mx] ++ pgnBytes pgn).length = 8 := by simp [pgnBytes]
    rw [rxFrame_cm n src 255 _ hsrc (by omega) hb]
    unfold handleCM
    have hpg : pgn % 256 + pgn / 256 % 256 * 256 + pgn / 65536 % 256 * 65536 = pgn := by omega
    have hsize : size % 256 + size / 256 * 256 = size := by omega
    simp only [pgnBytes, List.cons_append, List.nil_append, List.getD_cons_zero, List.getD_cons_succ, hpg, hsize]
    simp only [Nat.reduceEqDiff, true_or, ↓reduceIte]
    obtain ⟨j, a0, hj, ha0⟩ := start_slot_exists n.slots pgn src 255 hfree
    refine ⟨j, a0, handleStart_listen n src 255 pgn size npk j _ _ a0 (by simp) hsz hknown hj ha0, ha0, ?_⟩
    apply findIdx_set_of_none
    · apply findIdx_none_of_all
      intro b hb'
      obtain ⟨c, _, hc⟩ := List.mem_map.1 hb'
      rw [← hc]; exact sessOf_freeSess src 255 c
    · exact findIdx_lt _ _ _ hj
    · simp [sessOf, bamSlot, startSlot]
  · intro j a buf hj ha hreq hb
    have hjl : j < n.slots.length := findIdx_lt _ _ _ hj
    have htp : a.tp = true := by
      obtain ⟨a', ha', hs⟩ := findIdx_get _ _ _ hj
      rw [ha] at ha'; cases ha'
      simp only [sessOf, Bool.and_eq_true] at hs; exact hs.1.1.2
    have hrx := rxFrame_dt n src 255 buf hsrc (by omega) hb
    rw [handleData_silent n src 255 j 8 a buf hj ha hreq] at hrx
    refine ⟨?_, ?_, ?_⟩
    · intro hseq hdone
      rw [hrx, if_pos hseq, if_pos hdone]
      simp only [finish]
      unfold deliver
      simp only [Node.setSlot, List.getElem?_set_self hjl]
      rw [systemMessage_tp _ _ (show ({ a with data := copyBuf a.data 1 8 buf, lastFrame := buf.getD 0 0,
                                               msgTime := millis32 n.s.now } : Slot).tp = true from htp)]
      simp [deliveryOf]
    · intro hseq hmore
      rw [hrx, if_pos hseq, if_neg (by omega)]
      rfl
    · intro hseq
      rw [hrx, if_neg hseq]
      rfl

example : (∃ a ∈ exNode.slots, a.free = true) ∧ ((checkKnown 126996).1 = true ∨ ¬ exNode.onlyKnown = true) :=
  ⟨⟨{}, by simp [exNode], rfl⟩, Or.inl (by decide)⟩

/-- **An open transfer keeps the device polled.** `SendPendingInformation` looks at a device only while its
`HasPendingInformation` flag is set, and the flag is recomputed from the pending timers whenever another pending item of the
device is cleared. While a transfer is open (`NextDTSendTime` enabled) the flag stays set whatever happens to the other items:
after `SendProductInformation` / `SendConfigurationInformation` - sent (its pending timer is cleared and the flag recomputed)
or refused by the driver (retry armed) - and after the bare `UpdateHasPendingInformation()`; the transfer's timer and message are
untouched. So an ISO request answered in the middle of a BAM, or a retried answer, cannot stop the pacing or the timeout
(`C10_bam_pacing`, `C10_timeouts`). -/
theorem C10_open_transfer_stays_polled (n : Node) (i : Nat) (c : Msg) (h : (n.tp i).timer.isEnabled n.s.flavor = true) :
    ((updateHasPending n i).tp i).hasPending = true ∧
    ((sendProductInformation n i).tp i).hasPending = true ∧ ((sendProductInformation n i).tp i).timer = (n.tp i).timer ∧
      ((sendProductInformation n i).tp i).pend = (n.tp i).pend ∧ ((sendProductInformation n i).tp i).nextSeq = (n.tp i).nextSeq ∧
    ((sendConfigurationInformation n i c).tp i).hasPending = true ∧ ((sendConfigurationInformation n i c).tp i).timer = (n.tp i).timer ∧
      ((sendConfigurationInformation n i c).tp i).pend = (n.tp i).pend ∧
      ((sendConfigurationInformation n i c).tp i).nextSeq = (n.tp i).nextSeq := by
  have key : ∀ (m : Msg) (x : InfoDev) (y : InfoDev),
      let r := emit n m i
      let z := if r.2 then updateHasPending (r.1.setInfo i x) i else (r.1.setInfo i y).setTp i { r.1.tp i with hasPending := true }
      (z.tp i).hasPending = true ∧ (z.tp i).timer = (n.tp i).timer ∧ (z.tp i).pend = (n.tp i).pend ∧ (z.tp i).nextSeq = (n.tp i).nextSeq := by
    intro m x y
    have ht : (emit n m i).1.tp = n.tp := emit_tp n m i
    have hf : (emit n m i).1.s.flavor = n.s.flavor := (emit_clock n m i).2
    simp only []
    by_cases hr : (emit n m i).2 = true
    · rw [if_pos hr]
      simp [updateHasPending, Node.setTp, Node.setInfo, ht, hf, h]
    · rw [if_neg hr]
      simp [Node.setTp, Node.setInfo, ht]
  have hp : ((sendProductInformation n i).tp i).hasPending = true ∧ ((sendProductInformation n i).tp i).timer = (n.tp i).timer ∧
      ((sendProductInformation n i).tp i).pend = (n.tp i).pend ∧ ((sendProductInformation n i).tp i).nextSeq = (n.tp i).nextSeq :=
    key _ _ _
  have hc : ((sendConfigurationInformation n i c).tp i).hasPending = true ∧
      ((sendConfigurationInformation n i c).tp i).timer = (n.tp i).timer ∧
      ((sendConfigurationInformation n i c).tp i).pend = (n.tp i).pend ∧
      ((sendConfigurationInformation n i c).tp i).nextSeq = (n.tp i).nextSeq := key _ _ _
  exact ⟨by simp [updateHasPending, Node.setTp, h], hp.1, hp.2.1, hp.2.2.1, hp.2.2.2, hc.1, hc.2.1, hc.2.2.1, hc.2.2.2⟩

example : (((startSendTP exNode exMsg 0).1.tp 0).timer.isEnabled (startSendTP exNode exMsg 0).1.s.flavor) = true := by decide

/-! ## safety of the receiver over every history -/

/-- **Receiver safety for EVERY history** (also used by C07). Start from any node state that satisfies the receiver invariant
`NodeInv n₀ evs₀` - in particular any freshly opened node (`NodeInv.init`: all slots free, nothing delivered yet, empty
history), and every state reachable from one, since the invariant is preserved by every step. Let ANY list of steps happen:
frames handled one by one or queued and read by `ParseMessages` (TP.CM / TP.DT / anything else, any identifier - so any source
and destination, ours or not -, any DLC and bytes: announced sizes 0..65535, packet counts and sequence numbers 0..255), polls,
the clock set to any value, application sends, address changes, in any order and number. Then the invariant still holds, and
every call of the application handler that a transport-protocol transfer caused (`d.tp`) satisfies, with `evs` the transport
events (`tpEvent`) of the frames handled so far in order:
* `d.len ≤ 223` and `d.data` has exactly `d.len` bytes;
* there is a prefix `h` of the history at whose end the reference bookkeeping `Spec.tpTrack` of the pair
  `d.src → d.dst` has an open transfer `x` - i.e. since the pair's last announce its data packets arrived with the numbers
  1, 2, … in order and no other data packet of the pair in between - with the PGN and size of that announce equal to `d.pgn`
  and `d.len`, whose packets carry at least `d.len` bytes, and `d.data` is exactly the first `d.len` bytes of those packets'
  payloads: no over-long delivery, no bytes of another session or source, no delivery without a complete in-order sequence. -/
theorem C10_receiver_safe_all_histories (n₀ : Node) (evs₀ : List TpEv) (h₀ : NodeInv n₀ evs₀) (steps : List RxStep) :
    NodeInv (steps.foldl rxStep (n₀, evs₀)).1 (steps.foldl rxStep (n₀, evs₀)).2 ∧
    ∀ d ∈ (steps.foldl rxStep (n₀, evs₀)).1.out, d.tp = true →
      d.len ≤ 223 ∧ d.data.length = d.len ∧
      ∃ h x, h <+: (steps.foldl rxStep (n₀, evs₀)).2 ∧ tpTrack d.src d.dst h = some x ∧ x.pgn = d.pgn ∧ x.size = d.len ∧
        d.len ≤ x.pk.flatten.length ∧ d.data = x.pk.flatten.take d.len := by
  have h := rxRun_inv steps (n₀, evs₀) h₀
  exact ⟨h, fun d hd ht => h.good d hd ht⟩

/-- the start state: a node whose receive slots are all free and that has delivered nothing -/
theorem C10_receiver_inv_init (n : Node) (hs : ∀ a ∈ n.slots, a.free = true) (ho : n.out = []) : NodeInv n [] :=
  NodeInv.init n hs ho

/-- non-vacuity: on the example node two 9-byte transfers from the sources 40 and 41 interleave and complete (41 first), a third
one from source 42 is aborted by an out-of-sequence packet, a BAM from 43 is announced too large; exactly the two good
payloads reach the handler, each once -/
def exHistory : List RxStep :=
  [ .frame (cmIn 40 20 [16, 9, 0, 2, 0xff, 0x14, 0xf0, 0x01]), .frame (cmIn 41 20 [16, 9, 0, 2, 0xff, 0x16, 0xf0, 0x01]),
    .frame (dtIn 40 20 [1, 1, 2, 3, 4, 5, 6, 7]), .frame (dtIn 41 20 [1, 11, 12, 13, 14, 15, 16, 17]),
    .frame (cmIn 42 20 [16, 20, 0, 3, 0xff, 0x14, 0xf0, 0x01]), .time 1040,
    .frame (dtIn 41 20 [2, 18, 19, 0xff, 0xff, 0xff, 0xff, 0xff]), .frame (dtIn 42 20 [2, 0, 0, 0, 0, 0, 0, 0]),
    .frame (cmIn 43 255 [32, 0x2c, 1, 43, 0xff, 0x14, 0xf0, 0x01]), .frame (dtIn 43 255 [1, 9, 9, 9, 9, 9, 9, 9]),
    .frame (dtIn 42 20 [1, 0, 0, 0, 0, 0, 0, 0]), .frame (dtIn 40 20 [2, 8, 9, 0xff, 0xff, 0xff, 0xff, 0xff]) ]

example : (∀ a ∈ exNode.slots, a.free = true) ∧ exNode.out = [] ∧
    ((exHistory.foldl rxStep (exNode, [])).1.out.map fun d => (d.tp, d.pgn, d.src, d.dst, d.len, d.data)) =
      [(true, 126998, 41, 20, 9, [11, 12, 13, 14, 15, 16, 17, 18, 19]), (true, 126996, 40, 20, 9, [1, 2, 3, 4, 5, 6, 7, 8, 9])] := by
  refine ⟨?_, rfl, by rfl⟩
  intro a ha
  simp [exNode] at ha
  rw [ha]

/-! ## timeouts -/

/-- **Timeouts (sending side).** A transfer to a destination that `StartSendTPMessage` accepted at time `t0` and that gets
no CTS: a poll (`SendPendingTPMessage`) at a time `t` with `t0 ≤ t < t0 + 50` leaves it alone, a poll at any
`t ≥ t0 + 51` (64-bit scheduler: exactly from `t0 + 51`; 32-bit: from `t0 + 50`, see `C10_bam_pacing_exact`) ends it, and
after that `StartSendTPMessage` no longer answers "busy": on a quiet node the next transfer is announced.
After a CTS (hold or grant) the same holds with 100 ms (`handleCTS` arms `FromNow(100)`, `C10_sender_obeys_cts`). -/
theorem C10_timeouts (n : Node) (m : Msg) (i t : Nat) (hm : m.dst ≠ 255) (hpgn : m.pgn ≠ 0)
    (hok : (startSendTP n m i).2 = true) (h64 : n.s.now + 51 < M64) :
    (n.s.now ≤ t → t < n.s.now + 50 → pendingTP (atTime (startSendTP n m i).1 t) i = atTime (startSendTP n m i).1 t) ∧
    (n.s.now + 51 ≤ t → t < n.s.now + 50 + INT32_MAX →
      pendingTP (atTime (startSendTP n m i).1 t) i = endSendTP (atTime (startSendTP n m i).1 t) i ∧
      ((pendingTP (atTime (startSendTP n m i).1 t) i).tp i).pend.pgn = 0 ∧
      ∀ m2 d, m2.dst < 255 → Quiet (atTime (startSendTP n m i).1 t).s i → (atTime (startSendTP n m i).1 t).s.devs[i]? = some d →
        (startSendTP (pendingTP (atTime (startSendTP n m i).1 t) i) m2 i).2 = true) := by
  obtain ⟨htm, hpend, hfl⟩ := startSendTP_timer n m i hok
  refine ⟨fun h1 h2 => C10_bam_first_packet n m i t hok h1 h2 (by omega), ?_⟩
  intro h1 h2
  generalize (startSendTP n m i).1 = n1 at *
  have hdue : (n1.tp i).timer.isTime n1.s.flavor t = true := by
    rw [htm, hfl]; exact isTime_fromNow_late _ _ _ _ h1 h2 (by omega)
  have hstep : pendingTP (atTime n1 t) i = endSendTP (atTime n1 t) i := by
    unfold pendingTP
    simp only [atTime, hpend, hdue, hpgn, ne_eq, not_false_eq_true, and_self, ↓reduceIte, hm]
  refine ⟨hstep, ?_, ?_⟩
  · rw [hstep]; simp [endSendTP]
  · intro m2 d hm2 hq hd
    rw [hstep]
    unfold startSendTP
    have hil : ¬ (i ≥ (endSendTP (atTime n1 t) i).s.devs.length) := by
      intro hge
      have : (atTime n1 t).s.devs[i]? = none := List.getElem?_eq_none (by simpa [endSendTP] using hge)
      rw [this] at hd; cases hd
    have hfree : ¬ (((endSendTP (atTime n1 t) i).tp i).pend.pgn ≠ 0) := by simp [endSendTP]
    rw [if_neg hil, if_neg hfree]
    have hne : ¬ (m2.dst = 0xff) := by omega
    simp only [hne, ↓reduceIte]
    unfold sendRTS
    have hq' : Quiet ((endSendTP (atTime n1 t) i).setTp i
        { pend := m2, nextSeq := 0, timer := Sched.fromNow (endSendTP (atTime n1 t) i).s.flavor (endSendTP (atTime n1 t) i).s.now 50, hasPending := true }).s i := hq
    have hact : (endSendTP (atTime n1 t) i).s.claimMode = true := hq.active
    rw [announce_quiet 16 _ i d hq' hd _ (by simp; omega)]
    simp [hact]

example : (startSendTP exNode exMsg 0).2 = true ∧ exMsg.dst ≠ 255 ∧ exMsg.pgn ≠ 0 := by decide

/-- **Timeouts (receiving side).** When the slot search finds neither a free slot nor the slot of this very message
(`scanFree` returns no index, the oldest occupied slot `oi` and its time `ot`), the oldest slot is recycled for the new
announce as soon as it is 100 ms old (`Max_N2kMsgBuf_Time`), otherwise no slot is available (the RTS is then answered by
Abort "busy"). A transfer of the same source/destination pair never blocks the pair's next announce, because the
announce itself drops it (`freeSess`; part 1 of `C10_receiver`). -/
theorem C10_timeouts_rx (slots : List Slot) (now32 pgn src dst oi ot : Nat)
    (hscan : scanFree (slotHit pgn src dst true) slots 0 none now32 = (none, some oi, ot)) :
    findFree slots now32 pgn src dst true =
      if hasElapsed ot 100 now32 then (modifyAt slots oi freeMessage, some oi) else (slots, none) := by
  unfold findFree
  rw [hscan]

/-- the hypothesis of `C10_timeouts_rx` for a single occupied slot that holds another message -/
theorem C10_timeouts_rx_single (a : Slot) (now32 pgn src dst : Nat) (hbusy : slotHit pgn src dst true a = false)
    (hpast : isTimeBefore a.msgTime now32 = true) :
    scanFree (slotHit pgn src dst true) [a] 0 none now32 = (none, some 0, a.msgTime) := by
  simp [scanFree, hbusy, hpast]

example : slotHit 126996 30 20 true { free := false, tp := true, pgn := 126998, src := 31, dst := 20, msgTime := 5 } = false ∧
    isTimeBefore 5 200 = true ∧ hasElapsed 5 100 200 = true := by decide

/-- **A live reception is never recycled.** Every in-sequence data packet stamps the slot with the current time
(`dtSlot … msgTime := now`, see `C10_receiver` / `C10_receiver_bam`; also between CTS windows and for BAM). When another message
needs a slot and none is free or its own, the slot that `FindFreeCANMsgIndex` hands out is at least 100 ms old; so a transfer
whose packets arrive less than 100 ms apart (slot time `t`, search at `t + d`, `d < 100`) is never the one that is recycled -
whatever the other slots hold - while a slot idle for 100 ms is the one taken (`C10_timeouts_rx`). -/
theorem C10_live_session_not_recycled (slots : List Slot) (t d pgn src dst : Nat) (tp : Bool) (i : Nat) (a : Slot)
    (hnone : findIdx (slotHit pgn src dst tp) slots = none) (ha : slots[i]? = some a) (hlive : a.msgTime = millis32 t)
    (hd : d < 100) : (findFree slots (millis32 (t + d)) pgn src dst tp).2 ≠ some i := by
  intro h
  obtain ⟨b, hb, hold⟩ := findFree_recycled_old slots _ pgn src dst tp i hnone h
  rw [ha] at hb; cases hb
  rw [hlive, fresh_not_elapsed t d hd] at hold
  cases hold

example : findIdx (slotHit 129540 90 255 false) [{ free := false, tp := true, pgn := 126996, src := 100, dst := 20, msgTime := 5 }] = none := by
  decide

/-! ## library sender and library receiver over a loss-free in-order channel -/

/-- **End to end (RTS/CTS), partial.** Node A hands a transport-flagged message of 9..223 bytes for the address of node B to
`SendMsg` on ANY of its devices, index `ia` (device `da`); ANY device `ib` of B (`db`) owns that address. `Lead n i d`: device
`i` of `n` is `d`, no device before it has the same address (so `FindSourceDeviceIndex` finds it), the node's other devices
have nothing pending, and no device is in an address claim. Both nodes are quiet for the acting device, A has no transfer
pending, B has a free receive slot and may hold the message (PGN known or filter off), no information retry is waiting
(`InfoIdle`). The channel `wire` carries every frame, in order, into the other node's receive queue. A schedule is a list of
delays `(dB, dA)`: in each `round` B polls (`ParseMessages`) `dB` ms after its previous poll, then A polls `dA` ms after its
previous poll - any `dB`, any `dA < 100` (first one `< 50`: the sender's timeouts), the two clocks need not agree. Then
`SendMsg` succeeds and after at most 33 rounds of ANY such schedule B's handler has been called exactly once - with the PGN,
A's address as source, B's address as destination, the length and exactly the payload bytes - A's transfer is over (nothing
pending, `StartSendTPMessage` is free again) and no frame is left in flight. Polls in between with nothing to receive change
nothing (`poll_idle`).

Restriction (hence `_partial`): A and B poll strictly alternately. `C10_end_to_end_any_order` below lifts it - arbitrary poll
order, the sender's arming time carried separately from its clock; this alternating form is kept because it states the bound in
rounds and is the shape of the BAM composition `C10_end_to_end_bam_partial`. -/
theorem C10_end_to_end_partial (a b : Node) (ia ib : Nat) (da db : Dev) (m : Msg) (ds : List (Nat × Nat))
    (hda : Lead a ia da) (hdb : Lead b ib db) (hqa : Quiet a.s ia) (hqb : Quiet b.s ib)
    (haIdle : (a.tp ia).pend.pgn = 0) (haSent : a.s.drv.sent = []) (haRx : a.rxq = [])
    (hbIdle : (b.tp ib).hasPending = false) (hbSent : b.s.drv.sent = []) (hbRx : b.rxq = []) (hbOut : b.out = [])
    (haInfo : InfoIdle a ia) (hbInfo : InfoIdle b ib)
    (hbFree : ∃ sl ∈ b.slots, sl.free = true) (hknown : (checkKnown m.pgn).1 = true ∨ ¬ b.onlyKnown = true)
    (htp : m.tp = true) (h9 : 9 ≤ m.len) (h223 : m.len ≤ 223) (hdata : m.len ≤ m.data.length)
    (hdst : m.dst = db.source) (hlow : m.pgn &&& 0xff = 0) (hp0 : m.pgn ≠ 0) (hp24 : m.pgn < 2^24)
    (hid : n2kToCanId m.prio m.pgn da.source m.dst ≠ 0)
    (hlen : 33 ≤ ds.length) (hfirst : ∀ p, ds.head? = some p → p.2 < 50) (hall : ∀ p ∈ ds, p.2 < 100)
    (h64 : a.s.now + totalA ds + 100 < M64) :
    (sendMsgTP a m (some ia)).2 = true ∧
    ∃ r, r ≤ 33 ∧
      (rounds (ds.take r) ((sendMsgTP a m (some ia)).1, b)).2.out =
        [{ pgn := m.pgn, src := da.source, dst := db.source, prio := 7, len := m.len, tp := true, data := m.data.take m.len }] ∧
      ((rounds (ds.take r) ((sendMsgTP a m (some ia)).1, b)).1.tp ia).pend.pgn = 0 ∧
      ((rounds (ds.take r) ((sendMsgTP a m (some ia)).1, b)).1.tp ia).hasPending = false ∧
      (rounds (ds.take r) ((sendMsgTP a m (some ia)).1, b)).1.s.drv.sent = [] ∧
      (rounds (ds.take r) ((sendMsgTP a m (some ia)).1, b)).2.s.drv.sent = [] ∧
      (rounds (ds.take r) ((sendMsgTP a m (some ia)).1, b)).1.rxq = [] ∧
      (rounds (ds.take r) ((sendMsgTP a m (some ia)).1, b)).2.rxq = [] := by
  have hdb251 : db.source ≤ 251 := hdb.src hqb
  have hstart := sendMsgTP_start a m da hqa hda.dev0 hlow hp0 hid htp h9 (by omega) haIdle
  rw [haSent, haRx, List.nil_append] at hstart
  rw [hstart]
  refine ⟨rfl, ?_⟩
  obtain ⟨j, a0, hj, ha0⟩ := start_slot_exists b.slots m.pgn da.source db.source hbFree
  have hL : LinkHyp a b ia ib da db (pendMsg m da) j (b.slots.map (freeSess da.source db.source)) a0 :=
    ⟨hda, hdb, hqa, hqb, hbIdle, haInfo, hbInfo, hdst, h9, h223, hdata, hp24, hp0, hknown, rfl, hj, ha0⟩
  have hb : b = b.upd b.tp b.slots [] [] [] := by
    have := (upd_self b).symm
    rw [hbOut, hbSent, hbRx] at this; exact this
  have hnp : 2 ≤ tpPacketCount m.len := by unfold tpPacketCount; omega
  have hnp32 := tpPacketCount_le m.len h223
  have hcpos := tpCtsPackets_pos (tpPacketCount m.len)
  obtain ⟨p, ds', hds⟩ : ∃ p ds', ds = p :: ds' := by
    cases ds with
    | nil => simp at hlen
    | cons p t => exact ⟨p, t, rfl⟩
  subst hds
  have hp50 : p.2 < 50 := hfirst p rfl
  have htot : totalA (p :: ds') = p.2 + totalA ds' := by simp [totalA]
  obtain ⟨r, S'', tA', tB', hr, hR⟩ := rounds_complete hL 32 0 (a.s.now + p.2) (b.s.now + p.1) (millis32 (b.s.now + p.1)) ds'
    (Nat.zero_mod _) (by show 0 < tpPacketCount m.len; omega) (by
      show tpPacketCount m.len - 0 ≤ 32 * tpCtsPackets (tpPacketCount m.len)
      have : 32 * 1 ≤ 32 * tpCtsPackets (tpPacketCount m.len) := Nat.mul_le_mul_left 32 hcpos
      omega) (by simp at hlen; omega) (fun q hq => hall q (by simp [hq])) (by omega)
  refine ⟨r + 1, by omega, ?_⟩
  have hfirst' := round_first hL a.s.now b.s.now p.1 p.2 hp50 (by omega)
  rw [show (pendMsg m da).dst = m.dst from rfl] at hfirst'
  have hpair : (a.upd (txTp ia a (pendMsg m da) 0 a.s.now 50) a.slots a.out [cmFrame da.source m.dst (announceBytes 16 (pendMsg m da))] [], b)
      = ((atTime a a.s.now).upd (txTp ia a (pendMsg m da) 0 a.s.now 50) a.slots a.out [cmFrame da.source m.dst (announceBytes 16 (pendMsg m da))] [],
         (atTime b b.s.now).upd b.tp b.slots [] [] []) := congrArg (Prod.mk _) hb
  have hR' : rounds ((p :: ds').take (r + 1))
        (a.upd (txTp ia a (pendMsg m da) 0 a.s.now 50) a.slots a.out [cmFrame da.source m.dst (announceBytes 16 (pendMsg m da))] [], b)
      = ((atTime a tA').upd (doneTp ia a (pendMsg m da) (tpPacketCount m.len)) a.slots a.out [] [],
         (atTime b tB').upd b.tp S'' [delivered (pendMsg m da) da.source db.source] [] []) := by
    rw [hpair]
    simp only [List.take_succ_cons, rounds]
    rw [hfirst']
    exact hR
  rw [hR']
  refine ⟨rfl, ?_, ?_, rfl, rfl, rfl, rfl⟩
  · simp [doneTp]
  · simp [doneTp]

/-- the hypotheses of `C10_end_to_end_partial` are satisfiable: the example node talks to a copy of itself at address 30 -/
example : ∃ (a b : Node) (ia ib : Nat) (da db : Dev) (m : Msg) (ds : List (Nat × Nat)), 33 ≤ ds.length ∧ (∀ p, ds.head? = some p → p.2 < 50) ∧
    (∀ p ∈ ds, p.2 < 100) ∧ a.s.now + totalA ds + 100 < M64 ∧ Lead a ia da ∧ Lead b ib db ∧ 0 < ia ∧ 0 < ib ∧ Quiet a.s ia ∧ Quiet b.s ib ∧
    (a.tp ia).pend.pgn = 0 ∧ a.s.drv.sent = [] ∧ a.rxq = [] ∧ (b.tp ib).hasPending = false ∧ b.s.drv.sent = [] ∧ b.rxq = [] ∧
    b.out = [] ∧ InfoIdle a ia ∧ InfoIdle b ib ∧ (∃ sl ∈ b.slots, sl.free = true) ∧ ((checkKnown m.pgn).1 = true ∨ ¬ b.onlyKnown = true) ∧
    m.tp = true ∧ 9 ≤ m.len ∧ m.len ≤ 223 ∧ m.len ≤ m.data.length ∧ m.dst = db.source ∧ m.pgn &&& 0xff = 0 ∧ m.pgn ≠ 0 ∧
    m.pgn < 2^24 ∧ n2kToCanId m.prio m.pgn da.source m.dst ≠ 0 := by
  refine ⟨exNodeA, exNodeB, 1, 1, exDevA, exDevB, { exMsg with dst := 31 },
    List.replicate 33 (7, 20), by decide, by decide, by decide, by decide,
    exLeadA, exLeadB, by decide, by decide, exQuietA, exQuietB, by decide, rfl, rfl,
    by decide, rfl, rfl, rfl, ⟨rfl, rfl⟩, ⟨rfl, rfl⟩, ⟨{}, by simp [exNodeB, exNode], rfl⟩, by decide, by decide, by decide, by decide, by decide, by decide, by decide,
    by decide, by decide, by decide⟩

/-- **End to end (RTS/CTS), any poll order.** Same two nodes, same channel, same hypotheses on the nodes as
`C10_end_to_end_partial`, but the schedule is an ARBITRARY list of polls `(who, delay)`, `who ∈ {A, B}`: in each `step` the
frames the other node handed to its driver so far arrive, `delay` ms pass at the polled node, and it polls (`ParseMessages`).
A may be polled any number of times in a row, so may B; the clocks need not agree; B's delays are not restricted at all.
`timely false 0 50 sch` is the phase-dependent timing condition: every poll of A up to and including the one that reads B's
answer happens less than 50 ms (after the RTS) resp. less than 100 ms (after a CTS) after A armed its timeout - A's arming time
is carried separately from its clock, the time of A's idle polls adds up. `effective false sch` counts the polls that find
frames (B's first poll after A sent, A's first poll after B answered) - both nodes get polled again and again exactly when this
number grows. Then `SendMsg` succeeds, and for EVERY such schedule with at least `2·packets + 2` (≤ 66) effective polls there
is a prefix - ending no later than with the `2·packets + 2`-th effective poll - after which B's handler has been called exactly
once with the PGN, A's address as source, B's address as destination, the length and exactly the payload bytes, A's transfer is
over (nothing pending), and no frame is left in flight. The lemmas behind it: an extra poll of a node with nothing due is a
no-op up to its clock (`step_A_idle`, `step_B_idle` from `poll_idle`), and one lemma per effective poll (`step_B_rts`,
`step_A_cts`, `step_B_window`, `step_B_last`, `step_A_ack`); `round_eq_steps`: the alternating rounds are the schedule
`[(B, dB), (A, dA)]`.

Not covered: schedules that are NOT timely (A's timeout comes due: A aborts - the single-node statement is `C10_timeouts`, the
two-node composition of the abort is not formalised), other traffic on the bus during the transfer, a lossy channel. BAM under
any poll order: `C10_end_to_end_bam_any_order`. -/
theorem C10_end_to_end_any_order (a b : Node) (ia ib : Nat) (da db : Dev) (m : Msg) (sch : List (Who × Nat))
    (hda : Lead a ia da) (hdb : Lead b ib db) (hqa : Quiet a.s ia) (hqb : Quiet b.s ib)
    (haIdle : (a.tp ia).pend.pgn = 0) (haSent : a.s.drv.sent = []) (haRx : a.rxq = [])
    (hbIdle : (b.tp ib).hasPending = false) (hbSent : b.s.drv.sent = []) (hbRx : b.rxq = []) (hbOut : b.out = [])
    (haInfo : InfoIdle a ia) (hbInfo : InfoIdle b ib)
    (hbFree : ∃ sl ∈ b.slots, sl.free = true) (hknown : (checkKnown m.pgn).1 = true ∨ ¬ b.onlyKnown = true)
    (htp : m.tp = true) (h9 : 9 ≤ m.len) (h223 : m.len ≤ 223) (hdata : m.len ≤ m.data.length)
    (hdst : m.dst = db.source) (hlow : m.pgn &&& 0xff = 0) (hp0 : m.pgn ≠ 0) (hp24 : m.pgn < 2^24)
    (hid : n2kToCanId m.prio m.pgn da.source m.dst ≠ 0)
    (htimely : timely false 0 50 sch) (heff : 2 * tpPacketCount m.len + 2 ≤ effective false sch)
    (h64 : a.s.now + total sch + 100 < M64) :
    (sendMsgTP a m (some ia)).2 = true ∧ 2 * tpPacketCount m.len + 2 ≤ 66 ∧
    ∃ r, r ≤ sch.length ∧ effective false (sch.take r) ≤ 2 * tpPacketCount m.len + 2 ∧
      (run (sch.take r) ((sendMsgTP a m (some ia)).1, b)).2.out =
        [{ pgn := m.pgn, src := da.source, dst := db.source, prio := 7, len := m.len, tp := true, data := m.data.take m.len }] ∧
      ((run (sch.take r) ((sendMsgTP a m (some ia)).1, b)).1.tp ia).pend.pgn = 0 ∧
      ((run (sch.take r) ((sendMsgTP a m (some ia)).1, b)).1.tp ia).hasPending = false ∧
      (run (sch.take r) ((sendMsgTP a m (some ia)).1, b)).1.s.drv.sent = [] ∧
      (run (sch.take r) ((sendMsgTP a m (some ia)).1, b)).2.s.drv.sent = [] ∧
      (run (sch.take r) ((sendMsgTP a m (some ia)).1, b)).1.rxq = [] ∧
      (run (sch.take r) ((sendMsgTP a m (some ia)).1, b)).2.rxq = [] := by
  have hdb251 : db.source ≤ 251 := hdb.src hqb
  have hstart := sendMsgTP_start a m da hqa hda.dev0 hlow hp0 hid htp h9 (by omega) haIdle
  rw [haSent, haRx, List.nil_append] at hstart
  rw [hstart]
  have hnp32 := tpPacketCount_le m.len h223
  refine ⟨rfl, by omega, ?_⟩
  obtain ⟨j, a0, hj, ha0⟩ := start_slot_exists b.slots m.pgn da.source db.source hbFree
  have hL : LinkHyp a b ia ib da db (pendMsg m da) j (b.slots.map (freeSess da.source db.source)) a0 :=
    ⟨hda, hdb, hqa, hqb, hbIdle, haInfo, hbInfo, hdst, h9, h223, hdata, hp24, hp0, hknown, rfl, hj, ha0⟩
  have hb : b = b.upd b.tp b.slots [] [] [] := by
    have := (upd_self b).symm
    rw [hbOut, hbSent, hbRx] at this; exact this
  obtain ⟨r, S'', tA', tB', hr, he, hR⟩ := run_complete hL sch .rts a.s.now a.s.now b.s.now 0 trivial (Nat.le_refl _)
    (by simp only [Ph.waitA, Ph.tmo, Nat.sub_self]; exact htimely) (by simp only [Ph.waitA, Ph.need]; exact heff) h64
  refine ⟨r, hr, he, ?_⟩
  have hpair : (a.upd (txTp ia a (pendMsg m da) 0 a.s.now 50) a.slots a.out [cmFrame da.source m.dst (announceBytes 16 (pendMsg m da))] [], b)
      = conf a b ia da db (pendMsg m da) j (b.slots.map (freeSess da.source db.source)) a0 .rts a.s.now a.s.now b.s.now 0 :=
    congrArg (Prod.mk _) hb
  rw [hpair, hR]
  refine ⟨rfl, ?_, ?_, rfl, rfl, rfl, rfl⟩
  · simp [doneTp]
  · simp [doneTp]

/-- the hypotheses of `C10_end_to_end_any_order` are satisfiable, with a schedule that is NOT alternating: A is polled twice
before B's first poll, B twice in a row, A three times in a row, ... -/
example : ∃ (a b : Node) (ia ib : Nat) (da db : Dev) (m : Msg) (sch : List (Who × Nat)),
    timely false 0 50 sch ∧ 2 * tpPacketCount m.len + 2 ≤ effective false sch ∧ a.s.now + total sch + 100 < M64 ∧
    sch.take 4 = [(.A, 5), (.A, 9), (.B, 700), (.B, 3)] ∧
    Lead a ia da ∧ Lead b ib db ∧ 0 < ia ∧ 0 < ib ∧ Quiet a.s ia ∧ Quiet b.s ib ∧
    (a.tp ia).pend.pgn = 0 ∧ a.s.drv.sent = [] ∧ a.rxq = [] ∧ (b.tp ib).hasPending = false ∧ b.s.drv.sent = [] ∧ b.rxq = [] ∧
    b.out = [] ∧ InfoIdle a ia ∧ InfoIdle b ib ∧ (∃ sl ∈ b.slots, sl.free = true) ∧ ((checkKnown m.pgn).1 = true ∨ ¬ b.onlyKnown = true) ∧
    m.tp = true ∧ 9 ≤ m.len ∧ m.len ≤ 223 ∧ m.len ≤ m.data.length ∧ m.dst = db.source ∧ m.pgn &&& 0xff = 0 ∧ m.pgn ≠ 0 ∧
    m.pgn < 2^24 ∧ n2kToCanId m.prio m.pgn da.source m.dst ≠ 0 := by
  refine ⟨exNodeA, exNodeB, 1, 1, exDevA, exDevB, { exMsg with dst := 31 },
    [(.A, 5), (.A, 9), (.B, 700), (.B, 3), (.A, 10), (.A, 40), (.A, 40), (.B, 1), (.A, 15), (.B, 0), (.B, 2000), (.A, 60), (.A, 30),
     (.B, 8), (.B, 8), (.A, 1), (.B, 4), (.A, 99), (.A, 50), (.B, 6), (.A, 7), (.B, 5), (.A, 3)],
    by simp [timely], by decide, by decide, rfl,
    exLeadA, exLeadB, by decide, by decide, exQuietA, exQuietB, by decide, rfl, rfl,
    by decide, rfl, rfl, rfl, ⟨rfl, rfl⟩, ⟨rfl, rfl⟩, ⟨{}, by simp [exNodeB, exNode], rfl⟩, by decide, by decide, by decide, by decide, by decide, by decide, by decide,
    by decide, by decide, by decide⟩

/-- **End to end (BAM), partial.** Node A hands a transport-flagged message of 9..223 bytes for the global address to
`SendMsg` on any of its devices (index `ia`); node B listens with any device `ib` leading (further devices idle: `Lead`). Both are quiet, A has nothing pending, B has a free receive slot (free slots
carry no CTS obligation - `FreeMessage` and the constructor reset it) and may hold the message. Schedule as in
`C10_end_to_end_partial`, but A polls more than `bamGap` ms (≥ 50; and less than 2^31 ms) after its previous poll: the pacing of
`C10_bam_pacing` then lets exactly one data packet out per poll. After at most 33 rounds of ANY such schedule B's handler has
been called exactly once with the PGN, A's address, destination 255, the length and exactly the payload; A's transfer is over;
nothing is in flight, and B never sent a frame (`C10_receiver_bam`). Restriction (hence `_partial`): strictly alternating
polls, one data packet per poll of B; `C10_end_to_end_bam_any_order` below lifts it. -/
theorem C10_end_to_end_bam_partial (a b : Node) (ia ib : Nat) (da db : Dev) (m : Msg) (ds : List (Nat × Nat))
    (hda : Lead a ia da) (hdb : Lead b ib db) (hqa : Quiet a.s ia) (hqb : Quiet b.s ib)
    (haIdle : (a.tp ia).pend.pgn = 0) (haSent : a.s.drv.sent = []) (haRx : a.rxq = [])
    (hbIdle : (b.tp ib).hasPending = false) (hbSent : b.s.drv.sent = []) (hbRx : b.rxq = []) (hbOut : b.out = [])
    (haInfo : InfoIdle a ia) (hbInfo : InfoIdle b ib)
    (hbFree : ∃ sl ∈ b.slots, sl.free = true) (hbInv : ∀ sl ∈ b.slots, sl.free = true → sl.reqCTS = 0)
    (hknown : (checkKnown m.pgn).1 = true ∨ ¬ b.onlyKnown = true)
    (htp : m.tp = true) (h9 : 9 ≤ m.len) (h223 : m.len ≤ 223) (hdata : m.len ≤ m.data.length)
    (hdst : m.dst = 255) (hlow : m.pgn &&& 0xff = 0) (hp0 : m.pgn ≠ 0) (hp24 : m.pgn < 2^24)
    (hid : n2kToCanId m.prio m.pgn da.source m.dst ≠ 0)
    (hgap : 50 ≤ a.bamGap) (hlen : 33 ≤ ds.length) (hall : ∀ p ∈ ds, a.bamGap + 1 ≤ p.2 ∧ p.2 < INT32_MAX)
    (h64 : a.s.now + totalA ds + 100 < M64) :
    (sendMsgTP a m (some ia)).2 = true ∧
    ∃ r, r ≤ 33 ∧
      (rounds (ds.take r) ((sendMsgTP a m (some ia)).1, b)).2.out =
        [{ pgn := m.pgn, src := da.source, dst := 255, prio := 7, len := m.len, tp := true, data := m.data.take m.len }] ∧
      ((rounds (ds.take r) ((sendMsgTP a m (some ia)).1, b)).1.tp ia).pend.pgn = 0 ∧
      ((rounds (ds.take r) ((sendMsgTP a m (some ia)).1, b)).1.tp ia).hasPending = false ∧
      (rounds (ds.take r) ((sendMsgTP a m (some ia)).1, b)).1.s.drv.sent = [] ∧
      (rounds (ds.take r) ((sendMsgTP a m (some ia)).1, b)).2.s.drv.sent = [] ∧
      (rounds (ds.take r) ((sendMsgTP a m (some ia)).1, b)).1.rxq = [] ∧
      (rounds (ds.take r) ((sendMsgTP a m (some ia)).1, b)).2.rxq = [] := by
  have hstart := sendMsgTP_start_bam a m da hqa hda.dev0 hlow hp0 hid htp h9 hdst haIdle
  rw [haSent, haRx, List.nil_append] at hstart
  rw [hstart]
  refine ⟨rfl, ?_⟩
  obtain ⟨j, a0, hj, ha0⟩ := start_slot_exists b.slots m.pgn da.source 255 hbFree
  have hreq := found_slot_silent b.slots m.pgn da.source j a0 hbInv hj ha0
  have hL : BamHyp a b ia ib da db (pendMsg m da) j (b.slots.map (freeSess da.source 255)) a0 :=
    ⟨hda, hdb, hqa, hqb, hbIdle, haInfo, hbInfo, hdst, h9, h223, hdata, hp24, hp0, hknown, rfl, hj, ha0, hreq⟩
  have hb : b = b.upd b.tp b.slots [] [] [] := by
    have := (upd_self b).symm
    rw [hbOut, hbSent, hbRx] at this; exact this
  have hnp : 2 ≤ tpPacketCount m.len := by unfold tpPacketCount; omega
  have hnp32 := tpPacketCount_le m.len h223
  obtain ⟨p, ds', hds⟩ : ∃ p ds', ds = p :: ds' := by
    cases ds with
    | nil => simp at hlen
    | cons p t => exact ⟨p, t, rfl⟩
  subst hds
  have hp51 := hall p (by simp)
  have htot : totalA (p :: ds') = p.2 + totalA ds' := by simp [totalA]
  obtain ⟨r, S'', tA', tB', hr, hR⟩ := roundsB_complete hL 32 0 (a.s.now + p.2) (b.s.now + p.1) (millis32 (b.s.now + p.1)) ds'
    (by show 0 < tpPacketCount m.len; omega) (by show tpPacketCount m.len - 0 ≤ 32; omega) (by simp at hlen; omega)
    (fun q hq => hall q (by simp [hq])) (by omega)
  refine ⟨r + 1, by omega, ?_⟩
  have hfirst' := roundB_first hL a.s.now b.s.now p.1 p.2 ⟨by have := hp51.1; omega, hp51.2⟩ (by omega)
  have hpair : (a.upd (txTp ia a (pendMsg m da) 0 a.s.now 50) a.slots a.out [cmFrame da.source 255 (announceBytes 32 (pendMsg m da))] [], b)
      = ((atTime a a.s.now).upd (txTp ia a (pendMsg m da) 0 a.s.now 50) a.slots a.out [cmFrame da.source 255 (announceBytes 32 (pendMsg m da))] [],
         (atTime b b.s.now).upd b.tp b.slots [] [] []) := congrArg (Prod.mk _) hb
  have hR' : rounds ((p :: ds').take (r + 1))
        (a.upd (txTp ia a (pendMsg m da) 0 a.s.now 50) a.slots a.out [cmFrame da.source 255 (announceBytes 32 (pendMsg m da))] [], b)
      = ((atTime a tA').upd (doneTp ia a (pendMsg m da) (tpPacketCount m.len)) a.slots a.out [] [],
         (atTime b tB').upd b.tp S'' [delivered (pendMsg m da) da.source 255] [] []) := by
    rw [hpair]
    simp only [List.take_succ_cons, rounds]
    rw [hfirst']
    exact hR
  rw [hR']
  refine ⟨rfl, ?_, ?_, rfl, rfl, rfl, rfl⟩
  · simp [doneTp]
  · simp [doneTp]

example : ∃ (a b : Node) (ia ib : Nat) (da db : Dev) (m : Msg) (ds : List (Nat × Nat)), 50 ≤ a.bamGap ∧ 33 ≤ ds.length ∧
    (∀ p ∈ ds, a.bamGap + 1 ≤ p.2 ∧ p.2 < INT32_MAX) ∧
    a.s.now + totalA ds + 100 < M64 ∧ Lead a ia da ∧ Lead b ib db ∧ 0 < ia ∧ 0 < ib ∧ Quiet a.s ia ∧ Quiet b.s ib ∧
    (a.tp ia).pend.pgn = 0 ∧ a.s.drv.sent = [] ∧ a.rxq = [] ∧ (b.tp ib).hasPending = false ∧ b.s.drv.sent = [] ∧ b.rxq = [] ∧
    b.out = [] ∧ InfoIdle a ia ∧ InfoIdle b ib ∧ (∃ sl ∈ b.slots, sl.free = true) ∧ (∀ sl ∈ b.slots, sl.free = true → sl.reqCTS = 0) ∧
    ((checkKnown m.pgn).1 = true ∨ ¬ b.onlyKnown = true) ∧
    m.tp = true ∧ 9 ≤ m.len ∧ m.len ≤ 223 ∧ m.len ≤ m.data.length ∧ m.dst = 255 ∧ m.pgn &&& 0xff = 0 ∧ m.pgn ≠ 0 ∧
    m.pgn < 2^24 ∧ n2kToCanId m.prio m.pgn da.source m.dst ≠ 0 := by
  refine ⟨exNodeA, exNodeB, 1, 1, exDevA, exDevB,
    { exMsg with dst := 255 }, List.replicate 33 (7, 60), by decide, by decide, by decide, by decide,
    exLeadA, exLeadB, by decide, by decide, exQuietA, exQuietB, rfl, rfl,
    rfl, rfl, rfl, rfl, rfl, ⟨rfl, rfl⟩, ⟨rfl, rfl⟩, ⟨{}, by simp [exNodeB, exNode], rfl⟩, ?_, by decide, by decide, by decide, by decide, by decide, by decide,
    by decide, by decide, by decide, by decide⟩
  intro sl hsl _
  simp [exNodeB, exNode] at hsl
  rw [hsl]


/-- **End to end (BAM), any poll order.** Same two nodes and hypotheses as `C10_end_to_end_bam_partial`, but the schedule is
an ARBITRARY list of polls `(who, delay)` (`step` / `run` as in `C10_end_to_end_any_order`). The listener does not pace the
sender, so frames pile up: whatever A handed to its driver since B's last poll arrives together, B takes the first 20 frames
of its queue per poll (the loop of `ParseMessages`) and leaves the others queued. The statement is a simulation: the schedule
alone determines four counters (`cntRun`, one `cntStep` per poll) - `n` frames sent (announce + data packets; a poll of A sends
the next packet iff packets are left and more than 50 ms (after the announce) resp. `bamGap` ms (after a packet) passed at A since
it armed the timer, idle polls add up), `p` of them wired to B, `q` taken by B (a poll of B: `q + min 20 (n - q)`) - and
`bamLegal` only excludes a poll of A at the very millisecond the timer runs out (the scheduler flavours differ there) or 2^31 ms
late; nothing at all is demanded of B. Then after EVERY legal schedule: `SendMsg` succeeded; B has not handed a single frame to
its driver; as long as B has not taken all `packets + 1` frames its handler has not been called; and once it has
(`q = packets + 1`, i.e. A's timer fired at `packets` polls and B polled once or - more than 20 frames outstanding - twice
afterwards: that many effective polls) the handler has been called exactly once with the PGN, A's address, destination 255,
the length and exactly the payload, A's transfer is over and nothing is in flight. Every prefix of a schedule is a schedule, so
this describes the whole run. Not covered: other traffic, a lossy channel, B's slot timing out (B's delays are unbounded here
because no other session competes for the slot). -/
theorem C10_end_to_end_bam_any_order (a b : Node) (ia ib : Nat) (da db : Dev) (m : Msg) (sch : List (Who × Nat))
    (hda : Lead a ia da) (hdb : Lead b ib db) (hqa : Quiet a.s ia) (hqb : Quiet b.s ib)
    (haIdle : (a.tp ia).pend.pgn = 0) (haSent : a.s.drv.sent = []) (haRx : a.rxq = [])
    (hbIdle : (b.tp ib).hasPending = false) (hbSent : b.s.drv.sent = []) (hbRx : b.rxq = []) (hbOut : b.out = [])
    (haInfo : InfoIdle a ia) (hbInfo : InfoIdle b ib)
    (hbFree : ∃ sl ∈ b.slots, sl.free = true) (hbInv : ∀ sl ∈ b.slots, sl.free = true → sl.reqCTS = 0)
    (hknown : (checkKnown m.pgn).1 = true ∨ ¬ b.onlyKnown = true)
    (htp : m.tp = true) (h9 : 9 ≤ m.len) (h223 : m.len ≤ 223) (hdata : m.len ≤ m.data.length)
    (hdst : m.dst = 255) (hlow : m.pgn &&& 0xff = 0) (hp0 : m.pgn ≠ 0) (hp24 : m.pgn < 2^24)
    (hid : n2kToCanId m.prio m.pgn da.source m.dst ≠ 0)
    (hgap : a.bamGap ≤ 100000) (hlegal : bamLegal (tpPacketCount m.len) a.bamGap sch ⟨1, 0, 0, 0⟩)
    (h64 : a.s.now + total sch + 100100 < M64) :
    (sendMsgTP a m (some ia)).2 = true ∧
    (run sch ((sendMsgTP a m (some ia)).1, b)).2.s.drv.sent = [] ∧
    ((cntRun (tpPacketCount m.len) a.bamGap sch ⟨1, 0, 0, 0⟩).q ≤ tpPacketCount m.len →
      (run sch ((sendMsgTP a m (some ia)).1, b)).2.out = []) ∧
    ((cntRun (tpPacketCount m.len) a.bamGap sch ⟨1, 0, 0, 0⟩).q = tpPacketCount m.len + 1 →
      (run sch ((sendMsgTP a m (some ia)).1, b)).2.out =
        [{ pgn := m.pgn, src := da.source, dst := 255, prio := 7, len := m.len, tp := true, data := m.data.take m.len }] ∧
      ((run sch ((sendMsgTP a m (some ia)).1, b)).1.tp ia).pend.pgn = 0 ∧
      ((run sch ((sendMsgTP a m (some ia)).1, b)).1.tp ia).hasPending = false ∧
      (run sch ((sendMsgTP a m (some ia)).1, b)).1.s.drv.sent = [] ∧
      (run sch ((sendMsgTP a m (some ia)).1, b)).1.rxq = [] ∧
      (run sch ((sendMsgTP a m (some ia)).1, b)).2.rxq = []) := by
  have hstart := sendMsgTP_start_bam a m da hqa hda.dev0 hlow hp0 hid htp h9 hdst haIdle
  rw [haSent, haRx, List.nil_append] at hstart
  rw [hstart]
  refine ⟨rfl, ?_⟩
  obtain ⟨j, a0, hj, ha0⟩ := start_slot_exists b.slots m.pgn da.source 255 hbFree
  have hreq := found_slot_silent b.slots m.pgn da.source j a0 hbInv hj ha0
  have hL : BamHyp a b ia ib da db (pendMsg m da) j (b.slots.map (freeSess da.source 255)) a0 :=
    ⟨hda, hdb, hqa, hqb, hbIdle, haInfo, hbInfo, hdst, h9, h223, hdata, hp24, hp0, hknown, rfl, hj, ha0, hreq⟩
  have hb : b = b.upd b.tp b.slots [] [] [] := by
    have := (upd_self b).symm
    rw [hbOut, hbSent, hbRx] at this; exact this
  have hnp : 2 ≤ tpPacketCount m.len := by unfold tpPacketCount; omega
  have hpair : (a.upd (txTp ia a (pendMsg m da) 0 a.s.now 50) a.slots a.out [cmFrame da.source 255 (announceBytes 32 (pendMsg m da))] [], b)
      = confB a b ia da (pendMsg m da) j (b.slots.map (freeSess da.source 255)) a0 1 0 0 a.s.now a.s.now b.s.now 0 [] :=
    congrArg (Prod.mk _) hb
  rw [hpair]
  obtain ⟨t0', tA', tB', mt', S2', hR⟩ := runB_sim hL hgap sch 1 0 0 a.s.now a.s.now b.s.now 0 [] (Nat.le_refl _)
    (by show 1 ≤ tpPacketCount m.len + 1; omega) (Nat.le_refl _) (by omega) (Nat.le_refl _) (by rw [Nat.sub_self]; exact hlegal) h64
  rw [Nat.sub_self] at hR
  rw [show tpPacketCount (pendMsg m da).len = tpPacketCount m.len from rfl] at hR
  obtain ⟨hqp, hpn, hn⟩ := cntRun_inv (tpPacketCount m.len) a.bamGap sch ⟨1, 0, 0, 0⟩ (Nat.le_refl _) (by show 0 ≤ 1; omega)
    (by show 1 ≤ tpPacketCount m.len + 1; omega)
  rw [hR]
  generalize cntRun (tpPacketCount m.len) a.bamGap sch ⟨1, 0, 0, 0⟩ = c at hqp hpn hn ⊢
  have hlenm : (pendMsg m da).len = m.len := rfl
  refine ⟨rfl, ?_, ?_⟩
  · intro hq
    show bOut da (pendMsg m da) c.q = []
    unfold bOut; rw [hlenm, if_pos hq]
  · intro hq
    have hp' : c.p = tpPacketCount m.len + 1 := by omega
    have hn' : c.n = tpPacketCount m.len + 1 := by omega
    refine ⟨?_, ?_, ?_, ?_, rfl, ?_⟩
    · show bOut da (pendMsg m da) c.q = _
      unfold bOut; rw [hlenm, if_neg (by omega)]; rfl
    · show ((aTp a ia (pendMsg m da) c.n t0') ia).pend.pgn = 0
      rw [hn', ← hlenm, aTp_done t0' (by rw [hlenm]; exact hnp)]; simp [doneTp]
    · show ((aTp a ia (pendMsg m da) c.n t0') ia).hasPending = false
      rw [hn', ← hlenm, aTp_done t0' (by rw [hlenm]; exact hnp)]; simp [doneTp]
    · show bamFrames da (pendMsg m da) c.p (c.n - c.p) = []
      rw [hp', hn', Nat.sub_self, bamFrames_zero]
    · show bamFrames da (pendMsg m da) c.q (c.p - c.q) = []
      rw [hp', hq, Nat.sub_self, bamFrames_zero]

set_option maxRecDepth 8000 in
/-- the hypotheses of `C10_end_to_end_bam_any_order` are satisfiable and the completion condition is reached by a schedule in
which B sleeps through the whole transfer: 150 bytes = 22 packets, A polls 22 times every 60 ms (and three times without
effect), only then B polls - 23 frames wait, it takes 20, and the other 3 with its second poll -/
example : ∃ (a b : Node) (ia ib : Nat) (da db : Dev) (m : Msg) (sch : List (Who × Nat)), a.bamGap ≤ 100000 ∧
    bamLegal (tpPacketCount m.len) a.bamGap sch ⟨1, 0, 0, 0⟩ ∧
    cntRun (tpPacketCount m.len) a.bamGap (sch.take (sch.length - 1)) ⟨1, 0, 0, 0⟩ = ⟨23, 23, 20, 10⟩ ∧
    (cntRun (tpPacketCount m.len) a.bamGap sch ⟨1, 0, 0, 0⟩).q = tpPacketCount m.len + 1 ∧
    a.s.now + total sch + 100100 < M64 ∧ Lead a ia da ∧ Lead b ib db ∧ 0 < ia ∧ 0 < ib ∧ Quiet a.s ia ∧ Quiet b.s ib ∧
    (a.tp ia).pend.pgn = 0 ∧ a.s.drv.sent = [] ∧ a.rxq = [] ∧ (b.tp ib).hasPending = false ∧ b.s.drv.sent = [] ∧ b.rxq = [] ∧
    b.out = [] ∧ InfoIdle a ia ∧ InfoIdle b ib ∧ (∃ sl ∈ b.slots, sl.free = true) ∧ (∀ sl ∈ b.slots, sl.free = true → sl.reqCTS = 0) ∧
    ((checkKnown m.pgn).1 = true ∨ ¬ b.onlyKnown = true) ∧
    m.tp = true ∧ 9 ≤ m.len ∧ m.len ≤ 223 ∧ m.len ≤ m.data.length ∧ m.dst = 255 ∧ m.pgn &&& 0xff = 0 ∧ m.pgn ≠ 0 ∧
    m.pgn < 2^24 ∧ n2kToCanId m.prio m.pgn da.source m.dst ≠ 0 := by
  refine ⟨exNodeA, exNodeB, 1, 1, exDevA, exDevB,
    { exMsg with dst := 255, len := 150, data := List.range 150 },
    (.A, 20) :: (.A, 10) :: List.replicate 22 (.A, 60) ++ [(.A, 10), (.B, 7), (.B, 0)], by decide, ?_, by decide, by decide, by decide,
    exLeadA, exLeadB, by decide, by decide, exQuietA, exQuietB, rfl, rfl,
    rfl, rfl, rfl, rfl, rfl, ⟨rfl, rfl⟩, ⟨rfl, rfl⟩, ⟨{}, by simp [exNodeB, exNode], rfl⟩, ?_, by decide, by decide, by decide, by decide, by decide, by decide,
    by decide, by decide, by decide, by decide⟩
  · simp [bamLegal, cntStep, List.replicate, tpPacketCount, exNodeA, exNode, INT32_MAX]
  · intro sl hsl _
    simp [exNodeB, exNode] at hsl
    rw [hsl]

end N2k.C10
