import N2k.Lemmas.DeviceListRefine
/-!
# C18 - the optional device list mirrors the address claims seen on the bus

Model: `N2k/Model/DeviceList.lean` (`tN2kDeviceList::HandleMsg` over a heap in which a freed entry stays
observable; every handler runs in `Except Fault`). Specification: `N2k/Spec/DeviceMap.lean` (two maps updated by
"latest claim wins, displaced NAME forgotten"). A history is a list of `(Env, Msg)`: the message delivered and the
environment of that call (clock, whether `SendMsg` succeeds, content of uninitialised memory) - all universally
quantified.
-/
namespace N2k.C18
open N2k.DeviceList N2k.Spec.DeviceMap

/-- **C18, invariant and memory safety.** For EVERY history of delivered messages (any sources, PGNs, payloads,
clock values, send outcomes, junk in uninitialised memory) no run of `HandleMsg` returns a `Fault` (no use after
free, no double free, no null dereference, no access outside a heap block), and in the state reached
* every occupied slot `Sources[i]` (only `i < 254`) points to a live entry whose source is `i`,
* at most one live entry reachable from `Sources[]` has a given non-zero NAME. -/
theorem C18_one_entry_per_name (h : List (Env × Msg)) :
    ∃ s, run State.init h = .ok s ∧
      (∀ i id, s.sources i = some id → i < MaxBusDevices ∧ ∃ d, s.heap id = some d ∧ d.source = i) ∧
      (∀ i j idi idj di dj, s.sources i = some idi → s.sources j = some idj →
        s.heap idi = some di → s.heap idj = some dj → di.name = dj.name → di.name ≠ 0 → i = j) := by
  obtain ⟨s, hs, hi⟩ := run_spec h Inv.init
  refine ⟨s, hs, ?_, ?_⟩
  · intro i id hsi
    obtain ⟨a, _, d, hd, hsrc⟩ := hi.st.src i id hsi
    exact ⟨a, d, hd, hsrc⟩
  · intro i j idi idj di dj hsi hsj hdi hdj hn h0
    exact hi.good.uniq i j di dj (by simp [devAt, hsi, hdi]) (by simp [devAt, hsj, hdj]) hn h0

/-- **C18, refinement.** For every history the list refines the two-map specification: whenever the
specification (fed with the address claims of the history, sources 0..253) says `NAME n ↦ source src`, then
`FindDeviceByName(n)` returns an entry whose source is `src` and whose NAME is `n`, and `FindDeviceBySource(src)`
returns that same entry. (No run faults.) -/
theorem C18_refines_map (h : List (Env × Msg)) :
    ∃ s, run State.init h = .ok s ∧
      ∀ n src, (runClaims DMap.empty (claimsOf h)).byName n = some src →
        ∃ id d, findByName s n = .ok (some id) ∧ findBySource s src = some id ∧
          s.heap id = some d ∧ d.source = src ∧ d.name = n := by
  obtain ⟨s, hs, hi, hr⟩ := refines_run h Inv.init Cons.empty (by intro n src hn; cases hn)
  refine ⟨s, hs, ?_⟩
  intro n src hn
  obtain ⟨d, hd, hdn⟩ := hr n src hn
  have hnz := (Cons.empty.run (claimsOf h)).nz n src hn
  obtain ⟨id, h1, h2, h3, h4⟩ := lookups_of_entry hi hnz hd hdn
  exact ⟨id, d, h1, h2, h3, h4, hdn⟩

/-- **C18, in the words of the property.** If the last address claim of the non-zero NAME `n` in a history was
made from source `src < 254` and no later claim was made from `src` (i.e. it has not been displaced), then
looking `n` up by NAME returns an entry with source `src`, and looking `src` up returns that entry, whose NAME is
`n`. -/
theorem C18_latest_claim (pre post : List (Env × Msg)) (e : Env) (m : Msg) (n : Nat)
    (hm : m.pgn = pgnClaim) (hsrc : m.source < MaxBusDevices) (hname : claimName m = n) (hn : n ≠ 0)
    (hlatest : ∀ em ∈ post, em.2.pgn = pgnClaim → em.2.source < MaxBusDevices →
      claimName em.2 ≠ n ∧ em.2.source ≠ m.source) :
    ∃ s id d, run State.init (pre ++ (e, m) :: post) = .ok s ∧ findByName s n = .ok (some id) ∧
      findBySource s m.source = some id ∧ s.heap id = some d ∧ d.source = m.source ∧ d.name = n := by
  obtain ⟨s, hs, hall⟩ := C18_refines_map (pre ++ (e, m) :: post)
  have hco : claimOf m = some (m.source, n) := by simp [claimOf, hm, hsrc, hname]
  have hcl : claimsOf (pre ++ (e, m) :: post) = claimsOf pre ++ (m.source, n) :: claimsOf post := by
    simp [claimsOf, List.filterMap_append, List.filterMap_cons, hco]
  have hpost : ∀ c ∈ claimsOf post, c.2 ≠ n ∧ c.1 ≠ m.source := by
    intro c hc
    simp only [claimsOf, List.mem_filterMap] at hc
    obtain ⟨em, hem, hce⟩ := hc
    unfold claimOf at hce
    by_cases hcond : em.2.pgn = pgnClaim ∧ em.2.source < MaxBusDevices
    · simp only [hcond, and_self, if_true] at hce
      cases hce
      exact hlatest em hem hcond.1 hcond.2
    · simp [hcond] at hce
  have hl := latest_claim DMap.empty Cons.empty (claimsOf pre) (claimsOf post) m.source n hn
    (fun c hc => (hpost c hc).1) (fun c hc => (hpost c hc).2)
  rw [← hcl] at hl
  obtain ⟨id, d, h1, h2, h3, h4, h5⟩ := hall n m.source hl.1
  exact ⟨s, id, d, hs, h1, h2, h3, h4, h5⟩

/-- the hypotheses of `C18_latest_claim` are satisfiable: NAME 0xA1 claims 5, then NAME 0xB2 claims 9 -/
example : ∃ (post : List (Env × Msg)) (m : Msg), m.pgn = pgnClaim ∧ m.source < MaxBusDevices ∧ claimName m = 0xA1 ∧
    post ≠ [] ∧ ∀ em ∈ post, em.2.pgn = pgnClaim → em.2.source < MaxBusDevices →
      claimName em.2 ≠ 0xA1 ∧ em.2.source ≠ m.source :=
  ⟨[(⟨0, true, fun _ => 0⟩, ⟨pgnClaim, 9, [0xB2, 0, 0, 0, 0, 0, 0, 0]⟩)], ⟨pgnClaim, 5, [0xA1, 0, 0, 0, 0, 0, 0, 0]⟩,
    rfl, by decide, by decide, by simp, by
      intro em hem _ _
      simp only [List.mem_singleton] at hem
      subst hem
      exact ⟨by decide, by decide⟩⟩

/-- **C18, list-updated flag.** In every reachable state, a run of `HandleMsg` either raises the list-updated
indication or leaves unchanged what the list reports for every non-zero NAME: the set of (source, product
information, the three configuration strings, transmit and receive PGN lists) read back through the getters of
the entries carrying that NAME (`Reports`). The flag is only ever reset by `ReadResetIsListUpdated`. -/
theorem C18_updated_flag (h : List (Env × Msg)) (e : Env) (m : Msg) :
    ∃ s s', run State.init h = .ok s ∧ handleMsg e s m = .ok s' ∧
      (s'.listUpdated = true ∨ ∀ n, n ≠ 0 → ∀ o, Reports s' n o ↔ Reports s n o) := by
  obtain ⟨s, hs, hi⟩ := run_spec h Inv.init
  obtain ⟨s', hs', _, hd⟩ := handleMsg_spec e hi m
  refine ⟨s, s', hs, hs', ?_⟩
  rcases step_flag hd with hf | hv
  · exact Or.inl hf
  · exact Or.inr (fun n hn o => hv.reports hn o)

/-- **C18, product information (partial).** Let the non-zero NAME `n` claim source `src < 254` (message `mc`),
let `mp` be the first PGN 126996 from `src` after that claim, and let no address claim from `src` or of `n` occur
after `mc` (`Quiet`: the claim is the latest one of `n` and is not displaced). Then for every continuation the
entry found under `src` carries NAME `n` and its product information is exactly the parse result of `mp`
(`ParseN2kPGN126996`, strings cut to the 32-character fields) - unchanged by anything received later.

PARTIAL - what is excluded: `hfresh`, the list must not already show NAME `n` under `src` when `mc` arrives.
That happens when `n`'s entry was parked on the free slot `src` by an earlier displacement (open finding
`C18:parked-entry-prodinfo`); `C18_parked_entry_witness` proves that the conclusion fails there. -/
theorem C18_information_prod_partial (pre mid post : List (Env × Msg)) (e0 e1 : Env) (mc mp : Msg) (n : Nat)
    (hmc : mc.pgn = pgnClaim) (hsrc : mc.source < MaxBusDevices) (hname : claimName mc = n) (_hn : n ≠ 0)
    (hmp : mp.pgn = pgnProd) (hmps : mp.source = mc.source)
    (hmid : Quiet mid mc.source n) (hnoprod : ∀ em ∈ mid, ¬ (em.2.source = mc.source ∧ em.2.pgn = pgnProd))
    (hpost : Quiet post mc.source n)
    (hfresh : ∀ s0, run State.init pre = .ok s0 →
      ∀ id d, findBySource s0 mc.source = some id → s0.heap id = some d → d.name ≠ n) :
    ∃ s id d p, run State.init (pre ++ (e0, mc) :: (mid ++ (e1, mp) :: post)) = .ok s ∧ parseProd e1 mp = .ok p ∧
      findBySource s mc.source = some id ∧ s.heap id = some d ∧ d.name = n ∧ d.prod = p := by
  obtain ⟨s0, hs0, hi0⟩ := run_spec pre Inv.init
  obtain ⟨s1, hs1, hi1, hd1⟩ := handleMsg_spec e0 hi0 mc
  have hfr : ¬ ∃ d, devAt s0 mc.source = some d ∧ d.name = claimName mc := by
    intro ⟨d, hd, hdn⟩
    obtain ⟨_, _, _, id, hsi, hhd⟩ := devAt_src hi0.st hd
    have h254 : ¬ mc.source ≥ MaxBusDevices := by omega
    exact hfresh s0 hs0 id d (by simp [findBySource, h254, hsi]) hhd (by rw [hdn, hname])
  obtain ⟨d1, hda1, hn1, hl1⟩ := step_claim_fresh hd1 hmc hsrc hfr
  rw [hname] at hn1
  obtain ⟨s2, d2, hs2, hi2, hda2, hn2, hl2, _⟩ := run_prod_keep mid hi1 hda1 (by rw [hn1]; exact hmid) (Or.inr hnoprod)
  obtain ⟨s3, hs3, hi3, hd3⟩ := handleMsg_spec e1 hi2 mp
  rw [← hmps] at hda2
  obtain ⟨d3, p, hp, hda3, hn3, hl3, hp3⟩ := step_prod_first hd3 hda2 (by rw [hmps]; exact hsrc) hmp (by rw [hl2, hl1])
  rw [hmps] at hda3
  obtain ⟨s4, d4, hs4, hi4, hda4, hn4, _, hp4⟩ := run_prod_keep post hi3 hda3
    (by rw [hn3, hn2, hn1]; exact hpost) (Or.inl hl3)
  obtain ⟨hsrc4, _, _, id, hsi, hhd⟩ := devAt_src hi4.st hda4
  have h254 : ¬ mc.source ≥ MaxBusDevices := by omega
  refine ⟨s4, id, d4, p, ?_, hp, by simp [findBySource, h254, hsi], hhd, by rw [hn4, hn3, hn2, hn1], by rw [hp4, hp3]⟩
  exact run_ok_append hs0 (run_ok_cons hs1 (run_ok_append hs2 (run_ok_cons hs3 hs4)))

/-- the hypotheses of `C18_information_prod_partial` are satisfiable (empty `pre`, `mid`, `post`) -/
example : ∃ (mc mp : Msg), mc.pgn = pgnClaim ∧ mc.source < MaxBusDevices ∧ claimName mc = 0xA1 ∧ mp.pgn = pgnProd ∧
    mp.source = mc.source ∧ Quiet [] mc.source 0xA1 ∧
    (∀ s0, run State.init [] = .ok s0 → ∀ id d, findBySource s0 mc.source = some id → s0.heap id = some d → d.name ≠ 0xA1) :=
  ⟨⟨pgnClaim, 5, [0xA1, 0, 0, 0, 0, 0, 0, 0]⟩, ⟨pgnProd, 5, [1, 2, 3, 4]⟩, rfl, by decide, by decide, rfl, rfl,
    (by intro em hem; cases hem), (by
      intro s0 hs0 id d hf
      simp only [run, Except.ok.injEq] at hs0
      subst hs0
      simp [findBySource, State.init] at hf)⟩

/-- the history of the open finding `C18:parked-entry-prodinfo`: NAME A1 claims 5; NAME B2 takes 5 over (A1's
entry is parked on the free slot 0); somebody sends product information (code 111) from address 0; A1 claims
address 0 - its latest, undisplaced claim; A1 sends its product information (code 222) -/
def parkedHistory : List (Env × Msg) :=
  let e : Env := ⟨5000, true, fun _ => 0⟩
  [(e, ⟨pgnClaim, 5, [0xA1, 0, 0, 0, 0, 0, 0, 0]⟩), (e, ⟨pgnClaim, 5, [0xB2, 0, 0, 0, 0, 0, 0, 0]⟩),
   (e, ⟨pgnProd, 0, [111, 0, 111, 0]⟩), (e, ⟨pgnClaim, 0, [0xA1, 0, 0, 0, 0, 0, 0, 0]⟩),
   (e, ⟨pgnProd, 0, [222, 0, 222, 0]⟩)]

/-- **negation of the product-information statement at the concrete witness**: after `parkedHistory` the entry
under source 0 carries NAME A1 (claim handling is right), the first 126996 after A1's claim of address 0 parses
to product code 222, but the list reports product code 111. -/
theorem C18_parked_entry_witness :
    ∃ s id d p, run State.init parkedHistory = .ok s ∧ findBySource s 0 = some id ∧ s.heap id = some d ∧
      d.name = 0xA1 ∧ parseProd ⟨5000, true, fun _ => 0⟩ ⟨pgnProd, 0, [222, 0, 222, 0]⟩ = .ok p ∧
      p.productCode = 222 ∧ d.prod.productCode = 111 :=
  ⟨_, _, _, _, rfl, rfl, rfl, rfl, rfl, rfl, rfl⟩

/-- **C18, PGN lists.** Let the list show NAME `n` under `src` (after `pre`), let `ml` be a PGN 126464 from `src`
of kind `which` (0 = transmit, 1 = receive) and let it be the latest of that kind from `src`, with no address
claim from `src` or of `n` afterwards. Then the getter of that kind (`GetTransmitPGNs` / `GetReceivePGNs`) of the
entry under `src` (NAME `n`) returns exactly the 3-byte values of `ml` up to the first 0 (0 terminates a list in
the API), whatever was stored before (shorter, longer, no list) and whatever else is received. -/
theorem C18_information_pgns (pre post : List (Env × Msg)) (e1 : Env) (ml : Msg) (n which : Nat)
    (hshown : Shows pre ml.source n) (hsrc : ml.source < MaxBusDevices)
    (hpgn : ml.pgn = pgnList) (hwhich : which = 0 ∨ which = 1) (hty : listType ml = which)
    (hpost : Quiet post ml.source n)
    (hlatest : ∀ em ∈ post, ¬ (em.2.source = ml.source ∧ em.2.pgn = pgnList ∧ listType em.2 = which)) :
    ∃ s id d, run State.init (pre ++ (e1, ml) :: post) = .ok s ∧ findBySource s ml.source = some id ∧
      s.heap id = some d ∧ d.name = n ∧
      getPGNs (d.pgnBlock which) = .ok (some ((pgnListOf ml).takeWhile (· ≠ 0))) := by
  obtain ⟨s0, d0, hs0, hi0, hd0, hn0⟩ := shows_entry hshown
  obtain ⟨s1, hs1, hi1, hdesc⟩ := handleMsg_spec e1 hi0 ml
  obtain ⟨d1, hd1, hn1, hg1⟩ := step_pgn_store hdesc hi0 hwhich hd0 hsrc hpgn hty
  obtain ⟨s2, d2, hs2, hi2, hd2, hn2, hb2⟩ := run_pgn_keep post hwhich hi1 hd1 (by rw [hn1, hn0]; exact hpost) hlatest
  obtain ⟨id, hf, hh⟩ := entry_lookup hi2 hd2
  exact ⟨s2, id, d2, run_ok_append hs0 (run_ok_cons hs1 hs2), hf, hh, by rw [hn2, hn1, hn0], by rw [hb2]; exact hg1⟩

/-- **C18, configuration information.** Let the list show NAME `n` under `src`, let `mc` be a PGN 126998 from `src`
whose size query succeeds (three well-formed variable-length fields) and let it be the latest 126998 from `src`,
with no address claim from `src` or of `n` afterwards. Then the three getters of the entry under `src` return
exactly the C strings that `GetVarStr` leaves in three separate buffers of the queried sizes (`confField`: null
for an empty field; `j1 j2 j3` are the previous contents of those buffers) - whatever sizes were stored before
(block reused or reallocated) and whatever else is received. What `GetVarStr` leaves is C16's subject. -/
theorem C18_information_conf (pre post : List (Env × Msg)) (e1 : Env) (mc : Msg) (n : Nat)
    (hshown : Shows pre mc.source n) (hsrc : mc.source < MaxBusDevices)
    (hpgn : mc.pgn = pgnConf) (hq : (parseConfSizes mc.text).ok = true)
    (hpost : Quiet post mc.source n)
    (hlatest : ∀ em ∈ post, ¬ (em.2.source = mc.source ∧ em.2.pgn = pgnConf)) :
    ∃ s id d j1 j2 j3, run State.init (pre ++ (e1, mc) :: post) = .ok s ∧ findBySource s mc.source = some id ∧
      s.heap id = some d ∧ d.name = n ∧
      d.getInstallationDescription1 = .ok (confField mc.text (confPlan mc.text).B (confPlan mc.text).idx1 j1) ∧
      d.getInstallationDescription2 = .ok (confField mc.text (confPlan mc.text).C (confPlan mc.text).idx2 j2) ∧
      d.getManufacturerInformation = .ok (confField mc.text (confPlan mc.text).A (confPlan mc.text).idx3 j3) := by
  obtain ⟨s0, d0, hs0, hi0, hd0, hn0⟩ := shows_entry hshown
  obtain ⟨s1, hs1, hi1, hdesc⟩ := handleMsg_spec e1 hi0 mc
  obtain ⟨d1, j1, j2, j3, hd1, hn1, g1, g2, g3⟩ := step_conf_store hdesc hi0 hd0 hsrc hpgn hq
  obtain ⟨s2, d2, hs2, hi2, hd2, hn2, hb2⟩ := run_conf_keep post hi1 hd1 (by rw [hn1, hn0]; exact hpost) hlatest
  obtain ⟨id, hf, hh⟩ := entry_lookup hi2 hd2
  obtain ⟨k1, k2, k3⟩ := hb2.getters
  exact ⟨s2, id, d2, j1, j2, j3, run_ok_append hs0 (run_ok_cons hs1 hs2), hf, hh, by rw [hn2, hn1, hn0],
    by rw [k2]; exact g1, by rw [k3]; exact g2, by rw [k1]; exact g3⟩

/-- the hypotheses of `C18_information_pgns` / `C18_information_conf` are satisfiable: after the claim of NAME A1
    for source 5 the list shows A1 under 5; a transmit list; a 126998 with the fields "a", "b", "M" -/
example : Shows [(⟨0, true, fun _ => 0⟩, ⟨pgnClaim, 5, [0xA1, 0, 0, 0, 0, 0, 0, 0]⟩)] 5 0xA1 ∧
    listType ⟨pgnList, 5, [0, 0x10, 0xF0, 0x01]⟩ = 0 ∧ pgnListOf ⟨pgnList, 5, [0, 0x10, 0xF0, 0x01]⟩ = [126992] ∧
    (parseConfSizes (Msg.text ⟨pgnConf, 5, [3, 1, 0x61, 3, 1, 0x62, 3, 1, 0x4D]⟩)).ok = true ∧
    Quiet [] 5 0xA1 :=
  ⟨by intro s0 hs0
      have : run State.init [((⟨0, true, fun _ => 0⟩ : Env), (⟨pgnClaim, 5, [0xA1, 0, 0, 0, 0, 0, 0, 0]⟩ : Msg))] =
          .ok s0 := hs0
      cases hs0
      exact ⟨_, _, rfl, rfl, rfl⟩,
   rfl, rfl, rfl, by intro em hem; cases hem⟩

/-- **C18, request pacing rule.** `ReadyForRequest…` of kind X (product information / configuration information /
PGN lists) holds iff X is still wanted (not loaded, resp. one of the two lists missing), fewer than 4 requests were
made, none was made yet or the 1000 ms period has elapsed since the last one (`N2kHasElapsed` on the 32-bit
clock), and the entry is older than the 1000 ms first-request delay. The value of the time stamp plays no role
while the counter is 0. (The three `for` loops of `HandleOther` send a request exactly for the first such entry -
`reqLoop`; timing properties over clock wrap-around are C13's.) -/
theorem C18_request_due (e : Env) (k : Kind) (d : Device) :
    ready e k d = true ↔
      ((match k with
        | .prod => d.prodLoaded = false
        | .conf => d.confLoaded = false
        | .pgns => d.tx = none ∨ d.rx = none) ∧
       nRequested k d < 4 ∧
       (nRequested k d = 0 ∨ N2k.Time.hasElapsed (lastRequested k d) 1000 (N2k.Time.millis32 e.now) = true) ∧
       N2k.Time.hasElapsed d.createTime 1000 (N2k.Time.millis32 e.now) = true) := by
  cases k <;>
    simp [ready, should, nRequested, lastRequested, Option.isNone_iff_eq_none, and_assoc]

/-- the NAME bits `FindDeviceByIDs` compares: manufacturer code = bits 21..31, unique number = bits 0..20 of the
    NAME; 0xffff / 0xffffffff (N/A) is a wildcard -/
def idsMatch (man uniq name : Nat) : Prop :=
  (man = 0xffff ∨ manufacturerCode name = man) ∧ (uniq = 0xffffffff ∨ uniqueNumber name = uniq)

/-- **C18, lookup by manufacturer code and unique number.** In every reachable state `FindDeviceByIDs` does not
fault; what it returns is an entry of the list (found under its own source) whose NAME matches, and it returns
nothing only if both arguments are N/A or no entry of the list matches. -/
theorem C18_find_by_ids (h : List (Env × Msg)) (man uniq : Nat) :
    ∃ s r, run State.init h = .ok s ∧ findByIDs s man uniq = .ok r ∧
      (∀ id, r = some id → ∃ d, s.heap id = some d ∧ findBySource s d.source = some id ∧ idsMatch man uniq d.name ∧
        ¬ (man = 0xffff ∧ uniq = 0xffffffff)) ∧
      (r = none → (man = 0xffff ∧ uniq = 0xffffffff) ∨
        ∀ src id d, findBySource s src = some id → s.heap id = some d → ¬ idsMatch man uniq d.name) := by
  obtain ⟨s, hs, hi⟩ := run_spec h Inv.init
  by_cases hna : man = 0xffff ∧ uniq = 0xffffffff
  · exact ⟨s, none, hs, by simp [findByIDs, hna], (by intro id h; cases h), fun _ => Or.inl hna⟩
  · obtain ⟨r, hr, h1, h2⟩ := findLoop_entries hi (fun d => (man == 0xffff || manufacturerCode d.name == man) &&
      (uniq == 0xffffffff || uniqueNumber d.name == uniq)) s.maxDevices 0
    refine ⟨s, r, hs, by simp only [findByIDs, hna, if_false]; exact hr, ?_, ?_⟩
    · intro id hid
      obtain ⟨d, hd, hf, hp, _, _⟩ := h1 id hid
      refine ⟨d, hd, hf, ?_, hna⟩
      simpa [idsMatch] using hp
    · intro hn
      refine Or.inr ?_
      intro src id d hf hd hm
      obtain ⟨_, _, hmax, _⟩ := devAt_src hi.st (show devAt s src = some d by
        unfold findBySource at hf
        by_cases h254 : src ≥ MaxBusDevices
        · simp [h254] at hf
        · simp only [h254, if_false] at hf; simp [devAt, hf, hd])
      have := h2 hn src id d (Nat.zero_le _) (by omega) hf hd
      have ht : ((man == 0xffff || manufacturerCode d.name == man) &&
          (uniq == 0xffffffff || uniqueNumber d.name == uniq)) = true := by simpa [idsMatch] using hm
      rw [ht] at this; cases this

/-- **C18, lookup by manufacturer code and product code.** `FindDeviceByProduct(man, code, src)` searches behind
`src` when `src` is below the highest source ever used + 1 (`maxDevices`), from the start otherwise (`src = 0xff`).
In every reachable state it does not fault; what it returns is an entry of the searched range whose NAME carries
`man` and whose stored product code is `code`; it returns nothing only if an argument is N/A or no entry of the
range matches. -/
theorem C18_find_by_product (h : List (Env × Msg)) (man code src : Nat) :
    ∃ s r, run State.init h = .ok s ∧ findByProduct s man code src = .ok r ∧
      (∀ id, r = some id → ∃ d, s.heap id = some d ∧ findBySource s d.source = some id ∧
        manufacturerCode d.name = man ∧ d.prod.productCode = code ∧ (src < s.maxDevices → src < d.source) ∧
        man ≠ 0xffff ∧ code ≠ 0xffff) ∧
      (r = none → man = 0xffff ∨ code = 0xffff ∨
        ∀ j id d, findBySource s j = some id → s.heap id = some d → (src < s.maxDevices → src < j) →
          ¬ (manufacturerCode d.name = man ∧ d.prod.productCode = code)) := by
  obtain ⟨s, hs, hi⟩ := run_spec h Inv.init
  by_cases hna : man = 0xffff ∨ code = 0xffff
  · refine ⟨s, none, hs, by simp [findByProduct, hna], (by intro id h; cases h), fun _ => ?_⟩
    rcases hna with h1 | h1
    · exact Or.inl h1
    · exact Or.inr (Or.inl h1)
  · obtain ⟨r, hr, h1, h2⟩ := findLoop_entries hi
      (fun d => manufacturerCode d.name == man && d.prod.productCode == code)
      (s.maxDevices - (if src < s.maxDevices then src + 1 else 0)) (if src < s.maxDevices then src + 1 else 0)
    refine ⟨s, r, hs, by simp only [findByProduct, hna, if_false]; exact hr, ?_, ?_⟩
    · intro id hid
      obtain ⟨d, hd, hf, hp, hlo, _⟩ := h1 id hid
      have hp' : manufacturerCode d.name = man ∧ d.prod.productCode = code := by simpa using hp
      refine ⟨d, hd, hf, hp'.1, hp'.2, ?_, fun h => hna (Or.inl h), fun h => hna (Or.inr h)⟩
      intro hlt
      simp only [hlt, if_true] at hlo
      omega
    · intro hn
      refine Or.inr (Or.inr ?_)
      intro j id d hf hd hrange hm
      obtain ⟨_, _, hmax, _⟩ := devAt_src hi.st (show devAt s j = some d by
        unfold findBySource at hf
        by_cases h254 : j ≥ MaxBusDevices
        · simp [h254] at hf
        · simp only [h254, if_false] at hf; simp [devAt, hf, hd])
      have hlo : (if src < s.maxDevices then src + 1 else 0) ≤ j := by
        by_cases hlt : src < s.maxDevices
        · simp only [hlt, if_true]; have := hrange hlt; omega
        · simp only [hlt, if_false]; omega
      have := h2 hn j id d hlo (by split <;> omega) hf hd
      simp [hm.1, hm.2] at this

end N2k.C18
