import N2k.Lemmas.GroupFunctionTop
/-! The delayed address claim (answer to a 60928 request, re-announcement after a 60928 command) is not lost by other
answers given inside its delay window and is sent by the first poll after it is due (C09). -/
namespace N2k.GF
open N2k.Send N2k.Time

/-- `FromNow(2)` is due at every poll from 3 ms later on (the 64-bit scheduler is strict), for both timer builds,
any clock value (wrap of the 32-bit clock and its disabled-sentinel included) -/
theorem fromNow2_due (f : Flavor) (now k : Nat) (hk : 3 ≤ k) (hk2 : k < 2147483648) (h64 : now + k < M64) :
    (Sched.fromNow f now 2).isTime f (now + k) = true := by
  cases f with
  | t64 =>
    simp only [Sched.fromNow, Sched.isTime, M64] at *
    simp; omega
  | t32 =>
    simp only [Sched.fromNow, Sched.isTime]
    split <;> (simp [millis32, sub32, disabledVal, M32, INT32_MAX] at *; omega)

theorem sendTo_attrs (g : GSt) (i : Nat) (m : Msg) : (sendTo g i m).attrs = g.attrs := rfl

theorem setHeartbeat_pendingClaim (g : GSt) (i iv o : Nat) :
    ((setHeartbeat g i iv o).attrs[i]?).map (·.pendingClaim) = (g.attrs[i]?).map (·.pendingClaim) := by
  unfold setHeartbeat
  by_cases h0 : iv = 0xffffffff ∧ o = 0xffff
  · rw [if_pos h0]
  · rw [if_neg h0]
    cases ha : g.attrs[i]? with
    | none => simp [ha]
    | some a =>
      have hlt : i < g.attrs.length := by
        rcases Nat.lt_or_ge i g.attrs.length with h | h
        · exact h
        · rw [List.getElem?_eq_none h] at ha; cases ha
      simp only []
      generalize (if iv = 0xffffffff then a.hbPeriod else if iv = 0xfffffffe then 60000 else iv) = iv'
      generalize (if o = 0xffffffff then a.hbOffset else o) = off'
      by_cases hz : iv' = 0
      · rw [if_pos hz]; simp [ha]
      · rw [if_neg hz]
        generalize (if (if iv' > 655320 then 655320 else iv') < 1000 then 1000 else (if iv' > 655320 then 655320 else iv')) = iv2
        by_cases hc : a.hbPeriod ≠ iv2 ∨ a.hbOffset ≠ off'
        · rw [if_pos hc]; simp only [setAttr]; rw [List.getElem?_set_self hlt]; rfl
        · rw [if_neg hc]; simp [ha]

/-- every answer other than those that (re)arm it leaves a device's pending address claim as it is -/
theorem perform_keeps_pendingClaim (g : GSt) (i : Nat) (act : Act) (h1 : act ≠ .serve60928)
    (h2 : ∀ dest data lo up si, act ≠ .cmd60928 dest data lo up si) :
    ((perform g i act).attrs[i]?).map (·.pendingClaim) = (g.attrs[i]?).map (·.pendingClaim) := by
  unfold perform
  split
  · rename_i d a hd ha
    cases act with
    | nothing => rfl
    | ack dest data => rfl
    | serve60928 => exact absurd rfl h1
    | servePgnList dest tx rx tp => simp only []; split <;> split <;> rfl
    | serveProduct dest tp => simp only []; split <;> rfl
    | serveConfig dest tp => rfl
    | serveHeartbeat iv o =>
      simp only []
      split
      · rw [sendTo_attrs]; exact setHeartbeat_pendingClaim g i iv o
      · exact setHeartbeat_pendingClaim g i iv o
    | cmd60928 dest data lo up si => exact absurd rfl (h2 dest data lo up si)
    | cmd126998 dest data ws => simp only []; rw [sendTo_attrs, (foldl_setDesc ws g).2.1]
  · rfl

/-- the poll after the delay: the claim with the device's current NAME is handed to `SendMsg` and the timer is disabled -/
theorem pendingStep_due (g : GSt) (i : Nat) (d : Dev) (a : Attr) (hd : g.s.devs[i]? = some d) (ha : g.attrs[i]? = some a)
    (hdue : a.pendingClaim.isTime g.s.flavor g.s.now = true) :
    (pendingStep g i).s = (sendMsg { g.s with devs := updDev g.s.devs i { d with name := a.name } }
        (claimMsg { d with name := a.name }) (some i)).1
    ∧ ((pendingStep g i).attrs[i]?).map (·.pendingClaim) = some (Sched.disabled g.s.flavor) := by
  have hlt : i < g.attrs.length := by
    rcases Nat.lt_or_ge i g.attrs.length with h | h
    · exact h
    · rw [List.getElem?_eq_none h] at ha; cases ha
  have hltd : i < g.s.devs.length := by
    rcases Nat.lt_or_ge i g.s.devs.length with h | h
    · exact h
    · rw [List.getElem?_eq_none h] at hd; cases hd
  have hsync : syncName g i = { g with s := { g.s with devs := updDev g.s.devs i { d with name := a.name } } } := by
    unfold syncName; rw [ha, hd]
  unfold pendingStep
  rw [hd, ha]
  simp only [hdue, if_true, hsync]
  have hd0 : (updDev g.s.devs i { d with name := a.name })[i]? = some { d with name := a.name } := by
    unfold updDev; rw [List.getElem?_set_self hltd]
  simp only [hd0, ha, setAttr]
  refine ⟨trivial, ?_⟩
  rw [List.getElem?_set_self hlt]; rfl

end N2k.GF
