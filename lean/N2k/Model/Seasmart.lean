/-!
# Model of `Seasmart.cpp` (C19): `N2kToSeasmart` and `SeasmartToN2k` over checked memory

Transcribes, statement by statement (core Lean only):

* `appendByte`, `append2Bytes`, `appendWord`, `nmea_compute_checksum`, `N2kToSeasmart`  → `exportM`
* `readNHexByte`, `SeasmartToN2k`                                                        → `importM`

**Memory.** An object is the list of its bytes (`Nat`, unsigned value of the `char`); every access outside
the list is `Fault.oob`. A read-only pointer `const char *s` is represented by *the bytes from `s` to the
end of its object*, so `s += k` is `s.drop k`, `s[i]` is `rd s i`, and a pointer that was moved past the
terminator is `[]` – any read through it faults. A NUL-terminated string with content `s` held in an
exact-size object is `s ++ [0]` (`importS`). The writable export buffer is a list plus an offset.

**libc.** `strlen`, `strncmp`, `strncpy` are modelled by their C semantics including the bytes they read
(`strlenL`, `strncmpEq`, `strncpy`); `isxdigit` in the "C" locale (bytes ≥ 0x80 are not digits – glibc's
table is defined for negative `char`s); `strtol(…, 16)` on a string of ≤ 8 hex digits is the plain
positional value (LP64 `long`, no overflow, no sign/prefix because every character passed `isxdigit`).

The import model is the code **with the three `fix:` commits of the C19 worktree** (prefix compared over
7 characters, the separators after PGN / time stamp / source checked before the pointer is advanced over
them, `'*'` checked before it is skipped); see `known_findings.d/C19.json`.
-/
namespace N2k.Seasmart

inductive Fault where
  | oob
  deriving Repr, DecidableEq

abbrev M := Except Fault

/-- `s[i]` through a read-only pointer (bytes from the pointer to the end of its object). -/
def rd (s : List Nat) (i : Nat) : M Nat :=
  match s[i]? with
  | some c => pure c
  | none => throw .oob

/-- `buf[i] = c` in a writable object. -/
def wr (buf : List Nat) (i c : Nat) : M (List Nat) :=
  if i < buf.length then pure (buf.set i c) else throw .oob

/-- consecutive stores `buf[i] = l[0]; buf[i+1] = l[1]; …` -/
def wrs (buf : List Nat) (i : Nat) : List Nat → M (List Nat)
  | [] => pure buf
  | c :: t => do
    let buf ← wr buf i c
    wrs buf (i + 1) t

/-! ## export -/

/-- `static const char *hex = "0123456789ABCDEF"` -/
def hexTab : List Nat := [48, 49, 50, 51, 52, 53, 54, 55, 56, 57, 65, 66, 67, 68, 69, 70]

def hexChar (n : Nat) : Nat := hexTab.getD n 0

/-- `"$PCDIN,"` -/
def pre7 : List Nat := [36, 80, 67, 68, 73, 78, 44]

/-- `appendByte(s, byte)`, `byte : uint8_t`: `s[0] = hex[byte >> 4]; s[1] = hex[byte & 0xf]` -/
def appendByte (buf : List Nat) (pos b : Nat) : M (List Nat) := do
  let buf ← wr buf pos (hexChar (b / 16))
  wr buf (pos + 1) (hexChar (b % 16))

/-- `append2Bytes(s, i)`, `i : uint16_t`: `appendByte(s, i >> 8); appendByte(s + 2, i & 0xff)` -/
def append2Bytes (buf : List Nat) (pos i : Nat) : M (List Nat) := do
  let buf ← appendByte buf pos (i / 256 % 256)
  appendByte buf (pos + 2) (i % 256)

/-- `appendWord(s, i)`, `i : uint32_t`: `append2Bytes(s, i >> 16); append2Bytes(s + 4, i & 0xffff)` -/
def appendWord (buf : List Nat) (pos i : Nat) : M (List Nat) := do
  let buf ← append2Bytes buf pos (i / 65536 % 65536)
  append2Bytes buf (pos + 4) (i % 65536)

/-- the loop of `nmea_compute_checksum`: `while (sentence[i] != '*') { checksum ^= sentence[i]; i++; }`
over the bytes from `sentence + i` to the end of the object; the result is returned as `uint8_t`. -/
def cksLoop : List Nat → Nat → M Nat
  | [], _ => throw .oob
  | c :: t, acc => if c = 42 then pure (acc % 256) else cksLoop t (acc ^^^ c)

/-- `nmea_compute_checksum(sentence)` (`i` starts at 1, skipping the `$`) -/
def nmeaChecksum (sentence : List Nat) : M Nat := cksLoop (sentence.drop 1) 0

/-- `for (i < DataLen) s += appendByte(s, msg.Data[i])` -/
def exportData (buf : List Nat) (pos : Nat) : List Nat → M (List Nat × Nat)
  | [] => pure (buf, pos)
  | b :: t => do
    let buf ← appendByte buf pos (b % 256)
    exportData buf (pos + 2) t

structure Msg where
  pgn : Nat
  src : Nat
  data : List Nat     -- `DataLen = data.length`

/-- `N2kToSeasmart(msg, timestamp, buffer, size)` with `size = buf.length` (exact-size object).
Returns the function result and the buffer afterwards. -/
def exportM (m : Msg) (ts : Nat) (buf : List Nat) : M (Nat × List Nat) :=
  let size := buf.length
  let need := 6 + 1 + 6 + 1 + 8 + 1 + 2 + 1 + m.data.length * 2 + 1 + 2 + 1
  if size < need then pure (0, buf) else do
  let buf ← wrs buf 0 (pre7 ++ [0])                       -- strcpy(s, "$PCDIN,")
  let s := 7
  let buf ← appendByte buf s (m.pgn / 65536 % 256)        -- (uint8_t)(msg.PGN >> 16)
  let s := s + 2
  let buf ← append2Bytes buf s (m.pgn % 65536)            -- msg.PGN & 0xffff
  let s := s + 4
  let buf ← wr buf s 44
  let s := s + 1
  let buf ← appendWord buf s (ts % 4294967296)
  let s := s + 8
  let buf ← wr buf s 44
  let s := s + 1
  let buf ← appendByte buf s (m.src % 256)
  let s := s + 2
  let buf ← wr buf s 44
  let s := s + 1
  let (buf, s) ← exportData buf s m.data
  let buf ← wr buf s 42
  let s := s + 1
  let ck ← nmeaChecksum buf
  let buf ← appendByte buf s ck
  let s := s + 2
  let buf ← wr buf s 0
  pure (s, buf)

/-! ## import -/

/-- `isxdigit` ("C" locale) -/
def isxdigit (c : Nat) : Bool :=
  (48 ≤ c && c ≤ 57) || (65 ≤ c && c ≤ 70) || (97 ≤ c && c ≤ 102)

def digitVal (c : Nat) : Nat :=
  if c ≤ 57 then c - 48 else if c ≤ 70 then c - 55 else c - 87

/-- `strtol(str, 0, 16)` of a string consisting of hex digits only -/
def strtol16 (cs : List Nat) : Nat := cs.foldl (fun a c => a * 16 + digitVal c) 0

/-- `strlen(s)` -/
def strlenL : List Nat → M Nat
  | [] => throw .oob
  | c :: t => if c = 0 then pure 0 else do
    let n ← strlenL t
    pure (n + 1)

/-- `strncmp(a, b, n) == 0` -/
def strncmpEq : List Nat → List Nat → Nat → M Bool
  | _, _, 0 => pure true
  | ca :: ta, cb :: tb, n + 1 =>
    if ca ≠ cb then pure false else if ca = 0 then pure true else strncmpEq ta tb n
  | _, _, _ + 1 => throw .oob

/-- `strncpy(dst, s, n)`: the `n` bytes stored into `dst` (copy up to the NUL, then zero padding) -/
def strncpy : List Nat → Nat → M (List Nat)
  | _, 0 => pure []
  | [], _ + 1 => throw .oob
  | c :: t, n + 1 =>
    if c = 0 then pure (List.replicate (n + 1) 0) else do
    let r ← strncpy t n
    pure (c :: r)

/-- `for (i = …; i < 2*n; i++) if (!isxdigit(s[i])) return false;` with `k` iterations left -/
def hexLoop (s : List Nat) : Nat → Nat → M Bool
  | 0, _ => pure true
  | k + 1, i => do
    let c ← rd s i
    if !isxdigit c then pure false else hexLoop s k (i + 1)

/-- `readNHexByte(s, n, value)`: `none` = returned false, `some value` = returned true.
`sNumber[sizeof-1] = 0` cuts the copy after `2n` characters, all of which are hex digits. -/
def readNHexByte (s : List Nat) (n : Nat) : M (Option Nat) := do
  let len ← strlenL s
  if len < 2 * n then pure none else do
  let ok ← hexLoop s (2 * n) 0
  if !ok then pure none else do
  let sNumber ← strncpy s (2 * n + 1)
  pure (some (strtol16 (sNumber.take (2 * n)) % 4294967296))

/-- `while (s[dataLen] != 0 && s[dataLen] != '*') dataLen++;` -/
def scanLoop : List Nat → M Nat
  | [] => throw .oob
  | c :: t => if c ≠ 0 ∧ c ≠ 42 then do
      let n ← scanLoop t
      pure (n + 1)
    else pure 0

/-- `for (i < dataLen) { if (!readNHexByte(s,1,byte)) return false; msg.Data[i] = byte; s += 2; }`
→ `none` (returned false) or the bytes stored and the pointer afterwards -/
def dataLoop : Nat → List Nat → M (Option (List Nat × List Nat))
  | 0, s => pure (some ([], s))
  | k + 1, s => do
    match ← readNHexByte s 1 with
    | none => pure none
    | some b =>
      match ← dataLoop k (s.drop 2) with
      | none => pure none
      | some (data, s') => pure (some (b % 256 :: data, s'))

structure Res where
  pgn : Nat
  ts : Nat
  src : Nat
  data : List Nat
  deriving Repr, DecidableEq

/-- `SeasmartToN2k(buffer, timestamp, msg)`; `none` = returned false. `MaxDataLen = 223`. -/
def importM (buffer : List Nat) : M (Option Res) := do
  let s := buffer
  let eq ← strncmpEq (pre7 ++ [0]) s 7                     -- fix: was 6
  if !eq then pure none else do
  let s := s.drop 7
  match ← readNHexByte s 1 with
  | none => pure none
  | some pgnHigh => do
  let s := s.drop 2
  match ← readNHexByte s 2 with
  | none => pure none
  | some pgnLow => do
  let c ← rd s 4                                           -- fix: separator checked
  if c ≠ 44 then pure none else do
  let s := s.drop 5
  let pgn := pgnHigh * 65536 + pgnLow                      -- (pgnHigh << 16) + pgnLow
  match ← readNHexByte s 4 with
  | none => pure none
  | some timestamp => do
  let c ← rd s 8                                           -- fix: separator checked
  if c ≠ 44 then pure none else do
  let s := s.drop 9
  match ← readNHexByte s 1 with
  | none => pure none
  | some source => do
  let c ← rd s 2                                           -- fix: separator checked
  if c ≠ 44 then pure none else do
  let s := s.drop 3
  let dataLen ← scanLoop s
  if dataLen % 2 ≠ 0 then pure none else do
  let dataLen := dataLen / 2
  if dataLen > 223 then pure none else do
  match ← dataLoop dataLen s with
  | none => pure none
  | some (data, s) => do
  let c ← rd s 0                                           -- fix: '*' checked before it is skipped
  if c ≠ 42 then pure none else do
  let s := s.drop 1
  match ← readNHexByte s 1 with
  | none => pure none
  | some checksum => do
  let ck ← nmeaChecksum buffer
  if checksum ≠ ck then pure none else
  pure (some ⟨pgn, timestamp, source % 256, data⟩)

/-- import of the NUL-terminated string with content `s`, held in an object of exactly
`s.length + 1` bytes. -/
def importS (s : List Nat) : M (Option Res) := importM (s ++ [0])

end N2k.Seasmart
