import N2k.Lemmas.GroupFunctionClaimRun
/-!
# C09 — Group-function (PGN 126208) requests and commands are answered and take effect

Model: `N2k.GF` (`Model/GroupFunction.lean`): `handleGroupFunction` (`HandleGroupFunction`) = for the addressed
device (or every device on a broadcast) `perform g i (decideAct g m i)`, where `decideAct` is the pure decision of
`RespondGroupFunction` (chain search, `Handle`, the default handler and the five dedicated handlers) and `perform`
hands the answer to `Send.sendMsg` / applies the command. A decision `Act.ack dest data` is *one* Acknowledge
group function with payload `data` (`C09_acknowledge_is_one_message`).

Requests "as transmitted" are stated with `Spec/GroupFunction.lean` (header + parameter pairs in the field widths
of the target PGN); `okNNNNN` says that a selection field equals the device's value *of that attribute*.

The model is of the repaired code (worktree commits: 126996 selection fields compared with their own attribute;
fixed underlying type for the enums read from the bus): `known_findings.d/C09.json`.
-/
namespace N2k.C09
open N2k.Send N2k.Time N2k.GF N2k.GFSpec

/-! ## replies are never answered, broadcast commands / reads / writes are ignored -/

/-- **C09_never_answer_replies.** A group function with code Acknowledge (2), Read Reply (4) or Write Reply (6)
produces no output and no state change — for every target PGN, destination, handler chain and content. -/
theorem C09_never_answer_replies (g : GSt) (m : Msg) (hfc : parseFc m = 2 ∨ parseFc m = 4 ∨ parseFc m = 6) :
    handleGroupFunction g m = g :=
  handleGroupFunction_nothing g m (fun h d a p c => handle_reply h d a p c m _ _ hfc)

example : ∃ m : Msg, parseFc m = 2 := ⟨ackMsg 5 (sendAckData 126996 0 0 2 0), by decide⟩

/-- **C09_broadcast_ignored.** A Command (1), Read (3) or Write (5) group function sent to the global address
produces no output and no state change. -/
theorem C09_broadcast_ignored (g : GSt) (m : Msg) (hfc : parseFc m = 1 ∨ parseFc m = 3 ∨ parseFc m = 5)
    (hdst : m.dst = 255) : handleGroupFunction g m = g :=
  handleGroupFunction_nothing g m (fun h d a p c => handle_broadcast h d a p c m _ _ hfc hdst)

example : ∃ m : Msg, parseFc m = 1 ∧ m.dst = 255 :=
  ⟨{ prio := 3, pgn := 126208, src := 7, dst := 255, len := 6, data := cmdHeader 60928 8 0 }, by decide⟩

/-- **C09_broadcast_never_acknowledged.** Whatever is sent to the global address (a broadcast Request included) is
never answered by an Acknowledge — for every function code, target PGN, chain and device. -/
theorem C09_broadcast_never_acknowledged (g : GSt) (m : Msg) (i : Nat) (hdst : m.dst = 255) :
    (decideAct g m i).ackData = none := by
  unfold decideAct
  split
  · exact respondChain_broadcast_noack _ _ _ _ m _ _ hdst g.chain
  · rfl

/-! ## an addressed request / command / read / write gets exactly one kind of answer -/

/-- **C09_addressed_answered.** A Request, Command, Read or Write addressed to device `i` (handler chain containing
a default handler, as `Open()` installs) is answered towards the requester by *either* the requested PGN (only for a
Request, only for the five served PGNs) *or* exactly one Acknowledge whose bytes 1..3 echo the PGN, byte 5 the number
of parameter pairs and which carries `⌈pairs/2⌉` parameter bytes; for the two supported commands the Acknowledge comes
with the command's effect. `handleGroupFunction` performs exactly this decision. -/
theorem C09_addressed_answered (g : GSt) (m : Msg) (i : Nat) (d : Dev) (a : Attr)
    (hd : g.s.devs[i]? = some d) (ha : g.attrs[i]? = some a)
    (hmode : g.s.claimMode = true) (hpgn : m.pgn = 126208) (hdev : findDev g.s.devs m.dst = some i)
    (hdst : m.dst ≠ 255) (hfc : parseFc m = 0 ∨ parseFc m = 1 ∨ parseFc m = 3 ∨ parseFc m = 5)
    (hchain : ∃ h ∈ g.chain, h.pgn = 0) :
    handleGroupFunction g m = perform g i (decideAct g m i)
    ∧ (decideAct g m i).answers m.src (parsePgn m) (pairsOf m) (parseFc m) := by
  refine ⟨handleGroupFunction_addressed g m i hmode hpgn hdst hdev, ?_⟩
  unfold decideAct
  rw [hd, ha]
  exact respondChain_answers d a _ g.conf m hdst hfc g.chain hchain

/-- an `Act.ack` is one message handed to `SendMsg`: PGN 126208, priority 3, to the requester, payload `data` -/
theorem C09_acknowledge_is_one_message (g : GSt) (i : Nat) (d : Dev) (a : Attr) (dest : Nat) (data : List Nat)
    (hd : g.s.devs[i]? = some d) (ha : g.attrs[i]? = some a) :
    perform g i (.ack dest data) = { g with s := (sendMsg g.s (ackMsg dest data) (some i)).1 }
    ∧ (ackMsg dest data).pgn = 126208 ∧ (ackMsg dest data).dst = dest ∧ (ackMsg dest data).prio = 3
    ∧ (ackMsg dest data).data = data ∧ (ackMsg dest data).len = data.length := by
  refine ⟨?_, rfl, rfl, rfl, rfl, rfl⟩
  unfold perform; rw [hd, ha]; rfl

/-- **C09_ack_length_safe.** For every message (payload bytes are bytes, so pair counts 0..255), every chain and
every device the Acknowledge a decision contains is at most 134 bytes — below the 223 byte payload capacity. -/
theorem C09_ack_length_safe (g : GSt) (m : Msg) (i : Nat) (hb : ∀ b ∈ m.data, b < 256) (data : List Nat)
    (h : (decideAct g m i).ackData = some data) : data.length ≤ 134 ∧ data.length ≤ 223 := by
  have : data.length ≤ 134 := by
    unfold decideAct at h
    split at h
    · exact respondChain_ack_len _ _ _ _ m hb g.chain h
    · simp [Act.ackData] at h
  omega

/-! ## non-vacuity: a two-device node -/

def demoProd : Prod := ⟨2101, 4711, [77, 49], [83, 87, 50], [86, 51], [83, 78, 52], 1, 2⟩
def demoAttr (u : Nat) : Attr :=
  { uniqueNumber := u, manufacturerCode := 2046, deviceInstance := 0x2b, deviceFunction := 130, deviceClass := 25,
    systemInstance := 5, industryGroup := 4, prod := some demoProd, pendingClaim := Sched.disabled .t64 }
def demoDev (src u : Nat) : Dev := { source := src, name := (demoAttr u).name, claimTimer := Sched.disabled .t64, endSource := src - 1 }
def demoSt : GSt :=
  { s := { flavor := .t64, now := 5000, listenOnly := false, claimMode := true, lists := {},
           devs := [demoDev 34 1001, demoDev 35 1002],
           ring := { n := 80, buf := fun _ => ⟨0, 0, []⟩, read := 0, write := 0 }, drv := { script := [], dflt := true, sent := [] } },
    attrs := [demoAttr 1001, demoAttr 1002], conf := ⟨[86], [100, 49], [100, 50]⟩ }
/-- request for product information filtered on the software code, addressed to device 1 (address 35) from 7 -/
def demoReq (sw : List Nat) : Msg :=
  { prio := 3, pgn := 126208, src := 7, dst := 35, len := 11 + 33,
    data := reqHeader 126996 0xffffffff 0xffff 1 ++ (Sel126996.softwareCode sw).enc }

example : demoSt.s.devs[1]? = some (demoDev 35 1002) ∧ demoSt.attrs[1]? = some (demoAttr 1002) ∧ demoSt.s.claimMode = true
    ∧ (demoReq [83, 87, 50]).pgn = 126208 ∧ findDev demoSt.s.devs (demoReq [83, 87, 50]).dst = some 1
    ∧ (demoReq [83, 87, 50]).dst ≠ 255 ∧ parseFc (demoReq [83, 87, 50]) = 0 ∧ (∃ h ∈ demoSt.chain, h.pgn = 0) := by
  refine ⟨rfl, rfl, rfl, rfl, by decide, by decide, by decide, ⟨.base 0, by decide, rfl⟩⟩

/-- the software code is compared with the software code: matching ⇒ product information, the model id ⇒ Acknowledge -/
example : decideAct demoSt (demoReq [83, 87, 50]) 1 = .serveProduct 7 false := by decide
example : decideAct demoSt (demoReq [77, 49]) 1 = .ack 7 [2, 0x14, 0xf0, 0x01, 0, 1, 0xf3] := by decide

/-! ## every selection field is compared with the device's value of that attribute -/

/-- **C09_match_all_fields (PGN 60928).** A well-formed addressed request for the ISO address claim is served
(delayed address claim) iff the transmission interval/offset are acceptable and EVERY selection field — unique number,
manufacturer code, device instance lower/upper, function, class, system instance, industry group — equals the
device's value of that attribute (`ok60928`; the reserved and self-configurable fields are not compared);
otherwise it is answered by one Acknowledge. -/
theorem C09_match_all_fields_60928 (a : Attr) (m : Msg) (iv off : Nat) (sels : List Sel60928) (junk : List Nat)
    (hd : m.data = reqHeader 60928 iv off sels.length ++ sels.flatMap Sel60928.enc ++ junk)
    (hl : m.len = 11 + (sels.flatMap Sel60928.enc).length) (hdst : m.dst ≠ 255)
    (hiv : iv < 4294967296) (hoff : off < 65536) :
    (req60928 a m = .serve60928 ↔ (tpErrDefault iv off = 0 ∧ ∀ s ∈ sels, ok60928 a s = true))
    ∧ (req60928 a m ≠ .serve60928 → ∃ data, req60928 a m = .ack m.src data ∧ IsAckFor data 60928 sels.length) := by
  refine ⟨req60928_served_iff a m iv off sels junk hd hl hdst hiv hoff, fun hne => ?_⟩
  have hp : (reqParams m).2.2 = sels.length := by rw [reqParams_header hd hl hiv hoff]
  rcases req60928_answers a m hdst with ⟨data, h1, h2⟩ | ⟨_, hs⟩ | ⟨hc, _⟩ | ⟨hc, _⟩
  · exact ⟨data, h1, hp ▸ h2⟩
  · exfalso; apply hne; cases hq : req60928 a m <;> simp [hq, Act.serves] at hs ⊢
  · cases hc
  · cases hc

example : ok60928 (demoAttr 1001) (.instanceUpper 0xe5) = true ∧ ok60928 (demoAttr 1001) (.instanceLower 0xfb) = true
    ∧ ok60928 (demoAttr 1001) (.instanceLower 2) = false := by decide

/-- **C09_match_all_fields (PGN 126464).** The PGN list request is served iff every selector is "transmit" or "receive". -/
theorem C09_match_all_fields_126464 (m : Msg) (iv off : Nat) (sels : List Sel126464) (junk : List Nat)
    (hd : m.data = reqHeader 126464 iv off sels.length ++ sels.flatMap Sel126464.enc ++ junk)
    (hl : m.len = 11 + (sels.flatMap Sel126464.enc).length) (hdst : m.dst ≠ 255)
    (hiv : iv < 4294967296) (hoff : off < 65536) :
    (∃ tx rx, req126464 m = .servePgnList m.src tx rx m.tp) ↔ (tpErrDefault iv off = 0 ∧ ∀ s ∈ sels, ok126464 s = true) :=
  req126464_served_iff m iv off sels junk hd hl hdst hiv hoff

/-- **C09_match_all_fields (PGN 126996).** A well-formed addressed request for product information is served iff the
timing is acceptable and EVERY selection field equals the device's value of THAT attribute: database version, product
code, model id, software version code, model version, model serial code, certification level, load equivalency
(`ok126996` compares field 4 with `swCode`, field 5 with `modelVersion`, field 6 with `serialCode`). -/
theorem C09_match_all_fields_126996 (p : Prod) (m : Msg) (iv off : Nat) (sels : List Sel126996) (junk : List Nat)
    (hd : m.data = reqHeader 126996 iv off sels.length ++ sels.flatMap Sel126996.enc ++ junk)
    (hl : m.len = 11 + (sels.flatMap Sel126996.enc).length) (hdst : m.dst ≠ 255)
    (hiv : iv < 4294967296) (hoff : off < 65536) (hwf : ∀ s ∈ sels, s.wf) :
    (req126996 p m = .serveProduct m.src m.tp ↔ (tpErrDefault iv off = 0 ∧ ∀ s ∈ sels, ok126996 p s = true))
    ∧ (req126996 p m ≠ .serveProduct m.src m.tp → ∃ data, req126996 p m = .ack m.src data ∧ IsAckFor data 126996 sels.length) := by
  refine ⟨req126996_served_iff p m iv off sels junk hd hl hdst hiv hoff hwf, fun hne => ?_⟩
  have hp : (reqParams m).2.2 = sels.length := by rw [reqParams_header hd hl hiv hoff]
  have hdest : answerDest m = m.src := by simp [answerDest, hdst]
  have hshape := (reqRun_shape (step126996 p) 126996 m hdst).isAckFor
  rw [hp] at hshape
  unfold req126996 at hne ⊢
  simp only [hdest] at hne ⊢
  by_cases hb : (reqRun (step126996 p) 126996 m).1 = true
  · rw [if_pos hb] at hne; exact absurd rfl hne
  · rw [if_neg hb, if_neg hdst]; exact ⟨_, rfl, hshape⟩

example : (∀ s ∈ [Sel126996.softwareCode [83, 87, 50], .productCode 0x67 0x12], s.wf)
    ∧ ok126996 demoProd (.softwareCode [83, 87, 50]) = true ∧ ok126996 demoProd (.softwareCode [77, 49]) = false
    ∧ ok126996 demoProd (.productCode 0x67 0x12) = true := by
  refine ⟨?_, by decide, by decide, by decide⟩
  intro s hs; simp at hs; rcases hs with rfl | rfl
  · exact ⟨by decide, by decide⟩
  · trivial

/-- **C09_match_all_fields (PGN 126998).** A well-formed addressed request for configuration information is served iff
the timing is acceptable and every selection string equals the node's installation description 1 / 2 / manufacturer
information respectively. -/
theorem C09_match_all_fields_126998 (c : Conf) (m : Msg) (iv off : Nat) (sels : List Sel126998) (junk : List Nat)
    (hd : m.data = reqHeader 126998 iv off sels.length ++ sels.flatMap Sel126998.enc ++ junk)
    (hl : m.len = 11 + (sels.flatMap Sel126998.enc).length) (hdst : m.dst ≠ 255)
    (hiv : iv < 4294967296) (hoff : off < 65536) (hwf : ∀ s ∈ sels, s.wf) :
    req126998 c m = .serveConfig m.src m.tp ↔ (tpErrDefault iv off = 0 ∧ ∀ s ∈ sels, ok126998 c s = true) :=
  req126998_served_iff c m iv off sels junk hd hl hdst hiv hoff hwf

/-- **C09_match_all_fields (unknown field).** For each dedicated handler: `sels` well-formed pairs, then a field number
the PGN does not have, then `k` more announced pairs ⇒ the request is not served; the Acknowledge carries, after the
codes of the well-formed pairs, error code 1 (invalid request or command parameter field) for the unknown field and
2 (temporarily unable to comply) for each of the `k` remaining pairs. Stated for the common loop (`reqRun`), and
instantiated for the four handlers through `stepNNNNN_unknown`. -/
theorem C09_unknown_field_60928 (a : Attr) (m : Msg) (iv off u k : Nat) (sels : List Sel60928) (rest junk : List Nat)
    (hu : u = 0 ∨ 10 < u)
    (hd : m.data = reqHeader 60928 iv off (sels.length + (1 + k)) ++ (sels.flatMap Sel60928.enc ++ u :: rest) ++ junk)
    (hl : m.len = 11 + (sels.flatMap Sel60928.enc ++ u :: rest).length) (hdst : m.dst ≠ 255)
    (hiv : iv < 4294967296) (hoff : off < 65536) :
    req60928 a m = .ack m.src (ackParams 2 k (sels.length + 1)
      (addAckParam (reqLoop (step60928 a) m false sels.length 0 11 true false 0xff
        (startAck 60928 0 (tpErrDefault iv off) (sels.length + (1 + k)))).2.2 sels.length 1)) := by
  obtain ⟨h1, h2⟩ := reqRun_unknown (step60928 a) 60928 m Sel60928.enc (ok60928 a) (fun _ => True)
    (fun idx s _ hat mf aux => step60928_sel a m idx s hat mf aux) 60928 iv off u k sels rest junk
    (fun idx mf aux h => step60928_unknown a m u hu idx mf aux h) hd hl hdst hiv hoff (fun _ _ => trivial)
  unfold req60928
  simp only [h1, h2, if_neg hdst]
  simp

theorem C09_unknown_field_126996 (p : Prod) (m : Msg) (iv off u k : Nat) (sels : List Sel126996) (rest junk : List Nat)
    (hu : u = 0 ∨ 8 < u) (hwf : ∀ s ∈ sels, s.wf)
    (hd : m.data = reqHeader 126996 iv off (sels.length + (1 + k)) ++ (sels.flatMap Sel126996.enc ++ u :: rest) ++ junk)
    (hl : m.len = 11 + (sels.flatMap Sel126996.enc ++ u :: rest).length) (hdst : m.dst ≠ 255)
    (hiv : iv < 4294967296) (hoff : off < 65536) :
    req126996 p m = .ack m.src (ackParams 2 k (sels.length + 1)
      (addAckParam (reqLoop (step126996 p) m false sels.length 0 11 true false 0xff
        (startAck 126996 0 (tpErrDefault iv off) (sels.length + (1 + k)))).2.2 sels.length 1)) := by
  obtain ⟨h1, h2⟩ := reqRun_unknown (step126996 p) 126996 m Sel126996.enc (ok126996 p) Sel126996.wf
    (fun idx s hw hat mf aux => step126996_sel p m idx s hw hat mf aux) 126996 iv off u k sels rest junk
    (fun idx mf aux h => step126996_unknown p m u hu idx mf aux h) hd hl hdst hiv hoff hwf
  unfold req126996
  simp only [h1, h2, if_neg hdst]
  simp

theorem C09_unknown_field_126998 (c : Conf) (m : Msg) (iv off u k : Nat) (sels : List Sel126998) (rest junk : List Nat)
    (hu : u = 0 ∨ 3 < u) (hwf : ∀ s ∈ sels, s.wf)
    (hd : m.data = reqHeader 126998 iv off (sels.length + (1 + k)) ++ (sels.flatMap Sel126998.enc ++ u :: rest) ++ junk)
    (hl : m.len = 11 + (sels.flatMap Sel126998.enc ++ u :: rest).length) (hdst : m.dst ≠ 255)
    (hiv : iv < 4294967296) (hoff : off < 65536) :
    req126998 c m = .ack m.src (ackParams 2 k (sels.length + 1)
      (addAckParam (reqLoop (step126998 c) m false sels.length 0 11 true false 0xff
        (startAck 126998 0 (tpErrDefault iv off) (sels.length + (1 + k)))).2.2 sels.length 1)) := by
  obtain ⟨h1, h2⟩ := reqRun_unknown (step126998 c) 126998 m Sel126998.enc (ok126998 c) Sel126998.wf
    (fun idx s hw hat mf aux => step126998_sel c m idx s hw hat mf aux) 126998 iv off u k sels rest junk
    (fun idx mf aux h => step126998_unknown c m u hu idx mf aux h) hd hl hdst hiv hoff hwf
  unfold req126998
  simp only [h1, h2, if_neg hdst]
  simp

theorem C09_unknown_field_126464 (m : Msg) (iv off u k : Nat) (sels : List Sel126464) (rest junk : List Nat)
    (hu : u ≠ 1)
    (hd : m.data = reqHeader 126464 iv off (sels.length + (1 + k)) ++ (sels.flatMap Sel126464.enc ++ u :: rest) ++ junk)
    (hl : m.len = 11 + (sels.flatMap Sel126464.enc ++ u :: rest).length) (hdst : m.dst ≠ 255)
    (hiv : iv < 4294967296) (hoff : off < 65536) :
    req126464 m = .ack m.src (ackParams 2 k (sels.length + 1)
      (addAckParam (reqLoop step126464 m false sels.length 0 11 true false 0xff
        (startAck 126464 0 (tpErrDefault iv off) (sels.length + (1 + k)))).2.2 sels.length 1)) := by
  obtain ⟨h1, h2⟩ := reqRun_unknown step126464 126464 m Sel126464.enc ok126464 (fun _ => True)
    (fun idx s _ hat mf aux => step126464_sel m idx s hat mf aux) 126464 iv off u k sels rest junk
    (fun idx mf aux h => step126464_unknown m u hu idx mf aux h) hd hl hdst hiv hoff (fun _ _ => trivial)
  unfold req126464
  simp only [h1, h2, if_neg hdst]
  simp

/-- an unknown field alone: error code 1 in the first parameter nibble -/
example : decideAct demoSt { (demoReq []) with len := 13, data := reqHeader 126996 0xffffffff 0xffff 2 ++ [9, 0] } 1
    = .ack 7 [2, 0x14, 0xf0, 0x01, 0, 2, 0x21] := by decide

/-! ## supported commands take effect -/

/-- **C09_commands_take_effect (PGN 60928).** A well-formed Command for PGN 60928 (any of device instance lower,
device instance upper, system instance, in any number and order) addressed to device `i` is answered by one
Acknowledge echoing PGN and pair count, and afterwards the device instance's lower 3 bits, upper 5 bits and the system
instance hold the last commanded values masked to 3 / 5 / 4 bits (uncommanded ones keep their value); the
device-information-changed flag is latched iff device instance or system instance changed; installation description
flag, configuration strings and the other devices are untouched. -/
theorem C09_commands_take_effect_60928 (g : GSt) (m : Msg) (i : Nat) (d : Dev) (a : Attr) (prio : Nat)
    (cmds : List Cmd60928) (junk : List Nat)
    (hd : g.s.devs[i]? = some d) (ha : g.attrs[i]? = some a) (hdi : a.deviceInstance < 256)
    (hm : m.data = cmdHeader 60928 prio cmds.length ++ cmds.flatMap Cmd60928.enc ++ junk)
    (hl : m.len = 6 + (cmds.flatMap Cmd60928.enc).length) (hp : prio < 16) :
    let v := cmdVals cmds (0xff, 0xff, 0xff)
    ∃ data a', cmd60928 m = .cmd60928 m.src data v.1 v.2.1 v.2.2 ∧ IsAckFor data 60928 cmds.length
      ∧ (perform g i (cmd60928 m)).attrs[i]? = some a'
      ∧ a'.lower = (if v.1 = 0xff then a.lower else v.1)
      ∧ a'.upper = (if v.2.1 = 0xff then a.upper else v.2.1)
      ∧ a'.systemInstance = (if v.2.2 ≠ 0xff ∧ a.systemInstance ≠ v.2.2 then v.2.2 &&& 0x0f else a.systemInstance)
      ∧ a'.uniqueNumber = a.uniqueNumber ∧ a'.manufacturerCode = a.manufacturerCode ∧ a'.deviceFunction = a.deviceFunction
      ∧ a'.deviceClass = a.deviceClass ∧ a'.industryGroup = a.industryGroup ∧ a'.hbPeriod = a.hbPeriod ∧ a'.hbOffset = a.hbOffset
      ∧ (perform g i (cmd60928 m)).devInfoChanged =
          (g.devInfoChanged || decide (a.deviceInstance ≠ a'.deviceInstance) || decide (v.2.2 ≠ 0xff ∧ a.systemInstance ≠ v.2.2))
      ∧ (perform g i (cmd60928 m)).instDescChanged = g.instDescChanged ∧ (perform g i (cmd60928 m)).conf = g.conf
      ∧ ∀ j, j ≠ i → (perform g i (cmd60928 m)).attrs[j]? = g.attrs[j]? := by
  intro v
  obtain ⟨data, hc, hack⟩ := cmd60928_wellformed m prio cmds junk hm hl hp
  have hbounds : (v.1 = 0xff ∨ v.1 < 8) ∧ (v.2.1 = 0xff ∨ v.2.1 < 32) := by
    have : ∀ (cs : List Cmd60928) (w : Nat × Nat × Nat), (w.1 = 0xff ∨ w.1 < 8) → (w.2.1 = 0xff ∨ w.2.1 < 32) →
        ((cmdVals cs w).1 = 0xff ∨ (cmdVals cs w).1 < 8) ∧ ((cmdVals cs w).2.1 = 0xff ∨ (cmdVals cs w).2.1 < 32) := by
      intro cs
      induction cs with
      | nil => intro w h1 h2; exact ⟨h1, h2⟩
      | cons c r ih =>
        intro w h1 h2
        cases c with
        | instanceLower b => exact ih (b % 8, w.2.1, w.2.2) (Or.inr (Nat.mod_lt _ (by decide))) h2
        | instanceUpper b => exact ih (w.1, b % 32, w.2.2) h1 (Or.inr (Nat.mod_lt _ (by decide)))
        | systemInstance b => exact ih (w.1, w.2.1, b % 16) h1 h2
    exact this cmds (0xff, 0xff, 0xff) (Or.inl rfl) (Or.inl rfl)
  -- the state after the Acknowledge has the same attributes
  have hperf : perform g i (cmd60928 m) = setInstances (sendTo g i (ackMsg m.src data)) i v.1 v.2.1 v.2.2 := by
    rw [hc]; unfold perform; rw [hd, ha]
  have ha1 : (sendTo g i (ackMsg m.src data)).attrs[i]? = some a := ha
  obtain ⟨⟨pc, hattr⟩, hflag, hinst, hconf, hother⟩ := setInstances_spec ha1 v.1 v.2.1 v.2.2
  obtain ⟨b1, b2, _⟩ := newDI_bits a.deviceInstance v.1 v.2.1 hdi hbounds.1 hbounds.2
  rw [hperf]
  refine ⟨data, _, hc, hack, hattr, ?_, ?_, ?_, rfl, rfl, rfl, rfl, rfl, rfl, rfl, ?_, hinst, hconf, hother⟩
  · simpa [Attr.lower, instAttr] using b1
  · simpa [Attr.upper, instAttr] using b2
  · simp [instAttr]
  · rw [hflag]; rfl

example : cmdVals [.instanceLower 0xfd, .systemInstance 0x3c, .instanceLower 2] (0xff, 0xff, 0xff) = (2, 0xff, 12) := by decide

/-- **C09_commands_take_effect (PGN 126998).** A well-formed Command for PGN 126998 carrying installation description
1 and/or 2 (ASCII variable strings up to 70 characters) is answered by one Acknowledge, stores the descriptions (the
last one of each wins), latches the installation-description-changed flag, leaves the device attributes alone, and a
following request for configuration information (no selection field) addressed to the device is answered by PGN 126998
whose payload carries exactly the stored descriptions (for 7-bit strings: the three variable strings in order). -/
theorem C09_commands_take_effect_126998 (g : GSt) (m : Msg) (i : Nat) (d : Dev) (a : Attr) (prio : Nat)
    (cmds : List Cmd126998) (junk : List Nat)
    (hd : g.s.devs[i]? = some d) (ha : g.attrs[i]? = some a)
    (hm : m.data = cmdHeader 126998 prio cmds.length ++ cmds.flatMap Cmd126998.enc ++ junk)
    (hl : m.len = 6 + (cmds.flatMap Cmd126998.enc).length) (hp : prio < 16) (hwf : ∀ c ∈ cmds, c.wf) (hne : cmds ≠ []) :
    ∃ data, cmd126998 m = .cmd126998 m.src data (descWrites cmds) ∧ IsAckFor data 126998 cmds.length
      ∧ (perform g i (cmd126998 m)).conf = (descWrites cmds).foldl Conf.write g.conf
      ∧ (perform g i (cmd126998 m)).instDescChanged = true
      ∧ (perform g i (cmd126998 m)).attrs = g.attrs ∧ (perform g i (cmd126998 m)).devInfoChanged = g.devInfoChanged
      ∧ ∀ (q : Msg) (qjunk : List Nat), q.data = reqHeader 126998 0xffffffff 0xffff 0 ++ [] ++ qjunk → q.len = 11 → q.dst ≠ 255 →
          req126998 (perform g i (cmd126998 m)).conf q = .serveConfig q.src q.tp := by
  obtain ⟨data, hc, hack⟩ := cmd126998_wellformed m prio cmds junk hm hl hp hwf
  have hperf : perform g i (cmd126998 m) = sendTo ((descWrites cmds).foldl setDesc g) i (ackMsg m.src data) := by
    rw [hc]; unfold perform; rw [hd, ha]
  obtain ⟨f1, f2, _, f4, _, f6⟩ := foldl_setDesc (descWrites cmds) g
  have hw : (descWrites cmds).isEmpty = false := by
    cases cmds with
    | nil => exact absurd rfl hne
    | cons c r => cases c <;> rfl
  rw [hperf]
  refine ⟨data, hc, hack, f1, by simp [sendTo, f6, hw], f2, f4, ?_⟩
  intro q qjunk hq hql hqd
  have := req126998_served_iff (sendTo ((descWrites cmds).foldl setDesc g) i (ackMsg m.src data)).conf q 0xffffffff 0xffff [] qjunk
    (by simpa using hq) (by simpa using hql) hqd (by decide) (by decide) (fun _ h => nomatch h)
  exact this.mpr ⟨by decide, fun _ h => nomatch h⟩

/-- with 7-bit strings the configuration information payload is the three variable strings: what was commanded is
what a reader decodes -/
theorem C09_configuration_information_payload (c : Conf) (h1 : Ascii c.d1) (h2 : Ascii c.d2) (h3 : Ascii c.man)
    (l1 : c.d1.length ≤ 70) (l2 : c.d2.length ≤ 70) (l3 : c.man.length ≤ 70) :
    confData c = varStr c.d1 ++ varStr c.d2 ++ varStr c.man := confData_ascii c h1 h2 h3 l1 l2 l3

/-- a stored description written by a well-formed command is the commanded string -/
theorem C09_description_stored (c : Conf) (s : List Nat) (hs : StrOK s 70) :
    (Conf.write c (1, s)).d1 = s ∧ (Conf.write c (2, s)).d2 = s ∧ (Conf.write c (1, s)).d2 = c.d2 ∧ (Conf.write c (2, s)).d1 = c.d1 := by
  simp [Conf.write, take_cstr_ok hs]

example : (∀ c ∈ [Cmd126998.installationDescription1 [72, 105]], c.wf) ∧ [Cmd126998.installationDescription1 [72, 105]] ≠ [] :=
  ⟨fun c hc => by simp at hc; subst hc; exact ⟨by decide, by decide⟩, by simp⟩

/-- **C09_commands_take_effect (heartbeat, within the limits).** A Request for PGN 126993 without parameter pairs,
interval 1000..60000 ms and offset "no change" or ≤ 6000 (×10 ms): the device's heartbeat interval becomes the
requested one, the offset becomes `offset*10` ms (kept for "no change"/0), a change is latched for the application,
and the answer is one heartbeat message. -/
theorem C09_commands_take_effect_126993 (g : GSt) (m : Msg) (i : Nat) (d : Dev) (a : Attr) (iv off : Nat) (junk : List Nat)
    (hd : g.s.devs[i]? = some d) (ha : g.attrs[i]? = some a)
    (hm : m.data = reqHeader 126993 iv off 0 ++ [] ++ junk) (hl : m.len = 11 + ([] : List Nat).length)
    (hoff : off < 65536) (h : hbWithin iv off) :
    let o := if off = 0xffff ∨ off = 0 then 0xffffffff else off * 10
    let a' := { a with hbPeriod := iv, hbOffset := if o = 0xffffffff then a.hbOffset else o }
    req126993 d m = .serveHeartbeat iv o
    ∧ perform g i (req126993 d m) = sendTo (setHeartbeat g i iv o) i (hbMsg d iv)
    ∧ (perform g i (req126993 d m)).attrs[i]? = some a'
    ∧ (perform g i (req126993 d m)).devInfoChanged = (g.devInfoChanged || decide (a.hbPeriod ≠ iv ∨ a.hbOffset ≠ a'.hbOffset)) := by
  intro o a'
  have hr := req126993_within d m iv off junk hm hl hoff h
  obtain ⟨s1, s2, _, _⟩ := setHeartbeat_spec ha iv o h.1 h.2.1
  have hperf : perform g i (req126993 d m) = sendTo (setHeartbeat g i iv o) i (hbMsg d iv) := by
    rw [hr]; unfold perform; rw [hd, ha]
    simp only [show (if off = 0xffff ∨ off = 0 then 0xffffffff else off * 10) = o from rfl, s1]
  refine ⟨hr, hperf, ?_, ?_⟩
  · rw [hperf]; exact s1
  · rw [hperf]; exact s2

/-- **C09_commands_take_effect (heartbeat, outside the limits).** Interval 0 (turn off), below 1000 ms, above 60000 ms
(other than the codes "no change"/"restore default"), or an offset above 6000 (other than "no change"): refused with one
Acknowledge (transmission interval error), and interval, offset, flags and descriptions stay as they were. -/
theorem C09_heartbeat_refused_outside_limits (g : GSt) (m : Msg) (i : Nat) (d : Dev) (a : Attr) (iv off : Nat) (junk : List Nat)
    (hd : g.s.devs[i]? = some d) (ha : g.attrs[i]? = some a)
    (hm : m.data = reqHeader 126993 iv off 0 ++ [] ++ junk) (hl : m.len = 11 + ([] : List Nat).length)
    (hdst : m.dst ≠ 255) (hiv : iv < 4294967296) (hoff : off < 65536) (h : hbOutside iv off) :
    req126993 d m = .ack m.src (sendAckData 126993 0 1 0 0)
    ∧ (perform g i (req126993 d m)).attrs = g.attrs ∧ (perform g i (req126993 d m)).conf = g.conf
    ∧ (perform g i (req126993 d m)).devInfoChanged = g.devInfoChanged
    ∧ (perform g i (req126993 d m)).instDescChanged = g.instDescChanged := by
  have hr := req126993_outside d m iv off junk hm hl hdst hiv hoff h
  rw [hr]
  refine ⟨rfl, ?_, ?_, ?_, ?_⟩ <;> (unfold perform; rw [hd, ha]; rfl)

example : hbWithin 1000 0xffff ∧ hbWithin 60000 6000 ∧ hbOutside 0 0xffff ∧ hbOutside 999 0xffff ∧ hbOutside 60001 0xffff
    ∧ hbOutside 5000 6001 := by
  refine ⟨?_, ?_, ?_, ?_, ?_, ?_⟩ <;> simp [hbWithin, hbOutside]

/-! ## the delayed answer is delivered -/

/-- **C09_delayed_claim_armed.** Serving a 60928 request arms the device's delayed address claim 2 ms from now. -/
theorem C09_delayed_claim_armed (g : GSt) (i : Nat) (d : Dev) (a : Attr) (hd : g.s.devs[i]? = some d) (ha : g.attrs[i]? = some a) :
    (perform g i .serve60928).attrs[i]? = some { a with pendingClaim := Sched.fromNow g.s.flavor g.s.now 2 } := by
  unfold perform; rw [hd, ha]; exact setPendingClaim_self ha 2

/-- **C09_delayed_claim_not_lost.** Whatever else the device answers or is commanded inside the delay window (an
Acknowledge, PGN lists, product or configuration information, a heartbeat change, an installation description) leaves the
armed address claim armed; only another 60928 request / command re-arms it. -/
theorem C09_delayed_claim_not_lost (g : GSt) (i : Nat) (act : Act) (h1 : act ≠ .serve60928)
    (h2 : ∀ dest data lo up si, act ≠ .cmd60928 dest data lo up si) :
    ((perform g i act).attrs[i]?).map (·.pendingClaim) = (g.attrs[i]?).map (·.pendingClaim) :=
  perform_keeps_pendingClaim g i act h1 h2

/-- **C09_delayed_claim_sent.** A claim armed at `t0` is sent by the device's pending-information step of any poll at
`t0+3 ms` or later (both timer builds, any clock origin, up to 2^31 ms later): one PGN 60928 message with the device's
current NAME is handed to `SendMsg`, and the timer is disabled (so it is sent once). -/
theorem C09_delayed_claim_sent (g : GSt) (i : Nat) (d : Dev) (a : Attr) (t0 k : Nat)
    (hd : g.s.devs[i]? = some d) (ha : g.attrs[i]? = some a)
    (harm : a.pendingClaim = Sched.fromNow g.s.flavor t0 2) (hnow : g.s.now = t0 + k)
    (hk : 3 ≤ k) (hk2 : k < 2147483648) (h64 : t0 + k < M64) :
    (pendingStep g i).s = (sendMsg { g.s with devs := updDev g.s.devs i { d with name := a.name } }
        (claimMsg { d with name := a.name }) (some i)).1
    ∧ ((pendingStep g i).attrs[i]?).map (·.pendingClaim) = some (Sched.disabled g.s.flavor) := by
  apply pendingStep_due g i d a hd ha
  rw [harm, hnow]; exact fromNow2_due _ t0 k hk hk2 h64

example : ∃ act : Act, act ≠ .serve60928 ∧ ∀ dest data lo up si, act ≠ .cmd60928 dest data lo up si :=
  ⟨.serveProduct 7 false, by simp, by simp⟩
/-- value byte 0xff for a commanded instance field is the value "all bits set", not "not commanded" -/
example : cmdVals [.instanceLower 0xff] (0xff, 0xff, 0xff) = (7, 0xff, 0xff) ∧ cmdVals [.instanceUpper 0xff] (0xff, 0xff, 0xff) = (0xff, 31, 0xff) := by decide

/-! ## histories -/

/-- **C09_history_answers.** From any reachable state (`Inv`: claiming node, chain with a default handler, one attribute
record per device) and after ANY history `pre` of received group functions (any function code, PGN, destination, length),
polls and clock advances, the next received message `m` is treated as the property says:
(a) an Acknowledge / Read Reply / Write Reply, or a broadcast Command / Read / Write, changes nothing at all;
(b) nothing sent to the global address is ever acknowledged by any device;
(c) a Request / Command / Read / Write addressed to device `i` makes exactly one decision, by that device, and it is an
answer: the requested PGN, or exactly one Acknowledge echoing PGN and pair count (with the supported command's effect). -/
theorem C09_history_answers (g : GSt) (hinv : Inv g) (pre : List Ev) (m : Msg) :
    ((parseFc m = 2 ∨ parseFc m = 4 ∨ parseFc m = 6) → stepEv (run g pre) (.rx m) = run g pre)
    ∧ ((parseFc m = 1 ∨ parseFc m = 3 ∨ parseFc m = 5) → m.dst = 255 → stepEv (run g pre) (.rx m) = run g pre)
    ∧ (m.dst = 255 → ∀ i, (decideAct (run g pre) m i).ackData = none)
    ∧ (∀ i, m.pgn = 126208 → m.dst ≠ 255 → findDev (run g pre).s.devs m.dst = some i →
        (parseFc m = 0 ∨ parseFc m = 1 ∨ parseFc m = 3 ∨ parseFc m = 5) →
        evLog (run g pre) (.rx m) = [(i, decideAct (run g pre) m i)]
        ∧ (decideAct (run g pre) m i).answers m.src (parsePgn m) (pairsOf m) (parseFc m)) := by
  have hk := run_inv g hinv pre
  refine ⟨fun h => C09_never_answer_replies _ m h, fun h hd => C09_broadcast_ignored _ m h hd,
    fun hd i => C09_broadcast_never_acknowledged _ m i hd, ?_⟩
  intro i hpgn hdst hdev hfc
  obtain ⟨k1, k2, k3⟩ := hk
  have hlt := findDev_lt hdev
  have hd : (run g pre).s.devs[i]? = some ((run g pre).s.devs[i]'hlt) := List.getElem?_eq_getElem hlt
  have hlt' : i < (run g pre).attrs.length := by rw [k3]; exact hlt
  have ha : (run g pre).attrs[i]? = some ((run g pre).attrs[i]'hlt') := List.getElem?_eq_getElem hlt'
  refine ⟨?_, (C09_addressed_answered _ m i _ _ hd ha k1 hpgn hdev hdst hfc k2).2⟩
  simp only [evLog, k1, hpgn, hdst, hdev]
  simp

/-- **C09_history_configuration.** The configuration state (installation descriptions and manufacturer information;
per device: device instance, system instance, heartbeat interval and offset) after ANY history equals the fold, in
order, of the logged decisions over the initial configuration, where only three decisions have an effect (`applyAct`):
the 60928 command (`instUpd`), the 126998 command (`Conf.write` per written description) and an accepted heartbeat
request (`hbUpd`); requests, Acknowledges, refused or unsupported commands, broadcasts, replies, polls, delayed address
claims and clock advances change nothing of it. So accepted commands take effect exactly once, in order. -/
theorem C09_history_configuration (g : GSt) (evs : List Ev) :
    cfgOf (run g evs) = applyLog (cfgOf g) (runLog g evs) := run_cfg evs g

/-- the decisions without effect on the configuration -/
theorem C09_only_commands_change_configuration (c : Cfg) (i : Nat) (act : Act)
    (h1 : ∀ dest data lo up si, act ≠ .cmd60928 dest data lo up si) (h2 : ∀ dest data ws, act ≠ .cmd126998 dest data ws)
    (h3 : ∀ iv o, act ≠ .serveHeartbeat iv o) : applyAct c i act = c := by
  cases act <;> first | rfl | (exact absurd rfl (h1 _ _ _ _ _)) | (exact absurd rfl (h2 _ _ _)) | (exact absurd rfl (h3 _ _))

/-- non-vacuity: a command (device instance lower := 5 on device 1), a request that reads the commanded value back
(served), a broadcast command (ignored) -/
def demoHistory : List Ev :=
  [.rx { prio := 3, pgn := 126208, src := 7, dst := 35, len := 8, data := cmdHeader 60928 8 1 ++ [3, 5] },
   .rx { prio := 3, pgn := 126208, src := 7, dst := 35, len := 13, data := reqHeader 60928 0xffffffff 0xffff 1 ++ [3, 0xfd] },
   .rx { prio := 3, pgn := 126208, src := 7, dst := 255, len := 8, data := cmdHeader 60928 8 1 ++ [3, 1] }]

example : Inv demoSt := ⟨rfl, ⟨.base 0, by decide, rfl⟩, rfl⟩
example : runLog demoSt demoHistory =
    [(1, .cmd60928 7 [1 + 1, 0x00, 0xee, 0x00, 0, 1, 0xf0] 5 0xff 0xff), (1, .serve60928), (0, .nothing), (1, .nothing)] := by decide
example : (applyLog (cfgOf demoSt) (runLog demoSt demoHistory)).devs = [⟨0x2b, 5, 60000, 10000⟩, ⟨0x2d, 5, 60000, 10000⟩] := by decide

/-- **C09_history_delayed_claim.** Device `i`'s delayed address claim was armed at clock `t` (by serving a 60928 request,
`C09_delayed_claim_armed`, or by a 60928 command). Take ANY history `mid ++ poll :: post` such that
* in `mid` the claim is not re-armed and no poll finds it due (`Calm`: these polls send nothing for it) - whatever other
  requests, commands, answers, polls of other devices and clock advances `mid` contains,
* the poll happens at clock `t+k` with `3 ≤ k < 2^31` (fairness: a poll at least 3 ms after the arming; both timer builds,
  any clock origin, the 32-bit wrap and its sentinel included; `t+k < 2^64`),
* `post` does not re-arm it and keeps the clock below 2^64.
Then: at that poll the claim IS due and the device's pending step hands exactly the PGN 60928 message with the device's
current NAME to `SendMsg`; before it (`mid`) and after it (`post`, until the next 60928 request/command) no poll finds it
due, i.e. it is sent exactly once; at the end the timer is disabled. -/
theorem C09_history_delayed_claim (g : GSt) (i : Nat) (a : Attr) (t k : Nat) (mid post : List Ev)
    (hi : i < g.s.devs.length) (ha : g.attrs[i]? = some a) (harm : a.pendingClaim = Sched.fromNow g.s.flavor t 2)
    (hmid : Calm i g mid) (hnow : (run g mid).s.now = t + k) (hk : 3 ≤ k) (hk2 : k < 2147483648) (h64 : t + k < M64)
    (hpost : NoRearm i (stepEv (run g mid) .poll) post) (hclk : ClockOK (stepEv (run g mid) .poll) post) :
    due (run g mid) i
    ∧ (∃ gpre d a', (run g mid).attrs[i]? = some a' ∧ gpre.attrs[i]? = some a' ∧ gpre.s.devs[i]? = some d
        ∧ (pendingStep gpre i).s = (sendMsg { gpre.s with devs := updDev gpre.s.devs i { d with name := a'.name } }
            (claimMsg { d with name := a'.name }) (some i)).1)
    ∧ Calm i (stepEv (run g mid) .poll) post
    ∧ pc (run g (mid ++ .poll :: post)) i = some (Sched.disabled g.s.flavor) := by
  have hi' : i < (run g mid).s.devs.length := by rw [run_devs_length]; exact hi
  have hpc : pc (run g mid) i = some (Sched.fromNow g.s.flavor t 2) := by
    rw [calm_pc i mid g hi hmid]; simp only [pc, ha, Option.map_some, harm]
  have hdue : due (run g mid) i := by
    simp only [pc] at hpc
    cases hx : (run g mid).attrs[i]? with
    | none => rw [hx] at hpc; cases hpc
    | some a' =>
      rw [hx] at hpc
      have : a'.pendingClaim = Sched.fromNow g.s.flavor t 2 := Option.some.inj hpc
      exact ⟨a', hx, by rw [this, run_flavor, hnow]; exact fromNow2_due _ t k hk hk2 h64⟩
  obtain ⟨hp1, hp2⟩ := pollG_due (run g mid) i hi' hdue
  have hi'' : i < (stepEv (run g mid) .poll).s.devs.length := by rw [stepEv_devs_length]; exact hi'
  have hdis : pc (stepEv (run g mid) .poll) i = some (Sched.disabled (stepEv (run g mid) .poll).s.flavor) := by
    rw [stepEv_flavor]; exact hp1
  have hcalm := idle_calm i post _ hi'' hdis hpost hclk
  refine ⟨hdue, hp2, hcalm, ?_⟩
  rw [run_append]
  show pc (run (stepEv (run g mid) .poll) post) i = _
  rw [calm_pc i post _ hi'' hcalm]
  show pc (pollG (run g mid)) i = _
  rw [hp1, run_flavor]

/-- non-vacuity: device 1 serves a 60928 request at clock 5000 (claim armed), a product-information request is answered in
the same millisecond (inside the 2 ms window), the clock advances 3 ms, then the poll -/
def demoArmed : GSt :=
  run demoSt [.rx { prio := 3, pgn := 126208, src := 7, dst := 35, len := 11, data := reqHeader 60928 0xffffffff 0xffff 0 }]
def demoProdReq : Msg := { prio := 3, pgn := 126208, src := 7, dst := 35, len := 11, data := reqHeader 126996 0xffffffff 0xffff 0 }
def demoMid : List Ev := [.rx demoProdReq, .tick 3]

set_option maxRecDepth 20000 in
example : 1 < demoArmed.s.devs.length ∧ pc demoArmed 1 = some (Sched.fromNow demoArmed.s.flavor 5000 2)
    ∧ (run demoArmed demoMid).s.now = 5000 + 3 ∧ NoRearm 1 (stepEv (run demoArmed demoMid) .poll) []
    ∧ ClockOK (stepEv (run demoArmed demoMid) .poll) [] := by
  refine ⟨by decide, by decide, by decide, trivial, ?_⟩
  show (stepEv (run demoArmed demoMid) .poll).s.now < M64
  decide

set_option maxRecDepth 20000 in
example : Calm 1 demoArmed demoMid := by
  have hlog : evLog demoArmed (.rx demoProdReq) = [(1, .serveProduct 7 false)] := by decide
  refine ⟨?_, trivial, ?_, trivial, trivial⟩
  · intro p hp _
    rw [hlog] at hp
    simp at hp; subst hp
    exact ⟨by simp, by simp⟩
  · intro p hp; cases hp

end N2k.C09
