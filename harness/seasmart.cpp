// C19 harness: drives the real N2kToSeasmart / SeasmartToN2k (src/Seasmart.cpp).
// ops:  exp <pgn> <src> <ts> <size> <datahex> [wrap|refuse]  -> "<ret> <hex of the whole size-byte buffer (initially a5)>"
//         (7th word only for PGN >= 2^24, outside the property's domain: what the start-up probe saw the library do)
//       probe pgn-range                         -> "ok"
//       imp <hex of the string bytes>           -> "0" | "1 <pgn> <ts> <src> <datahex>" | "overread"
//
// Import safety is observed twice, both on buffers that end exactly at the terminator:
//  1. the string is placed so that its NUL is the last byte before a PROT_NONE page; a read beyond the
//     terminator raises SIGSEGV, which is caught and reported per input class (the run continues, so
//     every defect gets its own key);
//  2. if (1) saw nothing, the call is repeated on a malloc(strlen+1) block under ASan (a one-byte
//     over-read or any other bad access aborts the run: reported by check.py as C19:crash:<fn>).
#include "common.h"
#include <sys/mman.h>
#include <signal.h>
#include <setjmp.h>
#include <unistd.h>
#include "N2kMsg.h"
#include "Seasmart.h"

using namespace vh;
static Ctx C;

// ------------------------------------------------------------------------------- guard page plumbing
static unsigned char *gRegion = nullptr; static size_t gPage = 4096, gPages = 4;
static unsigned char *gGuard = nullptr;
static sigjmp_buf gJmp; static volatile sig_atomic_t gArmed = 0;

static void onSegv(int, siginfo_t *si, void *) {
  unsigned char *a = (unsigned char *)si->si_addr;
  if (gArmed && a >= gGuard && a < gGuard + gPage) { gArmed = 0; siglongjmp(gJmp, 1); }
  signal(SIGSEGV, SIG_DFL);   // not ours: let it crash
}
static void guardInit() {
  gPage = (size_t)sysconf(_SC_PAGESIZE);
  gRegion = (unsigned char *)mmap(nullptr, (gPages + 1) * gPage, PROT_READ | PROT_WRITE, MAP_PRIVATE | MAP_ANONYMOUS, -1, 0);
  if (gRegion == MAP_FAILED) { perror("mmap"); exit(2); }
  gGuard = gRegion + gPages * gPage;
  if (mprotect(gGuard, gPage, PROT_NONE)) { perror("mprotect"); exit(2); }
  struct sigaction sa; memset(&sa, 0, sizeof sa); sa.sa_sigaction = onSegv; sa.sa_flags = SA_SIGINFO | SA_NODEFER;
  sigemptyset(&sa.sa_mask); sigaction(SIGSEGV, &sa, nullptr);
}

struct ImpResult { bool overread = false; bool ok = false; unsigned long pgn = 0; uint32_t ts = 0; unsigned src = 0; std::vector<unsigned char> data;
  bool same(const ImpResult &o) const { return ok == o.ok && (!ok || (pgn == o.pgn && ts == o.ts && src == o.src && data == o.data)); } };

static void junkMsg(tN2kMsg &m, uint32_t &ts) {   // results must not depend on what was in the objects
  m.PGN = 0xABCDEF; m.Source = 0x77; m.Destination = 0x66; m.Priority = 5; m.DataLen = 17; memset(m.Data, 0xEE, sizeof m.Data); ts = 0xDEADBEEF;
}
static void collect(ImpResult &r, bool ok, const tN2kMsg &m, uint32_t ts) {
  r.ok = ok; if (!ok) return;
  r.pgn = m.PGN; r.ts = ts; r.src = m.Source;
  int n = m.DataLen; if (n < 0) n = 0; if (n > tN2kMsg::MaxDataLen) n = tN2kMsg::MaxDataLen;
  r.data.assign(m.Data, m.Data + n);   // a DataLen outside 0..223 is flagged by the oracle (gLastDataLen)
}
static int gLastDataLen = 0;

static ImpResult importGuarded(const std::string &s) {
  ImpResult r; size_t len = s.size();
  if (len + 1 > gPages * gPage) { fprintf(stderr, "string too long for guard region\n"); exit(2); }
  char *p = (char *)gGuard - (len + 1);
  memcpy(p, s.data(), len); p[len] = 0;
  static tN2kMsg m; static uint32_t ts; junkMsg(m, ts);
  gArmed = 1;
  if (sigsetjmp(gJmp, 1) == 0) {
    bool ok = SeasmartToN2k(p, ts, m);
    gArmed = 0; gLastDataLen = m.DataLen;
    collect(r, ok, m, ts);
  } else {
    r.overread = true;
  }
  return r;
}
static ImpResult importHeap(const std::string &s) {
  ImpResult r; size_t len = s.size();
  char *p = (char *)malloc(len + 1);            // exact size: ASan sees a one-byte over-read
  memcpy(p, s.data(), len); p[len] = 0;
  tN2kMsg m; uint32_t ts; junkMsg(m, ts);
  bool ok = SeasmartToN2k(p, ts, m);
  gLastDataLen = m.DataLen;
  collect(r, ok, m, ts);
  free(p);
  return r;
}

// ------------------------------------------------- reference (written from the property statement)
static int hexv(unsigned char c) { if (c >= '0' && c <= '9') return c - '0'; if (c >= 'A' && c <= 'F') return c - 'A' + 10; if (c >= 'a' && c <= 'f') return c - 'a' + 10; return -1; }
static bool allHex(const std::string &f) { for (unsigned char c : f) if (hexv(c) < 0) return false; return true; }
static uint64_t hexNum(const std::string &f) { uint64_t v = 0; for (unsigned char c : f) v = v * 16 + (unsigned)hexv(c); return v; }

static std::string refSentence(unsigned long pgn, uint32_t ts, unsigned src, const std::vector<unsigned char> &d, bool lower = false) {
  char b[64]; snprintf(b, sizeof b, lower ? "$PCDIN,%06lx,%08x,%02x," : "$PCDIN,%06lX,%08X,%02X,", pgn & 0xFFFFFF, ts, src & 0xFF);
  std::string s = b; const char *dg = lower ? "0123456789abcdef" : "0123456789ABCDEF";
  for (unsigned char c : d) { s += dg[c >> 4]; s += dg[c & 15]; }
  unsigned x = 0; for (size_t i = 1; i < s.size(); i++) x ^= (unsigned char)s[i];
  s += '*'; s += dg[(x >> 4) & 15]; s += dg[x & 15];
  return s;
}
static std::string fixChecksum(std::string s) {   // recompute the two digits after the first '*' (if there is room)
  size_t st = s.find('*'); if (st == std::string::npos || st + 3 > s.size()) return s;
  unsigned x = 0; for (size_t i = 1; i < st; i++) x ^= (unsigned char)s[i];
  const char *dg = "0123456789ABCDEF"; s[st + 1] = dg[(x >> 4) & 15]; s[st + 2] = dg[x & 15]; return s;
}

static std::string overreadClass(const std::string &s) {
  if (s.size() < 7) return "prefix-only";
  if (s.size() < 26) return "short-field";
  if (s.find('*', 26) == std::string::npos) return "no-star";
  return "overread-other";
}

// "when it succeeds the returned fields equal the sentence's hexadecimal fields, the checksum matches and
//  there are at most 223 data bytes"
static void importOracle(const std::string &s, const ImpResult &r) {
  if (!r.ok) return;
  if (s.size() < 7 || s.compare(0, 7, "$PCDIN,") != 0) { C.fail("C19:import:accepted-bad-prefix", "accepted a string not starting with $PCDIN,"); return; }
  size_t st = s.find('*');
  if (st == std::string::npos) { C.fail("C19:import:accepted-no-star", "accepted a sentence without '*'"); return; }
  std::vector<std::string> f; { std::string cur; for (size_t i = 7; i < st; i++) { if (s[i] == ',') { f.push_back(cur); cur.clear(); } else cur += s[i]; } f.push_back(cur); }
  if (f.size() != 4 || f[0].size() != 6 || f[1].size() != 8 || f[2].size() != 2 || f[3].size() % 2 != 0) {
    C.fail("C19:import:accepted-bad-fields", "accepted a sentence whose comma separated fields are not 6,8,2,2k hex digits"); return; }
  if (!allHex(f[0]) || !allHex(f[1]) || !allHex(f[2]) || !allHex(f[3])) { C.fail("C19:import:accepted-non-hex", "accepted non-hex characters in a field"); return; }
  if (gLastDataLen > 223 || gLastDataLen < 0 || f[3].size() / 2 > 223) { C.fail("C19:import:datalen", "accepted %zu data bytes (DataLen %d)", f[3].size() / 2, gLastDataLen); return; }
  if (r.pgn != hexNum(f[0])) C.fail("C19:import:field-pgn", "pgn %lu want %llu", r.pgn, (unsigned long long)hexNum(f[0]));
  if (r.ts != hexNum(f[1])) C.fail("C19:import:field-ts", "ts %u want %llu", r.ts, (unsigned long long)hexNum(f[1]));
  if (r.src != hexNum(f[2])) C.fail("C19:import:field-src", "src %u want %llu", r.src, (unsigned long long)hexNum(f[2]));
  bool dataOk = r.data.size() == f[3].size() / 2;
  for (size_t i = 0; dataOk && i < r.data.size(); i++) if (r.data[i] != hexNum(f[3].substr(2 * i, 2))) dataOk = false;
  if (!dataOk) C.fail("C19:import:field-data", "payload differs from the data field (%zu bytes vs %zu digits)", r.data.size(), f[3].size());
  unsigned x = 0; for (size_t i = 1; i < st; i++) x ^= (unsigned char)s[i];
  if (s.size() < st + 3 || hexv(s[st + 1]) < 0 || hexv(s[st + 2]) < 0 || (unsigned)(hexv(s[st + 1]) * 16 + hexv(s[st + 2])) != (x & 0xFF))
    C.fail("C19:import:checksum", "accepted although the two digits after '*' are not the XOR %02X", x & 0xFF);
}

// pending round trip: set by an `exp` that wrote a sentence, consumed by the following `imp`
static bool rtPending = false; static unsigned long rtPgn; static uint32_t rtTs; static unsigned rtSrc; static std::vector<unsigned char> rtData; static std::string rtSentence;

static std::string toHexStr(const std::string &s) { return hex((const unsigned char *)s.data(), s.size()); }

static void execImp(const std::vector<std::string> &w) {
  std::vector<unsigned char> bytes = unhex(w.size() > 1 ? w[1] : "-");
  std::string s(bytes.begin(), bytes.end());
  size_t z = s.find('\0'); if (z != std::string::npos) s.resize(z);   // a C string ends at its first NUL
  static const bool asanOnly = getenv("C19_ASAN_ONLY") != nullptr;   // diagnostic: let ASan alone judge (aborts on the first over-read)
  ImpResult r = asanOnly ? importHeap(s) : importGuarded(s);
  if (r.overread) {
    C.count("imp_overread");
    C.fail("C19:import:" + overreadClass(s), "read beyond the terminator of a %zu character string", s.size());
    C.out("overread"); rtPending = false; return;
  }
  ImpResult h = importHeap(s);
  if (!r.same(h)) C.fail("C19:import:unstable", "result differs between two buffers holding the same string");
  importOracle(s, r);
  if (rtPending) {
    rtPending = false;
    if (s == rtSentence) {
      C.count("roundtrips");
      if (!r.ok) C.fail("C19:roundtrip:rejected", "the exported sentence is not accepted");
      else if (r.pgn != rtPgn || r.ts != rtTs || r.src != rtSrc || r.data != rtData)
        C.fail("C19:roundtrip:fields", "import(export(m)) differs: pgn %lu/%lu ts %u/%u src %u/%u len %zu/%zu", r.pgn, rtPgn, r.ts, rtTs, r.src, rtSrc, r.data.size(), rtData.size());
    }
  }
  if (r.ok) { C.count("imp_accepted"); C.nontrivial("imp " + s); C.out("1 %lu %u %u %s", r.pgn, r.ts, r.src, hex(r.data.data(), r.data.size()).c_str()); }
  else { C.count("imp_rejected"); C.out("0"); }
}

static void execExp(const std::vector<std::string> &w) {
  rtPending = false;
  if (w.size() != 6 && w.size() != 7) { C.out("bad-op"); return; }
  unsigned long pgn = strtoul(w[1].c_str(), nullptr, 10); unsigned src = (unsigned)strtoul(w[2].c_str(), nullptr, 10);
  uint32_t ts = (uint32_t)strtoul(w[3].c_str(), nullptr, 10); size_t size = strtoul(w[4].c_str(), nullptr, 10);
  std::vector<unsigned char> d = unhex(w[5]);
  if (d.size() > (size_t)tN2kMsg::MaxDataLen || src > 255) { C.out("bad-op"); return; }
  tN2kMsg m; m.SetPGN(pgn); m.Source = (unsigned char)src; m.Priority = 3; m.DataLen = (int)d.size();
  memset(m.Data, 0xEE, sizeof m.Data); if (!d.empty()) memcpy(m.Data, d.data(), d.size());
  unsigned char *buf = (unsigned char *)malloc(size);   // exact size: ASan sees any write beyond `size`
  memset(buf, 0xA5, size);
  size_t ret = N2kToSeasmart(m, ts, (char *)buf, size);
  size_t n = d.size(), need = 30 + 2 * n;
  if (pgn >= (1ul << 24)) {
    // Outside the property's domain ("PGN below 2^24"): the statement says nothing about the result, so there is
    // no oracle here beyond the sanitizers (exact-size buffer). The 7th word of the op line tells the model which
    // of the behaviours seen at start-up (probe) the library has: truncate the PGN ("wrap") or refuse ("refuse").
    C.count("exp_out_of_domain");
    C.out("%zu %s", ret, hex(buf, size).c_str());
    free(buf);
    return;
  }
  // oracle: exact length / nothing written
  if (size < need) {
    C.count("exp_too_small");
    if (ret != 0) C.fail("C19:export:ret-when-small", "size %zu < %zu but returned %zu", size, need, ret);
    for (size_t i = 0; i < size; i++) if (buf[i] != 0xA5) { C.fail("C19:export:wrote-when-small", "size %zu < %zu but byte %zu was written", size, need, i); break; }
  } else {
    C.count("exp_written");
    if (ret != 29 + 2 * n) C.fail("C19:export:length", "returned %zu want %zu", ret, 29 + 2 * n);
    size_t sl = strnlen((char *)buf, size);
    if (sl != 29 + 2 * n) C.fail("C19:export:length", "sentence has %zu characters want %zu", sl, 29 + 2 * n);
    for (size_t i = need; i < size; i++) if (buf[i] != 0xA5) { C.fail("C19:export:wrote-beyond", "byte %zu beyond the sentence was written", i); break; }
    if (sl < size) {
      rtPending = true; rtPgn = pgn; rtTs = ts; rtSrc = src; rtData = d; rtSentence.assign((char *)buf, sl);
      if (rtSentence != refSentence(pgn, ts, src, d)) C.fail("C19:export:text", "sentence is not $PCDIN,<pgn 6 hex>,<ts 8 hex>,<src 2 hex>,<data>*<xor>");
    }
    C.nontrivial("exp " + w[1] + " " + w[2] + " " + w[3] + " " + w[5]);
  }
  C.out("%zu %s", ret, hex(buf, size).c_str());
  free(buf);
}

static void exec(const std::string &line) {
  std::vector<std::string> w = split(line);
  if (w.empty()) return;
  C.op("%s", line.c_str());
  C.count("op_" + w[0]); C.cases++;
  if (w[0] == "imp") execImp(w);
  else if (w[0] == "exp") execExp(w);
  else if (w[0] == "probe") C.out("ok");
  else C.out("bad-op");
}

// ---------------------------------------------------------------------------------------- generation
static void imp(const std::string &s) { exec("imp " + toHexStr(s)); }
// What the library does with a PGN that does not fit the 6-digit field is left open by the property; it is learnt
// once (after the op line "probe pgn-range" has been flushed) and handed to the model in the op lines concerned.
static std::string gOobPolicy = "wrap";
static void probePgnRange() {
  exec("probe pgn-range");
  tN2kMsg m; m.SetPGN(0x01000000ul); m.Source = 1; m.DataLen = 0;
  char *buf = (char *)malloc(64); memset(buf, 0xA5, 64);
  gOobPolicy = N2kToSeasmart(m, 0, buf, 64) == 0 ? "refuse" : "wrap";
  free(buf);
  C.count("pgn_beyond_24_bits_" + gOobPolicy);
}
static void expOp(unsigned long pgn, unsigned src, uint32_t ts, size_t size, const std::vector<unsigned char> &d) {
  char b[96]; snprintf(b, sizeof b, "exp %lu %u %u %zu ", pgn, src, ts, size);
  exec(std::string(b) + hex(d.data(), d.size()) + (pgn >= (1ul << 24) ? " " + gOobPolicy : std::string()));
}
// export into a buffer of `size` and, if a sentence was written, import it back (round trip)
static void roundTrip(unsigned long pgn, unsigned src, uint32_t ts, size_t size, const std::vector<unsigned char> &d) {
  expOp(pgn, src, ts, size, d);
  if (rtPending) { std::string s = rtSentence; imp(s); }
}
static std::vector<unsigned char> randData(Rng &R, size_t n) {
  std::vector<unsigned char> d(n); int mode = (int)R.below(4);
  for (auto &c : d) c = mode == 0 ? (unsigned char)R.below(256) : mode == 1 ? 0xFF : mode == 2 ? 0x00 : (unsigned char)(R.chance(1, 2) ? 0x2A : R.below(256));
  return d;
}
static unsigned long randPgn(Rng &R) {
  static const unsigned long sp[] = {0, 1, 0xFFFFFF, 0x01F119, 0x00FFFF, 0x010000, 0xFF0000, 59904, 126208, 0x800000, 0x0A0B0C};
  return R.chance(1, 3) ? sp[R.below(sizeof sp / sizeof *sp)] : (unsigned long)R.below(1ul << 24);
}
static uint32_t randTs(Rng &R) {
  static const uint32_t sp[] = {0, 1, 0xFFFFFFFFu, 0x80000000u, 0x7FFFFFFFu, 0x0000FFFFu, 0x00010000u, 0xFFFF0000u, 0x12345678u, 0xABCDEF01u};
  return R.chance(1, 3) ? sp[R.below(sizeof sp / sizeof *sp)] : (uint32_t)R.next();
}
static const char kOdd[] = {'G', 'g', ' ', 'x', 'X', '-', '+', '*', ',', '\x01', '\x7f', '\x80', '\xff', ':', '@', '`', '/', '$', '\r', '\n', '\t', 'f', 'A', '0'};

static void mutationsOf(Rng &R, const std::string &v, bool everyPosition) {
  size_t L = v.size();
  // every truncation
  for (size_t k = 0; k <= L; k++) imp(v.substr(0, k));
  // truncations with the checksum recomputed where possible, and trailing text
  imp(v + "\r\n"); imp(v + "0"); imp(v + "*00"); imp(v + ",");
  // separators and '*': removed / replaced
  for (size_t i = 0; i < L; i++) if (v[i] == ',' || v[i] == '*' || v[i] == '$') {
    std::string a = v; a.erase(i, 1); imp(a); imp(fixChecksum(a));
    for (char c : {'x', '*', ',', '0', 'F', ' ', ';', '\x01', '\xff'}) { if (c == v[i]) continue; std::string b = v; b[i] = c; imp(b); imp(fixChecksum(b)); }
    std::string d2 = v; d2.insert(i, 1, v[i]); imp(d2); imp(fixChecksum(d2));
  }
  // odd digit counts: drop / insert one digit anywhere
  for (size_t i = 7; i < L; i += (everyPosition ? 1 : 1 + R.below(5))) {
    std::string a = v; a.erase(i, 1); imp(a); imp(fixChecksum(a));
    std::string b = v; b.insert(i, 1, "0123456789ABCDEFabcdef"[R.below(22)]); imp(b); imp(fixChecksum(b));
  }
  // non-hex (and other) characters at positions; with and without a matching checksum
  for (size_t i = 0; i < L; i += (everyPosition ? 1 : 1 + R.below(7))) {
    for (char c : kOdd) { if (!everyPosition && !R.chance(1, 4)) continue; if (c == v[i]) continue; std::string a = v; a[i] = c; imp(a); imp(fixChecksum(a)); }
  }
  // wrong and lower-case checksums, lower-case fields
  size_t st = v.rfind('*');
  if (st != std::string::npos && st + 3 <= L) {
    std::string lc = v; for (size_t i = st + 1; i < L; i++) lc[i] = (char)tolower(lc[i]); imp(lc);
    std::string all = v; for (size_t i = 7; i < L; i++) all[i] = (char)tolower(all[i]); imp(all); imp(fixChecksum(all));
    for (int k = 0; k < (everyPosition ? 256 : 12); k++) { unsigned x = everyPosition ? (unsigned)k : (unsigned)R.below(256); char b[3]; snprintf(b, 3, "%02X", x); std::string a = v; a[st + 1] = b[0]; a[st + 2] = b[1]; imp(a); }
    std::string a = v; a.resize(st + 2); imp(a); a.resize(st + 1); imp(a);
    std::string g = v; g[st + 1] = 'G'; imp(g); g = v; g[st + 2] = ' '; imp(g);
  }
}

int main(int argc, char **argv) {
  C.init(argc, argv);
  guardInit();
  C.rule = "distinct op lines on which the import succeeded or the export wrote a sentence";
  if (!C.replay.empty()) { for (auto &l : readLines(C.replay)) exec(l); C.finish(); return 0; }
  Rng R((C.seed ^ (C.seed << 32)) * 0x2545F4914F6CDD1DULL + 0x632BE59BD9B4E019ULL);   // common.h streams of consecutive seeds are shifts of each other: decorrelate
  const bool T = C.thorough;

  // --- export: every payload length, buffer sizes around the exact requirement, round trip
  for (size_t n = 0; n <= 223; n++) {
    std::vector<unsigned char> d = randData(R, n); size_t need = 30 + 2 * n;
    unsigned long pgn = randPgn(R); unsigned src = (unsigned)R.below(256); uint32_t ts = randTs(R);
    size_t sizes[] = {need, need - 1, need + 1, need - 2, 0, 1, 7, 8, 29, 30, need / 2, need + (size_t)R.below(200), 512};
    size_t cnt = T ? sizeof sizes / sizeof *sizes : 4 + (n % 8 == 0 || n >= 220 || n < 3 ? 9 : 0);
    for (size_t k = 0; k < cnt; k++) roundTrip(pgn, src, ts, sizes[k], d);
  }
  // --- all header values of the small fields, boundary time stamps / PGNs
  for (unsigned src = 0; src < 256; src++) roundTrip(randPgn(R), src, randTs(R), 64, randData(R, R.below(9)));
  for (int hi = 0; hi < 256; hi++) roundTrip(((unsigned long)hi << 16) | (unsigned long)R.below(65536), (unsigned)R.below(256), randTs(R), 30 + 16, randData(R, 8));
  for (int k = 0; k < 32; k++) { roundTrip(1ul << (k % 24), 1, 1u << k, 80, randData(R, 3)); roundTrip((1ul << (k % 24)) - 1, 255, (1u << k) - 1, 80, randData(R, 3)); }
  // PGN beyond 24 bits (outside the property's domain: sanitizers + comparison with the model only, no oracle)
  probePgnRange();
  for (int k = 0; k < 8; k++) expOp((1ul << 24) + R.below(1ul << 30), (unsigned)R.below(256), randTs(R), 100, randData(R, 4));
  int nrt = T ? 6000 : 600;
  for (int k = 0; k < nrt; k++) { size_t n = R.chance(1, 4) ? R.below(224) : R.below(16); roundTrip(randPgn(R), (unsigned)R.below(256), randTs(R), 30 + 2 * n + (size_t)R.below(3), randData(R, n)); }

  // --- import: the four strings of the repo's tests and the documented failing inputs
  imp("$PCDIN,01F119,00000000,0F,2AAF00D1067414FF*59"); imp("$PCDIN,01f119,00000000,0f,2aaf00d1067414ff*59");
  imp("$PCDIN,01F119,00000000,0F,2AAF00D1067414FF*99"); imp("");
  imp("$PCDIN"); imp("$PCDIN,01F119"); imp("$PCDIN,01F119,00000000"); imp("$PCDIN,01F119,00000000,0F"); imp("$PCDIN,01F119,00000000,0F,2AAF00D1067414FF");
  imp("$PCDIN,01F119*00000000,0F,2AAF*49"); imp("$PCDINx01F119,00000000,0F,2AAF*00");

  // --- exhaustive mutations of small valid sentences; sampled mutations of long ones
  {
    std::vector<unsigned char> d0, d1 = {0x2A}, d2 = {0x00, 0xFF}, d8 = {0x2A, 0xAF, 0x00, 0xD1, 0x06, 0x74, 0x14, 0xFF};
    mutationsOf(R, refSentence(0x01F119, 0, 0x0F, d8), true);
    mutationsOf(R, refSentence(0xABCDEF, 0x89ABCDEFu, 0xFE, d0), true);
    mutationsOf(R, refSentence(0, 0xFFFFFFFFu, 0, d1), true);
    mutationsOf(R, refSentence(0x00FF00, 0x12345678u, 0x9A, d2, true), T);
    int reps = T ? 40 : 6;
    for (int k = 0; k < reps; k++) mutationsOf(R, refSentence(randPgn(R), randTs(R), (unsigned)R.below(256), randData(R, R.below(12)), R.chance(1, 3)), false);
    mutationsOf(R, refSentence(randPgn(R), randTs(R), 0x42, randData(R, 223)), false);
    mutationsOf(R, refSentence(randPgn(R), randTs(R), 0x42, randData(R, 222)), false);
  }
  // --- over-long data, around the limit
  for (size_t n : {(size_t)222, (size_t)223, (size_t)224, (size_t)225, (size_t)255, (size_t)256, (size_t)300, (size_t)1000, (size_t)1500}) {
    std::vector<unsigned char> d = randData(R, n); std::string v = refSentence(randPgn(R), randTs(R), 7, d);
    imp(v); imp(v.substr(0, v.size() - 3)); imp(v.substr(0, v.size() - 4)); std::string o = v; o.insert(30, 1, 'A'); imp(o); imp(fixChecksum(o));
  }
  // --- random and spliced strings
  int nr = T ? 30000 : 3000;
  for (int k = 0; k < nr; k++) {
    std::string s; int mode = (int)R.below(6);
    if (mode == 0) { size_t L = R.below(60); for (size_t i = 0; i < L; i++) s += (char)(1 + R.below(255)); }
    else if (mode == 1) { s = "$PCDIN,"; size_t L = R.below(60); static const char al[] = "0123456789ABCDEFabcdef,,**$ Gx"; for (size_t i = 0; i < L; i++) s += al[R.below(sizeof al - 1)]; }
    else if (mode == 2) { std::string v = refSentence(randPgn(R), randTs(R), (unsigned)R.below(256), randData(R, R.below(6))); size_t a = R.below(v.size() + 1), b = R.below(v.size() + 1); s = v.substr(0, a) + v.substr(b); if (R.chance(1, 2)) s = fixChecksum(s); }
    else if (mode == 3) { std::string v = refSentence(randPgn(R), randTs(R), (unsigned)R.below(256), randData(R, R.below(6)), R.chance(1, 2)); int m = 1 + (int)R.below(3); for (int j = 0; j < m; j++) v[R.below(v.size())] = kOdd[R.below(sizeof kOdd)]; s = R.chance(1, 2) ? fixChecksum(v) : v; }
    else if (mode == 4) { s = std::string("$PCDIN,").substr(0, R.below(8)); size_t L = R.below(40); static const char al[] = "0123456789ABCDEF,*"; for (size_t i = 0; i < L; i++) s += al[R.below(sizeof al - 1)]; }
    else { std::string v = refSentence(randPgn(R), randTs(R), (unsigned)R.below(256), randData(R, R.below(20)), R.chance(1, 4)); s = v; if (R.chance(1, 2)) s += (R.chance(1, 2) ? "\r\n" : "*7F"); }
    imp(s);
  }
  C.sample("imp $PCDIN,01F119,00000000,0F,2AAF00D1067414FF*59 -> 1 127257 0 15 2aaf00d1067414ff");
  C.finish();
  return 0;
}
