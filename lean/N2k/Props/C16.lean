import N2k.Lemmas.TextRound
/-!
# C16 — Text fields never overrun a buffer and round-trip their content

Property theorems only. The model is `N2k.Text` (`Model/Text.lean`, transcribing `AddStr`/`SetBufStr`,
`AddAISStr`, `AddVarStr`, both `GetStr` overloads, `GetVarStr`, `N2kRequireUnicode`, `N2kUTF8ToUCS2`,
`N2kUTF8ToASCII`, `N2kUCS2ToUTF8` of `N2kMsg.cpp` as fixed in the verification worktree). All memory is checked:
a run that returns `.ok` performed no write at a payload index ≥ 223, no write at a destination index ≥ its
size, no read behind the terminating NUL of the source string and no payload read at an index ≥ `DataLen`.
`blit d i L` is the memory `d` with the list `L` stored from index `i` on; `.at s` is the C string `s ++ [0]`.

Every theorem quantifies over ALL source bytes `s` (any length, invalid / truncated UTF-8 included; if `s`
contains a 0 the string ends there), all stale payload contents `d`, all initial destination contents `dst`.
-/
namespace N2k.C16
open N2k.Text

/-! ## adding never leaves the payload or the source string -/

/-- **C16_add_safe.** For every source string, every fill level 0..223 and every maximum: `AddAISStr` and
`AddVarStr` (both unicode policies, both length units) run without any out-of-bounds access, leave
`DataLen ≤ 223` and do not touch the bytes below the fill level; `AddStr` likewise (any fill character)
whenever the maximum fits the remaining payload. -/
theorem C16_add_safe (s : List Nat) (fill max : Nat) (d : D) (hfill : fill ≤ MaxDataLen) :
    (∃ m', addAISStr ⟨d, fill⟩ (.at s) max = .ok m' ∧ m'.len ≤ MaxDataLen ∧ ∀ j, j < fill → m'.data j = d j) ∧
    (∀ uni chars, ∃ m', addVarStr ⟨d, fill⟩ (.at s) max uni chars = .ok m' ∧ m'.len ≤ MaxDataLen ∧
      ∀ j, j < fill → m'.data j = d j) ∧
    (∀ fc, fill + max ≤ MaxDataLen →
      ∃ m', addStr ⟨d, fill⟩ (.at s) max fc = .ok m' ∧ m'.len ≤ MaxDataLen ∧ ∀ j, j < fill → m'.data j = d j) := by
  refine ⟨⟨_, addAISStr_eq s max fill d hfill, ?_, fun j hj => blit_lt _ _ _ _ hj⟩, ?_, ?_⟩
  · show fill + min max (MaxDataLen - fill) ≤ MaxDataLen
    omega
  · intro uni chars
    obtain ⟨L, hL, _, h⟩ := addVarStr_spec s fill max uni chars hfill
    exact ⟨_, h d, by show fill + L.length ≤ MaxDataLen; omega, fun j hj => blit_lt _ _ _ _ hj⟩
  · intro fc hfit
    exact ⟨_, addStr_eq s max fill fc d hfit, hfit, fun j hj => blit_lt _ _ _ _ hj⟩

example : (220 : Nat) + 3 ≤ MaxDataLen := by decide

/-- Why `AddStr` has the precondition: it does not clamp. Two characters into a payload with one free byte
write at index 223. -/
theorem C16_addStr_overflow_witness :
    addStr ⟨fun _ => 0, 222⟩ (.at [0x41, 0x42]) 2 0xff = .error (.payloadWrite 223) := by
  rfl

/-! ## well-formed fields -/

/-- **C16_wellformed** (variable-length field). The bytes `AddVarStr` appends are one list `L` that does NOT
depend on what the payload held before (no stale byte is counted into the field), `DataLen` advances by
exactly `L.length`, and `L` is a well-formed field: nothing if the payload is full, the single byte 1 if one
byte is free, otherwise `length :: type :: body` with `length = 2 + body.length` (a byte, it fits the free
payload), `type` 0 (UCS-2) exactly when unicode is supported, the text contains a complete multi-byte UTF-8
character (`N2kRequireUnicode`) and more than the header fits, else 1 (ASCII); a UCS-2 body has an even
length within the maximum (bytes, or 2 × characters), an ASCII body is within the maximum, and text that
does not require unicode is stored verbatim, cut to the maximum and the free payload. -/
theorem C16_wellformed (s : List Nat) (fill maxLen : Nat) (uni chars : Bool) (hfill : fill ≤ MaxDataLen) :
    ∃ L : List Nat,
      (∀ d, addVarStr ⟨d, fill⟩ (.at s) maxLen uni chars = .ok ⟨blit d fill L, fill + L.length⟩) ∧
      ((MaxDataLen - fill = 0 ∧ L = []) ∨ (MaxDataLen - fill = 1 ∧ L = [1]) ∨
       (2 ≤ MaxDataLen - fill ∧ ∃ type body, L = (body.length + 2) :: type :: body ∧
          body.length + 2 ≤ MaxDataLen - fill ∧ body.length + 2 < 256 ∧
          (type = 0 ↔ (uni = true ∧ requireUnicode (.at s) = .ok true ∧ 2 < MaxDataLen - fill)) ∧
          (type = 0 ∨ type = 1) ∧
          (type = 0 → body.length % 2 = 0 ∧ body.length ≤ (if chars then maxLen * 2 else maxLen)) ∧
          (type = 1 → body.length ≤ maxLen) ∧
          (requireUnicode (.at s) = .ok false →
            body = s.take (min (min (nz s) maxLen) (MaxDataLen - fill - 2))))) := by
  obtain ⟨L, _, hshape, h⟩ := addVarStr_spec s fill maxLen uni chars hfill
  refine ⟨L, h, ?_⟩
  rcases hshape with h0 | h1 | ⟨h2, type, body, e, hb, rest⟩
  · exact Or.inl h0
  · exact Or.inr (Or.inl h1)
  · refine Or.inr (Or.inr ⟨h2, type, body, e, hb, ?_, rest⟩)
    have : MaxDataLen = 223 := rfl
    omega

/-- **C16_wellformed_fixed.** `AddStr` appends exactly `len` bytes (the text up to its terminator, cut to
`len`, then the fill character) and `AddAISStr` exactly `min len free` bytes (the filtered text, then '@'),
whatever the payload held before. -/
theorem C16_wellformed_fixed (s : List Nat) (fill len : Nat) (d : D) :
    (∀ fc, fill + len ≤ MaxDataLen →
      addStr ⟨d, fill⟩ (.at s) len fc = .ok ⟨blit d fill (strField s len fc), fill + len⟩ ∧
      (strField s len fc).length = len ∧
      strField s len fc = s.take (min len (nz s)) ++ List.replicate (len - min len (nz s)) fc) ∧
    (fill ≤ MaxDataLen →
      addAISStr ⟨d, fill⟩ (.at s) len
        = .ok ⟨blit d fill (aisField s len (MaxDataLen - fill)), fill + min len (MaxDataLen - fill)⟩ ∧
      (aisField s len (MaxDataLen - fill)).length = min len (MaxDataLen - fill) ∧
      ∃ k r, aisField s len (MaxDataLen - fill) = (s.take k).map aisChar ++ List.replicate r 0x40) :=
  ⟨fun fc h => ⟨addStr_eq s len fill fc d h, strField_length s len fc, rfl⟩,
   fun h => ⟨addAISStr_eq s len fill d h, aisField_length s len _, _, _, rfl⟩⟩

example : (0 : Nat) + 20 ≤ MaxDataLen ∧ (0 : Nat) ≤ MaxDataLen := by decide

/-! ## reading never leaves the destination or the payload -/

/-- **C16_get_safe.** For every message (any payload bytes, any `DataLen`, so any length byte 0..255 and any
type byte 0..255), every index, every field length, every null character and every destination size
*including 0*: the sized `GetStr` and `GetVarStr` run without any out-of-bounds access (no write at an index
≥ the destination size, no payload read at an index ≥ `DataLen`) and a non-empty destination holds a NUL
afterwards. The unsized `GetStr(char*,size_t,int&)` has no size parameter; its contract is a destination of
`Length+1` bytes, and with that it is safe as well. -/
theorem C16_get_safe (m : Msg) (n : Nat) (dst : D) (length nul idx : Nat) :
    (∃ r idx' dst', getStr2 m n dst length nul idx = .ok (r, idx', dst') ∧ (0 < n → ∃ i, i < n ∧ dst' i = 0)) ∧
    (∃ r sz idx' dst', getVarStr m n dst nul idx = .ok (r, sz, idx', dst') ∧ (0 < n → ∃ i, i < n ∧ dst' i = 0)) ∧
    (length + 1 ≤ n →
      ∃ r idx' dst', getStr1 m n dst length idx = .ok (r, idx', dst') ∧ ∃ i, i < n ∧ dst' i = 0) := by
  refine ⟨getStr2_safe m n dst length nul idx, getVarStr_safe m n dst nul idx, fun h => ?_⟩
  obtain ⟨r, idx', dst', h1, h2⟩ := getStr1_safe m n dst length idx h
  exact ⟨r, idx', dst', h1, h2 (by omega)⟩

example : (7 : Nat) + 1 ≤ 8 := by decide

/-- Why the unsized `GetStr` needs `Length+1` bytes: with exactly `Length` bytes it writes one byte too far. -/
theorem C16_getStr1_contract_witness :
    (getStr1 ⟨fun _ => 0x41, 3⟩ 2 (fun _ => 1) 2 0).toOption.isNone = true := by
  rfl

end N2k.C16
