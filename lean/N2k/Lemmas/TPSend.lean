import N2k.Model.TP
import N2k.Lemmas.Framing
/-! C10 helper lemmas: a protocol frame sent by a node whose driver accepts everything ("quiet" node)
goes out as exactly one frame and changes nothing else; sending never touches the clock. -/
namespace N2k.TP
open N2k.Send N2k.Time N2k.Spec

/-- device `i` of the node can transmit right now and the driver takes every frame: active node, valid address,
no address claim in progress, empty send queue, accepting driver, TP PGNs not declared fast-packet by the application -/
structure Quiet (s : St) (i : Nat) : Prop where
  dev : ∃ d, s.devs[i]? = some d ∧ d.source ≤ 251 ∧ d.claimTimer.isEnabled s.flavor = false
  notListen : s.listenOnly = false
  active : s.claimMode = true
  ringEmpty : s.ring.read = s.ring.write
  script : s.drv.script = []
  dflt : s.drv.dflt = true
  notFpCM : isFastPacketPGN s.lists TP_CM = false
  notFpDT : isFastPacketPGN s.lists TP_DT = false

/-- the state after the driver accepted frame `f` -/
def pushSent (s : St) (f : Frame) : St := { s with drv := { s.drv with sent := s.drv.sent ++ [f] } }

theorem Quiet.push {s : St} {i : Nat} (h : Quiet s i) (f : Frame) : Quiet (pushSent s f) i :=
  ⟨h.dev, h.notListen, h.active, h.ringEmpty, h.script, h.dflt, h.notFpCM, h.notFpDT⟩

theorem set_self {α : Type} : ∀ (l : List α) (i : Nat) (d : α), l[i]? = some d → l.set i d = l
  | [], _, _, _ => rfl
  | a :: t, 0, d, h => by simp at h; simp [h]
  | a :: t, i+1, d, h => by simp at h; simp [set_self t i d h]

theorem sendFramesAux_empty (k : Nat) (r : Ring) (d : Drv) (h : r.read = r.write) :
    sendFramesAux k r d = (r, d, true) := by
  cases k <;> simp [sendFramesAux, h]

theorem sendFrame_quiet (r : Ring) (d : Drv) (f : Frame) (h : r.read = r.write) (hs : d.script = []) (hd : d.dflt = true) :
    sendFrame r d f = (r, { d with sent := d.sent ++ [f] }, true) := by
  unfold sendFrame sendFrames
  rw [sendFramesAux_empty _ r d h]
  simp [Drv.send, hs, hd]

theorem tpId_ne_zero (pgn src dst : Nat) (hp : pgn = TP_CM ∨ pgn = TP_DT) (hs : src < 256) (hd : dst < 256) :
    n2kToCanId 6 pgn src dst ≠ 0 := by
  have hv : isPDU1 pgn = true → pgn % 256 = 0 := by rcases hp with h | h <;> subst h <;> decide
  have hlt : pgn < 2^18 := by rcases hp with h | h <;> subst h <;> decide
  rw [id_layout 6 pgn src dst hlt hs hd hv]
  apply canId_pos
  rcases hp with h | h <;> subst h <;> decide

/-- a protocol frame: PGN 60416 or 60160, priority 6, 8 bytes -/
structure IsTpMsg (m : Msg) : Prop where
  pgn : m.pgn = TP_CM ∨ m.pgn = TP_DT
  prio : m.prio = 6
  len : m.len = 8
  dlen : m.data.length = 8
  dst : m.dst < 256

/-- the CAN frame a protocol message of device address `src` becomes -/
def tpFrame (src : Nat) (m : Msg) : Frame := ⟨n2kToCanId 6 m.pgn src m.dst, 8, m.data⟩

theorem sendMsg_quiet (s : St) (i : Nat) (m : Msg) (hq : Quiet s i) (hm : IsTpMsg m) (d : Dev) (hd : s.devs[i]? = some d) :
    sendMsg s m (some i) = (pushSent s (tpFrame d.source m), true) := by
  obtain ⟨d', hd', hsrc, hct⟩ := hq.dev
  rw [hd] at hd'; cases hd'
  have hi : i < s.devs.length := by
    rcases Nat.lt_or_ge i s.devs.length with h | h
    · exact h
    · rw [List.getElem?_eq_none h] at hd; cases hd
  have hlow : m.pgn &&& 0xff = 0 := by rcases hm.pgn with h | h <;> rw [h] <;> decide
  have hne : n2kToCanId m.prio m.pgn d.source m.dst ≠ 0 := by
    rw [hm.prio]; exact tpId_ne_zero m.pgn d.source m.dst hm.pgn (by omega) hm.dst
  have hp0 : m.pgn ≠ 0 := by rcases hm.pgn with h | h <;> rw [h] <;> decide
  have hfp : isFastPacketPGN s.lists m.pgn = false := by
    rcases hm.pgn with h | h <;> rw [h]
    · exact hq.notFpCM
    · exact hq.notFpDT
  have hic : isAddressClaimStarted s.flavor s.now d = (d, false) := by simp [isAddressClaimStarted, hct]
  have hset : updDev s.devs i d = s.devs := set_self s.devs i d hd
  unfold sendMsg gate
  simp only [Option.getD_some, hd, srcOf, hlow, hq.notListen, hic, hset]
  have h1 : ¬ (i ≥ s.devs.length) := by omega
  have h2 : ¬ (d.source > Gen.maxCanBusAddress ∧ m.pgn ≠ 60928) := by
    intro h; have : d.source > 251 := h.1; omega
  simp only [h1, h2, hne, hp0, ↓reduceIte, ne_eq, not_true_eq_false, Bool.false_eq_true, false_and]
  unfold produce
  have h3 : m.len ≤ 8 ∧ ¬ (m.prio < 0x80 ∧ isFastPacketPGN s.lists m.pgn = true) := by
    refine ⟨by rw [hm.len]; omega, ?_⟩
    rw [hfp]; simp
  simp only [h3]
  rw [sendFrame_quiet _ _ _ hq.ringEmpty hq.script hq.dflt]
  have ht : m.data.take m.len = m.data := by rw [hm.len, ← hm.dlen]; exact List.take_length
  simp only [pushSent, tpFrame, hm.len, hm.prio]
  rw [hm.len] at ht
  simp [ht]
  exact hq.notListen

/-! ## the clock is never touched by sending -/

def gateSt : Gate → St
  | .refuse s => s
  | .pass s1 _ _ => s1

theorem gate_devs (s : St) (m : Msg) (dev : Option Nat) :
    ∃ devs, gateSt (gate s m dev) = { s with devs := devs } := by
  unfold gate
  dsimp only
  generalize (if m.pgn &&& 255 ≠ 0 then 255 else m.dst) = dst
  repeat' split
  all_goals exact ⟨_, rfl⟩

theorem gate_clock (s : St) (m : Msg) (dev : Option Nat) :
    (gateSt (gate s m dev)).now = s.now ∧ (gateSt (gate s m dev)).flavor = s.flavor := by
  obtain ⟨devs, h⟩ := gate_devs s m dev
  rw [h]; exact ⟨rfl, rfl⟩

theorem sendMsg_clock (s : St) (m : Msg) (dev : Option Nat) :
    (sendMsg s m dev).1.now = s.now ∧ (sendMsg s m dev).1.flavor = s.flavor := by
  have hg := gate_clock s m dev
  unfold sendMsg
  split
  · rename_i s' h; rw [h] at hg; exact hg
  · rename_i s1 d1 c h; rw [h] at hg
    unfold produce
    repeat' split
    all_goals exact hg

end N2k.TP
