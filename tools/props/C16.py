"""C16 - text fields of tN2kMsg. SPEC drives tools/check.py; MANIFEST feeds tools/gen_manifest.py."""
SPEC = {
    'engine': 'text', 'harness': 'text.cpp',
    'repo_srcs': ['N2kMsg.cpp', 'N2kStream.cpp', 'N2kTimer.cpp'],
    # -O0: 'never reads beyond the terminator' is a statement about the source; at -O1 the compiler deletes loads whose
    # value is unused (e.g. the last `byte=*str` of N2kRequireUnicode before `return true`), hiding a real over-read
    'cxxflags': ['-O0'],
    'translators': ['constants'],
    'lean_modules': ['N2k.Props.Consts.C16', 'N2k.Props.C16'], 'props_files': ['N2k/Props/Consts/C16.lean', 'N2k/Props/C16.lean'],
    'case_start': ['addstr', 'addais', 'addvar', 'getstr1', 'getstr', 'getvar', 'rtstr', 'rtais', 'rtvar',
                   'addvar2', 'rtvar2', 'addbuf', 'getbuf', 'getbuf0', 'rtbuf'],
    'trusted_base': [
        "model N2k/Model/Text.lean transcribes by hand AddStr/SetBufStr, AddAISStr, AddVarStr, GetStr (both), GetVarStr, "
        "AddVarStr(str), AddBuf, GetBuf, N2kRequireUnicode, N2kUTF8SeqBytes, N2kUTF8ToUCS2, N2kUTF8ToASCII, N2kUCS2ToUTF8 of N2kMsg.cpp (as fixed in the "
        "worktree); tied to the compiled code only by the differential run (whole 223-byte Data array / whole destination "
        "compared byte for byte per op)",
        "C string memory is `bytes ++ [0]` with a pointer = remaining suffix; payload and destination are Nat->Nat with "
        "bounds-checked access; lengths/indices/maxima are Nat (int/size_t far from overflow: maxima <= 255, sizes <= 300)",
        "toupper() in the C locale; strlen() as a primitive; UsePgm=false (pgm_read_byte is a plain read off AVR)",
        "harness: read-behind-terminator observed by a PROT_NONE guard page (SIGSEGV caught) and by ASan on exact-size "
        "malloc blocks; payload overrun observed by comparing the tN2kMsg object outside Data/DataLen with a snapshot; "
        "reads at index >= DataLen observed as dependence of the result on the stale bytes (two runs)",
    ],
    'assumptions': [
        "non-null string and destination pointers (the null-pointer early-outs are not modelled)",
        "0 <= DataLen <= 223 and Index >= 0 on entry; maxima and lengths are non-negative (a negative len makes "
        "AddAISStr DECREASE DataLen - outside the property's quantifier, not modelled)",
        "AddBuf/GetBuf: the caller's array really has bufLen / Length bytes; lengths far below SIZE_MAX (DataLen+bufLen "
        "does not wrap)",
        "AddStr: the maximum fits the remaining payload (stated precondition; C16_addStr_overflow_witness shows why)",
        "unsized GetStr(char*,size_t,int&): destination of at least Length+1 bytes (it has no size parameter; "
        "C16_getStr1_contract_witness shows the overrun otherwise)",
    ],
}
MANIFEST = {
    'text': "Lean theorems over a checked-memory model (any fault = out-of-bounds access): for EVERY source byte string "
            "(invalid/truncated UTF-8 included), fill level 0..223, maximum, policy and stale payload content AddAISStr/"
            "AddVarStr (and AddStr when the maximum fits) never fault, keep DataLen <= 223 and append a payload-independent, "
            "well-formed field (length byte = 2 + body, type 0/1 as N2kRequireUnicode and the policy require); for EVERY "
            "payload, index, length/type byte and destination size (0 included) GetStr/GetVarStr never fault and "
            "NUL-terminate; round trips proved for fixed fields, AIS fields (upper-cased / replaced), and variable fields "
            "at every fill level: ASCII verbatim, well-formed UTF-8 through UCS-2 (2-/3-byte sequences preserved, 4-byte "
            "sequences -> '?', cut at whole characters) and through the ASCII-only policy (multi-byte -> '?'); AddVarStr(str) "
            "round trip for text that fits; AddBuf clips to the free payload and changes nothing else, GetBuf copies exactly "
            "Length bytes or refuses without writing, arrays come back in sequence. The "
            "model is tied to N2kMsg.cpp by a correspondence run on exact-size heap buffers and a guard page, with an "
            "independent oracle (sanitizer, guard page, object snapshot, stale-byte independence, reference UTF-8 decoder).",
    'design_ref': 'DESIGN.md section 4, C16',
    'note': "Trusted: Lean kernel; hand transcription validated only by differential runs; Nat for int/size_t; non-null "
            "pointers; DataLen<=223, Index>=0; C-locale toupper. Three defects of the pinned tree are fixed in the "
            "worktree (read behind the terminator for cut sequences, unhandled invalid lead bytes, UCS-2 field one "
            "character short) and the model follows the fixed code.",
}
