import N2k.Basic.Time
import N2k.Gen.PgnTables
import N2k.Model.Send
/-!
# Receive path of `tNMEA2000` (`src/NMEA2000.cpp`, `src/N2kCANMsg.h`): frames → messages

Transcription map (code as it is after the two `fix:` commits of `known_findings.d/C02.json`)
* `CanIdToN2k`                           → `N2k.Send.canIdToN2k` (reused), wrapped by `decode`
* `CheckKnownMessage` (default lists)    → `known` / `isFP` (tables from `Gen.PgnTables`, regenerated every run)
* `IsFastPacketFirstFrame`               → `f.byte 0 % 32 = 0`
* `tN2kCANMsg` / `FreeMessage`           → `Slot` / `freeSlot` (`CopiedLen` = `data.length`)
* `CopyBufToCANMsg`                      → `copy`
* `FindFreeCANMsgIndex` (non-TP call)    → `findFree` : slot of the same PGN and source, else first free slot,
                                           else the oldest slot if it is older than 100 ms (`oldest`, modulo 2^32)
* `SetN2kCANBufMsg`                      → `rxCore` (continuation lookup `findSlot`, first/single frame `initSlot`)
* `ParseMessages` deliver + `FreeMessage`→ `finish`
* `HandleOnlyKnownMessages` gate, TP gate→ `handled`, `rx`

`Slot.hist` is GHOST state: the frames accepted into the slot since its first frame. No function of the model
reads it (it is only written), the theorems are stated with it.

* `TestHandleTPMessage`, TP.CM RTS/BAM branch only → `rxTPOpen` (a slot opened by TP.CM carries `tp = true` and is never a
                                           fast-packet continuation target; `FreeMessage` does not reset the flag)
* application PGN lists (`Set/ExtendSingleFrameMessages`, `Set/ExtendFastPacketMessages`) → `Cfg.sf0/sf1/fp0/fp1`

Not modelled here (property C10): TP.DT (60160) and the other TP.CM control bytes – such frames leave the state
unchanged in the model and are never generated; what the node does with a delivered system message (listen-only
node: nothing).
-/
namespace N2k.Rx
open N2k.Time

/-- a received CAN frame after `CanIdToN2k`; `b` are the 8 bytes of the driver's buffer, `len` the DLC -/
structure Frame where
  prio : Nat
  pgn : Nat
  src : Nat
  dst : Nat
  len : Nat
  b : List Nat
  deriving Repr, DecidableEq

def Frame.byte (f : Frame) (i : Nat) : Nat := f.b.getD i 0

/-- what the CAN driver hands over: an 8 byte buffer and a DLC of at most 8 -/
def WFrame (f : Frame) : Prop := f.b.length = 8 ∧ f.len ≤ 8

instance (f : Frame) : Decidable (WFrame f) := by unfold WFrame; infer_instance

/-- `CanIdToN2k` + the driver buffer (bytes beyond the DLC are the buffer's previous content: `fill`) -/
def decode (id len : Nat) (bytes : List Nat) (fill : Nat := 0xAA) : Frame :=
  let r := N2k.Send.canIdToN2k id
  ⟨r.1, r.2.1, r.2.2.1, r.2.2.2, len, (bytes ++ List.replicate 8 fill).take 8⟩

structure Slot where
  free : Bool
  pgn : Nat
  src : Nat
  dst : Nat
  prio : Nat
  tp : Bool                -- N2kMsg.IsTPMessage()
  lastFrame : Nat
  dataLen : Nat
  data : List Nat          -- Data[0..CopiedLen)
  msgTime : Nat
  hist : List Frame        -- GHOST
  deriving Repr

structure Msg where
  prio : Nat
  pgn : Nat
  src : Nat
  dst : Nat
  len : Nat
  data : List Nat          -- Data[0..DataLen)
  deriving Repr, DecidableEq

def emptySlot : Slot := ⟨true, 0, 0, 0, 0, false, 0, 0, [], 0, []⟩

/-- `FreeMessage()` (the TP flag of `N2kMsg` is not touched) -/
def freeSlot (s : Slot) : Slot :=
  { s with free := true, pgn := 0, src := 0, dataLen := 0, msgTime := 0, hist := [] }

/-- `CopyBufToCANMsg(msg, start, len, buf)`; `MaxDataLen` = 223 -/
def copy (data : List Nat) (start : Nat) (f : Frame) : List Nat :=
  data ++ (((f.b.take f.len).drop start).take (223 - data.length))

structure St where
  N : Nat                  -- MaxN2kCANMsgs
  slot : Nat → Slot

def init (n : Nat) : St := ⟨n, fun _ => emptySlot⟩

/-- first index `i ≥ start` (`i < N`) with `p (slot i)`; a value `≥ N` if none -/
def findFirst (st : St) (p : Slot → Bool) : Nat → Nat → Nat
  | 0, i => i
  | fuel+1, i => if i < st.N then (if p (st.slot i) then i else findFirst st p fuel (i+1)) else i

/-- the oldest-slot scan of `FindFreeCANMsgIndex` over slots `[0, k)`: (OldestIndex, OldestMsgTime) -/
def oldest (st : St) (now : Nat) : Nat → Nat × Nat
  | 0 => (st.N, millis32 now)
  | k+1 =>
    if isTimeBefore (st.slot k).msgTime (oldest st now k).2 then (k, (st.slot k).msgTime)
    else oldest st now k

/-- the slot key used by both fast-packet lookups: PGN and source, and not a TP slot -/
def matchP (f : Frame) (s : Slot) : Bool := s.pgn == f.pgn && s.src == f.src && !s.tp

def findSlot (st : St) (f : Frame) : Nat := findFirst st (matchP f) st.N 0

def findFreeOnly (st : St) : Nat := findFirst st (fun s => s.free) st.N 0

def recycle (st : St) (now : Nat) : Nat :=
  if hasElapsed (oldest st now st.N).2 100 (millis32 now) then (oldest st now st.N).1 else st.N

def findFree (st : St) (now : Nat) (f : Frame) : Nat :=
  if findSlot st f < st.N then findSlot st f
  else if findFreeOnly st < st.N then findFreeOnly st
  else recycle st now

def setSlot (st : St) (i : Nat) (s : Slot) : St :=
  { st with slot := fun j => if j = i then s else st.slot j }

def msgOf (s : Slot) : Msg := ⟨s.prio, s.pgn, s.src, s.dst, s.dataLen, s.data.take s.dataLen⟩

/-- `Ready` test, then deliver + `FreeMessage` (ParseMessages), or keep the slot -/
def finish (st : St) (i : Nat) (s' : Slot) : St × Option Msg :=
  if s'.data.length ≥ s'.dataLen then (setSlot st i (freeSlot s'), some (msgOf s'))
  else (setSlot st i s', none)

def initSlot (old : Slot) (now : Nat) (f : Frame) (fp : Bool) : Slot :=
  if fp then
    { old with free := false, pgn := f.pgn, src := f.src, dst := f.dst, prio := f.prio % 8, tp := false,
               msgTime := millis32 now, hist := [f],
               data := copy [] 2 f, lastFrame := f.byte 0, dataLen := f.byte 1 }
  else
    { old with free := false, pgn := f.pgn, src := f.src, dst := f.dst, prio := f.prio % 8, tp := false,
               msgTime := millis32 now, hist := [f],
               data := copy [] 0 f, lastFrame := 0, dataLen := f.len }

/-- continuation-frame branch: the slot accepted the frame -/
def contSlot (s : Slot) (f : Frame) : Slot :=
  { s with lastFrame := f.byte 0, data := copy s.data 1 f, hist := s.hist ++ [f] }

/-- `SetN2kCANBufMsg` (after the TP and known-message gates) + deliver/free of `ParseMessages` -/
def rxCore (isFP : Nat → Bool) (st : St) (now : Nat) (f : Frame) : St × Option Msg :=
  if isFP f.pgn && f.byte 0 % 32 != 0 then
    if findSlot st f < st.N then
      if (st.slot (findSlot st f)).lastFrame + 1 = f.byte 0 then
        finish st (findSlot st f) (contSlot (st.slot (findSlot st f)) f)
      else (setSlot st (findSlot st f) (freeSlot (st.slot (findSlot st f))), none)
    else (st, none)
  else
    if findFree st now f < st.N then
      finish st (findFree st now f) (initSlot (st.slot (findFree st now f)) now f (isFP f.pgn))
    else (st, none)

/-! ## classification (`CheckKnownMessage`, default lists) and the gates -/

structure Cfg where
  knownOnly : Bool := false                 -- HandleOnlyKnownMessages()
  sf0 : Option (List Nat) := none           -- SingleFrameMessages[0]  (SetSingleFrameMessages)
  sf1 : Option (List Nat) := none           -- SingleFrameMessages[1]  (ExtendSingleFrameMessages)
  fp0 : Option (List Nat) := none           -- FastPacketMessages[0]   (SetFastPacketMessages)
  fp1 : Option (List Nat) := none           -- FastPacketMessages[1]   (ExtendFastPacketMessages)

/-- the list search of `CheckKnownMessage` for a PGN ≠ 0 (the lists are 0-terminated arrays of non-zero PGNs) -/
def inL (l : Option (List Nat)) (pgn : Nat) : Bool :=
  match l with
  | none => false
  | some xs => xs.contains pgn

/-- `CheckKnownMessage`: (KnownMessage, FastPacket); the tests are made in this order and each one returns -/
def classify (c : Cfg) (pgn : Nat) : Bool × Bool :=
  if pgn = 0 then (false, false)
  else if c.sf0.isNone && Gen.isDefaultSingleFrameMessage.contains pgn then (true, false)
  else if Gen.isMandatoryFastPacketMessage.contains pgn then (true, true)
  else if c.fp0.isNone && Gen.isDefaultFastPacketMessage.contains pgn then (true, true)
  else if Gen.isSingleFrameSystemMessage.contains pgn then (true, false)
  else if Gen.isFastPacketSystemMessage.contains pgn then (true, true)
  else if inL c.sf0 pgn then (true, false)
  else if inL c.fp0 pgn then (true, true)
  else if inL c.sf1 pgn then (true, false)
  else if inL c.fp1 pgn then (true, true)
  else (false, Gen.isProprietaryFastPacketMessage pgn)

def known (c : Cfg) (pgn : Nat) : Bool := (classify c pgn).1
def isFP (c : Cfg) (pgn : Nat) : Bool := (classify c pgn).2

/-- ISO-TP connection management / data transfer: handled by `TestHandleTPMessage` -/
def isTP (pgn : Nat) : Bool := pgn == 60416 || pgn == 60160

/-- TP.CM with control byte RTS (16) or BAM (32): opens a TP reassembly session in a slot -/
def isTPOpen (f : Frame) : Bool := f.pgn == 60416 && (f.byte 0 == 16 || f.byte 0 == 32)

def handled (c : Cfg) (f : Frame) : Bool := !isTP f.pgn && (known c f.pgn || !c.knownOnly)

/-! ## TP.CM RTS / BAM: a slot is taken by a TP session (receiver side of C10, only as far as it occupies slots) -/

def tpMatchP (pgn src dst : Nat) (s : Slot) : Bool := s.pgn == pgn && s.src == src && s.tp && s.dst == dst

/-- the loop that frees the unfinished TP transfers of this source to this destination -/
def tpClear (st : St) (src dst : Nat) : St :=
  { st with slot := fun j =>
      if !(st.slot j).free && (st.slot j).tp && (st.slot j).src == src && (st.slot j).dst == dst
      then freeSlot (st.slot j) else st.slot j }

/-- `Init(7,TransportPGN,Source,Destination)`, `CopiedLen=0`, `LastFrame=0`, `DataLen=nBytes`, `SetIsTPMessage()` -/
def tpSlot (old : Slot) (now pgn src dst nBytes : Nat) : Slot :=
  { old with free := false, pgn := pgn, src := src, dst := dst, prio := 7, tp := true,
             msgTime := millis32 now, hist := [], data := [], lastFrame := 0, dataLen := nBytes }

/-- the slot is used if the announced size fits and the transported PGN passes the known-message gate -/
def tpUse (ok : Bool) (st : St) (i : Nat) (now pgn src dst nBytes : Nat) : St :=
  if ok then setSlot st i (tpSlot (st.slot i) now pgn src dst nBytes) else st

def rxTPOpen (c : Cfg) (st : St) (now : Nat) (f : Frame) : St :=
  let tpgn := f.byte 5 + 256 * f.byte 6 + 65536 * f.byte 7
  let nBytes := f.byte 1 + 256 * f.byte 2
  let ok := decide (nBytes ≤ 223) && (known c tpgn || !c.knownOnly)
  let st1 := tpClear st f.src f.dst
  -- FindFreeCANMsgIndex(TransportPGN,Source,Destination,true,MsgIndex)
  if findFirst st1 (tpMatchP tpgn f.src f.dst) st1.N 0 < st1.N then
    tpUse ok st1 (findFirst st1 (tpMatchP tpgn f.src f.dst) st1.N 0) now tpgn f.src f.dst nBytes
  else if findFreeOnly st1 < st1.N then tpUse ok st1 (findFreeOnly st1) now tpgn f.src f.dst nBytes
  else if recycle st1 now < st1.N then
    tpUse ok (setSlot st1 (recycle st1 now) (freeSlot (st1.slot (recycle st1 now)))) (recycle st1 now)
      now tpgn f.src f.dst nBytes
  else st1

/-- one received frame at virtual time `now` -/
def rx (c : Cfg) (st : St) (now : Nat) (f : Frame) : St × Option Msg :=
  if handled c f then rxCore (isFP c) st now f
  else if isTPOpen f then (rxTPOpen c st now f, none)
  else (st, none)

/-! ## whole frame histories: a list of (arrival time, frame) -/

def run (c : Cfg) (st : St) : List (Nat × Frame) → St
  | [] => st
  | e :: rest => run c (rx c st e.1 e.2).1 rest

/-- the delivery made by each frame of the history, aligned with it -/
def outputs (c : Cfg) (st : St) : List (Nat × Frame) → List (Option Msg)
  | [] => []
  | e :: rest => (rx c st e.1 e.2).2 :: outputs c (rx c st e.1 e.2).1 rest

/-- the messages handed to the application, in order -/
def delivered (c : Cfg) (st : St) (evs : List (Nat × Frame)) : List Msg := (outputs c st evs).filterMap id

end N2k.Rx
