/-!
# Abstract queues (specification side of C20)

* `Fifo`  : a bounded list.
* `PLog`  : the priority ring as a *log* of entries `(value, some priority)` from the oldest value still
  stored to the newest; an entry whose value has been read is marked dead (`none`) and stays in the log
  until every older entry is dead too ("the ring does not compact slots released out of order").
-/
namespace N2k.Spec

/-! ## operations and observable outputs (shared vocabulary of model and specification) -/

inductive Op where
  | add (v p : Nat)      -- `add(v,p)` / `getAddRef(p)` + store     (plain ring ignores `p`)
  | readP (p : Nat)      -- `getReadRef(p)`                         (priority ring only)
  | read                 -- `read` / `getReadRef()`  (priority ring: lowest non-empty priority)
  | peek                 -- plain ring only
  | clear
  | count
  | empty (p : Nat)      -- `isEmpty(p)`; plain ring ignores `p`

inductive Out where
  | bool (b : Bool)
  | val (o : Option Nat)
  | valp (o : Option (Nat × Nat))
  | num (n : Nat)
  | unit
  deriving DecidableEq, Repr


/-! ## bounded FIFO -/

structure Fifo where
  cap : Nat            -- size - 1
  items : List Nat     -- oldest first

def Fifo.new (size : Nat) : Fifo := { cap := (if size < 3 then 3 else size) - 1, items := [] }
def Fifo.add (q : Fifo) (v : Nat) : Fifo × Bool :=
  if q.items.length = q.cap then (q, false) else ({ q with items := q.items ++ [v] }, true)
def Fifo.read (q : Fifo) : Fifo × Option Nat :=
  match q.items with
  | [] => (q, none)
  | a :: t => ({ q with items := t }, some a)
def Fifo.peek (q : Fifo) : Option Nat := q.items.head?
def Fifo.clear (q : Fifo) : Fifo := { q with items := [] }
def Fifo.count (q : Fifo) : Nat := q.items.length
def Fifo.isEmpty (q : Fifo) : Bool := q.items.isEmpty

/-! ## priority log -/

abbrev Entry := Nat × Option Nat     -- (value, some priority) alive / (value, none) dead

structure PLog where
  cap : Nat            -- size - 1
  P : Nat              -- number of priorities, 1..254
  log : List Entry

def PLog.new (size prios : Nat) : PLog :=
  { cap := (if size < 3 then 3 else size) - 1
    P := if prios < 1 then 1 else if prios = 255 then 254 else prios
    log := [] }

/-- out-of-range priorities act as the highest valid one -/
def PLog.clamp (q : PLog) (p : Nat) : Nat := if p ≥ q.P then q.P - 1 else p

/-- value of the oldest alive entry of priority `p` -/
def firstOf (p : Nat) : List Entry → Option Nat
  | [] => none
  | (v, q) :: t => if q = some p then some v else firstOf p t

/-- mark the oldest alive entry of priority `p` dead -/
def markFirst (p : Nat) : List Entry → List Entry
  | [] => []
  | (v, q) :: t => if q = some p then (v, none) :: t else (v, q) :: markFirst p t

def isDead (e : Entry) : Bool := e.2 == none

/-- an add is refused exactly when `cap` entries (alive or dead) are in the log -/
def PLog.add (q : PLog) (v p : Nat) : PLog × Bool :=
  if q.log.length = q.cap then (q, false)
  else ({ q with log := q.log ++ [(v, some (q.clamp p))] }, true)

def PLog.readP (q : PLog) (p : Nat) : PLog × Option Nat :=
  match firstOf (q.clamp p) q.log with
  | none => (q, none)
  | some v => ({ q with log := (markFirst (q.clamp p) q.log).dropWhile isDead }, some v)

def hasPrio (l : List Entry) (p : Nat) : Bool := (firstOf p l).isSome

/-- numerically lowest priority with an alive entry; `k` = priorities still to scan -/
def lowest (l : List Entry) : Nat → Nat → Option Nat
  | 0, _ => none
  | k+1, p => if hasPrio l p then some p else lowest l k (p + 1)

def PLog.readAny (q : PLog) : PLog × Option (Nat × Nat) :=
  match lowest q.log q.P 0 with
  | none => (q, none)
  | some p => match q.readP p with
    | (q', some v) => (q', some (v, p))
    | (q', none) => (q', none)

def PLog.clear (q : PLog) : PLog := { q with log := [] }
def PLog.count (q : PLog) : Nat := q.log.length
def PLog.isEmpty (q : PLog) (p : Nat) : Bool := if p ≥ q.P then q.log.isEmpty else !(hasPrio q.log p)

/-- the alive values with their priorities, oldest first (what the buffer "holds") -/
def aliveOf (l : List Entry) : List (Nat × Nat) :=
  l.filterMap fun e => e.2.map fun p => (e.1, p)

/-! ## step functions of the specifications -/

/-- plain ring, specification -/
def stepFifo (q : Fifo) : Op → Fifo × Out
  | .add v _ => ((q.add v).1, .bool (q.add v).2)
  | .readP _ => (q, .unit)
  | .read => (q.read.1, .val q.read.2)
  | .peek => (q, .val q.peek)
  | .clear => (q.clear, .unit)
  | .count => (q, .num q.count)
  | .empty _ => (q, .bool q.isEmpty)

/-- priority ring, specification -/
def stepPLog (q : PLog) : Op → PLog × Out
  | .add v p => ((q.add v p).1, .bool (q.add v p).2)
  | .readP p => ((q.readP p).1, .val (q.readP p).2)
  | .read => (q.readAny.1, .valp q.readAny.2)
  | .peek => (q, .unit)
  | .clear => (q.clear, .unit)
  | .count => (q, .num q.count)
  | .empty p => (q, .bool (q.isEmpty p))


end N2k.Spec
