import N2k.Lemmas.HandlersChain
/-! C14: every operation keeps the invariant and refines the history specification. -/
namespace N2k.Handlers

theorem SpecSt.ext' {s t : SpecSt} (h1 : s.h = t.h) (h2 : s.cb = t.cb) : s = t := by
  cases s; cases t; simp_all

theorem view_h (w : World) (i : Id) : (view w).h i = (w.obj i).map fun o => (o.pgn, o.owner) := rfl

theorem ownerOf_of_view {w w' : World} {i : Id} (h : (view w').h i = (view w).h i) : ownerOf w' i = ownerOf w i := by
  rw [view_h, view_h] at h
  unfold ownerOf
  cases h1 : w'.obj i <;> cases h2 : w.obj i <;> simp [h1, h2] at h ⊢
  exact h.2

theorem pgnOf_of_view {w w' : World} {i : Id} (h : (view w').h i = (view w).h i) : pgnOf w' i = pgnOf w i := by
  rw [view_h, view_h] at h
  unfold pgnOf
  cases h1 : w'.obj i <;> cases h2 : w.obj i <;> simp [h1, h2] at h ⊢
  exact h.1

theorem seg_first {w : World} {p q : Option Id} : ∀ {l : List Id}, Seg w p l q → l ≠ [] → ∃ a, a ∈ l ∧ p = some a
  | [], _, h => absurd rfl h
  | a :: _, hs, _ => ⟨a, List.mem_cons_self, hs.1⟩

/-- a bus whose objects were not touched keeps its list -/
theorem busInv_frame {w w' : World} {c : BusId} {l : List Id} (hb : BusInv w c l) (hh : w'.head c = w.head c)
    (hobj : ∀ i, i ∈ l → w'.obj i = w.obj i) (hown : ∀ i, ownerOf w' i = some c → ownerOf w i = some c) :
    BusInv w' c l where
  chain := by rw [hh]; exact seg_congr hobj hb.chain
  nodup := hb.nodup
  mem := by
    intro i
    constructor
    · intro hi; rw [ownerOf_congr (hobj i hi)]; exact (hb.mem i).1 hi
    · intro hi; exact (hb.mem i).2 (hown i hi)
  sorted := by
    apply List.Pairwise.imp_of_mem _ hb.sorted
    intro a b ha hb' h
    rw [pgnOf_congr (hobj a ha), pgnOf_congr (hobj b hb')]; exact h

/-- an operation on handler `h` that only rewrites `h` and objects of bus `b` keeps everything else -/
theorem inv_of_bus_step {w w' : World} {b : BusId} {h : Id} (hi : Inv w)
    (hlive : ∃ o, w.obj h = some o)
    (hhc : ∀ c, c ≠ b → ownerOf w h ≠ some c)
    (touch : ∀ i, i ≠ h → ownerOf w i ≠ some b → w'.obj i = w.obj i)
    (own : ∀ i, i ≠ h → ownerOf w' i = ownerOf w i)
    (ownh : ∀ c, c ≠ b → ownerOf w' h ≠ some c)
    (heads : ∀ c, c ≠ b → w'.head c = w.head c)
    (bound : w'.bound = w.bound)
    (newb : ∃ l, BusInv w' b l)
    (freeh : ∀ o, w'.obj h = some o → o.owner = none → o.next = none) : Inv w' where
  bus := by
    intro c
    by_cases hc : c = b
    · subst hc; exact newb
    · obtain ⟨lc, hlc⟩ := hi.bus c
      refine ⟨lc, busInv_frame hlc (heads c hc) ?_ ?_⟩
      · intro i hil
        have hoi := (hlc.mem i).1 hil
        apply touch
        · intro e; subst e; exact hhc c hc hoi
        · rw [hoi]; intro e; exact hc (Option.some.inj e)
      · intro i hoi
        by_cases e : i = h
        · subst e; exact absurd hoi (ownh c hc)
        · rw [← own i e]; exact hoi
  free := by
    intro i o' ho' hn
    by_cases e : i = h
    · subst e; exact freeh o' ho' hn
    · have h1 : ownerOf w i = none := by rw [← own i e, ownerOf_eq ho']; exact hn
      have h2 := touch i e (by rw [h1]; intro x; cases x)
      rw [h2] at ho'; exact hi.free i o' ho' hn
  bnd := by
    intro i o' ho'
    rw [bound]
    by_cases e : i = h
    · subst e; obtain ⟨o, ho⟩ := hlive; exact hi.bnd i o ho
    · by_cases hob : ownerOf w i = some b
      · obtain ⟨o, ho, _⟩ := ownerOf_some hob; exact hi.bnd i o ho
      · rw [touch i e hob] at ho'; exact hi.bnd i o' ho'

/-- list facts after taking `h` out -/
theorem remove_facts {w w' : World} {b : BusId} {h : Id} {l1 l2 : List Id} (hb : BusInv w b (l1 ++ h :: l2))
    (hv : ∀ i, i ≠ h → (view w').h i = (view w).h i) (hh : ownerOf w' h = none) :
    (l1 ++ l2).Nodup ∧ (∀ i, i ∈ l1 ++ l2 ↔ ownerOf w' i = some b) ∧
    (l1 ++ l2).Pairwise (fun i j => pgnOf w' i ≤ pgnOf w' j) := by
  have hsub : (l1 ++ l2).Sublist (l1 ++ h :: l2) := List.Sublist.append (List.Sublist.refl l1) (List.sublist_cons_self h l2)
  have hnd := hb.nodup
  have hnotin : h ∉ l1 ++ l2 := by
    rw [List.nodup_append] at hnd
    obtain ⟨_, h2, h3⟩ := hnd
    rw [List.nodup_cons] at h2
    intro hm
    rcases List.mem_append.1 hm with hm | hm
    · exact h3 h hm h List.mem_cons_self rfl
    · exact h2.1 hm
  refine ⟨hb.nodup.sublist hsub, ?_, ?_⟩
  · intro i
    by_cases e : i = h
    · subst e; rw [hh]; constructor
      · intro hm; exact absurd hm hnotin
      · intro x; cases x
    · rw [ownerOf_of_view (hv i e), ← hb.mem i]
      simp [List.mem_append, e]
  · apply List.Pairwise.imp_of_mem _ (hb.sorted.sublist hsub)
    intro x y hx hy hxy
    have ex : x ≠ h := fun e => hnotin (e ▸ hx)
    have ey : y ≠ h := fun e => hnotin (e ▸ hy)
    rw [pgnOf_of_view (hv x ex), pgnOf_of_view (hv y ey)]; exact hxy

/-- list facts after putting `h` (PGN `p`) between `l1` and `l2` -/
theorem insert_facts {w w' : World} {b : BusId} {h : Id} {p : Nat} {l1 l2 : List Id} (hb : BusInv w b (l1 ++ l2))
    (hw : ownerOf w h = none) (hv : ∀ i, i ≠ h → (view w').h i = (view w).h i)
    (hh : ownerOf w' h = some b) (hp : pgnOf w' h = p)
    (hle : ∀ x, x ∈ l1 → pgnOf w x ≤ p) (hge : ∀ y, y ∈ l2 → p ≤ pgnOf w y) :
    (l1 ++ h :: l2).Nodup ∧ (∀ i, i ∈ l1 ++ h :: l2 ↔ ownerOf w' i = some b) ∧
    (l1 ++ h :: l2).Pairwise (fun i j => pgnOf w' i ≤ pgnOf w' j) := by
  have hnotin : h ∉ l1 ++ l2 := by
    intro hm; have := (hb.mem h).1 hm; rw [hw] at this; cases this
  have hn1 : h ∉ l1 := fun hm => hnotin (List.mem_append.2 (Or.inl hm))
  have hn2 : h ∉ l2 := fun hm => hnotin (List.mem_append.2 (Or.inr hm))
  have hnd := hb.nodup
  rw [List.nodup_append] at hnd
  obtain ⟨d1, d2, d3⟩ := hnd
  have hsrt := hb.sorted
  rw [List.pairwise_append] at hsrt
  obtain ⟨s1, s2, s3⟩ := hsrt
  have pg : ∀ x, x ≠ h → pgnOf w' x = pgnOf w x := fun x ex => pgnOf_of_view (hv x ex)
  refine ⟨?_, ?_, ?_⟩
  · rw [List.nodup_append]
    refine ⟨d1, List.nodup_cons.2 ⟨hn2, d2⟩, ?_⟩
    intro a ha c hc
    rcases List.mem_cons.1 hc with hc | hc
    · subst hc; intro e; subst e; exact hn1 ha
    · exact d3 a ha c hc
  · intro i
    by_cases e : i = h
    · subst e; simp [hh]
    · rw [ownerOf_of_view (hv i e), ← hb.mem i]
      simp [List.mem_append, e]
  · rw [List.pairwise_append]
    refine ⟨?_, ?_, ?_⟩
    · apply List.Pairwise.imp_of_mem _ s1
      intro x y hx hy hxy
      rw [pg x (fun e => hn1 (e ▸ hx)), pg y (fun e => hn1 (e ▸ hy))]; exact hxy
    · rw [List.pairwise_cons]
      constructor
      · intro y hy
        rw [hp, pg y (fun e => hn2 (e ▸ hy))]; exact hge y hy
      · apply List.Pairwise.imp_of_mem _ s2
        intro x y hx hy hxy
        rw [pg x (fun e => hn2 (e ▸ hx)), pg y (fun e => hn2 (e ▸ hy))]; exact hxy
    · intro x hx y hy
      rw [pg x (fun e => hn1 (e ▸ hx))]
      rcases List.mem_cons.1 hy with hy | hy
      · subst hy; rw [hp]; exact hle x hx
      · rw [pg y (fun e => hn2 (e ▸ hy))]; exact s3 x hx y hy

/-! ### `DetachMsgHandler` -/

theorem detach_ok {w : World} {h : Id} {o : Obj} (hi : Inv w) (ho : w.obj h = some o) :
    ∃ w', detach w h = some w' ∧ Inv w' ∧ w'.obj h = some ⟨o.pgn, none, none⟩ ∧
      (∀ i, i ≠ h → (view w').h i = (view w).h i) ∧ w'.cb = w.cb ∧ w'.bound = w.bound := by
  cases hown : o.owner with
  | none =>
    have hnx := hi.free h o ho hown
    refine ⟨w, by simp [detach, ho, hown], hi, ?_, fun _ _ => rfl, rfl, rfl⟩
    rw [ho]; cases o; simp_all
  | some b =>
    obtain ⟨l, hb⟩ := hi.bus b
    have hmem : h ∈ l := (hb.mem h).2 (by rw [ownerOf_eq ho]; exact hown)
    obtain ⟨l1, l2, hl⟩ := List.append_of_mem hmem
    subst hl
    have hfuel := chain_fuel hi hb
    obtain ⟨r, hs1, hs2⟩ := seg_append.1 hb.chain
    have hr : r = some h := seg_head hs2
    subst hr
    have hs3 : Seg w o.next l2 none := seg_next ho hs2
    have hnd := hb.nodup
    rw [List.nodup_append, List.nodup_cons] at hnd
    obtain ⟨d1, ⟨d2, d3⟩, d4⟩ := hnd
    have hn1 : h ∉ l1 := fun hm => d4 h hm h List.mem_cons_self rfl
    -- the common end of both cases
    have fin : ∀ w1 : World, w1.obj h = some o → (∀ i, i ≠ h → (view w1).h i = (view w).h i) →
        (∀ i, i ≠ h → ownerOf w i ≠ some b → w1.obj i = w.obj i) → (∀ c, c ≠ b → w1.head c = w.head c) →
        w1.bound = w.bound → w1.cb = w.cb → Seg w1 (w1.head b) (l1 ++ l2) none → unlink w h o b = some w1 →
        ∃ w', detach w h = some w' ∧ Inv w' ∧ w'.obj h = some ⟨o.pgn, none, none⟩ ∧
          (∀ i, i ≠ h → (view w').h i = (view w).h i) ∧ w'.cb = w.cb ∧ w'.bound = w.bound := by
      intro w1 h1 hv1 ht1 hh1 hbd1 hcb1 hseg1 hun
      let w' := setObj (setObj w1 h (some ⟨o.pgn, some b, none⟩)) h (some ⟨o.pgn, none, none⟩)
      have hw'h : w'.obj h = some ⟨o.pgn, none, none⟩ := by simp [w']
      have hw'o : ∀ i, i ≠ h → w'.obj i = w1.obj i := by intro i e; simp [w', e]
      have hv' : ∀ i, i ≠ h → (view w').h i = (view w).h i := by
        intro i e; rw [← hv1 i e, view_h, view_h, hw'o i e]
      have hoh : ownerOf w' h = none := by rw [ownerOf_eq hw'h]
      obtain ⟨f1, f2, f3⟩ := remove_facts hb hv' hoh
      refine ⟨w', ?_, ?_, hw'h, hv', hcb1, hbd1⟩
      · have e1 : wrNext w1 h none = some (setObj w1 h (some ⟨o.pgn, some b, none⟩)) := by
          rw [← hown]; exact wrNext_eq h1 none
        have e2 : wrOwner (setObj w1 h (some ⟨o.pgn, some b, none⟩)) h none = some w' :=
          wrOwner_eq (o := ⟨o.pgn, some b, none⟩) (by simp) none
        simp [detach, ho, hown, hun, e1, e2]
      · apply inv_of_bus_step (b := b) (h := h) hi ⟨o, ho⟩
        · intro c hc; rw [ownerOf_eq ho, hown]; intro e; exact hc (Option.some.inj e).symm
        · intro i e hob; rw [hw'o i e]; exact ht1 i e hob
        · intro i e; exact ownerOf_of_view (hv' i e)
        · intro c _; rw [hoh]; intro x; cases x
        · intro c hc; exact hh1 c hc
        · exact hbd1
        · refine ⟨l1 ++ l2, ?_, f1, f2, f3⟩
          show Seg w' (w1.head b) (l1 ++ l2) none
          apply seg_congr _ hseg1
          intro i hil
          apply hw'o
          intro e; subst e
          rcases List.mem_append.1 hil with hm | hm
          · exact hn1 hm
          · exact d2 hm
        · intro o' ho' _; rw [hw'h] at ho'; cases ho'; rfl
    rcases List.eq_nil_or_concat l1 with hl1 | ⟨l1', m, hl1⟩
    · -- `h` is the first handler of the bus
      subst hl1
      have hhead : w.head b = some h := hs1
      apply fin (setHead w b o.next) ho (fun _ _ => rfl) (fun _ _ _ => rfl)
      · intro c hc; simp [hc]
      · rfl
      · rfl
      · simp; exact seg_congr (w := w) (w' := setHead w b o.next) (fun _ _ => rfl) hs3
      · simp [unlink, hhead]
    · -- `h` has a predecessor `m`
      rw [List.concat_eq_append] at hl1
      subst hl1
      obtain ⟨r, hs4, hs5⟩ := seg_append.1 hs1
      have hr : r = some m := seg_head hs5
      subst hr
      have hmb : ownerOf w m = some b := (hb.mem m).1 (by simp)
      obtain ⟨om, hom, homb⟩ := ownerOf_some hmb
      have hmn : om.next = some h := seg_next hom hs5
      have hmh : m ≠ h := by
        intro e; apply hn1; rw [← e]; simp
      have hhead : w.head b ≠ some h := by
        obtain ⟨a, ha, hpa⟩ := seg_first hs1 (by simp)
        rw [hpa]; intro e
        exact hn1 ((Option.some.inj e) ▸ ha)
      have hfp : findPred w h (w.bound + 1) (w.head b) = some (some m) := by
        apply findPred_spec l1' (w.head b) (w.bound + 1) _ hmh hs1
        · simp at hfuel; omega
        · intro x hx e; apply hn1; rw [← e]; exact List.mem_append.2 (Or.inl hx)
      have hnd1 : (l1' ++ [m]).Nodup := d1
      rw [List.nodup_append] at hnd1
      have hm1 : m ∉ l1' := fun hm => hnd1.2.2 m hm m (by simp) rfl
      have hm2 : m ∉ l2 := fun hm => d4 m (by simp) m (List.mem_cons_of_mem _ hm) rfl
      let w1 := setObj w m (some ⟨om.pgn, om.owner, o.next⟩)
      apply fin w1
      · simp [w1, Ne.symm hmh]; exact ho
      · intro i _
        rw [view_h, view_h]
        by_cases e : i = m
        · subst e; simp [w1, hom]
        · simp [w1, e]
      · intro i _ hob
        have : i ≠ m := by intro e; subst e; exact hob hmb
        simp [w1, this]
      · intro c _; rfl
      · rfl
      · rfl
      · show Seg w1 (w.head b) (l1' ++ [m] ++ l2) none
        rw [List.append_assoc]
        apply seg_append.2
        refine ⟨some m, seg_congr ?_ hs4, ?_⟩
        · intro i hil
          have : i ≠ m := fun e => hm1 (e ▸ hil)
          simp [w1, this]
        · refine ⟨rfl, ⟨om.pgn, om.owner, o.next⟩, by simp [w1], ?_⟩
          apply seg_congr _ hs3
          intro i hil
          have : i ≠ m := fun e => hm2 (e ▸ hil)
          simp [w1, this]
      · simp [unlink, hhead, hfp]
        exact wrNext_eq hom o.next

/-! ### `AttachMsgHandler` -/

/-- the second half of `AttachMsgHandler`: link a detached handler and set its `pNMEA2000` -/
theorem link_ok {w : World} {b : BusId} {h : Id} {p : Nat} (hi : Inv w) (hh : w.obj h = some ⟨p, none, none⟩) :
    ∃ w2 w3, link w b h p = some w2 ∧ wrOwner w2 h (some b) = some w3 ∧ Inv w3 ∧
      (view w3).h h = some (p, some b) ∧ (∀ i, i ≠ h → (view w3).h i = (view w).h i) ∧
      w3.cb = w.cb ∧ w3.bound = w.bound := by
  obtain ⟨l, hb⟩ := hi.bus b
  have hfuel := chain_fuel hi hb
  have hwo : ownerOf w h = none := by rw [ownerOf_eq hh]
  have hnotin : h ∉ l := by intro hm; have := (hb.mem h).1 hm; rw [hwo] at this; cases this
  -- the common end of the three cases: the final world has `h` between `l1` and `l2`
  have fin : ∀ (w2 w3 : World) (l1 l2 : List Id) (n : Option Id), l = l1 ++ l2 →
      link w b h p = some w2 → wrOwner w2 h (some b) = some w3 →
      w3.obj h = some ⟨p, some b, n⟩ → (∀ i, i ≠ h → (view w3).h i = (view w).h i) →
      (∀ i, i ≠ h → ownerOf w i ≠ some b → w3.obj i = w.obj i) → (∀ c, c ≠ b → w3.head c = w.head c) →
      w3.bound = w.bound → w3.cb = w.cb → Seg w3 (w3.head b) (l1 ++ h :: l2) none →
      (∀ x, x ∈ l1 → pgnOf w x ≤ p) → (∀ y, y ∈ l2 → p ≤ pgnOf w y) →
      ∃ w2 w3, link w b h p = some w2 ∧ wrOwner w2 h (some b) = some w3 ∧ Inv w3 ∧
        (view w3).h h = some (p, some b) ∧ (∀ i, i ≠ h → (view w3).h i = (view w).h i) ∧
        w3.cb = w.cb ∧ w3.bound = w.bound := by
    intro w2 w3 l1 l2 n hl hlk hwr h3 hv3 ht3 hh3 hbd3 hcb3 hseg3 hle hge
    subst hl
    have hoh : ownerOf w3 h = some b := by rw [ownerOf_eq h3]
    have hph : pgnOf w3 h = p := by rw [pgnOf_eq h3]
    obtain ⟨f1, f2, f3⟩ := insert_facts hb hwo hv3 hoh hph hle hge
    refine ⟨w2, w3, hlk, hwr, ?_, by rw [view_h, h3]; rfl, hv3, hcb3, hbd3⟩
    apply inv_of_bus_step (b := b) (h := h) hi ⟨_, hh⟩
    · intro c _; rw [hwo]; intro x; cases x
    · exact ht3
    · intro i e; exact ownerOf_of_view (hv3 i e)
    · intro c hc; rw [hoh]; intro e; exact hc (Option.some.inj e).symm
    · exact hh3
    · exact hbd3
    · exact ⟨l1 ++ h :: l2, hseg3, f1, f2, f3⟩
    · intro o' ho' hn; rw [h3] at ho'; cases ho'; cases hn
  cases l with
  | nil =>
    have hhead : w.head b = none := hb.chain
    let w2 := setHead w b (some h)
    let w3 := setObj w2 h (some ⟨p, some b, none⟩)
    apply fin w2 w3 [] [] none rfl
    · simp [link, hhead, w2]
    · exact wrOwner_eq (w := w2) (o := ⟨p, none, none⟩) hh (some b)
    · simp [w3]
    · intro i e; rw [view_h, view_h]; simp [w3, w2, e]
    · intro i e _; simp [w3, w2, e]
    · intro c hc; simp [w3, w2, hc]
    · rfl
    · rfl
    · show Seg w3 (w3.head b) [h] none
      refine ⟨by simp [w3, w2], ⟨p, some b, none⟩, by simp [w3], rfl⟩
    · intro x hx; cases hx
    · intro y hy; cases hy
  | cons m t =>
    have hhead : w.head b = some m := seg_head hb.chain
    have hmb : ownerOf w m = some b := (hb.mem m).1 List.mem_cons_self
    obtain ⟨om, hom, _⟩ := ownerOf_some hmb
    have hchain : Seg w (some m) (m :: t) none := by rw [← hhead]; exact hb.chain
    have hsrt := hb.sorted
    by_cases hgt : om.pgn > p
    · -- add to first
      let w1 := setObj w h (some ⟨p, none, some m⟩)
      let w2 := setHead w1 b (some h)
      let w3 := setObj w2 h (some ⟨p, some b, some m⟩)
      apply fin w2 w3 [] (m :: t) (some m) rfl
      · have e1 : wrNext w h (some m) = some w1 := wrNext_eq hh (some m)
        simp [link, hhead, hom, hgt, e1, w2]
      · exact wrOwner_eq (w := w2) (o := ⟨p, none, some m⟩) (by simp [w2, w1]) (some b)
      · simp [w3]
      · intro i e; rw [view_h, view_h]; simp [w3, w2, w1, e]
      · intro i e _; simp [w3, w2, w1, e]
      · intro c hc; simp [w3, w2, w1, hc]
      · rfl
      · rfl
      · show Seg w3 (w3.head b) (h :: m :: t) none
        refine ⟨by simp [w3, w2], ⟨p, some b, some m⟩, by simp [w3], ?_⟩
        apply seg_congr _ hchain
        intro i hil
        have : i ≠ h := fun e => hnotin (e ▸ hil)
        simp [w3, w2, w1, this]
      · intro x hx; cases hx
      · intro y hy
        rcases List.mem_cons.1 hy with hy | hy
        · subst hy; rw [pgnOf_eq hom]; omega
        · have := (List.pairwise_cons.1 hsrt).1 y hy
          rw [pgnOf_eq hom] at this; omega
    · -- walk to the insertion point
      obtain ⟨l1, k, l2, hl, hfi, hp1, hp2⟩ := findIns_spec (p := p) t m (w.bound + 1) hchain (by simp at hfuel; omega)
      have hkb : ownerOf w k = some b := (hb.mem k).1 (by rw [hl]; simp)
      obtain ⟨ok, hok, hokb⟩ := ownerOf_some hkb
      have hkh : k ≠ h := by intro e; apply hnotin; rw [hl, ← e]; simp
      rw [hl] at hb hnotin
      obtain ⟨r, hs1, hs2⟩ := seg_append.1 hb.chain
      have hr : r = some k := seg_head hs2
      subst hr
      have hs3 : Seg w ok.next l2 none := seg_next hok hs2
      have hnd := hb.nodup
      rw [List.nodup_append, List.nodup_cons] at hnd
      obtain ⟨_, ⟨d2, _⟩, d4⟩ := hnd
      have hk1 : k ∉ l1 := fun hm => d4 k hm k List.mem_cons_self rfl
      let w1 := setObj w h (some ⟨p, none, ok.next⟩)
      let w2 := setObj w1 k (some ⟨ok.pgn, ok.owner, some h⟩)
      let w3 := setObj w2 h (some ⟨p, some b, ok.next⟩)
      have hsplit : l1 ++ k :: l2 = (l1 ++ [k]) ++ l2 := by simp
      have hsplit' : (l1 ++ [k]) ++ h :: l2 = l1 ++ k :: h :: l2 := by simp
      apply fin w2 w3 (l1 ++ [k]) l2 ok.next (by rw [hl]; exact hsplit)
      · have e1 : wrNext w h ok.next = some w1 := wrNext_eq hh ok.next
        have e2 : wrNext w1 k (some h) = some w2 := by
          have : w1.obj k = some ok := by simp [w1, hkh]; exact hok
          exact wrNext_eq this (some h)
        simp [link, hhead, hom, hgt, hfi, hok, e1, e2]
      · exact wrOwner_eq (w := w2) (o := ⟨p, none, ok.next⟩) (by simp [w2, w1, Ne.symm hkh]) (some b)
      · simp [w3]
      · intro i e; rw [view_h, view_h]
        by_cases ek : i = k
        · subst ek; simp [w3, w2, w1, e, hok]
        · simp [w3, w2, w1, e, ek]
      · intro i e hob
        have ek : i ≠ k := by intro e'; subst e'; exact hob hkb
        simp [w3, w2, w1, e, ek]
      · intro c _; rfl
      · rfl
      · rfl
      · show Seg w3 (w.head b) ((l1 ++ [k]) ++ h :: l2) none
        rw [hsplit']
        apply seg_append.2
        refine ⟨some k, seg_congr ?_ hs1, ?_⟩
        · intro i hil
          have e1 : i ≠ h := fun e => hnotin (e ▸ List.mem_append.2 (Or.inl hil))
          have e2 : i ≠ k := fun e => hk1 (e ▸ hil)
          simp [w3, w2, w1, e1, e2]
        · refine ⟨rfl, ⟨ok.pgn, ok.owner, some h⟩, by simp [w3, w2, hkh], rfl, ⟨p, some b, ok.next⟩, by simp [w3], ?_⟩
          apply seg_congr _ hs3
          intro i hil
          have e1 : i ≠ h := fun e => hnotin (e ▸ List.mem_append.2 (Or.inr (List.mem_cons_of_mem _ hil)))
          have e2 : i ≠ k := fun e => d2 (e ▸ hil)
          simp [w3, w2, w1, e1, e2]
      · intro x hx
        rcases hp1 x hx with e | hlt
        · subst e; rw [pgnOf_eq hom]; omega
        · omega
      · intro y hy
        have hsrt2 := hb.sorted
        rw [List.pairwise_append] at hsrt2
        have hs2' := (List.pairwise_cons.1 hsrt2.2.1).2
        cases l2 with
        | nil => cases hy
        | cons y0 t2 =>
          have h0 := hp2 y0 rfl
          rcases List.mem_cons.1 hy with hy | hy
          · subst hy; exact h0
          · have := (List.pairwise_cons.1 hs2').1 y hy; omega

theorem attach_ok {w : World} {b : BusId} {h : Id} {o : Obj} (hi : Inv w) (ho : w.obj h = some o) :
    ∃ w', attach w b h = some w' ∧ Inv w' ∧ (view w').h h = some (o.pgn, some b) ∧
      (∀ i, i ≠ h → (view w').h i = (view w).h i) ∧ w'.cb = w.cb ∧ w'.bound = w.bound := by
  by_cases hob : o.owner = some b
  · refine ⟨w, by simp [attach, ho, hob], hi, ?_, fun _ _ => rfl, rfl, rfl⟩
    rw [view_h, ho]; simp [hob]
  · obtain ⟨w1, hd, hi1, h1, hv1, hcb1, hbd1⟩ := detach_ok hi ho
    obtain ⟨w2, w3, hlk, hwr, hi3, hv3h, hv3, hcb3, hbd3⟩ := link_ok (b := b) hi1 h1
    refine ⟨w3, by simp [attach, ho, hob, hd, hlk, hwr], hi3, hv3h, ?_, by rw [hcb3, hcb1], by rw [hbd3, hbd1]⟩
    intro i e; rw [hv3 i e, hv1 i e]

/-! ### constructor and destructor -/

theorem alloc_ok {w : World} {h : Id} {p : Nat} (hi : Inv w) (hd : w.obj h = none) :
    Inv { setObj w h (some ⟨p, none, none⟩) with bound := max w.bound (h + 1) } where
  bus := by
    intro c
    obtain ⟨lc, hlc⟩ := hi.bus c
    refine ⟨lc, busInv_frame hlc rfl ?_ ?_⟩
    · intro i hil
      have : i ≠ h := by
        intro e; subst e
        have := (hlc.mem i).1 hil
        simp [ownerOf, hd] at this
      simp [this]
    · intro i hoi
      by_cases e : i = h
      · subst e; simp [ownerOf] at hoi
      · have : ownerOf w i = ownerOf ({ setObj w h (some ⟨p, none, none⟩) with bound := max w.bound (h + 1) }) i := by
          simp [ownerOf, e]
        rw [this]; exact hoi
  free := by
    intro i o' ho' hn
    by_cases e : i = h
    · subst e; simp at ho'; subst ho'; rfl
    · simp [e] at ho'; exact hi.free i o' ho' hn
  bnd := by
    intro i o' ho'
    show i < max w.bound (h + 1)
    by_cases e : i = h
    · subst e; exact Nat.lt_of_lt_of_le (Nat.lt_succ_self _) (Nat.le_max_right _ _)
    · simp [e] at ho'; exact Nat.lt_of_lt_of_le (hi.bnd i o' ho') (Nat.le_max_left _ _)

theorem free_ok {w : World} {h : Id} {o : Obj} (hi : Inv w) (ho : w.obj h = some o) (hn : o.owner = none) :
    Inv (setObj w h none) where
  bus := by
    intro c
    obtain ⟨lc, hlc⟩ := hi.bus c
    refine ⟨lc, busInv_frame hlc rfl ?_ ?_⟩
    · intro i hil
      have : i ≠ h := by
        intro e; subst e
        have := (hlc.mem i).1 hil
        rw [ownerOf_eq ho, hn] at this; cases this
      simp [this]
    · intro i hoi
      by_cases e : i = h
      · subst e; simp [ownerOf] at hoi
      · have : ownerOf w i = ownerOf (setObj w h none) i := by simp [ownerOf, e]
        rw [this]; exact hoi
  free := by
    intro i o' ho' hn'
    by_cases e : i = h
    · subst e; simp at ho'
    · simp [e] at ho'; exact hi.free i o' ho' hn'
  bnd := by
    intro i o' ho'
    by_cases e : i = h
    · subst e; simp at ho'
    · simp [e] at ho'; exact hi.bnd i o' ho'

theorem construct_ok {w : World} {h : Id} {p : Nat} {b : Option BusId} (hi : Inv w) (hd : w.obj h = none) :
    ∃ w', construct w h p b = some w' ∧ Inv w' ∧ (view w').h h = some (p, b) ∧
      (∀ i, i ≠ h → (view w').h i = (view w).h i) ∧ w'.cb = w.cb := by
  have hi1 := alloc_ok (p := p) hi hd
  cases b with
  | none =>
    refine ⟨_, rfl, hi1, by simp [view_h], ?_, rfl⟩
    intro i e; simp [view_h, e]
  | some b =>
    obtain ⟨w', ha, hi', hvh, hv, hcb, _⟩ := attach_ok (b := b) (h := h) (o := ⟨p, none, none⟩) hi1 (by simp)
    refine ⟨w', ha, hi', hvh, ?_, hcb⟩
    intro i e; rw [hv i e]; simp [view_h, e]

theorem destroy_ok {w : World} {h : Id} {o : Obj} (hi : Inv w) (ho : w.obj h = some o) :
    ∃ w', destroy w h = some w' ∧ Inv w' ∧ (view w').h h = none ∧
      (∀ i, i ≠ h → (view w').h i = (view w).h i) ∧ w'.cb = w.cb := by
  cases hown : o.owner with
  | none =>
    refine ⟨setObj w h none, by simp [destroy, ho, hown], free_ok hi ho hown, by simp [view_h], ?_, rfl⟩
    intro i e; simp [view_h, e]
  | some b =>
    obtain ⟨w1, hd, hi1, h1, hv1, hcb1, _⟩ := detach_ok hi ho
    refine ⟨setObj w1 h none, by simp [destroy, ho, hown, hd], free_ok hi1 h1 rfl, by simp [view_h], ?_, hcb1⟩
    intro i e; rw [← hv1 i e]; simp [view_h, e]

/-! ### one step, and every history -/

theorem setCb_ok {w : World} {b : BusId} {on : Bool} (hi : Inv w) : Inv (setCb w b on) where
  bus := by
    intro c
    obtain ⟨lc, hlc⟩ := hi.bus c
    exact ⟨lc, busInv_frame hlc rfl (fun _ _ => rfl) (fun _ h => h)⟩
  free := hi.free
  bnd := hi.bnd

theorem step_ok {w : World} (hi : Inv w) (op : Op) :
    ∃ w', step w op = some w' ∧ Inv w' ∧ view w' = specStep (view w) op := by
  cases op with
  | new h p b =>
    cases hd : w.obj h with
    | none =>
      obtain ⟨w', hc, hi', hvh, hv, hcb⟩ := construct_ok (p := p) (b := b) hi hd
      refine ⟨w', by simp [step, Op.usable, hd, apply, hc], hi', ?_⟩
      apply SpecSt.ext'
      · funext i
        simp only [specStep, view_h, hd, Option.map_none, SpecSt.set]
        by_cases e : i = h
        · subst e; rw [if_pos rfl]; exact hvh
        · rw [if_neg e]; exact hv i e
      · simp only [specStep, view_h, hd, Option.map_none, SpecSt.set]; exact hcb
    | some o =>
      refine ⟨w, by simp [step, Op.usable, hd], hi, ?_⟩
      simp [specStep, view_h, hd]
  | attach h b =>
    cases hd : w.obj h with
    | none =>
      refine ⟨w, by simp [step, Op.usable, hd], hi, ?_⟩
      simp [specStep, view_h, hd]
    | some o =>
      obtain ⟨w', hc, hi', hvh, hv, hcb, _⟩ := attach_ok (b := b) hi hd
      refine ⟨w', by simp [step, Op.usable, hd, apply, hc], hi', ?_⟩
      apply SpecSt.ext'
      · funext i
        simp only [specStep, view_h, hd, Option.map_some, SpecSt.set]
        by_cases e : i = h
        · subst e; rw [if_pos rfl]; exact hvh
        · rw [if_neg e]; exact hv i e
      · simp only [specStep, view_h, hd, Option.map_some, SpecSt.set]; exact hcb
  | detach h =>
    cases hd : w.obj h with
    | none =>
      refine ⟨w, by simp [step, Op.usable, hd], hi, ?_⟩
      simp [specStep, view_h, hd]
    | some o =>
      obtain ⟨w', hc, hi', hvh, hv, hcb, _⟩ := detach_ok hi hd
      refine ⟨w', by simp [step, Op.usable, hd, apply, hc], hi', ?_⟩
      apply SpecSt.ext'
      · funext i
        simp only [specStep, view_h, hd, Option.map_some, SpecSt.set]
        by_cases e : i = h
        · subst e; rw [if_pos rfl, hvh]; rfl
        · rw [if_neg e]; exact hv i e
      · simp only [specStep, view_h, hd, Option.map_some, SpecSt.set]; exact hcb
  | destroy h =>
    cases hd : w.obj h with
    | none =>
      refine ⟨w, by simp [step, Op.usable, hd], hi, ?_⟩
      apply SpecSt.ext'
      · funext i
        simp only [specStep, SpecSt.set]
        by_cases e : i = h
        · subst e; rw [if_pos rfl, view_h, hd]; rfl
        · rw [if_neg e]
      · rfl
    | some o =>
      obtain ⟨w', hc, hi', hvh, hv, hcb⟩ := destroy_ok hi hd
      refine ⟨w', by simp [step, Op.usable, hd, apply, hc], hi', ?_⟩
      apply SpecSt.ext'
      · funext i
        simp only [specStep, SpecSt.set]
        by_cases e : i = h
        · subst e; rw [if_pos rfl]; exact hvh
        · rw [if_neg e]; exact hv i e
      · simp only [specStep, SpecSt.set]; exact hcb
  | cb b on =>
    refine ⟨setCb w b on, by simp [step, Op.usable, apply], setCb_ok hi, ?_⟩
    apply SpecSt.ext' <;> rfl

theorem inv_init : Inv World.init where
  bus := fun b => ⟨[], ⟨rfl, List.nodup_nil, fun i => by simp [ownerOf, World.init], List.Pairwise.nil⟩⟩
  free := fun i o h => by simp [World.init] at h
  bnd := fun i o h => by simp [World.init] at h

theorem view_init : view World.init = SpecSt.init := rfl

theorem run_ok : ∀ (ops : List Op) {w : World}, Inv w →
    ∃ w', run w ops = some w' ∧ Inv w' ∧ view w' = specRun (view w) ops
  | [], w, hi => ⟨w, rfl, hi, rfl⟩
  | op :: ops, w, hi => by
    obtain ⟨w1, h1, hi1, hv1⟩ := step_ok hi op
    obtain ⟨w', h', hi', hv'⟩ := run_ok ops hi1
    refine ⟨w', by simp [run, h1, h'], hi', ?_⟩
    rw [hv', hv1]; rfl

/-! ### `RunMessageHandlers` in a well-formed world -/

theorem specPgn_view (w : World) (i : Id) : specPgn (view w) i = pgnOf w i := by
  unfold specPgn pgnOf; rw [view_h]; cases w.obj i <;> rfl

theorem dispatch_ok {w : World} (hi : Inv w) (b : BusId) (P : Nat) :
    ∃ l, dispatch w b P = some (if w.cb b then 1 else 0, l) ∧ l.Nodup ∧
      (∀ i, i ∈ l ↔ (view w).matching b P i) ∧
      l.Pairwise (fun i j => specPgn (view w) i ≤ specPgn (view w) j) := by
  obtain ⟨lb, hb⟩ := hi.bus b
  have hfuel := chain_fuel hi hb
  obtain ⟨r, l', h0, h1, he⟩ := loops_spec (P := P) lb (w.head b) (w.bound + 1) (w.bound + 1) hb.chain
    (by omega) (by omega) hb.sorted
  refine ⟨r.1 ++ l', by simp [dispatch, h0, h1], ?_, ?_, ?_⟩
  · rw [he]; exact hb.nodup.sublist List.filter_sublist
  rotate_left
  · rw [he]
    simp only [specPgn_view]
    exact hb.sorted.sublist List.filter_sublist
  · intro i
    rw [he, List.mem_filter, hb.mem i]
    unfold SpecSt.matching
    rw [view_h]
    constructor
    · rintro ⟨hown, hp⟩
      obtain ⟨o, ho, hob⟩ := ownerOf_some hown
      rw [pgnOf_eq ho] at hp
      refine ⟨o.pgn, by rw [ho]; simp [hob], ?_⟩
      simpa using hp
    · rintro ⟨p, hv, hp⟩
      cases ho : w.obj i with
      | none => rw [ho] at hv; cases hv
      | some o =>
        rw [ho] at hv
        simp at hv
        refine ⟨by rw [ownerOf_eq ho]; exact hv.2, ?_⟩
        rw [pgnOf_eq ho, hv.1]
        simpa using hp

end N2k.Handlers
