// C17, node level: messages written in Actisense format BY THE LIBRARY'S MESSAGE FORWARDING.
// A real tNMEA2000 behind the mock CAN driver (node.h) with a memory N2kStream as forward stream,
// SetForwardType(fwdt_Actisense) and the documented options in all combinations and all five modes.
// ops: fnew mode enable own knownOnly system addr     new node, opened and settled (address claim done), stream emptied
//      fsend t prio pgn dst datahex                   application sends a message (SendMsg); output: result + forward stream
//      frx t prio pgn src dst datahex known system    a complete message arrives from the bus (single frame or fast packet);
//                                                     known/system = the library's own classification of the PGN (an input here)
// The oracle is written from the header documentation of EnableForward / SetForwardOwnMessages / SetForwardOnlyKnownMessages /
// SetForwardSystemMessages / tN2kMode and the "Message forwarding" section of the library reference only.
#include "node.h"
#include "ActisenseReader.h"

using namespace vh;
static Ctx C;
typedef std::vector<unsigned char> Bytes;

struct MemStream : public N2kStream {
  std::deque<unsigned char> in; Bytes outv;
  int read() override { if (in.empty()) return -1; unsigned char b = in.front(); in.pop_front(); return b; }
  int peek() override { return in.empty() ? -1 : in.front(); }
  size_t write(const uint8_t *d, size_t n) override { outv.insert(outv.end(), d, d + n); return n; }
};
struct Node : public MockN2k {
  bool classify(unsigned long pgn, bool &sys, bool &fast) { return CheckKnownMessage(pgn, sys, fast); }
  unsigned char src() const { return GetN2kSource(0); }
};

static Node *N = nullptr; static MemStream *FS = nullptr;
static int mode = 0; static bool fEn, fOwn, fKnown, fSys; static int addr = 0;
static std::string caseDesc; static bool caseFwd = false;
static void endCase() { if (!caseDesc.empty()) { C.cases++; if (caseFwd) C.nontrivial(caseDesc); } caseDesc.clear(); caseFwd = false; }

// ---- what is on the forward stream: decoded by the LIBRARY'S reader; every byte must belong to a reported frame -----------
static std::vector<tN2kMsg> got; static void onMsg(const tN2kMsg &m) { got.push_back(m); }
struct Decoded { std::vector<tN2kMsg> msgs; std::vector<Bytes> frames; bool wellFormed = true; };
// split the stream into <10><02>...<10><03> frames (escape aware), decode each with a fresh library reader
static Decoded decodeStream(const Bytes &s) {
  Decoded d; size_t i = 0;
  while (i < s.size()) {
    if (i + 1 >= s.size() || s[i] != 0x10 || s[i + 1] != 0x02) { d.wellFormed = false; break; }
    size_t j = i + 2; bool closed = false;
    while (j + 1 < s.size()) { if (s[j] == 0x10) { if (s[j + 1] == 0x10) { j += 2; continue; } if (s[j + 1] == 0x03) { closed = true; j += 2; break; } d.wellFormed = false; break; } j++; }
    if (!closed || !d.wellFormed) { d.wellFormed = false; break; }
    Bytes f(s.begin() + i, s.begin() + j); tActisenseReader r; MemStream st; r.SetReadStream(&st); r.SetMsgHandler(onMsg);
    st.in.insert(st.in.end(), f.begin(), f.end()); got.clear(); r.ParseMessages();
    if (got.size() != 1 || !st.in.empty() || r.Handling()) { d.wellFormed = false; break; }
    d.msgs.push_back(got[0]); d.frames.push_back(f); i = j;
  }
  return d;
}
static bool same(const tN2kMsg &a, int prio, unsigned long pgn, int src, int dst, const Bytes &data) {
  return a.Priority == prio && a.PGN == pgn && a.Source == src && a.Destination == dst && a.DataLen == (int)data.size() &&
         (data.empty() || memcmp(a.Data, data.data(), data.size()) == 0);
}
// messages the library itself puts on the bus (address claim, heartbeat, product/configuration information, acknowledgements,
// group function answers, request for address claims): own messages, forwarded under the own-message option; not what an op tests
static bool libraryOwn(const tN2kMsg &m) {
  if (m.Source != N->src()) return false;
  switch (m.PGN) { case 60928L: case 126993L: case 126996L: case 126998L: case 126464L: case 59392L: case 126208L: case 59904L: return true; default: return false; }
}
// documented policy --------------------------------------------------------------------------------------------------------
static bool docOwn() { return fEn && mode != tNMEA2000::N2km_SendOnly && fOwn; }
static bool listening() { return mode == tNMEA2000::N2km_ListenOnly || mode == tNMEA2000::N2km_ListenAndNode || mode == tNMEA2000::N2km_ListenAndSend; }
// -1: the documentation does not decide (counted, nothing demanded)
static int docBus(bool known, bool sys) {
  if (!fEn || !listening()) return 0;
  if (sys) { if (fSys) return 1; return mode == tNMEA2000::N2km_ListenAndSend ? -1 : 0; }   // "send" modes do not treat system messages specially
  return (known || !fKnown) ? 1 : 0;
}

// the stream content an op produced -> canonical text + oracle
static std::string judge(const char *what, int expect, int prio, unsigned long pgn, int src, int dst, const Bytes &data) {
  Bytes s = FS->outv; FS->outv.clear();
  Decoded d = decodeStream(s);
  if (!d.wellFormed) { C.fail("C17:forward:stream-not-wellformed", "%s: forward stream %s is not a sequence of frames the reader accepts", what, hex(s.data(), s.size()).c_str()); return hex(s.data(), s.size()); }
  int hits = 0; Bytes canon;
  for (size_t i = 0; i < d.msgs.size(); i++) {
    if (same(d.msgs[i], prio, pgn, src, dst, data)) { hits++; canon.insert(canon.end(), d.frames[i].begin(), d.frames[i].end()); continue; }
    if (libraryOwn(d.msgs[i])) { C.count("library_own_messages_forwarded"); if (!docOwn()) C.fail("C17:forward:own-message-unexpected", "library message PGN %lu forwarded although own messages are not to be forwarded", d.msgs[i].PGN); continue; }
    bool samePgn = d.msgs[i].PGN == pgn && d.msgs[i].Source == src;
    C.fail(samePgn ? std::string("C17:forward:") + what + "-decoded-differently" : "C17:forward:unexpected-frame", "%s: frame on the forward stream: PGN %lu src %u dst %u len %d", what,
           d.msgs[i].PGN, (unsigned)d.msgs[i].Source, (unsigned)d.msgs[i].Destination, d.msgs[i].DataLen);
    canon.insert(canon.end(), d.frames[i].begin(), d.frames[i].end());
  }
  if (expect == 1 && hits == 0) C.fail(std::string("C17:forward:") + what + "-missing", "mode %d enable %d own %d knownOnly %d system %d: PGN %lu src %d dst %d len %zu not on the forward stream", mode, fEn, fOwn, fKnown, fSys, pgn, src, dst, data.size());
  else if (expect == 0 && hits > 0) C.fail(std::string("C17:forward:") + what + "-unexpected", "mode %d enable %d own %d knownOnly %d system %d: PGN %lu src %d dst %d forwarded", mode, fEn, fOwn, fKnown, fSys, pgn, src, dst);
  else if (hits > 1) C.fail(std::string("C17:forward:") + what + "-duplicated", "%d copies of PGN %lu on the forward stream", hits, pgn);
  else if (expect < 0) C.count("policy_left_open_by_documentation");
  else C.count(hits ? std::string(what) + "_forwarded_and_decoded" : std::string(what) + "_not_forwarded_as_documented");
  if (hits) caseFwd = true;
  return hex(canon.data(), canon.size());
}

static unsigned long canId(int prio, unsigned long pgn, int src, int dst) {
  unsigned pf = (pgn >> 8) & 0xff;
  if (pf < 240) return ((unsigned long)(prio & 7) << 26) | ((pgn & 0x3ff00ul) << 8) | ((unsigned long)dst << 8) | (unsigned long)src;
  return ((unsigned long)(prio & 7) << 26) | (pgn << 8) | (unsigned long)src;
}
static unsigned rxSeq = 0;

static void exec(const std::string &line) {
  std::vector<std::string> w = split(line);
  C.op("%s", line.c_str());
  if (w.empty()) { C.out("bad-op"); return; }
  C.count("op_" + w[0]);
  auto num = [&](size_t i) { return strtoul(w[i].c_str(), 0, 10); };
  if (w[0] == "fnew" && w.size() == 7) {
    endCase(); caseDesc = line + ";";
    mode = (int)num(1); fEn = num(2); fOwn = num(3); fKnown = num(4); fSys = num(5); addr = (int)num(6);
    g_now = 0; delete N; delete FS; N = new Node(); FS = new MemStream(); g_now = 0;
    N->SetDeviceInformation(4711, 130, 25, 2046, 4);
    N->SetMode((tNMEA2000::tN2kMode)mode, (uint8_t)addr);
    N->SetForwardStream(FS); N->SetForwardType(tNMEA2000::fwdt_Actisense);
    N->EnableForward(fEn); N->SetForwardOwnMessages(fOwn); N->SetForwardOnlyKnownMessages(fKnown); N->SetForwardSystemMessages(fSys);
    openAndSettle(*N, 600);
    if (!N->isOpen()) C.fail("harness:not-open", "node did not open");
    // what the node wrote while opening (its address claim): own messages
    { Decoded d = decodeStream(FS->outv);
      if (!d.wellFormed) C.fail("C17:forward:stream-not-wellformed", "forward stream written during Open() is not a sequence of frames");
      for (auto &m : d.msgs) if (!libraryOwn(m)) C.fail("C17:forward:unexpected-frame", "during Open(): PGN %lu src %u", m.PGN, (unsigned)m.Source); else if (!docOwn()) C.fail("C17:forward:own-message-unexpected", "during Open(): PGN %lu forwarded", m.PGN);
      FS->outv.clear(); }
    N->sent.clear(); rxSeq = 0;
    C.out("ok %u", (unsigned)N->src()); return;
  }
  if (!N) { C.out("bad-op"); return; }
  caseDesc += line; caseDesc += ';';
  if (w[0] == "fsend" && w.size() == 6) {
    Bytes d = unhex(w[5]); if (d.size() > 223) { C.out("bad-op"); return; }
    g_now = num(1); tN2kMsg m; m.SetPGN(num(3)); m.Priority = (unsigned char)num(2); m.Destination = (unsigned char)num(4);
    m.DataLen = (int)d.size(); if (!d.empty()) memcpy(m.Data, d.data(), d.size()); m.MsgTime = num(1);
    bool r = N->SendMsg(m, 0);
    // a message whose send was refused: whether it is forwarded is left open
    std::string o = judge("own-message", r ? (docOwn() ? 1 : 0) : -1, (int)num(2), num(3), N->src(), (int)num(4), d);
    if (r) C.out("1 %s", o.c_str()); else { C.out("0 -"); C.count("sends_refused"); }
    N->sent.clear(); return;
  }
  if (w[0] == "frx" && w.size() == 9) {
    Bytes d = unhex(w[6]); if (d.size() > 223) { C.out("bad-op"); return; }
    int prio = (int)num(2); unsigned long pgn = num(3); int src = (int)num(4), dst = (int)num(5); bool known = num(7), sys = num(8);
    bool ksys = false, kfast = false; bool kk = N->classify(pgn, ksys, kfast);
    if (kk != known || ksys != sys) { C.fail("harness:classification", "op says known %d system %d, library says %d %d", known, sys, kk, ksys); }
    g_now = num(1); unsigned long id = canId(prio, pgn, src, dst);
    if (!kfast) { if (d.size() > 8) { C.out("bad-op"); return; } N->rx(id, (unsigned char)d.size(), d.data()); }
    else {
      unsigned seq = (rxSeq++ & 7) << 5; unsigned char b[8]; size_t cur = 0; int k = 0;
      do { memset(b, 0xff, 8); b[0] = (unsigned char)(seq | k); int j = 1; if (k == 0) { b[1] = (unsigned char)d.size(); j = 2; }
           for (; j < 8 && cur < d.size(); j++) b[j] = d[cur++]; N->rx(id, 8, b); k++; } while (cur < d.size());
    }
    for (int i = 0; i < 8 && !N->rxq.empty(); i++) N->ParseMessages();
    N->ParseMessages();
    C.outs(judge("bus-message", src == N->src() ? -1 : docBus(known, sys), prio, pgn, src, dst, d));
    N->sent.clear(); return;
  }
  C.out("bad-op");
}

// ---- generator -----------------------------------------------------------------------------------------------------------
static Bytes payload(Rng &R, int n) { Bytes d(n); int dens = (int)R.below(4); for (auto &b : d) b = R.chance(dens, 5) ? 0x10 : (unsigned char)R.below(256); return d; }
static uint64_t T = 0;
static void fnew(int m, int en, int own, int known, int sys, int a) { char b[96]; snprintf(b, sizeof b, "fnew %d %d %d %d %d %d", m, en, own, known, sys, a); exec(b); T = g_now + 1; }
static bool pdu1(unsigned long pgn) { return ((pgn >> 8) & 0xff) < 240; }
static void fsend(Rng &R, unsigned long pgn, int dst, const Bytes &d) {
  if (!pdu1(pgn)) dst = 255;   // PDU2 PGNs are broadcast: no destination on the bus
  char b[96]; snprintf(b, sizeof b, "fsend %llu %d %lu %d ", (unsigned long long)(T += 1 + R.below(3)), (int)R.below(8), pgn, dst); exec(std::string(b) + hex(d.data(), d.size()));
}
static Node *scratch = nullptr;
static void frx(Rng &R, unsigned long pgn, int src, int dst, const Bytes &d0) {
  bool sys = false, fast = false; bool known = scratch->classify(pgn, sys, fast); Bytes d = d0; if (!fast && d.size() > 8) d.resize(8);
  if (!pdu1(pgn)) dst = 255;
  if (fast && d.empty()) d.push_back(0x10);
  char b[128]; snprintf(b, sizeof b, "frx %llu %d %lu %d %d ", (unsigned long long)(T += 1 + R.below(3)), (int)R.below(8), pgn, src, dst);
  char e[16]; snprintf(e, sizeof e, " %d %d", (int)known, (int)sys); exec(std::string(b) + hex(d.data(), d.size()) + e);
}

int main(int argc, char **argv) {
  C.init(argc, argv);
  C.rule = "case = one node (mode, forward options) with the messages sent and received through it; non-trivial = at least one "
           "message was forwarded and read back; distinct = hash of the case's op lines";
  if (!C.replay.empty()) { for (auto &l : readLines(C.replay)) exec(l); endCase(); C.finish(); return 0; }
  Rng R(Ctx::hash("C17fwd/" + std::to_string(C.seed)));
  scratch = new Node();
  // PGNs: single frame, fast packet, unknown to the library, proprietary addressable, system (single frame and fast packet)
  const std::vector<unsigned long> single = {127245, 127250, 128259, 130306, 130312, 127488, 129025};
  const std::vector<unsigned long> fastp = {127489, 128275, 129029, 129540, 126720, 130820};
  const std::vector<unsigned long> other = {127999, 130999, 65300, 61184, 129999};
  const std::vector<unsigned long> sysp = {59904, 60928, 126996, 126208};
  // every mode x every combination of the four options
  for (int m = 0; m < 5; m++) for (int bits = 0; bits < 16; bits++) {
    int a = (int)R.range(1, 250); fnew(m, bits & 1, (bits >> 1) & 1, (bits >> 2) & 1, (bits >> 3) & 1, a);
    int other1 = a == 7 ? 8 : 7;
    fsend(R, R.pick(single), 255, payload(R, (int)R.range(1, 8)));
    fsend(R, R.pick(fastp), 255, payload(R, (int)R.range(9, 223)));
    fsend(R, R.pick(other), R.chance(1, 2) ? 255 : other1, payload(R, (int)R.range(1, 8)));
    fsend(R, R.pick(fastp), 255, Bytes((size_t)R.range(1, 223), 0x10));
    frx(R, R.pick(single), other1, 255, payload(R, (int)R.range(1, 8)));
    frx(R, R.pick(fastp), other1, 255, payload(R, (int)R.range(1, 223)));
    frx(R, R.pick(other), other1, R.chance(1, 2) ? 255 : a, payload(R, (int)R.range(1, 8)));
    frx(R, 61184, other1, a, payload(R, (int)R.range(1, 8)));              // addressed to this node
    frx(R, R.pick(sysp), other1, R.chance(1, 2) ? 255 : a, payload(R, 8));
    fsend(R, R.pick(single), 255, payload(R, (int)R.range(1, 8)));          // and again after bus traffic
  }
  C.sample("every mode x EnableForward x own x only-known x system: sends (single frame, fast packet, unknown PGN, all-escape payload) and bus messages (known, unknown, addressed to the node, system)");
  // all payload lengths, sent and received, through forwarding nodes of each forwarding mode
  for (int m : {1, 2, 4}) {
    fnew(m, 1, 1, 0, 1, 22);
    for (int n = 1; n <= 223; n += (C.thorough ? 1 : 3)) { fsend(R, n <= 8 && R.chance(1, 2) ? R.pick(single) : R.pick(fastp), 255, payload(R, n)); if (m != 1) frx(R, R.pick(fastp), 33, 255, payload(R, n)); }
  }
  C.sample("payload lengths 1..223 with escape-rich data sent through and received by forwarding nodes (node-only, listen-and-node, listen-and-send)");
  for (int rep = 0; rep < (C.thorough ? 400 : 40); rep++) {
    int a = (int)R.range(0, 251); fnew((int)R.below(5), R.chance(4, 5), R.chance(3, 4), R.chance(1, 3), R.chance(2, 3), a);
    int nops = (int)R.range(3, 20);
    for (int i = 0; i < nops; i++) {
      unsigned k = (unsigned)R.below(10); int o = (int)R.range(0, 251); if (o == a) o = (o + 1) % 252;
      if (k < 5) fsend(R, k < 2 ? R.pick(single) : k < 4 ? R.pick(fastp) : R.pick(other), R.chance(2, 3) ? 255 : o, payload(R, k < 2 ? (int)R.range(1, 8) : (int)R.range(1, 223)));
      else frx(R, k < 7 ? R.pick(single) : k < 9 ? R.pick(fastp) : R.chance(1, 2) ? R.pick(other) : R.pick(sysp), o, R.chance(2, 3) ? 255 : a, payload(R, (int)R.range(1, 223)));
    }
  }
  endCase();
  C.finish();
  return 0;
}
