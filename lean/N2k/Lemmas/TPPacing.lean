import N2k.Lemmas.TPLinkMain
/-! C10 helper lemmas for the pacing / timeout theorems (what `SendPendingTPMessage` and `StartSendTPMessage` do to the timer),
and the example node used by the non-vacuity examples of `Props/C10.lean`. -/
namespace N2k.C10
open N2k.Send N2k.Time N2k.Spec N2k.TP

/-- the example node of the non-vacuity examples: one device at address 20, 64-bit scheduler, idle -/
def exDev : Dev := { source := 20, name := 1, claimTimer := Sched.disabled .t64, endSource := 19 }
def exSt : St := { flavor := .t64, now := 1000, listenOnly := false, claimMode := true, lists := {}, devs := [exDev],
                   ring := { n := 40, buf := fun _ => ⟨0, 0, []⟩, read := 0, write := 0 },
                   drv := { script := [], dflt := true, sent := [] } }
def exNode : Node := { s := exSt, tp := fun _ => TpDev.init .t64, slots := List.replicate 5 {}, onlyKnown := false, rxq := [], out := [] }
def exMsg : Msg := { prio := 6, pgn := 126464, src := 0, dst := 30, len := 20, data := List.range 20, tp := true }

/-- two-device versions of the example node: A (addresses 20, 21) and B (addresses 30, 31); the SECOND device (index 1) of
each acts - A's device 1 at address 21 sends, B's device 1 at address 31 receives -, device 0 is idle -/
def exDevA : Dev := { exDev with source := 21, name := 2 }
def exDevB : Dev := { exDev with source := 31, name := 3 }
def exNodeA : Node := { exNode with s := { exSt with devs := [exDev, exDevA] } }
def exNodeB : Node := { exNode with s := { exSt with devs := [{ exDev with source := 30 }, exDevB] } }

theorem exLeadA : Lead exNodeA 1 exDevA :=
  ⟨rfl, by intro k e hk he; have : k = 0 := by omega
           subst this; simp [exNodeA, exSt] at he; subst he; decide,
   fun _ _ => rfl, by intro e he; simp [exNodeA, exSt] at he; rcases he with rfl | rfl <;> decide⟩
theorem exLeadB : Lead exNodeB 1 exDevB :=
  ⟨rfl, by intro k e hk he; have : k = 0 := by omega
           subst this; simp [exNodeB, exSt] at he; subst he; decide,
   fun _ _ => rfl, by intro e he; simp [exNodeB, exSt] at he; rcases he with rfl | rfl <;> decide⟩
theorem exQuietA : Quiet exNodeA.s 1 := ⟨⟨exDevA, rfl, by decide, by decide⟩, rfl, rfl, rfl, rfl, rfl, by decide, by decide⟩
theorem exQuietB : Quiet exNodeB.s 1 := ⟨⟨exDevB, rfl, by decide, by decide⟩, rfl, rfl, rfl, rfl, rfl, by decide, by decide⟩

theorem exQuiet : Quiet exSt 0 :=
  ⟨⟨exDev, rfl, by decide, by decide⟩, rfl, rfl, rfl, rfl, rfl, by decide, by decide⟩

/-- `SendPendingTPMessage` does not touch the clock and leaves either no transfer or the timer re-armed from now -/
theorem pendingTP_bam_timer (n : Node) (i : Nat) (hb : (n.tp i).pend.dst = 255) (hp : (n.tp i).pend.pgn ≠ 0)
    (ht : (n.tp i).timer.isTime n.s.flavor n.s.now = true) :
    (pendingTP n i).s.now = n.s.now ∧ (pendingTP n i).s.flavor = n.s.flavor ∧
    (((pendingTP n i).tp i).pend.pgn = 0 ∨ ((pendingTP n i).tp i).timer = Sched.fromNow n.s.flavor n.s.now n.bamGap) := by
  unfold pendingTP
  simp only [hp, ne_eq, not_false_eq_true, ht, and_self, ↓reduceIte, hb]
  have hc := sendMsg_clock (n.setTp i { n.tp i with nextSeq := ((n.tp i).nextSeq + 1) % 256 }).s
    (dtMsg (srcAddr n i) (n.tp i).pend (n.tp i).nextSeq) (some i)
  have hnow : (sendTPDT n i).1.s.now = n.s.now := hc.1
  have hfl : (sendTPDT n i).1.s.flavor = n.s.flavor := hc.2
  split
  · refine ⟨?_, ?_, Or.inl ?_⟩
    · simp [endSendTP, setTimer, Node.setTp, hnow]
    · simp [endSendTP, setTimer, Node.setTp, hfl]
    · simp [endSendTP, Node.setTp]
  · refine ⟨?_, ?_, Or.inr ?_⟩
    · simp [setTimer, Node.setTp, hnow]
    · simp [setTimer, Node.setTp, hfl]
    · simp [setTimer, Node.setTp, hnow, hfl]

theorem emit_tp (n : Node) (m : Msg) (i : Nat) : (emit n m i).1.tp = n.tp := rfl
theorem emit_clock (n : Node) (m : Msg) (i : Nat) : (emit n m i).1.s.now = n.s.now ∧ (emit n m i).1.s.flavor = n.s.flavor :=
  sendMsg_clock n.s m (some i)

/-- a transfer that `StartSendTPMessage` accepted has its timer armed 50 ms from now -/
theorem startSendTP_timer (n : Node) (m : Msg) (i : Nat) (hok : (startSendTP n m i).2 = true) :
    ((startSendTP n m i).1.tp i).timer = Sched.fromNow n.s.flavor n.s.now 50 ∧ ((startSendTP n m i).1.tp i).pend = m ∧
    (startSendTP n m i).1.s.flavor = n.s.flavor := by
  unfold startSendTP at hok ⊢
  by_cases hi : i ≥ n.s.devs.length
  · simp [hi] at hok
  by_cases hpend : (n.tp i).pend.pgn ≠ 0
  · simp [hi, hpend] at hok
  rw [if_neg hi, if_neg hpend] at hok ⊢
  simp only at hok ⊢
  generalize hn1 : n.setTp i { pend := m, nextSeq := 0, timer := Sched.fromNow n.s.flavor n.s.now 50, hasPending := true } = n1 at hok ⊢
  have ht1 : (n1.tp i).timer = Sched.fromNow n.s.flavor n.s.now 50 ∧ (n1.tp i).pend = m ∧ n1.s.flavor = n.s.flavor := by
    subst hn1; simp
  have key : ∀ r : Node × Bool, r.1.tp = n1.tp → r.1.s.flavor = n1.s.flavor →
      (if r.2 = true then (r.1, true) else (endSendTP r.1 i, false)).2 = true →
      (((if r.2 = true then (r.1, true) else (endSendTP r.1 i, false)).1.tp i).timer = Sched.fromNow n.s.flavor n.s.now 50 ∧
       ((if r.2 = true then (r.1, true) else (endSendTP r.1 i, false)).1.tp i).pend = m ∧
       (if r.2 = true then (r.1, true) else (endSendTP r.1 i, false)).1.s.flavor = n.s.flavor) := by
    intro r h1 h2 h3
    by_cases hr : r.2 = true
    · rw [if_pos hr]; simp only; rw [h1, h2]; exact ht1
    · rw [if_neg hr] at h3; simp at h3
  by_cases hm : m.dst = 0xff
  · rw [if_pos hm] at hok ⊢
    unfold sendBAM at hok ⊢
    by_cases hcm : ¬ n1.s.claimMode = true
    · rw [if_pos hcm] at hok ⊢; exact key _ rfl rfl hok
    · rw [if_neg hcm] at hok ⊢; exact key _ (emit_tp _ _ _) (emit_clock _ _ _).2 hok
  · rw [if_neg hm] at hok ⊢
    unfold sendRTS at hok ⊢
    by_cases hcm : ¬ n1.s.claimMode = true
    · rw [if_pos hcm] at hok ⊢; exact key _ rfl rfl hok
    · rw [if_neg hcm] at hok ⊢; exact key _ (emit_tp _ _ _) (emit_clock _ _ _).2 hok

end N2k.C10
