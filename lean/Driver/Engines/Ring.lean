import N2k.Model.RingBuffer
import Driver.Util
-- engine: ring
/-! Engine `ring` (C20): runs `stepRB` / `stepPRB` of the model. -/
namespace Driver.Ring
open N2k.Ring N2k.Spec Driver

inductive St where
  | none
  | rb (r : RB)
  | prb (r : PRB)

def outStr : Out → String
  | .bool b => boolStr b
  | .val none => "-"
  | .val (some v) => toString v
  | .valp none => "-"
  | .valp (some (v, p)) => s!"{v} {p}"
  | .num n => toString n
  | .unit => "ok"

def parseOp : List String → Option Op
  | ["add", v] => do some (.add (← nat? v) 0)
  | ["add", v, p] => do some (.add (← nat? v) (← nat? p))
  | ["readp", p] => do some (.readP (← nat? p))
  | ["read"] => some .read
  | ["readref"] => some .read
  | ["readany"] => some .read
  | ["addref", v] => do some (.add (← nat? v) 0)
  | ["addref", v, p] => do some (.add (← nat? v) (← nat? p))
  | ["peek"] => some .peek
  | ["clear"] => some .clear
  | ["count"] => some .count
  | ["empty"] => some (.empty 255)
  | ["empty", p] => do some (.empty (← nat? p))
  | _ => none

/-- junk initial memory: the theorems hold for every initial content -/
def junkSlot (j : Nat) : Slot := ⟨0xdead + j, some (j + 1), some (j % 7)⟩

def step (s : St) (w : List String) : St × String :=
  match w with
  | ["new", n] => match nat? n with
    | some k => (.rb (RB.new k fun j => 0xbeef + j), "ok")
    | none => (s, "bad-op")
  | ["pnew", n, p] => match nat? n, nat? p with
    | some k, some q => (.prb (PRB.new k q junkSlot), "ok")
    | _, _ => (s, "bad-op")
  | _ => match parseOp w, s with
    | some op, .rb r => let (r', o) := stepRB r op; (.rb r', outStr o)
    | some op, .prb r =>
      let (r', o) := stepPRB r op
      -- `read(T&)` reports the value only; `getReadRef(uint8_t*)` also the priority served
      match w, o with
      | ["read"], .valp (some (v, _)) => (.prb r', toString v)
      | _, _ => (.prb r', outStr o)
    | _, _ => (s, "bad-op")

def main : IO Unit := loop step St.none

end Driver.Ring
