import N2k.Model.IsoRequest
/-!
# What the property demands of a device that receives an ISO request (C08)

Written from the property statement: the four mandatory PGNs are answered with the claim, both PGN lists,
the product information and the configuration information; anything else is left to the application's
handler and, when that does not accept (or there is none), NAKed to the requester — never for a broadcast
request. The ten PGNs of the broadcast-ignore list are not offered to the handler when broadcast.
The message builders are those of the model; their content is specified by the decoders below.
-/
namespace N2k.IsoRequest
open N2k.Send N2k.Time

/-- answers to a PGN the library does not serve itself -/
def dfltAnswers (h : Option Handler) (requester : Nat) (addressed : Bool) (pgn i : Nat) : List OutMsg :=
  match h with
  | some hd =>
    if !addressed && Gen.ignoreBroadcastISORequest.contains pgn then []
    else (hd.sends pgn requester i).map (OutMsg.mk i) ++
      (if hd.accept pgn requester i then []
       else if addressed then [⟨i, nakMsg requester pgn⟩] else [])
  | none => if addressed then [⟨i, nakMsg requester pgn⟩] else []

/-- what device `i` (entries `d`, `x`; `prod` = the product information it reports) hands to `SendMsg` for a
request of `pgn` from `requester` when its address claim is not pending -/
def answers (h : Option Handler) (conf : Config) (prod : Option Product) (requester : Nat) (addressed : Bool)
    (pgn i : Nat) (d : Dev) (x : DevX) : List OutMsg :=
  if pgn = 60928 then [⟨i, claimMsg d⟩]
  else if pgn = 126464 then [⟨i, txListMsg d requester⟩, ⟨i, rxListMsg d x requester⟩]
  else if pgn = 126996 then (match prod with | some p => [⟨i, productMsg d p⟩] | none => [])
  else if pgn = 126998 ∧ conf.any = true then [⟨i, configMsg d conf⟩]
  else dfltAnswers h requester addressed pgn i

/-- the answer of device `i` of node `n`, nothing while its claim is pending -/
def deviceAnswers (n : Node) (h : Option Handler) (requester : Nat) (addressed : Bool) (pgn i : Nat) : List OutMsg :=
  match n.st.devs[i]?, n.ext[i]? with
  | some d, some x =>
    if (isAddressClaimStarted n.st.flavor n.st.now d).2 then []
    else answers h n.conf (resolveProd n.ext i) requester addressed pgn i d x
  | _, _ => []

/-! ## reference decoders of the answers' payloads -/

/-- little-endian value of a byte string -/
def fromLE : List Nat → Nat
  | [] => 0
  | b :: t => b + 256 * fromLE t

/-- a list of 3-byte little-endian PGNs -/
def decode3 : List Nat → List Nat
  | a :: b :: c :: t => (a + 256 * b + 65536 * c) :: decode3 t
  | _ => []

/-- a fixed-length text field: the characters before the 0xFF padding -/
def unpad (l : List Nat) : List Nat := l.takeWhile (· != 0xff)

/-- a variable-length text field `[len, type, chars…]`: (type, characters, rest of the payload) -/
def parseVar : List Nat → Option (Nat × List Nat × List Nat)
  | len :: ty :: t => if 2 ≤ len ∧ len - 2 ≤ t.length then some (ty, t.take (len - 2), t.drop (len - 2)) else none
  | _ => none

end N2k.IsoRequest
