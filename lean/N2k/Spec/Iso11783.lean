/-!
# ISO 11783-5 / J1939-81 address claiming (specification side of C03)

Written from the public description of the network-management procedure, independent of the library source.

* A controller function is identified by its 64-bit NAME. The *numerically lower* NAME has the higher priority.
* A node announces "NAME n uses address a" with the address-claimed message: PGN 60928 (0xEE00), priority 6,
  destination global (255), source = a, 8 data bytes = NAME little-endian. Sent from the null address 254 the
  same message means "cannot claim an address".
* A node that receives an address claim for the address it uses compares NAMEs: if its own NAME is lower it
  sends its claim again and keeps the address; otherwise it gives the address up and either claims another
  address (self-configurable / arbitrary-address-capable node) or sends cannot-claim from 254.
* A commanded-address message (PGN 65240) naming the node's NAME makes it take the given address and claim it.
* Valid source addresses are 0..251; 254 is the null address; 255 is the global address.
-/
namespace N2k.Iso

def nullAddr : Nat := 254
def maxAddr : Nat := 251

/-- a claim on the wire: (NAME, source address) -/
abbrev Claim := Nat × Nat

/-- 29-bit identifier of an address-claimed message from `addr`: priority 6, PGN 0xEE00, PS = 255 -/
def claimId (addr : Nat) : Nat := 6 * 2^26 + 0xEE00 * 2^8 + 255 * 2^8 + addr

/-- the NAME, least significant byte first -/
def nameBytes (name : Nat) : List Nat := (List.range 8).map fun i => name / 2^(8*i) % 256

/-- value of up to 8 little-endian bytes -/
def nameOfBytes : List Nat → Nat
  | [] => 0
  | b :: t => b + 256 * nameOfBytes t

/-- (identifier, DLC, data) of the claim `c` -/
def encodeClaim (c : Claim) : Nat × Nat × List Nat := (claimId c.2, 8, nameBytes c.1)

/-- what a conforming receiver reads from a frame: an address claim has PF = 0xEE, data page 0 and 8 data bytes;
the priority and the destination do not matter -/
def decodeClaim (id len : Nat) (data : List Nat) : Option Claim :=
  if id / 2^16 % 256 = 0xEE ∧ id / 2^24 % 4 = 0 ∧ len = 8 ∧ data.length = 8 then
    some (nameOfBytes data, id % 256)
  else none

/-- a foreign node (one controller function) -/
structure Node where
  name : Nat
  pref : Nat            -- preferred (initial) address, 0..251
  selfConfig : Bool     -- arbitrary-address capable: may pick another address after losing
  addr : Nat            -- current address: 0..251, or 254 = cannot claim
  started : Bool        -- has performed its initial claim (before that it has no address on the bus)
  deriving Repr, DecidableEq

/-- the reference next-address choice: the next address upwards (251 wraps to 0); a node that comes back to its
preferred address, or is not self-configurable, cannot claim. Any other choice satisfies the theorems as well
(they are proved for an arbitrary choice function). -/
def nextAddr (n : Node) : Nat :=
  if n.selfConfig then
    let a := if n.addr ≥ maxAddr then 0 else n.addr + 1
    if a = n.pref then nullAddr else a
  else nullAddr

/-- power-up: take the preferred address and claim it -/
def start (n : Node) : Node × List Claim :=
  if n.started then (n, []) else
  ({ n with addr := n.pref, started := true }, [(n.name, n.pref)])

/-- reaction to a received address claim `(nm, a)`; `next` is the node's next-address choice -/
def onClaim (next : Node → Nat) (n : Node) (c : Claim) : Node × List Claim :=
  if n.started ∧ c.2 = n.addr ∧ c.2 ≤ maxAddr then
    if n.name < c.1 then (n, [(n.name, n.addr)])                 -- lower NAME: keep the address, claim again
    else
      let a := next n
      ({ n with addr := a }, [(n.name, a)])                        -- give up: claim another address / cannot claim
  else (n, [])

/-- reaction to a commanded-address message for NAME `nm` -/
def onCommanded (n : Node) (nm newAddr : Nat) : Node × List Claim :=
  if n.started ∧ nm = n.name ∧ newAddr ≤ maxAddr ∧ newAddr ≠ n.addr then
    ({ n with addr := newAddr }, [(n.name, newAddr)])
  else (n, [])

end N2k.Iso
