#!/usr/bin/env python3
"""Offline setup: build the Lean library (all property theorems) and the model driver."""
import os, subprocess, sys
VERIF = os.path.dirname(os.path.dirname(os.path.abspath(__file__)))
sys.path.insert(0, os.path.join(VERIF, 'tools'))
import registry
claimed = set(open(os.path.join(VERIF, 'tools', 'claimed.txt')).read().split())
mods = sorted({m for pid, p in registry.PROPS.items() if pid in claimed for m in p['lean_modules']})
os.makedirs(os.path.join(VERIF, 'build'), exist_ok=True)
# translators must have produced the generated Lean files before the first build
import check
for pid, spec in registry.PROPS.items():
    if pid not in claimed:
        continue
    for t in spec.get('translators', []):
        mod = __import__('translators.' + t, fromlist=['run'])
        mod.run(check.SRC, os.path.join(check.LEAN, 'N2k', 'Gen'))
import gen_driver_main, gen_spec
gen_spec.run()
gen_driver_main.run()
r = subprocess.run(['lake', 'build'] + mods + ['n2kdrv'], cwd=os.path.join(VERIF, 'lean'))
sys.exit(r.returncode)
