import N2k.Model.DeviceList
/-!
# C18 helper lemmas, part 1: the structural invariant and the entry view

`devAt s i` is the entry the list shows under source `i` (`Sources[i]` dereferenced). `Struct s` says that every
occupied slot points to a live object that carries the slot's source (so two slots never share an object).
All properties of C18 are properties of the function `devAt s`; the lemmas here describe the effect of the
elementary state changes (remove / move / add / rewrite an entry) on `Struct` and `devAt` *semantically*: the new
state is described field by field, so that the different statement orders of the C++ branches can all be matched.
-/
namespace N2k.DeviceList

/-- the entry shown under source `i` -/
def devAt (s : State) (i : Nat) : Option Device :=
  match s.sources i with
  | none => none
  | some id => s.heap id

structure Struct (s : State) : Prop where
  src : ∀ i id, s.sources i = some id → i < MaxBusDevices ∧ i < s.maxDevices ∧ ∃ d, s.heap id = some d ∧ d.source = i
  max : s.maxDevices ≤ MaxBusDevices
  fresh : ∀ id, s.nextId ≤ id → s.heap id = none

theorem Struct.init : Struct State.init :=
  ⟨by intro i id h; simp [State.init] at h, by simp [State.init, MaxBusDevices], by intro id _; rfl⟩

theorem devAt_some {s : State} (hs : Struct s) {i : Nat} {id : Id} (h : s.sources i = some id) :
    ∃ d, s.heap id = some d ∧ d.source = i ∧ devAt s i = some d := by
  obtain ⟨_, _, d, hd, hsrc⟩ := hs.src i id h
  exact ⟨d, hd, hsrc, by simp [devAt, h, hd]⟩

theorem devAt_none {s : State} {i : Nat} (h : s.sources i = none) : devAt s i = none := by
  simp [devAt, h]

theorem devAt_src {s : State} (hs : Struct s) {i : Nat} {d : Device} (h : devAt s i = some d) :
    d.source = i ∧ i < MaxBusDevices ∧ i < s.maxDevices ∧ ∃ id, s.sources i = some id ∧ s.heap id = some d := by
  unfold devAt at h
  cases hsi : s.sources i with
  | none => simp [hsi] at h
  | some id =>
    simp only [hsi] at h
    obtain ⟨h1, h2, d', hd', hsrc⟩ := hs.src i id hsi
    rw [h] at hd'
    cases hd'
    exact ⟨hsrc, h1, h2, id, rfl, h⟩

/-- two slots never share an object -/
theorem Struct.inj {s : State} (hs : Struct s) {i j : Nat} {id : Id}
    (hi : s.sources i = some id) (hj : s.sources j = some id) : i = j := by
  obtain ⟨_, _, d, hd, hsrc⟩ := hs.src i id hi
  obtain ⟨_, _, d', hd', hsrc'⟩ := hs.src j id hj
  rw [hd] at hd'; cases hd'; omega

/-! ## semantic descriptions of the elementary changes -/

/-- the entry under `a` is rewritten (same object, same source) -/
theorem touch_sem {s s' : State} (hs : Struct s) {a : Nat} {p : Id} {d' : Device}
    (ha : s.sources a = some p) (hsrc : d'.source = a)
    (hS : ∀ j, s'.sources j = s.sources j)
    (hH : ∀ x, s'.heap x = if x = p then some d' else s.heap x)
    (hM : s'.maxDevices = s.maxDevices) (hN : s'.nextId = s.nextId) :
    Struct s' ∧ ∀ j, devAt s' j = if j = a then some d' else devAt s j := by
  obtain ⟨dp, hdp, _, _⟩ := devAt_some hs ha
  refine ⟨⟨?_, by rw [hM]; exact hs.max, ?_⟩, ?_⟩
  · intro i id h
    rw [hS] at h
    obtain ⟨h1, h2, d, hd, hds⟩ := hs.src i id h
    refine ⟨h1, by rw [hM]; exact h2, ?_⟩
    rw [hH]
    by_cases hx : id = p
    · subst hx
      have : i = a := hs.inj h ha
      subst this
      exact ⟨d', by simp, hsrc⟩
    · exact ⟨d, by simp [hx, hd], hds⟩
  · intro id hid
    rw [hH]
    rw [hN] at hid
    have hp : id ≠ p := by
      intro h; subst h
      rw [hs.fresh id hid] at hdp; cases hdp
    simp [hp, hs.fresh id hid]
  · intro j
    unfold devAt
    rw [hS]
    by_cases hj : j = a
    · subst hj; simp [ha, hH]
    · simp only [hj, if_false]
      cases hsj : s.sources j with
      | none => rfl
      | some id =>
        have : id ≠ p := by
          intro h; subst h; exact hj (hs.inj hsj ha)
        simp [hH, this]

/-- the entry under `a` is removed and its object freed -/
theorem remove_sem {s s' : State} (hs : Struct s) {a : Nat} {p : Id}
    (ha : s.sources a = some p)
    (hS : ∀ j, s'.sources j = if j = a then none else s.sources j)
    (hH : ∀ x, s'.heap x = if x = p then none else s.heap x)
    (hM : s'.maxDevices = s.maxDevices) (hN : s'.nextId = s.nextId) :
    Struct s' ∧ ∀ j, devAt s' j = if j = a then none else devAt s j := by
  refine ⟨⟨?_, by rw [hM]; exact hs.max, ?_⟩, ?_⟩
  · intro i id h
    rw [hS] at h
    by_cases hi : i = a
    · simp [hi] at h
    · simp only [hi, if_false] at h
      obtain ⟨h1, h2, d, hd, hds⟩ := hs.src i id h
      refine ⟨h1, by rw [hM]; exact h2, d, ?_, hds⟩
      rw [hH]
      have : id ≠ p := by
        intro hx; subst hx; exact hi (hs.inj h ha)
      simp [this, hd]
  · intro id hid
    rw [hH]; rw [hN] at hid
    by_cases hx : id = p
    · simp [hx]
    · simp [hx, hs.fresh id hid]
  · intro j
    unfold devAt
    rw [hS]
    by_cases hj : j = a
    · simp [hj]
    · simp only [hj, if_false]
      cases hsj : s.sources j with
      | none => rfl
      | some id =>
        have : id ≠ p := by
          intro h; subst h; exact hj (hs.inj hsj ha)
        simp [hH, this]

/-- the object `p` (entry under `a`, or not referenced at all when `a = none`) becomes the entry under the free slot `b` -/
theorem move_sem {s s' : State} (hs : Struct s) {a b : Nat} {p : Id} {d : Device}
    (ha : s.sources a = some p) (hd : s.heap p = some d) (hb : s.sources b = none) (hb254 : b < MaxBusDevices)
    (hS : ∀ j, s'.sources j = if j = b then some p else if j = a then none else s.sources j)
    (hH : ∀ x, s'.heap x = if x = p then some (d.setSource b) else s.heap x)
    (hM : s'.maxDevices = if b ≥ s.maxDevices then b + 1 else s.maxDevices) (hN : s'.nextId = s.nextId) :
    Struct s' ∧ ∀ j, devAt s' j = if j = b then some (d.setSource b) else if j = a then none else devAt s j := by
  have hab : a ≠ b := by intro h; subst h; rw [ha] at hb; cases hb
  have hmax : s.maxDevices ≤ s'.maxDevices ∧ b < s'.maxDevices ∧ s'.maxDevices ≤ MaxBusDevices := by
    rw [hM]; have := hs.max
    split <;> omega
  refine ⟨⟨?_, hmax.2.2, ?_⟩, ?_⟩
  · intro i id h
    rw [hS] at h
    by_cases hi : i = b
    · subst hi
      simp only [if_true] at h
      cases h
      exact ⟨hb254, hmax.2.1, d.setSource i, by simp [hH], rfl⟩
    · simp only [hi, if_false] at h
      by_cases hia : i = a
      · simp [hia] at h
      · simp only [hia, if_false] at h
        obtain ⟨h1, h2, dd, hdd, hds⟩ := hs.src i id h
        refine ⟨h1, by omega, dd, ?_, hds⟩
        have : id ≠ p := by
          intro hx; subst hx; exact hia (hs.inj h ha)
        simp [hH, this, hdd]
  · intro id hid
    rw [hH]; rw [hN] at hid
    have hp : id ≠ p := by
      intro h; subst h
      rw [hs.fresh id hid] at hd; cases hd
    simp [hp, hs.fresh id hid]
  · intro j
    unfold devAt
    rw [hS]
    by_cases hj : j = b
    · subst hj; simp [hH]
    · simp only [hj, if_false]
      by_cases hja : j = a
      · simp [hja]
      · simp only [hja, if_false]
        cases hsj : s.sources j with
        | none => rfl
        | some id =>
          have : id ≠ p := by
            intro h; subst h; exact hja (hs.inj hsj ha)
          simp [hH, this]

/-- a new object becomes the entry under the free slot `b` -/
theorem add_sem {s s' : State} (hs : Struct s) {b : Nat} {d : Device}
    (hb : s.sources b = none) (hb254 : b < MaxBusDevices)
    (hS : ∀ j, s'.sources j = if j = b then some s.nextId else s.sources j)
    (hH : ∀ x, s'.heap x = if x = s.nextId then some (d.setSource b) else s.heap x)
    (hM : s'.maxDevices = if b ≥ s.maxDevices then b + 1 else s.maxDevices) (hN : s'.nextId = s.nextId + 1) :
    Struct s' ∧ ∀ j, devAt s' j = if j = b then some (d.setSource b) else devAt s j := by
  have hmax : s.maxDevices ≤ s'.maxDevices ∧ b < s'.maxDevices ∧ s'.maxDevices ≤ MaxBusDevices := by
    rw [hM]; have := hs.max
    split <;> omega
  have hne : ∀ i id, s.sources i = some id → id ≠ s.nextId := by
    intro i id h hx
    obtain ⟨_, _, dd, hdd, _⟩ := hs.src i id h
    rw [hx, hs.fresh s.nextId (Nat.le_refl _)] at hdd; cases hdd
  refine ⟨⟨?_, hmax.2.2, ?_⟩, ?_⟩
  · intro i id h
    rw [hS] at h
    by_cases hi : i = b
    · subst hi
      simp only [if_true] at h
      cases h
      exact ⟨hb254, hmax.2.1, d.setSource i, by simp [hH], rfl⟩
    · simp only [hi, if_false] at h
      obtain ⟨h1, h2, dd, hdd, hds⟩ := hs.src i id h
      refine ⟨h1, by omega, dd, ?_, hds⟩
      simp [hH, hne i id h, hdd]
  · intro id hid
    rw [hH]; rw [hN] at hid
    have : id ≠ s.nextId := by
      intro h; rw [h] at hid; exact Nat.not_succ_le_self _ hid
    have h2 := hs.fresh id (Nat.le_of_succ_le hid)
    simp [this, h2]
  · intro j
    unfold devAt
    rw [hS]
    by_cases hj : j = b
    · subst hj; simp [hH]
    · simp only [hj, if_false]
      cases hsj : s.sources j with
      | none => rfl
      | some id => simp [hH, hne j id hsj]

/-! ## the loops -/

theorem findLoop_spec {s : State} (hs : Struct s) (p : Device → Bool) :
    ∀ k i, ∃ r, findLoop s p k i = .ok r ∧
      (∀ id, r = some id → ∃ j d, i ≤ j ∧ j < i + k ∧ s.sources j = some id ∧ s.heap id = some d ∧ p d = true) ∧
      (r = none → ∀ j d, i ≤ j → j < i + k → devAt s j = some d → p d = false) := by
  intro k
  induction k with
  | zero =>
    intro i
    refine ⟨none, rfl, ?_, ?_⟩
    · intro id h; cases h
    · intro _ j d h1 h2; omega
  | succ k ih =>
    intro i
    obtain ⟨r, hr, h1, h2⟩ := ih (i + 1)
    cases hsi : s.sources i with
    | none =>
      refine ⟨r, by simp [findLoop, hsi, hr], ?_, ?_⟩
      · intro id hid
        obtain ⟨j, d, a, b, c⟩ := h1 id hid
        exact ⟨j, d, by omega, by omega, c⟩
      · intro hn j d hj1 hj2 hdj
        by_cases hji : j = i
        · subst hji; rw [devAt_none hsi] at hdj; cases hdj
        · exact h2 hn j d (by omega) (by omega) hdj
    | some id =>
      obtain ⟨d, hd, _, hda⟩ := devAt_some hs hsi
      by_cases hp : p d = true
      · refine ⟨some id, by simp [findLoop, hsi, State.deref, hd, hp], ?_, by intro h; cases h⟩
        intro id' hid'; cases hid'
        exact ⟨i, d, Nat.le_refl _, by omega, hsi, hd, hp⟩
      · refine ⟨r, by simp [findLoop, hsi, State.deref, hd, hp, hr], ?_, ?_⟩
        · intro id' hid
          obtain ⟨j, d', a, b, c⟩ := h1 id' hid
          exact ⟨j, d', by omega, by omega, c⟩
        · intro hn j d' hj1 hj2 hdj
          by_cases hji : j = i
          · subst hji; rw [hda] at hdj; cases hdj; simpa using hp
          · exact h2 hn j d' (by omega) (by omega) hdj

/-- `LocalFindDeviceByName` under the structural invariant -/
theorem findByName_spec {s : State} (hs : Struct s) (name : Nat) :
    ∃ r, findByName s name = .ok r ∧
      (∀ id, r = some id → ∃ j d, s.sources j = some id ∧ s.heap id = some d ∧ d.name = name ∧ d.source = j ∧ devAt s j = some d) ∧
      (r = none → ∀ j d, devAt s j = some d → d.name ≠ name) := by
  obtain ⟨r, hr, h1, h2⟩ := findLoop_spec hs (fun d => d.name == name) s.maxDevices 0
  refine ⟨r, hr, ?_, ?_⟩
  · intro id hid
    obtain ⟨j, d, _, _, hsj, hd, hp⟩ := h1 id hid
    obtain ⟨d', hd', hsrc, hda⟩ := devAt_some hs hsj
    rw [hd] at hd'; cases hd'
    exact ⟨j, d, hsj, hd, by simpa using hp, hsrc, hda⟩
  · intro hn j d hdj
    obtain ⟨_, _, hj, _⟩ := devAt_src hs hdj
    have := h2 hn j d (Nat.zero_le _) (by omega) hdj
    simpa using this

theorem firstEmpty_spec (s : State) : ∀ k i,
    (∀ x, firstEmpty s k i = some x → i ≤ x ∧ x < i + k ∧ s.sources x = none) ∧
    (firstEmpty s k i = none → ∀ j, i ≤ j → j < i + k → s.sources j ≠ none) := by
  intro k
  induction k with
  | zero =>
    intro i
    refine ⟨?_, ?_⟩
    · intro x h; simp [firstEmpty] at h
    · intro _ j h1 h2; omega
  | succ k ih =>
    intro i
    obtain ⟨h1, h2⟩ := ih (i + 1)
    by_cases he : (s.sources i).isNone = true
    · refine ⟨?_, ?_⟩
      · intro x hx
        simp only [firstEmpty, he, if_true] at hx
        cases hx
        exact ⟨Nat.le_refl _, by omega, by simpa using he⟩
      · intro hn; simp [firstEmpty, he] at hn
    · refine ⟨?_, ?_⟩
      · intro x hx
        simp only [firstEmpty, he] at hx
        obtain ⟨a, b, c⟩ := h1 x hx
        exact ⟨by omega, by omega, c⟩
      · intro hn j hj1 hj2
        simp only [firstEmpty, he] at hn
        by_cases hji : j = i
        · subst hji; intro h; simp [h] at he
        · exact h2 hn j (by omega) (by omega)

/-! ## `SaveDevice` -/

/-- the state after `SaveDevice(p,src)` for a live `p` -/
def State.place (s : State) (id : Id) (d : Device) (src : Nat) : State :=
  { s with heap := fun j => if j = id then some (d.setSource src) else s.heap j,
           sources := fun j => if j = src then some id else s.sources j,
           maxDevices := if src ≥ s.maxDevices then src + 1 else s.maxDevices }

theorem saveDevice_eq {s : State} {id : Id} {d : Device} {src : Nat}
    (hsrc : src < MaxBusDevices) (hd : s.heap id = some d) :
    saveDevice s id src = .ok (s.place id d src) := by
  have h : ¬ src ≥ MaxBusDevices := by omega
  unfold saveDevice State.modify
  simp only [h, if_false, hd]
  simp only [State.setSrc, State.put, State.place]
  by_cases hm : src ≥ s.maxDevices <;> simp [hm]

end N2k.DeviceList
