import N2k.Model.ClaimRx
import N2k.Lemmas.SendGate
/-! The receive slots in front of `HandleISOAddressClaim`: a claim frame is handled exactly when
`FindFreeCANMsgIndex` gives it a slot; and `SendMsg` of a device without a valid address. -/
namespace N2k.ClaimRx
open N2k.Send N2k.Time N2k.Claim

theorem rawOf_wf (f : Frame) (hlen : f.len ≤ 8) : Rx.WFrame (rawOf f) := by
  unfold rawOf Rx.decode Rx.WFrame
  simp only
  refine ⟨?_, hlen⟩
  simp [List.length_take]

theorem claim_handled : Rx.handled cfg ⟨p, 60928, s, d, l, b⟩ = true := by
  simp [Rx.handled, Rx.isTP, cfg]

theorem claim_not_fp : Rx.isFP cfg 60928 = false := by decide

/-- a claim frame (PGN 60928 as the library decodes it) is delivered iff `FindFreeCANMsgIndex` finds a slot -/
theorem rx_claim (st : Rx.St) (now : Nat) (r : Rx.Frame) (hp : r.pgn = 60928) (hw : Rx.WFrame r) :
    (Rx.findFree st now r < st.N → ((Rx.rx cfg st now r).2).isSome = true) ∧
    (¬ Rx.findFree st now r < st.N → Rx.rx cfg st now r = (st, none)) := by
  obtain ⟨p, pgn, s, d, l, b⟩ := r
  simp only at hp; subst hp
  have hh : Rx.handled cfg ⟨p, 60928, s, d, l, b⟩ = true := claim_handled
  unfold Rx.rx
  rw [if_pos hh]
  unfold Rx.rxCore
  simp only [claim_not_fp, Bool.false_and, Bool.false_eq_true, ↓reduceIte]
  constructor
  · intro h
    rw [if_pos h]
    unfold Rx.finish Rx.initSlot
    simp only [Bool.false_eq_true, ↓reduceIte]
    have hlen : (Rx.copy [] 0 ⟨p, 60928, s, d, l, b⟩).length ≥ l := by
      obtain ⟨h8, hl⟩ := hw
      simp only at h8 hl
      simp [Rx.copy, List.length_take, h8]; omega
    rw [if_pos hlen]; rfl
  · intro h; rw [if_neg h]

theorem parse_not_reading (x : Inst) (h : readsBus x = false) (rx : List Rx) : parse x rx = parse x [] := by
  unfold readsBus at h
  have h' : ¬ (if x.s.openState = 3 then x else Claim.openStep x).s.openState = 3 := by simpa using h
  unfold parse
  simp only [ne_eq, h', not_false_eq_true, ↓reduceIte]

/-- a device without a valid address sends nothing but address claims: `SendMsg` stamps the device's address before
it tests the range, so the source the caller left in the message does not matter -/
theorem null_address_silent (s : St) (m : Msg) (i : Nat) (d0 : Dev) (hd : s.devs[i]? = some d0)
    (hsrc : d0.source > Gen.maxCanBusAddress) (hp : m.pgn ≠ 60928) :
    (sendMsg s m (some i)).2 = false ∧ (sendMsg s m (some i)).1.drv = s.drv ∧ (sendMsg s m (some i)).1.ring = s.ring := by
  cases hg : gate s m (some i) with
  | refuse s' =>
    obtain ⟨a, b, _, _⟩ := gate_refuse s m (some i) s' hg
    unfold sendMsg; rw [hg]
    exact ⟨rfl, a, b⟩
  | pass s1 d1 canId =>
    obtain ⟨d0', p⟩ := gate_pass s m (some i) s1 d1 canId hg
    have : d0' = d0 := by
      have := p.dev0; simp only [Option.getD_some] at this; rw [hd] at this; injection this with this; exact this.symm
    subst this
    exact absurd ⟨by simpa [srcOf] using hsrc, hp⟩ p.src

end N2k.ClaimRx
