import N2k.Model.TP
import N2k.Spec.IsoTp
import N2k.Lemmas.Framing
/-! C10 helper lemmas: packetisation of `Model/TP.lean` against `Spec/IsoTp.lean`. -/
namespace N2k.TP
open N2k.Send N2k.Spec

theorem packetCount_eq (L : Nat) : packetCount L = tpPacketCount L := by
  unfold packetCount tpPacketCount; split <;> omega

theorem tpPacketCount_le (L : Nat) (h : L ≤ 223) : tpPacketCount L ≤ 32 := by unfold tpPacketCount; omega
theorem tpPacketCount_cover (L : Nat) : L ≤ 7 * tpPacketCount L := by unfold tpPacketCount; omega
theorem tpPacketCount_tight (L : Nat) (h : 0 < L) : 7 * (tpPacketCount L - 1) < L := by unfold tpPacketCount; omega

theorem take_len (m : Msg) (hl : m.len ≤ m.data.length) : (m.data.take m.len).length = m.len := by
  rw [List.length_take]; omega

theorem dtBytes_eq (m : Msg) (k : Nat) (hk : k < 255) (hl : m.len ≤ m.data.length) :
    dtBytes m k = tpDT (m.data.take m.len) (k + 1) := by
  unfold dtBytes tpDT
  rw [Nat.mod_eq_of_lt (by omega)]
  congr 1
  apply List.map_congr_left
  intro j _
  rw [payloadByte_eq m _ hl]
  congr 1
  rw [Nat.add_sub_cancel, Nat.mul_comm]

theorem announce_eq (ctrl : Nat) (m : Msg) (hl : m.len ≤ m.data.length) (h : m.len ≤ 223) :
    announceBytes ctrl m = tpAnnounce ctrl (m.data.take m.len) m.pgn := by
  unfold announceBytes tpAnnounce le3 pgnBytes
  rw [take_len m hl, packetCount_eq]
  have h1 : m.len / 256 % 256 = m.len / 256 := by omega
  have h2 : tpPacketCount m.len % 256 = tpPacketCount m.len := by
    have := tpPacketCount_le m.len h; omega
  rw [h1, h2]

theorem flatten_blocks7 (f : Nat → Nat) : ∀ c : Nat,
    ((List.range c).map fun k => (List.range 7).map fun j => f (7 * k + j)).flatten = (List.range (7 * c)).map f :=
  flatten_blocks f

theorem tpReassemble_tpDTs (pl : List Nat) : tpReassemble pl.length (tpDTs pl) = pl := by
  unfold tpReassemble tpDTs
  rw [List.map_map]
  have h2 : (List.map ((fun x => List.drop 1 x) ∘ fun i => tpDT pl (i + 1)) (List.range (tpPacketCount pl.length)))
      = (List.range (tpPacketCount pl.length)).map fun k => (List.range 7).map fun j => (fpByte pl) (7 * k + j) := by
    apply List.map_congr_left
    intro k _
    simp [Function.comp, tpDT]
  rw [h2, flatten_blocks7 (fpByte pl), ← List.map_take, List.take_range, Nat.min_eq_left (tpPacketCount_cover pl.length)]
  apply List.ext_getElem
  · simp
  · intro i h1 h2
    simp only [List.getElem_map, List.getElem_range, fpByte]
    have : i < pl.length := by simpa using h1
    simp [this, List.getD_eq_getElem?_getD]

end N2k.TP
