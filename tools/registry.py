"""Registry of properties: which Lean modules, harness, sources and case markers each check uses."""

TRUSTED_BASE = [
    "Lean 4.33.0 kernel (lake build; leanchecker re-check in the thorough tier)",
    "axioms allowed per theorem: propext, Classical.choice, Quot.sound (audited by #print axioms on every run); "
    "no native_decide / bv_decide / sorry / user axioms (grep on every run)",
    "Lean compiler+runtime for the driver n2kdrv only (executes model definitions for the correspondence)",
    "correspondence harness (g++ 12, ASan+UBSan, x86-64 LP64 little-endian) and its generators: differential "
    "testing ties the hand-written model to /repo/src as compiled on this run; a prefix of the generated ops (3000 lines, "
    "x4 in the thorough tier) is replayed on a build without sanitizers under valgrind memcheck (reports raised inside "
    "/repo/src code count: uninitialised reads are invisible to ASan/UBSan)",
]

ALL_LIB = ['N2kMsg.cpp', 'N2kStream.cpp', 'N2kMessages.cpp', 'N2kTimer.cpp', 'N2kGroupFunction.cpp',
           'N2kGroupFunctionDefaultHandlers.cpp', 'NMEA2000.cpp', 'N2kDeviceList.cpp', 'Seasmart.cpp',
           'ActisenseReader.cpp', 'N2kMaretron.cpp']

import os, glob, importlib.util

PROPS = {}
MANIFEST_TEXT = {}


def _load():
    d = os.path.join(os.path.dirname(os.path.abspath(__file__)), 'props')
    for p in sorted(glob.glob(os.path.join(d, 'C*.py'))):
        pid = os.path.basename(p)[:-3]
        s = importlib.util.spec_from_file_location('props_' + pid, p)
        m = importlib.util.module_from_spec(s)
        s.loader.exec_module(m)
        PROPS[pid] = m.SPEC
        MANIFEST_TEXT[pid] = m.MANIFEST


_load()
