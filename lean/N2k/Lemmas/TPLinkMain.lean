import N2k.Lemmas.TPLinkPoll
/-! C10: two library nodes joined by a loss-free in-order channel; the rounds of an RTS/CTS transfer. -/
namespace N2k.TP
open N2k.Send N2k.Time N2k.Spec

/-- the frames `x` handed to its driver arrive, in order and complete, in the receive queue of `y` -/
def wire (x y : Node) : Node × Node :=
  ({ x with s := { x.s with drv := { x.s.drv with sent := [] } } }, { y with rxq := y.rxq ++ x.s.drv.sent })

/-- the node's clock shows `t` -/
def atTime (n : Node) (t : Nat) : Node := { n with s := { n.s with now := t } }

/-- `d` milliseconds pass -/
def advance (n : Node) (d : Nat) : Node := atTime n (n.s.now + d)

/-- one exchange: what A sent reaches B, B polls `dB` ms after its previous poll; what B sent reaches A, A polls `dA` ms
after its previous poll (the two clocks need not agree) -/
def round (dB dA : Nat) (ab : Node × Node) : Node × Node :=
  let w1 := wire ab.1 ab.2
  let w2 := wire (poll (advance w1.2 dB)) w1.1
  (poll (advance w2.2 dA), w2.1)

/-- a sequence of exchanges with the given delays `(dB, dA)` -/
def rounds : List (Nat × Nat) → Node × Node → Node × Node
  | [], ab => ab
  | p :: t, ab => rounds t (round p.1 p.2 ab)

/-- total time that passes at A -/
def totalA (ds : List (Nat × Nat)) : Nat := (ds.map (·.2)).sum

theorem atTime_self (n : Node) : atTime n n.s.now = n := rfl
theorem advance_upd (n : Node) (t d : Nat) (tp : Nat → TpDev) (sl : List Slot) (out : List Delivery) (fs rxq : List Frame) :
    advance ((atTime n t).upd tp sl out fs rxq) d = (atTime n (t + d)).upd tp sl out fs rxq := rfl
theorem Lead.atTime {n : Node} {i : Nat} {d : Dev} (h : Lead n i d) (t : Nat) : Lead (atTime n t) i d := ⟨h.dev0, h.first, h.others, h.claims⟩
theorem atTime_quiet {n : Node} {i : Nat} (t : Nat) (h : Quiet n.s i) : Quiet (atTime n t).s i :=
  ⟨h.dev, h.notListen, h.active, h.ringEmpty, h.script, h.dflt, h.notFpCM, h.notFpDT⟩
theorem txTp_atTime (i : Nat) (n : Node) (t : Nat) (m : Msg) (seq t0 tmo : Nat) : txTp i (atTime n t) m seq t0 tmo = txTp i n m seq t0 tmo := rfl
theorem doneTp_atTime (i : Nat) (n : Node) (t : Nat) (m : Msg) (seq : Nat) : doneTp i (atTime n t) m seq = doneTp i n m seq := rfl

theorem wire_upd (x y : Node) (tp : Nat → TpDev) (sl : List Slot) (out : List Delivery) (fs rxq : List Frame)
    (tp' : Nat → TpDev) (sl' : List Slot) (out' : List Delivery) (fs' rxq' : List Frame) :
    wire (x.upd tp sl out fs rxq) (y.upd tp' sl' out' fs' rxq') = (x.upd tp sl out [] rxq, y.upd tp' sl' out' fs' (rxq' ++ fs)) := rfl

section
variable (a b : Node) (ia ib : Nat) (da db : Dev) (m : Msg) (j : Nat) (S' : List Slot) (a0 : Slot)

/-- the sender after the CTS for packets from `k` on was answered at time `tA` -/
def snd (tA k : Nat) : Node :=
  (atTime a tA).upd (txTp ia a m (k + min (tpCtsPackets (tpPacketCount m.len)) (tpPacketCount m.len - k)) tA 100) a.slots a.out
    ((List.range (min (tpCtsPackets (tpPacketCount m.len)) (tpPacketCount m.len - k))).map fun x => dtFrame da.source m (k + x)) []

/-- hypotheses of the exchange (`m` is the pending message, i.e. with the sender's address as source) -/
structure LinkHyp : Prop where
  devA : Lead a ia da
  devB : Lead b ib db
  qa : Quiet a.s ia
  qb : Quiet b.s ib
  bIdle : (b.tp ib).hasPending = false
  aInfo : InfoIdle a ia
  bInfo : InfoIdle b ib
  mdst : m.dst = db.source
  len9 : 9 ≤ m.len
  len223 : m.len ≤ 223
  hdata : m.len ≤ m.data.length
  pgn24 : m.pgn < 2^24
  pgn0 : m.pgn ≠ 0
  known : (checkKnown m.pgn).1 = true ∨ ¬ b.onlyKnown = true
  hS : S' = b.slots.map (freeSess da.source db.source)
  hj : findIdx (slotHit m.pgn da.source db.source true) S' = some j
  ha0 : S'[j]? = some a0

variable {a b ia ib da db m j S' a0}

theorem LinkHyp.srcA (h : LinkHyp a b ia ib da db m j S' a0) : da.source ≤ 251 := by
  exact h.devA.src h.qa

theorem LinkHyp.dstB (h : LinkHyp a b ia ib da db m j S' a0) : db.source ≤ 251 := by
  exact h.devB.src h.qb

theorem LinkHyp.none (h : LinkHyp a b ia ib da db m j S' a0) : findIdx (sessOf da.source db.source) S' = none := by
  rw [h.hS]
  apply findIdx_none_of_all
  intro x hx
  obtain ⟨c, _, hc⟩ := List.mem_map.1 hx
  rw [← hc]; exact sessOf_freeSess _ _ c

theorem LinkHyp.jlt (h : LinkHyp a b ia ib da db m j S' a0) : j < S'.length := findIdx_lt _ _ _ h.hj

theorem LinkHyp.at (h : LinkHyp a b ia ib da db m j S' a0) (tA tB : Nat) : LinkHyp (atTime a tA) (atTime b tB) ia ib da db m j S' a0 :=
  ⟨h.devA.atTime tA, h.devB.atTime tB, atTime_quiet tA h.qa, atTime_quiet tB h.qb, h.bIdle, h.aInfo, h.bInfo, h.mdst, h.len9, h.len223, h.hdata, h.pgn24, h.pgn0,
   h.known, h.hS, h.hj, h.ha0⟩

/-- first round: RTS → CTS(1) → first window (A polls less than 50 ms after `SendMsg`) -/
theorem round_first (h : LinkHyp a b ia ib da db m j S' a0) (tA tB dB dA : Nat) (hdA : dA < 50) (h64 : tA + dA + 100 < M64) :
    round dB dA ((atTime a tA).upd (txTp ia a m 0 tA 50) a.slots a.out [cmFrame da.source m.dst (announceBytes 16 m)] [],
                 (atTime b tB).upd b.tp b.slots [] [] []) =
      (snd a ia da m (tA + dA) 0, rcv (atTime b (tB + dB)) db m da.source j S' a0 (millis32 (tB + dB)) [] 0 [] []) := by
  have hsa := h.srcA
  have hsb := h.dstB
  have h' := h.at (tA + dA) (tB + dB)
  unfold round
  simp only [wire_upd, List.nil_append, advance_upd]
  have hp := poll_rts (atTime b (tB + dB)) db m da.source j S' a0 h'.devB h'.qb (by omega) h.mdst h.len223 h.pgn24 h.bIdle h.bInfo h.known
    h.hS h.hj h.ha0
  rw [show (atTime b (tB + dB)).tp = b.tp from rfl, show (atTime b (tB + dB)).slots = b.slots from rfl] at hp
  rw [hp]
  unfold rcv
  simp only [wire_upd, List.nil_append, advance_upd]
  have hc := poll_cts (atTime a (tA + dA)) da m db.source 0 tA 50 (tpPacketCount m.len) a.slots a.out h'.devA h'.qa h.aInfo h.mdst
    (by omega) h.len223 h.pgn24 (by omega) ⟨by show tA ≤ tA + dA; omega, by show tA + dA < tA + 50; omega⟩
    (by show tA + dA + 100 < M64; exact h64) (by omega)
  rw [txTp_atTime, txTp_atTime] at hc
  rw [hc]
  simp only [snd, Nat.zero_add, Nat.sub_zero]
  rfl

/-- a middle round: a full window that is not the last one → next CTS → next window (A polls less than 100 ms after its last poll) -/
theorem round_mid (h : LinkHyp a b ia ib da db m j S' a0) (k tA tB mt dB dA : Nat) (hkc : k % tpCtsPackets (tpPacketCount m.len) = 0)
    (hmore : k + tpCtsPackets (tpPacketCount m.len) < tpPacketCount m.len) (hdA : dA < 100) (h64 : tA + dA + 100 < M64) :
    round dB dA (snd a ia da m tA k, rcv (atTime b tB) db m da.source j S' a0 mt [] k [] []) =
      (snd a ia da m (tA + dA) (k + tpCtsPackets (tpPacketCount m.len)),
       rcv (atTime b (tB + dB)) db m da.source j S' a0 (millis32 (tB + dB)) [] (k + tpCtsPackets (tpPacketCount m.len)) [] []) := by
  have hsa := h.srcA
  have hsb := h.dstB
  have h' := h.at (tA + dA) (tB + dB)
  have hmin : min (tpCtsPackets (tpPacketCount m.len)) (tpPacketCount m.len - k) = tpCtsPackets (tpPacketCount m.len) := by omega
  have htight := tpPacketCount_tight m.len (by have := h.len9; omega)
  have hpc := tpPacketCount_le m.len h.len223
  unfold round snd rcv
  simp only [wire_upd, List.nil_append, hmin, advance_upd]
  have hw := poll_window (atTime b (tB + dB)) db m da.source j S' a0 k (tpCtsPackets (tpPacketCount m.len)) mt rfl h'.devB h'.qb
    (by omega) h.mdst h.none h.jlt h.len223 h.bIdle h.bInfo hkc (by omega)
  unfold rcv at hw
  rw [show (atTime b (tB + dB)).tp = b.tp from rfl] at hw
  rw [show (atTime b tB).tp = b.tp from rfl]
  rw [hw]
  simp only [wire_upd, List.nil_append, advance_upd]
  have hc := poll_cts (atTime a (tA + dA)) da m db.source (k + tpCtsPackets (tpPacketCount m.len)) tA 100 (tpPacketCount m.len) a.slots a.out
    h'.devA h'.qa h.aInfo h.mdst (by omega) h.len223 h.pgn24 (by omega) ⟨by show tA ≤ tA + dA; omega, by show tA + dA < tA + 100; omega⟩
    (by show tA + dA + 100 < M64; exact h64) (by omega)
  rw [txTp_atTime, txTp_atTime] at hc
  rw [hc]
  rfl

/-- the last round: last window → EndOfMsgACK and delivery → the sender ends the transfer -/
theorem round_last (h : LinkHyp a b ia ib da db m j S' a0) (k tA tB mt dB dA : Nat) (hkc : k % tpCtsPackets (tpPacketCount m.len) = 0)
    (hk : k < tpPacketCount m.len) (hlast : tpPacketCount m.len ≤ k + tpCtsPackets (tpPacketCount m.len))
    (hdA : dA < 100) (h64 : tA + dA + 100 < M64) :
    ∃ S'', round dB dA (snd a ia da m tA k, rcv (atTime b tB) db m da.source j S' a0 mt [] k [] []) =
      ((atTime a (tA + dA)).upd (doneTp ia a m (tpPacketCount m.len)) a.slots a.out [] [],
       (atTime b (tB + dB)).upd b.tp S'' [delivered m da.source db.source] [] []) := by
  have hsa := h.srcA
  have hsb := h.dstB
  have h' := h.at (tA + dA) (tB + dB)
  have hmin : min (tpCtsPackets (tpPacketCount m.len)) (tpPacketCount m.len - k) = tpPacketCount m.len - k := by omega
  have htight := tpPacketCount_tight m.len (by have := h.len9; omega)
  have hcov := tpPacketCount_cover m.len
  have hpc := tpPacketCount_le m.len h.len223
  unfold round snd rcv
  simp only [wire_upd, List.nil_append, hmin, advance_upd]
  obtain ⟨S'', hw⟩ := poll_last (atTime b (tB + dB)) db m da.source j S' a0 k (tpCtsPackets (tpPacketCount m.len)) (tpPacketCount m.len - k) mt
    rfl h'.devB h'.qb (by omega) h.mdst h.none h.jlt h.len223 h.hdata h.bIdle h.bInfo hkc (by omega) (by omega) (by omega)
  unfold rcv at hw
  rw [show (atTime b (tB + dB)).tp = b.tp from rfl] at hw
  rw [show (atTime b tB).tp = b.tp from rfl]
  rw [hw]
  refine ⟨S'', ?_⟩
  simp only [wire_upd, List.nil_append, advance_upd]
  have e : k + (tpPacketCount m.len - k) = tpPacketCount m.len := by omega
  rw [e]
  have hc := poll_endack (atTime a (tA + dA)) da m db.source (tpPacketCount m.len) tA 100 m.len (tpPacketCount m.len) a.slots a.out
    h'.devA h'.qa h.aInfo h.mdst (by omega) h.pgn24 (by omega) ⟨by show tA ≤ tA + dA; omega, by show tA + dA < tA + 100; omega⟩
    (by show tA + dA + 100 < M64; exact h64)
  rw [txTp_atTime, doneTp_atTime] at hc
  rw [hc]

/-- from any window start the transfer completes within the remaining number of windows, whatever the delays below 100 ms -/
theorem rounds_complete (h : LinkHyp a b ia ib da db m j S' a0) : ∀ (fuel k tA tB mt : Nat) (ds : List (Nat × Nat)),
    k % tpCtsPackets (tpPacketCount m.len) = 0 → k < tpPacketCount m.len →
    tpPacketCount m.len - k ≤ fuel * tpCtsPackets (tpPacketCount m.len) → fuel ≤ ds.length → (∀ p ∈ ds, p.2 < 100) →
    tA + totalA ds + 100 < M64 →
    ∃ r S'' tA' tB', r ≤ fuel ∧ rounds (ds.take r) (snd a ia da m tA k, rcv (atTime b tB) db m da.source j S' a0 mt [] k [] []) =
      ((atTime a tA').upd (doneTp ia a m (tpPacketCount m.len)) a.slots a.out [] [],
       (atTime b tB').upd b.tp S'' [delivered m da.source db.source] [] [])
  | 0, k, _, _, _, _, _, hk, hf, _, _, _ => by omega
  | fuel+1, k, tA, tB, mt, [], _, _, _, hl, _, _ => by simp at hl
  | fuel+1, k, tA, tB, mt, p :: ds, hkc, hk, hf, hl, hd, h64 => by
    have hp : p.2 < 100 := hd p (by simp)
    have htot : totalA (p :: ds) = p.2 + totalA ds := by simp [totalA]
    by_cases hlast : tpPacketCount m.len ≤ k + tpCtsPackets (tpPacketCount m.len)
    · obtain ⟨S'', hr⟩ := round_last h k tA tB mt p.1 p.2 hkc hk hlast hp (by omega)
      exact ⟨1, S'', tA + p.2, tB + p.1, by omega, by simp only [List.take_succ_cons, List.take_zero, rounds]; exact hr⟩
    · have hmore : k + tpCtsPackets (tpPacketCount m.len) < tpPacketCount m.len := by omega
      have hcpos := tpCtsPackets_pos (tpPacketCount m.len)
      obtain ⟨r, S'', tA', tB', hr, hR⟩ := rounds_complete h fuel (k + tpCtsPackets (tpPacketCount m.len)) (tA + p.2) (tB + p.1)
        (millis32 (tB + p.1)) ds (add_mod_self_of_dvd k _ hkc) hmore (by
          have : (fuel + 1) * tpCtsPackets (tpPacketCount m.len) = fuel * tpCtsPackets (tpPacketCount m.len) + tpCtsPackets (tpPacketCount m.len) := by
            rw [Nat.add_mul, Nat.one_mul]
          omega) (by simpa using hl) (fun q hq => hd q (by simp [hq])) (by omega)
      refine ⟨r + 1, S'', tA', tB', by omega, ?_⟩
      simp only [List.take_succ_cons, rounds]
      rw [round_mid h k tA tB mt p.1 p.2 hkc hmore hp (by omega)]
      exact hR

end

end N2k.TP
