import N2k.Model.Handlers
/-!
# Specification side of C14

* `SpecSt`, `specStep`, `specRun`: the *history* specification — for every handler address whether a live handler is
  there, its PGN and the bus it was last attached to (no pointers, no lists).
* `Seg`, `BusInv`, `Inv`: what a well-formed handler list is in the pointer world.
-/
namespace N2k.Handlers

/-- per handler address: `none` = no live handler, `some (pgn, bus)` = live handler and where it is attached -/
structure SpecSt where
  h : Id → Option (Nat × Option BusId)
  cb : BusId → Bool

def SpecSt.init : SpecSt := ⟨fun _ => none, fun _ => false⟩

def SpecSt.set (s : SpecSt) (i : Id) (v : Option (Nat × Option BusId)) : SpecSt :=
  { s with h := fun j => if j = i then v else s.h j }

/-- the meaning of the operations, written from the property statement -/
def specStep (s : SpecSt) : Op → SpecSt
  | .new i p b => match s.h i with
    | none => s.set i (some (p, b))
    | some _ => s                                   -- not executed: a live handler is there
  | .attach i b => match s.h i with
    | some v => s.set i (some (v.1, some b))        -- wherever it was before, it is on `b` now
    | none => s
  | .detach i => match s.h i with
    | some v => s.set i (some (v.1, none))
    | none => s
  | .destroy i => s.set i none
  | .cb b on => { s with cb := fun c => if c = b then on else s.cb c }

def specRun : SpecSt → List Op → SpecSt
  | s, [] => s
  | s, op :: ops => specRun (specStep s op) ops

/-- the handlers the property says must be called for a message with PGN `pgn` received on `bus` -/
def SpecSt.matching (s : SpecSt) (bus : BusId) (pgn : Nat) (i : Id) : Prop :=
  ∃ p, s.h i = some (p, some bus) ∧ (p = 0 ∨ p = pgn)

/-- the PGN a live handler is registered for -/
def specPgn (s : SpecSt) (i : Id) : Nat :=
  match s.h i with
  | some v => v.1
  | none => 0

/-- two lists agree element by element (same length) -/
def Agree {α β : Type} (P : α → β → Prop) : List α → List β → Prop
  | [], [] => True
  | a :: as, b :: bs => P a b ∧ Agree P as bs
  | _, _ => False

/-- what the pointer world says about the handlers, forgetting `pNext` and the head pointers -/
def view (w : World) : SpecSt :=
  ⟨fun i => (w.obj i).map fun o => (o.pgn, o.owner), w.cb⟩

def pgnOf (w : World) (i : Id) : Nat :=
  match w.obj i with
  | some o => o.pgn
  | none => 0

def ownerOf (w : World) (i : Id) : Option BusId :=
  match w.obj i with
  | some o => o.owner
  | none => none

/-- `Seg w p l q`: following `pNext` from pointer `p` visits exactly the live objects `l` and ends at pointer `q` -/
def Seg (w : World) : Option Id → List Id → Option Id → Prop
  | p, [], q => p = q
  | p, i :: l, q => p = some i ∧ ∃ o, w.obj i = some o ∧ Seg w o.next l q

/-- the list of bus `b` is `l` -/
structure BusInv (w : World) (b : BusId) (l : List Id) : Prop where
  /-- following `pNext` from `MsgHandlers` visits `l` and ends at the null pointer (so: acyclic, all alive) -/
  chain : Seg w (w.head b) l none
  /-- no handler twice -/
  nodup : l.Nodup
  /-- exactly the live handlers whose `pNMEA2000` is this bus -/
  mem : ∀ i, i ∈ l ↔ ownerOf w i = some b
  /-- the order the code maintains: ascending PGN (so handlers for all PGNs, PGN 0, come first) -/
  sorted : l.Pairwise fun i j => pgnOf w i ≤ pgnOf w j

structure Inv (w : World) : Prop where
  bus : ∀ b, ∃ l, BusInv w b l
  /-- a handler that is not attached has `pNext = 0` -/
  free : ∀ i o, w.obj i = some o → o.owner = none → o.next = none
  bnd : ∀ i o, w.obj i = some o → i < w.bound

end N2k.Handlers
