import N2k.Basic.Time
import N2k.Gen.PgnTables
/-!
# Send path of `tNMEA2000` (`src/NMEA2000.cpp`)

Transcription map
* `N2ktoCanID` / `CanIdToN2k`              → `n2kToCanId` / `canIdToN2k`
* `SendFrames` / `SendFrame` / `GetNextFreeCANSendFrame` → `sendFrames` / `sendFrame` / `enqueue`
  (the driver's `CANSendFrame` is an oracle: a script of accept/refuse decisions, then a default)
* `IsFastPacketPGN` / `IsFastPacket`       → `isFastPacketPGN` / `isFastPacket` (tables from `Gen.PgnTables`)
* `GetFastPacketTxPGNCount` / `GetSequenceCounter` → `fpTxCount` / `getSequenceCounter`
* `IsAddressClaimStarted`                  → `isAddressClaimStarted`
* `SendMsg` (dm_None, node already open)   → `sendMsg`
* `SetN2kPGN60928` + `SendIsoAddressClaim` + `StartAddressClaim(iDev)` → `startAddressClaim`

`unsigned long` is 64 bit (LP64), so identifiers are not truncated; `unsigned char` casts are `% 256`.
Bytes of `tN2kMsg::Data` at index ≥ `DataLen` are whatever the caller left there (`junk` in the theorems).
-/
namespace N2k.Send
open N2k.Time

/-! ## CAN identifier -/

def n2kToCanId (prio pgn src dst : Nat) : Nat :=
  let pf := (pgn >>> 8) % 256
  if pf < 240 then
    if pgn &&& 0xff ≠ 0 then 0
    else ((prio &&& 7) <<< 26) ||| (pgn <<< 8) ||| (dst <<< 8) ||| src
  else ((prio &&& 7) <<< 26) ||| (pgn <<< 8) ||| src

/-- returns (prio, pgn, src, dst) -/
def canIdToN2k (id : Nat) : Nat × Nat × Nat × Nat :=
  let pf := (id >>> 16) % 256
  let ps := (id >>> 8) % 256
  let dp := ((id >>> 24) % 256) &&& 1
  let src := id % 256
  let prio := ((id >>> 26) &&& 7) % 256
  if pf < 240 then (prio, (dp <<< 16) ||| (pf <<< 8), src, ps)
  else (prio, (dp <<< 16) ||| (pf <<< 8) ||| ps, src, 0xff)

/-! ## frames, driver oracle, send queue -/

structure Frame where
  id : Nat
  len : Nat
  data : List Nat
  deriving DecidableEq, Repr

/-- the CAN driver: `script` is consumed one decision per `CANSendFrame` call, afterwards `dflt` -/
structure Drv where
  script : List Bool
  dflt : Bool
  sent : List Frame           -- frames the driver accepted, in order

def Drv.send (d : Drv) (f : Frame) : Drv × Bool :=
  match d.script with
  | [] => if d.dflt then ({ d with sent := d.sent ++ [f] }, true) else (d, false)
  | a :: t => if a then ({ d with script := t, sent := d.sent ++ [f] }, true)
              else ({ d with script := t }, false)

structure Ring where
  n : Nat                     -- MaxCANSendFrames
  buf : Nat → Frame
  read : Nat
  write : Nat

def Ring.cnt (r : Ring) : Nat := (r.write + r.n - r.read) % r.n

/-- SendFrames: flush while the driver accepts; fuel = number of queued frames -/
def sendFramesAux : Nat → Ring → Drv → Ring × Drv × Bool
  | 0, r, d => (r, d, true)
  | fuel+1, r, d =>
    if r.read = r.write then (r, d, true) else
    let temp := (r.read + 1) % r.n
    match d.send (r.buf temp) with
    | (d', true) => sendFramesAux fuel { r with read := temp } d'
    | (d', false) => (r, d', false)

def sendFrames (r : Ring) (d : Drv) : Ring × Drv × Bool := sendFramesAux r.cnt r d

/-- GetNextFreeCANSendFrame + fill -/
def enqueue (r : Ring) (f : Frame) : Option Ring :=
  if r.n = 0 then none else          -- MaxCANSendFrames = 0: no buffer is allocated
  let temp := (r.write + 1) % r.n
  if temp ≠ r.read then some { r with write := temp, buf := fun i => if i = temp then f else r.buf i }
  else none

/-- the copy made when a frame is buffered: `len = min(len,8)`, `len` bytes -/
def clampFrame (f : Frame) : Frame := { f with len := min f.len 8, data := f.data.take (min f.len 8) }

/-- the buffering branch of SendFrame -/
def queueOr (r : Ring) (d : Drv) (f : Frame) : Ring × Drv × Bool :=
  match enqueue r (clampFrame f) with
  | some r2 => (r2, d, true)
  | none => (r, d, false)

/-- SendFrame: `if ( !SendFrames() || !CANSendFrame(...) ) { buffer it }` -/
def sendFrame (r : Ring) (d : Drv) (f : Frame) : Ring × Drv × Bool :=
  let fl := sendFrames r d
  if fl.2.2 then
    let sd := fl.2.1.send f
    if sd.2 then (fl.1, sd.1, true) else queueOr fl.1 sd.1 f
  else queueOr fl.1 fl.2.1 f

/-! ## PGN classification -/

/-- application-declared lists: `[0]` = `SetFastPacketMessages`, `[1]` = `ExtendFastPacketMessages` -/
structure Lists where
  fp0 : Option (List Nat) := none
  fp1 : Option (List Nat) := none

/-- the C loop stops at the 0 terminator and then compares with PGN, so PGN 0 "is found" in any set list -/
def inList (l : Option (List Nat)) (pgn : Nat) : Bool :=
  match l with
  | none => false
  | some xs => xs.contains pgn || pgn == 0

def isFastPacketPGN (ls : Lists) (pgn : Nat) : Bool :=
  Gen.isFastPacketSystemMessage.contains pgn || Gen.isMandatoryFastPacketMessage.contains pgn ||
  (ls.fp0.isNone && Gen.isDefaultFastPacketMessage.contains pgn) ||
  Gen.isProprietaryFastPacketMessage pgn || inList ls.fp0 pgn || inList ls.fp1 pgn

/-! ## devices and messages -/

structure Msg where
  prio : Nat
  pgn : Nat
  src : Nat
  dst : Nat
  len : Nat                   -- DataLen
  data : List Nat             -- contents of Data[], possibly longer than `len` (stale bytes)
  tp : Bool := false
  deriving Repr

structure Dev where
  source : Nat
  name : Nat                        -- 64-bit NAME
  claimTimer : Sched
  endSource : Nat
  txList : List Nat := []           -- Devices[i].TransmitMessages
  seq : Option (List Nat) := none   -- PGNSequenceCounters (allocated at first use)

structure St where
  flavor : Flavor
  now : Nat
  listenOnly : Bool
  claimMode : Bool                  -- a claimant mode (NodeOnly / ListenAndNode): IsActiveNode()
  openState : Nat := 3              -- 0 os_None, 1 os_OpenCAN, 2 os_WaitOpen, 3 os_Open
  openSched : Sched := ⟨0⟩          -- OpenScheduler
  canOpenOk : Bool := true          -- what the driver's CANOpen() answers
  lists : Lists
  devs : List Dev
  ring : Ring
  drv : Drv

/-- `IsReadyToSend()` (dm_None): open and a claimant mode -/
def St.canClaim (s : St) : Bool := s.claimMode && s.openState == 3

def fpTxCount (ls : Lists) (d : Dev) : Nat :=
  (Gen.defTransmitMessages.filter (isFastPacketPGN ls)).length + (d.txList.filter (isFastPacketPGN ls)).length

/-- `IsTxPGN` -/
def isTxPGN (d : Dev) (pgn : Nat) : Bool := Gen.defTransmitMessages.contains pgn || d.txList.contains pgn

/-- one pass of the slot loop of `GetSequenceCounter` over the first `last` slots; an empty slot is
taken only by a declared fast-packet transmit PGN (`declared`), everything else uses the common counter -/
def seqScan (pgn : Nat) (declared : Bool) : List Nat → Option (List Nat × Nat)
  | [] => none
  | e :: t =>
    if e = 0 then (if declared then some (pgn :: t, 0) else none)
    else if e &&& 0x00ffffff = pgn then
      let sc := (e >>> 24) + 1
      let sc := if sc > 7 then 0 else sc
      some ((pgn ||| (sc <<< 24)) :: t, sc)
    else match seqScan pgn declared t with
      | some (t', sc) => some (e :: t', sc)
      | none => none

/-- GetSequenceCounter on an allocated array `slots` (`last` = its final element = shared counter) -/
def seqStep (pgn : Nat) (declared : Bool) (slots : List Nat) : List Nat × Nat :=
  match seqScan pgn declared slots.dropLast with
  | some (front, sc) => (front ++ [slots.getLastD 0], sc)
  | none =>
    let sc := slots.getLastD 0 + 1
    let sc := if sc > 7 then 0 else sc
    (slots.dropLast ++ [sc], sc)

def getSequenceCounter (ls : Lists) (d : Dev) (pgn : Nat) : Dev × Nat :=
  let slots := match d.seq with
    | some s => s
    | none => List.replicate (fpTxCount ls d + 1) 0
  let (s', sc) := seqStep pgn (isTxPGN d pgn && isFastPacketPGN ls pgn) slots
  ({ d with seq := some s' }, sc)

/-- IsAddressClaimStarted (with its side effect on the timer and the end-of-search address) -/
def isAddressClaimStarted (f : Flavor) (now : Nat) (d : Dev) : Dev × Bool :=
  if d.claimTimer.isEnabled f then
    if d.claimTimer.isTime f now then
      ({ d with claimTimer := Sched.disabled f,
                endSource := if d.source > 0 then d.source - 1 else Gen.maxCanBusAddress }, false)
    else (d, true)
  else (d, false)

/-! ## fast-packet framing -/

/-- byte `j` of the payload, 0xFF beyond the payload length -/
def payloadByte (m : Msg) (j : Nat) : Nat := if j < m.len then m.data.getD j 0 else 0xff

def fpFrameCount (len : Nat) : Nat := if len > 6 then (len - 6 - 1) / 7 + 1 + 1 else 1

def fpFrame (m : Msg) (order i : Nat) : List Nat :=
  if i = 0 then
    [(i ||| order) % 256, m.len % 256] ++ (List.range 6).map fun j => payloadByte m j
  else
    [(i ||| order) % 256] ++ (List.range 7).map fun j => payloadByte m (6 + 7 * (i - 1) + j)

/-- the frame loop `for (i=0; i<frames && result; i++)` -/
def sendFpLoop (id : Nat) (m : Msg) (order : Nat) : Nat → Nat → Ring → Drv → Ring × Drv × Bool
  | 0, _, r, d => (r, d, true)
  | k+1, i, r, d =>
    match sendFrame r d ⟨id, 8, fpFrame m order i⟩ with
    | (r', d', true) => sendFpLoop id m order k (i + 1) r' d'
    | (r', d', false) => (r', d', false)

/-- `ForceSource`: a valid device index stamps the device's address, index -1 keeps the message's own -/
def srcOf (dev : Option Nat) (d0 : Dev) (m : Msg) : Nat :=
  match dev with
  | some _ => d0.source
  | none => m.src

def updDev (devs : List Dev) (i : Nat) (d : Dev) : List Dev := devs.set i d

/-- outcome of the tests `SendMsg` makes before it produces frames -/
inductive Gate where
  | refuse (s : St)                            -- return false (state as left by the tests)
  | pass (s1 : St) (d1 : Dev) (canId : Nat)    -- go on with device entry `d1` and identifier `canId`

/-- the tests of `SendMsg(N2kMsg, DeviceIndex)` in `dm_None` with the node open, in source order.
`dev = none` is `DeviceIndex = -1`. -/
def gate (s : St) (m : Msg) (dev : Option Nat) : Gate :=
  let idx := dev.getD 0
  if idx ≥ s.devs.length then .refuse s else          -- DeviceIndex>=DeviceCount (and Devices[0] exists)
  match s.devs[idx]? with
  | none => .refuse s
  | some d0 =>
  let dst := if m.pgn &&& 0xff ≠ 0 then 0xff else m.dst              -- CheckDestination
  let src := srcOf dev d0 m                                            -- ForceSource
  if src > Gen.maxCanBusAddress ∧ m.pgn ≠ 60928 then .refuse s else
  let canId := n2kToCanId m.prio m.pgn src dst
  if canId = 0 then .refuse s else
  if s.listenOnly then .refuse s else
  if m.pgn = 0 then .refuse s else
  let ic := isAddressClaimStarted s.flavor s.now d0
  let s1 := { s with devs := updDev s.devs idx ic.1 }
  if ic.2 ∧ m.pgn ≠ 60928 then .refuse s1 else .pass s1 ic.1 canId

/-- frame production of `SendMsg`: single frame, (ISO-TP: `Model/TP.lean`), or fast packet -/
def produce (s1 : St) (idx : Nat) (d1 : Dev) (canId : Nat) (m : Msg) : St × Bool :=
  if m.len ≤ 8 ∧ ¬ (m.prio < 0x80 ∧ isFastPacketPGN s1.lists m.pgn) then
    let r := sendFrame s1.ring s1.drv ⟨canId, m.len, m.data.take m.len⟩
    ({ s1 with ring := r.1, drv := r.2.1 }, r.2.2)
  else if m.tp then (s1, false)     -- ISO-TP transfers are modelled in Model/TP.lean (not in this engine)
  else
    let g := getSequenceCounter s1.lists d1 m.pgn
    let s2 := { s1 with devs := updDev s1.devs idx g.1 }
    let r := sendFpLoop canId m (g.2 <<< 5) (fpFrameCount m.len) 0 s2.ring s2.drv
    ({ s2 with ring := r.1, drv := r.2.1 }, r.2.2)

/-- `SendMsg(N2kMsg, DeviceIndex)` in `dm_None` with the node open -/
def sendMsg (s : St) (m : Msg) (dev : Option Nat) : St × Bool :=
  match gate s m dev with
  | .refuse s' => (s', false)
  | .pass s1 d1 canId => produce s1 (dev.getD 0) d1 canId m

/-! ## address claim message -/

/-- little-endian bytes of a 64-bit value -/
def le64 (v : Nat) : List Nat := (List.range 8).map fun i => (v >>> (8 * i)) % 256

/-- `SendIsoAddressClaim(0xff, iDev)` immediately (FromNow = 0): PGN 60928, priority 6, NAME little-endian -/
def claimMsg (d : Dev) : Msg :=
  { prio := 6, pgn := 60928, src := d.source, dst := 0xff, len := 8, data := le64 d.name }

/-- `StartAddressClaim(iDev)` -/
def startAddressClaim (s : St) (idx : Nat) : St :=
  if ¬ s.canClaim then s else
  match s.devs[idx]? with
  | none => s
  | some d =>
    let d1 := { d with claimTimer := Sched.disabled s.flavor }
    let s1 := { s with devs := updDev s.devs idx d1 }
    let (s2, _) := sendMsg s1 (claimMsg d1) (some idx)
    match s2.devs[idx]? with
    | none => s2
    | some d2 => { s2 with devs := updDev s2.devs idx { d2 with claimTimer := Sched.fromNow s.flavor s.now 250 } }

/-- one `ParseMessages()` poll with nothing to receive and no information or heartbeat due:
`SendFrames()`, then `SendHeartbeat()` evaluates `IsAddressClaimStarted` for every device of an active node -/
def poll (s : St) : St :=
  let (r, dv, _) := sendFrames s.ring s.drv
  let devs := if s.claimMode then s.devs.map (fun d => (isAddressClaimStarted s.flavor s.now d).1) else s.devs
  { s with ring := r, drv := dv, devs := devs }

/-! ## opening the CAN interface -/

/-- `StartAddressClaim()` for all devices (devices start with a real address in this model: the
null-address restart through `GetNextAddress` belongs to the claim model, C03) -/
def startAddressClaimAll (s : St) : St :=
  (List.range s.devs.length).foldl startAddressClaim s

/-- `Open()` -/
def openStep (s : St) : St :=
  let s := if s.openState = 0 then { s with openState := 1 } else s
  if s.openState = 1 then
    if ¬ s.openSched.isTime s.flavor s.now then s
    else if s.canOpenOk then { s with openState := 2, openSched := Sched.fromNow s.flavor s.now 200 }
    else { s with openSched := Sched.fromNow s.flavor s.now 1000 }
  else if s.openState = 2 ∧ s.openSched.isTime s.flavor s.now then
    startAddressClaimAll { s with openState := 3 }
  else s

/-- `SendMsg` as the application calls it: tries to open first -/
def sendMsgTop (s : St) (m : Msg) (dev : Option Nat) : St × Bool :=
  if s.openState = 3 then sendMsg s m dev
  else
    let s' := openStep s
    if s'.openState = 3 then sendMsg s' m dev else (s', false)

/-- `ParseMessages` as the application calls it (nothing to receive, no information or heartbeat due) -/
def pollTop (s : St) : St :=
  if s.openState = 3 then poll s
  else
    let s' := openStep s
    if s'.openState = 3 then poll s' else s'

end N2k.Send
