import N2k.Model.TP
import N2k.Lemmas.HeartbeatShiftSend
/-!
# Clock-origin shift of the ISO-TP node model (C13 for `Model/TP.lean`)

`Node.shift k n` is the node of the same scenario run with the clock `k` ms ahead: the send-path state is shifted
(`St.shift`), every per-device timer (`NextDTSendTime`, pending product / configuration information) is shifted, and the
32-bit `MsgTime` stamp of every receive slot in use is moved by `k` modulo 2^32. Every function of `Model/TP.lean`
commutes with the shift.
-/
namespace N2k.TP
open N2k.Send N2k.Time

/-! ## the shifted node -/

/-- a free slot's stamp is the constant 0 written by `freeMessage`; it is never read -/
def Slot.shift (k : Nat) (a : Slot) : Slot :=
  if a.free then a else { a with msgTime := (a.msgTime + k) % M32 }

def TpDev.shift (f : Flavor) (k : Nat) (t : TpDev) : TpDev := { t with timer := t.timer.shift f k }

def InfoDev.shift (f : Flavor) (k : Nat) (x : InfoDev) : InfoDev :=
  { pendProd := x.pendProd.map (Sched.shift f k), pendConf := x.pendConf.map (Sched.shift f k) }

def Node.shift (k : Nat) (n : Node) : Node :=
  { n with s := n.s.shift k, tp := fun i => (n.tp i).shift n.s.flavor k, slots := n.slots.map (Slot.shift k),
           info := fun i => (n.info i).shift n.s.flavor k }

/-- no stored deadline collides with the "disabled" value when shifted -/
def Node.ShiftOk (k : Nat) (n : Node) : Prop :=
  n.s.ShiftOk k ∧ (∀ i, (n.tp i).timer.ShiftOk n.s.flavor k) ∧
  (∀ i t, (n.info i).pendProd = some t ∨ (n.info i).pendConf = some t → t.ShiftOk n.s.flavor k)

/-- Every `FromNow(add)` the node can execute at the present clock avoids the all-ones "disabled" value in the original
and in the shifted run (`ArmOk`; on the 64-bit build it reads `now + k + add < 2^64 - 1`, which also gives
`now + k < 2^64`): 50 ms (`NextDTSendTime` after an announce / between broadcast packets), 100 ms (after a CTS), 250 ms
(`StartAddressClaim`, only used by `moveTo`), and for every device index `i` the retry delays `187 + 8·address`
(product information) and `187 + 10·address` (configuration information), `address = srcAddr n i` (the device's
present source address, 0 for an index without device; sending never changes it: `sendMsg_src`), and `gap` = the
configured BAM pacing interval `n.bamGap` (`pendingTP` re-arms `NextDTSendTime` with it; no function modifies it). -/
structure TPClockOk (k : Nat) (n : Node) : Prop where
  a50 : ArmOk n.s.flavor k n.s.now 50
  a100 : ArmOk n.s.flavor k n.s.now 100
  a250 : ArmOk n.s.flavor k n.s.now 250
  prod : ∀ i, ArmOk n.s.flavor k n.s.now (187 + srcAddr n i * 8)
  conf : ∀ i, ArmOk n.s.flavor k n.s.now (187 + srcAddr n i * 10)
  gap : ArmOk n.s.flavor k n.s.now n.bamGap

theorem armOk_lt64 {f : Flavor} {k now add : Nat} (h : ArmOk f k now add) : f = .t64 → now + k < M64 := by
  intro hf; subst hf
  have : now + k + add < M64 - 1 := h
  omega

/-! ## the send path under the weaker clock hypothesis

`HeartbeatShiftSend.lean` proves these under `ClockOk` (delays 200, 250, 1000 ms), of which only `now + k < 2^64` on the
64-bit build (and 250 ms in `startAddressClaim`) is used; the transport protocol never arms 200 or 1000 ms, so the four
lemmas are restated with exactly what they need. -/

theorem acs_shift {f : Flavor} {k now : Nat} {d : Dev} (hc : f = .t64 → now + k < M64)
    (hd : d.claimTimer.ShiftOk f k) :
    isAddressClaimStarted f (now + k) (d.shift f k) =
      ((isAddressClaimStarted f now d).1.shift f k, (isAddressClaimStarted f now d).2) ∧
    (isAddressClaimStarted f now d).1.claimTimer.ShiftOk f k := by
  have e1 : (d.shift f k).claimTimer = d.claimTimer.shift f k := rfl
  rw [isAddressClaimStarted_eq, isAddressClaimStarted_eq, e1, Sched.isEnabled_shift hd,
    Sched.isTime_shift hd hc]
  cases d.claimTimer.isEnabled f <;> cases d.claimTimer.isTime f now
  · exact ⟨rfl, hd⟩
  · exact ⟨rfl, hd⟩
  · exact ⟨rfl, hd⟩
  · exact ⟨by simp only [acsOf, Dev.shift, Sched.shift_disabled, ↓reduceIte]; rfl, Sched.shiftOk_disabled f k⟩

theorem gate_shift' {k : Nat} {s : St} (m : Msg) (dev : Option Nat)
    (hc : s.flavor = .t64 → s.now + k < M64) (ho : s.ShiftOk k) :
    gate (s.shift k) m dev = (gate s m dev).shift k ∧ (gate s m dev).ShiftOk k ∧ (gate s m dev).Same s := by
  unfold gate
  have el : (s.shift k).devs.length = s.devs.length := by simp [St.shift]
  have eg : (s.shift k).devs[dev.getD 0]? = (s.devs[dev.getD 0]?).map (Dev.shift s.flavor k) := by
    simp [St.shift]
  simp only [el, eg]
  by_cases h0 : dev.getD 0 ≥ s.devs.length
  · simp only [if_pos h0]; exact ⟨rfl, ho, rfl, rfl, rfl⟩
  · simp only [if_neg h0]
    cases hg : s.devs[dev.getD 0]? with
    | none => exact ⟨rfl, ho, rfl, rfl, rfl⟩
    | some d0 =>
      have hd0 : d0.claimTimer.ShiftOk s.flavor k := ho.2 d0 (List.mem_of_getElem? hg)
      simp only [Option.map_some, srcOf_shift]
      by_cases h1 : srcOf dev d0 m > Gen.maxCanBusAddress ∧ m.pgn ≠ 60928
      · simp only [if_pos h1]; exact ⟨rfl, ho, rfl, rfl, rfl⟩
      · simp only [if_neg h1]
        by_cases h2 : n2kToCanId m.prio m.pgn (srcOf dev d0 m) (if m.pgn &&& 0xff ≠ 0 then 0xff else m.dst) = 0
        · simp only [if_pos h2]; exact ⟨rfl, ho, rfl, rfl, rfl⟩
        · simp only [if_neg h2]
          have e3 : (s.shift k).listenOnly = s.listenOnly := rfl
          rw [e3]
          by_cases h3 : s.listenOnly = true
          · simp only [if_pos h3]; exact ⟨rfl, ho, rfl, rfl, rfl⟩
          · simp only [if_neg h3]
            by_cases h4 : m.pgn = 0
            · simp only [if_pos h4]; exact ⟨rfl, ho, rfl, rfl, rfl⟩
            · simp only [if_neg h4]
              have e5 : (s.shift k).flavor = s.flavor := rfl
              have e6 : (s.shift k).now = s.now + k := rfl
              have e7 : (s.shift k).devs = s.devs.map (Dev.shift s.flavor k) := rfl
              obtain ⟨ea, eo⟩ := acs_shift (now := s.now) hc hd0
              rw [e5, e6, e7, ea]
              have hs1 : St.ShiftOk k { s with devs := updDev s.devs (dev.getD 0) (isAddressClaimStarted s.flavor s.now d0).1 } :=
                ⟨ho.1, shiftOk_updDev ho.2 eo⟩
              have hlen : (updDev s.devs (dev.getD 0) (isAddressClaimStarted s.flavor s.now d0).1).length = s.devs.length := by
                simp [updDev]
              simp only [map_updDev]
              by_cases h5 : (isAddressClaimStarted s.flavor s.now d0).2 = true ∧ m.pgn ≠ 60928
              · simp only [if_pos h5]; exact ⟨rfl, hs1, rfl, rfl, hlen⟩
              · simp only [if_neg h5]; exact ⟨rfl, ⟨hs1, eo⟩, rfl, rfl, hlen⟩

theorem sendMsg_shift' {k : Nat} {s : St} (m : Msg) (dev : Option Nat)
    (hc : s.flavor = .t64 → s.now + k < M64) (ho : s.ShiftOk k) :
    sendMsg (s.shift k) m dev = ((sendMsg s m dev).1.shift k, (sendMsg s m dev).2) ∧
    (sendMsg s m dev).1.ShiftOk k ∧
    (sendMsg s m dev).1.now = s.now ∧ (sendMsg s m dev).1.flavor = s.flavor ∧
    (sendMsg s m dev).1.devs.length = s.devs.length := by
  obtain ⟨eg, og, sg⟩ := gate_shift' m dev hc ho
  unfold sendMsg
  rw [eg]
  cases hgt : gate s m dev with
  | refuse s' =>
    rw [hgt] at og sg
    exact ⟨rfl, og, sg.1, sg.2.1, sg.2.2⟩
  | pass s1 d1 canId =>
    rw [hgt] at og sg
    obtain ⟨ep, op, sp⟩ := produce_shift (dev.getD 0) canId m og.1 og.2
    simp only [Gate.shift]
    rw [ep]
    exact ⟨rfl, op, sp.1.trans sg.1, sp.2.1.trans sg.2.1, sp.2.2.1.trans sg.2.2⟩

theorem startAddressClaim_shift' {k : Nat} {s : St} (idx : Nat)
    (h250 : ArmOk s.flavor k s.now 250) (ho : s.ShiftOk k) :
    startAddressClaim (s.shift k) idx = (startAddressClaim s idx).shift k ∧
    (startAddressClaim s idx).ShiftOk k ∧
    (startAddressClaim s idx).now = s.now ∧ (startAddressClaim s idx).flavor = s.flavor ∧
    (startAddressClaim s idx).devs.length = s.devs.length := by
  have hc : s.flavor = .t64 → s.now + k < M64 := armOk_lt64 h250
  rw [startAddressClaim_eq, startAddressClaim_eq, canClaim_shift]
  by_cases h0 : ¬ s.canClaim = true
  · simp only [if_pos h0]; exact ⟨by triv, ho, by triv, by triv, by triv⟩
  · simp only [if_neg h0]
    have eg : (s.shift k).devs[idx]? = (s.devs[idx]?).map (Dev.shift s.flavor k) := by simp [St.shift]
    rw [eg]
    cases hg : s.devs[idx]? with
    | none => exact ⟨by triv, ho, rfl, rfl, rfl⟩
    | some d =>
      simp only [Option.map_some]
      have e5 : (s.shift k).flavor = s.flavor := rfl
      have e6 : (s.shift k).now = s.now + k := rfl
      have ed : (d.shift s.flavor k).setTimer (Sched.disabled s.flavor) =
                (d.setTimer (Sched.disabled s.flavor)).shift s.flavor k := by
        rw [Dev.setTimer_shift, Sched.shift_disabled]
      have ec : claimMsg ((d.setTimer (Sched.disabled s.flavor)).shift s.flavor k) =
                claimMsg (d.setTimer (Sched.disabled s.flavor)) := rfl
      rw [e5, e6, ed, ec, ← St.withDev_shift]
      have hs1 : (s.withDev idx (d.setTimer (Sched.disabled s.flavor))).ShiftOk k :=
        St.withDev_ok ho (Sched.shiftOk_disabled _ _)
      obtain ⟨es, os, n1, f1, l1⟩ := sendMsg_shift' (claimMsg (d.setTimer (Sched.disabled s.flavor))) (some idx)
        (s := s.withDev idx (d.setTimer (Sched.disabled s.flavor))) hc hs1
      rw [es]
      generalize (sendMsg (s.withDev idx (d.setTimer (Sched.disabled s.flavor)))
          (claimMsg (d.setTimer (Sched.disabled s.flavor))) (some idx)).1 = s2 at *
      simp only
      rw [St.withDev_len] at l1
      have n1' : s2.now = s.now := n1
      have f1' : s2.flavor = s.flavor := f1
      have eg2 : (s2.shift k).devs[idx]? = (s2.devs[idx]?).map (Dev.shift s2.flavor k) := by simp [St.shift]
      rw [eg2]
      cases hg2 : s2.devs[idx]? with
      | none => exact ⟨by triv, os, n1', f1', l1⟩
      | some d2 =>
        simp only [Option.map_some]
        obtain ⟨ef, of⟩ := Sched.fromNow_shift h250
        rw [ef, f1', ← Dev.setTimer_shift, ← f1', ← St.withDev_shift]
        refine ⟨rfl, St.withDev_ok os (by rw [f1']; exact of), n1', rfl, ?_⟩
        rw [St.withDev_len]; exact l1

/-! ## slots -/

theorem Slot.shift_of_free {k : Nat} {a : Slot} (h : a.free = true) : a.shift k = a := by
  unfold Slot.shift; rw [if_pos h]

theorem Slot.shift_of_used {k : Nat} {a : Slot} (h : a.free = false) :
    a.shift k = { a with msgTime := (a.msgTime + k) % M32 } := by
  unfold Slot.shift; rw [if_neg (by rw [h]; exact Bool.false_ne_true)]

@[simp] theorem Slot.shift_free (k : Nat) (a : Slot) : (a.shift k).free = a.free := by unfold Slot.shift; split <;> rfl
@[simp] theorem Slot.shift_tp (k : Nat) (a : Slot) : (a.shift k).tp = a.tp := by unfold Slot.shift; split <;> rfl
@[simp] theorem Slot.shift_pgn (k : Nat) (a : Slot) : (a.shift k).pgn = a.pgn := by unfold Slot.shift; split <;> rfl
@[simp] theorem Slot.shift_src (k : Nat) (a : Slot) : (a.shift k).src = a.src := by unfold Slot.shift; split <;> rfl
@[simp] theorem Slot.shift_dst (k : Nat) (a : Slot) : (a.shift k).dst = a.dst := by unfold Slot.shift; split <;> rfl
@[simp] theorem Slot.shift_prio (k : Nat) (a : Slot) : (a.shift k).prio = a.prio := by unfold Slot.shift; split <;> rfl
@[simp] theorem Slot.shift_dataLen (k : Nat) (a : Slot) : (a.shift k).dataLen = a.dataLen := by
  unfold Slot.shift; split <;> rfl
@[simp] theorem Slot.shift_data (k : Nat) (a : Slot) : (a.shift k).data = a.data := by unfold Slot.shift; split <;> rfl
@[simp] theorem Slot.shift_lastFrame (k : Nat) (a : Slot) : (a.shift k).lastFrame = a.lastFrame := by
  unfold Slot.shift; split <;> rfl
@[simp] theorem Slot.shift_reqCTS (k : Nat) (a : Slot) : (a.shift k).reqCTS = a.reqCTS := by
  unfold Slot.shift; split <;> rfl
@[simp] theorem Slot.shift_maxPackets (k : Nat) (a : Slot) : (a.shift k).maxPackets = a.maxPackets := by
  unfold Slot.shift; split <;> rfl

theorem Slot.shift_msgTime {k : Nat} {a : Slot} (h : a.free = false) : (a.shift k).msgTime = (a.msgTime + k) % M32 := by
  rw [Slot.shift_of_used h]

@[simp] theorem slotHit_shift (pgn src dst : Nat) (tp : Bool) (k : Nat) (a : Slot) :
    slotHit pgn src dst tp (a.shift k) = slotHit pgn src dst tp a := by
  unfold slotHit; simp only [Slot.shift_free, Slot.shift_pgn, Slot.shift_src, Slot.shift_dst, Slot.shift_tp]

theorem slotHit_false_used {pgn src dst : Nat} {tp : Bool} {a : Slot} (h : slotHit pgn src dst tp a = false) :
    a.free = false := by
  unfold slotHit at h; cases hf : a.free
  · rfl
  · rw [hf] at h; simp at h

@[simp] theorem sessOf_shift (src dst k : Nat) (a : Slot) : sessOf src dst (a.shift k) = sessOf src dst a := by
  unfold sessOf; simp only [Slot.shift_free, Slot.shift_src, Slot.shift_dst, Slot.shift_tp]

theorem sessOf_used {src dst : Nat} {a : Slot} (h : sessOf src dst a = true) : a.free = false := by
  unfold sessOf at h; cases hf : a.free
  · rfl
  · rw [hf] at h; simp at h

@[simp] theorem deliveryOf_shift (k : Nat) (a : Slot) : deliveryOf (a.shift k) = deliveryOf a := by
  unfold deliveryOf
  simp only [Slot.shift_pgn, Slot.shift_src, Slot.shift_dst, Slot.shift_tp, Slot.shift_prio, Slot.shift_dataLen,
    Slot.shift_data]

@[simp] theorem freeMessage_shift (k : Nat) (a : Slot) : freeMessage (a.shift k) = freeMessage a := by
  unfold Slot.shift; split <;> rfl

@[simp] theorem shift_freeMessage (k : Nat) (a : Slot) : (freeMessage a).shift k = freeMessage a :=
  Slot.shift_of_free rfl

theorem freeSess_shift (src dst k : Nat) (a : Slot) : freeSess src dst (a.shift k) = (freeSess src dst a).shift k := by
  unfold freeSess; rw [sessOf_shift]
  by_cases h : sessOf src dst a = true
  · rw [if_pos h, if_pos h, freeMessage_shift, shift_freeMessage]
  · rw [if_neg h, if_neg h]

theorem findIdx_map {α : Type} (p : α → Bool) (g : α → α) (hp : ∀ a, p (g a) = p a) (l : List α) :
    findIdx p (l.map g) = findIdx p l := by
  induction l with
  | nil => rfl
  | cons a t ih => simp only [List.map_cons, findIdx, hp, ih]

theorem findIdx_some {α : Type} (p : α → Bool) : ∀ (l : List α) (j : Nat) (a : α),
    findIdx p l = some j → l[j]? = some a → p a = true := by
  intro l
  induction l with
  | nil => intro j a h; simp [findIdx] at h
  | cons b t ih =>
    intro j a h hj
    unfold findIdx at h
    by_cases hb : p b = true
    · rw [if_pos hb] at h
      simp only [Option.some.injEq] at h; subst h
      simp only [List.getElem?_cons_zero, Option.some.injEq] at hj; subst hj; exact hb
    · rw [if_neg hb] at h
      cases hf : findIdx p t with
      | none => rw [hf] at h; simp at h
      | some j' =>
        rw [hf] at h; simp only [Option.map_some, Option.some.injEq] at h; subst h
        simp only [List.getElem?_cons_succ] at hj
        exact ih j' a hf hj

/-- the search loop of `FindFreeCANMsgIndex`, generalised over the accumulator -/
theorem scanFree_shift (hit : Slot → Bool) (k : Nat) (hh : ∀ a, hit (a.shift k) = hit a)
    (hu : ∀ a, hit a = false → a.free = false) :
    ∀ (l : List Slot) (i : Nat) (oi : Option Nat) (ot : Nat),
      scanFree hit (l.map (Slot.shift k)) i oi ((ot + k) % M32) =
        ((scanFree hit l i oi ot).1, (scanFree hit l i oi ot).2.1, ((scanFree hit l i oi ot).2.2 + k) % M32) := by
  intro l
  induction l with
  | nil => intro i oi ot; rfl
  | cons a t ih =>
    intro i oi ot
    simp only [List.map_cons, scanFree, hh]
    cases hha : hit a
    · simp only [Bool.false_eq_true, ↓reduceIte]
      rw [Slot.shift_msgTime (hu a hha), isTimeBefore_shift_mod]
      cases isTimeBefore a.msgTime ot
      · simp only [Bool.false_eq_true, ↓reduceIte]; exact ih _ _ _
      · simp only [↓reduceIte]; exact ih _ _ _
    · simp only [↓reduceIte]

theorem modifyAt_free_shift (k : Nat) (l : List Slot) (j : Nat) :
    modifyAt (l.map (Slot.shift k)) j freeMessage = (modifyAt l j freeMessage).map (Slot.shift k) := by
  unfold modifyAt
  rw [List.getElem?_map]
  cases l[j]? with
  | none => rfl
  | some a => simp only [Option.map_some, List.map_set, freeMessage_shift, shift_freeMessage]

theorem millis32_shift (now k : Nat) : millis32 (now + k) = (millis32 now + k) % M32 := by
  unfold millis32 M32; omega

theorem findFree_shift (k : Nat) (slots : List Slot) (now32 pgn src dst : Nat) (tp : Bool) :
    findFree (slots.map (Slot.shift k)) ((now32 + k) % M32) pgn src dst tp =
      ((findFree slots now32 pgn src dst tp).1.map (Slot.shift k), (findFree slots now32 pgn src dst tp).2) := by
  unfold findFree
  dsimp only
  rw [scanFree_shift _ k (slotHit_shift pgn src dst tp k) (fun a h => slotHit_false_used h)]
  generalize scanFree (slotHit pgn src dst tp) slots 0 none now32 = r
  obtain ⟨r1, r2, r3⟩ := r
  dsimp only
  cases r1 with
  | some i => rfl
  | none =>
    dsimp only
    cases r2 with
    | none => rfl
    | some oi =>
      dsimp only
      rw [hasElapsed_shift_mod, modifyAt_free_shift]
      cases hasElapsed r3 100 now32 <;> rfl

/-! ## sending never changes a device's source address -/

theorem set_same {α : Type} : ∀ (l : List α) (i : Nat) (a : α), l[i]? = some a → l.set i a = l
  | [], _, _, h => by simp at h
  | b :: t, 0, a, h => by simp at h; subst h; rfl
  | b :: t, i+1, a, h => by
    simp only [List.getElem?_cons_succ] at h
    simp only [List.set_cons_succ, set_same t i a h]

theorem acs_source (f : Flavor) (now : Nat) (d : Dev) : (isAddressClaimStarted f now d).1.source = d.source := by
  rw [isAddressClaimStarted_eq]; unfold acsOf
  cases d.claimTimer.isEnabled f <;> cases d.claimTimer.isTime f now <;> rfl

theorem updDev_src {l : List Dev} {i : Nat} {d : Dev} (h : (l.map (·.source))[i]? = some d.source) :
    (updDev l i d).map (·.source) = l.map (·.source) := by
  unfold updDev; rw [List.map_set]; exact set_same _ _ _ h

def gateSrc (s : St) (idx : Nat) : Gate → Prop
  | .refuse s' => s'.devs.map (·.source) = s.devs.map (·.source)
  | .pass s' d1 _ => s'.devs.map (·.source) = s.devs.map (·.source) ∧ (s'.devs.map (·.source))[idx]? = some d1.source

theorem gate_src (s : St) (m : Msg) (dev : Option Nat) : gateSrc s (dev.getD 0) (gate s m dev) := by
  unfold gate
  by_cases h0 : dev.getD 0 ≥ s.devs.length
  · simp only [if_pos h0]; exact rfl
  · simp only [if_neg h0]
    cases hg : s.devs[dev.getD 0]? with
    | none => exact rfl
    | some d0 =>
      simp only
      have hu : (updDev s.devs (dev.getD 0) (isAddressClaimStarted s.flavor s.now d0).1).map (·.source) =
          s.devs.map (·.source) := by
        apply updDev_src; rw [List.getElem?_map, hg, acs_source]; rfl
      by_cases h1 : srcOf dev d0 m > Gen.maxCanBusAddress ∧ m.pgn ≠ 60928
      · simp only [if_pos h1]; exact rfl
      · simp only [if_neg h1]
        by_cases h2 : n2kToCanId m.prio m.pgn (srcOf dev d0 m) (if m.pgn &&& 0xff ≠ 0 then 0xff else m.dst) = 0
        · simp only [if_pos h2]; exact rfl
        · simp only [if_neg h2]
          by_cases h3 : s.listenOnly = true
          · simp only [if_pos h3]; exact rfl
          · simp only [if_neg h3]
            by_cases h4 : m.pgn = 0
            · simp only [if_pos h4]; exact rfl
            · simp only [if_neg h4]
              by_cases h5 : (isAddressClaimStarted s.flavor s.now d0).2 = true ∧ m.pgn ≠ 60928
              · simp only [if_pos h5]; exact hu
              · simp only [if_neg h5]
                refine ⟨hu, ?_⟩
                show ((updDev s.devs (dev.getD 0) (isAddressClaimStarted s.flavor s.now d0).1).map (·.source))[dev.getD 0]? = _
                rw [hu, List.getElem?_map, hg, acs_source]; rfl

theorem produce_src (s1 : St) (idx : Nat) (d1 : Dev) (canId : Nat) (m : Msg)
    (hd : (s1.devs.map (·.source))[idx]? = some d1.source) :
    (produce s1 idx d1 canId m).1.devs.map (·.source) = s1.devs.map (·.source) := by
  unfold produce
  by_cases h1 : m.len ≤ 8 ∧ ¬(m.prio < 0x80 ∧ isFastPacketPGN s1.lists m.pgn = true)
  · simp only [if_pos h1]
  · simp only [if_neg h1]
    by_cases h2 : m.tp = true
    · simp only [if_pos h2]
    · simp only [if_neg h2]
      exact updDev_src hd

theorem sendMsg_src (s : St) (m : Msg) (dev : Option Nat) :
    (sendMsg s m dev).1.devs.map (·.source) = s.devs.map (·.source) := by
  have hg := gate_src s m dev
  unfold sendMsg
  cases hgt : gate s m dev with
  | refuse s' => rw [hgt] at hg; exact hg
  | pass s1 d1 canId => rw [hgt] at hg; exact (produce_src s1 _ d1 canId m hg.2).trans hg.1

/-! ## frame facts and the shape of the commutation statements -/

/-- clock, flavour, the devices' source addresses and the configured BAM pacing interval are the same -/
def Keep (n n' : Node) : Prop :=
  n'.s.now = n.s.now ∧ n'.s.flavor = n.s.flavor ∧ n'.s.devs.map (·.source) = n.s.devs.map (·.source) ∧
  n'.bamGap = n.bamGap

theorem Keep.rfl' (n : Node) : Keep n n := ⟨rfl, rfl, rfl, rfl⟩

theorem Keep.trans {a b c : Node} (h1 : Keep a b) (h2 : Keep b c) : Keep a c :=
  ⟨h2.1.trans h1.1, h2.2.1.trans h1.2.1, h2.2.2.1.trans h1.2.2.1, h2.2.2.2.trans h1.2.2.2⟩

theorem srcAddr_map (n : Node) (i : Nat) : srcAddr n i = ((n.s.devs.map (·.source))[i]?).getD 0 := by
  unfold srcAddr; rw [List.getElem?_map]

theorem Keep.srcAddr {n n' : Node} (h : Keep n n') (i : Nat) : srcAddr n' i = srcAddr n i := by
  rw [srcAddr_map, srcAddr_map, h.2.2.1]

theorem TPClockOk.keep {k : Nat} {n n' : Node} (hc : TPClockOk k n) (h : Keep n n') : TPClockOk k n' :=
  ⟨by rw [h.1, h.2.1]; exact hc.a50, by rw [h.1, h.2.1]; exact hc.a100, by rw [h.1, h.2.1]; exact hc.a250,
   fun i => by rw [h.1, h.2.1, h.srcAddr]; exact hc.prod i, fun i => by rw [h.1, h.2.1, h.srcAddr]; exact hc.conf i,
   by rw [h.1, h.2.1, h.2.2.2]; exact hc.gap⟩

@[simp] theorem srcAddr_shift (k : Nat) (n : Node) (i : Nat) : srcAddr (n.shift k) i = srcAddr n i := by
  show (((n.s.devs.map (Dev.shift n.s.flavor k))[i]?).map (·.source)).getD 0 = _
  rw [List.getElem?_map, Option.map_map]; rfl

/-- the hypotheses of a step: clock hypothesis and no stored deadline on the sentinel -/
def Hyp (k : Nat) (n : Node) : Prop := TPClockOk k n ∧ n.ShiftOk k

/-- `n'` (reached from `n`) and `ns` (reached from the shifted `n`) correspond -/
def Com (k : Nat) (n n' ns : Node) : Prop := ns = n'.shift k ∧ n'.ShiftOk k ∧ Keep n n'

def ComP {β : Type} (k : Nat) (n : Node) (r rs : Node × β) : Prop :=
  rs = (r.1.shift k, r.2) ∧ r.1.ShiftOk k ∧ Keep n r.1

theorem Hyp.next {k : Nat} {n n' ns : Node} (h : Hyp k n) (c : Com k n n' ns) : Hyp k n' := ⟨h.1.keep c.2.2, c.2.1⟩

theorem Hyp.nextP {β : Type} {k : Nat} {n : Node} {r rs : Node × β} (h : Hyp k n) (c : ComP k n r rs) : Hyp k r.1 :=
  ⟨h.1.keep c.2.2, c.2.1⟩

theorem Hyp.clock64 {k : Nat} {n : Node} (h : Hyp k n) : n.s.flavor = .t64 → n.s.now + k < M64 := armOk_lt64 h.1.a50

theorem Com.rfl' {k : Nat} {n : Node} (h : n.ShiftOk k) : Com k n n (n.shift k) := ⟨rfl, h, Keep.rfl' n⟩

theorem Com.trans {k : Nat} {n n1 n2 ns1 ns2 : Node} (c1 : Com k n n1 ns1) (c2 : Com k n1 n2 ns2) : Com k n n2 ns2 :=
  ⟨c2.1, c2.2.1, c1.2.2.trans c2.2.2⟩

theorem ComP.trans {β : Type} {k : Nat} {n n1 ns1 : Node} {r rs : Node × β} (c1 : Com k n n1 ns1)
    (c2 : ComP k n1 r rs) : ComP k n r rs :=
  ⟨c2.1, c2.2.1, c1.2.2.trans c2.2.2⟩

theorem ComP.fst {β : Type} {k : Nat} {n : Node} {r rs : Node × β} (c : ComP k n r rs) : Com k n r.1 rs.1 :=
  ⟨by rw [c.1], c.2.1, c.2.2⟩

theorem ComP.snd {β : Type} {k : Nat} {n : Node} {r rs : Node × β} (c : ComP k n r rs) : rs.2 = r.2 := by rw [c.1]

theorem Com.pair {β : Type} {k : Nat} {n n' ns : Node} (c : Com k n n' ns) (b : β) : ComP k n (n', b) (ns, b) :=
  ⟨by rw [c.1], c.2.1, c.2.2⟩

/-! ## structural updates -/

theorem Node.ext' {a b : Node} (h1 : a.s = b.s) (h2 : a.tp = b.tp) (h3 : a.slots = b.slots)
    (h4 : a.onlyKnown = b.onlyKnown) (h5 : a.rxq = b.rxq) (h6 : a.out = b.out) (h7 : a.info = b.info)
    (h8 : a.prod = b.prod) (h9 : a.conf = b.conf) (h10 : a.bamGap = b.bamGap) : a = b := by
  cases a; cases b; simp_all

def Node.withS (n : Node) (s : St) : Node := { n with s := s }
def Node.withSlots (n : Node) (l : List Slot) : Node := { n with slots := l }

theorem withS_shift (k : Nat) (n : Node) (s' : St) (hf : s'.flavor = n.s.flavor) :
    (n.withS s').shift k = (n.shift k).withS (s'.shift k) := by
  unfold Node.shift Node.withS; simp only [hf]

theorem withS_ok {k : Nat} {n : Node} {s' : St} (h : n.ShiftOk k) (hs : s'.ShiftOk k) (hf : s'.flavor = n.s.flavor) :
    (n.withS s').ShiftOk k := by
  refine ⟨hs, ?_, ?_⟩
  · show ∀ i, (n.tp i).timer.ShiftOk s'.flavor k
    rw [hf]; exact h.2.1
  · show ∀ i t, (n.info i).pendProd = some t ∨ (n.info i).pendConf = some t → t.ShiftOk s'.flavor k
    rw [hf]; exact h.2.2

theorem withSlots_shift (k : Nat) (n : Node) (l : List Slot) :
    (n.withSlots l).shift k = (n.shift k).withSlots (l.map (Slot.shift k)) := rfl

theorem withSlots_com {k : Nat} {n : Node} (h : n.ShiftOk k) (l : List Slot) :
    Com k n (n.withSlots l) ((n.shift k).withSlots (l.map (Slot.shift k))) := ⟨rfl, h, Keep.rfl' n⟩

theorem setSlot_shift (k : Nat) (n : Node) (j : Nat) (a : Slot) :
    (n.setSlot j a).shift k = (n.shift k).setSlot j (a.shift k) := by
  show (n.withSlots (n.slots.set j a)).shift k = (n.shift k).withSlots ((n.slots.map (Slot.shift k)).set j (a.shift k))
  rw [withSlots_shift, List.map_set]

theorem setSlot_com {k : Nat} {n : Node} (h : n.ShiftOk k) (j : Nat) (a : Slot) :
    Com k n (n.setSlot j a) ((n.shift k).setSlot j (a.shift k)) := ⟨(setSlot_shift k n j a).symm, h, Keep.rfl' n⟩

theorem setTp_shift (k : Nat) (n : Node) (i : Nat) (t : TpDev) :
    (n.setTp i t).shift k = (n.shift k).setTp i (t.shift n.s.flavor k) := by
  apply Node.ext' <;> try rfl
  funext j
  show (if j = i then t else n.tp j).shift n.s.flavor k = if j = i then t.shift n.s.flavor k else (n.tp j).shift n.s.flavor k
  split <;> rfl

theorem setTp_com {k : Nat} {n : Node} (h : n.ShiftOk k) (i : Nat) {t : TpDev} (ht : t.timer.ShiftOk n.s.flavor k) :
    Com k n (n.setTp i t) ((n.shift k).setTp i (t.shift n.s.flavor k)) := by
  refine ⟨(setTp_shift k n i t).symm, ⟨h.1, ?_, h.2.2⟩, Keep.rfl' n⟩
  intro j
  show (if j = i then t else n.tp j).timer.ShiftOk n.s.flavor k
  split
  · exact ht
  · exact h.2.1 j

def InfoDev.ShiftOk (f : Flavor) (k : Nat) (x : InfoDev) : Prop :=
  ∀ t, x.pendProd = some t ∨ x.pendConf = some t → t.ShiftOk f k

theorem setInfo_shift (k : Nat) (n : Node) (i : Nat) (x : InfoDev) :
    (n.setInfo i x).shift k = (n.shift k).setInfo i (x.shift n.s.flavor k) := by
  apply Node.ext' <;> try rfl
  funext j
  show (if j = i then x else n.info j).shift n.s.flavor k = if j = i then x.shift n.s.flavor k else (n.info j).shift n.s.flavor k
  split <;> rfl

theorem setInfo_com {k : Nat} {n : Node} (h : n.ShiftOk k) (i : Nat) {x : InfoDev} (hx : x.ShiftOk n.s.flavor k) :
    Com k n (n.setInfo i x) ((n.shift k).setInfo i (x.shift n.s.flavor k)) := by
  refine ⟨(setInfo_shift k n i x).symm, ⟨h.1, h.2.1, ?_⟩, Keep.rfl' n⟩
  intro j
  show ∀ t, (if j = i then x else n.info j).pendProd = some t ∨ (if j = i then x else n.info j).pendConf = some t →
    t.ShiftOk n.s.flavor k
  split
  · exact hx
  · exact h.2.2 j

/-! ## the sending side -/

theorem emit_eq (n : Node) (m : Msg) (i : Nat) :
    emit n m i = (n.withS (sendMsg n.s m (some i)).1, (sendMsg n.s m (some i)).2) := rfl

theorem emit_shift {k : Nat} {n : Node} (h : Hyp k n) (m : Msg) (i : Nat) :
    ComP k n (emit n m i) (emit (n.shift k) m i) := by
  obtain ⟨e, o, e1, e2, _⟩ := sendMsg_shift' m (some i) h.clock64 h.2.1
  rw [emit_eq, emit_eq]
  have e0 : (n.shift k).s = n.s.shift k := rfl
  rw [e0, e]
  exact ⟨by rw [withS_shift k n _ e2], withS_ok h.2 o e2, e1, e2, sendMsg_src _ _ _, rfl⟩

def endTp (f : Flavor) (t : TpDev) (x : InfoDev) : TpDev :=
  { t with pend := { t.pend with pgn := 0, len := 0 }, timer := Sched.disabled f,
           hasPending := x.pendProd.isSome || x.pendConf.isSome }

theorem endSendTP_eq (n : Node) (i : Nat) : endSendTP n i = n.setTp i (endTp n.s.flavor (n.tp i) (n.info i)) := rfl

theorem endTp_shift (f : Flavor) (k : Nat) (t : TpDev) (x : InfoDev) :
    endTp f (t.shift f k) (x.shift f k) = (endTp f t x).shift f k := by
  unfold endTp TpDev.shift InfoDev.shift; simp [Sched.shift_disabled]

theorem endSendTP_shift {k : Nat} {n : Node} (h : n.ShiftOk k) (i : Nat) :
    Com k n (endSendTP n i) (endSendTP (n.shift k) i) := by
  rw [endSendTP_eq, endSendTP_eq]
  show Com k n _ ((n.shift k).setTp i (endTp n.s.flavor ((n.tp i).shift n.s.flavor k) ((n.info i).shift n.s.flavor k)))
  rw [endTp_shift]; exact setTp_com h i (Sched.shiftOk_disabled _ _)

theorem setTimer_shift {k : Nat} {n : Node} (h : n.ShiftOk k) (i : Nat) {ms : Nat} (ha : ArmOk n.s.flavor k n.s.now ms) :
    Com k n (setTimer n i ms) (setTimer (n.shift k) i ms) := by
  obtain ⟨ef, of⟩ := Sched.fromNow_shift ha
  show Com k n (n.setTp i { n.tp i with timer := Sched.fromNow n.s.flavor n.s.now ms })
    ((n.shift k).setTp i { (n.tp i).shift n.s.flavor k with timer := Sched.fromNow n.s.flavor (n.s.now + k) ms })
  rw [ef]; exact setTp_com h i of

theorem sendBAM_shift {k : Nat} {n : Node} (h : Hyp k n) (i : Nat) :
    ComP k n (sendBAM n i) (sendBAM (n.shift k) i) := by
  unfold sendBAM
  have e1 : (n.shift k).s.claimMode = n.s.claimMode := rfl
  have e2 : ((n.shift k).tp i).pend = (n.tp i).pend := rfl
  rw [e1, e2, srcAddr_shift]
  by_cases hm : ¬ n.s.claimMode = true
  · rw [if_pos hm, if_pos hm]; exact (Com.rfl' h.2).pair false
  · rw [if_neg hm, if_neg hm]; exact emit_shift h _ _

theorem sendRTS_shift {k : Nat} {n : Node} (h : Hyp k n) (i : Nat) :
    ComP k n (sendRTS n i) (sendRTS (n.shift k) i) := by
  unfold sendRTS
  have e1 : (n.shift k).s.claimMode = n.s.claimMode := rfl
  have e2 : ((n.shift k).tp i).pend = (n.tp i).pend := rfl
  rw [e1, e2, srcAddr_shift]
  by_cases hm : ¬ n.s.claimMode = true
  · rw [if_pos hm, if_pos hm]; exact (Com.rfl' h.2).pair false
  · rw [if_neg hm, if_neg hm]; exact emit_shift h _ _

theorem sendCTS_shift {k : Nat} {n : Node} (h : Hyp k n) (pgn dest i nPackets next : Nat) :
    Com k n (sendCTS n pgn dest i nPackets next) (sendCTS (n.shift k) pgn dest i nPackets next) := by
  unfold sendCTS
  have e1 : (n.shift k).s.claimMode = n.s.claimMode := rfl
  rw [e1, srcAddr_shift]
  by_cases hm : ¬ n.s.claimMode = true
  · rw [if_pos hm, if_pos hm]; exact Com.rfl' h.2
  · rw [if_neg hm, if_neg hm]; exact (emit_shift h _ _).fst

theorem sendEndAck_shift {k : Nat} {n : Node} (h : Hyp k n) (pgn dest i nBytes nPackets : Nat) :
    Com k n (sendEndAck n pgn dest i nBytes nPackets) (sendEndAck (n.shift k) pgn dest i nBytes nPackets) := by
  unfold sendEndAck
  have e1 : (n.shift k).s.claimMode = n.s.claimMode := rfl
  rw [e1, srcAddr_shift]
  by_cases hm : ¬ n.s.claimMode = true
  · rw [if_pos hm, if_pos hm]; exact Com.rfl' h.2
  · rw [if_neg hm, if_neg hm]; exact (emit_shift h _ _).fst

theorem sendAbort_shift {k : Nat} {n : Node} (h : Hyp k n) (pgn dest i code : Nat) :
    Com k n (sendAbort n pgn dest i code) (sendAbort (n.shift k) pgn dest i code) := by
  unfold sendAbort
  have e1 : (n.shift k).s.claimMode = n.s.claimMode := rfl
  rw [e1, srcAddr_shift]
  by_cases hm : ¬ n.s.claimMode = true
  · rw [if_pos hm, if_pos hm]; exact Com.rfl' h.2
  · rw [if_neg hm, if_neg hm]; exact (emit_shift h _ _).fst

theorem sendTPDT_shift {k : Nat} {n : Node} (h : Hyp k n) (i : Nat) :
    ComP k n (sendTPDT n i) (sendTPDT (n.shift k) i) := by
  have c1 := setTp_com h.2 i (t := { n.tp i with nextSeq := ((n.tp i).nextSeq + 1) % 256 }) (h.2.2.1 i)
  show ComP k n (emit (n.setTp i { n.tp i with nextSeq := ((n.tp i).nextSeq + 1) % 256 })
      (dtMsg (srcAddr n i) (n.tp i).pend (n.tp i).nextSeq) i)
    (emit ((n.shift k).setTp i (TpDev.shift n.s.flavor k { n.tp i with nextSeq := ((n.tp i).nextSeq + 1) % 256 }))
      (dtMsg (srcAddr (n.shift k) i) (n.tp i).pend (n.tp i).nextSeq) i)
  rw [srcAddr_shift, c1.1]
  exact ComP.trans c1 (emit_shift (h.next c1) _ _)

@[simp] theorem hasAllSent_shift (k : Nat) (n : Node) (i : Nat) : hasAllSent (n.shift k) i = hasAllSent n i := rfl

theorem devs_length_shift (k : Nat) (n : Node) : (n.shift k).s.devs.length = n.s.devs.length := by
  show (n.s.devs.map (Dev.shift n.s.flavor k)).length = _
  rw [List.length_map]

def startTp (m : Msg) (t : Sched) : TpDev := { pend := m, nextSeq := 0, timer := t, hasPending := true }

theorem startSendTP_shift {k : Nat} {n : Node} (h : Hyp k n) (m : Msg) (i : Nat) :
    ComP k n (startSendTP n m i) (startSendTP (n.shift k) m i) := by
  unfold startSendTP
  have e2 : ((n.shift k).tp i).pend = (n.tp i).pend := rfl
  rw [devs_length_shift, e2]
  by_cases h0 : i ≥ n.s.devs.length
  · rw [if_pos h0, if_pos h0]; exact (Com.rfl' h.2).pair false
  · rw [if_neg h0, if_neg h0]
    by_cases h1 : (n.tp i).pend.pgn ≠ 0
    · rw [if_pos h1, if_pos h1]; exact (Com.rfl' h.2).pair false
    · rw [if_neg h1, if_neg h1]
      dsimp only
      obtain ⟨ef, of⟩ := Sched.fromNow_shift h.1.a50
      have c1 := setTp_com h.2 i (t := startTp m (Sched.fromNow n.s.flavor n.s.now 50)) of
      have e3 : (n.shift k).setTp i (startTp m (Sched.fromNow (n.shift k).s.flavor (n.shift k).s.now 50)) =
          (n.setTp i (startTp m (Sched.fromNow n.s.flavor n.s.now 50))).shift k := by
        rw [← c1.1]
        show (n.shift k).setTp i (startTp m (Sched.fromNow n.s.flavor (n.s.now + k) 50)) = _
        rw [ef]; rfl
      show ComP k n
        (if (if m.dst = 0xff then sendBAM (n.setTp i (startTp m (Sched.fromNow n.s.flavor n.s.now 50))) i
              else sendRTS (n.setTp i (startTp m (Sched.fromNow n.s.flavor n.s.now 50))) i).2 = true
          then ((if m.dst = 0xff then sendBAM (n.setTp i (startTp m (Sched.fromNow n.s.flavor n.s.now 50))) i
              else sendRTS (n.setTp i (startTp m (Sched.fromNow n.s.flavor n.s.now 50))) i).1, true)
          else (endSendTP (if m.dst = 0xff then sendBAM (n.setTp i (startTp m (Sched.fromNow n.s.flavor n.s.now 50))) i
              else sendRTS (n.setTp i (startTp m (Sched.fromNow n.s.flavor n.s.now 50))) i).1 i, false))
        (if (if m.dst = 0xff then sendBAM ((n.shift k).setTp i (startTp m (Sched.fromNow (n.shift k).s.flavor (n.shift k).s.now 50))) i
              else sendRTS ((n.shift k).setTp i (startTp m (Sched.fromNow (n.shift k).s.flavor (n.shift k).s.now 50))) i).2 = true
          then ((if m.dst = 0xff then sendBAM ((n.shift k).setTp i (startTp m (Sched.fromNow (n.shift k).s.flavor (n.shift k).s.now 50))) i
              else sendRTS ((n.shift k).setTp i (startTp m (Sched.fromNow (n.shift k).s.flavor (n.shift k).s.now 50))) i).1, true)
          else (endSendTP (if m.dst = 0xff then sendBAM ((n.shift k).setTp i (startTp m (Sched.fromNow (n.shift k).s.flavor (n.shift k).s.now 50))) i
              else sendRTS ((n.shift k).setTp i (startTp m (Sched.fromNow (n.shift k).s.flavor (n.shift k).s.now 50))) i).1 i, false))
      rw [e3]
      generalize n.setTp i (startTp m (Sched.fromNow n.s.flavor n.s.now 50)) = n1 at c1 ⊢
      have h1' := h.next c1
      have cr : ComP k n (if m.dst = 0xff then sendBAM n1 i else sendRTS n1 i)
          (if m.dst = 0xff then sendBAM (n1.shift k) i else sendRTS (n1.shift k) i) := by
        by_cases hd : m.dst = 0xff
        · rw [if_pos hd, if_pos hd]; exact ComP.trans c1 (sendBAM_shift h1' i)
        · rw [if_neg hd, if_neg hd]; exact ComP.trans c1 (sendRTS_shift h1' i)
      rw [cr.1]
      generalize (if m.dst = 0xff then sendBAM n1 i else sendRTS n1 i) = r at cr ⊢
      dsimp only
      by_cases hr : r.2 = true
      · rw [if_pos hr, if_pos hr]; exact ⟨rfl, cr.2.1, cr.2.2⟩
      · rw [if_neg hr, if_neg hr]
        exact (Com.trans cr.fst (endSendTP_shift cr.2.1 i)).pair false

theorem pendingTP_shift {k : Nat} {n : Node} (h : Hyp k n) (i : Nat) :
    Com k n (pendingTP n i) (pendingTP (n.shift k) i) := by
  unfold pendingTP
  dsimp only
  have e1 : ((n.shift k).tp i).pend = (n.tp i).pend := rfl
  have e2 : ((n.shift k).tp i).timer.isTime (n.shift k).s.flavor (n.shift k).s.now =
      (n.tp i).timer.isTime n.s.flavor n.s.now := Sched.isTime_shift (h.2.2.1 i) h.clock64
  rw [e1, e2]
  by_cases h0 : (n.tp i).pend.pgn ≠ 0 ∧ (n.tp i).timer.isTime n.s.flavor n.s.now = true
  · rw [if_pos h0, if_pos h0]
    by_cases h1 : (n.tp i).pend.dst = 0xff
    · rw [if_pos h1, if_pos h1]
      have c1 := (sendTPDT_shift h i).fst
      have h1' := h.next c1
      rw [c1.1]
      have eb : (n.shift k).bamGap = n.bamGap := rfl
      have hg : ArmOk (sendTPDT n i).1.s.flavor k (sendTPDT n i).1.s.now n.bamGap := by
        rw [← c1.2.2.2.2.2]; exact h1'.1.gap
      have c2 := c1.trans (setTimer_shift h1'.2 i hg)
      rw [eb, c2.1, hasAllSent_shift]
      by_cases h2 : hasAllSent (setTimer (sendTPDT n i).1 i n.bamGap) i = true
      · rw [if_pos h2, if_pos h2]; exact c2.trans (endSendTP_shift c2.2.1 i)
      · rw [if_neg h2, if_neg h2]; exact ⟨rfl, c2.2.1, c2.2.2⟩
    · rw [if_neg h1, if_neg h1]; exact endSendTP_shift h.2 i
  · rw [if_neg h0, if_neg h0]; exact Com.rfl' h.2

theorem ctsLoop_shift {k : Nat} : ∀ (b : Nat) {n : Node} (_ : Hyp k n) (i : Nat),
    ComP k n (ctsLoop b n i) (ctsLoop b (n.shift k) i)
  | 0, n, h, i => (Com.rfl' h.2).pair true
  | b+1, n, h, i => by
    unfold ctsLoop
    rw [hasAllSent_shift]
    by_cases ha : hasAllSent n i = true
    · rw [if_pos ha, if_pos ha]; exact (Com.rfl' h.2).pair true
    · rw [if_neg ha, if_neg ha]
      dsimp only
      have c := sendTPDT_shift h i
      rw [c.1]
      dsimp only
      by_cases hr : (sendTPDT n i).2 = true
      · rw [if_pos hr, if_pos hr]; exact ComP.trans c.fst (ctsLoop_shift b (h.nextP c) i)
      · rw [if_neg hr, if_neg hr]; exact ⟨rfl, c.2.1, c.2.2⟩

theorem handleCTS_shift {k : Nat} {n : Node} (h : Hyp k n) (i src tpgn b1 b2 : Nat) :
    Com k n (handleCTS n i src tpgn b1 b2) (handleCTS (n.shift k) i src tpgn b1 b2) := by
  unfold handleCTS
  dsimp only
  have e1 : ((n.shift k).tp i).pend = (n.tp i).pend := rfl
  have e2 : ((n.shift k).tp i).nextSeq = (n.tp i).nextSeq := rfl
  rw [e1, e2]
  by_cases h0 : (n.tp i).pend.dst = 0xff
  · rw [if_pos h0, if_pos h0]; exact Com.rfl' h.2
  · rw [if_neg h0, if_neg h0]
    by_cases h1 : (n.tp i).pend.pgn ≠ tpgn ∨ (n.tp i).pend.dst ≠ src
    · rw [if_pos h1, if_pos h1]; exact Com.rfl' h.2
    · rw [if_neg h1, if_neg h1]
      by_cases h2 : b1 > 0
      · rw [if_pos h2, if_pos h2]
        by_cases h3 : b2 ≠ (n.tp i).nextSeq + 1
        · rw [if_pos h3, if_pos h3]; exact endSendTP_shift h.2 i
        · rw [if_neg h3, if_neg h3]
          have c := ctsLoop_shift b1 h i
          rw [c.1]
          dsimp only
          have c2 : Com k n (if (ctsLoop b1 n i).2 = true then (ctsLoop b1 n i).1 else endSendTP (ctsLoop b1 n i).1 i)
              (if (ctsLoop b1 n i).2 = true then (ctsLoop b1 n i).1.shift k
                else endSendTP ((ctsLoop b1 n i).1.shift k) i) := by
            by_cases hr : (ctsLoop b1 n i).2 = true
            · rw [if_pos hr, if_pos hr]; exact ⟨rfl, c.2.1, c.2.2⟩
            · rw [if_neg hr, if_neg hr]; exact Com.trans ⟨rfl, c.2.1, c.2.2⟩ (endSendTP_shift c.2.1 i)
          rw [c2.1]
          have h2' := h.next c2
          exact c2.trans (setTimer_shift h2'.2 i h2'.1.a100)
      · rw [if_neg h2, if_neg h2]; exact setTimer_shift h.2 i h.1.a100

theorem handleEnd_shift {k : Nat} {n : Node} (h : Hyp k n) (i src tpgn : Nat) :
    Com k n (handleEnd n i src tpgn) (handleEnd (n.shift k) i src tpgn) := by
  unfold handleEnd
  dsimp only
  have e1 : ((n.shift k).tp i).pend = (n.tp i).pend := rfl
  rw [e1]
  by_cases h0 : (n.tp i).pend.dst = 0xff
  · rw [if_pos h0, if_pos h0]; exact Com.rfl' h.2
  · rw [if_neg h0, if_neg h0]
    by_cases h1 : (n.tp i).pend.pgn ≠ tpgn ∨ (n.tp i).pend.dst ≠ src
    · rw [if_pos h1, if_pos h1]; exact Com.rfl' h.2
    · rw [if_neg h1, if_neg h1]; exact endSendTP_shift h.2 i

/-! ## the receiving side -/

theorem findDev_shift (k : Nat) (n : Node) (a : Nat) : findDev (n.shift k).s.devs a = findDev n.s.devs a := by
  show findDev (n.s.devs.map (Dev.shift n.s.flavor k)) a = _
  unfold findDev; rw [findIdx_map (fun d => d.source == a) (Dev.shift n.s.flavor k) (fun _ => rfl)]

theorem slots_get_shift (k : Nat) (n : Node) (j : Nat) : (n.shift k).slots[j]? = (n.slots[j]?).map (Slot.shift k) :=
  List.getElem?_map ..

theorem getD_slot_shift (k : Nat) (n : Node) (j : Nat) :
    ((n.shift k).slots[j]?).getD {} = ((n.slots[j]?).getD {}).shift k := by
  rw [slots_get_shift]; cases n.slots[j]? <;> rfl

def Slot.withReq (a : Slot) (c : Nat) : Slot := { a with reqCTS := c }
def Slot.withMaxP (a : Slot) (c : Nat) : Slot := { a with maxPackets := c }

theorem Slot.withReq_shift (k : Nat) (a : Slot) (c : Nat) : (a.shift k).withReq c = (a.withReq c).shift k := by
  cases hf : a.free
  · rw [Slot.shift_of_used hf, Slot.shift_of_used (a := a.withReq c) hf]; rfl
  · rw [Slot.shift_of_free hf, Slot.shift_of_free (a := a.withReq c) hf]

theorem Slot.withMaxP_shift (k : Nat) (a : Slot) (c : Nat) : (a.shift k).withMaxP c = (a.withMaxP c).shift k := by
  cases hf : a.free
  · rw [Slot.shift_of_used hf, Slot.shift_of_used (a := a.withMaxP c) hf]; rfl
  · rw [Slot.shift_of_free hf, Slot.shift_of_free (a := a.withMaxP c) hf]

theorem startSlot_shift (k : Nat) (old : Slot) (tpgn src dst now32 nBytes maxPk : Nat) :
    startSlot (old.shift k) tpgn src dst ((now32 + k) % M32) nBytes maxPk =
      (startSlot old tpgn src dst now32 nBytes maxPk).shift k := by
  rw [Slot.shift_of_used (a := startSlot old tpgn src dst now32 nBytes maxPk) rfl]
  unfold startSlot; simp only [Slot.shift_reqCTS]

def handleStartK (n1 : Node) (now32 : Nat) (j? : Option Nat) (src dst : Nat) (respond : Bool)
    (i tpgn nBytes maxPk : Nat) : Node :=
  match j? with
  | none => if respond then sendAbort n1 tpgn src i 1 else n1
  | some j =>
    if nBytes ≤ 223 ∧ ((checkKnown tpgn).1 ∨ ¬ n1.onlyKnown) then
      if respond then
        (sendCTS (n1.setSlot j (startSlot ((n1.slots[j]?).getD {}) tpgn src dst now32 nBytes maxPk))
            tpgn src i maxPk 1).setSlot j
          ((startSlot ((n1.slots[j]?).getD {}) tpgn src dst now32 nBytes maxPk).withReq (tpCtsPackets maxPk))
      else n1.setSlot j ((startSlot ((n1.slots[j]?).getD {}) tpgn src dst now32 nBytes maxPk).withMaxP 0xff)
    else if respond then sendAbort n1 tpgn src i 1 else n1

theorem handleStart_eq (n : Node) (src dst : Nat) (isRts : Bool) (iDev : Option Nat) (tpgn nBytes maxPk : Nat) :
    handleStart n src dst isRts iDev tpgn nBytes maxPk =
      handleStartK (n.withSlots (findFree (n.slots.map (freeSess src dst)) (millis32 n.s.now) tpgn src dst true).1)
        (millis32 n.s.now) (findFree (n.slots.map (freeSess src dst)) (millis32 n.s.now) tpgn src dst true).2
        src dst (isRts && iDev.isSome) (iDev.getD 0) tpgn nBytes maxPk := rfl

theorem handleStartK_shift {k : Nat} {n : Node} (h : Hyp k n) (now32 : Nat) (j? : Option Nat) (src dst : Nat)
    (respond : Bool) (i tpgn nBytes maxPk : Nat) :
    Com k n (handleStartK n now32 j? src dst respond i tpgn nBytes maxPk)
      (handleStartK (n.shift k) ((now32 + k) % M32) j? src dst respond i tpgn nBytes maxPk) := by
  have hab : Com k n (if respond = true then sendAbort n tpgn src i 1 else n)
      (if respond = true then sendAbort (n.shift k) tpgn src i 1 else n.shift k) := by
    by_cases hr : respond = true
    · rw [if_pos hr, if_pos hr]; exact sendAbort_shift h _ _ _ _
    · rw [if_neg hr, if_neg hr]; exact Com.rfl' h.2
  cases j? with
  | none => exact hab
  | some j =>
    unfold handleStartK
    dsimp only
    have e1 : (n.shift k).onlyKnown = n.onlyKnown := rfl
    rw [e1, getD_slot_shift, startSlot_shift]
    generalize startSlot ((n.slots[j]?).getD {}) tpgn src dst now32 nBytes maxPk = a
    by_cases h0 : nBytes ≤ 223 ∧ ((checkKnown tpgn).1 = true ∨ ¬ n.onlyKnown = true)
    · rw [if_pos h0, if_pos h0]
      by_cases hr : respond = true
      · rw [if_pos hr, if_pos hr]
        have c1 := setSlot_com h.2 j a
        rw [c1.1]
        have c2 := c1.trans (sendCTS_shift (h.next c1) tpgn src i maxPk 1)
        rw [c2.1, Slot.withReq_shift]
        exact c2.trans (setSlot_com c2.2.1 j _)
      · rw [if_neg hr, if_neg hr, Slot.withMaxP_shift]
        exact setSlot_com h.2 j _
    · rw [if_neg h0, if_neg h0]; exact hab

theorem handleStart_shift {k : Nat} {n : Node} (h : Hyp k n) (src dst : Nat) (isRts : Bool) (iDev : Option Nat)
    (tpgn nBytes maxPk : Nat) :
    Com k n (handleStart n src dst isRts iDev tpgn nBytes maxPk)
      (handleStart (n.shift k) src dst isRts iDev tpgn nBytes maxPk) := by
  rw [handleStart_eq, handleStart_eq]
  have e1 : (n.shift k).slots.map (freeSess src dst) = (n.slots.map (freeSess src dst)).map (Slot.shift k) := by
    show (n.slots.map (Slot.shift k)).map (freeSess src dst) = _
    rw [List.map_map, List.map_map]
    apply List.map_congr_left
    intro a _
    exact freeSess_shift src dst k a
  have e2 : millis32 (n.shift k).s.now = (millis32 n.s.now + k) % M32 := millis32_shift _ _
  rw [e1, e2, findFree_shift]
  dsimp only
  have c1 := withSlots_com h.2 (findFree (n.slots.map (freeSess src dst)) (millis32 n.s.now) tpgn src dst true).1
  rw [c1.1]
  exact c1.trans (handleStartK_shift (h.next c1) _ _ _ _ _ _ _ _ _)

theorem handleCM_shift {k : Nat} {n : Node} (h : Hyp k n) (src dst : Nat) (buf : List Nat) :
    Com k n (handleCM n src dst buf) (handleCM (n.shift k) src dst buf) := by
  unfold handleCM
  dsimp only
  rw [findDev_shift]
  by_cases h0 : buf.getD 0 0 = 32 ∨ buf.getD 0 0 = 16
  · rw [if_pos h0, if_pos h0]; exact handleStart_shift h _ _ _ _ _ _ _
  · rw [if_neg h0, if_neg h0]
    cases findDev n.s.devs dst with
    | none => exact Com.rfl' h.2
    | some i =>
      dsimp only
      by_cases h1 : buf.getD 0 0 = 17
      · rw [if_pos h1, if_pos h1]; exact handleCTS_shift h _ _ _ _ _
      · rw [if_neg h1, if_neg h1]
        by_cases h2 : buf.getD 0 0 = 19 ∨ buf.getD 0 0 = 255
        · rw [if_pos h2, if_pos h2]; exact handleEnd_shift h _ _ _
        · rw [if_neg h2, if_neg h2]; exact Com.rfl' h.2

def dataSlot (a : Slot) (len : Nat) (buf : List Nat) (now32 : Nat) : Slot :=
  { a with data := copyBuf a.data 1 len buf, lastFrame := buf.getD 0 0, msgTime := now32 }

def handleDataK (n : Node) (iDev : Option Nat) (src len : Nat) (buf : List Nat) (j : Nat) (a : Slot) : Node × Option Nat :=
  if a.lastFrame + 1 = buf.getD 0 0 then
    if (dataSlot a len buf (millis32 n.s.now)).data.length ≥ a.dataLen then
      (if a.reqCTS > 0 ∧ iDev.isSome then
          sendEndAck (n.setSlot j (dataSlot a len buf (millis32 n.s.now))) a.pgn src (iDev.getD 0) a.dataLen (buf.getD 0 0)
        else n.setSlot j (dataSlot a len buf (millis32 n.s.now)), some j)
    else
      (if a.reqCTS > 0 ∧ iDev.isSome ∧ buf.getD 0 0 % a.reqCTS = 0 then
          sendCTS (n.setSlot j (dataSlot a len buf (millis32 n.s.now))) a.pgn src (iDev.getD 0) a.maxPackets (buf.getD 0 0 + 1)
        else n.setSlot j (dataSlot a len buf (millis32 n.s.now)), none)
  else
    ((if a.reqCTS > 0 ∧ iDev.isSome then sendAbort n a.pgn src (iDev.getD 0) 3 else n).setSlot j (freeMessage a), none)

theorem handleData_eq (n : Node) (src dst len : Nat) (buf : List Nat) :
    handleData n src dst len buf =
      match findIdx (sessOf src dst) n.slots with
      | none => (n, none)
      | some j =>
        match n.slots[j]? with
        | none => (n, none)
        | some a => handleDataK n (findDev n.s.devs dst) src len buf j a := rfl

theorem dataSlot_shift (k : Nat) {a : Slot} (hu : a.free = false) (len : Nat) (buf : List Nat) (now : Nat) :
    dataSlot (a.shift k) len buf (millis32 (now + k)) = (dataSlot a len buf (millis32 now)).shift k := by
  rw [Slot.shift_of_used hu, Slot.shift_of_used (a := dataSlot a len buf (millis32 now)) hu, millis32_shift]; rfl

theorem handleDataK_shift {k : Nat} {n : Node} (h : Hyp k n) (iDev : Option Nat) (src len : Nat) (buf : List Nat)
    (j : Nat) {a : Slot} (hu : a.free = false) :
    ComP k n (handleDataK n iDev src len buf j a) (handleDataK (n.shift k) iDev src len buf j (a.shift k)) := by
  unfold handleDataK
  have e1 : (n.shift k).s.now = n.s.now + k := rfl
  rw [e1, dataSlot_shift k hu]
  simp only [Slot.shift_lastFrame, Slot.shift_dataLen, Slot.shift_data, Slot.shift_reqCTS, Slot.shift_pgn,
    Slot.shift_maxPackets, freeMessage_shift]
  generalize dataSlot a len buf (millis32 n.s.now) = a1
  have c1 := setSlot_com h.2 j a1
  by_cases h0 : a.lastFrame + 1 = buf.getD 0 0
  · rw [if_pos h0, if_pos h0]
    by_cases h1 : a1.data.length ≥ a.dataLen
    · rw [if_pos h1, if_pos h1, c1.1]
      by_cases h2 : a.reqCTS > 0 ∧ iDev.isSome = true
      · rw [if_pos h2, if_pos h2]
        exact (c1.trans (sendEndAck_shift (h.next c1) _ _ _ _ _)).pair _
      · rw [if_neg h2, if_neg h2]; exact Com.pair ⟨rfl, c1.2.1, c1.2.2⟩ _
    · rw [if_neg h1, if_neg h1, c1.1]
      by_cases h2 : a.reqCTS > 0 ∧ iDev.isSome = true ∧ buf.getD 0 0 % a.reqCTS = 0
      · rw [if_pos h2, if_pos h2]
        exact (c1.trans (sendCTS_shift (h.next c1) _ _ _ _ _)).pair _
      · rw [if_neg h2, if_neg h2]; exact Com.pair ⟨rfl, c1.2.1, c1.2.2⟩ _
  · rw [if_neg h0, if_neg h0]
    have c2 : Com k n (if a.reqCTS > 0 ∧ iDev.isSome = true then sendAbort n a.pgn src (iDev.getD 0) 3 else n)
        (if a.reqCTS > 0 ∧ iDev.isSome = true then sendAbort (n.shift k) a.pgn src (iDev.getD 0) 3 else n.shift k) := by
      by_cases h2 : a.reqCTS > 0 ∧ iDev.isSome = true
      · rw [if_pos h2, if_pos h2]; exact sendAbort_shift h _ _ _ _
      · rw [if_neg h2, if_neg h2]; exact Com.rfl' h.2
    rw [c2.1]
    have c3 := c2.trans (setSlot_com c2.2.1 j (freeMessage a))
    rw [shift_freeMessage] at c3
    exact c3.pair _

theorem handleData_shift {k : Nat} {n : Node} (h : Hyp k n) (src dst len : Nat) (buf : List Nat) :
    ComP k n (handleData n src dst len buf) (handleData (n.shift k) src dst len buf) := by
  rw [handleData_eq, handleData_eq]
  have e1 : findIdx (sessOf src dst) (n.shift k).slots = findIdx (sessOf src dst) n.slots :=
    findIdx_map _ _ (sessOf_shift src dst k) _
  rw [e1, findDev_shift]
  cases hf : findIdx (sessOf src dst) n.slots with
  | none => exact (Com.rfl' h.2).pair _
  | some j =>
    dsimp only
    rw [slots_get_shift]
    cases hj : n.slots[j]? with
    | none => exact (Com.rfl' h.2).pair _
    | some a =>
      dsimp only [Option.map_some]
      exact handleDataK_shift h _ _ _ _ _ (sessOf_used (findIdx_some _ _ _ _ hf hj))

def contSlot (a : Slot) (len : Nat) (buf : List Nat) : Slot :=
  { a with lastFrame := buf.getD 0 0, data := copyBuf a.data 1 len buf }

theorem contSlot_shift (k : Nat) (a : Slot) (len : Nat) (buf : List Nat) :
    contSlot (a.shift k) len buf = (contSlot a len buf).shift k := by
  cases hf : a.free
  · rw [Slot.shift_of_used hf, Slot.shift_of_used (a := contSlot a len buf) hf]; rfl
  · rw [Slot.shift_of_free hf, Slot.shift_of_free (a := contSlot a len buf) hf]

def baseSlot (fp : Bool) (prio pgn src dst len : Nat) (buf : List Nat) (now32 : Nat) : Slot :=
  { free := false, tp := false, pgn := pgn, src := src, dst := dst, prio := prio &&& 7, msgTime := now32,
    dataLen := if fp then buf.getD 1 0 else len,
    data := if fp then copyBuf [] 2 len buf else copyBuf [] 0 len buf,
    lastFrame := if fp then buf.getD 0 0 else 0, reqCTS := 0, maxPackets := 0 }

def newSlot (fp : Bool) (prio pgn src dst len : Nat) (buf : List Nat) (now32 : Nat) (old : Option Slot) : Slot :=
  match old with
  | some o => { baseSlot fp prio pgn src dst len buf now32 with reqCTS := o.reqCTS, maxPackets := o.maxPackets }
  | none => baseSlot fp prio pgn src dst len buf now32

theorem newSlot_shift (k : Nat) (fp : Bool) (prio pgn src dst len : Nat) (buf : List Nat) (now32 : Nat) (old : Option Slot) :
    newSlot fp prio pgn src dst len buf ((now32 + k) % M32) (old.map (Slot.shift k)) =
      (newSlot fp prio pgn src dst len buf now32 old).shift k := by
  cases old with
  | none => rw [Slot.shift_of_used (a := newSlot fp prio pgn src dst len buf now32 none) rfl]; rfl
  | some o =>
    rw [Slot.shift_of_used (a := newSlot fp prio pgn src dst len buf now32 (some o)) rfl]
    simp only [Option.map_some, newSlot, baseSlot, Slot.shift_reqCTS, Slot.shift_maxPackets]

def otherNew (n1 : Node) (j? : Option Nat) (fp : Bool) (prio pgn src dst len : Nat) (buf : List Nat) (now32 : Nat) :
    Node × Option Nat :=
  match j? with
  | none => (n1, none)
  | some j =>
    (n1.setSlot j (newSlot fp prio pgn src dst len buf now32 (n1.slots[j]?)),
     if (newSlot fp prio pgn src dst len buf now32 (n1.slots[j]?)).data.length ≥
         (newSlot fp prio pgn src dst len buf now32 (n1.slots[j]?)).dataLen then some j else none)

def otherCont (n : Node) (pgn src len : Nat) (buf : List Nat) : Node × Option Nat :=
  match findIdx (fun a => a.pgn == pgn && a.src == src && !a.tp) n.slots with
  | none => (n, none)
  | some j =>
    match n.slots[j]? with
    | none => (n, none)
    | some a =>
      if a.lastFrame + 1 = buf.getD 0 0 then
        (n.setSlot j (contSlot a len buf),
         if (contSlot a len buf).data.length ≥ (contSlot a len buf).dataLen then some j else none)
      else (n.setSlot j (freeMessage a), none)

/-- `firstSlot` of the model is `newSlot` (the same record written with a `match`) -/
theorem firstSlot_eq_newSlot (old : Option Slot) (fast : Bool) (prio pgn src dst now32 len : Nat) (buf : List Nat) :
    firstSlot old fast prio pgn src dst now32 len buf = newSlot fast prio pgn src dst len buf now32 old := by
  cases old <;> rfl

theorem handleOther_eq (n : Node) (prio pgn src dst len : Nat) (buf : List Nat) :
    handleOther n prio pgn src dst len buf =
      if ¬ ((checkKnown pgn).1 ∨ ¬ n.onlyKnown) then (n, none) else
      if (checkKnown pgn).2 ∧ buf.getD 0 0 &&& 0x1f ≠ 0 then otherCont n pgn src len buf
      else otherNew (n.withSlots (findFree n.slots (millis32 n.s.now) pgn src dst false).1)
        (findFree n.slots (millis32 n.s.now) pgn src dst false).2 (checkKnown pgn).2 prio pgn src dst len buf
        (millis32 n.s.now) := by
  unfold handleOther
  simp only [firstSlot_eq_newSlot]
  rfl

theorem otherCont_shift {k : Nat} {n : Node} (h : n.ShiftOk k) (pgn src len : Nat) (buf : List Nat) :
    ComP k n (otherCont n pgn src len buf) (otherCont (n.shift k) pgn src len buf) := by
  unfold otherCont
  have e1 : findIdx (fun a => a.pgn == pgn && a.src == src && !a.tp) (n.shift k).slots =
      findIdx (fun a => a.pgn == pgn && a.src == src && !a.tp) n.slots :=
    findIdx_map (fun a => a.pgn == pgn && a.src == src && !a.tp) (Slot.shift k)
      (fun a => by simp only [Slot.shift_pgn, Slot.shift_src, Slot.shift_tp]) _
  rw [e1]
  cases findIdx (fun a => a.pgn == pgn && a.src == src && !a.tp) n.slots with
  | none => exact (Com.rfl' h).pair _
  | some j =>
    dsimp only
    rw [slots_get_shift]
    cases n.slots[j]? with
    | none => exact (Com.rfl' h).pair _
    | some a =>
      dsimp only [Option.map_some]
      rw [contSlot_shift]
      simp only [Slot.shift_lastFrame, Slot.shift_data, Slot.shift_dataLen, freeMessage_shift]
      by_cases h0 : a.lastFrame + 1 = buf.getD 0 0
      · rw [if_pos h0, if_pos h0]; exact (setSlot_com h j _).pair _
      · rw [if_neg h0, if_neg h0]
        have c := setSlot_com h j (freeMessage a)
        rw [shift_freeMessage] at c
        exact c.pair _

theorem otherNew_shift {k : Nat} {n : Node} (h : n.ShiftOk k) (j? : Option Nat) (fp : Bool) (prio pgn src dst len : Nat)
    (buf : List Nat) (now32 : Nat) :
    ComP k n (otherNew n j? fp prio pgn src dst len buf now32)
      (otherNew (n.shift k) j? fp prio pgn src dst len buf ((now32 + k) % M32)) := by
  cases j? with
  | none => exact (Com.rfl' h).pair _
  | some j =>
    unfold otherNew
    dsimp only
    rw [slots_get_shift, newSlot_shift]
    simp only [Slot.shift_data, Slot.shift_dataLen]
    exact (setSlot_com h j _).pair _

theorem handleOther_shift {k : Nat} {n : Node} (h : n.ShiftOk k) (prio pgn src dst len : Nat) (buf : List Nat) :
    ComP k n (handleOther n prio pgn src dst len buf) (handleOther (n.shift k) prio pgn src dst len buf) := by
  rw [handleOther_eq, handleOther_eq]
  have e1 : (n.shift k).onlyKnown = n.onlyKnown := rfl
  rw [e1]
  by_cases h0 : ¬ ((checkKnown pgn).1 = true ∨ ¬ n.onlyKnown = true)
  · rw [if_pos h0, if_pos h0]; exact (Com.rfl' h).pair _
  · rw [if_neg h0, if_neg h0]
    by_cases h1 : (checkKnown pgn).2 = true ∧ buf.getD 0 0 &&& 0x1f ≠ 0
    · rw [if_pos h1, if_pos h1]; exact otherCont_shift h _ _ _ _
    · rw [if_neg h1, if_neg h1]
      have e2 : millis32 (n.shift k).s.now = (millis32 n.s.now + k) % M32 := millis32_shift _ _
      have e3 : (n.shift k).slots = n.slots.map (Slot.shift k) := rfl
      rw [e2, e3, findFree_shift]
      dsimp only
      have c1 := withSlots_com h (findFree n.slots (millis32 n.s.now) pgn src dst false).1
      rw [c1.1]
      exact ComP.trans c1 (otherNew_shift c1.2.1 _ _ _ _ _ _ _ _ _)

/-! ## pending product / configuration information, ISO requests -/

def upHas (f : Flavor) (t : TpDev) (x : InfoDev) : TpDev :=
  { t with hasPending := x.pendProd.isSome || x.pendConf.isSome || t.timer.isEnabled f }

theorem updateHasPending_eq (n : Node) (i : Nat) :
    updateHasPending n i = n.setTp i (upHas n.s.flavor (n.tp i) (n.info i)) := rfl

theorem upHas_shift {f : Flavor} {k : Nat} {t : TpDev} (ht : t.timer.ShiftOk f k) (x : InfoDev) :
    upHas f (t.shift f k) (x.shift f k) = (upHas f t x).shift f k := by
  unfold upHas TpDev.shift InfoDev.shift; simp [Sched.isEnabled_shift ht]

theorem updateHasPending_shift {k : Nat} {n : Node} (h : n.ShiftOk k) (i : Nat) :
    Com k n (updateHasPending n i) (updateHasPending (n.shift k) i) := by
  rw [updateHasPending_eq, updateHasPending_eq]
  show Com k n _ ((n.shift k).setTp i (upHas n.s.flavor ((n.tp i).shift n.s.flavor k) ((n.info i).shift n.s.flavor k)))
  rw [upHas_shift (h.2.1 i)]; exact setTp_com h i (h.2.1 i)

def InfoDev.setProd (x : InfoDev) (o : Option Sched) : InfoDev := { x with pendProd := o }
def InfoDev.setConf (x : InfoDev) (o : Option Sched) : InfoDev := { x with pendConf := o }
def TpDev.setHas (t : TpDev) (b : Bool) : TpDev := { t with hasPending := b }

def prodMsg (n : Node) (i : Nat) : Msg := { n.prod with src := srcAddr n i, dst := 0xff, tp := false }
def confMsg (n : Node) (i : Nat) (c : Msg) : Msg := { c with src := srcAddr n i, dst := 0xff, tp := false }

def prodFin (r : Node × Bool) (i : Nat) (t : Sched) : Node :=
  if r.2 then updateHasPending (r.1.setInfo i ((r.1.info i).setProd none)) i
  else (r.1.setInfo i ((r.1.info i).setProd (some t))).setTp i ((r.1.tp i).setHas true)

def confFin (r : Node × Bool) (i : Nat) (t : Sched) : Node :=
  if r.2 then updateHasPending (r.1.setInfo i ((r.1.info i).setConf none)) i
  else (r.1.setInfo i ((r.1.info i).setConf (some t))).setTp i ((r.1.tp i).setHas true)

theorem sendProductInformation_eq (n : Node) (i : Nat) :
    sendProductInformation n i =
      prodFin (emit n (prodMsg n i) i) i (Sched.fromNow n.s.flavor n.s.now (187 + srcAddr n i * 8)) := rfl

theorem sendConfigurationInformation_eq (n : Node) (i : Nat) (c : Msg) :
    sendConfigurationInformation n i c =
      confFin (emit n (confMsg n i c) i) i (Sched.fromNow n.s.flavor n.s.now (187 + srcAddr n i * 10)) := rfl

theorem prodFin_shift {k : Nat} {n1 : Node} (h : n1.ShiftOk k) (b : Bool) (i : Nat) {f : Flavor} (hf : n1.s.flavor = f)
    {t : Sched} (ht : t.ShiftOk f k) :
    Com k n1 (prodFin (n1, b) i t) (prodFin (n1.shift k, b) i (t.shift f k)) := by
  subst hf
  unfold prodFin; dsimp only
  have hx : ∀ o : Option Sched, (∀ t', o = some t' → t'.ShiftOk n1.s.flavor k) →
      ∀ t', ((n1.info i).setProd o).pendProd = some t' ∨ ((n1.info i).setProd o).pendConf = some t' →
        t'.ShiftOk n1.s.flavor k := by
    intro o ho t' ht'
    rcases ht' with ht' | ht'
    · exact ho t' ht'
    · exact h.2.2 i t' (Or.inr ht')
  by_cases hb : b = true
  · rw [if_pos hb, if_pos hb]
    have c1 := setInfo_com h i (x := (n1.info i).setProd none) (hx none (by intro t' ht'; cases ht'))
    have e : ((n1.shift k).info i).setProd none = ((n1.info i).setProd none).shift n1.s.flavor k := rfl
    rw [e, c1.1]
    exact c1.trans (updateHasPending_shift c1.2.1 i)
  · rw [if_neg hb, if_neg hb]
    have c1 := setInfo_com h i (x := (n1.info i).setProd (some t)) (hx (some t) (by intro t' ht'; cases ht'; exact ht))
    have e : ((n1.shift k).info i).setProd (some (t.shift n1.s.flavor k)) =
        ((n1.info i).setProd (some t)).shift n1.s.flavor k := rfl
    have e2 : ((n1.shift k).tp i).setHas true = ((n1.tp i).setHas true).shift n1.s.flavor k := rfl
    rw [e, e2, c1.1]
    exact c1.trans (setTp_com c1.2.1 i (h.2.1 i))

theorem confFin_shift {k : Nat} {n1 : Node} (h : n1.ShiftOk k) (b : Bool) (i : Nat) {f : Flavor} (hf : n1.s.flavor = f)
    {t : Sched} (ht : t.ShiftOk f k) :
    Com k n1 (confFin (n1, b) i t) (confFin (n1.shift k, b) i (t.shift f k)) := by
  subst hf
  unfold confFin; dsimp only
  have hx : ∀ o : Option Sched, (∀ t', o = some t' → t'.ShiftOk n1.s.flavor k) →
      ∀ t', ((n1.info i).setConf o).pendProd = some t' ∨ ((n1.info i).setConf o).pendConf = some t' →
        t'.ShiftOk n1.s.flavor k := by
    intro o ho t' ht'
    rcases ht' with ht' | ht'
    · exact h.2.2 i t' (Or.inl ht')
    · exact ho t' ht'
  by_cases hb : b = true
  · rw [if_pos hb, if_pos hb]
    have c1 := setInfo_com h i (x := (n1.info i).setConf none) (hx none (by intro t' ht'; cases ht'))
    have e : ((n1.shift k).info i).setConf none = ((n1.info i).setConf none).shift n1.s.flavor k := rfl
    rw [e, c1.1]
    exact c1.trans (updateHasPending_shift c1.2.1 i)
  · rw [if_neg hb, if_neg hb]
    have c1 := setInfo_com h i (x := (n1.info i).setConf (some t)) (hx (some t) (by intro t' ht'; cases ht'; exact ht))
    have e : ((n1.shift k).info i).setConf (some (t.shift n1.s.flavor k)) =
        ((n1.info i).setConf (some t)).shift n1.s.flavor k := rfl
    have e2 : ((n1.shift k).tp i).setHas true = ((n1.tp i).setHas true).shift n1.s.flavor k := rfl
    rw [e, e2, c1.1]
    exact c1.trans (setTp_com c1.2.1 i (h.2.1 i))

theorem sendProductInformation_shift {k : Nat} {n : Node} (h : Hyp k n) (i : Nat) :
    Com k n (sendProductInformation n i) (sendProductInformation (n.shift k) i) := by
  rw [sendProductInformation_eq, sendProductInformation_eq]
  have c := emit_shift h (prodMsg n i) i
  obtain ⟨ef, of⟩ := Sched.fromNow_shift (h.1.prod i)
  have e1 : prodMsg (n.shift k) i = prodMsg n i := by unfold prodMsg; rw [srcAddr_shift]; rfl
  have e2 : Sched.fromNow (n.shift k).s.flavor (n.shift k).s.now (187 + srcAddr (n.shift k) i * 8) =
      (Sched.fromNow n.s.flavor n.s.now (187 + srcAddr n i * 8)).shift n.s.flavor k := by
    rw [srcAddr_shift]; exact ef
  rw [e1, e2, c.1]
  exact c.fst.trans (prodFin_shift c.2.1 _ i c.2.2.2.1 of)

theorem sendConfigurationInformation_shift {k : Nat} {n : Node} (h : Hyp k n) (i : Nat) (m : Msg) :
    Com k n (sendConfigurationInformation n i m) (sendConfigurationInformation (n.shift k) i m) := by
  rw [sendConfigurationInformation_eq, sendConfigurationInformation_eq]
  have c := emit_shift h (confMsg n i m) i
  obtain ⟨ef, of⟩ := Sched.fromNow_shift (h.1.conf i)
  have e1 : confMsg (n.shift k) i m = confMsg n i m := by unfold confMsg; rw [srcAddr_shift]
  have e2 : Sched.fromNow (n.shift k).s.flavor (n.shift k).s.now (187 + srcAddr (n.shift k) i * 10) =
      (Sched.fromNow n.s.flavor n.s.now (187 + srcAddr n i * 10)).shift n.s.flavor k := by
    rw [srcAddr_shift]; exact ef
  rw [e1, e2, c.1]
  exact c.fst.trans (confFin_shift c.2.1 _ i c.2.2.2.1 of)

theorem due_shift {k : Nat} {n : Node} (h : Hyp k n) {o : Option Sched} (ho : ∀ t, o = some t → t.ShiftOk n.s.flavor k) :
    due (n.shift k) (o.map (Sched.shift n.s.flavor k)) = due n o := by
  cases o with
  | none => rfl
  | some t => exact Sched.isTime_shift (ho t rfl) h.clock64

def prodStep (n : Node) (i : Nat) : Node := if due n (n.info i).pendProd then sendProductInformation n i else n

def confStep (n : Node) (i : Nat) : Node :=
  match n.conf with
  | some c => if due n (n.info i).pendConf then sendConfigurationInformation n i c else n
  | none => n

theorem pendingDev_eq (n : Node) (i : Nat) : pendingDev n i = confStep (prodStep (pendingTP n i) i) i := rfl

theorem prodStep_shift {k : Nat} {n : Node} (h : Hyp k n) (i : Nat) : Com k n (prodStep n i) (prodStep (n.shift k) i) := by
  unfold prodStep
  have e : due (n.shift k) ((n.shift k).info i).pendProd = due n (n.info i).pendProd :=
    due_shift h (fun t ht => h.2.2.2 i t (Or.inl ht))
  rw [e]
  by_cases h0 : due n (n.info i).pendProd = true
  · rw [if_pos h0, if_pos h0]; exact sendProductInformation_shift h i
  · rw [if_neg h0, if_neg h0]; exact Com.rfl' h.2

theorem confStep_shift {k : Nat} {n : Node} (h : Hyp k n) (i : Nat) : Com k n (confStep n i) (confStep (n.shift k) i) := by
  unfold confStep
  have e : due (n.shift k) ((n.shift k).info i).pendConf = due n (n.info i).pendConf :=
    due_shift h (fun t ht => h.2.2.2 i t (Or.inr ht))
  have e0 : (n.shift k).conf = n.conf := rfl
  rw [e, e0]
  cases n.conf with
  | none => exact Com.rfl' h.2
  | some c =>
    dsimp only
    by_cases h0 : due n (n.info i).pendConf = true
    · rw [if_pos h0, if_pos h0]; exact sendConfigurationInformation_shift h i c
    · rw [if_neg h0, if_neg h0]; exact Com.rfl' h.2

theorem pendingDev_shift {k : Nat} {n : Node} (h : Hyp k n) (i : Nat) :
    Com k n (pendingDev n i) (pendingDev (n.shift k) i) := by
  rw [pendingDev_eq, pendingDev_eq]
  have c1 := pendingTP_shift h i
  rw [c1.1]
  have c2 := c1.trans (prodStep_shift (h.next c1) i)
  rw [c2.1]
  exact c2.trans (confStep_shift (h.next c2) i)

def nakMsg (src requester rp : Nat) : Msg :=
  { prio := 6, pgn := 59392, src := src, dst := requester, len := 8, data := [1, 0xff, 0xff, 0xff, 0xff] ++ le3 rp }

def respondK (n1 : Node) (started : Bool) (d1 : Dev) (addressed : Bool) (requester rp i : Nat) : Node :=
  if started then n1
  else if rp = 60928 then (emit n1 (claimMsg d1) i).1
  else if rp = 126464 then n1
  else if rp = 126996 then sendProductInformation n1 i
  else if rp = 126998 ∧ n1.conf.isSome then
    match n1.conf with
    | some c => sendConfigurationInformation n1 i c
    | none => n1
  else if addressed then (emit n1 (nakMsg (srcAddr n1 i) requester rp) i).1
  else n1

theorem respondIsoRequest_eq (n : Node) (addressed : Bool) (requester rp i : Nat) :
    respondIsoRequest n addressed requester rp i =
      match n.s.devs[i]? with
      | none => n
      | some d =>
        respondK (n.withS (n.s.withDev i (isAddressClaimStarted n.s.flavor n.s.now d).1))
          (isAddressClaimStarted n.s.flavor n.s.now d).2 (isAddressClaimStarted n.s.flavor n.s.now d).1
          addressed requester rp i := rfl

theorem respondK_shift {k : Nat} {n : Node} (h : Hyp k n) (started : Bool) (d1 : Dev) (addressed : Bool)
    (requester rp i : Nat) :
    Com k n (respondK n started d1 addressed requester rp i)
      (respondK (n.shift k) started (d1.shift n.s.flavor k) addressed requester rp i) := by
  unfold respondK
  have e1 : claimMsg (d1.shift n.s.flavor k) = claimMsg d1 := rfl
  have e2 : (n.shift k).conf = n.conf := rfl
  rw [e1, e2, srcAddr_shift]
  by_cases h0 : started = true
  · rw [if_pos h0, if_pos h0]; exact Com.rfl' h.2
  · rw [if_neg h0, if_neg h0]
    by_cases h1 : rp = 60928
    · rw [if_pos h1, if_pos h1]; exact (emit_shift h _ _).fst
    · rw [if_neg h1, if_neg h1]
      by_cases h2 : rp = 126464
      · rw [if_pos h2, if_pos h2]; exact Com.rfl' h.2
      · rw [if_neg h2, if_neg h2]
        by_cases h3 : rp = 126996
        · rw [if_pos h3, if_pos h3]; exact sendProductInformation_shift h i
        · rw [if_neg h3, if_neg h3]
          by_cases h4 : rp = 126998 ∧ n.conf.isSome = true
          · rw [if_pos h4, if_pos h4]
            cases n.conf with
            | none => exact Com.rfl' h.2
            | some c => exact sendConfigurationInformation_shift h i c
          · rw [if_neg h4, if_neg h4]
            by_cases h5 : addressed = true
            · rw [if_pos h5, if_pos h5]; exact (emit_shift h _ _).fst
            · rw [if_neg h5, if_neg h5]; exact Com.rfl' h.2

theorem devs_get_shift (k : Nat) (n : Node) (i : Nat) :
    (n.shift k).s.devs[i]? = (n.s.devs[i]?).map (Dev.shift n.s.flavor k) := by
  show (n.s.devs.map (Dev.shift n.s.flavor k))[i]? = _
  rw [List.getElem?_map]

theorem respondIsoRequest_shift {k : Nat} {n : Node} (h : Hyp k n) (addressed : Bool) (requester rp i : Nat) :
    Com k n (respondIsoRequest n addressed requester rp i) (respondIsoRequest (n.shift k) addressed requester rp i) := by
  rw [respondIsoRequest_eq, respondIsoRequest_eq, devs_get_shift]
  cases hg : n.s.devs[i]? with
  | none => exact Com.rfl' h.2
  | some d =>
    dsimp only [Option.map_some]
    have hd := h.2.1.2 d (List.mem_of_getElem? hg)
    obtain ⟨ea, eo⟩ := acs_shift (now := n.s.now) h.clock64 hd
    have e5 : (n.shift k).s.flavor = n.s.flavor := rfl
    have e6 : (n.shift k).s.now = n.s.now + k := rfl
    rw [e5, e6, ea]
    dsimp only
    have c1 : Com k n (n.withS (n.s.withDev i (isAddressClaimStarted n.s.flavor n.s.now d).1))
        ((n.shift k).withS ((n.shift k).s.withDev i ((isAddressClaimStarted n.s.flavor n.s.now d).1.shift n.s.flavor k))) := by
      refine ⟨?_, withS_ok h.2 (St.withDev_ok h.2.1 eo) rfl, rfl, rfl, ?_, rfl⟩
      · rw [withS_shift k n (n.s.withDev i (isAddressClaimStarted n.s.flavor n.s.now d).1) rfl, St.withDev_shift]; rfl
      · exact updDev_src (by rw [List.getElem?_map, hg, acs_source]; rfl)
    rw [c1.1]
    exact c1.trans (respondK_shift (h.next c1) _ _ _ _ _ _)

theorem foldl_com {α : Type} {k : Nat} (g : Node → α → Node)
    (hg : ∀ {n : Node}, Hyp k n → ∀ a, Com k n (g n a) (g (n.shift k) a)) :
    ∀ (l : List α) {n : Node}, Hyp k n → Com k n (l.foldl g n) (l.foldl g (n.shift k))
  | [], _, h => Com.rfl' h.2
  | a :: t, n, h => by
    simp only [List.foldl_cons]
    have c := hg h a
    rw [c.1]
    exact c.trans (foldl_com g hg t (h.next c))

theorem handleIsoRequest_shift {k : Nat} {n : Node} (h : Hyp k n) (d : Delivery) :
    Com k n (handleIsoRequest n d) (handleIsoRequest (n.shift k) d) := by
  unfold handleIsoRequest
  dsimp only
  rw [findDev_shift, devs_length_shift]
  by_cases h0 : d.dst ≠ 0xff ∧ (findDev n.s.devs d.dst).isNone = true
  · rw [if_pos h0, if_pos h0]; exact Com.rfl' h.2
  · rw [if_neg h0, if_neg h0]
    by_cases h1 : d.dst = 0xff
    · rw [if_pos h1, if_pos h1]
      exact foldl_com _ (fun h' i => respondIsoRequest_shift h' _ _ _ i) _ h
    · rw [if_neg h1, if_neg h1]; exact respondIsoRequest_shift h _ _ _ _

theorem systemMessage_shift {k : Nat} {n : Node} (h : Hyp k n) (a : Slot) :
    Com k n (systemMessage n a) (systemMessage (n.shift k) (a.shift k)) := by
  unfold systemMessage
  have e1 : (n.shift k).s.claimMode = n.s.claimMode := rfl
  rw [e1, Slot.shift_tp, Slot.shift_pgn, deliveryOf_shift]
  by_cases h0 : (!a.tp && a.pgn == 59904 && n.s.claimMode) = true
  · rw [if_pos h0, if_pos h0]; exact handleIsoRequest_shift h _
  · rw [if_neg h0, if_neg h0]; exact Com.rfl' h.2

def deliverFin (n1 : Node) (j : Nat) (a : Slot) : Node :=
  { n1 with out := n1.out ++ [deliveryOf a], slots := n1.slots.set j (freeMessage a) }

theorem deliver_eq (n : Node) (j : Nat) :
    deliver n j = match n.slots[j]? with
      | none => n
      | some a => deliverFin (systemMessage n a) j a := rfl

theorem deliverFin_com {k : Nat} {n : Node} (h : n.ShiftOk k) (j : Nat) (a : Slot) :
    Com k n (deliverFin n j a) (deliverFin (n.shift k) j (a.shift k)) := by
  refine ⟨?_, h, Keep.rfl' n⟩
  unfold deliverFin
  rw [deliveryOf_shift, freeMessage_shift]
  apply Node.ext' <;> try rfl
  show (n.slots.map (Slot.shift k)).set j (freeMessage a) = (n.slots.set j (freeMessage a)).map (Slot.shift k)
  rw [List.map_set, shift_freeMessage]

theorem deliver_shift {k : Nat} {n : Node} (h : Hyp k n) (j : Nat) : Com k n (deliver n j) (deliver (n.shift k) j) := by
  rw [deliver_eq, deliver_eq, slots_get_shift]
  cases n.slots[j]? with
  | none => exact Com.rfl' h.2
  | some a =>
    dsimp only [Option.map_some]
    have c := systemMessage_shift h a
    rw [c.1]
    exact c.trans (deliverFin_com c.2.1 j a)

theorem finish_shift {k : Nat} {n : Node} (h : Hyp k n) {r rs : Node × Option Nat} (c : ComP k n r rs) :
    Com k n (finish r) (finish rs) := by
  unfold finish
  rw [c.1]
  dsimp only
  cases r.2 with
  | none => exact ⟨rfl, c.2.1, c.2.2⟩
  | some j => exact Com.trans ⟨rfl, c.2.1, c.2.2⟩ (deliver_shift (h.nextP c) j)

theorem rxFrame_shift {k : Nat} {n : Node} (h : Hyp k n) (f : Frame) : Com k n (rxFrame n f) (rxFrame (n.shift k) f) := by
  unfold rxFrame
  apply finish_shift h
  by_cases h0 : (canIdToN2k f.id).2.1 = TP_CM
  · rw [if_pos h0, if_pos h0]; exact (handleCM_shift h _ _ _).pair _
  · rw [if_neg h0, if_neg h0]
    by_cases h1 : (canIdToN2k f.id).2.1 = TP_DT
    · rw [if_pos h1, if_pos h1]; exact handleData_shift h _ _ _ _
    · rw [if_neg h1, if_neg h1]; exact handleOther_shift h.2 _ _ _ _ _ _

theorem rxList_shift {k : Nat} {n : Node} (h : Hyp k n) (fs : List Frame) :
    Com k n (rxList fs n) (rxList fs (n.shift k)) :=
  foldl_com rxFrame (fun h' f => rxFrame_shift h' f) fs h

theorem pendingAll_shift {k : Nat} {n : Node} (h : Hyp k n) : Com k n (pendingAll n) (pendingAll (n.shift k)) := by
  unfold pendingAll
  rw [devs_length_shift]
  refine foldl_com _ (fun {n'} h' i => ?_) _ h
  have e : ((n'.shift k).tp i).hasPending = (n'.tp i).hasPending := rfl
  rw [e]
  by_cases h0 : (n'.tp i).hasPending = true
  · rw [if_pos h0, if_pos h0]; exact pendingDev_shift h' i
  · rw [if_neg h0, if_neg h0]; exact Com.rfl' h'.2

theorem flush_shift {k : Nat} {n : Node} (h : n.ShiftOk k) : Com k n (flush n) (flush (n.shift k)) :=
  ⟨rfl, h, Keep.rfl' n⟩

/-- the state part of `claimTick` -/
def tick (s : St) : St :=
  { s with devs := if s.claimMode then s.devs.map (fun d => (isAddressClaimStarted s.flavor s.now d).1) else s.devs }

theorem claimTick_eq (n : Node) : claimTick n = n.withS (tick n.s) := rfl

theorem tick_shift {k : Nat} {s : St} (hc : s.flavor = .t64 → s.now + k < M64) (ho : s.ShiftOk k) :
    tick (s.shift k) = (tick s).shift k ∧ (tick s).ShiftOk k ∧ (tick s).now = s.now ∧ (tick s).flavor = s.flavor ∧
    (tick s).devs.map (·.source) = s.devs.map (·.source) := by
  have hmap : (s.devs.map (Dev.shift s.flavor k)).map (fun d => (isAddressClaimStarted s.flavor (s.now + k) d).1) =
      (s.devs.map (fun d => (isAddressClaimStarted s.flavor s.now d).1)).map (Dev.shift s.flavor k) := by
    rw [List.map_map, List.map_map]
    apply List.map_congr_left
    intro d hd
    simp only [Function.comp]
    rw [(acs_shift hc (ho.2 d hd)).1]
  have hok : ∀ d ∈ s.devs.map (fun d => (isAddressClaimStarted s.flavor s.now d).1), d.claimTimer.ShiftOk s.flavor k := by
    intro d hd
    obtain ⟨d0, hd0, rfl⟩ := List.mem_map.mp hd
    exact (acs_shift hc (ho.2 d0 hd0)).2
  have hsrc : (s.devs.map (fun d => (isAddressClaimStarted s.flavor s.now d).1)).map (·.source) = s.devs.map (·.source) := by
    rw [List.map_map]
    apply List.map_congr_left
    intro d _
    exact acs_source _ _ _
  unfold tick
  have e3 : (s.shift k).claimMode = s.claimMode := rfl
  have e4 : (s.shift k).devs = s.devs.map (Dev.shift s.flavor k) := rfl
  have e5 : (s.shift k).flavor = s.flavor := rfl
  have e6 : (s.shift k).now = s.now + k := rfl
  simp only [e3, e4, e5, e6]
  by_cases hm : s.claimMode = true
  · simp only [if_pos hm, hmap]
    exact ⟨by triv, ⟨ho.1, hok⟩, by triv, by triv, hsrc⟩
  · simp only [if_neg hm]
    exact ⟨by triv, ho, by triv, by triv, by triv⟩

theorem claimTick_shift {k : Nat} {n : Node} (h : Hyp k n) : Com k n (claimTick n) (claimTick (n.shift k)) := by
  rw [claimTick_eq, claimTick_eq]
  obtain ⟨e, o, e1, e2, e3⟩ := tick_shift h.clock64 h.2.1
  have e0 : (n.shift k).s = n.s.shift k := rfl
  rw [e0, e]
  exact ⟨(withS_shift k n _ e2).symm, withS_ok h.2 o e2, e1, e2, e3, rfl⟩

def Node.withRxq (n : Node) (q : List Frame) : Node := { n with rxq := q }

theorem poll_eq (n : Node) :
    poll n = claimTick ((rxList (n.rxq.take 20) (pendingAll (flush n))).withRxq (n.rxq.drop 20)) := rfl

theorem withRxq_com {k : Nat} {n : Node} (h : n.ShiftOk k) (q : List Frame) :
    Com k n (n.withRxq q) ((n.shift k).withRxq q) := ⟨rfl, h, Keep.rfl' n⟩

/-- `ParseMessages()` commutes with the shift; source addresses are kept as well -/
theorem poll_com {k : Nat} {n : Node} (h : Hyp k n) : Com k n (poll n) (poll (n.shift k)) := by
  rw [poll_eq, poll_eq]
  have e : (n.shift k).rxq = n.rxq := rfl
  rw [e]
  have c1 := flush_shift h.2
  rw [c1.1]
  have c2 := c1.trans (pendingAll_shift (h.next c1))
  rw [c2.1]
  have c3 := c2.trans (rxList_shift (h.next c2) (n.rxq.take 20))
  rw [c3.1]
  have c4 := c3.trans (withRxq_com c3.2.1 (n.rxq.drop 20))
  rw [c4.1]
  exact c4.trans (claimTick_shift (h.next c4))

/-- `SendMsg` with the ISO-TP branch commutes with the shift -/
theorem sendMsgTP_com {k : Nat} {n : Node} (h : Hyp k n) (m : Msg) (dev : Option Nat) :
    ComP k n (sendMsgTP n m dev) (sendMsgTP (n.shift k) m dev) := by
  obtain ⟨eg, og, sg⟩ := gate_shift' m dev h.clock64 h.2.1
  have hs := gate_src n.s m dev
  unfold sendMsgTP
  have e0 : (n.shift k).s = n.s.shift k := rfl
  rw [e0, eg]
  cases hgt : gate n.s m dev with
  | refuse s' =>
    rw [hgt] at og sg hs
    exact ⟨by rw [show (({ n with s := s' } : Node), false).1 = n.withS s' from rfl, withS_shift k n s' sg.2.1]; rfl,
      withS_ok h.2 og sg.2.1, sg.1, sg.2.1, hs, rfl⟩
  | pass s1 d1 canId =>
    rw [hgt] at og sg hs
    simp only [Gate.shift]
    have c1 : Com k n (n.withS s1) ((n.shift k).withS (s1.shift k)) :=
      ⟨(withS_shift k n s1 sg.2.1).symm, withS_ok h.2 og.1 sg.2.1, sg.1, sg.2.1, hs.1, rfl⟩
    have e1 : (s1.shift k).lists = s1.lists := rfl
    rw [e1, srcOf_shift]
    by_cases hb : m.tp = true ∧ ¬(m.len ≤ 8 ∧ ¬(m.prio < 0x80 ∧ isFastPacketPGN s1.lists m.pgn = true))
    · rw [if_pos hb, if_pos hb]
      show ComP k n (startSendTP (n.withS s1) _ _) (startSendTP ((n.shift k).withS (s1.shift k)) _ _)
      rw [c1.1]; exact ComP.trans c1 (startSendTP_shift (h.next c1) _ _)
    · rw [if_neg hb, if_neg hb]
      obtain ⟨ep, op, sp⟩ := produce_shift (dev.getD 0) canId m og.1 og.2
      rw [ep]
      have hf : (produce s1 (dev.getD 0) d1 canId m).1.flavor = n.s.flavor := sp.2.1.trans sg.2.1
      exact ⟨by rw [show (({ n with s := (produce s1 (dev.getD 0) d1 canId m).1 } : Node),
            (produce s1 (dev.getD 0) d1 canId m).2).1 = n.withS (produce s1 (dev.getD 0) d1 canId m).1 from rfl,
          withS_shift k n _ hf]; rfl,
        withS_ok h.2 op hf, sp.1.trans sg.1, hf, (produce_src s1 _ d1 canId m hs.2).trans hs.1, rfl⟩

def moved (dv : Dev) (a : Nat) : Dev :=
  { dv with source := a, endSource := if a > 0 then a - 1 else Gen.maxCanBusAddress }

theorem moveTo_eq (n : Node) (d a : Nat) :
    moveTo n d a = match n.s.devs[d]? with
      | none => n
      | some dv => n.withS (startAddressClaim (n.s.withDev d (moved dv a)) d) := rfl

/-! ## main results -/

/-- 1. `ParseMessages()` -/
theorem poll_shift {k : Nat} {n : Node} (hc : TPClockOk k n) (ho : n.ShiftOk k) :
    poll (n.shift k) = (poll n).shift k ∧ (poll n).ShiftOk k ∧ (poll n).s.now = n.s.now ∧
    (poll n).s.flavor = n.s.flavor := by
  have c := poll_com ⟨hc, ho⟩
  exact ⟨c.1, c.2.1, c.2.2.1, c.2.2.2.1⟩

/-- 2. `SendMsg` including the ISO-TP branch -/
theorem sendMsgTP_shift {k : Nat} {n : Node} (m : Msg) (dev : Option Nat) (hc : TPClockOk k n) (ho : n.ShiftOk k) :
    sendMsgTP (n.shift k) m dev = ((sendMsgTP n m dev).1.shift k, (sendMsgTP n m dev).2) ∧
    (sendMsgTP n m dev).1.ShiftOk k ∧ (sendMsgTP n m dev).1.s.now = n.s.now ∧
    (sendMsgTP n m dev).1.s.flavor = n.s.flavor := by
  have c := sendMsgTP_com ⟨hc, ho⟩ m dev
  exact ⟨c.1, c.2.1, c.2.2.1, c.2.2.2.1⟩

/-- 3. the commanded-address move (only the 250 ms delay of `StartAddressClaim` is armed: `TPClockOk.a250`) -/
theorem moveTo_shift {k : Nat} {n : Node} (d a : Nat) (hc : ArmOk n.s.flavor k n.s.now 250) (ho : n.ShiftOk k) :
    moveTo (n.shift k) d a = (moveTo n d a).shift k ∧ (moveTo n d a).ShiftOk k ∧ (moveTo n d a).s.now = n.s.now ∧
    (moveTo n d a).s.flavor = n.s.flavor := by
  rw [moveTo_eq, moveTo_eq, devs_get_shift]
  cases hg : n.s.devs[d]? with
  | none => exact ⟨rfl, ho, rfl, rfl⟩
  | some dv =>
    dsimp only [Option.map_some]
    have hd : (moved dv a).claimTimer.ShiftOk n.s.flavor k := ho.1.2 dv (List.mem_of_getElem? hg)
    have e1 : moved (dv.shift n.s.flavor k) a = (moved dv a).shift n.s.flavor k := rfl
    have e0 : (n.shift k).s = n.s.shift k := rfl
    rw [e0, e1, ← St.withDev_shift]
    obtain ⟨es, os, n1, f1, _⟩ := startAddressClaim_shift' (s := n.s.withDev d (moved dv a)) d hc (St.withDev_ok ho.1 hd)
    rw [es]
    have f1' : (startAddressClaim (n.s.withDev d (moved dv a)) d).flavor = n.s.flavor := f1
    exact ⟨(withS_shift k n _ f1').symm, withS_ok ho os f1', n1, f1'⟩

/-- 4. handler calls and the driver are not touched by the shift -/
theorem shift_out (k : Nat) (n : Node) : (n.shift k).out = n.out := rfl
theorem shift_drv (k : Nat) (n : Node) : (n.shift k).s.drv = n.s.drv := rfl
theorem shift_ring (k : Nat) (n : Node) : (n.shift k).s.ring = n.s.ring := rfl
theorem shift_rxq (k : Nat) (n : Node) : (n.shift k).rxq = n.rxq := rfl

/-- the observable behaviour of a poll is the same in the shifted run: same handler calls, same frames at the driver -/
theorem poll_observable {k : Nat} {n : Node} (hc : TPClockOk k n) (ho : n.ShiftOk k) :
    (poll (n.shift k)).out = (poll n).out ∧ (poll (n.shift k)).s.drv = (poll n).s.drv ∧
    (poll (n.shift k)).s.ring = (poll n).s.ring := by
  rw [(poll_shift hc ho).1]; exact ⟨rfl, rfl, rfl⟩

theorem sendMsgTP_observable {k : Nat} {n : Node} (m : Msg) (dev : Option Nat) (hc : TPClockOk k n) (ho : n.ShiftOk k) :
    (sendMsgTP (n.shift k) m dev).2 = (sendMsgTP n m dev).2 ∧
    (sendMsgTP (n.shift k) m dev).1.s.drv = (sendMsgTP n m dev).1.s.drv ∧
    (sendMsgTP (n.shift k) m dev).1.out = (sendMsgTP n m dev).1.out := by
  rw [(sendMsgTP_shift m dev hc ho).1]; exact ⟨rfl, rfl, rfl⟩

end N2k.TP
