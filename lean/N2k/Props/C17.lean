import N2k.Lemmas.ActisenseStream
/-!
# C17 — Actisense output decodes to the same message; the reader survives any stream

Property theorems only. Model: `N2k.Acti` (`Model/Actisense.lean`, transcribing
`tN2kMsg::SendInActisenseFormat` and `tActisenseReader` with the two `fix:` commits: 16 bit index and
478 byte buffer in the encoder, data-length/frame-length test in `CheckMessage`). Specification:
`frame`, `decodeBody`, `Valid`, `received`, `Reachable` (`Spec/Actisense.lean`).

`feed c s bytes` pushes every byte through the loop body of `GetMessageFromStream` and collects the
reported messages; `C17_split` shows that this is what any sequence of `ParseMessages` calls computes
however the bytes are distributed over the calls. All theorems hold for both signednesses of `char`,
every default source, every clock value and every (stale/uninitialised) buffer content.
The time stamp of a decoded data frame is left open by the property: `Cfg.stampLocal` selects the embedded
time (`false`, the library as it is) or the local receive time; `received c m` follows it and all
theorems hold for both.

Forwarding through a node: the decisions of `ForwardMessage` (both overloads), the end of `SendMsg` and
`HandleReceivedSystemMessage` are the model's `forwardOwn` / `forwardRx`; `C17_forwarding_policy` relates them
to the documented options and `C17_forwarding_roundtrip` composes them with the round trip. The send gate,
fast-packet reassembly and the PGN classification are other properties' models (C04, C02, C01).
-/
namespace N2k.C17
open N2k.Acti

/-! ## round trip -/

/-- **C17_roundtrip.** For every valid message (PGN 1..2^24-1, 1..223 payload bytes, any priority,
source, destination, time stamp; 0x10 bytes anywhere, also as length byte or checksum) the encoder
writes a frame without leaving its buffer, and a freshly constructed reader (any buffer content) fed
these bytes reports exactly this message (time stamp modulo 2^32) and nothing is pending afterwards. -/
theorem C17_roundtrip (c : Cfg) (buf0 : List Nat) (hb : buf0.length = maxBuf) (m : Msg) (hv : Valid m) :
    ∃ bytes s', sendInActisense m = .ok bytes ∧
      feed c (RState.init buf0) bytes = .ok (s', [received c m]) ∧ handling s' = false := by
  obtain ⟨s', hf, hidle⟩ := frame_fed c (Reachable.init buf0 hb).inv (Or.inr rfl) hv
  exact ⟨_, s', encode_valid hv, hf, hidle.handling⟩

example : Valid ⟨6, 129025, 255, 1, 123456, 8, [0x10, 0x10, 3, 4, 5, 6, 7, 0x10]⟩ := by
  constructor <;> simp

/-- **C17_roundtrip_concat.** One message per frame: the concatenated frames of any list of valid
messages, fed to a reachable reader without a pending escape (in particular a fresh one), yield
exactly these messages in order; the same through `ParseMessages`. -/
theorem C17_roundtrip_concat (c : Cfg) (s : RState) (hs : Reachable s) (he : s.coming = false ∨ s.esc = false)
    (ms : List Msg) (hv : ∀ m ∈ ms, Valid m) :
    (∀ m ∈ ms, sendInActisense m = .ok (frame (bodyOf m))) ∧
    ∃ s', feed c s (ms.flatMap fun m => frame (bodyOf m)) = .ok (s', ms.map (received c)) ∧
      parseAll c ((ms.flatMap fun m => frame (bodyOf m)).length + 1) s
        (ms.flatMap fun m => frame (bodyOf m)) = .ok (s', [], ms.map (received c)) ∧
      (ms ≠ [] → handling s' = false) := by
  refine ⟨fun m hm => encode_valid (hv m hm), ?_⟩
  have key : ∀ (ms : List Msg) (s : RState), RInv s → (s.coming = false ∨ s.esc = false) → (∀ m ∈ ms, Valid m) →
      ∃ s', feed c s (ms.flatMap fun m => frame (bodyOf m)) = .ok (s', ms.map (received c)) ∧
        (ms ≠ [] → handling s' = false) := by
    intro ms
    induction ms with
    | nil => intro s _ _ _; exact ⟨s, rfl, by simp⟩
    | cons m t ih =>
      intro s hi he hv
      obtain ⟨s1, hf1, hidle⟩ := frame_fed c hi he (hv m (by simp))
      obtain ⟨s2, hf2, hh⟩ := ih s1 hidle.inv (Or.inr hidle.esc) (fun x hx => hv x (by simp [hx]))
      refine ⟨s2, ?_, ?_⟩
      · simp only [List.flatMap_cons, feed_append, hf1, hf2, List.map_cons]; rfl
      · intro _
        cases t with
        | nil =>
          simp only [List.flatMap_nil, feed, Except.ok.injEq, Prod.mk.injEq] at hf2
          rw [← hf2.1]; exact hidle.handling
        | cons x t' => exact hh (by simp)
  obtain ⟨s', hf, hh⟩ := key ms s hs.inv he hv
  obtain ⟨s'', ms', hf', hp⟩ := parseAll_feed c _ _ hs.inv (Nat.lt_succ_self _)
  rw [hf] at hf'
  simp only [Except.ok.injEq, Prod.mk.injEq] at hf'
  exact ⟨s', hf, by rw [hp, hf'.1, hf'.2], hh⟩

/-! ## forwarding through a node -/

/-- **C17_forwarding_policy.** The decision functions transcribed from `tNMEA2000::ForwardMessage` (both
overloads), the end of `SendMsg` and `HandleReceivedSystemMessage` agree with the documented options, for
every mode value: an own message is forwarded iff forwarding is enabled, the mode is not send-only and
own-message forwarding is on (node-only mode included); a non-system bus message from another source iff
forwarding is enabled, the mode is a listening one (not node-only, not send-only) and the message is
known or "only known" is off; a system message from the bus, in the modes that handle system messages,
additionally needs the system-message option. -/
theorem C17_forwarding_policy (f : FwdCfg) (known : Bool) :
    forwardOwn f = (f.enable && f.mode != 3 && f.own) ∧
    forwardRx f known false false = (f.enable && f.mode != 3 && f.mode != 1 && (known || !f.knownOnly)) ∧
    (f.mode ≠ 3 → f.mode ≠ 4 → forwardRx f known true false = (f.system && f.enable && f.mode != 1)) := by
  obtain ⟨mode, en, own, ko, sys⟩ := f
  refine ⟨?_, ?_, ?_⟩
  · simp only [forwardOwn, forwardMsg, forwardEnabled, bne]
    generalize (mode == 1) = b1; generalize (mode == 3) = b3
    cases b1 <;> cases b3 <;> cases en <;> cases own <;> rfl
  · simp only [forwardRx, forwardMsg, forwardEnabled, bne]
    generalize (mode == 1) = b1; generalize (mode == 3) = b3; generalize (mode == 4) = b4
    cases b1 <;> cases b3 <;> cases b4 <;> cases en <;> cases own <;> cases ko <;> cases known <;> rfl
  · intro h3 h4
    have e3 : (mode == 3) = false := by simpa using h3
    have e4 : (mode == 4) = false := by simpa using h4
    simp only [forwardRx, forwardMsg, forwardEnabled, bne, e3, e4]
    generalize (mode == 1) = b1
    cases b1 <;> cases en <;> cases own <;> cases sys <;> cases ko <;> cases known <;> rfl

/-- **C17_forwarding_roundtrip.** A valid message written by the library's message forwarding decodes to
itself: for any sequence of forwarding decisions over valid messages (own messages after `SendMsg`,
messages received from the bus), every forwarded message is written without fault as its frame, nothing is
written for the others, and the library's reader fed the forward stream reports exactly the forwarded
messages, in order, one per frame. -/
theorem C17_forwarding_roundtrip (c : Cfg) (buf0 : List Nat) (hb : buf0.length = maxBuf)
    (events : List (Bool × Msg)) (hv : ∀ e ∈ events, Valid e.2) :
    (∀ e ∈ events, forwarded e.1 e.2 = .ok (if e.1 then frame (bodyOf e.2) else [])) ∧
    ∃ s', feed c (RState.init buf0) (events.flatMap fun e => if e.1 then frame (bodyOf e.2) else [])
      = .ok (s', ((events.filter (·.1)).map (·.2)).map (received c)) := by
  constructor
  · intro e he
    unfold forwarded
    cases h : e.1
    · simp
    · simp [encode_valid (hv e he)]
  · have hflat : (events.flatMap fun e => if e.1 then frame (bodyOf e.2) else [])
        = ((events.filter (·.1)).map (·.2)).flatMap fun m => frame (bodyOf m) := by
      induction events with
      | nil => rfl
      | cons e t ih =>
        have iht := ih (fun x hx => hv x (by simp [hx]))
        cases h : e.1 <;> simp [List.flatMap_cons, h, iht]
    rw [hflat]
    obtain ⟨_, s', hf, _, _⟩ := C17_roundtrip_concat c (RState.init buf0) (.init buf0 hb) (Or.inr rfl)
      ((events.filter (·.1)).map (·.2)) (by
        intro m hm
        simp only [List.mem_map, List.mem_filter] at hm
        obtain ⟨e, ⟨he, _⟩, rfl⟩ := hm
        exact hv e he)
    exact ⟨s', hf⟩

example : Valid (true, (⟨6, 129025, 255, 1, 123456, 8, [0x10, 0x10, 3, 4, 5, 6, 7, 0x10]⟩ : Msg)).2 := by
  constructor <;> simp

/-- **C17_pinned_encoder_wraps.** Why the encoder needed the `fix:` commit: with the declarations of the
pinned tree (`uint8_t msgIdx`, 400 byte buffer) a valid message with 223 escape bytes makes the model
write 208 bytes instead of the 464 of its frame (the index wrapped once), so `C17_roundtrip` is false
for `encode pinnedParams`. -/
theorem C17_pinned_encoder_wraps :
    Valid ⟨2, 129025, 255, 1, 1000, 223, List.replicate 223 0x10⟩ ∧
    (encode pinnedParams ⟨2, 129025, 255, 1, 1000, 223, List.replicate 223 0x10⟩).toOption.map List.length
      = some 208 ∧
    (frame (bodyOf ⟨2, 129025, 255, 1, 1000, 223, List.replicate 223 0x10⟩)).length = 464 := by
  refine ⟨⟨by decide, by decide, by decide, by decide, List.length_replicate .., ?_, by decide, by decide,
    by decide⟩, by decide +kernel, by decide +kernel⟩
  intro b hb
  rw [List.eq_of_mem_replicate hb]; decide

/-! ## safety of the reader -/

/-- **C17_reader_safe.** From every reachable state, for every byte, `readOut` mode and configuration:
the loop iteration raises no `Fault` (every `MsgBuf` index is in `[0,300)`, every `Data` index written
by the copy-out loop in `[0,223)`), the new state is reachable, and a message is reported only at an
end sequence and is exactly the specification's decoding of the buffered bytes: known type, length
byte `= |body| - 3`, checksum matching, embedded data length `≤ 223` and consistent with the frame
length (`decodeBody`, unfolded in `C17_reported_frame_consistent`). -/
theorem C17_reader_safe (s : RState) (hs : Reachable s) (c : Cfg) (ro : Bool) (b : Nat) :
    ∃ s' k r, readerStep c ro s b = .ok (s', k, r) ∧ Reachable s' ∧
      (∀ m, r = some m → s.coming = true ∧ s.esc = true ∧ b = 0x03 ∧
        decodeBody c.defaultSource c.now c.stampLocal (s.buf.take s.pos) = some m) := by
  obtain ⟨s', k, r, h1, _, h3, _⟩ := step_total c ro b hs.inv
  exact ⟨s', k, r, h1, Reachable.step c ro b k r hs h1, h3⟩

/-- **C17_reader_safe_stream.** No byte stream, however it is delivered, makes the reader fault:
`GetMessageFromStream` in both `readOut` modes (in particular its loop never spins on a byte it does
not read), `ParseMessages`, and the plain byte-by-byte run all return. -/
theorem C17_reader_safe_stream (s : RState) (hs : Reachable s) (c : Cfg) (bytes : List Nat) :
    (∃ s' ms, feed c s bytes = .ok (s', ms) ∧ Reachable s') ∧
    (∀ ro, ∃ s' rest r, getMessage c ro s bytes = .ok (s', rest, r)) ∧
    (∃ s' ms, parseAll c (bytes.length + 1) s bytes = .ok (s', [], ms)) := by
  refine ⟨?_, fun ro => ?_, ?_⟩
  · have key : ∀ (bytes : List Nat) (s : RState), Reachable s → ∃ s' ms, feed c s bytes = .ok (s', ms) ∧ Reachable s' := by
      intro bytes
      induction bytes with
      | nil => intro s hs; exact ⟨s, [], rfl, hs⟩
      | cons b t ih =>
        intro s hs
        obtain ⟨s1, k, r, h1, hr, _⟩ := C17_reader_safe s hs c true b
        obtain ⟨s2, ms, h2, hr2⟩ := ih s1 hr
        exact ⟨s2, r.toList ++ ms, by simp [feed, h1, h2], hr2⟩
    exact key bytes s hs
  · obtain ⟨s', rest, r, h, _⟩ := getMessage_total c ro bytes hs.inv
    exact ⟨s', rest, r, h⟩
  · obtain ⟨s', ms, _, h⟩ := parseAll_feed c bytes _ hs.inv (Nat.lt_succ_self _)
    exact ⟨s', ms, h⟩

example : Reachable (RState.init (List.replicate maxBuf 0xA5)) := .init _ (by simp)

/-- **C17_reported_frame_consistent.** What `decodeBody body = some m` (the condition under which a
message is reported) means: the type is 0x93/0x94, the length byte is `|body| - 3`, the last byte is
the checksum of the others, the embedded data length is `m.len ≤ 223`, equals the number of payload
bytes delivered and accounts for the whole frame. -/
theorem C17_reported_frame_consistent (ds now : Nat) (loc : Bool) (body : List Nat) (m : Msg)
    (h : decodeBody ds now loc body = some m) :
    (body.getD 0 0 = 0x93 ∨ body.getD 0 0 = 0x94) ∧ body.length = body.getD 1 0 + 3 ∧
    body.getD (body.length - 1) 0 = checksum (body.take (body.length - 1)) ∧
    m.len ≤ 223 ∧ m.data.length = m.len ∧
    body.length = (if body.getD 0 0 = 0x93 then 13 else 8) + m.len + 1 ∧
    m.data = (body.drop (if body.getD 0 0 = 0x93 then 13 else 8)).take m.len := by
  unfold decodeBody at h
  have fin : ∀ (hdr : Nat) (cond : Prop) [Decidable cond] (x : Msg),
      (if cond then some x else none) = some m → cond ∧ x = m := by
    intro hdr cond _ x hx
    by_cases hc : cond
    · rw [if_pos hc] at hx; exact ⟨hc, Option.some.inj hx⟩
    · rw [if_neg hc] at hx; cases hx
  by_cases ht : body.getD 0 0 = 0x93
  · simp only [ht, if_true] at h ⊢
    obtain ⟨⟨h1, h2, h3, h4, h5⟩, hm⟩ := fin 13 _ _ h
    subst hm
    refine ⟨Or.inl trivial, h2, h3, h4, ?_, h5, rfl⟩
    simp only [List.length_take, List.length_drop]
    omega
  · simp only [ht, if_false] at h ⊢
    obtain ⟨⟨h1, h2, h3, h4, h5⟩, hm⟩ := fin 8 _ _ h
    subst hm
    refine ⟨h1, h2, h3, h4, ?_, h5, rfl⟩
    simp only [List.length_take, List.length_drop]
    omega

/-- **C17_reported_length_bounded.** Every message the reader ever reports — from any reachable state,
for any byte stream, both frame types (0x93 with 11, 0x94 with 6 header bytes) — has `DataLen ≤ 223 =
MaxDataLen` and exactly `DataLen` payload bytes: the copy-out loop never leaves `Data[223]`, not even
inside the message object, and a self-consistent frame with more payload is dropped. -/
theorem C17_reported_length_bounded (c : Cfg) (bytes : List Nat) : ∀ (s : RState), Reachable s →
    ∀ (s' : RState) (ms : List Msg), feed c s bytes = .ok (s', ms) →
    ∀ m ∈ ms, m.len ≤ 223 ∧ m.data.length = m.len := by
  induction bytes with
  | nil =>
    intro s _ s' ms h m hm
    simp only [feed, Except.ok.injEq, Prod.mk.injEq] at h
    rw [← h.2] at hm; cases hm
  | cons b t ih =>
    intro s hs s' ms h m hm
    obtain ⟨s1, k, r, hstep, hr1, hrep⟩ := C17_reader_safe s hs c true b
    obtain ⟨⟨s2, ms2, hf2, _⟩, _, _⟩ := C17_reader_safe_stream s1 hr1 c t
    simp only [feed, hstep, hf2, Except.ok.injEq, Prod.mk.injEq] at h
    rw [← h.2] at hm
    rcases List.mem_append.mp hm with hm | hm
    · cases r with
      | none => cases hm
      | some m0 =>
        have : m = m0 := by simpa using hm
        subst this
        obtain ⟨_, _, _, hdec⟩ := hrep m rfl
        have := C17_reported_frame_consistent _ _ _ _ _ hdec
        exact ⟨this.2.2.2.1, this.2.2.2.2.1⟩
    · exact ih s1 hr1 s2 ms2 hf2 m hm

example : Reachable (RState.init (List.replicate maxBuf 0)) := .init _ (by simp)

/-- **C17_reported_frames_in_stream.** The reader reports only frames: whenever a reader that started
fresh reports a message after consuming `pre ++ [b]`, these bytes end with a complete frame
`<10><02> escaped(body) <10><03>` whose body is consistent (`decodeBody`, see
`C17_reported_frame_consistent`) and decodes to exactly the reported message. -/
theorem C17_reported_frames_in_stream (c : Cfg) (buf0 : List Nat) (hb : buf0.length = maxBuf)
    (pre : List Nat) (b : Nat) (s1 s' : RState) (ms : List Msg) (k : Bool) (m : Msg)
    (hfeed : feed c (RState.init buf0) pre = .ok (s1, ms))
    (hstep : readerStep c true s1 b = .ok (s', k, some m)) :
    ∃ p body, pre ++ [b] = p ++ [0x10, 0x02] ++ escAll body ++ [0x10, 0x03] ∧
      decodeBody c.defaultSource c.now c.stampLocal body = some m := by
  obtain ⟨hg, hi⟩ := ghost_feed c pre (Ghost.init buf0) (Reachable.init buf0 hb).inv hfeed
  simpa using (ghost_step c hg hi hstep).2 m rfl

-- the hypotheses are satisfiable: a concrete stream whose last byte makes a fresh reader report
set_option maxRecDepth 100000 in
example : ∃ s1 ms s' k m,
    feed ⟨true, 65, 0, false⟩ (RState.init (List.replicate 300 0))
      [0x10, 0x02, 0x93, 0x0c, 2, 1, 0xf8, 1, 0xff, 7, 0, 0, 0, 0, 1, 0x55, 0x09, 0x10] = .ok (s1, ms) ∧
    readerStep ⟨true, 65, 0, false⟩ true s1 3 = .ok (s', k, some m) := ⟨_, _, _, _, _, rfl, rfl⟩

/-! ## resynchronisation -/

/-- **C17_resync.** From any reachable state except "inside a message with an escape pending" (whatever
has been collected, whatever other flags are set) the frame of a valid message is returned, and the
reader is idle. -/
theorem C17_resync (s : RState) (hs : Reachable s) (he : s.coming = false ∨ s.esc = false) (c : Cfg) (m : Msg)
    (hv : Valid m) :
    ∃ s', feed c s (frame (bodyOf m)) = .ok (s', [received c m]) ∧ handling s' = false := by
  obtain ⟨s', hf, hidle⟩ := frame_fed c hs.inv he hv
  exact ⟨s', hf, hidle.handling⟩

example : Reachable (RState.init (List.replicate maxBuf 0)) ∧ (RState.init (List.replicate maxBuf 0)).esc = false :=
  ⟨.init _ (by simp), rfl⟩

/-- **C17_resync_from_idle.** When nothing is pending (`Handling()` is false: a fresh reader, or after
a complete frame, or after garbage that was dropped) the next start sequence starts a message: any
bytes that contain no `<10><02>` — in particular stray `<10>` bytes directly in front of the frame —
followed by the frame of a valid message yield exactly that message. -/
theorem C17_resync_from_idle (s : RState) (hs : Reachable s) (hh : handling s = false) (c : Cfg)
    (g : List Nat) (hg : noStart g = true) (m : Msg) (hv : Valid m) :
    ∃ s', feed c s (g ++ frame (bodyOf m)) = .ok (s', [received c m]) ∧ handling s' = false := by
  obtain ⟨s', hf, hidle⟩ := frame_fed_idle c g hs.inv hh hg hv
  exact ⟨s', hf, hidle.handling⟩

example : handling (RState.init (List.replicate maxBuf 0)) = false ∧ noStart [0x55, 0x10, 0x10, 0x10] = true :=
  ⟨rfl, rfl⟩

/-- **C17_resync_after_garbage.** From *any* reachable state: after any bytes the last of which is not
0x10 (garbage, a truncated frame, a complete frame, ...) the frame of a valid message is returned —
the output is what the garbage produced followed by exactly this message. -/
theorem C17_resync_after_garbage (s : RState) (hs : Reachable s) (c : Cfg) (g : List Nat) (last : Nat)
    (hl : g.getLast? = some last) (hne : last ≠ 0x10) (m : Msg) (hv : Valid m) :
    ∃ s1 outs s', feed c s g = .ok (s1, outs) ∧
      feed c s (g ++ frame (bodyOf m)) = .ok (s', outs ++ [received c m]) ∧ handling s' = false := by
  obtain ⟨s1, outs, hf1, hi1, hesc⟩ := feed_total c g hs.inv
  obtain ⟨s', hf2, hidle⟩ := frame_fed c hi1 (Or.inr (hesc last hl hne)) hv
  exact ⟨s1, outs, s', hf1, by simp only [feed_append, hf1, hf2], hidle.handling⟩

example : ([0x10, 0x02, 0x93, 0x55] : List Nat).getLast? = some 0x55 ∧ (0x55 : Nat) ≠ 0x10 := ⟨rfl, by decide⟩

/-- **C17_resync_second_frame.** From any reachable state, of two consecutive well-formed frames the
second is returned (the first one may be lost if an escape was pending). -/
theorem C17_resync_second_frame (s : RState) (hs : Reachable s) (c : Cfg) (m1 m2 : Msg) (hv2 : Valid m2) :
    ∃ outs s', feed c s (frame (bodyOf m1) ++ frame (bodyOf m2)) = .ok (s', outs ++ [received c m2]) ∧
      handling s' = false := by
  have hl : (frame (bodyOf m1)).getLast? = some 0x03 := by
    unfold frame; rw [List.getLast?_append]; rfl
  obtain ⟨_, outs, s', _, h, hh⟩ := C17_resync_after_garbage s hs c _ 0x03 hl (by decide) m2 hv2
  exact ⟨outs, s', h, hh⟩

/-- **C17_split.** Splitting the stream at any byte boundary (the stream runs empty, `peek()` returns
-1, the application calls `ParseMessages` again later) does not change the result: messages and final
state are those of the unsplit stream, and both equal the byte-by-byte run `feed`. -/
theorem C17_split (s : RState) (hs : Reachable s) (c : Cfg) (a b : List Nat) :
    ∃ s1 ms1 s2 ms2, parseAll c (a.length + 1) s a = .ok (s1, [], ms1) ∧
      parseAll c (b.length + 1) s1 b = .ok (s2, [], ms2) ∧
      parseAll c ((a ++ b).length + 1) s (a ++ b) = .ok (s2, [], ms1 ++ ms2) ∧
      feed c s (a ++ b) = .ok (s2, ms1 ++ ms2) := by
  obtain ⟨s1, ms1, hf1, hp1⟩ := parseAll_feed c a _ hs.inv (Nat.lt_succ_self _)
  have hi1' : RInv s1 := by
    obtain ⟨s1', ms1', hf1', hi1, _⟩ := feed_total c a hs.inv
    rw [hf1] at hf1'; simp only [Except.ok.injEq, Prod.mk.injEq] at hf1'; rw [hf1'.1]; exact hi1
  obtain ⟨s2, ms2, hf2, hp2⟩ := parseAll_feed c b _ hi1' (Nat.lt_succ_self _)
  obtain ⟨s3, ms3, hf3, hp3⟩ := parseAll_feed c (a ++ b) _ hs.inv (Nat.lt_succ_self _)
  have hcat : feed c s (a ++ b) = .ok (s2, ms1 ++ ms2) := by simp only [feed_append, hf1, hf2]
  rw [hcat] at hf3
  simp only [Except.ok.injEq, Prod.mk.injEq] at hf3
  exact ⟨s1, ms1, s2, ms2, hp1, hp2, by rw [hp3, hf3.1, hf3.2], hcat⟩

/-- **C17_readOut_mode.** With `readOut = false` a byte may be left in the stream, but state and
result of every loop iteration are those of `readOut = true`. -/
theorem C17_readOut_mode (c : Cfg) (s : RState) (b : Nat) :
    (match readerStep c false s b with | .ok (s', _, r) => Except.ok (s', r) | .error f => .error f) =
    (match readerStep c true s b with | .ok (s', _, r) => Except.ok (s', r) | .error f => .error f) :=
  readOut_irrelevant c s b

end N2k.C17
