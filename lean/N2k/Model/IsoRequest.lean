import N2k.Model.Send
import N2k.Model.Claim
/-!
# ISO request (PGN 59904) responder of `tNMEA2000` (`src/NMEA2000.cpp`), message level

Transcription map
* `ParseN2kPGN59904`                              → `requestedPGN`
* `FindSourceDeviceIndex`                         → `findSourceDeviceIndex`
* `HandleISORequest` / `RespondISORequest`        → `handleISORequest` / `respond` (+ `dflt` for the `default:` branch)
* `IgnoreBroadcastISORequest`                     → `Gen.ignoreBroadcastISORequest` (generated table)
* `SetN2kPGN59392` / `SetN2kPGNISOAcknowledgement`→ `ackData`, `nakMsg`, `confNakMsg`
* `SendIsoAddressClaim(0xff,iDev)`                → `Send.claimMsg`
* `SendTxPGNList` / `SendRxPGNList`               → `pgnListMsg` (defaults ++ declared, `MAX_PGNS_IN_LIST` = 74)
* `SetN2kPGN126996` / `SetN2kPGN126996Progmem`    → `productDataRam` / `productDataProgmem`
* `SetN2kPGN126998` (`AddVarStr`, 7-bit strings)  → `configData` (`varStr`)
* `SendProductInformation` / `SendConfigurationInformation` → `sendProductInformation` / `sendConfigurationInformation`
* `Set/ClearPending…Information`, `SendPendingInformation` → `afterProd` / `afterConf` (`updateHasPending`), `sendPendingInformation` (`pendingDev`)
* `HandleReceivedSystemMessage` (59904 case) + `ParseMessages` → `handleReceived`, `pollRq` (`pollWith`)
* a received address claim (60928) → `handleReceivedClaim` / `pollClaim`, reusing `Claim.handleClaim`

The messages are handed to `Send.sendMsg` (the already modelled `SendMsg`), so the state threads through
the claim-window gate, the sequence counters, the send queue and the scripted driver.
The application's request handler is a parameter (`Handler`): what it answers and what it sends (with the
device index it was called for) while it runs.

Strings are C strings: a `List Nat` is the memory content, the string ends at the first 0 (`cstr`).
`AddVarStr` is modelled for 7-bit strings (then `N2kRequireUnicode` is false); the UCS-2 path belongs to C16.
`HasPendingInformation` is modelled as the flag it is (`DevX.hasPending`): set by `SetPending…`, recomputed from the
timers by `Clear…` (`updateHasPending`), and guarding the device in `SendPendingInformation` (no ISO-TP transfer and
no delayed address claim are pending in this model, their terms of the disjunction are false).
-/
namespace N2k.IsoRequest
open N2k.Send N2k.Time

/-! ## byte helpers -/

def le2 (v : Nat) : List Nat := [v % 256, (v >>> 8) % 256]
def le3 (v : Nat) : List Nat := [v % 256, (v >>> 8) % 256, (v >>> 16) % 256]

/-- the C string stored in `s`: everything before the first NUL -/
def cstr (s : List Nat) : List Nat := s.takeWhile (· != 0)

/-- `AddStr(str,len)` = `SetBufStr(…,fillChar=0xff)`: copy up to `len` characters, pad with 0xFF -/
def fixStr (s : List Nat) (len : Nat) : List Nat :=
  (cstr s).take len ++ List.replicate (len - ((cstr s).take len).length) 0xff

/-- the two loops of `SetN2kPGN126996Progmem` for one field: copy while `i<len && byte`, then fill -/
def progStr : Nat → List Nat → List Nat
  | 0, _ => []
  | n+1, [] => 0xff :: progStr n []
  | n+1, b :: t => if b = 0 then 0xff :: progStr n [] else b :: progStr n t

def MaxDataLen : Nat := 223

/-- the string behind a pointer; a null pointer is treated as the empty string -/
def optCstr (s : Option (List Nat)) : List Nat :=
  match s with
  | none => []
  | some s => cstr s

/-- `AddVarStr(str,maxLen,vss_SupportUnicode,vsl_UseBytes)` for a 7-bit string, appended to a message that
already holds `used` bytes; `none` is a null pointer -/
def varStr (used : Nat) (s : Option (List Nat)) (maxLen : Nat) : List Nat :=
  let bufFree := if used < MaxDataLen then MaxDataLen - used else 0
  let c := optCstr s
  if bufFree ≤ 2 ∨ c = [] then
    (if bufFree ≥ 2 then [2, 1] else if bufFree = 1 then [1] else [])
  else
    let len := min (min c.length maxLen) (bufFree - 2)
    [(len + 2) % 256, 1] ++ c.take len

/-! ## configured information -/

/-- `tProductInformation` (RAM copy made by `SetProductInformation(const char*…)`, or a PROGMEM structure) -/
structure Product where
  version : Nat
  code : Nat
  modelID : List Nat
  swCode : List Nat
  modelVersion : List Nat
  serial : List Nat
  cert : Nat
  load : Nat
  progmem : Bool := false     -- `ProductInformation != LocalProductInformation`
  deriving Repr

/-- `tConfigurationInformation`: three string pointers (null = `none`) -/
structure Config where
  manuf : Option (List Nat) := none
  inst1 : Option (List Nat) := none
  inst2 : Option (List Nat) := none
  deriving Repr

def Config.any (c : Config) : Bool := c.manuf.isSome || c.inst1.isSome || c.inst2.isSome

/-- per-device data beside `Send.Dev` -/
structure DevX where
  rxList : List Nat := []            -- Devices[i].ReceiveMessages
  prod : Option Product := none      -- Devices[i].ProductInformation (null = `none`)
  pendProd : Sched                   -- PendingProductInformation
  pendConf : Sched                   -- PendingConfigurationInformation
  hasPending : Bool := false         -- HasPendingInformation

structure Node where
  st : St
  ext : List DevX                    -- parallel to `st.devs`
  conf : Config := {}

/-- the application's ISO request handler `bool h(RequestedPGN, Requester, DeviceIndex)` -/
structure Handler where
  accept : Nat → Nat → Nat → Bool
  sends : Nat → Nat → Nat → List Msg        -- what it hands to `SendMsg(msg, DeviceIndex)` while it runs

/-- a message handed to `SendMsg(msg, dev)` -/
structure OutMsg where
  dev : Nat
  msg : Msg

/-! ## message builders -/

def MAX_PGNS_IN_LIST : Nat := 74

/-- PGN 59392 payload -/
def ackData (control groupFunction pgn : Nat) : List Nat :=
  [control % 256, groupFunction % 256, 0xff, 0xff, 0xff] ++ le3 pgn

/-- the NAK of `RespondISORequest`: `tN2kMsg N2kMsgR;` (source 15, replaced by `SendMsg`), destination = requester -/
def nakMsg (requester pgn : Nat) : Msg :=
  { prio := 6, pgn := 59392, src := 15, dst := requester, len := 8, data := ackData 1 0xff pgn }

/-- `SendTxPGNList` / `SendRxPGNList`: `kind` 0 = transmit, 1 = receive -/
def pgnListMsg (d : Dev) (dst kind : Nat) (defaults declared : List Nat) : Msg :=
  let pgns := (defaults ++ declared).take MAX_PGNS_IN_LIST
  { prio := 6, pgn := 126464, src := d.source, dst := dst, len := 1 + 3 * pgns.length,
    data := kind :: pgns.flatMap le3 }

def txListMsg (d : Dev) (dst : Nat) : Msg := pgnListMsg d dst 0 Gen.defTransmitMessages d.txList
def rxListMsg (d : Dev) (x : DevX) (dst : Nat) : Msg := pgnListMsg d dst 1 Gen.defReceiveMessages x.rxList

def productDataRam (p : Product) : List Nat :=
  le2 p.version ++ le2 p.code ++ fixStr p.modelID 32 ++ fixStr p.swCode 32 ++ fixStr p.modelVersion 32 ++
  fixStr p.serial 32 ++ [p.cert % 256, p.load % 256]

def productDataProgmem (p : Product) : List Nat :=
  le2 p.version ++ le2 p.code ++ progStr 32 p.modelID ++ progStr 32 p.swCode ++ progStr 32 p.modelVersion ++
  progStr 32 p.serial ++ [p.cert % 256, p.load % 256]

def productData (p : Product) : List Nat := if p.progmem then productDataProgmem p else productDataRam p

def productMsg (d : Dev) (p : Product) : Msg :=
  { prio := 6, pgn := 126996, src := d.source, dst := 0xff, len := (productData p).length, data := productData p }

def MaxConfigField : Nat := 71     -- Max_N2kConfigurationInfoField_len

def configData (c : Config) : List Nat :=
  let a := varStr 0 c.inst1 MaxConfigField
  let b := varStr a.length c.inst2 MaxConfigField
  a ++ b ++ varStr (a.length + b.length) c.manuf MaxConfigField

def configMsg (d : Dev) (c : Config) : Msg :=
  { prio := 6, pgn := 126998, src := d.source, dst := 0xff, len := (configData c).length, data := configData c }

/-- `SendConfigurationInformation` with nothing configured: "not available", sent to everybody -/
def confNakMsg (d : Dev) : Msg :=
  { prio := 6, pgn := 59392, src := d.source, dst := 0xff, len := 8, data := ackData 1 0xff 126998 }

/-! ## sending -/

def sendPlain (n : Node) (i : Nat) (m : Msg) : Node × List OutMsg :=
  ({ n with st := (sendMsg n.st m (some i)).1 }, [⟨i, m⟩])

def sendAll (n : Node) (i : Nat) : List Msg → Node × List OutMsg
  | [] => (n, [])
  | m :: t => (sendAll (sendPlain n i m).1 i t |>.1, ⟨i, m⟩ :: (sendAll (sendPlain n i m).1 i t).2)

/-- then-combinator for actions that report the messages they handed over -/
def andThen (a : Node × List OutMsg) (f : Node → Node × List OutMsg) : Node × List OutMsg :=
  ((f a.1).1, a.2 ++ (f a.1).2)

def updExt (n : Node) (i : Nat) (g : DevX → DevX) : Node :=
  match n.ext[i]? with
  | none => n
  | some x => { n with ext := n.ext.set i (g x) }

/-- `UpdateHasPendingInformation()`: the flag is the disjunction of the timers being enabled
(`PendingIsoAddressClaim` and `NextDTSendTime` are never armed here) -/
def updateHasPending (f : Flavor) (x : DevX) : DevX :=
  { x with hasPending := x.pendProd.isEnabled f || x.pendConf.isEnabled f }

/-- the device's pending data after `SendProductInformation`'s `SendMsg`: `ClearPendingProductInformation()`
(disable, recompute the flag) on success, `SetPendingProductInformation()` (`187+N2kSource*8` ms, flag set) otherwise -/
def afterProd (s : St) (ok : Bool) (src : Nat) (x : DevX) : DevX :=
  if ok then updateHasPending s.flavor { x with pendProd := Sched.disabled s.flavor }
  else { x with pendProd := Sched.fromNow s.flavor s.now (187 + src * 8), hasPending := true }

/-- the same for `SendConfigurationInformation` (`187+N2kSource*10` ms) -/
def afterConf (s : St) (ok : Bool) (src : Nat) (x : DevX) : DevX :=
  if ok then updateHasPending s.flavor { x with pendConf := Sched.disabled s.flavor }
  else { x with pendConf := Sched.fromNow s.flavor s.now (187 + src * 10), hasPending := true }

/-- tail of `SendProductInformation`: `if (SendMsg(…)) Clear… else SetPending…` -/
def finishProd (n : Node) (i src : Nat) (m : Msg) : Node :=
  updExt { n with st := (sendMsg n.st m (some i)).1 } i (afterProd n.st (sendMsg n.st m (some i)).2 src)

/-- tail of `SendConfigurationInformation` -/
def finishConf (n : Node) (i src : Nat) (m : Msg) : Node :=
  updExt { n with st := (sendMsg n.st m (some i)).1 } i (afterConf n.st (sendMsg n.st m (some i)).2 src)

/-- the product information a device reports: its own, else the first device's -/
def resolveProd (ext : List DevX) (i : Nat) : Option Product :=
  match (ext[i]?).bind (·.prod) with
  | some p => some p
  | none => (ext[0]?).bind (·.prod)

/-- `SendProductInformation(iDev)` -/
def sendProductInformation (n : Node) (i : Nat) : Node × List OutMsg :=
  match n.st.devs[i]? with
  | none => (n, [])
  | some d =>
    match resolveProd n.ext i with
    | none => (n, [])                        -- "Can not do anything"
    | some p => (finishProd n i d.source (productMsg d p), [⟨i, productMsg d p⟩])

/-- what `SendConfigurationInformation` sends: the information, or "not available" when nothing is configured -/
def confOrNak (d : Dev) (c : Config) : Msg := if c.any then configMsg d c else confNakMsg d

/-- `SendConfigurationInformation(iDev)` -/
def sendConfigurationInformation (n : Node) (i : Nat) : Node × List OutMsg :=
  match n.st.devs[i]? with
  | none => (n, [])
  | some d => (finishConf n i d.source (confOrNak d n.conf), [⟨i, confOrNak d n.conf⟩])

/-! ## the responder -/

/-- the `default:` branch of `RespondISORequest` (also taken for 126998 when nothing is configured) -/
def dflt (n : Node) (h : Option Handler) (requester : Nat) (addressed : Bool) (pgn i : Nat) : Node × List OutMsg :=
  match h with
  | some hd =>
    if !addressed && Gen.ignoreBroadcastISORequest.contains pgn then (n, [])
    else
      andThen (sendAll n i (hd.sends pgn requester i)) fun n1 =>
        if hd.accept pgn requester i then (n1, [])
        else if addressed then sendPlain n1 i (nakMsg requester pgn) else (n1, [])
  | none => if addressed then sendPlain n i (nakMsg requester pgn) else (n, [])

/-- the `switch` of `RespondISORequest` for a device that is not claiming; `d`,`x` = the device's entries -/
def answer (n : Node) (h : Option Handler) (requester : Nat) (addressed : Bool) (pgn i : Nat) (d : Dev) (x : DevX) :
    Node × List OutMsg :=
  if pgn = 60928 then sendPlain n i (claimMsg d)
  else if pgn = 126464 then
    andThen (sendPlain n i (txListMsg d requester)) fun n1 => sendPlain n1 i (rxListMsg d x requester)
  else if pgn = 126996 then sendProductInformation n i
  else if pgn = 126998 ∧ n.conf.any = true then sendConfigurationInformation n i
  else dflt n h requester addressed pgn i

/-- `RespondISORequest(N2kMsg, Addressed, RequestedPGN, iDev)` -/
def respond (n : Node) (h : Option Handler) (requester : Nat) (addressed : Bool) (pgn i : Nat) : Node × List OutMsg :=
  match n.st.devs[i]?, n.ext[i]? with
  | some d0, some x =>
    let ic := isAddressClaimStarted n.st.flavor n.st.now d0
    let n1 := { n with st := { n.st with devs := updDev n.st.devs i ic.1 } }
    if ic.2 then (n1, [])            -- "We do not respond any queries during address claiming."
    else answer n1 h requester addressed pgn i ic.1 x
  | _, _ => (n, [])

/-- `ParseN2kPGN59904`: 3..8 data bytes, else PGN 0 -/
def requestedPGN (m : Msg) : Nat :=
  if 3 ≤ m.len ∧ m.len ≤ 8 then m.data.getD 0 0 + 256 * m.data.getD 1 0 + 65536 * m.data.getD 2 0 else 0

/-- `FindSourceDeviceIndex` -/
def findSourceDeviceIndex (devs : List Dev) (src : Nat) : Option Nat :=
  if src ≤ 253 then devs.findIdx? (fun d => d.source == src) else none

/-- the broadcast loop `for (iDev=0; iDev<DeviceCount; iDev++) RespondISORequest(N2kMsg,false,…)` -/
def respondAll (h : Option Handler) (requester pgn : Nat) : List Nat → Node → Node × List OutMsg
  | [], n => (n, [])
  | i :: t, n => andThen (respond n h requester false pgn i) (respondAll h requester pgn t)

/-- `HandleISORequest(N2kMsg)` -/
def handleISORequest (n : Node) (m : Msg) (h : Option Handler) : Node × List OutMsg :=
  if m.dst = 255 then respondAll h m.src (requestedPGN m) (List.range n.st.devs.length) n
  else
    match findSourceDeviceIndex n.st.devs m.dst with
    | none => (n, [])                 -- "if destination is not for us, we do nothing"
    | some i => respond n h m.src true (requestedPGN m) i

/-- `HandleReceivedSystemMessage` for a received 59904: only NodeOnly / ListenAndNode react -/
def handleReceived (n : Node) (m : Msg) (h : Option Handler) : Node × List OutMsg :=
  if n.st.claimMode then handleISORequest n m h else (n, [])

/-! ## pending information -/

/-- the body of the loop of `SendPendingInformation` for device `i`: guarded by `HasPendingInformation` -/
def pendingDev (n : Node) (i : Nat) : Node × List OutMsg :=
  match n.ext[i]? with
  | none => (n, [])
  | some x =>
    if x.hasPending then
      andThen (if x.pendProd.isTime n.st.flavor n.st.now then sendProductInformation n i else (n, [])) fun n1 =>
        match n1.ext[i]? with
        | some x1 => if x1.pendConf.isTime n1.st.flavor n1.st.now then sendConfigurationInformation n1 i else (n1, [])
        | none => (n1, [])
    else (n, [])

def pendingAll : List Nat → Node → Node × List OutMsg
  | [], n => (n, [])
  | i :: t, n => andThen (pendingDev n i) (pendingAll t)

/-- `SendPendingInformation()` -/
def sendPendingInformation (n : Node) : Node × List OutMsg :=
  pendingAll (List.range n.st.devs.length) n

/-- one `ParseMessages()` of an open node with at most one received system message (`act`) and no heartbeat due:
`SendFrames`, `SendPendingInformation`, the message, then `SendHeartbeat`'s claim-timer bookkeeping -/
def pollWith (n : Node) (act : Node → Node × List OutMsg) : Node × List OutMsg :=
  let fl := sendFrames n.st.ring n.st.drv
  let n1 := { n with st := { n.st with ring := fl.1, drv := fl.2.1 } }
  let r := andThen (sendPendingInformation n1) act
  let s := r.1.st
  let devs := if s.claimMode then s.devs.map (fun d => (isAddressClaimStarted s.flavor s.now d).1) else s.devs
  ({ r.1 with st := { s with devs := devs } }, r.2)

/-- a poll with at most one received ISO request -/
def pollRq (n : Node) (rq : Option Msg) (h : Option Handler) : Node × List OutMsg :=
  pollWith n fun n2 =>
    match rq with
    | none => (n2, [])
    | some m => handleReceived n2 m h

/-- `HandleReceivedSystemMessage` for a received address claim (PGN 60928) from `src` with NAME `name`:
`HandleISOAddressClaim` of `Model/Claim.lean` (defend, or move on — possibly to the null address — and
`StartAddressClaim`, which arms the 250 ms window) -/
def handleReceivedClaim (n : Node) (src name : Nat) : Node :=
  if n.st.claimMode then { n with st := (Claim.handleClaim { s := n.st } src name).s } else n

/-- a poll with one received address claim -/
def pollClaim (n : Node) (src name : Nat) : Node × List OutMsg :=
  pollWith n fun n2 => (handleReceivedClaim n2 src name, [])

end N2k.IsoRequest
