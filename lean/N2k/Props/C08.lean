import N2k.Lemmas.IsoRequestOut
import N2k.Lemmas.IsoRequestContent
import N2k.Lemmas.IsoRequestRetry
import N2k.Lemmas.IsoRequestRun
import N2k.Lemmas.IsoRequestBus
import N2k.Props.C01
/-!
# C08 — ISO requests (PGN 59904) are always answered: data for the mandatory PGNs, NAK otherwise

All theorems are about `N2k.IsoRequest.handleISORequest` (transcription of `HandleISORequest` /
`RespondISORequest` and the builders it calls, AS FIXED in the worktree: a request for 126998 with nothing
configured is handled like any other PGN the library cannot serve) composed with `N2k.Send.sendMsg`.
The "output" of the handler is the list of messages it hands to `SendMsg`, each with its device index.
-/
namespace N2k.C08
open N2k.Send N2k.Time N2k.IsoRequest

/-- the library's own negative acknowledgement for `pgn`, sent by device `i` to `requester` -/
def nak (i requester pgn : Nat) : OutMsg := ⟨i, nakMsg requester pgn⟩

/-- **C08_addressed_device.** "Addressed to device `i`": the destination is a claimable address (≤ 253), device
`i` has it and no earlier device has — then `FindSourceDeviceIndex` finds exactly `i`. -/
theorem C08_addressed_device (devs : List Dev) (dst i : Nat) (d : Dev) (hle : dst ≤ 253)
    (hd : devs[i]? = some d) (hs : d.source = dst)
    (hfirst : ∀ j d', j < i → devs[j]? = some d' → d'.source ≠ dst) :
    findSourceDeviceIndex devs dst = some i := by
  unfold findSourceDeviceIndex
  rw [if_pos hle, List.findIdx?_eq_some_iff_getElem]
  have hl : i < devs.length := by
    rcases Nat.lt_or_ge i devs.length with h1 | h1
    · exact h1
    · rw [List.getElem?_eq_none h1] at hd; cases hd
  have hg : devs[i] = d := by
    rw [List.getElem?_eq_getElem hl] at hd; exact Option.some.inj hd
  refine ⟨hl, by simp [hg, hs], ?_⟩
  intro j hji
  have hjl : j < devs.length := by omega
  have := hfirst j devs[j] hji (List.getElem?_eq_getElem hjl)
  simpa using this

/-- **C08_addressed_answered.** A request addressed to device `i` whose address claim is not pending makes the
node hand to `SendMsg`, for device `i` and in this order: the address claim for 60928; the transmit list and then
the receive list (to the requester) for 126464; the product information for 126996; the configuration
information for 126998 (when something is configured); for every other requested PGN — all 2^24 values, `P` is
symbolic — exactly what the application's handler sends and, unless it accepts, exactly one NAK to the requester
naming `P`. Without a handler: exactly one NAK. -/
theorem C08_addressed_answered (n : Node) (m : Msg) (h : Option Handler) (i : Nat) (d : Dev) (x : DevX)
    (hdst : m.dst ≠ 255) (hfind : findSourceDeviceIndex n.st.devs m.dst = some i)
    (hd : n.st.devs[i]? = some d) (hx : n.ext[i]? = some x)
    (hnc : (isAddressClaimStarted n.st.flavor n.st.now d).2 = false) :
    (handleISORequest n m h).2 =
      if requestedPGN m = 60928 then [⟨i, claimMsg d⟩]
      else if requestedPGN m = 126464 then [⟨i, txListMsg d m.src⟩, ⟨i, rxListMsg d x m.src⟩]
      else if requestedPGN m = 126996 then
        (match resolveProd n.ext i with | some p => [⟨i, productMsg d p⟩] | none => [])
      else if requestedPGN m = 126998 ∧ n.conf.any = true then [⟨i, configMsg d n.conf⟩]
      else match h with
        | some hd => (hd.sends (requestedPGN m) m.src i).map (OutMsg.mk i) ++
                       (if hd.accept (requestedPGN m) m.src i then [] else [nak i m.src (requestedPGN m)])
        | none => [nak i m.src (requestedPGN m)] := by
  unfold handleISORequest
  rw [if_neg hdst, hfind]
  simp only
  rw [respond_out]
  unfold deviceAnswers
  rw [hd, hx]
  simp only [hnc, Bool.false_eq_true, ↓reduceIte, answers, dfltAnswers, nak]
  cases h with
  | none => rfl
  | some hd => rfl

/-- **C08_nak_format.** The NAK is PGN 59392, priority 6, 8 bytes: control byte 1 (negative acknowledgement),
group function 0xFF, three reserved 0xFF bytes and, in bytes 5..7, the three PGN bytes of the request exactly as
received — for every request of 3..8 bytes, i.e. all 2^24 requested PGN values; its destination is the requester. -/
theorem C08_nak_format (m : Msg) (b0 b1 b2 : Nat) (rest : List Nat) (h0 : b0 < 256) (h1 : b1 < 256) (h2 : b2 < 256)
    (hlen : 3 ≤ m.len ∧ m.len ≤ 8) (hdata : m.data = b0 :: b1 :: b2 :: rest) :
    let k := nakMsg m.src (requestedPGN m)
    k.pgn = 59392 ∧ k.prio = 6 ∧ k.dst = m.src ∧ k.len = 8 ∧ k.tp = false ∧
    k.data = [1, 0xff, 0xff, 0xff, 0xff, b0, b1, b2] := by
  simp only [nakMsg, requestedPGN, hlen, and_self, ↓reduceIte, hdata, ackData, le3, List.getD_cons_zero,
    List.getD_cons_succ, Nat.shiftRight_eq_div_pow, true_and]
  simp only [List.cons_append, List.nil_append, List.cons.injEq, and_true, true_and]
  refine ⟨by omega, by omega, by omega⟩

/-- a request that is too short (or too long) to name a PGN is read as PGN 0 (and NAKed as such when addressed) -/
theorem C08_malformed_request (m : Msg) (h : ¬ (3 ≤ m.len ∧ m.len ≤ 8)) : requestedPGN m = 0 := by
  simp [requestedPGN, h]

/-- **C08_nak_on_bus.** Composition with the send path: handing the NAK to `SendMsg` for a device with a valid
address, not claiming, on a node that may send, adds to the frames in flight (driver-accepted ++ queued) exactly
one frame — identifier: priority 6, PGN 59392, destination = requester, source = the DEVICE's address; DLC 8;
the payload above — or nothing when `SendMsg` reports failure (driver refused and the queue is full). -/
theorem C08_nak_on_bus (s : St) (i : Nat) (d : Dev) (r P : Nat) (hd : s.devs[i]? = some d)
    (hsrc : d.source ≤ 251) (hr : r < 256) (hl : s.listenOnly = false)
    (hnc : (isAddressClaimStarted s.flavor s.now d).2 = false) (hq : s.ring.WF)
    (hfp : isFastPacketPGN s.lists 59392 = false) :
    let res := sendMsg s (nakMsg r P) (some i)
    res.1.drv.sent ++ res.1.ring.abs = s.drv.sent ++ s.ring.abs ++
      (if res.2 then [⟨Spec.canId 6 59392 d.source r, 8, ackData 1 0xff P⟩] else []) := by
  have hes : C01.effSrc s (nakMsg r P) (some i) = d.source := by
    simp [C01.effSrc, hd]
  have hlt : i < s.devs.length := by
    rcases Nat.lt_or_ge i s.devs.length with h1 | h1
    · exact h1
    · rw [List.getElem?_eq_none h1] at hd; cases hd
  have hv : Spec.isPDU1 59392 = true → 59392 % 256 = 0 := fun _ => by decide
  have hid := C01.C01_id_layout 6 59392 d.source r (by decide) (by omega) hr hv
  have acc : C01.Accepted s (nakMsg r P) (some i) d (isAddressClaimStarted s.flavor s.now d).1 := by
    refine ⟨by simp; omega, by simpa using hd, ?_, ?_, hl, by simp [nakMsg], ?_⟩
    · rw [hes]; simp [Gen.maxCanBusAddress]; omega
    · rw [hes]
      show n2kToCanId 6 59392 d.source (if 59392 &&& 0xff ≠ 0 then 0xff else r) ≠ 0
      have : (59392 &&& 0xff) = 0 := by decide
      simp only [this, ne_eq, not_true_eq_false, ↓reduceIte]
      rw [hid.1]
      exact Send.canId_pos 6 59392 d.source r (by decide)
    · left
      exact Prod.ext rfl hnc
  have := C01.C01_single_frame s (nakMsg r P) (some i) d _ acc hq (by simp [nakMsg]) (by simp [nakMsg, ackData, le3])
    (by simp [nakMsg, hfp]) (by simp [nakMsg]) (by rw [hes]; omega) (by simp [nakMsg]; exact hr)
  simp only at this
  rw [hes] at this
  have hz : (59392 &&& 0xff) = 0 := by decide
  simpa [nakMsg, hz, ackData, le3] using this

example : ∃ s : St, ∃ d, s.devs[0]? = some d ∧ d.source ≤ 251 ∧ s.listenOnly = false ∧
    (isAddressClaimStarted s.flavor s.now d).2 = false ∧ s.ring.WF ∧ isFastPacketPGN s.lists 59392 = false :=
  ⟨C01.demoSt, C01.demoDev, rfl, by decide, by decide, by decide, by simp [Ring.WF, C01.demoSt], by decide⟩

/-- **C08_silent_while_claiming.** While the address claim of the addressed device is pending the request
produces nothing: no message is handed to `SendMsg`, the send queue and the driver are untouched. -/
theorem C08_silent_while_claiming (n : Node) (m : Msg) (h : Option Handler) (i : Nat) (d : Dev) (x : DevX)
    (hdst : m.dst ≠ 255) (hfind : findSourceDeviceIndex n.st.devs m.dst = some i)
    (hd : n.st.devs[i]? = some d) (hx : n.ext[i]? = some x)
    (hc : (isAddressClaimStarted n.st.flavor n.st.now d).2 = true) :
    (handleISORequest n m h).2 = [] ∧ (handleISORequest n m h).1.st.drv = n.st.drv ∧
    (handleISORequest n m h).1.st.ring = n.st.ring ∧ (handleISORequest n m h).1.ext = n.ext := by
  unfold handleISORequest
  rw [if_neg hdst, hfind]
  simp only [respond, hd, hx, hc, ↓reduceIte, and_self]

/-- the same for one device of a broadcast request: a claiming device contributes nothing to the answers -/
theorem C08_silent_while_claiming_broadcast (n : Node) (h : Option Handler) (r : Nat) (a : Bool) (p i : Nat) (d : Dev)
    (hd : n.st.devs[i]? = some d) (hc : (isAddressClaimStarted n.st.flavor n.st.now d).2 = true) :
    deviceAnswers n h r a p i = [] := by
  unfold deviceAnswers
  rw [hd]
  cases n.ext[i]? <;> simp [hc]

/-- **C08_broadcast_never_nak.** A broadcast request (destination 255) is answered by every device of the node,
in device order, each exactly as it would answer alone in the node's initial state (`deviceAnswers`: nothing
while claiming) — the answers of one device do not disturb those of the next — and no message handed to
`SendMsg` is a NAK of the library: each one is the claim, a PGN list, the product or the configuration
information, or one of the messages the application's handler sent. -/
theorem C08_broadcast_never_nak (n : Node) (m : Msg) (h : Option Handler) (hdst : m.dst = 255) :
    (handleISORequest n m h).2 =
      (List.range n.st.devs.length).flatMap (deviceAnswers n h m.src false (requestedPGN m)) ∧
    ∀ o ∈ (handleISORequest n m h).2,
      (o.msg.pgn = 60928 ∨ o.msg.pgn = 126464 ∨ o.msg.pgn = 126996 ∨ o.msg.pgn = 126998) ∨
      (∃ hd, h = some hd ∧ o.msg ∈ hd.sends (requestedPGN m) m.src o.dev) := by
  have hout : (handleISORequest n m h).2 =
      (List.range n.st.devs.length).flatMap (deviceAnswers n h m.src false (requestedPGN m)) := by
    unfold handleISORequest
    rw [if_pos hdst]
    exact (respondAll_out h m.src (requestedPGN m) _ n n (Same.refl n)).1
  refine ⟨hout, ?_⟩
  intro o ho
  rw [hout, List.mem_flatMap] at ho
  obtain ⟨i, _, ho⟩ := ho
  unfold deviceAnswers at ho
  cases hd : n.st.devs[i]? with
  | none => simp [hd] at ho
  | some d =>
    cases hx : n.ext[i]? with
    | none => simp [hd, hx] at ho
    | some x =>
      simp only [hd, hx] at ho
      by_cases hc : (isAddressClaimStarted n.st.flavor n.st.now d).2 = true
      · simp [hc] at ho
      · simp only [hc, Bool.false_eq_true, ↓reduceIte, answers] at ho
        by_cases h1 : requestedPGN m = 60928
        · simp only [h1, ↓reduceIte, List.mem_singleton] at ho; left; subst ho; simp [claimMsg]
        · simp only [h1, ↓reduceIte] at ho
          by_cases h2 : requestedPGN m = 126464
          · simp only [h2, ↓reduceIte, List.mem_cons, List.not_mem_nil, or_false] at ho
            left; rcases ho with ho | ho <;> subst ho <;> simp [txListMsg, rxListMsg, pgnListMsg]
          · simp only [h2, ↓reduceIte] at ho
            by_cases h3 : requestedPGN m = 126996
            · simp only [h3, ↓reduceIte] at ho
              cases hp : resolveProd n.ext i with
              | none => simp [hp] at ho
              | some p => simp only [hp, List.mem_singleton] at ho; left; subst ho; simp [productMsg]
            · simp only [h3, ↓reduceIte] at ho
              by_cases h4 : requestedPGN m = 126998 ∧ n.conf.any = true
              · simp only [h4, and_self, ↓reduceIte, List.mem_singleton] at ho; left; subst ho; simp [configMsg]
              · simp only [h4, ↓reduceIte, dfltAnswers] at ho
                right
                cases h with
                | none => simp at ho
                | some hd' =>
                  simp only [Bool.not_false, Bool.true_and, Bool.false_eq_true, ↓reduceIte, ite_self,
                    List.append_nil] at ho
                  by_cases hig : requestedPGN m ∈ Gen.ignoreBroadcastISORequest
                  · simp [hig] at ho
                  · simp only [List.contains_iff_mem, hig, ↓reduceIte, List.mem_map] at ho
                    obtain ⟨msg, hm, rfl⟩ := ho
                    exact ⟨hd', rfl, hm⟩

/-- **C08_broadcast_positive.** The answer of a device to a broadcast request is its answer to the same request
addressed to it, without the NAK: identical for the four mandatory PGNs; for other PGNs the handler's messages
(the handler is not consulted for the ten PGNs of the broadcast-ignore list), and nothing without a handler. -/
theorem C08_broadcast_positive (h : Option Handler) (conf : Config) (prod : Option Product) (r P i : Nat) (d : Dev) (x : DevX) :
    answers h conf prod r false P i d x =
      if P = 60928 ∨ P = 126464 ∨ P = 126996 ∨ (P = 126998 ∧ conf.any = true) then answers h conf prod r true P i d x
      else match h with
        | some hd => if Gen.ignoreBroadcastISORequest.contains P then [] else (hd.sends P r i).map (OutMsg.mk i)
        | none => [] := by
  unfold answers
  by_cases h1 : P = 60928
  · simp [h1]
  · by_cases h2 : P = 126464
    · simp [h2]
    · by_cases h3 : P = 126996
      · simp [h3]
      · by_cases h4 : P = 126998 ∧ conf.any = true
        · simp [h4]
        · simp only [h1, h2, h3, h4, ↓reduceIte, or_self, dfltAnswers]
          cases h with
          | none => simp
          | some hd => simp

/-- the ten PGNs for which a broadcast request is not passed to the application (regenerated from the source) -/
theorem C08_ignore_list : Gen.ignoreBroadcastISORequest =
    [127500, 130060, 130061, 130330, 130561, 130562, 130563, 130564, 130565, 130566] := by decide

/-! ## retry of refused product / configuration information -/

/-- **C08_retry (product information, arming).** `SendProductInformation` hands the product information to
`SendMsg`; the device's pending data afterwards are `afterProd`: on failure the timer is armed `187 + 8·source` ms
ahead and `HasPendingInformation` set, on success the timer is cleared and the flag recomputed from BOTH timers. -/
theorem C08_retry_product_armed (n : Node) (i : Nat) (d : Dev) (x : DevX) (p : Product)
    (hd : n.st.devs[i]? = some d) (hx : n.ext[i]? = some x) (hp : resolveProd n.ext i = some p) :
    (sendProductInformation n i).2 = [⟨i, productMsg d p⟩] ∧
    (sendProductInformation n i).1.ext[i]? =
      some (afterProd n.st (sendMsg n.st (productMsg d p) (some i)).2 d.source x) := by
  unfold sendProductInformation
  rw [hd, hp]
  exact ⟨rfl, finishProd_get _ _ _ _ _ hx⟩

/-- **C08_retry (configuration information, arming).** The same with `187 + 10·source` ms (`afterConf`). -/
theorem C08_retry_config_armed (n : Node) (i : Nat) (d : Dev) (x : DevX)
    (hd : n.st.devs[i]? = some d) (hx : n.ext[i]? = some x) :
    (sendConfigurationInformation n i).2 = [⟨i, confOrNak d n.conf⟩] ∧
    (sendConfigurationInformation n i).1.ext[i]? =
      some (afterConf n.st (sendMsg n.st (confOrNak d n.conf) (some i)).2 d.source x) := by
  unfold sendConfigurationInformation
  rw [hd]
  exact ⟨rfl, finishConf_get _ _ _ _ _ hx⟩

/-- what `afterProd` / `afterConf` are: a refused send arms `now + 187 + 8·source` (10·source) and sets the flag, the
other timer untouched; a successful send disables its own timer and leaves the flag equal to "the other timer is armed" -/
theorem C08_retry_delays (s : St) (src : Nat) (x : DevX) :
    ((afterProd s false src x).pendProd = Sched.fromNow s.flavor s.now (187 + src * 8) ∧
     (afterProd s false src x).hasPending = true ∧ (afterProd s false src x).pendConf = x.pendConf) ∧
    ((afterConf s false src x).pendConf = Sched.fromNow s.flavor s.now (187 + src * 10) ∧
     (afterConf s false src x).hasPending = true ∧ (afterConf s false src x).pendProd = x.pendProd) ∧
    ((afterProd s true src x).pendProd = Sched.disabled s.flavor ∧ (afterProd s true src x).pendConf = x.pendConf ∧
     (afterProd s true src x).hasPending = x.pendConf.isEnabled s.flavor) ∧
    ((afterConf s true src x).pendConf = Sched.disabled s.flavor ∧ (afterConf s true src x).pendProd = x.pendProd ∧
     (afterConf s true src x).hasPending = x.pendProd.isEnabled s.flavor) := by
  simp [afterProd, afterConf, updateHasPending, isEnabled_disabled]

/-- **C08_retry (poll).** A later `ParseMessages` (its `SendPendingInformation` step) whose clock has reached the
armed product-information timer hands the product information to `SendMsg` again, first thing for that device. -/
theorem C08_retry_poll_product (n : Node) (i : Nat) (d : Dev) (x : DevX) (p : Product)
    (hd : n.st.devs[i]? = some d) (hx : n.ext[i]? = some x) (hp : resolveProd n.ext i = some p)
    (hf : x.hasPending = true) (hdue : x.pendProd.isTime n.st.flavor n.st.now = true) :
    ∃ rest, (pendingDev n i).2 = ⟨i, productMsg d p⟩ :: rest := by
  unfold pendingDev
  simp only [andThen, hx, hf, hdue, ↓reduceIte, (C08_retry_product_armed n i d x p hd hx hp).1]
  exact ⟨_, rfl⟩

/-- The same for the configuration information (it follows the product information retry of that poll, if any). -/
theorem C08_retry_poll_config (n : Node) (i : Nat) (d : Dev) (x : DevX)
    (hd : n.st.devs[i]? = some d) (hx : n.ext[i]? = some x) (hf : x.hasPending = true)
    (h64 : n.st.flavor = .t64 → n.st.now < M64)
    (hdue : x.pendConf.isTime n.st.flavor n.st.now = true) :
    ∃ pre, (pendingDev n i).2 = pre ++ [⟨i, confOrNak d n.conf⟩] :=
  pendingDev_conf n i d x hd hx hf h64 hdue

/-- **C08_retry (both pending).** Product AND configuration information pending for the same device (both sends were
refused): a poll between the two deadlines — the product information is due (`187+8·src`), the configuration
information (`187+10·src`) is armed but not yet due — whatever `SendMsg` answers for the product information, leaves
the configuration timer armed and `HasPendingInformation` set; hence ONE poll at or after the later deadline, in
any later state `n'` of the node that carries these pending data, hands the configuration information to `SendMsg`.
(This is where a `UpdateHasPendingInformation` that forgets the configuration timer loses the answer for good.) -/
theorem C08_retry_both (n n' : Node) (i : Nat) (d' : Dev) (x : DevX) (hx : n.ext[i]? = some x)
    (hf : x.hasPending = true) (hen : x.pendConf.isEnabled n.st.flavor = true)
    (hnd : x.pendConf.isTime n.st.flavor n.st.now = false)
    (hlater : n'.ext[i]? = (pendingDev n i).1.ext[i]?) (hd' : n'.st.devs[i]? = some d')
    (h64 : n'.st.flavor = .t64 → n'.st.now < M64)
    (hdue : x.pendConf.isTime n'.st.flavor n'.st.now = true) :
    (∃ x', (pendingDev n i).1.ext[i]? = some x' ∧ x'.pendConf = x.pendConf ∧ x'.hasPending = true) ∧
    ∃ pre, (pendingDev n' i).2 = pre ++ [⟨i, confOrNak d' n'.conf⟩] := by
  obtain ⟨x', h1, h2, h3⟩ := pendingDev_keeps_conf n i x hx hf hen hnd
  refine ⟨⟨x', h1, h2, h3⟩, ?_⟩
  rw [h1] at hlater
  exact pendingDev_conf n' i d' x' hd' hlater h3 h64 (by rw [h2]; exact hdue)

/-- the flag is exact after every send attempt: it is set iff one of the two timers is armed (so a set timer is
never hidden from `SendPendingInformation`); 64-bit scheduler: the armed time is not the all-ones sentinel -/
theorem C08_retry_flag_exact (s : St) (ok : Bool) (src : Nat) (x : DevX)
    (h64 : s.flavor = .t64 → s.now + (187 + src * 10) < M64 - 1) :
    FlagOk s.flavor (afterProd s ok src x) ∧ FlagOk s.flavor (afterConf s ok src x) :=
  ⟨flagOk_afterProd s ok src x (fun h => by have := h64 h; omega), flagOk_afterConf s ok src x h64⟩

/-- … a device without the flag, or with neither timer due, is left alone. -/
theorem C08_retry_poll_idle (n : Node) (i : Nat) (x : DevX) (hx : n.ext[i]? = some x)
    (h : x.hasPending = false ∨
      (x.pendProd.isTime n.st.flavor n.st.now = false ∧ x.pendConf.isTime n.st.flavor n.st.now = false)) :
    pendingDev n i = (n, []) := by
  unfold pendingDev
  rcases h with h | ⟨h1, h2⟩
  · simp [hx, h]
  · by_cases hf : x.hasPending = true
    · simp [andThen, hx, hf, h1, h2]
    · simp [hx, hf]

/-- when the armed timer is due, 64-bit scheduler: strictly after `now + delay` -/
theorem C08_retry_due_t64 (now delay now' : Nat) (h : now + delay < M64) :
    (Sched.fromNow .t64 now delay).isTime .t64 now' = decide (now' > now + delay) :=
  isTime_fromNow_t64 now delay now' h

/-- 32-bit scheduler (any clock value, wrap-around included): not before `now + delay`, and from 1 ms after it
on for 2^31 ms -/
theorem C08_retry_due_t32 (now delay : Nat) (hk : delay < 2147483647) :
    (∀ j, j < delay → (Sched.fromNow .t32 now delay).isTime .t32 (now + j) = false) ∧
    (∀ e, 1 ≤ e → e < 2147483647 → (Sched.fromNow .t32 now delay).isTime .t32 (now + delay + e) = true) :=
  ⟨fun j hj => isTime_fromNow_t32_before now delay j hk hj, fun e h1 h2 => isTime_fromNow_t32_after now delay e h1 h2⟩

/-- **C08_retry (NAK).** A request for a PGN the library does not serve itself — whatever the handler does and
whether or not `SendMsg` accepts the NAK — leaves all pending timers as they were: a refused NAK is NOT retried
(this is what the code does; the property's "always answered" holds modulo a driver that refuses, see C11). -/
theorem C08_retry_nak_not_retried (n : Node) (m : Msg) (h : Option Handler) (i : Nat)
    (hdst : m.dst ≠ 255) (hfind : findSourceDeviceIndex n.st.devs m.dst = some i)
    (h1 : requestedPGN m ≠ 60928) (h2 : requestedPGN m ≠ 126464) (h3 : requestedPGN m ≠ 126996)
    (h4 : ¬ (requestedPGN m = 126998 ∧ n.conf.any = true)) :
    (handleISORequest n m h).1.ext = n.ext := by
  unfold handleISORequest
  rw [if_neg hdst, hfind]
  simp only [respond]
  cases hd : n.st.devs[i]? with
  | none => rfl
  | some d =>
    cases hx : n.ext[i]? with
    | none => rfl
    | some x =>
      simp only
      by_cases hc : (isAddressClaimStarted n.st.flavor n.st.now d).2 = true
      · rw [if_pos hc]
      · rw [if_neg hc]
        unfold answer
        rw [if_neg h1, if_neg h2, if_neg h3, if_neg h4, dflt_ext]

/-! ## content of the answers -/

/-- **C08_content (60928).** The claim is PGN 60928 to everybody, 8 bytes: the device's 64-bit NAME, little-endian. -/
theorem C08_content_claim (d : Dev) (h : d.name < 2^64) :
    (claimMsg d).pgn = 60928 ∧ (claimMsg d).dst = 255 ∧ (claimMsg d).len = 8 ∧ (claimMsg d).data.length = 8 ∧
    fromLE (claimMsg d).data = d.name := by
  refine ⟨rfl, rfl, rfl, by simp [claimMsg, le64], ?_⟩
  exact fromLE_le64 d.name h

/-- **C08_content (126464).** Both lists go to the requester: kind 0 with the default transmit PGNs followed by
the device's declared transmit PGNs, kind 1 with the default receive PGNs followed by the declared receive PGNs
(each cut to 74 entries). -/
theorem C08_content_pgn_lists (d : Dev) (x : DevX) (r : Nat)
    (htx : ∀ p ∈ d.txList, p < 2^24) (hrx : ∀ p ∈ x.rxList, p < 2^24) :
    ((txListMsg d r).pgn = 126464 ∧ (txListMsg d r).dst = r ∧ (txListMsg d r).data.head? = some 0 ∧
      decode3 (txListMsg d r).data.tail = (Gen.defTransmitMessages ++ d.txList).take 74 ∧
      (txListMsg d r).len = (txListMsg d r).data.length ∧ (txListMsg d r).len ≤ 223) ∧
    ((rxListMsg d x r).pgn = 126464 ∧ (rxListMsg d x r).dst = r ∧ (rxListMsg d x r).data.head? = some 1 ∧
      decode3 (rxListMsg d x r).data.tail = (Gen.defReceiveMessages ++ x.rxList).take 74 ∧
      (rxListMsg d x r).len = (rxListMsg d x r).data.length ∧ (rxListMsg d x r).len ≤ 223) := by
  have a := pgnList_content d r 0 Gen.defTransmitMessages d.txList defTx_small htx
  have b := pgnList_content d r 1 Gen.defReceiveMessages x.rxList defRx_small hrx
  exact ⟨⟨a.1, a.2.1, a.2.2.2.2.1, a.2.2.2.2.2.1, a.2.2.2.2.2.2.1, a.2.2.2.2.2.2.2⟩,
         ⟨b.1, b.2.1, b.2.2.2.2.1, b.2.2.2.2.2.1, b.2.2.2.2.2.2.1, b.2.2.2.2.2.2.2⟩⟩

/-- both builders of 126996 (RAM: `AddStr`; PROGMEM: the copy/fill loops) produce the same payload -/
theorem C08_product_builders_agree (p : Product) : productDataProgmem p = productDataRam p := by
  simp only [productDataProgmem, productDataRam, progStr_eq_fixStr]

/-- **C08_content (126996).** The product information is PGN 126996 to everybody, 134 bytes: NMEA 2000 version and
product code (16 bit little-endian), four 32-byte text fields — model id, software version, model version,
serial code: the configured strings cut to 32 characters and padded with 0xFF — then certification level and
load equivalency. The same for the RAM and the PROGMEM builder. -/
theorem C08_content_product (d : Dev) (p : Product) (hv : p.version < 65536) (hc : p.code < 65536)
    (hce : p.cert < 256) (hlo : p.load < 256)
    (h1 : ∀ b ∈ p.modelID, b ≠ 0xff) (h2 : ∀ b ∈ p.swCode, b ≠ 0xff) (h3 : ∀ b ∈ p.modelVersion, b ≠ 0xff)
    (h4 : ∀ b ∈ p.serial, b ≠ 0xff) :
    (productMsg d p).pgn = 126996 ∧ (productMsg d p).dst = 255 ∧ (productMsg d p).len = 134 ∧
    (productMsg d p).data.length = 134 ∧
    ∃ f1 f2 f3 f4 : List Nat,
      (productMsg d p).data = le2 p.version ++ le2 p.code ++ f1 ++ f2 ++ f3 ++ f4 ++ [p.cert, p.load] ∧
      f1.length = 32 ∧ f2.length = 32 ∧ f3.length = 32 ∧ f4.length = 32 ∧
      fromLE (le2 p.version) = p.version ∧ fromLE (le2 p.code) = p.code ∧
      unpad f1 = (cstr p.modelID).take 32 ∧ unpad f2 = (cstr p.swCode).take 32 ∧
      unpad f3 = (cstr p.modelVersion).take 32 ∧ unpad f4 = (cstr p.serial).take 32 := by
  have hdata : productData p = productDataRam p := by
    unfold productData; split
    · exact C08_product_builders_agree p
    · rfl
  have hl : (productData p).length = 134 := by
    rw [hdata]; simp [productDataRam, length_fixStr, le2]
  refine ⟨rfl, rfl, hl, hl, fixStr p.modelID 32, fixStr p.swCode 32, fixStr p.modelVersion 32, fixStr p.serial 32, ?_,
    length_fixStr _ _, length_fixStr _ _, length_fixStr _ _, length_fixStr _ _, fromLE_le2 _ hv, fromLE_le2 _ hc,
    unpad_fixStr _ _ h1, unpad_fixStr _ _ h2, unpad_fixStr _ _ h3, unpad_fixStr _ _ h4⟩
  show productData p = _
  rw [hdata, productDataRam, Nat.mod_eq_of_lt hce, Nat.mod_eq_of_lt hlo]

/-- **C08_content (126998).** The configuration information is PGN 126998 to everybody: three variable-length
text fields `[length+2, 1 (ASCII), characters]` — installation description 1, installation description 2,
manufacturer information, each the configured string cut to 71 bytes (`Max_N2kConfigurationInfoField_len`; RAM
copies made by `SetConfigurationInformation` hold at most 70), a null pointer giving the empty field `[2,1]` —
and nothing else; at most 219 bytes. (7-bit strings: the model of `AddVarStr` covers the non-Unicode path.) -/
theorem C08_content_config (d : Dev) (c : Config) :
    (configMsg d c).pgn = 126998 ∧ (configMsg d c).dst = 255 ∧ (configMsg d c).len = (configMsg d c).data.length ∧
    (configMsg d c).len ≤ 219 ∧
    ∃ r1 r2 : List Nat,
      parseVar (configMsg d c).data = some (1, (optCstr c.inst1).take 71, r1) ∧
      parseVar r1 = some (1, (optCstr c.inst2).take 71, r2) ∧
      parseVar r2 = some (1, (optCstr c.manuf).take 71, []) := by
  have la := length_varStr 0 c.inst1 (by omega)
  have lb := length_varStr (varStr 0 c.inst1 MaxConfigField).length c.inst2 (by rw [la]; omega)
  have hu3 : (varStr 0 c.inst1 MaxConfigField).length +
      (varStr (varStr 0 c.inst1 MaxConfigField).length c.inst2 MaxConfigField).length ≤ 150 := by
    rw [lb, la]; omega
  have lc := length_varStr _ c.manuf hu3
  have ea := varStr_eq 0 c.inst1 (by omega)
  have eb := varStr_eq (varStr 0 c.inst1 MaxConfigField).length c.inst2 (by rw [la]; omega)
  have ec := varStr_eq _ c.manuf hu3
  refine ⟨rfl, rfl, rfl, ?_, ?_⟩
  · show (configData c).length ≤ 219
    simp only [configData, List.length_append]
    rw [lc, lb, la]; omega
  · refine ⟨varStr (varStr 0 c.inst1 MaxConfigField).length c.inst2 MaxConfigField ++
        varStr ((varStr 0 c.inst1 MaxConfigField).length +
          (varStr (varStr 0 c.inst1 MaxConfigField).length c.inst2 MaxConfigField).length) c.manuf MaxConfigField,
      varStr ((varStr 0 c.inst1 MaxConfigField).length +
          (varStr (varStr 0 c.inst1 MaxConfigField).length c.inst2 MaxConfigField).length) c.manuf MaxConfigField,
      ?_, ?_, ?_⟩
    · show parseVar (configData c) = _
      simp only [configData, List.append_assoc]
      rw [ea]
      exact parseVar_field _ _
    · rw [eb]
      exact parseVar_field _ _
    · rw [ec]
      have := parseVar_field (optCstr c.manuf) []
      rwa [List.append_nil] at this

/-! ## histories: every request is answered, also while earlier answers are pending -/

/-- **C08_every_request_answered_partial.** Run level, over EVERY history `evs` of the node model (`Ev`: polls that
receive an ISO request for any PGN, to any destination, from any source; empty polls; clock advances; the driver
changing its accept/refuse decisions; devices starting address claims) from ANY state `n0` — so also while earlier
answers are still pending — and for every request event in it (`evs = pre ++ rq m :: post`; `s` = the node state in
which the request is handled, i.e. after that poll's `SendFrames` and `SendPendingInformation`):

* the list of everything the history hands to `SendMsg` contains, at that event and as one contiguous block, exactly
  the specified answer and nothing else for this request —
  addressed to device `i`: `deviceAnswers s … true P i` = nothing while `i`'s claim is pending, otherwise the requested
  data (claim / both lists / product / configuration information / the handler's messages) or exactly one NAK naming
  `P` for the requester (`C08_addressed_answered`, `C08_nak_format` spell the block out);
  broadcast: the blocks of all devices in order, none of which contains a NAK of the library;
* a request for another node's address draws nothing.

What is MISSING for the full statement (hence `_partial`): this is the message level — "handed to `SendMsg`". That an
accepting driver with an empty queue puts the answer on the bus at once is `C08_answer_on_bus_partial` for the
single-frame answers (address claim, NAK); for the fast-packet answers it is C01's per-message theorem, not composed
with the history; the delayed case is `C08_owed_product_*` / `C08_owed_config_*` below, whose fairness hypothesis speaks about the retry
timer being due at a poll, not about the driver;
"nothing is answered twice" is proved as "one block per request" here plus `C08_no_retry_after_success`, not as a
count over the frames on the bus (a fast packet cut by a refusal is repeated in full by the retry). -/
theorem C08_every_request_answered_partial (h : Option Handler) (n0 : Node) (pre post : List Ev) (m : Msg)
    (hmode : (rqState (run h n0 pre).1).1.st.claimMode = true) :
    ∃ before after : List OutMsg,
      (run h n0 (pre ++ Ev.rq m :: post)).2 = before ++ (handleISORequest (rqState (run h n0 pre).1).1 m h).2 ++ after ∧
      (∀ i, m.dst ≠ 255 → findSourceDeviceIndex (rqState (run h n0 pre).1).1.st.devs m.dst = some i →
        (handleISORequest (rqState (run h n0 pre).1).1 m h).2 =
          deviceAnswers (rqState (run h n0 pre).1).1 h m.src true (requestedPGN m) i) ∧
      (m.dst ≠ 255 → findSourceDeviceIndex (rqState (run h n0 pre).1).1.st.devs m.dst = none →
        (handleISORequest (rqState (run h n0 pre).1).1 m h).2 = []) ∧
      (m.dst = 255 →
        (handleISORequest (rqState (run h n0 pre).1).1 m h).2 =
          (List.range (rqState (run h n0 pre).1).1.st.devs.length).flatMap
            (deviceAnswers (rqState (run h n0 pre).1).1 h m.src false (requestedPGN m)) ∧
        ∀ o ∈ (handleISORequest (rqState (run h n0 pre).1).1 m h).2,
          (o.msg.pgn = 60928 ∨ o.msg.pgn = 126464 ∨ o.msg.pgn = 126996 ∨ o.msg.pgn = 126998) ∨
          (∃ hd, h = some hd ∧ o.msg ∈ hd.sends (requestedPGN m) m.src o.dev)) := by
  refine ⟨(run h n0 pre).2 ++ (rqState (run h n0 pre).1).2,
    (run h (step h (run h n0 pre).1 (Ev.rq m)).1 post).2, ?_, ?_, ?_, ?_⟩
  · rw [run_append]
    simp only [run, step, pollRq_out, handleReceived, hmode, ↓reduceIte, List.append_assoc]
  · intro i hdst hfind
    unfold handleISORequest
    rw [if_neg hdst, hfind]
    exact respond_out _ _ _ _ _ _
  · intro hdst hfind
    unfold handleISORequest
    rw [if_neg hdst, hfind]
  · intro hdst
    exact C08_broadcast_never_nak _ m h hdst

/-- **C08_refused_product_arms.** The delayed case begins: an addressed request for 126996 to a device that is not
claiming leaves the device's pending data as `afterProd … ok …`, `ok` = what `SendMsg` answered for the product
information; so a refused hand-over (`ok = false`) establishes `Inv`: the retry timer holds `now + 187 + 8·source`
and the device is flagged. -/
theorem C08_refused_product_arms (n : Node) (m : Msg) (h : Option Handler) (i : Nat) (d : Dev) (x : DevX) (p : Product)
    (hdst : m.dst ≠ 255) (hfind : findSourceDeviceIndex n.st.devs m.dst = some i)
    (hd : n.st.devs[i]? = some d) (hx : n.ext[i]? = some x)
    (hnc : (isAddressClaimStarted n.st.flavor n.st.now d).2 = false)
    (hP : requestedPGN m = 126996) (hp : resolveProd n.ext i = some p)
    (href : (sendMsg { n.st with devs := updDev n.st.devs i (isAddressClaimStarted n.st.flavor n.st.now d).1 }
              (productMsg (isAddressClaimStarted n.st.flavor n.st.now d).1 p) (some i)).2 = false) :
    Inv n.st.flavor i (Sched.fromNow n.st.flavor n.st.now (187 + d.source * 8)) (handleISORequest n m h).1 := by
  unfold handleISORequest
  rw [if_neg hdst, hfind]
  simp only [respond, hd, hx, hnc, Bool.false_eq_true, ↓reduceIte]
  unfold answer
  rw [hP, if_neg (by decide), if_neg (by decide), if_pos rfl]
  have hd1 := getElem?_updDev_self n.st.devs i d (isAddressClaimStarted n.st.flavor n.st.now d).1 hd
  unfold sendProductInformation
  simp only [hd1, hp]
  refine ⟨?_, afterProd n.st false d.source x, ?_, by simp [afterProd], by simp [afterProd]⟩
  · exact (finishProd_same _ _ _ _).1.1
  · have := finishProd_get { n with st := { n.st with devs := updDev n.st.devs i (isAddressClaimStarted n.st.flavor n.st.now d).1 } }
      i (isAddressClaimStarted n.st.flavor n.st.now d).1.source
      (productMsg (isAddressClaimStarted n.st.flavor n.st.now d).1 p) x hx
    rw [href] at this
    rw [ics_source] at this ⊢
    simp only [afterProd] at this ⊢
    exact this

/-- **C08_refused_config_arms.** The twin for the configuration information: an addressed request for 126998 (something
being configured) to a device that is not claiming, whose hand-over `SendMsg` refuses, establishes `InvC`: the retry
timer holds `now + 187 + 10·source` and the device is flagged. -/
theorem C08_refused_config_arms (n : Node) (m : Msg) (h : Option Handler) (i : Nat) (d : Dev) (x : DevX)
    (hdst : m.dst ≠ 255) (hfind : findSourceDeviceIndex n.st.devs m.dst = some i)
    (hd : n.st.devs[i]? = some d) (hx : n.ext[i]? = some x)
    (hnc : (isAddressClaimStarted n.st.flavor n.st.now d).2 = false)
    (hP : requestedPGN m = 126998) (hany : n.conf.any = true)
    (href : (sendMsg { n.st with devs := updDev n.st.devs i (isAddressClaimStarted n.st.flavor n.st.now d).1 }
              (configMsg (isAddressClaimStarted n.st.flavor n.st.now d).1 n.conf) (some i)).2 = false) :
    InvC n.st.flavor i (Sched.fromNow n.st.flavor n.st.now (187 + d.source * 10)) (handleISORequest n m h).1 := by
  unfold handleISORequest
  rw [if_neg hdst, hfind]
  simp only [respond, hd, hx, hnc, Bool.false_eq_true, ↓reduceIte]
  unfold answer
  rw [hP, if_neg (by decide), if_neg (by decide), if_neg (by decide), if_pos ⟨rfl, hany⟩]
  have hd1 := getElem?_updDev_self n.st.devs i d (isAddressClaimStarted n.st.flavor n.st.now d).1 hd
  unfold sendConfigurationInformation
  simp only [hd1]
  have hcn : confOrNak (isAddressClaimStarted n.st.flavor n.st.now d).1 n.conf =
      configMsg (isAddressClaimStarted n.st.flavor n.st.now d).1 n.conf := by simp [confOrNak, hany]
  refine ⟨?_, afterConf n.st false d.source x, ?_, by simp [afterConf], by simp [afterConf]⟩
  · exact (finishConf_same _ _ _ _).1.1
  · have := finishConf_get { n with st := { n.st with devs := updDev n.st.devs i (isAddressClaimStarted n.st.flavor n.st.now d).1 } }
      i (isAddressClaimStarted n.st.flavor n.st.now d).1.source
      (confOrNak (isAddressClaimStarted n.st.flavor n.st.now d).1 n.conf) x hx
    rw [hcn] at this ⊢
    rw [href] at this
    rw [ics_source] at this ⊢
    simp only [afterConf] at this ⊢
    exact this

/-- **C08_answer_on_bus_partial.** One level below the message level, for the single-frame answers: when the request is
handled in a state whose driver accepts and whose send queue is empty (`Accepting`), on a node that may send, by a device
with a valid address that is not claiming, then
* a request for 60928 puts exactly one more frame at the driver: identifier priority 6 / PGN 60928 / destination 255 /
  source = the device's address, DLC 8, the NAME little-endian;
* a request for a PGN the library does not serve, no handler installed, puts exactly one more frame at the driver:
  priority 6 / PGN 59392 / destination = requester / source = the device's address, DLC 8, `01 FF FF FF FF` + the PGN;
and the node is still `Accepting` afterwards (so the next request of the history finds the same situation).
MISSING (hence `_partial`): the fast-packet answers (126464, 126996, 126998) — their frames are C01's
`C01_fast_packet_stream` per message, not composed here — and handler-sent messages. -/
theorem C08_answer_on_bus_partial (n : Node) (m : Msg) (i : Nat) (d : Dev) (x : DevX)
    (hdst : m.dst ≠ 255) (hfind : findSourceDeviceIndex n.st.devs m.dst = some i)
    (hd : n.st.devs[i]? = some d) (hx : n.ext[i]? = some x)
    (hnc : (isAddressClaimStarted n.st.flavor n.st.now d).2 = false)
    (hsrc : d.source ≤ 251) (hr : m.src < 256) (hl : n.st.listenOnly = false) (hacc : Accepting n.st) :
    (requestedPGN m = 60928 → isFastPacketPGN n.st.lists 60928 = false → ∀ h,
      (handleISORequest n m h).1.st.drv.sent = n.st.drv.sent ++ [⟨Spec.canId 6 60928 d.source 255, 8, le64 d.name⟩] ∧
      Accepting (handleISORequest n m h).1.st) ∧
    (requestedPGN m ≠ 60928 → requestedPGN m ≠ 126464 → requestedPGN m ≠ 126996 →
      ¬ (requestedPGN m = 126998 ∧ n.conf.any = true) → isFastPacketPGN n.st.lists 59392 = false →
      (handleISORequest n m none).1.st.drv.sent =
        n.st.drv.sent ++ [⟨Spec.canId 6 59392 d.source m.src, 8, ackData 1 0xff (requestedPGN m)⟩] ∧
      Accepting (handleISORequest n m none).1.st) := by
  have hd1 := getElem?_updDev_self n.st.devs i d (isAddressClaimStarted n.st.flavor n.st.now d).1 hd
  have hnc1 : (isAddressClaimStarted n.st.flavor n.st.now (isAddressClaimStarted n.st.flavor n.st.now d).1).2 = false := by
    rw [ics_idem]; exact hnc
  have hs1 : (isAddressClaimStarted n.st.flavor n.st.now d).1.source ≤ 251 := by rw [ics_source]; exact hsrc
  constructor
  · intro hP hfp h
    have key := sendMsg_single_accepting
      { n.st with devs := updDev n.st.devs i (isAddressClaimStarted n.st.flavor n.st.now d).1 }
      (claimMsg (isAddressClaimStarted n.st.flavor n.st.now d).1) i _ hd1 hs1 (by simp [claimMsg]) hl hnc1 hacc
      (by simp [claimMsg]) hfp (by simp [claimMsg]) (by simp [claimMsg]) (fun _ => by simp [claimMsg])
    unfold handleISORequest
    rw [if_neg hdst, hfind]
    simp only [respond, hd, hx, hnc, Bool.false_eq_true, ↓reduceIte]
    unfold answer
    rw [hP, if_pos rfl]
    refine ⟨?_, key.2.2.1⟩
    show (sendMsg _ _ (some i)).1.drv.sent = _
    rw [key.2.1]
    have hz : (60928 &&& 0xff) = 0 := by decide
    simp [claimMsg, hz, ics_source, ics_name, le64, range8]
  · intro h1 h2 h3 h4 hfp
    have key := sendMsg_single_accepting
      { n.st with devs := updDev n.st.devs i (isAddressClaimStarted n.st.flavor n.st.now d).1 }
      (nakMsg m.src (requestedPGN m)) i _ hd1 hs1 (by simp [nakMsg]; exact hr) hl hnc1 hacc
      (by simp [nakMsg]) hfp (by simp [nakMsg]) (by simp [nakMsg]) (fun _ => by simp [nakMsg])
    unfold handleISORequest
    rw [if_neg hdst, hfind]
    simp only [respond, hd, hx, hnc, Bool.false_eq_true, ↓reduceIte]
    unfold answer
    rw [if_neg h1, if_neg h2, if_neg h3, if_neg h4]
    simp only [dflt, ↓reduceIte]
    refine ⟨?_, key.2.2.1⟩
    show (sendMsg _ _ (some i)).1.drv.sent = _
    rw [key.2.1]
    have hz : (59392 &&& 0xff) = 0 := by decide
    simp [nakMsg, hz, ics_source, ackData, le3]

/-- **C08_owed_product_invariant.** While the product information of device `i` is owed (`Inv`: its retry timer is
armed with `v` and the device is flagged), NO history can lose it: after any events — further requests to this or other
devices, for any PGN, answered or refused, configuration-information retries, polls, clock advances, driver changes,
address claims — either the product information of device `i` has been handed to `SendMsg` again (`Sent`), or the
timer is still armed with `v` and the flag still set. -/
theorem C08_owed_product_invariant (f : Flavor) (i : Nat) (v : Sched) (hen : v.isEnabled f = true)
    (h : Option Handler) (evs : List Ev) (n : Node) (hi : Inv f i v n) :
    Sent i (run h n evs).2 ∨ Inv f i v (run h n evs).1 :=
  good_run hen h evs n hi

/-- **C08_owed_product_answered.** Fairness, stated explicitly: IF the history contains a `ParseMessages()` (`e`: an
empty poll or one that receives any request) at a moment when the armed timer is due (`v.isTime`; for
`v = now₀ + 187 + 8·source` see `C08_retry_due_t64/_t32`) — the device and its product information still existing
there — THEN the owed product information is handed to `SendMsg` within the history, at that poll at the latest. (Whether
that attempt reaches the bus is again the driver's decision; if it is refused, `C08_retry_product_armed` re-arms the
timer and this theorem applies again.) -/
theorem C08_owed_product_answered (f : Flavor) (i : Nat) (v : Sched) (hen : v.isEnabled f = true)
    (h : Option Handler) (mid rest : List Ev) (e : Ev) (n : Node) (hi : Inv f i v n)
    (he : e = Ev.poll ∨ ∃ m, e = Ev.rq m)
    (hdue : v.isTime f (run h n mid).1.st.now = true)
    (hd : ∃ d, (run h n mid).1.st.devs[i]? = some d) (hp : ∃ p, resolveProd (run h n mid).1.ext i = some p) :
    Sent i (run h n (mid ++ e :: rest)).2 := by
  rw [run_append]
  rcases good_run hen h mid n hi with h1 | h1
  · exact Sent.left _ h1
  · apply Sent.right
    show Sent i ((step h (run h n mid).1 e).2 ++ _)
    apply Sent.left
    rcases he with rfl | ⟨m, rfl⟩
    · exact sent_poll hen _ _ h1 hdue hd hp
    · exact sent_poll hen _ _ h1 hdue hd hp

/-- **C08_owed_config_invariant / _answered.** The same for the configuration information (`InvC`: timer `v`, armed by a
refused hand-over with `now + 187 + 10·source`, see `C08_retry_config_armed`): no history loses it — in particular not
the product-information retry that comes first (`C08_retry_both`) — and a `ParseMessages()` at which the timer is due
hands it to `SendMsg` again (`SentC`: the configuration information, or its "not available" if the configuration was
removed meanwhile). -/
theorem C08_owed_config_invariant (f : Flavor) (i : Nat) (v : Sched) (hen : v.isEnabled f = true)
    (h : Option Handler) (evs : List Ev) (n : Node) (hi : InvC f i v n) :
    SentC i (run h n evs).2 ∨ InvC f i v (run h n evs).1 :=
  goodC_run hen h evs n hi

theorem C08_owed_config_answered (f : Flavor) (i : Nat) (v : Sched) (hen : v.isEnabled f = true)
    (h : Option Handler) (mid rest : List Ev) (e : Ev) (n : Node) (hi : InvC f i v n)
    (he : e = Ev.poll ∨ ∃ m, e = Ev.rq m)
    (hdue : v.isTime f (run h n mid).1.st.now = true)
    (hd : ∃ d, (run h n mid).1.st.devs[i]? = some d) :
    SentC i (run h n (mid ++ e :: rest)).2 := by
  rw [run_append]
  rcases goodC_run hen h mid n hi with h1 | h1
  · exact SentC.left _ h1
  · apply SentC.right
    show SentC i ((step h (run h n mid).1 e).2 ++ _)
    apply SentC.left
    rcases he with rfl | ⟨m, rfl⟩
    · exact sentC_poll hen _ _ h1 hdue hd
    · exact sentC_poll hen _ _ h1 hdue hd

/-- **C08_no_retry_after_success.** Nothing is answered twice by the retry machinery: a successful hand-over clears the
timer (`C08_retry_delays`), a cleared timer is never due (64-bit scheduler: clock below 2^64), and a device whose two
timers are not due is left alone by `SendPendingInformation` (`C08_retry_poll_idle`). -/
theorem C08_no_retry_after_success (f : Flavor) (now : Nat) (h64 : f = .t64 → now < M64) :
    (Sched.disabled f).isTime f now = false := by
  cases f with
  | t32 => simp [Sched.isTime, Sched.disabled]
  | t64 =>
    have := h64 rfl
    simp only [Sched.isTime, Sched.disabled, disabledVal, M64] at *
    simp; omega

/-! ## the hypotheses are satisfiable: a concrete node -/

def demoDev : Dev :=
  { source := 34, name := 0xc0328200fa0003e8, claimTimer := Sched.disabled .t64, endSource := 33, txList := [129029] }
def demoProd : Product :=
  { version := 2101, code := 666, modelID := [77, 49], swCode := [49], modelVersion := [50], serial := [51], cert := 1, load := 2 }
def demoX : DevX :=
  { rxList := [130306], prod := some demoProd, pendProd := Sched.disabled .t64, pendConf := Sched.disabled .t64 }
def demoSt : St :=
  { flavor := .t64, now := 5000, listenOnly := false, claimMode := true, lists := {}, devs := [demoDev],
    ring := { n := 40, buf := fun _ => ⟨0, 0, []⟩, read := 0, write := 0 },
    drv := { script := [], dflt := true, sent := [] } }
def demoNode : Node := { st := demoSt, ext := [demoX], conf := { manuf := some [78, 50, 75] } }
def demoRq (dst pgn : Nat) : Msg := { prio := 6, pgn := 59904, src := 7, dst := dst, len := 3, data := le3 pgn }
/-- the same node 100 ms after device 0 started an address claim -/
def claimingNode : Node :=
  { demoNode with st := { demoSt with devs := [{ demoDev with claimTimer := Sched.fromNow .t64 4900 250 }] } }

-- C08_addressed_device / C08_addressed_answered / C08_retry_nak_not_retried
example : findSourceDeviceIndex demoNode.st.devs (demoRq 34 4711).dst = some 0 := by decide
example : (isAddressClaimStarted demoNode.st.flavor demoNode.st.now demoDev).2 = false := by decide
example : requestedPGN (demoRq 34 4711) = 4711 := by decide
example : ((handleISORequest demoNode (demoRq 34 4711) none).2.map fun o => (o.dev, o.msg.pgn, o.msg.dst, o.msg.data)) =
    [(0, 59392, 7, [1, 255, 255, 255, 255, 103, 18, 0])] := by decide
-- the NAK reaches the driver with the device's address as source
example : (handleISORequest demoNode (demoRq 34 4711) none).1.st.drv.sent =
    [⟨0x18E80722, 8, [1, 255, 255, 255, 255, 103, 18, 0]⟩] := by decide
-- C08_answer_on_bus_partial: the demo node accepts, its queue is empty, 59392/60928 are not declared fast packet
example : Accepting demoNode.st ∧ isFastPacketPGN demoNode.st.lists 59392 = false ∧
    isFastPacketPGN demoNode.st.lists 60928 = false ∧ demoDev.source ≤ 251 ∧ demoNode.st.listenOnly = false :=
  ⟨⟨rfl, rfl, rfl⟩, by decide, by decide, by decide, rfl⟩
-- C08_nak_format
example : (3 ≤ (demoRq 34 4711).len ∧ (demoRq 34 4711).len ≤ 8) ∧ (demoRq 34 4711).data = 103 :: 18 :: 0 :: [] := by decide
-- C08_silent_while_claiming
example : findSourceDeviceIndex claimingNode.st.devs 34 = some 0 ∧
    (isAddressClaimStarted claimingNode.st.flavor claimingNode.st.now { demoDev with claimTimer := Sched.fromNow .t64 4900 250 }).2 = true := by decide
-- C08_broadcast_never_nak: the broadcast request for an unknown PGN draws nothing, the one for 60928 the claim
example : (handleISORequest demoNode (demoRq 255 4711) none).2.length = 0 := by decide
example : ((handleISORequest demoNode (demoRq 255 60928) none).2.map fun o => o.msg.pgn) = [60928] := by decide
-- C08_retry_*: a driver that refuses and a full queue make the product information send fail
def refusingNode : Node :=
  { demoNode with st := { demoSt with drv := { script := [], dflt := false, sent := [] },
                                       ring := { n := 2, buf := fun _ => ⟨0, 0, []⟩, read := 0, write := 0 } } }
example : resolveProd refusingNode.ext 0 = some demoProd := rfl
set_option maxRecDepth 8000 in
example : (sendMsg refusingNode.st (productMsg demoDev demoProd) (some 0)).2 = false := by decide
example : (Sched.fromNow .t64 5000 (187 + 34 * 8)).isTime .t64 5460 = true := by decide
-- C08_content_*
example : demoDev.name < 2^64 ∧ (∀ p ∈ demoDev.txList, p < 2^24) ∧ (∀ b ∈ demoProd.modelID, b ≠ 0xff) := by decide

-- C08_every_request_answered_partial / C08_owed_product_*: two requests while the driver refuses (2-slot queue), then
-- the driver accepts and a poll comes after both retry times: both answers are handed over again
def demoHistory : List Ev :=
  [Ev.rq (demoRq 34 126996), Ev.rq (demoRq 34 126998), Ev.drv [] true, Ev.tick 600, Ev.poll]
set_option maxRecDepth 100000 in
example : ((run none refusingNode demoHistory).2.map fun o => (o.dev, o.msg.pgn)) =
    [(0, 126996), (0, 126998), (0, 126996), (0, 126998)] := by decide +kernel
set_option maxRecDepth 100000 in
example : (rqState refusingNode).1.st.claimMode = true ∧
    findSourceDeviceIndex (rqState refusingNode).1.st.devs (demoRq 34 126996).dst = some 0 := by decide +kernel
set_option maxRecDepth 100000 in
example : Inv .t64 0 (Sched.fromNow .t64 5000 (187 + 34 * 8)) (run none refusingNode [Ev.rq (demoRq 34 126996)]).1 :=
  ⟨by decide +kernel, _, rfl, by decide +kernel, by decide +kernel⟩
set_option maxRecDepth 100000 in
example : InvC .t64 0 (Sched.fromNow .t64 5000 (187 + 34 * 10))
    (run none refusingNode [Ev.rq (demoRq 34 126996), Ev.rq (demoRq 34 126998)]).1 :=
  ⟨by decide +kernel, _, rfl, by decide +kernel, by decide +kernel⟩
example : (Sched.fromNow .t64 5000 (187 + 34 * 8)).isEnabled .t64 = true ∧
    (Sched.fromNow .t64 5000 (187 + 34 * 8)).isTime .t64 5600 = true := by decide

end N2k.C08
