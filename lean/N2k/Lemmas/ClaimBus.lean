/-!
# Abstract address-claim bus: uniqueness at quiescence for any number of nodes

(moved in from `notes/feasibility/C03_bus_invariant_prototype.lean` and generalised to nodes with several
claimants and per-receiver decoding)

A node has a list of claimants `(NAME, address)` and an inbox of pending claims. The invariant: two claimants on
*different* nodes that hold the same valid address always have a claim of one of them pending in the other's
inbox. It is preserved by any step in which the acting node announces (to every other node that has claimants)
each of its claimants that is new, changed, or holds the address of the claim it consumed.
-/
namespace N2k.ClaimBus

abbrev Claim := Nat × Nat     -- (NAME, address)

structure ASys where
  n : Nat
  cl : Nat → List Claim        -- the claimants node i has on the bus
  inbox : Nat → List Claim     -- pending claims at node i, oldest first

def Inv (s : ASys) : Prop :=
  ∀ i j, i < s.n → j < s.n → i ≠ j → ∀ c ∈ s.cl i, ∀ c' ∈ s.cl j, c.2 = c'.2 → c.2 < 252 →
    c ∈ s.inbox j ∨ c' ∈ s.inbox i

theorem unique_at_quiescence (s : ASys) (hI : Inv s) (hq : ∀ i, i < s.n → s.inbox i = [])
    (i j : Nat) (hi : i < s.n) (hj : j < s.n) (hij : i ≠ j) (c c' : Claim) (hc : c ∈ s.cl i) (hc' : c' ∈ s.cl j)
    (ha : c.2 < 252) : c.2 ≠ c'.2 := by
  intro he
  rcases hI i j hi hj hij c hc c' hc' he ha with h | h
  · rw [hq j hj] at h; cases h
  · rw [hq i hi] at h; cases h

/-- **one step of node `i`** (relational form). `m` is the claim it consumed from its inbox, if any.
Contract: every claimant of `i` after the step that holds a valid address is either pending at every other node
that has claimants, or was a claimant before and does not hold the address of the consumed claim. -/
theorem inv_step (s s' : ASys) (i : Nat) (m : Option Claim)
    (hn : s'.n = s.n)
    (hcl : ∀ j, j ≠ i → s'.cl j = s.cl j)
    (hgrow : ∀ j, j ≠ i → ∀ c ∈ s.inbox j, c ∈ s'.inbox j)
    (hinb : ∀ c ∈ s.inbox i, c ∈ s'.inbox i ∨ m = some c)
    (hc : ∀ c ∈ s'.cl i, c.2 < 252 →
        (∀ j, j ≠ i → j < s.n → s.cl j ≠ [] → c ∈ s'.inbox j) ∨
        (c ∈ s.cl i ∧ ∀ m', m = some m' → m'.2 ≠ c.2))
    (hI : Inv s) : Inv s' := by
  intro x y hx hy hxy c hcx c' hcy he ha
  rw [hn] at hx hy
  by_cases hxi : x = i
  · subst hxi
    have hyx : y ≠ x := fun h => hxy h.symm
    rw [hcl y hyx] at hcy
    rcases hc c hcx ha with hann | ⟨hold, hne⟩
    · left; exact hann y hyx hy (List.ne_nil_of_mem hcy)
    · rcases hI x y hx hy hxy c hold c' hcy he ha with h | h
      · left; exact hgrow y hyx c h
      · rcases hinb c' h with h | h
        · right; exact h
        · exact absurd he.symm (hne c' h)
  · by_cases hyi : y = i
    · subst hyi
      rw [hcl x hxi] at hcx
      have ha' : c'.2 < 252 := by rw [← he]; exact ha
      rcases hc c' hcy ha' with hann | ⟨hold, hne⟩
      · right; exact hann x hxi hx (List.ne_nil_of_mem hcx)
      · rcases hI x y hx hy hxy c hcx c' hold he ha with h | h
        · rcases hinb c h with h | h
          · left; exact h
          · exact absurd he (hne c h)
        · right; exact hgrow x hxi c' h
    · rw [hcl x hxi] at hcx
      rw [hcl y hyi] at hcy
      rcases hI x y hx hy hxy c hcx c' hcy he ha with h | h
      · left; exact hgrow y hyi c h
      · right; exact hgrow x hxi c' h

/-! ## the two abstract moves of the prototype, as instances of `inv_step` -/

def setNode (s : ASys) (i : Nat) (cl inb : List Claim) : ASys :=
  { s with cl := fun j => if j = i then cl else s.cl j, inbox := fun j => if j = i then inb else s.inbox j }

/-- atomic broadcast of the claims `out` by node `i` to every other node -/
def bcast (s : ASys) (i : Nat) (out : List Claim) : ASys :=
  { s with inbox := fun j => if j = i then s.inbox j else s.inbox j ++ out }

/-- node `i` (one claimant) takes address `a` (open/restart, lost arbitration, commanded address) and claims it -/
theorem inv_move (s : ASys) (hI : Inv s) (i : Nat) (nm a : Nat) :
    Inv (bcast (setNode s i [(nm, a)] (s.inbox i)) i [(nm, a)]) := by
  refine inv_step s _ i none rfl ?_ ?_ ?_ ?_ hI
  · intro j hj; simp [bcast, setNode, hj]
  · intro j hj c h; simp [bcast, setNode, hj, h]
  · intro c h; left; simpa [bcast, setNode] using h
  · intro c h _; left; intro j hj _ _
    have h' : c = (nm, a) := by simpa [bcast, setNode] using h
    simp [bcast, setNode, hj, h']

/-- node `i` (one claimant `(nm, a)`) processes the oldest pending claim `(nm', a')`:
not its address → nothing; lower own NAME → keeps the address and claims again; otherwise → moves to any
address `next` and claims it -/
theorem inv_deliver (s : ASys) (hI : Inv s) (i : Nat) (nm a nm' a' next : Nat) (rest : List Claim)
    (hcl : s.cl i = [(nm, a)]) (hin : s.inbox i = (nm', a') :: rest) :
    Inv (if a' = a ∧ a' < 252 then
           if nm < nm' then bcast (setNode s i [(nm, a)] rest) i [(nm, a)]
           else bcast (setNode s i [(nm, next)] rest) i [(nm, next)]
         else setNode s i [(nm, a)] rest) := by
  by_cases h1 : a' = a ∧ a' < 252
  · rw [if_pos h1]
    by_cases h2 : nm < nm'
    · rw [if_pos h2]
      refine inv_step s _ i (some (nm', a')) rfl ?_ ?_ ?_ ?_ hI
      · intro j hj; simp [bcast, setNode, hj]
      · intro j hj c h; simp [bcast, setNode, hj, h]
      · intro c h; rw [hin] at h
        rcases List.mem_cons.mp h with h | h
        · right; rw [h]
        · left; simpa [bcast, setNode] using h
      · intro c h _; left; intro j hj _ _
        have h' : c = (nm, a) := by simpa [bcast, setNode] using h
        simp [bcast, setNode, hj, h']
    · rw [if_neg h2]
      refine inv_step s _ i (some (nm', a')) rfl ?_ ?_ ?_ ?_ hI
      · intro j hj; simp [bcast, setNode, hj]
      · intro j hj c h; simp [bcast, setNode, hj, h]
      · intro c h; rw [hin] at h
        rcases List.mem_cons.mp h with h | h
        · right; rw [h]
        · left; simpa [bcast, setNode] using h
      · intro c h _; left; intro j hj _ _
        have h' : c = (nm, next) := by simpa [bcast, setNode] using h
        simp [bcast, setNode, hj, h']
  · rw [if_neg h1]
    refine inv_step s _ i (some (nm', a')) rfl ?_ ?_ ?_ ?_ hI
    · intro j hj; simp [setNode, hj]
    · intro j hj c h; simp [setNode, hj, h]
    · intro c h; rw [hin] at h
      rcases List.mem_cons.mp h with h | h
      · right; rw [h]
      · left; simpa [setNode] using h
    · intro c h hlt; right
      have h' : c = (nm, a) := by simpa [setNode] using h
      subst h'
      refine ⟨by rw [hcl]; simp, fun m' hm => ?_⟩
      cases hm
      intro hh
      have hh' : a' = a := hh
      have hlt' : a < 252 := hlt
      exact h1 ⟨hh', by omega⟩

end N2k.ClaimBus
