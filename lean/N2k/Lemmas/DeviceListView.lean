import N2k.Lemmas.DeviceListStep
/-!
# C18 helper lemmas, part 6: what an application reads back, and the list-updated flag

`Device.obs` collects the results of the public getters of an entry; `Reports s n o` says that the list shows an
entry with NAME `n` whose getters give `o`. `step_flag`: a run of `HandleMsg` either raises list-updated or
leaves `Reports` unchanged for every non-zero NAME.
-/
namespace N2k.DeviceList

/-- results of the getters of `tNMEA2000::tDevice` for an entry of the list -/
structure Obs where
  source : Nat
  prod : ProdInfo
  man : Except Fault (Option (List Nat))
  inst1 : Except Fault (Option (List Nat))
  inst2 : Except Fault (Option (List Nat))
  tx : Except Fault (Option (List Nat))
  rx : Except Fault (Option (List Nat))

def Device.obs (d : Device) : Obs :=
  ⟨d.source, d.prod, d.getManufacturerInformation, d.getInstallationDescription1, d.getInstallationDescription2,
   getPGNs d.tx, getPGNs d.rx⟩

/-- the list shows an entry with NAME `n` whose getters return `o` -/
def Reports (s : State) (n : Nat) (o : Obs) : Prop := ∃ x d, devAt s x = some d ∧ d.name = n ∧ d.obs = o

theorem obs_of_core {d d' : Device} (h : d'.core = d.core) : d'.obs = d.obs :=
  (congrArg Device.obs h : d'.core.obs = d.core.obs)

/-- the two entry views show the same for every non-zero NAME -/
def ViewSame (f g : Nat → Option Device) : Prop :=
  ∀ x, (∀ d, f x = some d → d.name ≠ 0 → ∃ d', g x = some d' ∧ d'.name = d.name ∧ d'.obs = d.obs) ∧
       (∀ d', g x = some d' → d'.name ≠ 0 → ∃ d, f x = some d ∧ d.name = d'.name ∧ d.obs = d'.obs)

theorem ViewSame.refl (f : Nat → Option Device) : ViewSame f f :=
  fun _ => ⟨fun d h _ => ⟨d, h, rfl, rfl⟩, fun d h _ => ⟨d, h, rfl, rfl⟩⟩

theorem ViewSame.trans {f g h : Nat → Option Device} (a : ViewSame f g) (b : ViewSame g h) : ViewSame f h := by
  intro x
  refine ⟨?_, ?_⟩
  · intro d hd h0
    obtain ⟨d1, h1, n1, o1⟩ := (a x).1 d hd h0
    obtain ⟨d2, h2, n2, o2⟩ := (b x).1 d1 h1 (by rw [n1]; exact h0)
    exact ⟨d2, h2, by rw [n2, n1], by rw [o2, o1]⟩
  · intro d hd h0
    obtain ⟨d1, h1, n1, o1⟩ := (b x).2 d hd h0
    obtain ⟨d2, h2, n2, o2⟩ := (a x).2 d1 h1 (by rw [n1]; exact h0)
    exact ⟨d2, h2, by rw [n2, n1], by rw [o2, o1]⟩

theorem ViewSame.of_eq {f g : Nat → Option Device} (h : g = f) : ViewSame f g := by subst h; exact ViewSame.refl _

theorem ViewSame.of_sameCore {f g : Nat → Option Device} (h : SameCore f g) : ViewSame f g := by
  intro x
  refine ⟨?_, ?_⟩
  · intro d hd _
    obtain ⟨d', h1, h2⟩ := h.get hd
    exact ⟨d', h1, core_name h2, obs_of_core h2⟩
  · intro d' hd _
    obtain ⟨d, h1, h2⟩ := h.get_rev hd
    exact ⟨d, h1, (core_name h2).symm, (obs_of_core h2).symm⟩

theorem ViewSame.reports {s s' : State} (h : ViewSame (devAt s) (devAt s')) {n : Nat} (hn : n ≠ 0) (o : Obs) :
    Reports s' n o ↔ Reports s n o := by
  constructor
  · intro ⟨x, d', hd, hnm, ho⟩
    obtain ⟨d, h1, h2, h3⟩ := (h x).2 d' hd (by rw [hnm]; exact hn)
    exact ⟨x, d, h1, by rw [h2, hnm], by rw [h3, ho]⟩
  · intro ⟨x, d, hd, hnm, ho⟩
    obtain ⟨d', h1, h2, h3⟩ := (h x).1 d hd (by rw [hnm]; exact hn)
    exact ⟨x, d', h1, by rw [h2, hnm], by rw [h3, ho]⟩

theorem Pre.view {e : Env} {s s0 : State} {src : Nat} (h : Pre e s s0 src) : ViewSame (devAt s) (devAt s0) := by
  rcases h.eff with h1 | ⟨hn, h1⟩
  · exact ViewSame.of_eq h1
  · intro x
    by_cases hx : x = src
    · subst hx
      refine ⟨?_, ?_⟩
      · intro d hd; rw [hn] at hd; cases hd
      · intro d' hd h0
        rw [h1] at hd; simp only [if_true] at hd
        cases hd
        exact absurd rfl h0
    · rw [h1]; simp only [hx, if_false]
      exact ⟨fun d h _ => ⟨d, h, rfl, rfl⟩, fun d h _ => ⟨d, h, rfl, rfl⟩⟩

/-- an information step whose new device reads back like the old one -/
theorem InfoStep.view {s0 s1 : State} {src : Nat} {R : Device → Device → Prop} (h : InfoStep s0 s1 src R)
    (hobs : ∀ d d', devAt s0 src = some d → R d d' → d'.obs = d.obs) : ViewSame (devAt s0) (devAt s1) := by
  intro x
  by_cases hx : x = src
  · subst hx
    refine ⟨?_, ?_⟩
    · intro d hd _
      obtain ⟨d', h1, hr, h2⟩ := h.present d hd
      exact ⟨d', h1, h2, hobs d d' hd hr⟩
    · intro d' hd' _
      cases hd : devAt s0 x with
      | none => rw [h.absent hd] at hd'; rw [hd] at hd'; cases hd'
      | some d =>
        obtain ⟨d2, h1, hr, h2⟩ := h.present d hd
        rw [hd'] at h1; cases h1
        exact ⟨d, rfl, h2.symm, (hobs d d' hd hr).symm⟩
  · rw [h.other x hx]
    exact ⟨fun d h _ => ⟨d, h, rfl, rfl⟩, fun d h _ => ⟨d, h, rfl, rfl⟩⟩

theorem InfoStep.upd_of_none {s0 s1 : State} {src : Nat} {R : Device → Device → Prop} (h : InfoStep s0 s1 src R)
    (hn : devAt s0 src = none) : s1 = s0 := h.absent hn

theorem confUpdate_false {e : Env} {d : Device} {m : Msg} {r : Device × Bool} (h : confUpdate e d m = .ok r)
    (hf : r.2 = false) : r.1 = d := by
  unfold confUpdate at h
  by_cases hq : (parseConfSizes m.text).ok = true
  · simp only [hq, if_true] at h
    cases hi : initConf e d (parseConfSizes m.text).man (parseConfSizes m.text).i1 (parseConfSizes m.text).i2 with
    | error x => rw [hi] at h; cases h
    | ok ri =>
      rw [hi] at h
      simp only at h
      by_cases ht : ri.man + ri.i1 + ri.i2 > 0
      · simp only [ht, if_true] at h
        cases hs : storeConf m.text ri.dev ri.man ri.i1 ri.i2 with
        | error x => rw [hs] at h; cases h
        | ok d1 => rw [hs] at h; cases h; cases hf
      · simp only [ht, if_false] at h
        cases h; cases hf
  · simp only [hq, if_false] at h
    cases h; rfl

theorem prodUpdate_obs (d : Device) (p : ProdInfo) (h : (prodUpdate d p).2 = false) : (prodUpdate d p).1.obs = d.obs := by
  unfold prodUpdate at h ⊢
  by_cases h1 : d.prodLoaded = true
  · rw [if_pos h1]
  · rw [if_neg h1] at h ⊢
    by_cases h2 : d.prod = p
    · rw [if_pos h2]
      subst h2
      rfl
    · rw [if_neg h2] at h
      cases h

/-- **the list-updated flag**: one run of `HandleMsg` raises list-updated, or what the list reports for every
    non-zero NAME is unchanged -/
theorem step_flag {e : Env} {s s' : State} {m : Msg} (h : StepDesc e s s' m) :
    s'.listUpdated = true ∨ ViewSame (devAt s) (devAt s') := by
  cases h with
  | ignored _ hs => subst hs; exact Or.inr (ViewSame.refl _)
  | claim s1 _ _ hf hpost =>
    rcases hf.change with ⟨h1, _⟩ | ⟨h1, _⟩
    · subst h1; exact Or.inr (ViewSame.of_sameCore hpost.core)
    · exact Or.inl (by rw [hpost.upd, h1])
  | reserved _ _ _ _ hpre => exact Or.inr hpre.view
  | prod s0 s1 _ _ hpre hstep hpost =>
    cases hd : devAt s0 m.source with
    | none =>
      have := hstep.absent hd; subst this
      exact Or.inr (hpre.view.trans (ViewSame.of_sameCore hpost.core))
    | some d =>
      obtain ⟨d', _, ⟨p, hp, hd', hl⟩, _⟩ := hstep.present d hd
      by_cases hflag : (!d.prodLoaded && (prodUpdate d p).2) = true
      · left; rw [hpost.upd, hl, hflag]; simp
      · right
        refine (hpre.view.trans (hstep.view ?_)).trans (ViewSame.of_sameCore hpost.core)
        intro d0 d0' hd0 ⟨p0, hp0, he0, _⟩
        rw [hd] at hd0; cases hd0
        rw [hp] at hp0; cases hp0
        rw [he0]
        by_cases hld : d.prodLoaded = true
        · simp [hld]
        · simp only [hld, if_false]
          exact prodUpdate_obs d p (by simpa [hld] using hflag)
  | conf s0 s1 _ _ hpre hstep hpost =>
    cases hd : devAt s0 m.source with
    | none =>
      have := hstep.absent hd; subst this
      exact Or.inr (hpre.view.trans (ViewSame.of_sameCore hpost.core))
    | some d =>
      obtain ⟨d', _, ⟨r, hr, hd', _, hl⟩, _⟩ := hstep.present d hd
      by_cases hflag : r.2 = true
      · left; rw [hpost.upd, hl, hflag]; simp
      · right
        refine (hpre.view.trans (hstep.view ?_)).trans (ViewSame.of_sameCore hpost.core)
        intro d0 d0' hd0 ⟨r0, hr0, he0, _⟩
        rw [hd] at hd0; cases hd0
        rw [hr] at hr0; cases hr0
        rw [he0, confUpdate_false hr (by simpa using hflag)]
  | pgns s0 s1 _ _ hpre hstep hpost =>
    cases hd : devAt s0 m.source with
    | none =>
      have := hstep.absent hd; subst this
      exact Or.inr (hpre.view.trans (ViewSame.of_sameCore hpost.core))
    | some d =>
      obtain ⟨d', _, ⟨_, _, hl⟩, _⟩ := hstep.present d hd
      exact Or.inl (by rw [hpost.upd, hl])
  | other _ _ _ _ hpost => exact Or.inr (ViewSame.of_sameCore hpost.core)

end N2k.DeviceList
