import N2k.Lemmas.SendQueue
import N2k.Lemmas.Framing
import N2k.Lemmas.SeqCounter
import N2k.Lemmas.SeqSlots
import N2k.Spec.FastPacketPGNs
/-!
# C01 — Sent messages are framed per NMEA 2000 (CAN id, single frame, fast packet)

Model: `N2k.Send` (`Model/Send.lean`): `n2kToCanId`, `sendMsg`, `fpFrame`, `getSequenceCounter`,
`isFastPacketPGN` over the tables regenerated from `src/NMEA2000.cpp` on every run (`Gen/PgnTables.lean`).
Specification: `Spec/J1939.lean` (identifier arithmetic, fast-packet frames, receiver-side reassembly) and the
frozen `Spec/FastPacketPGNs.lean`.
-/
namespace N2k.C01
open N2k.Send N2k.Spec

/-! ## identifier -/

/-- **C01_id_layout.** For every priority byte, every 18-bit PGN that can be encoded, every source and
destination: the identifier handed to the driver is `prio·2^26 + pgn·2^8 (+ dst·2^8 for PDU1) + src`
with the priority taken modulo 8, and it fits in 29 bits. -/
theorem C01_id_layout (prio pgn src dst : Nat) (hp : pgn < 2^18) (hs : src < 256) (hd : dst < 256)
    (hv : isPDU1 pgn = true → pgn % 256 = 0) :
    n2kToCanId prio pgn src dst = canId (prio % 8) pgn src dst ∧ n2kToCanId prio pgn src dst < 2^29 := by
  have h := id_layout prio pgn src dst hp hs hd hv
  exact ⟨h, h ▸ canId_lt _ _ _ _ (Nat.mod_lt _ (by omega)) hp hs hd hv⟩

/-- **C01_id_roundtrip.** Decoding the identifier (the library's own receive-side decoder) returns the
priority, PGN, source and — for addressable PGNs — the destination that were encoded (global otherwise). -/
theorem C01_id_roundtrip (prio pgn src dst : Nat) (hp : pgn < 2^17) (hs : src < 256) (hd : dst < 256)
    (hv : isPDU1 pgn = true → pgn % 256 = 0) :
    canIdToN2k (n2kToCanId prio pgn src dst) = (prio % 8, pgn, src, if isPDU1 pgn then dst else 0xff) := by
  rw [id_layout prio pgn src dst (by omega) hs hd hv]
  exact id_roundtrip _ _ _ _ (Nat.mod_lt _ (by omega)) hp hs hd hv

/-- an addressable PGN with a non-zero low byte has no identifier -/
theorem C01_id_invalid (prio pgn src dst : Nat) (h1 : (pgn >>> 8) % 256 < 240) (h2 : pgn % 256 ≠ 0) :
    n2kToCanId prio pgn src dst = 0 := by
  unfold n2kToCanId
  simp only [h1, ↓reduceIte, and255, ne_eq, h2, not_false_eq_true]

/-! ## the send gate: refusal -/

/-- source address a message is stamped with -/
def effSrc (s : St) (m : Msg) (dev : Option Nat) : Nat :=
  match dev with
  | some i => match s.devs[i]? with
    | some d => d.source
    | none => 0
  | none => m.src

theorem srcOf_eq (s : St) (m : Msg) (dev : Option Nat) (d0 : Dev) (hd : s.devs[dev.getD 0]? = some d0) :
    srcOf dev d0 m = effSrc s m dev := by
  unfold effSrc srcOf
  cases dev with
  | none => rfl
  | some i => simp only [Option.getD_some] at hd; simp [hd]

/-- **C01_refusal.** PGN 0, an addressable PGN with a non-zero low byte, a source address above 251
(other than in an address claim), an invalid device index and listen-only mode are refused: the call
returns false, nothing is sent or queued and no state changes. -/
theorem C01_refusal (s : St) (m : Msg) (dev : Option Nat)
    (h : m.pgn = 0 ∨ ((m.pgn >>> 8) % 256 < 240 ∧ m.pgn % 256 ≠ 0) ∨
         (effSrc s m dev > Gen.maxCanBusAddress ∧ m.pgn ≠ 60928) ∨ dev.getD 0 ≥ s.devs.length ∨ s.listenOnly = true) :
    sendMsg s m dev = (s, false) := by
  have hg : gate s m dev = .refuse s := by
    unfold gate
    by_cases hidx : dev.getD 0 ≥ s.devs.length
    · simp [hidx]
    · simp only [hidx, ↓reduceIte]
      cases hd : s.devs[dev.getD 0]? with
      | none => rfl
      | some d0 =>
        simp only
        rw [srcOf_eq s m dev d0 hd]
        by_cases h3 : effSrc s m dev > Gen.maxCanBusAddress ∧ m.pgn ≠ 60928
        · rw [if_pos h3]
        · rw [if_neg h3]
          by_cases hc : n2kToCanId m.prio m.pgn (effSrc s m dev) (if m.pgn &&& 0xff ≠ 0 then 0xff else m.dst) = 0
          · rw [if_pos hc]
          · rw [if_neg hc]
            by_cases hl : s.listenOnly = true
            · rw [if_pos hl]
            · rw [if_neg hl]
              by_cases hp0 : m.pgn = 0
              · rw [if_pos hp0]
              · exfalso
                rcases h with h | ⟨h1, h2⟩ | h | h | h
                · exact hp0 h
                · exact hc (C01_id_invalid _ _ _ _ h1 h2)
                · exact h3 h
                · exact hidx h
                · exact hl h
  unfold sendMsg
  rw [hg]

/-! ## accepted messages -/

/-- the conditions under which `SendMsg` goes on to produce frames (open node, `dm_None`) -/
structure Accepted (s : St) (m : Msg) (dev : Option Nat) (d0 d1 : Dev) : Prop where
  idx : ¬ dev.getD 0 ≥ s.devs.length
  dev0 : s.devs[dev.getD 0]? = some d0
  src : ¬ (effSrc s m dev > Gen.maxCanBusAddress ∧ m.pgn ≠ 60928)
  id : n2kToCanId m.prio m.pgn (effSrc s m dev) (if m.pgn &&& 0xff ≠ 0 then 0xff else m.dst) ≠ 0
  listen : s.listenOnly = false
  pgn0 : m.pgn ≠ 0
  claim : isAddressClaimStarted s.flavor s.now d0 = (d1, false) ∨
          (m.pgn = 60928 ∧ (isAddressClaimStarted s.flavor s.now d0).1 = d1)

/-- the state in which the frames are produced (claim timer bookkeeping done) -/
def afterGate (s : St) (dev : Option Nat) (d1 : Dev) : St := { s with devs := updDev s.devs (dev.getD 0) d1 }

theorem sendMsg_accepted (s : St) (m : Msg) (dev : Option Nat) (d0 d1 : Dev) (a : Accepted s m dev d0 d1) :
    sendMsg s m dev = produce (afterGate s dev d1) (dev.getD 0) d1
      (n2kToCanId m.prio m.pgn (effSrc s m dev) (if m.pgn &&& 0xff ≠ 0 then 0xff else m.dst)) m := by
  obtain ⟨hidx, hd, h3, hc, hl, hp0, hcl⟩ := a
  have hsrc := srcOf_eq s m dev d0 hd
  have hclaim : (isAddressClaimStarted s.flavor s.now d0).1 = d1 ∧
      ¬ ((isAddressClaimStarted s.flavor s.now d0).2 = true ∧ m.pgn ≠ 60928) := by
    rcases hcl with h | ⟨h1, h2⟩
    · rw [h]; simp
    · exact ⟨h2, fun hh => hh.2 h1⟩
  have hg : gate s m dev = .pass (afterGate s dev d1) d1
      (n2kToCanId m.prio m.pgn (effSrc s m dev) (if m.pgn &&& 0xff ≠ 0 then 0xff else m.dst)) := by
    unfold gate
    simp only [hidx, ↓reduceIte, hd, hsrc, h3, hc, hl, Bool.false_eq_true, hp0, afterGate, hclaim.1, hclaim.2]
  unfold sendMsg
  rw [hg]

/-- **C01_single_frame.** An accepted message of at most 8 bytes whose PGN is not fast packet (or whose
priority byte is ≥ 0x80) adds exactly one frame to the stream (driver ++ queue): identifier per J1939,
DLC = payload length, payload bytes unchanged (bytes beyond the length are not looked at); or nothing
when the call reports failure. -/
theorem C01_single_frame (s : St) (m : Msg) (dev : Option Nat) (d0 d1 : Dev) (a : Accepted s m dev d0 d1)
    (hq : s.ring.WF) (hlen : m.len ≤ 8) (hdata : m.len ≤ m.data.length)
    (hsf : ¬ (m.prio < 0x80 ∧ isFastPacketPGN s.lists m.pgn = true))
    (hpgn : m.pgn < 2^18) (hsrc : effSrc s m dev < 256) (hdst : m.dst < 256) :
    let res := sendMsg s m dev
    let dst := if m.pgn &&& 0xff ≠ 0 then 0xff else m.dst
    res.1.drv.sent ++ res.1.ring.abs = s.drv.sent ++ s.ring.abs ++
      (if res.2 then [⟨canId (m.prio % 8) m.pgn (effSrc s m dev) dst, m.len, m.data.take m.len⟩] else []) := by
  have hid := a.id
  have hv : isPDU1 m.pgn = true → m.pgn % 256 = 0 := by
    intro hp1
    by_cases h0 : m.pgn % 256 = 0
    · exact h0
    · exfalso; apply hid
      have : (m.pgn >>> 8) % 256 < 240 := by
        simpa [isPDU1, Nat.shiftRight_eq_div_pow] using hp1
      exact C01_id_invalid _ _ _ _ this h0
  have hd' : (if m.pgn &&& 0xff ≠ 0 then 0xff else m.dst) < 256 := by split <;> omega
  rw [sendMsg_accepted s m dev d0 d1 a]
  unfold produce
  simp only [hlen, hsf, not_false_eq_true, and_self, ↓reduceIte, afterGate]
  have hf : (⟨n2kToCanId m.prio m.pgn (effSrc s m dev) (if m.pgn &&& 0xff ≠ 0 then 0xff else m.dst), m.len,
      m.data.take m.len⟩ : Frame).WF :=
    ⟨hlen, by show (List.take m.len m.data).length = m.len; rw [List.length_take]; omega⟩
  have hinv := (sendFrame_inv s.ring s.drv _ hq hf).2.2
  rw [(C01_id_layout m.prio m.pgn _ _ hpgn hsrc hd' hv).1] at hinv hf ⊢
  exact hinv

/-- **C01_fast_packet (frames).** For every payload length 0..223 and content, every sequence id and every
frame index, the bytes of the frame are those of the fast-packet wire format: byte 0 = 32·seq + index, the
first frame carries the total length and 6 payload bytes, the following ones 7, unused positions 0xFF,
and the number of frames is 1 + ⌈(len−6)/7⌉. Bytes of the message buffer beyond the payload length have
no influence. -/
theorem C01_fast_packet_frames (m : Msg) (seq : Nat) (hs : seq < 8) (hl : m.len ≤ 223)
    (hdata : m.len ≤ m.data.length) :
    (List.range (fpFrameCount m.len)).map (fpFrame m (seq <<< 5)) = fpFrames seq (m.data.take m.len) := by
  have hlen : (m.data.take m.len).length = m.len := by rw [List.length_take]; omega
  unfold fpFrames
  rw [hlen, fpFrameCount_eq]
  apply List.map_congr_left
  intro i hi
  have hi' : i < 1 + fpCont m.len := List.mem_range.mp hi
  have := fpCont_le m.len hl
  exact fpFrame_eq m seq i hs (by omega) hdata (by omega)

/-- **C01_fast_packet (payload unchanged).** A receiver that strips the frame headers, concatenates and
cuts at the announced length gets exactly the payload, for every length and content. -/
theorem C01_fast_packet_reassembles (m : Msg) (seq : Nat) (hs : seq < 8) (hl : m.len ≤ 223)
    (hdata : m.len ≤ m.data.length) :
    fpReassemble ((List.range (fpFrameCount m.len)).map (fpFrame m (seq <<< 5))) = m.data.take m.len := by
  rw [C01_fast_packet_frames m seq hs hl hdata, fpReassemble_frames]

/-- **C01_fast_packet (stream).** An accepted message that takes the fast-packet branch adds to the stream
(driver ++ queue) a prefix of its frames, all of them iff the call reports success, each with the J1939
identifier and DLC 8. -/
theorem C01_fast_packet_stream (s : St) (m : Msg) (dev : Option Nat) (d0 d1 : Dev) (a : Accepted s m dev d0 d1)
    (hq : s.ring.WF) (hfp : ¬ (m.len ≤ 8 ∧ ¬ (m.prio < 0x80 ∧ isFastPacketPGN s.lists m.pgn = true)))
    (htp : m.tp = false) :
    let res := sendMsg s m dev
    let id := n2kToCanId m.prio m.pgn (effSrc s m dev) (if m.pgn &&& 0xff ≠ 0 then 0xff else m.dst)
    let sc := (getSequenceCounter s.lists d1 m.pgn).2
    ∃ j, j ≤ fpFrameCount m.len ∧ (res.2 = true ↔ j = fpFrameCount m.len) ∧
      res.1.drv.sent ++ res.1.ring.abs = s.drv.sent ++ s.ring.abs ++
        (List.range j).map fun t => (⟨id, 8, fpFrame m (sc <<< 5) t⟩ : Frame) := by
  rw [sendMsg_accepted s m dev d0 d1 a]
  unfold produce
  simp only [hfp, ↓reduceIte, htp, Bool.false_eq_true, afterGate]
  obtain ⟨_, j, h1, h2, h3⟩ := sendFpLoop_prefix
    (n2kToCanId m.prio m.pgn (effSrc s m dev) (if m.pgn &&& 0xff ≠ 0 then 0xff else m.dst)) m
    ((getSequenceCounter s.lists d1 m.pgn).2 <<< 5) (fpFrameCount m.len) 0 s.ring s.drv hq
  refine ⟨j, h1, h2, ?_⟩
  simpa using h3

/-! ## sequence ids -/

/-- results of a series of `GetSequenceCounter` calls `(pgn, declared)` on the slot array -/
def seqRun : List Nat → List (Nat × Bool) → List (Nat × Nat)
  | _, [] => []
  | slots, (p, d) :: t => (p, (seqStep p d slots).2) :: seqRun (seqStep p d slots).1 t

theorem seqStep_owned (pgn : Nat) (d : Bool) (slots : List Nat) (c : Nat) (hp : pgn < 2^24) (h0 : pgn ≠ 0)
    (h : lookup pgn slots.dropLast = some c) :
    (seqStep pgn d slots).2 = nextSc c ∧ lookup pgn (seqStep pgn d slots).1.dropLast = some (nextSc c) := by
  obtain ⟨front', h1, h2, _⟩ := seqScan_owned pgn d hp h0 slots.dropLast c h
  simp [seqStep, h1, h2]

theorem seqStep_other (pgn pgn' : Nat) (d : Bool) (slots : List Nat) (c : Nat) (hne : pgn' ≠ pgn)
    (hp' : pgn' < 2^24) (h0' : pgn' ≠ 0) (h : lookup pgn slots.dropLast = some c) :
    lookup pgn (seqStep pgn' d slots).1.dropLast = some c := by
  have := seqScan_other pgn pgn' d hne hp' h0' slots.dropLast c h
  unfold seqStep
  cases hs : seqScan pgn' d slots.dropLast with
  | none => simp [h]
  | some r => obtain ⟨f, sc⟩ := r; rw [hs] at this; simp [this.1]

/-- **C01_sequence.** Once a PGN owns a counter slot with value `c`, the sequence ids of its successive
fast-packet messages are `c+1, c+2, …` modulo 8, whatever other PGNs (declared or not) are sent in
between — for every interleaving and any number of messages. -/
theorem C01_sequence (pgn : Nat) (hp : pgn < 2^24) (h0 : pgn ≠ 0) :
    ∀ (calls : List (Nat × Bool)) (slots : List Nat) (c : Nat), c ≤ 7 → lookup pgn slots.dropLast = some c →
      (∀ q ∈ calls, q.1 < 2^24 ∧ q.1 ≠ 0) →
      ((seqRun slots calls).filter (·.1 == pgn)).map (·.2)
        = (List.range ((calls.filter (·.1 == pgn)).length)).map fun k => (c + 1 + k) % 8
  | [], _, _, _, _, _ => rfl
  | (p, d) :: t, slots, c, hc, h, hq => by
    have hn : nextSc c = (c + 1) % 8 := by unfold nextSc; split <;> omega
    have hq' : ∀ q ∈ t, q.1 < 2^24 ∧ q.1 ≠ 0 := fun q hq1 => hq q (by simp [hq1])
    by_cases hpe : p = pgn
    · subst hpe
      obtain ⟨r1, r2⟩ := seqStep_owned p d slots c hp h0 h
      have ih := C01_sequence p hp h0 t (seqStep p d slots).1 (nextSc c) (by rw [hn]; omega) r2 hq'
      simp only [seqRun, List.filter_cons, beq_self_eq_true, ↓reduceIte, List.map_cons, List.length_cons, r1]
      rw [ih, List.range_succ_eq_map, List.map_cons, List.map_map]
      rw [hn]
      congr 1
      apply List.map_congr_left
      intro k _
      show ((c + 1) % 8 + 1 + k) % 8 = (c + 1 + (k + 1)) % 8
      omega
    · have hb : (p == pgn) = false := by simp [hpe]
      have hpp := hq (p, d) (by simp)
      have r := seqStep_other pgn p d slots c hpe hpp.1 hpp.2 h
      have ih := C01_sequence pgn hp h0 t (seqStep p d slots).1 c hc r hq'
      simp only [seqRun, List.filter_cons, hb, Bool.false_eq_true, ↓reduceIte]
      exact ih

/-- the first fast-packet message of a declared transmit PGN takes a free slot and carries id 0 -/
theorem C01_sequence_first (pgn : Nat) (hp : pgn < 2^24) (h0 : pgn ≠ 0) (slots : List Nat)
    (hnone : lookup pgn slots.dropLast = none) (hfree : 0 ∈ slots.dropLast)
    (hfresh : ∀ e ∈ slots.dropLast, e ≠ 0 → e &&& 0x00ffffff ≠ pgn) :
    (seqStep pgn true slots).2 = 0 ∧ lookup pgn (seqStep pgn true slots).1.dropLast = some 0 := by
  obtain ⟨f, h1, h2⟩ := seqScan_first pgn hp h0 slots.dropLast hnone hfree hfresh
  simp [seqStep, h1, h2]

/-- **C01_sequence_declared.** From the freshly allocated slot array (one slot per declared fast-packet
transmit PGN `L`, plus the common one): the successive fast-packet messages of a declared PGN carry the
sequence ids 0, 1, 2, … modulo 8, for every interleaving with any other PGNs, declared or not. No
hypothesis on free slots is needed: a declared PGN always finds one (pigeonhole, `free_slot_exists`). -/
theorem C01_sequence_declared (L : List Nat) (pgn : Nat) (hp : pgn < 2^24) (h0 : pgn ≠ 0) (hL : pgn ∈ L) :
    ∀ (calls : List (Nat × Bool)) (slots : List Nat), SlotInv slots.dropLast L →
      lookup pgn slots.dropLast = none →
      (∀ q ∈ calls, q.1 < 2^24 ∧ q.1 ≠ 0 ∧ (q.2 = true → q.1 ∈ L)) →
      (∀ q ∈ calls, q.1 = pgn → q.2 = true) →
      ((seqRun slots calls).filter (·.1 == pgn)).map (·.2)
        = (List.range ((calls.filter (·.1 == pgn)).length)).map fun k => k % 8
  | [], _, _, _, _, _ => rfl
  | (p, d) :: t, slots, hI, hn, hq, hdecl => by
    have hq' : ∀ q ∈ t, q.1 < 2^24 ∧ q.1 ≠ 0 ∧ (q.2 = true → q.1 ∈ L) := fun q h => hq q (by simp [h])
    have hdecl' : ∀ q ∈ t, q.1 = pgn → q.2 = true := fun q h => hdecl q (by simp [h])
    by_cases hpe : p = pgn
    · subst hpe
      have hd : d = true := hdecl (p, d) (by simp) rfl
      subst hd
      obtain ⟨hfree, hfresh⟩ := free_slot_exists p slots.dropLast L hI hL hn
      obtain ⟨r1, r2⟩ := C01_sequence_first p hp h0 slots hn hfree hfresh
      have hrest := C01_sequence p hp h0 t (seqStep p true slots).1 0 (by omega) r2
        (fun q h => ⟨(hq' q h).1, (hq' q h).2.1⟩)
      simp only [seqRun, List.filter_cons, beq_self_eq_true, ↓reduceIte, List.map_cons, List.length_cons, r1]
      rw [hrest, List.range_succ_eq_map, List.map_cons, List.map_map]
      congr 1
      apply List.map_congr_left
      intro k _
      simp only [Function.comp, Nat.succ_eq_add_one]
      congr 1; omega
    · have hb : (p == pgn) = false := by simp [hpe]
      have hpp := hq (p, d) (by simp)
      have hdl := seqStep_dropLast p d slots
      have hI' : SlotInv (seqStep p d slots).1.dropLast L ∧ lookup pgn (seqStep p d slots).1.dropLast = none := by
        rw [hdl]
        cases hs : seqScan p d slots.dropLast with
        | none => exact ⟨hI, hn⟩
        | some r =>
          obtain ⟨f, sc⟩ := r
          exact ⟨slotInv_scan p d hpp.1 hpp.2.1 _ L f sc hI hpp.2.2 hs,
                 lookup_none_scan pgn p d hpe hpp.1 hpp.2.1 _ L f sc hI hn hs⟩
      simp only [seqRun, List.filter_cons, hb, Bool.false_eq_true, ↓reduceIte]
      exact C01_sequence_declared L pgn hp h0 hL t _ hI'.1 hI'.2 hq' hdecl'

/-- the array `GetSequenceCounter` allocates on first use satisfies the hypotheses of `C01_sequence_declared` -/
theorem C01_sequence_fresh (L : List Nat) (pgn : Nat) :
    SlotInv (List.replicate (L.length + 1) 0).dropLast L ∧
    lookup pgn (List.replicate (L.length + 1) 0).dropLast = none := by
  have : (List.replicate (L.length + 1) 0).dropLast = List.replicate L.length 0 := by
    rw [List.replicate_succ']; simp
  rw [this]
  refine ⟨slotInv_init L, ?_⟩
  cases L.length with
  | zero => rfl
  | succ n => simp [List.replicate_succ, lookup]

/-- the declared fast-packet transmit PGNs of a device (library defaults ++ application list) -/
def declaredFP (ls : Lists) (d : Dev) : List Nat :=
  Gen.defTransmitMessages.filter (isFastPacketPGN ls) ++ d.txList.filter (isFastPacketPGN ls)

/-- the model's `getSequenceCounter` allocates exactly one slot per entry of `declaredFP` plus the common
one, and lets exactly the members of `declaredFP` take a free slot — the premises of `C01_sequence_declared` -/
theorem C01_sequence_premises (ls : Lists) (d : Dev) (pgn : Nat) :
    fpTxCount ls d = (declaredFP ls d).length ∧
    ((isTxPGN d pgn && isFastPacketPGN ls pgn) = true → pgn ∈ declaredFP ls d) := by
  refine ⟨by simp [fpTxCount, declaredFP], ?_⟩
  intro h
  simp only [Bool.and_eq_true, isTxPGN, Bool.or_eq_true, List.contains_eq_mem, decide_eq_true_eq] at h
  simp only [declaredFP, List.mem_append, List.mem_filter]
  rcases h.1 with h1 | h1
  · exact Or.inl ⟨h1, h.2⟩
  · exact Or.inr ⟨h1, h.2⟩

/-! ## classification -/

/-- all fast-packet PGNs the library knows without application lists -/
def genFastPacket : List Nat :=
  Gen.isFastPacketSystemMessage ++ Gen.isMandatoryFastPacketMessage ++ Gen.isDefaultFastPacketMessage

theorem gen_sub_spec : genFastPacket.all (fun p => Spec.fastPacketPGNs.contains p) = true := by decide +kernel
theorem spec_sub_gen : Spec.fastPacketPGNs.all (fun p => genFastPacket.contains p) = true := by decide +kernel
theorem single_disjoint :
    (Gen.isSingleFrameSystemMessage ++ Gen.isDefaultSingleFrameMessage).all
      (fun p => !(Spec.isFastPacket p)) = true := by decide +kernel
theorem single_frame_table :
    (Gen.isSingleFrameSystemMessage ++ Gen.isDefaultSingleFrameMessage).all (fun p => Spec.singleFramePGNs.contains p) = true ∧
    Spec.singleFramePGNs.all (fun p => (Gen.isSingleFrameSystemMessage ++ Gen.isDefaultSingleFrameMessage).contains p) = true := by
  constructor <;> decide +kernel
/-- the proprietary fast-packet ranges read from the source (by executing `IsProprietaryFastPacketMessage` on all 2^18 PGNs)
are the published ones: 126720 and 130816..131071 -/
theorem proprietary_ranges : Gen.proprietaryFastPacketRanges = [(126720, 126720), (130816, 131071)] := by decide

theorem proprietary_eq (pgn : Nat) : Gen.isProprietaryFastPacketMessage pgn = Spec.isProprietaryFastPacket pgn := by
  unfold Gen.isProprietaryFastPacketMessage Spec.isProprietaryFastPacket
  rw [proprietary_ranges]
  simp only [List.any_cons, List.any_nil, Bool.or_false]
  rw [Bool.eq_iff_iff]
  simp only [Bool.or_eq_true, Bool.and_eq_true, decide_eq_true_eq, beq_iff_eq]
  omega

/-- **C01_classification.** For every PGN (all of them, not a sample): without application lists the
library classifies a PGN as fast packet exactly when the NMEA 2000 classification does; with an
application extension list, exactly when NMEA 2000 does or the application declared it. -/
theorem C01_classification (pgn : Nat) (ext : Option (List Nat)) (hp : pgn ≠ 0) :
    isFastPacketPGN { fp0 := none, fp1 := ext } pgn =
      (Spec.isFastPacket pgn || (match ext with | some l => l.contains pgn | none => false)) := by
  have h1 : genFastPacket.contains pgn = Spec.fastPacketPGNs.contains pgn := by
    have a := gen_sub_spec
    have b := spec_sub_gen
    rw [List.all_eq_true] at a b
    by_cases hg : genFastPacket.contains pgn = true
    · have := a pgn (by simpa using hg); rw [hg, this]
    · by_cases hs : Spec.fastPacketPGNs.contains pgn = true
      · have := b pgn (by simpa using hs); exact absurd this hg
      · simp only [Bool.not_eq_true] at hg hs; rw [hg, hs]
  have h2 : genFastPacket.contains pgn =
      (Gen.isFastPacketSystemMessage.contains pgn || Gen.isMandatoryFastPacketMessage.contains pgn ||
       Gen.isDefaultFastPacketMessage.contains pgn) := by
    simp [genFastPacket, List.contains_eq_mem, List.mem_append, Bool.decide_or, Bool.or_assoc]
  unfold isFastPacketPGN Spec.isFastPacket
  rw [← h1, h2, proprietary_eq]
  have h0 : (pgn == 0) = false := by simp [hp]
  cases ext with
  | none => simp [inList]
  | some l => simp [inList, h0]

/-- the single-frame tables never contain a fast-packet PGN -/
theorem C01_single_frame_tables (pgn : Nat)
    (h : pgn ∈ Gen.isSingleFrameSystemMessage ++ Gen.isDefaultSingleFrameMessage) : Spec.isFastPacket pgn = false := by
  have := single_disjoint
  rw [List.all_eq_true] at this
  simpa using this pgn h

/-! ## non-vacuity -/

def demoDev : Dev :=
  { source := 34, name := 0xC0328200FA0003E8, claimTimer := Time.Sched.disabled .t64, endSource := 33,
    txList := [129029] }
def demoSt : St :=
  { flavor := .t64, now := 5000, listenOnly := false, claimMode := true, lists := {}, devs := [demoDev],
    ring := { n := 4, buf := fun _ => ⟨0, 0, []⟩, read := 0, write := 0 },
    drv := { script := [], dflt := true, sent := [] } }
def demoMsg : Msg := { prio := 2, pgn := 129029, src := 0, dst := 255, len := 9, data := [1,2,3,4,5,6,7,8,9,0x55,0x55] }

example : Accepted demoSt demoMsg (some 0) demoDev demoDev :=
  ⟨by decide, rfl, by decide, by decide, rfl, by decide, Or.inl rfl⟩
/-- a 9-byte 129029 from device 0: two frames, padding 0xFF, stale buffer bytes 0x55 not sent -/
example : (sendMsg demoSt demoMsg (some 0)).1.drv.sent =
    [⟨0x09F80522, 8, [0, 9, 1, 2, 3, 4, 5, 6]⟩, ⟨0x09F80522, 8, [1, 7, 8, 9, 255, 255, 255, 255]⟩] := by decide
example : lookup 129029 [129029 ||| (3 <<< 24), 0] = some 3 := by decide

end N2k.C01
