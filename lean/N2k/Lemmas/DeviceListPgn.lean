import N2k.Lemmas.DeviceListFrame
/-!
# C18 helper lemmas, part 8: the stored PGN lists

`pgnUpdate_tx` / `pgnUpdate_rx`: after a 126464 of type transmit (receive) the getter returns the 3-byte values
of the message up to the first 0 (the list terminator of the API). `step_tx_keep` / `step_rx_keep`: nothing else
changes what the getter returns.
-/
namespace N2k.DeviceList

/-- the `k` 3-byte values `HandleSupportedPGNList` reads from index `idx` on -/
def pgnValues (t : N2k.Text.Msg) : Nat → Nat → List Nat
  | 0, _ => []
  | k + 1, idx => (get3 t idx).1 :: pgnValues t k (get3 t idx).2

/-- first byte of a 126464: 0 = transmit list, 1 = receive list -/
def listType (m : Msg) : Nat := (getByteP m.text 0).1

/-- the PGNs carried by a 126464 -/
def pgnListOf (m : Msg) : List Nat :=
  pgnValues m.text ((m.text.len - (getByteP m.text 0).2) / 3) (getByteP m.text 0).2

theorem pgnValues_length (t : N2k.Text.Msg) : ∀ k idx, (pgnValues t k idx).length = k := by
  intro k
  induction k with
  | zero => intro _; rfl
  | succ k ih => intro idx; simp [pgnValues, ih]

theorem pgnFill_mem (t : N2k.Text.Msg) : ∀ (k i idx : Nat) (b : Block), i + k ≤ b.size →
    ∃ b', pgnFill t k i idx b = .ok (i + k, b') ∧ b'.size = b.size ∧
      (∀ j, j < i → b'.mem j = b.mem j) ∧
      (∀ j, (h : j < k) → b'.mem (i + j) = (pgnValues t k idx)[j]'(by rw [pgnValues_length]; exact h)) := by
  intro k
  induction k with
  | zero => intro i idx b _; exact ⟨b, rfl, rfl, fun _ _ => rfl, fun j h => absurd h (by omega)⟩
  | succ k ih =>
    intro i idx b h
    simp only [pgnFill]
    rw [Block.write_ok b _ (by omega)]
    obtain ⟨b', h1, h2, h3, h4⟩ := ih (i + 1) (get3 t idx).2 ⟨b.size, fun j => if j = i then (get3 t idx).1 else b.mem j⟩
      (by show i + 1 + k ≤ b.size; omega)
    refine ⟨b', ?_, h2, ?_, ?_⟩
    · simp only [h1]
      congr 2
      omega
    · intro j hj
      rw [h3 j (by omega)]
      have : j ≠ i := by omega
      simp [this]
    · intro j hj
      cases j with
      | zero =>
        rw [Nat.add_zero, h3 i (by omega)]
        simp [pgnValues]
      | succ j =>
        have := h4 j (by omega)
        rw [show i + (j + 1) = i + 1 + j by omega, this]
        simp [pgnValues]

/-- reading a 0-terminated sequence whose content is known -/
theorem readZ_list (b : Block) : ∀ (l : List Nat) (off f : Nat),
    (∀ j, (h : j < l.length) → b.mem (off + j) = l[j]) → b.mem (off + l.length) = 0 →
    off + l.length < b.size → l.length < f →
    b.readZ f off = .ok (l.takeWhile (· ≠ 0)) := by
  intro l
  induction l with
  | nil =>
    intro off f _ h0 hsz hf
    obtain ⟨f', rfl⟩ : ∃ f', f = f' + 1 := ⟨f - 1, by simp at hf; omega⟩
    have hlt : off < b.size := by simpa using hsz
    have hz : b.mem off = 0 := by simpa using h0
    simp [Block.readZ, hlt, hz]
  | cons a t ih =>
    intro off f hl h0 hsz hf
    obtain ⟨f', rfl⟩ : ∃ f', f = f' + 1 := ⟨f - 1, by simp at hf; omega⟩
    have hlt : off < b.size := by simp at hsz; omega
    have ha : b.mem off = a := by
      have := hl 0 (by simp)
      simp only [Nat.add_zero, List.getElem_cons_zero] at this
      exact this
    by_cases hz : a = 0
    · simp [Block.readZ, hlt, ha, hz]
    · have := ih (off + 1) f'
        (by intro j hj
            have := hl (j + 1) (by simp; omega)
            rw [show off + 1 + j = off + (j + 1) by omega, this]; simp)
        (by rw [show off + 1 + t.length = off + (a :: t).length by simp; omega]; exact h0)
        (by simp at hsz ⊢; omega) (by simp at hf; omega)
      simp [Block.readZ, hlt, ha, hz, this]

theorem getPGNs_stored (t : N2k.Text.Msg) (cnt idx : Nat) (b : Block) (h : cnt < b.size) :
    ∃ b', pgnStore t cnt idx b = .ok b' ∧ b'.size = b.size ∧
      getPGNs (some b') = .ok (some ((pgnValues t cnt idx).takeWhile (· ≠ 0))) := by
  unfold pgnStore
  obtain ⟨b1, h1, h2, _, h4⟩ := pgnFill_mem t cnt 0 idx b (by omega)
  simp only [h1]
  rw [Block.write_ok b1 0 (by omega)]
  refine ⟨_, rfl, h2, ?_⟩
  simp only [getPGNs, Option.map_some, getStrAt]
  rw [readZ_list _ (pgnValues t cnt idx) 0 _ ?_ ?_ ?_ ?_]
  · intro j hj
    have hjc : j < cnt := by rw [pgnValues_length] at hj; exact hj
    have := h4 j hjc
    have hne : ¬ (0 + j = 0 + cnt) := by omega
    simp only [hne, if_false]
    exact this
  · simp [pgnValues_length]
  · simp [pgnValues_length]; omega
  · simp [pgnValues_length]; omega

theorem pgnUpdate_tx (e : Env) {d d' : Device} (hw : DevWF d) (m : Msg) (hty : listType m = 0)
    (h : pgnUpdate e d m = .ok d') :
    getPGNs d'.tx = .ok (some ((pgnListOf m).takeWhile (· ≠ 0))) ∧ d'.rx = d.rx := by
  unfold pgnUpdate at h
  have h0 : (getByteP m.text 0).1 = 0 := hty
  simp only [h0, if_true] at h
  obtain ⟨b, sz, hb, hs, hc⟩ := initPGNs_ok e ((m.text.len - (getByteP m.text 0).2) / 3) hw.tx
  simp only [hb] at h
  obtain ⟨b', hb', _, hg⟩ := getPGNs_stored m.text ((m.text.len - (getByteP m.text 0).2) / 3) (getByteP m.text 0).2 b (by omega)
  simp only [hb'] at h
  cases h
  exact ⟨hg, rfl⟩

theorem pgnUpdate_rx (e : Env) {d d' : Device} (hw : DevWF d) (m : Msg) (hty : listType m = 1)
    (h : pgnUpdate e d m = .ok d') :
    getPGNs d'.rx = .ok (some ((pgnListOf m).takeWhile (· ≠ 0))) ∧ d'.tx = d.tx := by
  unfold pgnUpdate at h
  have h0 : (getByteP m.text 0).1 = 1 := hty
  simp only [h0] at h
  simp only [show ¬ (1 = 0) by decide, if_false, if_true] at h
  obtain ⟨b, sz, hb, hs, hc⟩ := initPGNs_ok e ((m.text.len - (getByteP m.text 0).2) / 3) hw.rx
  simp only [hb] at h
  obtain ⟨b', hb', _, hg⟩ := getPGNs_stored m.text ((m.text.len - (getByteP m.text 0).2) / 3) (getByteP m.text 0).2 b (by omega)
  simp only [hb'] at h
  cases h
  exact ⟨hg, rfl⟩

theorem pgnUpdate_keep_tx (e : Env) {d d' : Device} (m : Msg) (hty : listType m ≠ 0)
    (h : pgnUpdate e d m = .ok d') (hc : PgnChanged d d') : d'.tx = d.tx := by
  unfold pgnUpdate at h
  have h0 : ¬ (getByteP m.text 0).1 = 0 := hty
  simp only [h0, if_false] at h
  by_cases h1 : (getByteP m.text 0).1 = 1
  · simp only [h1, if_true] at h
    cases hi : initPGNs e d.rx d.rxSize ((m.text.len - (getByteP m.text 0).2) / 3) with
    | error x => rw [hi] at h; cases h
    | ok r =>
      rw [hi] at h
      simp only at h
      cases hr : r.1 with
      | none => rw [hr] at h; cases h; rfl
      | some b =>
        rw [hr] at h
        simp only at h
        cases hp : pgnStore m.text ((m.text.len - (getByteP m.text 0).2) / 3) (getByteP m.text 0).2 b with
        | error x => rw [hp] at h; cases h
        | ok b1 => rw [hp] at h; cases h; rfl
  · simp only [h1, if_false] at h
    cases h; rfl

theorem pgnUpdate_keep_rx (e : Env) {d d' : Device} (m : Msg) (hty : listType m ≠ 1)
    (h : pgnUpdate e d m = .ok d') : d'.rx = d.rx := by
  unfold pgnUpdate at h
  by_cases h0 : (getByteP m.text 0).1 = 0
  · simp only [h0, if_true] at h
    cases hi : initPGNs e d.tx d.txSize ((m.text.len - (getByteP m.text 0).2) / 3) with
    | error x => rw [hi] at h; cases h
    | ok r =>
      rw [hi] at h
      simp only at h
      cases hr : r.1 with
      | none => rw [hr] at h; cases h; rfl
      | some b =>
        rw [hr] at h
        simp only at h
        cases hp : pgnStore m.text ((m.text.len - (getByteP m.text 0).2) / 3) (getByteP m.text 0).2 b with
        | error x => rw [hp] at h; cases h
        | ok b1 => rw [hp] at h; cases h; rfl
  · simp only [h0, if_false] at h
    have h1 : ¬ (getByteP m.text 0).1 = 1 := hty
    simp only [h1, if_false] at h
    cases h; rfl

/-- `which = 0`: the transmit list, `which = 1`: the receive list -/
def Device.pgnBlock (d : Device) (which : Nat) : Option Block := if which = 0 then d.tx else d.rx

theorem prodUpdate_blocks (d : Device) (p : ProdInfo) : (prodUpdate d p).1.tx = d.tx ∧ (prodUpdate d p).1.rx = d.rx := by
  unfold prodUpdate
  split
  · exact ⟨rfl, rfl⟩
  · split <;> exact ⟨rfl, rfl⟩

theorem prodUpdate_name (d : Device) (p : ProdInfo) : (prodUpdate d p).1.name = d.name := by
  unfold prodUpdate
  split
  · rfl
  · split <;> rfl

/-- the stored list of one kind changes only by a 126464 of that kind from the entry's source -/
theorem step_pgn_keep {e : Env} {s s' : State} {m : Msg} (h : StepDesc e s s' m) {src : Nat} {d : Device} {which : Nat}
    (hwhich : which = 0 ∨ which = 1)
    (hd : devAt s src = some d) (hnt : NoTouch m src d.name)
    (hown : ¬ (m.source = src ∧ m.pgn = pgnList ∧ listType m = which)) :
    ∃ d', devAt s' src = some d' ∧ d'.name = d.name ∧ d'.pgnBlock which = d.pgnBlock which := by
  have fromCore : ∀ d1 d' : Device, d'.core = d1.core → d1.name = d.name → d1.pgnBlock which = d.pgnBlock which →
      d'.name = d.name ∧ d'.pgnBlock which = d.pgnBlock which := by
    intro d1 d' hc h1 h2
    refine ⟨by rw [core_name hc, h1], ?_⟩
    rw [← h2]
    unfold Device.pgnBlock
    rw [core_tx hc, core_rx hc]
  by_cases hsrc : m.source = src ∧ m.source < MaxBusDevices
  · obtain ⟨hs, h254⟩ := hsrc
    subst hs
    have hnc : m.pgn ≠ pgnClaim := fun hc => hnt ⟨hc, h254, Or.inl rfl⟩
    obtain ⟨d1, d', heff, h1, h2⟩ := step_own h hd h254 hnc
    refine ⟨d', h1, ?_⟩
    cases heff with
    | prod p hp _ =>
      by_cases hl : d.prodLoaded = true
      · rw [if_pos hl] at h2
        exact fromCore d d' h2 rfl rfl
      · rw [if_neg hl] at h2
        refine fromCore _ d' h2 (prodUpdate_name d p) ?_
        unfold Device.pgnBlock
        rw [(prodUpdate_blocks d p).1, (prodUpdate_blocks d p).2]
    | conf r _ _ hcc =>
      obtain ⟨sz, blk, mm, a, b, cl, he, _⟩ := hcc
      rw [he] at h2
      exact fromCore _ d' h2 rfl rfl
    | pgns d1 hp hu hcc =>
      have hty : listType m ≠ which := fun hh => hown ⟨rfl, hp, hh⟩
      have hname : d1.name = d.name := by
        obtain ⟨tb, ts, rb, rs, he, _⟩ := hcc
        rw [he]
      refine fromCore d1 d' h2 hname ?_
      unfold Device.pgnBlock
      rcases hwhich with hw | hw
      · subst hw
        simp only [if_true]
        exact pgnUpdate_keep_tx e m hty hu hcc
      · subst hw
        simp only [show ¬ (1 = 0) by decide, if_false]
        exact pgnUpdate_keep_rx e m hty hu
    | none _ _ _ => exact fromCore d d' h2 rfl rfl
  · have hne : m.source ≠ src ∨ m.source ≥ MaxBusDevices := by
      by_cases h1 : m.source = src
      · exact Or.inr (by have := fun h2 => hsrc ⟨h1, h2⟩; omega)
      · exact Or.inl h1
    obtain ⟨d', h1, h2⟩ := step_foreign h hd hne hnt
    exact ⟨d', h1, fromCore d d' h2 rfl rfl⟩

/-- a 126464 of kind `which` from the entry's source stores its list -/
theorem step_pgn_store {e : Env} {s s' : State} {m : Msg} (h : StepDesc e s s' m) (hi : Inv s) {d : Device} {which : Nat}
    (hwhich : which = 0 ∨ which = 1)
    (hd : devAt s m.source = some d) (hsrc : m.source < MaxBusDevices) (hp : m.pgn = pgnList) (hty : listType m = which) :
    ∃ d', devAt s' m.source = some d' ∧ d'.name = d.name ∧
      getPGNs (d'.pgnBlock which) = .ok (some ((pgnListOf m).takeWhile (· ≠ 0))) := by
  have hnc : m.pgn ≠ pgnClaim := by rw [hp]; decide
  -- the entry the handler works on is `d` itself (`Pre` adds nothing under an occupied source)
  obtain ⟨d1, d', heff, h1, h2⟩ := step_own h hd hsrc hnc
  have hw : DevWF d := hi.good.wf _ d hd
  cases heff with
  | prod p hc _ => rw [hp] at hc; cases hc
  | conf r hc _ _ => rw [hp] at hc; cases hc
  | pgns d1 _ hu hcc =>
    have hname : d1.name = d.name := by
      obtain ⟨tb, ts, rb, rs, he, _⟩ := hcc
      rw [he]
    refine ⟨d', h1, by rw [core_name h2, hname], ?_⟩
    unfold Device.pgnBlock
    rw [core_tx h2, core_rx h2]
    rcases hwhich with hw0 | hw1
    · subst hw0
      simp only [if_true]
      exact (pgnUpdate_tx e hw m hty hu).1
    · subst hw1
      simp only [show ¬ (1 = 0) by decide, if_false]
      exact (pgnUpdate_rx e hw m hty hu).1
  | none _ _ hc => exact absurd hp hc

theorem run_pgn_keep : ∀ (l : List (Env × Msg)) {s : State} {src : Nat} {d : Device} {which : Nat},
    which = 0 ∨ which = 1 → Inv s → devAt s src = some d → Quiet l src d.name →
    (∀ em ∈ l, ¬ (em.2.source = src ∧ em.2.pgn = pgnList ∧ listType em.2 = which)) →
    ∃ s' d', run s l = .ok s' ∧ Inv s' ∧ devAt s' src = some d' ∧ d'.name = d.name ∧
      d'.pgnBlock which = d.pgnBlock which := by
  intro l
  induction l with
  | nil => intro s src d which _ hi hd _ _; exact ⟨s, d, rfl, hi, hd, rfl, rfl⟩
  | cons em t ih =>
    intro s src d which hw hi hd hq hp
    obtain ⟨s1, h1, hi1, hdesc⟩ := handleMsg_spec em.1 hi em.2
    obtain ⟨d1, hd1, hn1, hb1⟩ := step_pgn_keep hdesc hw hd (hq em (by simp)) (hp em (by simp))
    obtain ⟨s', d', h2, hi2, hd2, hn2, hb2⟩ := ih hw hi1 hd1
      (by intro em' hem'; rw [hn1]; exact hq em' (by simp [hem']))
      (fun em' hem' => hp em' (by simp [hem']))
    exact ⟨s', d', by simp [run, h1, h2], hi2, hd2, by rw [hn2, hn1], by rw [hb2, hb1]⟩

end N2k.DeviceList
