import N2k.Model.Bus
import N2k.Lemmas.Framing
/-! Wire format of the address claim: what the library sends is the ISO 11783-5 frame, and both receivers
(the library's receive path and a conforming foreign node) read the (NAME, address) pair back. -/
namespace N2k.Bus
open N2k.Send N2k.Time N2k.Claim

/-- the frame `SendIsoAddressClaim` hands to the driver for device `d` -/
def claimFrameL (d : Dev) : Frame := ⟨n2kToCanId 6 60928 d.source 0xff, 8, (le64 d.name).take 8⟩

/-- how the library's receive path reads a frame: PGN 60928 → (NAME, source) -/
def libDecode (f : Frame) : Option Iso.Claim :=
  if (canIdToN2k f.id).2.1 = 60928 then some (claimName f, (canIdToN2k f.id).2.2.1) else none

theorem rxFrame_eq (x : Inst) (f : Frame) :
    rxFrame x f = match libDecode f with
      | some c => handleClaim x c.2 c.1
      | none => x := by
  unfold rxFrame libDecode
  by_cases h : (canIdToN2k f.id).2.1 = 60928 <;> simp [h]

theorem range8 (g : Nat → Nat) : (List.range 8).map g = [g 0, g 1, g 2, g 3, g 4, g 5, g 6, g 7] := rfl

theorem claimId_eq (a : Nat) (ha : a < 256) : n2kToCanId 6 60928 a 0xff = Iso.claimId a := by
  rw [id_layout 6 60928 a 0xff (by omega) ha (by omega) (by intro _; rfl)]
  unfold Spec.canId Spec.isPDU1 Iso.claimId
  simp

theorem claimFrameL_eq (d : Dev) (hs : d.source < 256) : claimFrameL d = frameOfClaim (d.name, d.source) := by
  unfold claimFrameL frameOfClaim Iso.encodeClaim
  simp only [claimId_eq d.source hs, le64, Iso.nameBytes, range8, Nat.shiftRight_eq_div_pow]
  rfl

theorem claimId_ne_zero (a : Nat) (ha : a < 256) : n2kToCanId 6 60928 a 0xff ≠ 0 := by
  rw [claimId_eq a ha]; unfold Iso.claimId; omega

theorem nameOfBytes_nameBytes (nm : Nat) (h : nm < 2^64) : Iso.nameOfBytes (Iso.nameBytes nm) = nm := by
  unfold Iso.nameBytes
  rw [range8]
  simp only [Iso.nameOfBytes]
  omega

theorem leVal_nameBytes (nm : Nat) (h : nm < 2^64) : le64Val (Iso.nameBytes nm) = nm := by
  unfold Iso.nameBytes le64Val
  rw [range8]
  simp only [List.take, leVal]
  omega

/-- a conforming foreign node reads the claim back -/
theorem isoDecode_frameOfClaim (nm a : Nat) (hn : nm < 2^64) (ha : a < 256) :
    Iso.decodeClaim (frameOfClaim (nm, a)).id (frameOfClaim (nm, a)).len (frameOfClaim (nm, a)).data = some (nm, a) := by
  unfold frameOfClaim Iso.encodeClaim Iso.decodeClaim
  simp only
  have h1 : Iso.claimId a / 2^16 % 256 = 0xEE := by unfold Iso.claimId; omega
  have h2 : Iso.claimId a / 2^24 % 4 = 0 := by unfold Iso.claimId; omega
  have h3 : (Iso.nameBytes nm).length = 8 := by unfold Iso.nameBytes; simp
  have h4 : Iso.claimId a % 256 = a := by unfold Iso.claimId; omega
  rw [if_pos ⟨h1, h2, trivial, h3⟩, nameOfBytes_nameBytes nm hn, h4]

/-- the library's receive path reads the claim back -/
theorem libDecode_frameOfClaim (nm a : Nat) (hn : nm < 2^64) (ha : a < 256) :
    libDecode (frameOfClaim (nm, a)) = some (nm, a) := by
  have hid : (frameOfClaim (nm, a)).id = Spec.canId 6 60928 a 255 := by
    unfold frameOfClaim Iso.encodeClaim Iso.claimId Spec.canId Spec.isPDU1; simp
  have hrt := id_roundtrip 6 60928 a 255 (by omega) (by omega) ha (by omega) (by intro _; rfl)
  unfold libDecode
  rw [hid, hrt]
  simp only [↓reduceIte]
  have hnm : claimName (frameOfClaim (nm, a)) = nm := by
    unfold claimName frameOfClaim Iso.encodeClaim
    simp only [ge_iff_le, Nat.le_refl, ↓reduceIte]
    exact leVal_nameBytes nm hn
  rw [hnm]

end N2k.Bus
