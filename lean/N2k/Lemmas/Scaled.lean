import N2k.Model.Scaled
/-! Helper lemmas for C06 (scaled numeric fields): byte-list arithmetic, store/load per field kind. -/
namespace N2k.Scaled

/-- the nine field kinds of the library -/
def Kind (w : Nat) (s : Bool) : Prop := w = 1 ∨ w = 2 ∨ w = 3 ∨ w = 4 ∨ (w = 8 ∧ s = true)

/-- integers that are values of IEEE doubles: `±m·2^e` with a 53-bit `m` -/
def DoubleInt (k : Int) : Prop :=
  ∃ m e : Nat, m < 2 ^ 53 ∧ (k = (m * 2 ^ e : Nat) ∨ k = -((m * 2 ^ e : Nat) : Int))

/-- `2^63 - 1` (the 8-byte NA code) is not a double: every double in `[2^53, 2^63]` is even. -/
theorem DoubleInt.ne_na8 {k : Int} (h : DoubleInt k) : k ≠ 9223372036854775807 := by
  obtain ⟨m, e, hm, hk⟩ := h
  cases e with
  | zero => simp at hk; omega
  | succ n =>
    have : m * 2 ^ (n + 1) = 2 * (m * 2 ^ n) := by rw [Nat.pow_succ]; simp [Nat.mul_comm, Nat.mul_left_comm]
    rw [this] at hk
    generalize m * 2 ^ n = t at hk
    omega

/-- `(double)vl` is exact below 2^53 — every field of up to 4 bytes, and 8-byte codes of that size -/
theorem dblOfInt_small (k : Int) (h : k.natAbs < 2 ^ 53) : dblOfInt k = k := by
  simp [dblOfInt, h]

theorem leVal_take_leBytes (w u : Nat) (rest : List Nat) :
    leVal ((leBytes w u ++ rest).take w) = u % 256 ^ w := by
  induction w generalizing u with
  | zero => simp [leBytes, leVal, Nat.mod_one]
  | succ n ih => simp [leBytes, leVal, ih, Nat.pow_succ', Nat.mod_mul]

theorem leBytes_length (w u : Nat) : (leBytes w u).length = w := by
  induction w generalizing u with
  | zero => rfl
  | succ n ih => simp [leBytes, ih]

theorem leBytes_lt (w u : Nat) : ∀ b ∈ leBytes w u, b < 256 := by
  induction w generalizing u with
  | zero => simp [leBytes]
  | succ n ih => simp [leBytes]; exact ⟨Nat.mod_lt _ (by decide), ih _⟩

/-- in range ⇒ the range test passes, the cast is defined, the bytes are the two's complement of `k` -/
theorem store_in (w : Nat) (s : Bool) (k : Int) (hw : Kind w s) (hlo : loBound w s ≤ k)
    (hhi : k < orAsDouble w s) :
    setBufDouble w s (.int k) = .ok (leBytes w (toUnsigned (tBits w) k)) := by
  rcases hw with rfl | rfl | rfl | rfl | ⟨rfl, rfl⟩ <;> try cases s
  all_goals
    simp [loBound, orCode, orAsDouble] at hlo hhi
    simp [setBufDouble, Vd.ge, Vd.lt, loBound, orAsDouble, orCode, castT, tMin, tMax, tSigned, tBits, hlo, hhi]
  all_goals (rw [if_pos (by omega)]; rfl)

/-- the range test fails ⇒ exactly the out-of-range code, no conversion is attempted -/
theorem store_out (w : Nat) (s : Bool) (vd : Vd)
    (h : (vd.ge (loBound w s) && vd.lt (orAsDouble w s)) = false) :
    setBufDouble w s vd = .ok (leBytes w (toUnsigned (tBits w) (orCode w s))) := by
  simp only [setBufDouble, h]; rfl

/-- load of the stored two's-complement bytes, whatever follows them in the buffer -/
theorem load_bytes (w : Nat) (s : Bool) (k : Int) (hw : Kind w s) (hlo : loBound w s ≤ k)
    (hhi : k ≤ orCode w s) (rest : List Nat) :
    getBufDouble w s (leBytes w (toUnsigned (tBits w) k) ++ rest) = some k := by
  unfold getBufDouble
  rw [leVal_take_leBytes]
  rcases hw with rfl | rfl | rfl | rfl | ⟨rfl, rfl⟩ <;> try cases s
  all_goals
    simp [loBound, orCode] at hlo hhi
    simp [asT, tBits, tSigned, naCode, toUnsigned]
  case inr.inr.inl.true =>
    refine ⟨by omega, ?_⟩
    by_cases hneg : k < 0
    · rw [if_pos (by omega)]; simp only [Option.some.injEq]; omega
    · rw [if_neg (by omega)]; simp only [Option.some.injEq]; omega
  all_goals omega

/-- the NA bytes load as "not available" -/
theorem load_na (w : Nat) (s : Bool) (hw : Kind w s) (rest : List Nat) :
    getBufDouble w s (naBytes w s ++ rest) = none := by
  unfold getBufDouble naBytes
  rw [leVal_take_leBytes]
  rcases hw with rfl | rfl | rfl | rfl | ⟨rfl, rfl⟩ <;> try cases s
  all_goals simp [asT, tBits, tSigned, naCode]

end N2k.Scaled

/-! ## the exact front end over ℚ -/
namespace N2k.Scaled

theorem round_bounds (q : Rat) :
    q - 1/2 ≤ (roundHalfAway q : Rat) ∧ (roundHalfAway q : Rat) ≤ q + 1/2 := by
  unfold roundHalfAway
  split
  · have h1 := Rat.floor_le (q + 1/2)
    have h2 := Rat.lt_floor_add_one (q + 1/2)
    rw [Rat.intCast_add] at h2
    constructor <;> grind
  · have h1 := Rat.floor_le (-q + 1/2)
    have h2 := Rat.lt_floor_add_one (-q + 1/2)
    rw [Rat.intCast_add] at h2
    rw [Rat.intCast_neg]
    constructor <;> grind

/-- truncation moves toward zero by less than one -/
theorem trunc_bounds (q : Rat) :
    (0 ≤ q → (truncQ q : Rat) ≤ q ∧ q < (truncQ q : Rat) + 1 ∧ 0 ≤ truncQ q) ∧
    (q < 0 → q ≤ (truncQ q : Rat) ∧ (truncQ q : Rat) < q + 1 ∧ truncQ q ≤ 0) := by
  unfold truncQ
  constructor
  · intro h
    rw [if_pos h]
    have h1 := Rat.floor_le q
    have h2 := Rat.lt_floor_add_one q
    rw [Rat.intCast_add] at h2
    refine ⟨h1, by grind, ?_⟩
    have : ((0 : Int) : Rat) < ((q.floor + 1 : Int) : Rat) := by rw [Rat.intCast_add]; grind
    have := Rat.intCast_lt_intCast.mp this
    omega
  · intro h
    rw [if_neg (by grind)]
    have h1 := Rat.floor_le (-q)
    have h2 := Rat.lt_floor_add_one (-q)
    rw [Rat.intCast_add] at h2
    rw [Rat.intCast_neg]
    refine ⟨by grind, by grind, ?_⟩
    have : ((0 : Int) : Rat) < (((-q).floor + 1 : Int) : Rat) := by rw [Rat.intCast_add]; grind
    have := Rat.intCast_lt_intCast.mp this
    omega

/-- the model's own rounding (half away from zero; truncation for 8 bytes) is within the stated tolerance -/
theorem front_within (w : Nat) (q : Rat) : absQ ((frontQ w q : Rat) - q) ≤ tolQ w := by
  unfold frontQ tolQ absQ
  by_cases h8 : w = 8
  · simp only [h8, if_true]
    have hb := trunc_bounds q
    by_cases hq : 0 ≤ q
    · obtain ⟨a, b, _⟩ := hb.1 hq
      split <;> grind
    · obtain ⟨a, b, _⟩ := hb.2 (by grind)
      split <;> grind
  · simp only [h8, if_false]
    have hb := round_bounds q
    split <;> grind


end N2k.Scaled
