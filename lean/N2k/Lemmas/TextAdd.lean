import N2k.Lemmas.TextBasic
/-! Characterisation of the add side of `N2k.Model.Text` (C16): each add is a `blit` of an explicit
(or at least payload-independent) list at the fill level. Core Lean only. -/
namespace N2k.Text

/-- number of bytes before the first NUL -/
def nz (l : List Nat) : Nat := (l.takeWhile (· ≠ 0)).length

@[simp] theorem nz_nil : nz [] = 0 := rfl
theorem nz_cons_zero (t : List Nat) : nz (0 :: t) = 0 := by simp [nz]
theorem nz_cons_ne {b : Nat} (t : List Nat) (h : b ≠ 0) : nz (b :: t) = nz t + 1 := by
  simp [nz, h]
theorem nz_le (l : List Nat) : nz l ≤ l.length := by
  induction l with
  | nil => simp
  | cons b t ih =>
    by_cases hb : b = 0
    · subst hb; simp [nz_cons_zero]
    · rw [nz_cons_ne t hb]; simp; exact ih

theorem sbsCopy_eq (k : Nat) (rest : List Nat) (index : Nat) (d : D) (h : index + k ≤ MaxDataLen) :
    sbsCopy k (.at rest) index d
      = .ok (k - min k (nz rest), index + min k (nz rest), blit d index (rest.take (min k (nz rest)))) := by
  induction k generalizing rest index d with
  | zero => simp [sbsCopy]
  | succ k ih =>
    cases rest with
    | nil => simp [sbsCopy]
    | cons b t =>
      by_cases hb : b = 0
      · subst hb; simp [sbsCopy, nz_cons_zero]
      · have hw : index < MaxDataLen := by omega
        have hmin : min (k + 1) (nz (b :: t)) = min k (nz t) + 1 := by rw [nz_cons_ne t hb]; omega
        simp only [sbsCopy, Ptr.deref_at, List.headD_cons, bind_ok, if_neg hb, wr_ok hw]
        rw [Ptr.add_cons t 0 hb, Ptr.add_zero, ih t (index + 1) _ (by omega), hmin, blit_cons]
        simp only [List.take_succ_cons]
        simp only [Except.ok.injEq, Prod.mk.injEq]
        exact ⟨by omega, by omega, trivial⟩

theorem sbsFill_eq (k fc index : Nat) (d : D) (h : index + k ≤ MaxDataLen) :
    sbsFill k fc index d = .ok (index + k, blit d index (List.replicate k fc)) := by
  induction k generalizing index d with
  | zero => simp [sbsFill]
  | succ k ih =>
    have hw : index < MaxDataLen := by omega
    simp only [sbsFill, wr_ok hw, bind_ok]
    rw [ih (index + 1) _ (by omega), blit_cons, List.replicate_succ]
    congr 2; omega

/-- the bytes `SetBufStr` writes: the text up to `len` bytes, padded with `fc` to exactly `len` -/
def strField (s : List Nat) (len fc : Nat) : List Nat :=
  s.take (min len (nz s)) ++ List.replicate (len - min len (nz s)) fc

theorem strField_length (s : List Nat) (len fc : Nat) : (strField s len fc).length = len := by
  have := nz_le s
  simp [strField, List.length_take]; omega

theorem setBufStr_eq (s : List Nat) (len index : Nat) (d : D) (fc : Nat) (h : index + len ≤ MaxDataLen) :
    setBufStr (.at s) len index d fc = .ok (index + len, blit d index (strField s len fc)) := by
  have := nz_le s
  simp only [setBufStr, sbsCopy_eq len s index d h, bind_ok]
  rw [sbsFill_eq _ _ _ _ (by omega)]
  have hl : (s.take (min len (nz s))).length = min len (nz s) := by simp [List.length_take]; omega
  rw [blit_append' _ _ _ _ _ hl]
  simp only [strField]
  congr 2; omega

theorem addStr_eq (s : List Nat) (len fill fc : Nat) (d : D) (h : fill + len ≤ MaxDataLen) :
    addStr ⟨d, fill⟩ (.at s) len fc = .ok ⟨blit d fill (strField s len fc), fill + len⟩ := by
  simp [addStr, setBufStr_eq s len fill d fc h]

/-! ### AddAISStr -/

theorem aisLoop_eq (len : Nat) (rest : List Nat) (dl : Nat) (d : D) (h : dl ≤ MaxDataLen) :
    aisLoop len (.at rest) dl dl d
      = .ok (len - min (min len (nz rest)) (MaxDataLen - dl), dl + min (min len (nz rest)) (MaxDataLen - dl),
             dl + min (min len (nz rest)) (MaxDataLen - dl),
             blit d dl ((rest.take (min (min len (nz rest)) (MaxDataLen - dl))).map aisChar)) := by
  induction len generalizing rest dl d with
  | zero => simp [aisLoop]
  | succ len ih =>
    cases rest with
    | nil => simp [aisLoop]
    | cons b t =>
      by_cases hb : b = 0
      · subst hb; simp [aisLoop, nz_cons_zero]
      · by_cases hd : dl < MaxDataLen
        · have hc : b ≠ 0 ∧ dl < MaxDataLen := ⟨hb, hd⟩
          have hmin : min (min (len + 1) (nz (b :: t))) (MaxDataLen - dl)
              = min (min len (nz t)) (MaxDataLen - (dl + 1)) + 1 := by rw [nz_cons_ne t hb]; omega
          simp only [aisLoop, Ptr.deref_at, List.headD_cons, bind_ok, if_pos hc, wr_ok hd]
          rw [Ptr.add_cons t 0 hb, Ptr.add_zero, ih t (dl + 1) _ (by omega), hmin, blit_cons]
          simp only [List.take_succ_cons, List.map_cons]
          congr 2
          · omega
          · congr 1
            · omega
            · congr 1; omega
        · have hc : ¬ (b ≠ 0 ∧ dl < MaxDataLen) := fun x => hd x.2
          have h0 : MaxDataLen - dl = 0 := by omega
          simp [aisLoop, if_neg hc, h0]

theorem memsetD_eq (n v bi : Nat) (d : D) (h : bi + n ≤ MaxDataLen) :
    memsetD n v bi d = .ok (blit d bi (List.replicate n v)) := by
  induction n generalizing bi d with
  | zero => simp [memsetD]
  | succ n ih =>
    have hw : bi < MaxDataLen := by omega
    simp only [memsetD, wr_ok hw, bind_ok]
    rw [ih (bi + 1) _ (by omega), blit_cons, List.replicate_succ]

/-- the bytes `AddAISStr` writes with `free` bytes left in the payload -/
def aisField (s : List Nat) (len free : Nat) : List Nat :=
  (s.take (min (min len (nz s)) free)).map aisChar
    ++ List.replicate (min (len - min (min len (nz s)) free) (free - min (min len (nz s)) free)) 0x40

theorem aisField_length (s : List Nat) (len free : Nat) : (aisField s len free).length = min len free := by
  have := nz_le s
  simp [aisField, List.length_take]; omega

theorem addAISStr_eq (s : List Nat) (len fill : Nat) (d : D) (h : fill ≤ MaxDataLen) :
    addAISStr ⟨d, fill⟩ (.at s) len
      = .ok ⟨blit d fill (aisField s len (MaxDataLen - fill)), fill + min len (MaxDataLen - fill)⟩ := by
  have hnz := nz_le s
  simp only [addAISStr, aisLoop_eq len s fill d h, bind_ok]
  generalize hc : min (min len (nz s)) (MaxDataLen - fill) = c
  have hl : ((s.take c).map aisChar).length = c := by simp [List.length_take]; omega
  have hr : (if len - c > MaxDataLen - (fill + c) then MaxDataLen - (fill + c) else len - c)
      = min (len - c) (MaxDataLen - fill - c) := by split <;> omega
  rw [hr]
  generalize hr' : min (len - c) (MaxDataLen - fill - c) = r
  have hfield : aisField s len (MaxDataLen - fill) = (s.take c).map aisChar ++ List.replicate r 0x40 := by
    simp only [aisField, hc, hr']
  by_cases hr0 : r > 0
  · rw [if_pos hr0, memsetD_eq r 0x40 (fill + c) _ (by omega)]
    simp only [bind_ok]
    rw [blit_append' _ _ _ _ _ hl, hfield]
    congr 2; omega
  · have : r = 0 := by omega
    subst this
    rw [if_neg hr0]
    simp only [bind_ok, pure_eq, hfield, List.replicate_zero, List.append_nil]
    congr 2; omega

end N2k.Text
