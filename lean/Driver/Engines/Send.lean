import N2k.Model.Send
import Driver.Util
-- engine: send
/-! Engine `send` (C01, C04 gate, C11): runs `sendMsg` / `poll` / `startAddressClaim` of `Model/Send.lean`. -/
namespace Driver.Send
open N2k.Send N2k.Time Driver

def frameStr (f : Frame) : String :=
  s!"{String.ofList (Nat.toDigits 16 f.id)}:{f.len}:{hexOfBytes (f.data.take (min f.len 8))}"

def framesStr (l : List Frame) : String :=
  if l.isEmpty then "-" else " ".intercalate (l.map frameStr)

def hexNat? (s : String) : Option Nat :=
  s.toList.foldl (fun acc c => do let a ← acc; let d ← hexDigit c; some (a * 16 + d)) (some 0)

def emptyFrame : Frame := ⟨0, 0, []⟩

def parseDev (fl : Flavor) (s : String) : Option Dev :=
  match s.splitOn ":" with
  | [a, n] => do
    let src ← nat? a
    let name ← hexNat? n
    some { source := src, name := name, claimTimer := Sched.disabled fl,
           endSource := if src > 0 then src - 1 else 251 }
  | _ => none

def natList? (l : List String) : Option (List Nat) := l.mapM nat?

/-- take the frames the driver accepted during the last op -/
def takeSent (s : St) : St × List Frame := ({ s with drv := { s.drv with sent := [] } }, s.drv.sent)

def step (st : Option St) (w : List String) : Option St × String :=
  match w with
  | ["tpseq", _, _] => (st, "ok")   -- self-contained directed check on a scratch node (harness oracle only); no model state involved
  | "reset" :: fl :: q :: mode :: now :: devs =>
    match nat? q, nat? mode, nat? now with
    | some q, some mode, some now =>
      let f := if fl = "t32" then Flavor.t32 else Flavor.t64
      match devs.mapM (parseDev f) with
      | some ds =>
        (some { flavor := f, now := now, listenOnly := mode == 0, claimMode := mode == 1 || mode == 2,
                lists := {}, devs := ds,
                ring := { n := q, buf := fun _ => emptyFrame, read := 0, write := 0 },
                drv := { script := [], dflt := true, sent := [] } }, "ok")
      | none => (st, "bad-op")
    | _, _, _ => (st, "bad-op")
  | "reset0" :: fl :: q :: mode :: now :: devs =>
    -- a node that has just been constructed at time `now` (not opened yet)
    match nat? q, nat? mode, nat? now with
    | some q, some mode, some now =>
      let f := if fl = "t32" then Flavor.t32 else Flavor.t64
      match devs.mapM (parseDev f) with
      | some ds =>
        (some { flavor := f, now := now, listenOnly := mode == 0, claimMode := mode == 1 || mode == 2,
                openState := 0, openSched := Sched.fromNow f now 0,
                lists := {}, devs := ds,
                ring := { n := q, buf := fun _ => emptyFrame, read := 0, write := 0 },
                drv := { script := [], dflt := true, sent := [] } }, "ok")
      | none => (st, "bad-op")
    | _, _, _ => (st, "bad-op")
  | _ =>
  match st with
  | none => (st, "bad-op")
  | some s =>
    match w with
    | "txlist" :: d :: pgns =>
      match nat? d, natList? pgns with
      | some d, some ps =>
        match s.devs[d]? with
        | some dv => (some { s with devs := s.devs.set d { dv with txList := dv.txList ++ ps } }, "ok")
        | none => (st, "ok")
      | _, _ => (st, "ok")          -- negative / invalid device index: ExtendTransmitMessages ignores it
    | "fplist0" :: pgns => match natList? pgns with
      | some ps => (some { s with lists := { s.lists with fp0 := some ps } }, "ok")
      | none => (st, "bad-op")
    | "fplist1" :: pgns => match natList? pgns with
      | some ps => (some { s with lists := { s.lists with fp1 := some ps } }, "ok")
      | none => (st, "bad-op")
    | ["acc", bits] =>
      (some { s with drv := { s.drv with script := s.drv.script ++ bits.toList.map (· == '1') } }, "ok")
    | ["accdef", b] => (some { s with drv := { s.drv with dflt := b == "1" } }, "ok")
    | ["t", ms] => match nat? ms with
      | some k => (some { s with now := s.now + k }, "ok")
      | none => (st, "bad-op")
    | ["canopen", b] => (some { s with canOpenOk := b == "1" }, "ok")
    | ["q"] => (st, s!"{s.ring.read} {s.ring.write}")
    | ["poll"] =>
      let (s', fr) := takeSent (pollTop s)
      (some s', s!"- {framesStr fr}")
    | ["claim", d] => match nat? d with
      | some d =>
        let (s', fr) := takeSent (startAddressClaim s d)
        (some s', s!"- {framesStr fr}")
      | none => (st, "bad-op")
    | ["send", d, prio, pgn, src, dst, len, hx] =>
      match nat? prio, nat? pgn, nat? src, nat? dst, nat? len, hexBytes? hx with
      | some prio, some pgn, some src, some dst, some len, some data =>
        let dev : Option Nat := if d.startsWith "-" then none else nat? d
        let (s1, ret) := sendMsgTop s { prio := prio, pgn := pgn, src := src, dst := dst, len := len, data := data } dev
        let (s2, fr) := takeSent s1
        (some s2, s!"{boolStr ret} {framesStr fr}")
      | _, _, _, _, _, _ => (st, "bad-op")
    | _ => (st, "bad-op")

def main : IO Unit := loop step none

end Driver.Send
