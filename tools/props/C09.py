"""C09 - NMEA group function PGN 126208: requests/commands/reads/writes are answered and supported commands take effect."""
SPEC = {
    'engine': 'gf', 'harness': 'gf.cpp',
    'repo_srcs': ['N2kMsg.cpp', 'N2kStream.cpp', 'N2kMessages.cpp', 'N2kTimer.cpp', 'N2kGroupFunction.cpp', 'N2kGroupFunctionDefaultHandlers.cpp', 'NMEA2000.cpp'],
    'variants': ['', 't32'],
    'lean_modules': ['N2k.Props.C09'], 'props_files': ['N2k/Props/C09.lean'],
    'translators': ['pgn_tables'],
    'case_start': ['reset'],
    'trusted_base': [],
    'assumptions': [],
}
MANIFEST = {
    'text': "",
    'design_ref': 'DESIGN.md section 4, C09',
    'note': "",
}
