import N2k.Lemmas.RxHistory
/-!
# Refinement: the slot machine simulates the abstract reassembler `Spec.step` as long as the slot search succeeds

`Abs st S` : for every (PGN, source) the abstract unfinished message `S pgn src` is the ghost history of the busy slot
of that key, and `[]` iff there is no such slot.
-/
namespace N2k.Rx
open Spec

def Abs (st : St) (S : SState) : Prop :=
  ∀ pgn src,
    (S pgn src = [] ∧ ∀ j, j < st.N → (st.slot j).free = false →
        ¬ ((st.slot j).pgn = pgn ∧ (st.slot j).src = src)) ∨
    (∃ j, j < st.N ∧ (st.slot j).free = false ∧ (st.slot j).pgn = pgn ∧ (st.slot j).src = src ∧
        (st.slot j).hist = S pgn src)

theorem Abs.init (n : Nat) : Abs (init n) Spec.empty := by
  intro pgn src
  left
  exact ⟨rfl, fun j _ h => by simp [N2k.Rx.init, emptySlot] at h⟩

/-- slot `i` (free, or busy with the key of `f`) is replaced by `s`, the abstract message of `f`'s key by `w` -/
theorem Abs.update {st : St} {S : SState} (hA : Abs st S) (f : Frame) (i : Nat) (hi : i < st.N) (s : Slot)
    (w : List Frame)
    (hoth : ∀ j, j < st.N → j ≠ i → (st.slot j).free = false →
      ¬ ((st.slot j).pgn = f.pgn ∧ (st.slot j).src = f.src))
    (hold : (st.slot i).free = false → (st.slot i).pgn = f.pgn ∧ (st.slot i).src = f.src)
    (hnew : (s.free = true ∧ w = []) ∨ (s.free = false ∧ s.pgn = f.pgn ∧ s.src = f.src ∧ s.hist = w)) :
    Abs (setSlot st i s) (sset S f.pgn f.src w) := by
  have hsl : ∀ j, (setSlot st i s).slot j = if j = i then s else st.slot j := fun j => rfl
  intro pgn src
  by_cases hk : pgn = f.pgn ∧ src = f.src
  · have hS : sset S f.pgn f.src w pgn src = w := by simp [sset, hk]
    rw [hS]
    rcases hnew with ⟨hf, hw⟩ | ⟨hf, hp, hs, hh⟩
    · left
      refine ⟨hw, ?_⟩
      intro j hj hfj hkj
      rw [hsl] at hfj hkj
      by_cases hji : j = i
      · simp only [hji, ↓reduceIte] at hfj; rw [hf] at hfj; cases hfj
      · simp only [hji, ↓reduceIte] at hfj hkj
        exact hoth j hj hji hfj ⟨by rw [hkj.1, hk.1], by rw [hkj.2, hk.2]⟩
    · right
      refine ⟨i, hi, ?_⟩
      rw [hsl]; simp only [↓reduceIte]
      exact ⟨hf, by rw [hp, hk.1], by rw [hs, hk.2], hh⟩
  · have hS : sset S f.pgn f.src w pgn src = S pgn src := by simp [sset, hk]
    rw [hS]
    rcases hA pgn src with ⟨h1, h2⟩ | ⟨j, hj, hfj, hpj, hsj, hhj⟩
    · left
      refine ⟨h1, ?_⟩
      intro j hj hfj hkj
      rw [hsl] at hfj hkj
      by_cases hji : j = i
      · simp only [hji, ↓reduceIte] at hfj hkj
        rcases hnew with ⟨hf, _⟩ | ⟨_, hp, hs, _⟩
        · rw [hf] at hfj; cases hfj
        · exact hk ⟨by rw [← hkj.1, hp], by rw [← hkj.2, hs]⟩
      · simp only [hji, ↓reduceIte] at hfj hkj
        exact h2 j hj hfj hkj
    · right
      have hji : j ≠ i := by
        intro hji
        rw [hji] at hfj hpj hsj
        obtain ⟨a, b⟩ := hold hfj
        exact hk ⟨by rw [← hpj, a], by rw [← hsj, b]⟩
      refine ⟨j, hj, ?_⟩
      rw [hsl]; simp only [hji, ↓reduceIte]
      exact ⟨hfj, hpj, hsj, hhj⟩

/-- a free slot is replaced by a free slot -/
theorem Abs.update_free {st : St} {S : SState} (hA : Abs st S) (i : Nat) (s : Slot)
    (hold : (st.slot i).free = true) (hnew : s.free = true) : Abs (setSlot st i s) S := by
  have hsl : ∀ j, (setSlot st i s).slot j = if j = i then s else st.slot j := fun j => rfl
  intro pgn src
  rcases hA pgn src with ⟨h1, h2⟩ | ⟨j, hj, hfj, hpj, hsj, hhj⟩
  · left
    refine ⟨h1, ?_⟩
    intro j hj hfj hkj
    rw [hsl] at hfj hkj
    by_cases hji : j = i
    · simp only [hji, ↓reduceIte] at hfj; rw [hnew] at hfj; cases hfj
    · simp only [hji, ↓reduceIte] at hfj hkj
      exact h2 j hj hfj hkj
  · right
    have hji : j ≠ i := by intro hji; rw [hji, hold] at hfj; cases hfj
    refine ⟨j, hj, ?_⟩
    rw [hsl]; simp only [hji, ↓reduceIte]
    exact ⟨hfj, hpj, hsj, hhj⟩

/-! ### the code's tests are the specification's tests -/

theorem msgOf_chain {s : Slot} {f0 : Frame} (hw : FPWit s f0) (hready : s.data.length ≥ s.dataLen) :
    msgOf s = chainMsg f0 s.hist := by
  have hdl : s.data.length ≤ 223 := by rw [hw.data, List.length_take]; exact Nat.min_le_left _ _
  have hL : f0.byte 1 ≤ 223 := by rw [← hw.dataLen]; omega
  simp only [msgOf, chainMsg, hw.prio, hw.pgn, hw.src, hw.dst, hw.dataLen, hw.data, List.take_take]
  rw [Nat.min_eq_left hL]

theorem ready_iff {s : Slot} {f0 : Frame} (hw : FPWit s f0) :
    s.data.length ≥ s.dataLen ↔ complete f0 s.hist = true := by
  unfold complete
  simp only [Bool.and_eq_true, decide_eq_true_eq]
  rw [hw.data, hw.dataLen, List.length_take]
  omega

theorem inSeq_iff {s : Slot} {f0 : Frame} (hw : FPWit s f0) (f : Frame) (hc : f.byte 0 % 32 ≠ 0) :
    s.lastFrame + 1 = f.byte 0 ↔ inSeq f0 s.hist f = true := by
  unfold inSeq
  simp only [Bool.and_eq_true, decide_eq_true_eq]
  have h1 := hw.last
  have h2 := hw.chain.length_le
  have h3 := hw.chain.first
  have h4 : 0 < s.hist.length := List.length_pos_iff.mpr hw.chain.ne_nil
  omega

/-- deliver-or-store equals the specification's complete-or-keep -/
theorem finish_refines {st : St} {S : SState} (hA : Abs st S) (i : Nat) (hi : i < st.N) (s' : Slot) (f f0 : Frame)
    (hoth : ∀ j, j < st.N → j ≠ i → (st.slot j).free = false →
      ¬ ((st.slot j).pgn = f.pgn ∧ (st.slot j).src = f.src))
    (hold : (st.slot i).free = false → (st.slot i).pgn = f.pgn ∧ (st.slot i).src = f.src)
    (hfree : s'.free = false) (hw : FPWit s' f0) (hp : s'.pgn = f.pgn) (hs : s'.src = f.src) :
    Abs (finish st i s').1
      (if complete f0 s'.hist then sset S f.pgn f.src [] else sset S f.pgn f.src s'.hist) ∧
    (finish st i s').2 = (if complete f0 s'.hist then some (chainMsg f0 s'.hist) else none) := by
  unfold finish
  by_cases hready : s'.data.length ≥ s'.dataLen
  · rw [if_pos hready, if_pos ((ready_iff hw).mp hready), if_pos ((ready_iff hw).mp hready)]
    exact ⟨hA.update f i hi _ [] hoth hold (Or.inl ⟨rfl, rfl⟩), by rw [msgOf_chain hw hready]⟩
  · have hnc : ¬ complete f0 s'.hist = true := fun h => hready ((ready_iff hw).mpr h)
    rw [if_neg hready, if_neg hnc, if_neg hnc]
    exact ⟨hA.update f i hi _ _ hoth hold (Or.inr ⟨hfree, hp, hs, rfl⟩), rfl⟩

/-- the first-frame search did not have to give up or to recycle a slot -/
def avail (st : St) (f : Frame) : Bool := decide (findSlot st f < st.N) || decide (findFreeOnly st < st.N)

theorem findFree_of_avail (st : St) (now : Nat) (f : Frame) (h : avail st f = true) :
    findFree st now f < st.N ∧
    ((st.slot (findFree st now f)).free = true ∨ matchP f (st.slot (findFree st now f)) = true) := by
  unfold avail at h
  simp only [Bool.or_eq_true, decide_eq_true_eq] at h
  unfold findFree
  by_cases hm : findSlot st f < st.N
  · rw [if_pos hm]
    exact ⟨hm, Or.inr (findFirst_found st (matchP f) hm)⟩
  · rw [if_neg hm]
    have hf : findFreeOnly st < st.N := by rcases h with h | h; exact absurd h hm; exact h
    rw [if_pos hf]
    exact ⟨hf, Or.inl (findFirst_found st (fun s => s.free) hf)⟩

/-- no slot carries the TP flag (true as long as no TP.CM RTS/BAM frame has been received) -/
def NoTP (st : St) : Prop := ∀ j, j < st.N → (st.slot j).tp = false

theorem NoTP.init (n : Nat) : NoTP (init n) := fun _ _ => rfl

theorem NoTP.setSlot {st : St} (hT : NoTP st) (i : Nat) (s : Slot) (hs : s.tp = false) : NoTP (setSlot st i s) := by
  intro j hj
  show (if j = i then s else st.slot j).tp = false
  split
  · exact hs
  · exact hT j hj

theorem NoTP.finish {st : St} (hT : NoTP st) (i : Nat) (s : Slot) (hs : s.tp = false) : NoTP (finish st i s).1 := by
  unfold N2k.Rx.finish
  split
  · exact hT.setSlot i _ hs
  · exact hT.setSlot i _ hs

theorem NoTP.rxCore {st : St} (hT : NoTP st) (isFP : Nat → Bool) (now : Nat) (f : Frame) :
    NoTP (rxCore isFP st now f).1 := by
  unfold N2k.Rx.rxCore
  split
  · split
    · split
      · exact hT.finish _ _ (hT _ (by assumption))
      · exact hT.setSlot _ _ (hT _ (by assumption))
    · exact hT
  · split
    · refine hT.finish _ _ ?_
      unfold initSlot; split <;> rfl
    · exact hT

/-- one handled frame: the slot machine makes the step of the abstract reassembler -/
theorem rxCore_refines (isFP : Nat → Bool) (h0 : isFP 0 = false) (st : St) (H : List Frame) (S : SState)
    (hI : Inv isFP st H) (hA : Abs st S) (hT : NoTP st) (now : Nat) (f : Frame) (hf : WFrame f)
    (hav : (isFP f.pgn && f.byte 0 % 32 != 0) = false → avail st f = true) :
    Abs (rxCore isFP st now f).1 (step isFP S f).1 ∧ (rxCore isFP st now f).2 = (step isFP S f).2 := by
  unfold rxCore step
  by_cases hc : (isFP f.pgn && f.byte 0 % 32 != 0) = true
  · -- continuation frame
    rw [if_pos hc]
    simp only [Bool.and_eq_true, bne_iff_ne, ne_eq] at hc
    obtain ⟨hfp, hb0⟩ := hc
    rw [if_pos hfp, if_neg hb0]
    by_cases hi : findSlot st f < st.N
    · rw [if_pos hi]
      have hfound : matchP f (st.slot (findSlot st f)) = true := findFirst_found st (matchP f) hi
      obtain ⟨hpg, hsr, htp⟩ := (matchP_iff f _).mp hfound
      have hoth : ∀ j, j < st.N → j ≠ findSlot st f → (st.slot j).free = false →
          ¬ ((st.slot j).pgn = f.pgn ∧ (st.slot j).src = f.src) :=
        fun j hj hji hfj => hI.others_of_match h0 f _ hi hfound j hj hji hfj (hT j hj)
      have hnf : (st.slot (findSlot st f)).free = false := by
        cases hfr : (st.slot (findSlot st f)).free with
        | false => rfl
        | true =>
          have := hI.free _ hi hfr
          rw [this] at hpg; rw [← hpg, h0] at hfp; cases hfp
      obtain ⟨_, ⟨f0, hw⟩, _⟩ := hI.busy _ hi hnf htp
      -- the abstract message of this key is the slot's history
      have hS : S f.pgn f.src = (st.slot (findSlot st f)).hist := by
        rcases hA f.pgn f.src with ⟨_, h2⟩ | ⟨j, hj, hfj, hpj, hsj, hhj⟩
        · exact absurd ⟨hpg, hsr⟩ (h2 _ hi hnf)
        · have : j = findSlot st f := by
            apply Decidable.byContradiction
            intro hne
            exact hoth j hj hne hfj ⟨hpj, hsj⟩
          subst this; exact hhj.symm
      have hhead := hw.chain.head
      cases hh : (st.slot (findSlot st f)).hist with
      | nil => exact absurd hh hw.chain.ne_nil
      | cons a t =>
        rw [hh] at hhead
        simp only [List.head?_cons, Option.some.injEq] at hhead
        subst hhead
        rw [hS, hh]
        simp only
        by_cases hl : (st.slot (findSlot st f)).lastFrame + 1 = f.byte 0
        · have hseq : inSeq a (a :: t) f = true := by rw [← hh]; exact (inSeq_iff hw f hb0).mp hl
          rw [if_pos hl, if_pos hseq]
          have hw' := hw.snoc f hpg.symm hsr.symm hl hb0
          have hr := finish_refines hA _ hi (contSlot (st.slot (findSlot st f)) f) f a hoth
            (fun _ => ⟨hpg, hsr⟩) hnf hw' hpg hsr
          have hhist : (contSlot (st.slot (findSlot st f)) f).hist = a :: t ++ [f] := by
            show (st.slot (findSlot st f)).hist ++ [f] = _
            rw [hh]
          rw [hhist] at hr
          constructor
          · have := hr.1
            split
            · rename_i hcm; rw [if_pos hcm] at this; exact this
            · rename_i hcm; rw [if_neg hcm] at this; exact this
          · rw [hr.2]; split <;> rfl
        · have hseq : ¬ inSeq a (a :: t) f = true := by
            rw [← hh]; exact fun h => hl ((inSeq_iff hw f hb0).mpr h)
          rw [if_neg hl, if_neg hseq]
          exact ⟨hA.update f _ hi _ [] hoth (fun _ => ⟨hpg, hsr⟩) (Or.inl ⟨rfl, rfl⟩), rfl⟩
    · rw [if_neg hi]
      have hS : S f.pgn f.src = [] := by
        rcases hA f.pgn f.src with ⟨h1, _⟩ | ⟨j, hj, _, hpj, hsj, _⟩
        · exact h1
        · exact absurd ⟨hpj, hsj⟩ (Inv.others_of_nomatch f hi j hj (hT j hj))
      rw [hS]
      exact ⟨hA, rfl⟩
  · -- first / single frame
    rw [if_neg hc]
    have hc' : (isFP f.pgn && f.byte 0 % 32 != 0) = false := by
      cases h : (isFP f.pgn && f.byte 0 % 32 != 0) with
      | false => rfl
      | true => exact absurd h hc
    obtain ⟨hi, hslot⟩ := findFree_of_avail st now f (hav hc')
    rw [if_pos hi]
    have hoth : ∀ j, j < st.N → j ≠ findFree st now f → (st.slot j).free = false →
        ¬ ((st.slot j).pgn = f.pgn ∧ (st.slot j).src = f.src) :=
      fun j hj hji hfj => hI.others_of_findFree h0 now f hi j hj hji hfj (hT j hj)
    have hold : (st.slot (findFree st now f)).free = false →
        (st.slot (findFree st now f)).pgn = f.pgn ∧ (st.slot (findFree st now f)).src = f.src := by
      intro hb
      rcases hslot with hfr | hm
      · rw [hfr] at hb; cases hb
      · exact ⟨((matchP_iff f _).mp hm).1, ((matchP_iff f _).mp hm).2.1⟩
    cases hfp : isFP f.pgn with
    | false =>
      simp only [Bool.false_eq_true, ↓reduceIte]
      have hlen : (copy [] 0 f).length = f.len := by
        rw [copy_single f hf, List.length_take]; have := hf.1; have := hf.2; omega
      have hfin : finish st (findFree st now f) (initSlot (st.slot (findFree st now f)) now f false) =
          (setSlot st (findFree st now f) (freeSlot (initSlot (st.slot (findFree st now f)) now f false)),
           some (msgOf (initSlot (st.slot (findFree st now f)) now f false))) := by
        unfold finish
        rw [if_pos (by simp [initSlot, hlen])]
      rw [hfin]
      have hwasfree : (st.slot (findFree st now f)).free = true := by
        cases hb : (st.slot (findFree st now f)).free with
        | true => rfl
        | false =>
          have := (hI.busy _ hi hb (hT _ hi)).1
          rw [(hold hb).1, hfp] at this; cases this
      refine ⟨hA.update_free _ _ hwasfree rfl, ?_⟩
      simp only [msgOf, initSlot, Bool.false_eq_true, ↓reduceIte, copy_single f hf, Option.some.injEq]
      congr 1
      apply List.take_of_length_le
      rw [List.length_take]; exact Nat.min_le_left _ _
    | true =>
      have hb0 : f.byte 0 % 32 = 0 := by
        simp only [hfp, Bool.true_and, bne_eq_false_iff_eq] at hc'
        exact hc'
      simp only [↓reduceIte, hb0]
      have hw := FPWit.init (st.slot (findFree st now f)) now f hb0
      have hr := finish_refines hA _ hi (initSlot (st.slot (findFree st now f)) now f true) f f hoth hold
        (by simp [initSlot]) hw (by simp [initSlot]) (by simp [initSlot])
      have hhist : (initSlot (st.slot (findFree st now f)) now f true).hist = [f] := by simp [initSlot]
      rw [hhist] at hr
      constructor
      · have := hr.1
        split
        · rename_i hcm; rw [if_pos hcm] at this; exact this
        · rename_i hcm; rw [if_neg hcm] at this; exact this
      · rw [hr.2]; split <;> rfl

end N2k.Rx
