import N2k.Lemmas.TextVar
import N2k.Lemmas.TextGet
/-! Round trips of `N2k.Model.Text` (C16): what `GetStr`/`GetVarStr` return for a field written by the
corresponding add. Core Lean only. -/
namespace N2k.Text

/-- the C string held by a destination of `n` bytes: the bytes before the first NUL -/
def textOf (n : Nat) (dst : D) : List Nat := ((List.range n).map dst).takeWhile (· ≠ 0)

theorem map_range_blit (d : D) (L : List Nat) : (List.range L.length).map (blit d 0 L) = L := by
  apply List.ext_getElem
  · simp
  · intro i h1 h2
    simp only [List.getElem_map, List.getElem_range]
    have := blit_in d 0 L i h2
    simp only [Nat.zero_add] at this
    rw [this, List.getD_eq_getElem?_getD, List.getElem?_eq_getElem h2]; rfl

theorem slice_blit (d : D) (i : Nat) (L : List Nat) (a k : Nat) (h : a + k ≤ L.length) :
    slice (blit d i L) (i + a) k = (L.drop a).take k := by
  induction k generalizing a with
  | zero => simp [slice]
  | succ k ih =>
    have ha : a < L.length := by omega
    have e : i + a + 1 = i + (a + 1) := by omega
    rw [slice, blit_in d i L a ha, e, ih (a + 1) (by omega), List.drop_eq_getElem_cons ha, List.take_succ_cons]
    rw [List.getD_eq_getElem?_getD, List.getElem?_eq_getElem ha]; rfl

theorem slice_take (d : D) (i k K : Nat) (h : k ≤ K) : slice d i k = (slice d i K).take k := by
  induction k generalizing i K with
  | zero => simp [slice]
  | succ k ih =>
    obtain ⟨K', rfl⟩ : ∃ K', K = K' + 1 := ⟨K - 1, by omega⟩
    simp only [slice, List.take_succ_cons]
    rw [ih (i + 1) K' (by omega)]

theorem stripGo_true (nul : Nat) (R : List Nat) : stripGo nul true R = List.replicate R.length 0 := by
  induction R with
  | nil => rfl
  | cons b t ih => simp [stripGo, ih, List.replicate_succ]

theorem stripGo_pad (nul : Nat) (R : List Nat) (h : ∀ b ∈ R, b = nul) :
    stripGo nul false R = List.replicate R.length 0 := by
  cases R with
  | nil => rfl
  | cons b t =>
    have : b = 0 ∨ b = nul := Or.inr (h b (by simp))
    simp [stripGo, this, stripGo_true, List.replicate_succ]

theorem stripGo_clean (nul : Nat) (A R : List Nat) (hA : ∀ b ∈ A, b ≠ 0 ∧ b ≠ nul) :
    stripGo nul false (A ++ R) = A ++ stripGo nul false R := by
  induction A with
  | nil => rfl
  | cons b t ih =>
    have hb := hA b (by simp)
    have : ¬ (b = 0 ∨ b = nul) := by intro h; rcases h with h | h; exact hb.1 h; exact hb.2 h
    simp only [List.cons_append, stripGo, if_neg this]
    rw [ih (fun x hx => hA x (by simp [hx]))]

theorem takeWhile_clean (A : List Nat) (k : Nat) (hA : ∀ b ∈ A, b ≠ 0) :
    (A ++ List.replicate k 0).takeWhile (· ≠ 0) = A := by
  induction A with
  | nil => cases k <;> simp [List.replicate_succ]
  | cons b t ih =>
    have hb := hA b (by simp)
    simp only [List.cons_append, List.takeWhile_cons, ne_eq, hb, not_false_eq_true, decide_true, if_true]
    rw [ih (fun x hx => hA x (by simp [hx]))]

/-- sized `GetStr` on a field `A ++ P` (text `A` free of NUL and of the padding character, then padding):
    the destination receives `A` cut to `n-1` bytes -/
theorem getStr2_field (m : Msg) (n : Nat) (dst : D) (nul idx : Nat) (A P : List Nat)
    (hA : ∀ b ∈ A, b ≠ 0 ∧ b ≠ nul) (hP : ∀ b ∈ P, b = nul)
    (hfit : idx + (A ++ P).length ≤ m.len) (hdata : slice m.data idx (A ++ P).length = A ++ P) (hn : 0 < n) :
    ∃ dst', getStr2 m n dst (A ++ P).length nul idx = .ok (true, idx + (A ++ P).length, dst') ∧
      textOf n dst' = A.take (n - 1) := by
  refine ⟨_, getStr2_eq m n dst _ nul idx hn hfit, ?_⟩
  have hl := getStr2Out_length m n (A ++ P).length nul idx hn
  have hmr := map_range_blit dst (getStr2Out m n (A ++ P).length nul idx)
  rw [hl] at hmr
  simp only [textOf]
  rw [hmr]
  simp only [getStr2Out]
  generalize hc : min (A ++ P).length (n - 1) = cnt
  rw [slice_take m.data idx cnt (A ++ P).length (by omega), hdata, List.take_append]
  have hA' : ∀ b ∈ A.take cnt, b ≠ 0 ∧ b ≠ nul := fun b hb => hA b (List.mem_of_mem_take hb)
  rw [stripGo_clean nul _ _ hA', stripGo_pad nul _ (fun b hb => hP b (List.mem_of_mem_take hb)),
    List.append_assoc, List.replicate_append_replicate, takeWhile_clean _ _ (fun b hb => (hA' b hb).1)]
  -- A.take cnt = A.take (n-1)
  by_cases h : A.length ≤ cnt
  · rw [List.take_of_length_le h, List.take_of_length_le (by omega)]
  · have : cnt = n - 1 := by simp at hc; omega
    rw [this]

theorem nz_clean (s : List Nat) (h : ∀ b ∈ s, b ≠ 0) : nz s = s.length := by
  induction s with
  | nil => rfl
  | cons b t ih =>
    rw [nz_cons_ne t (h b (by simp)), ih (fun x hx => h x (by simp [hx]))]; rfl

theorem take_min_length (s : List Nat) (k : Nat) : s.take (min k s.length) = s.take k := by
  by_cases h : k ≤ s.length
  · rw [Nat.min_eq_left h]
  · rw [Nat.min_eq_right (by omega), List.take_of_length_le (Nat.le_refl _), List.take_of_length_le (by omega)]

theorem slice_blit0 (d : D) (i : Nat) (L : List Nat) : slice (blit d i L) i L.length = L := by
  have := slice_blit d i L 0 L.length (by omega)
  simpa using this

/-- **fixed-length field** (`AddStr` with the default fill 0xff, then `GetStr` with nulChar 0xff) -/
theorem rt_str (s : List Nat) (hs : ∀ b ∈ s, b ≠ 0 ∧ b ≠ 0xff) (fill max n : Nat) (d dst : D)
    (hfit : fill + max ≤ MaxDataLen) (hn : 0 < n) :
    ∃ m' dst', addStr ⟨d, fill⟩ (.at s) max 0xff = .ok m' ∧ m'.len = fill + max ∧
      getStr2 m' n dst max 0xff fill = .ok (true, fill + max, dst') ∧
      textOf n dst' = (s.take max).take (n - 1) := by
  have hnz := nz_clean s (fun b hb => (hs b hb).1)
  have hF : strField s max 0xff = s.take max ++ List.replicate (max - min max s.length) 0xff := by
    simp only [strField, hnz, take_min_length]
  have hlen : (s.take max ++ List.replicate (max - min max s.length) 0xff).length = max := by
    rw [← hF, strField_length]
  have := getStr2_field ⟨blit d fill (strField s max 0xff), fill + max⟩ n dst 0xff fill (s.take max)
    (List.replicate (max - min max s.length) 0xff)
    (fun b hb => hs b (List.mem_of_mem_take hb)) (fun b hb => (List.mem_replicate.mp hb).2)
    (by rw [hlen]; exact Nat.le_refl _) (by rw [hF]; exact slice_blit0 d fill _) hn
  rw [hlen] at this
  obtain ⟨dst', h1, h2⟩ := this
  exact ⟨_, dst', addStr_eq s max fill 0xff d hfit, rfl, h1, h2⟩

theorem aisChar_ne_zero (b : Nat) : aisChar b ≠ 0 := by
  simp only [aisChar]; split <;> split <;> omega

theorem aisChar_ne_at (b : Nat) (h : b ≠ 0x40) : aisChar b ≠ 0x40 := by
  simp only [aisChar]; split <;> split <;> omega

/-- **AIS field** (`AddAISStr`, then `GetStr` over the bytes added with nulChar '@') -/
theorem rt_ais (s : List Nat) (hs : ∀ b ∈ s, b ≠ 0 ∧ b ≠ 0x40) (fill max n : Nat) (d dst : D)
    (hfill : fill ≤ MaxDataLen) (hn : 0 < n) :
    ∃ m' dst', addAISStr ⟨d, fill⟩ (.at s) max = .ok m' ∧ m'.len = fill + min max (MaxDataLen - fill) ∧
      getStr2 m' n dst (m'.len - fill) 0x40 fill = .ok (true, m'.len, dst') ∧
      textOf n dst' = ((s.take (min max (MaxDataLen - fill))).map aisChar).take (n - 1) := by
  have hnz := nz_clean s (fun b hb => (hs b hb).1)
  generalize hk : min max (MaxDataLen - fill) = k
  have hF : ∃ r, aisField s max (MaxDataLen - fill) = (s.take k).map aisChar ++ List.replicate r 0x40 := by
    refine ⟨min (max - min (min max s.length) (MaxDataLen - fill))
      (MaxDataLen - fill - min (min max s.length) (MaxDataLen - fill)), ?_⟩
    simp only [aisField, hnz]
    have e : min (min max s.length) (MaxDataLen - fill) = min k s.length := by omega
    rw [e, take_min_length]
  obtain ⟨r, hF⟩ := hF
  have hlen : ((s.take k).map aisChar ++ List.replicate r 0x40).length = k := by
    rw [← hF, aisField_length, hk]
  have := getStr2_field ⟨blit d fill (aisField s max (MaxDataLen - fill)), fill + k⟩ n dst 0x40 fill
    ((s.take k).map aisChar) (List.replicate r 0x40)
    (fun b hb => by
      obtain ⟨x, hx, rfl⟩ := List.mem_map.mp hb
      exact ⟨aisChar_ne_zero x, aisChar_ne_at x (hs x (List.mem_of_mem_take hx)).2⟩)
    (fun b hb => (List.mem_replicate.mp hb).2)
    (by rw [hlen]; exact Nat.le_refl _) (by rw [hF]; exact slice_blit0 d fill _) hn
  rw [hlen] at this
  obtain ⟨dst', h1, h2⟩ := this
  refine ⟨_, dst', addAISStr_eq s max fill d hfill, by rw [hk], ?_, h2⟩
  have e : fill + k - fill = k := by omega
  simp only [hk, e]
  exact h1

/-! ### variable-length field, ASCII text -/

theorem and128 : ∀ c, c < 128 → c &&& 0x80 = 0 := by decide

theorem seqLen_ascii (c : Nat) (h : c < 128) : seqLen c = 1 := by
  simp [seqLen, and128 c h]

theorem ruLoop_ascii (f : Nat) (s : List Nat) (hs : ∀ b ∈ s, b < 0x80) (hf : s.length < f) :
    ruLoop f (.at s) (s.headD 0) = .ok false := by
  induction f generalizing s with
  | zero => omega
  | succ f ih =>
    cases s with
    | nil => simp [ruLoop]
    | cons c t =>
      show ruLoop (f + 1) (.at (c :: t)) c = .ok false
      by_cases hc : c = 0
      · simp [ruLoop, hc]
      · have h1 := seqLen_ascii c (hs c (by simp))
        simp only [ruLoop, if_neg hc, h1, add_one_at c t hc, Ptr.deref_at, bind_ok]
        simp only [Nat.sub_self, ruCont, bind_ok, pure_eq]
        exact ih t (fun b hb => hs b (by simp [hb])) (by simp at hf; omega)

theorem requireUnicode_ascii (s : List Nat) (hs : ∀ b ∈ s, b < 0x80) : requireUnicode (.at s) = .ok false := by
  simp only [requireUnicode, Ptr.deref_at, bind_ok]
  exact ruLoop_ascii _ s hs (by simp [Ptr.fuel])

theorem textOf_zero (n : Nat) (dst : D) (hn : 0 < n) : textOf n (upd dst 0 0) = [] := by
  obtain ⟨k, rfl⟩ : ∃ k, n = k + 1 := ⟨n - 1, by omega⟩
  simp [textOf, List.range_succ_eq_map, upd]

/-- reading back what `AddVarStr` appended for a text stored verbatim (type 1) -/
theorem getVarStr_ascii_field (d dst : D) (fill n : Nat) (body : List Nat) (hn : 0 < n)
    (hb : ∀ b ∈ body, b ≠ 0 ∧ b ≠ 0xff) (hfit : fill + body.length + 2 ≤ MaxDataLen) :
    ∃ r sz idx' dst',
      getVarStr ⟨blit d fill ((body.length + 2) :: 1 :: body), fill + (body.length + 2)⟩ n dst 0xff fill
        = .ok (r, sz, idx', dst') ∧ textOf n dst' = body.take (n - 1) := by
  have hM : MaxDataLen = 223 := rfl
  generalize hL : (body.length + 2) :: 1 :: body = L
  have hLl : L.length = body.length + 2 := by subst hL; simp
  have g0 : blit d fill L fill = body.length + 2 := by
    have := blit_in d fill L 0 (by omega); subst hL; simpa using this
  have g1 : blit d fill L (fill + 1) = 1 := by
    have := blit_in d fill L 1 (by omega); subst hL; simpa using this
  have b1 : getByte ⟨blit d fill L, fill + (body.length + 2)⟩ fill = .ok (body.length + 2, fill + 1) := by
    rw [getByte_ok _ _ (by show fill < fill + (body.length + 2); omega)]; simp only [g0]
  have b2 : getByte ⟨blit d fill L, fill + (body.length + 2)⟩ (fill + 1) = .ok (1, fill + 1 + 1) := by
    rw [getByte_ok _ _ (by show fill + 1 < fill + (body.length + 2); omega)]; simp only [g1]
  simp only [getVarStr, b1, b2, bind_ok]
  by_cases h0 : body.length = 0
  · have hbn : body = [] := List.eq_nil_of_length_eq_zero h0
    have hc : body.length + 2 ≤ 2 ∨ body.length + 2 = 0xff ∨ 1 > 1 ∨ fill + 1 + 1 ≥ fill + (body.length + 2) :=
      Or.inl (by omega)
    have hc2 : body.length + 2 = 2 ∧ 1 ≤ 1 := ⟨by omega, by omega⟩
    simp only [if_pos hc, if_pos hn, wd_ok hn, bind_ok, if_pos hc2, pure_eq]
    exact ⟨_, _, _, _, rfl, by rw [textOf_zero n dst hn, hbn]; simp⟩
  · have hc : ¬ (body.length + 2 ≤ 2 ∨ body.length + 2 = 0xff ∨ 1 > 1 ∨ fill + 1 + 1 ≥ fill + (body.length + 2)) := by
      omega
    have hl : (if body.length + 2 - 2 + (fill + 1 + 1) > fill + (body.length + 2)
        then fill + (body.length + 2) - (fill + 1 + 1) else body.length + 2 - 2) = body.length := by
      split <;> omega
    simp only [if_neg hc, hl, if_pos hn, if_true]
    have hsl : slice (blit d fill L) (fill + 1 + 1) body.length = body := by
      have := slice_blit d fill L 2 body.length (by omega)
      rw [show fill + 1 + 1 = fill + 2 from rfl, this]; subst hL; simp
    have := getStr2_field ⟨blit d fill L, fill + (body.length + 2)⟩ n dst 0xff (fill + 1 + 1) body []
      hb (by simp) (by simp; omega) (by simpa using hsl) hn
    simp only [List.append_nil] at this
    obtain ⟨dst', h1, h2⟩ := this
    simp only [h1, bind_ok, pure_eq]
    exact ⟨_, _, _, _, rfl, h2⟩

/-- **variable-length field, ASCII text**: stored verbatim with type 1 and read back, cut to the maximum,
    the free payload and the destination -/
theorem rt_var_ascii (s : List Nat) (hs : ∀ b ∈ s, b ≠ 0 ∧ b < 0x80) (fill maxLen n : Nat) (uni chars : Bool)
    (d dst : D) (hfill : fill + 2 ≤ MaxDataLen) (hn : 0 < n) :
    ∃ m' r sz idx' dst', addVarStr ⟨d, fill⟩ (.at s) maxLen uni chars = .ok m' ∧
      m'.data (fill + 1) = 1 ∧
      getVarStr m' n dst 0xff fill = .ok (r, sz, idx', dst') ∧
      textOf n dst' = (s.take (min maxLen (MaxDataLen - fill - 2))).take (n - 1) := by
  have hM : MaxDataLen = 223 := rfl
  obtain ⟨L, hL1, hshape, hadd⟩ := addVarStr_spec s fill maxLen uni chars (by omega)
  have hru := requireUnicode_ascii s (fun b hb => (hs b hb).2)
  have hnz := nz_clean s (fun b hb => (hs b hb).1)
  rcases hshape with ⟨h, _⟩ | ⟨h, _⟩ | ⟨_, type, body, rfl, hbl, htype, hty, _, _, hbody⟩
  · omega
  · omega
  · have ht1 : type = 1 := by
      rcases hty with h | h
      · have := htype.mp h; rw [hru] at this; simp at this
      · exact h
    subst ht1
    have hbody := hbody hru
    have hbc : ∀ b ∈ body, b ≠ 0 ∧ b ≠ 0xff := by
      intro b hb; rw [hbody] at hb
      have := hs b (List.mem_of_mem_take hb); omega
    obtain ⟨r, sz, idx', dst', h1, h2⟩ := getVarStr_ascii_field d dst fill n body hn hbc (by omega)
    refine ⟨_, r, sz, idx', dst', hadd d, ?_, ?_, ?_⟩
    · have := blit_in d fill ((body.length + 2) :: 1 :: body) 1 (by simp)
      simpa using this
    · simpa using h1
    · rw [h2, hbody, hnz]
      have e : min (min s.length maxLen) (MaxDataLen - fill - 2) = min (min maxLen (MaxDataLen - fill - 2)) s.length := by
        omega
      rw [e, take_min_length]

end N2k.Text
