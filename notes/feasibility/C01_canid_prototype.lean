def n2kToCanId (prio pgn src dst : Nat) : Nat :=
  let pf := (pgn >>> 8) % 256
  if pf < 240 then
    if pgn % 256 ≠ 0 then 0
    else ((prio % 8) <<< 26) ||| (pgn <<< 8) ||| (dst <<< 8) ||| src
  else ((prio % 8) <<< 26) ||| (pgn <<< 8) ||| src

def specId (prio pgn src dst : Nat) : Nat :=
  let pf := (pgn / 256) % 256
  if pf < 240 then (prio % 8) * 2^26 + pgn * 256 + dst * 256 + src
  else (prio % 8) * 2^26 + pgn * 256 + src

theorem lor_of_mod (a b k : Nat) (ha : a % 2^k = 0) (hb : b < 2^k) : a ||| b = a + b := by
  have h1 : a = (a / 2^k) <<< k := by
    rw [Nat.shiftLeft_eq]; have := Nat.div_add_mod a (2^k); rw [ha] at this; rw [Nat.mul_comm]; omega
  rw [h1, Nat.shiftLeft_add_eq_or_of_lt hb]

theorem id_layout (prio pgn src dst : Nat) (hp : pgn < 2^17) (hs : src < 256) (hd : dst < 256)
    (hv : (pgn / 256) % 256 < 240 → pgn % 256 = 0) :
    n2kToCanId prio pgn src dst = specId prio pgn src dst := by
  unfold n2kToCanId specId
  simp only [Nat.shiftRight_eq_div_pow, Nat.shiftLeft_eq]
  split
  · rename_i h
    have h0 := hv h
    simp only [h0, ne_eq, not_true_eq_false, ↓reduceIte]
    rw [lor_of_mod (prio % 8 * 2^26) (pgn * 2^8) 26 (by omega) (by omega),
        lor_of_mod _ (dst * 2^8) 16 (by omega) (by omega),
        lor_of_mod _ src 8 (by omega) (by omega)]
  · rw [lor_of_mod (prio % 8 * 2^26) (pgn * 2^8) 26 (by omega) (by omega),
        lor_of_mod _ src 8 (by omega) (by omega)]
#print axioms id_layout
