import N2k.Lemmas.Published
import N2k.Gen.Layouts
/-! # C15 — setter output follows the published NMEA 2000 field layout for the listed PGNs

`N2k/Spec/PublishedLayouts.lean` is the frozen, hand-written table of the published layouts. The setter layouts are
the ones the C05 translator regenerates from the C++ source on every run (`N2k/Gen/Layouts.lean`, validated against
the real setters' bytes by the correspondence run). `agreesOnFields` is decided by the kernel per PGN;
`C15_encode_sound` (proved once) turns it into a statement about the payload bytes for ALL parameter values.
PGN 126464 (repeated field, loop in the setter) is outside the layout language: harness only. -/
namespace N2k.C15
open N2k.Layout N2k.Spec N2k.Gen.Layouts

/-- If the setter layout agrees with a published field, then for every parameter value the payload bits
`[off, off+len)` are the little-endian code of that parameter (the integer itself; for a scaled parameter its
code at exactly the published offset, byte width, signedness and resolution - the double→code step is C06). -/
theorem C15_encode_sound (P : Pair) (f : PubField) (n : String) (o : Nat) (params : Nat → Nat)
    (hsrc : f.src = .param n) (ho : P.names.findIdx? (· == n) = some o)
    (h : agreesField P f = true) (hlt : params o < 2 ^ pubW P f o) :
    fieldValue (encode P.setterBits params) f.off f.len = params o % 2 ^ f.len ∧ recAgree P f o = true := by
  simp only [agreesField, hsrc, ho, Bool.and_eq_true] at h
  exact ⟨fieldValue_eq P f o params h.1 hlt, h.2⟩

/-- every field of a table that agrees is placed as published -/
theorem C15_table_sound (P : Pair) (L : List PubField) (h : agreesOnFields P L = true) (f : PubField) (hf : f ∈ L)
    (n : String) (o : Nat) (params : Nat → Nat) (hsrc : f.src = .param n)
    (ho : P.names.findIdx? (· == n) = some o) (hlt : params o < 2 ^ pubW P f o) :
    fieldValue (encode P.setterBits params) f.off f.len = params o % 2 ^ f.len ∧ recAgree P f o = true :=
  C15_encode_sound P f n o params hsrc ho (List.all_eq_true.mp h f hf) hlt

example : agreesField pair_127250 ⟨"Heading", 8, 16, false, 1, 4, .param "Heading"⟩ = true := by decide +kernel
/-- a wrong resolution, a wrong offset or a wrong signedness in the table would NOT agree (the check is not vacuous) -/
example : agreesField pair_127250 ⟨"Heading", 8, 16, false, 1, 3, .param "Heading"⟩ = false := by decide +kernel
example : agreesField pair_127250 ⟨"Heading", 16, 16, false, 1, 4, .param "Heading"⟩ = false := by decide +kernel
example : agreesField pair_127250 ⟨"Heading", 8, 16, true, 1, 4, .param "Heading"⟩ = false := by decide +kernel

/-! protocol PGNs -/
theorem C15_pgn_59392 : agreesOnFields pair_59392 layout_59392 = true := by decide +kernel
theorem C15_pgn_59904 : agreesOnFields pair_59904 layout_59904 = true := by decide +kernel
theorem C15_pgn_60928 : agreesOnFields pair_60928 layout_60928 = true := by decide +kernel
theorem C15_pgn_126996 : agreesOnFields pair_126996 layout_126996 = true := by decide +kernel
/-- PGN 126993 Heartbeat, setter path for intervals up to `MaxHeartbeatInterval` (`pair_126993_a`): the interval is
written to the published 16 bits as `timeInterval_ms / 10`, i.e. with the published resolution of 10 ms per bit
(side record ⟨offset 0, 2 bytes, unsigned, 10⟩ on the integer parameter), and the sequence counter follows. -/
theorem C15_pgn_126993 : agreesOnFields pair_126993_a layout_126993 = true := by decide +kernel
/-- … on the other path (interval above the limit, `pair_126993_b`) the interval field holds the published
"out of range" code 0xfffe and the sequence counter is placed as published. -/
theorem C15_pgn_126993_out_of_range :
    (List.range 16).all (fun i => srcAt pair_126993_b.setter i == some (if i = 0 then .zero else .one)) = true ∧
    agreesOnFields pair_126993_b (layout_126993.filter (·.name != "interval")) = true := by decide +kernel

/-! data PGNs -/
theorem C15_pgn_126992 : agreesOnFields pair_126992 layout_126992 = true := by decide +kernel
theorem C15_pgn_127245 : agreesOnFields pair_127245 layout_127245 = true := by decide +kernel
theorem C15_pgn_127250 : agreesOnFields pair_127250 layout_127250 = true := by decide +kernel
theorem C15_pgn_127251 : agreesOnFields pair_127251 layout_127251 = true := by decide +kernel
theorem C15_pgn_127257 : agreesOnFields pair_127257 layout_127257 = true := by decide +kernel
theorem C15_pgn_127488 : agreesOnFields pair_127488 layout_127488 = true := by decide +kernel
theorem C15_pgn_127489 : agreesOnFields pair_127489 layout_127489 = true := by decide +kernel
theorem C15_pgn_127505 : agreesOnFields pair_127505 layout_127505 = true := by decide +kernel
theorem C15_pgn_127508 : agreesOnFields pair_127508 layout_127508 = true := by decide +kernel
theorem C15_pgn_128259 : agreesOnFields pair_128259 layout_128259 = true := by decide +kernel
theorem C15_pgn_128267 : agreesOnFields pair_128267 layout_128267 = true := by decide +kernel
theorem C15_pgn_128275 : agreesOnFields pair_128275 layout_128275 = true := by decide +kernel
theorem C15_pgn_129025 : agreesOnFields pair_129025 layout_129025 = true := by decide +kernel
theorem C15_pgn_129026 : agreesOnFields pair_129026 layout_129026 = true := by decide +kernel
/-- PGN 129029: every field up to the reference-station count; the repeated reference-station record is written in
a conditional of variable length, see the path variant below. -/
theorem C15_pgn_129029 : agreesOnFields pair_129029 layout_129029 = true := by decide +kernel
/-- … and on the path with reference stations (`pair_129029_a`) the whole message including the station record -/
theorem C15_pgn_129029_a : agreesOnFields pair_129029_a (layout_129029 ++ layout_129029_a) = true := by decide +kernel
theorem C15_pgn_129033 : agreesOnFields pair_129033 layout_129033 = true := by decide +kernel
theorem C15_pgn_129283 : agreesOnFields pair_129283 layout_129283 = true := by decide +kernel
/-- PGN 129284 Navigation Data: every field except the ETA date is placed as published … -/
theorem C15_pgn_129284_partial :
    agreesOnFields pair_129284 (layout_129284.filter (·.name != "ETA Date")) = true := by decide +kernel
/-- … the ETA date is at the published position, but the library's parameter is an `int16_t` while the published
field is an unsigned day count: the type's "not available" (0x7fff) is a valid date for every other device and
the published NA (0xffff) cannot be passed (known finding `C15:129284:ETA_Date`, open: changing the parameter type
breaks callers of the parser). -/
theorem C15_pgn_129284_ETADate_mismatch :
    bitsAgree pair_129284 ⟨"ETA Date", 80, 16, false, 1, 0, .param "ETADate"⟩ 7 = true ∧
    recAgree pair_129284 ⟨"ETA Date", 80, 16, false, 1, 0, .param "ETADate"⟩ 7 = false := by decide +kernel
theorem C15_pgn_129539 : agreesOnFields pair_129539 layout_129539 = true := by decide +kernel
theorem C15_pgn_130306 : agreesOnFields pair_130306 layout_130306 = true := by decide +kernel
theorem C15_pgn_130310 : agreesOnFields pair_130310 layout_130310 = true := by decide +kernel
theorem C15_pgn_130311 : agreesOnFields pair_130311 layout_130311 = true := by decide +kernel
theorem C15_pgn_130312 : agreesOnFields pair_130312 layout_130312 = true := by decide +kernel
theorem C15_pgn_130313 : agreesOnFields pair_130313 layout_130313 = true := by decide +kernel
theorem C15_pgn_130314 : agreesOnFields pair_130314 layout_130314 = true := by decide +kernel
theorem C15_pgn_130316 : agreesOnFields pair_130316 layout_130316 = true := by decide +kernel


/-! Code points of the enumerated fields: the frozen published table against the enumerations as the translator reads
them from the headers on this run. -/
theorem C15_enum_TimeSource : enumAgrees enum_TimeSource enum_tN2kTimeSource = true := by decide +kernel
theorem C15_enum_RudderDirectionOrder : enumAgrees enum_RudderDirectionOrder enum_tN2kRudderDirectionOrder = true := by decide +kernel
theorem C15_enum_HeadingReference : enumAgrees enum_HeadingReference enum_tN2kHeadingReference = true := by decide +kernel
theorem C15_enum_FluidType : enumAgrees enum_FluidType enum_tN2kFluidType = true := by decide +kernel
theorem C15_enum_SpeedWaterReferenceType : enumAgrees enum_SpeedWaterReferenceType enum_tN2kSpeedWaterReferenceType = true := by decide +kernel
theorem C15_enum_GNSStype : enumAgrees enum_GNSStype enum_tN2kGNSStype = true := by decide +kernel
theorem C15_enum_GNSSmethod : enumAgrees enum_GNSSmethod enum_tN2kGNSSmethod = true := by decide +kernel
theorem C15_enum_XTEMode : enumAgrees enum_XTEMode enum_tN2kXTEMode = true := by decide +kernel
theorem C15_enum_DistanceCalculationType : enumAgrees enum_DistanceCalculationType enum_tN2kDistanceCalculationType = true := by decide +kernel
theorem C15_enum_GNSSDOPmode : enumAgrees enum_GNSSDOPmode enum_tN2kGNSSDOPmode = true := by decide +kernel
theorem C15_enum_WindReference : enumAgrees enum_WindReference enum_tN2kWindReference = true := by decide +kernel
theorem C15_enum_TempSource : enumAgrees enum_TempSource enum_tN2kTempSource = true := by decide +kernel
theorem C15_enum_HumiditySource : enumAgrees enum_HumiditySource enum_tN2kHumiditySource = true := by decide +kernel
theorem C15_enum_PressureSource : enumAgrees enum_PressureSource enum_tN2kPressureSource = true := by decide +kernel
theorem C15_enum_PGNList : enumAgrees enum_PGNList enum_tN2kPGNList = true := by decide +kernel
/-- an exchanged pair of code points does not agree (the check is not vacuous) -/
example : enumAgrees enum_WindReference [("N2kWind_True_North", 0), ("N2kWind_Magnetic", 1), ("N2kWind_Apparent", 2),
    ("N2kWind_True_boat", 4), ("N2kWind_True_water", 3), ("N2kWind_Error", 6), ("N2kWind_Unavailable", 7)] = false := by decide +kernel


/-! Every public way of producing a listed PGN: the second main overload of 60928 and EVERY inline overload / alias
wrapper of the headers (read by the translator through the function it forwards to) is held against the published
table - its own where its parameters differ (one bool per status bit, fixed heading reference, NAME as a whole), else
the table of its PGN. A wrapper of a listed PGN for which no table applies fails the check (names are not found). -/
theorem C15_pgn_60928_name : agreesOnFields pair_60928_1 wlayout_SetN2kPGN60928_1 = true := by decide +kernel
theorem C15_all_wrappers : (N2k.Gen.Layouts.all.filter (·.isWrapper)).all setterAgrees = true := by decide +kernel
/-- the flag overload of PGN 127489 is among them, with one published bit per flag (not vacuous) -/
example : pair_127489w2.isWrapper = true ∧
    ((tableFor pair_127489w2).map fun t => (t.filter (fun f => f.len == 1)).length) = some 24 := by decide +kernel
example : 30 ≤ ((N2k.Gen.Layouts.all.filter (·.isWrapper)).filter (fun P => (tableFor P).isSome)).length := by decide +kernel
/-- a constant field is sound as well -/
theorem C15_const_sound (P : Pair) (f : PubField) (v : Nat) (params : Nat → Nat) (hsrc : f.src = .const v)
    (h : agreesField P f = true) : fieldValue (encode P.setterBits params) f.off f.len = v % 2 ^ f.len := by
  simp only [agreesField, hsrc] at h
  exact constValue_eq P f v params h


/-! Repeated / conditional records: on EVERY fully translated path of every setter of PGN 129029 (main function and alias
wrapper, with and without reference station) the payload length is the fixed part plus one 4-byte record per counted
station, for every value of the count that path can be taken with - in particular a count of exactly 1 is followed by
its record. -/
theorem C15_record_counts : N2k.Gen.Layouts.all.all repeatsOK = true := by decide +kernel
example : 4 ≤ (N2k.Gen.Layouts.all.filter fun P => P.pgn == 129029 && !P.setterPrefixOnly && P.setterOK).length := by decide +kernel
/-- a path that is taken with count 1 but writes no record does not pass (the check is not vacuous) -/
example : recordCountOK { pair_129029_b with setCond := .not (.and (.ne 12 255) (.gt 12 1)) } 336 43 4 = false := by decide +kernel

end N2k.C15
