import N2k.Model.Rx
import N2k.Lemmas.Time32
/-!
# Clock-origin shift of the reassembly slots (C13): `FindFreeCANMsgIndex` ageing, `SetN2kCANBufMsg`, TP slot take-over

`Model/Rx.lean` stamps a slot with the 32-bit clock when a message starts (`msgTime`) and compares stamps with
`N2kIsTimeBefore` / `N2kHasElapsed` only. `Slot.shift k` moves the stamp of every slot IN USE by `k` modulo 2^32; a free
slot keeps the constant 0 that `FreeMessage()` wrote (it is never read: the ageing scan runs only when no slot is
free). The whole receive machine commutes with the shift for EVERY `k`, without side conditions.
-/
namespace N2k.Rx
open N2k.Time

def Slot.shift (k : Nat) (s : Slot) : Slot := if s.free then s else { s with msgTime := (s.msgTime + k) % M32 }

def St.shift (k : Nat) (st : St) : St := { st with slot := fun j => (st.slot j).shift k }

theorem Slot.shift_free (k : Nat) (s : Slot) : (s.shift k).free = s.free := by
  unfold Slot.shift; cases h : s.free <;> simp [h]

/-- a predicate that does not look at the stamp -/
def StampFree (p : Slot → Bool) : Prop := ∀ k s, p (Slot.shift k s) = p s

theorem stampFree_matchP (f : Frame) : StampFree (matchP f) := by
  intro k s; unfold Slot.shift matchP; cases s.free <;> rfl

theorem stampFree_free : StampFree (fun s => s.free) := fun k s => Slot.shift_free k s

theorem stampFree_tpMatchP (pgn src dst : Nat) : StampFree (tpMatchP pgn src dst) := by
  intro k s; unfold Slot.shift tpMatchP; cases s.free <;> rfl

theorem findFirst_shift {p : Slot → Bool} (hp : StampFree p) (k : Nat) (st : St) (fuel : Nat) :
    ∀ i, findFirst (st.shift k) p fuel i = findFirst st p fuel i := by
  induction fuel with
  | zero => intro i; rfl
  | succ n ih =>
    intro i
    unfold findFirst
    have e1 : (st.shift k).N = st.N := rfl
    have e2 : (st.shift k).slot i = (st.slot i).shift k := rfl
    rw [e1, e2, hp, ih]

/-- nothing found ⇒ the predicate fails on every scanned slot -/
theorem findFirst_none {p : Slot → Bool} (st : St) (fuel : Nat) :
    ∀ i, findFirst st p fuel i ≥ st.N → ∀ j, i ≤ j → j < i + fuel → j < st.N → p (st.slot j) = false := by
  induction fuel with
  | zero => intro i _ j h1 h2 _; omega
  | succ n ih =>
    intro i h j h1 h2 h3
    unfold findFirst at h
    by_cases hi : i < st.N
    · rw [if_pos hi] at h
      by_cases hp : p (st.slot i) = true
      · rw [if_pos hp] at h; omega
      · rw [if_neg hp] at h
        by_cases hj : j = i
        · subst hj; simpa using hp
        · exact ih (i + 1) h j (by omega) (by omega) h3
    · omega

theorem millis32_shift (now k : Nat) : millis32 (now + k) = (millis32 now + k) % M32 := by
  unfold millis32 M32; omega

/-- the oldest-slot scan over slots in use: same index, shifted stamp -/
theorem oldest_shift (k : Nat) (st : St) (now : Nat) :
    ∀ n, (∀ j, j < n → (st.slot j).free = false) →
      oldest (st.shift k) (now + k) n = ((oldest st now n).1, ((oldest st now n).2 + k) % M32) := by
  intro n
  induction n with
  | zero => intro _; unfold oldest; rw [millis32_shift]; rfl
  | succ n ih =>
    intro hf
    have ih' := ih (fun j hj => hf j (by omega))
    have hn := hf n (by omega)
    unfold oldest
    rw [ih']
    have e2 : ((st.shift k).slot n).msgTime = ((st.slot n).msgTime + k) % M32 := by
      show ((st.slot n).shift k).msgTime = _
      unfold Slot.shift; rw [hn]; rfl
    simp only [e2, isTimeBefore_shift_mod]
    by_cases hb : isTimeBefore (st.slot n).msgTime (oldest st now n).2 = true
    · simp only [if_pos hb]
    · simp only [if_neg hb]

theorem hasElapsed_shift32 (s el now k : Nat) :
    hasElapsed ((s + k) % M32) el (millis32 (now + k)) = hasElapsed s el (millis32 now) := by
  unfold hasElapsed sub32 millis32 M32 INT32_MAX; simp only [decide_eq_decide]; omega

theorem recycle_shift (k : Nat) (st : St) (now : Nat) (hf : ∀ j, j < st.N → (st.slot j).free = false) :
    recycle (st.shift k) (now + k) = recycle st now := by
  unfold recycle
  have e1 : (st.shift k).N = st.N := rfl
  rw [e1, oldest_shift k st now st.N hf]
  simp only [hasElapsed_shift32]

theorem findSlot_shift (k : Nat) (st : St) (f : Frame) : findSlot (st.shift k) f = findSlot st f :=
  findFirst_shift (stampFree_matchP f) k st _ 0

theorem findFreeOnly_shift (k : Nat) (st : St) : findFreeOnly (st.shift k) = findFreeOnly st :=
  findFirst_shift stampFree_free k st _ 0

theorem noFree_of (st : St) (h : ¬ findFreeOnly st < st.N) : ∀ j, j < st.N → (st.slot j).free = false := by
  intro j hj
  have := findFirst_none (p := fun s => s.free) st st.N 0 (by unfold findFreeOnly at h; omega) j (by omega) (by omega) hj
  simpa using this

theorem findFree_shift (k : Nat) (st : St) (now : Nat) (f : Frame) :
    findFree (st.shift k) (now + k) f = findFree st now f := by
  unfold findFree
  have e1 : (st.shift k).N = st.N := rfl
  rw [findSlot_shift, findFreeOnly_shift, e1]
  by_cases h1 : findSlot st f < st.N
  · simp only [if_pos h1]
  · simp only [if_neg h1]
    by_cases h2 : findFreeOnly st < st.N
    · simp only [if_pos h2]
    · simp only [if_neg h2]; exact recycle_shift k st now (noFree_of st h2)

theorem setSlot_shift (k : Nat) (st : St) (i : Nat) (s : Slot) :
    setSlot (st.shift k) i (s.shift k) = (setSlot st i s).shift k := by
  unfold setSlot St.shift
  simp only
  congr 1
  funext j
  by_cases h : j = i
  · simp [h]
  · simp [h]

theorem freeSlot_shift (k : Nat) (s : Slot) : freeSlot (s.shift k) = (freeSlot s).shift k := by
  unfold Slot.shift freeSlot
  cases h : s.free <;> simp [h]

theorem msgOf_shift (k : Nat) (s : Slot) : msgOf (s.shift k) = msgOf s := by
  unfold Slot.shift msgOf; cases s.free <;> rfl

theorem finish_shift (k : Nat) (st : St) (i : Nat) (s : Slot) :
    finish (st.shift k) i (s.shift k) = ((finish st i s).1.shift k, (finish st i s).2) := by
  unfold finish
  have e1 : (s.shift k).data = s.data := by unfold Slot.shift; cases s.free <;> rfl
  have e2 : (s.shift k).dataLen = s.dataLen := by unfold Slot.shift; cases s.free <;> rfl
  rw [e1, e2]
  by_cases h : s.data.length ≥ s.dataLen
  · simp only [if_pos h]; rw [freeSlot_shift, setSlot_shift, msgOf_shift]
  · simp only [if_neg h]; rw [setSlot_shift]

theorem initSlot_shift (k : Nat) (old : Slot) (now : Nat) (f : Frame) (fp : Bool) :
    initSlot (old.shift k) (now + k) f fp = (initSlot old now f fp).shift k := by
  unfold initSlot Slot.shift
  cases fp <;> simp [millis32_shift]

theorem contSlot_shift (k : Nat) (s : Slot) (f : Frame) : contSlot (s.shift k) f = (contSlot s f).shift k := by
  unfold contSlot Slot.shift; cases h : s.free <;> simp [h]

theorem slot_shift_lastFrame (k : Nat) (s : Slot) : (s.shift k).lastFrame = s.lastFrame := by
  unfold Slot.shift; cases s.free <;> rfl

/-- `SetN2kCANBufMsg` + deliver/free -/
theorem rxCore_shift (k : Nat) (isFP : Nat → Bool) (st : St) (now : Nat) (f : Frame) :
    rxCore isFP (st.shift k) (now + k) f = ((rxCore isFP st now f).1.shift k, (rxCore isFP st now f).2) := by
  unfold rxCore
  have e1 : (st.shift k).N = st.N := rfl
  have es : ∀ i, (st.shift k).slot i = (st.slot i).shift k := fun _ => rfl
  rw [findSlot_shift, findFree_shift, e1]
  simp only [es, slot_shift_lastFrame]
  by_cases h0 : (isFP f.pgn && f.byte 0 % 32 != 0) = true
  · simp only [if_pos h0]
    by_cases h1 : findSlot st f < st.N
    · simp only [if_pos h1]
      by_cases h2 : (st.slot (findSlot st f)).lastFrame + 1 = f.byte 0
      · simp only [if_pos h2]; rw [contSlot_shift, finish_shift]
      · simp only [if_neg h2]; rw [freeSlot_shift, setSlot_shift]
    · simp only [if_neg h1]
  · simp only [if_neg h0]
    by_cases h1 : findFree st now f < st.N
    · simp only [if_pos h1]; rw [initSlot_shift, finish_shift]
    · simp only [if_neg h1]

theorem tpClear_shift (k : Nat) (st : St) (src dst : Nat) : tpClear (st.shift k) src dst = (tpClear st src dst).shift k := by
  unfold tpClear St.shift
  simp only
  congr 1
  funext j
  have e : ∀ s : Slot, (s.shift k).free = s.free ∧ (s.shift k).tp = s.tp ∧ (s.shift k).src = s.src ∧ (s.shift k).dst = s.dst := by
    intro s; unfold Slot.shift; cases h : s.free <;> simp [h]
  rw [(e _).1, (e _).2.1, (e _).2.2.1, (e _).2.2.2]
  by_cases h : (!(st.slot j).free && (st.slot j).tp && (st.slot j).src == src && (st.slot j).dst == dst) = true
  · simp only [if_pos h]; exact freeSlot_shift k _
  · simp only [if_neg h]

theorem tpSlot_shift (k : Nat) (old : Slot) (now pgn src dst nBytes : Nat) :
    tpSlot (old.shift k) (now + k) pgn src dst nBytes = (tpSlot old now pgn src dst nBytes).shift k := by
  unfold tpSlot Slot.shift; simp [millis32_shift]

theorem tpUse_shift (k : Nat) (ok : Bool) (st : St) (i now pgn src dst nBytes : Nat) :
    tpUse ok (st.shift k) i (now + k) pgn src dst nBytes = (tpUse ok st i now pgn src dst nBytes).shift k := by
  unfold tpUse
  cases ok
  · rfl
  · simp only [↓reduceIte]
    have : (st.shift k).slot i = (st.slot i).shift k := rfl
    rw [this, tpSlot_shift, setSlot_shift]

theorem rxTPOpen_shift (k : Nat) (c : Cfg) (st : St) (now : Nat) (f : Frame) :
    rxTPOpen c (st.shift k) (now + k) f = (rxTPOpen c st now f).shift k := by
  unfold rxTPOpen
  simp only
  rw [tpClear_shift]
  generalize tpClear st f.src f.dst = st1
  have e1 : (st1.shift k).N = st1.N := rfl
  rw [findFirst_shift (stampFree_tpMatchP _ _ _), findFreeOnly_shift, e1]
  by_cases h1 : findFirst st1 (tpMatchP (f.byte 5 + 256 * f.byte 6 + 65536 * f.byte 7) f.src f.dst) st1.N 0 < st1.N
  · simp only [if_pos h1]; exact tpUse_shift k _ st1 _ now _ _ _ _
  · simp only [if_neg h1]
    by_cases h2 : findFreeOnly st1 < st1.N
    · simp only [if_pos h2]; exact tpUse_shift k _ st1 _ now _ _ _ _
    · simp only [if_neg h2]
      rw [recycle_shift k st1 now (noFree_of st1 h2)]
      by_cases h3 : recycle st1 now < st1.N
      · simp only [if_pos h3]
        have : (st1.shift k).slot (recycle st1 now) = (st1.slot (recycle st1 now)).shift k := rfl
        rw [this, freeSlot_shift, setSlot_shift]
        exact tpUse_shift k _ _ _ now _ _ _ _
      · simp only [if_neg h3]

/-- one received frame -/
theorem rx_shift (k : Nat) (c : Cfg) (st : St) (now : Nat) (f : Frame) :
    rx c (st.shift k) (now + k) f = ((rx c st now f).1.shift k, (rx c st now f).2) := by
  unfold rx
  by_cases h1 : handled c f = true
  · simp only [if_pos h1]; exact rxCore_shift k _ st now f
  · simp only [if_neg h1]
    by_cases h2 : isTPOpen f = true
    · simp only [if_pos h2]; rw [rxTPOpen_shift]
    · simp only [if_neg h2]

/-- the history with every arrival time moved by `k` -/
def shiftEvs (k : Nat) (evs : List (Nat × Frame)) : List (Nat × Frame) := evs.map fun e => (e.1 + k, e.2)

theorem run_shift (k : Nat) (c : Cfg) (evs : List (Nat × Frame)) :
    ∀ st, run c (St.shift k st) (shiftEvs k evs) = (run c st evs).shift k ∧
          outputs c (St.shift k st) (shiftEvs k evs) = outputs c st evs := by
  induction evs with
  | nil => intro st; exact ⟨rfl, rfl⟩
  | cons e t ih =>
    intro st
    have h := rx_shift k c st e.1 e.2
    have e1 : shiftEvs k (e :: t) = (e.1 + k, e.2) :: shiftEvs k t := rfl
    rw [e1]
    simp only [run, outputs]
    rw [h]
    exact ⟨(ih _).1, by rw [(ih (rx c st e.1 e.2).1).2]⟩

end N2k.Rx
