import N2k.Model.Layout
/-! Generic facts about the layout language: a field whose output bits mirror the setter's bits decodes to
the value that was encoded (proved once, used for every generated pair). -/
namespace N2k.Layout

theorem ofBits_testBit : ∀ (l : List Bool) (i : Nat), (ofBits l).testBit i = l.getD i false
  | [], i => by simp [ofBits]
  | b :: t, 0 => by
      cases b <;> simp [ofBits, Nat.testBit_zero] <;> omega
  | b :: t, i+1 => by
      have := ofBits_testBit t i
      rw [ofBits, Nat.testBit_succ]
      have h : ((if b = true then 1 else 0) + 2 * ofBits t) / 2 = ofBits t := by
        cases b <;> simp <;> omega
      rw [h, this]; simp

theorem testBit_high {n W j : Nat} (hlt : n < 2 ^ W) (h : W ≤ j) : n.testBit j = false :=
  Nat.testBit_lt_two_pow (Nat.lt_of_lt_of_le hlt (Nat.pow_le_pow_right (by omega) h))

theorem decodeOne_eq (S : Setter) (params : Nat → Nat) (o W : Nat) (bits : OutBits)
    (hok : outOK (fun k => S[k]?) o W bits = true) (hlt : params o < 2 ^ W) :
    decodeOne (encode S params) bits = params o := by
  simp only [outOK, Bool.and_eq_true, decide_eq_true_eq, List.all_eq_true, List.mem_range] at hok
  obtain ⟨hW, hbits⟩ := hok
  apply Nat.eq_of_testBit_eq
  intro i
  unfold decodeOne
  rw [ofBits_testBit]
  by_cases hi : i < bits.length
  · have hb := hbits i hi
    rw [List.getD_eq_getElem?_getD, List.getElem?_map]
    have hget : bits[i]? = some (bits.getD i none) := by
      rw [List.getD_eq_getElem?_getD, List.getElem?_eq_getElem hi]; rfl
    rw [hget]
    simp only [Option.map_some, Option.getD_some]
    generalize bits.getD i none = b at hb
    cases b with
    | none =>
      simp only [bitOK, decide_eq_true_eq] at hb
      exact (testBit_high hlt hb).symm
    | some k =>
      simp only [bitOK] at hb
      by_cases hiW : i < W
      · simp only [hiW, ↓reduceIte, beq_iff_eq] at hb
        simp [encode, List.getD_eq_getElem?_getD, List.getElem?_map, hb, srcVal]
      · simp only [hiW, ↓reduceIte] at hb
        have hWi : W ≤ i := by omega
        rw [testBit_high hlt hWi]
        cases hs : S[k]? with
        | none => rw [hs] at hb; simp at hb
        | some src =>
          rw [hs] at hb
          simp only [encode, List.getD_eq_getElem?_getD, List.getElem?_map, hs, Option.map_some,
            Option.getD_some]
          cases src with
          | zero => rfl
          | one => simp at hb
          | unk => simp at hb
          | param p j =>
            simp only [Bool.and_eq_true, beq_iff_eq, decide_eq_true_eq] at hb
            obtain ⟨hp, hj⟩ := hb
            subst hp
            exact testBit_high hlt hj
  · have hge : bits.length ≤ i := by omega
    rw [List.getD_eq_getElem?_getD, List.getElem?_map, List.getElem?_eq_none hge]
    simp only [Option.map_none, Option.getD_none]
    exact (testBit_high hlt (by omega)).symm

/-- the decoded list at field `o` is `decodeOne` of that field's output bits -/
theorem decode_getD (P : Parser) (payload : List Bool) (o : Nat) (h : o < P.length) :
    (decode P payload).getD o 0 = decodeOne payload (P.getD o []) := by
  simp [decode, List.getD_eq_getElem?_getD, List.getElem?_map, List.getElem?_eq_getElem h]

theorem outOK_length {get : Nat → Option BitSrc} {o W : Nat} {bits : OutBits} (h : outOK get o W bits = true) :
    W ≤ bits.length := by
  simp only [outOK, Bool.and_eq_true, decide_eq_true_eq] at h
  exact h.1

theorem Seg.expand_length (s : Seg) : s.expand.length = s.len := by simp [Seg.expand]

theorem Seg.expand_get (s : Seg) (k : Nat) (h : k < s.len) : s.expand[k]? = some (s.src k) := by
  simp [Seg.expand, List.getElem?_map, List.getElem?_range h]

/-- the run-length lookup is the lookup in the expanded bit list -/
theorem srcAt_eq : ∀ (S : List Seg) (k : Nat), srcAt S k = (expand S)[k]?
  | [], k => by simp [srcAt, expand]
  | s :: t, k => by
    have ih := srcAt_eq t (k - s.len)
    have hexp : expand (s :: t) = s.expand ++ expand t := by simp [expand]
    rw [hexp, srcAt]
    by_cases h : k < s.len
    · rw [if_pos h, List.getElem?_append_left (by rw [Seg.expand_length]; exact h), Seg.expand_get s k h]
    · rw [if_neg h, List.getElem?_append_right (by rw [Seg.expand_length]; omega), Seg.expand_length, ih]

theorem srcAt_fun (S : List Seg) : srcAt S = fun k => (expand S)[k]? := funext (srcAt_eq S)

/-- a field obligation gives the round trip of that field through the pair's own layouts -/
theorem field_roundtrip (P : Pair) (o : Nat) (params : Nat → Nat)
    (hok : fieldOK P o = true) (hlt : params o < 2 ^ P.W o) :
    (decode P.parser (encode P.setterBits params)).getD o 0 = params o := by
  simp only [fieldOK, Bool.and_eq_true] at hok
  have h1 := hok.1.1
  rw [srcAt_fun] at h1
  by_cases ho : o < P.parser.length
  · rw [decode_getD _ _ _ ho]
    exact decodeOne_eq P.setterBits params o (P.W o) _ h1 hlt
  · -- the parser has no entry: the obligation forces W = 0, hence the value 0
    have hnil : P.parser.getD o [] = [] := by
      simp [List.getD_eq_getElem?_getD, List.getElem?_eq_none (by omega : P.parser.length ≤ o)]
    have hW := outOK_length h1
    rw [hnil] at hW
    have hW0 : P.W o = 0 := by simpa using hW
    rw [hW0] at hlt
    have : (decode P.parser (encode P.setterBits params)).getD o 0 = 0 := by
      simp [decode, List.getD_eq_getElem?_getD, List.getElem?_eq_none (by simp; omega : (List.map _ P.parser).length ≤ o)]
    omega

/-- a field of exactly `n` mirrored bits decodes to the low `n` bits of the parameter, whatever its value -/
theorem decodeOne_mod (S : Setter) (params : Nat → Nat) (o n : Nat) (bits : OutBits)
    (hok : outOK (fun k => S[k]?) o n bits = true) (hlen : bits.length = n) :
    decodeOne (encode S params) bits = params o % 2 ^ n := by
  simp only [outOK, Bool.and_eq_true, decide_eq_true_eq, List.all_eq_true, List.mem_range] at hok
  obtain ⟨_, hbits⟩ := hok
  apply Nat.eq_of_testBit_eq
  intro i
  unfold decodeOne
  rw [ofBits_testBit, Nat.testBit_mod_two_pow]
  by_cases hi : i < bits.length
  · have hb := hbits i hi
    have hin : i < n := by omega
    rw [List.getD_eq_getElem?_getD, List.getElem?_map]
    have hget : bits[i]? = some (bits.getD i none) := by
      rw [List.getD_eq_getElem?_getD, List.getElem?_eq_getElem hi]; rfl
    rw [hget]
    simp only [Option.map_some, Option.getD_some, hin, decide_true, Bool.true_and]
    generalize bits.getD i none = b at hb
    cases b with
    | none => simp only [bitOK, decide_eq_true_eq] at hb; omega
    | some k =>
      simp only [bitOK, hin, ↓reduceIte, beq_iff_eq] at hb
      simp [encode, List.getD_eq_getElem?_getD, List.getElem?_map, hb, srcVal]
  · have hge : bits.length ≤ i := by omega
    rw [List.getD_eq_getElem?_getD, List.getElem?_map, List.getElem?_eq_none hge]
    have : ¬ i < n := by omega
    simp [this]

/-- the value the parser RETURNS for a field (after an NA remap, if the field has one) is the value that was set, for
every value in the field's domain -/
theorem field_value_roundtrip (P : Pair) (o : Nat) (params : Nat → Nat)
    (hok : fieldOK P o = true) (hdom : P.inDomain o (params o)) :
    P.value o ((decode P.parser (encode P.setterBits params)).getD o 0) = params o := by
  cases hr : lookupRemap P.naRemap o with
  | none =>
    simp only [Pair.inDomain, hr] at hdom
    simp only [Pair.value, hr]
    exact field_roundtrip P o params hok hdom
  | some nu =>
    obtain ⟨n, u⟩ := nu
    simp only [Pair.inDomain, hr] at hdom
    simp only [Pair.value, hr]
    have hok' := hok
    simp only [fieldOK, Bool.and_eq_true, remapOK, hr, decide_eq_true_eq, beq_iff_eq] at hok'
    obtain ⟨⟨h1, _⟩, ⟨⟨hn, hW⟩, hlen⟩, hu⟩ := hok'
    rw [srcAt_fun, hW] at h1
    have ho : o < P.parser.length := by
      rcases Nat.lt_or_ge o P.parser.length with h | h
      · exact h
      · have : P.parser.getD o [] = [] := by
          simp [List.getD_eq_getElem?_getD, List.getElem?_eq_none h]
        rw [this] at hlen; simp at hlen; omega
    rw [decode_getD _ _ _ ho, decodeOne_mod P.setterBits params o n _ h1 hlen]
    have hpos : 0 < 2 ^ n := Nat.two_pow_pos n
    rcases hdom with hlt | heq
    · have hm : params o % 2 ^ n = params o := Nat.mod_eq_of_lt (by omega)
      rw [hm, if_neg (by omega)]
    · rw [heq, hu, if_pos rfl]

/-- a field with an obligation that the parser has no entry for has no NA remap (its value is the raw 0) -/
theorem value_out_of_range (P : Pair) (o : Nat) (hok : fieldOK P o = true) (h : P.parser.length ≤ o) :
    P.value o 0 = 0 := by
  cases hr : lookupRemap P.naRemap o with
  | none => simp [Pair.value, hr]
  | some nu =>
    obtain ⟨n, u⟩ := nu
    simp only [fieldOK, Bool.and_eq_true, remapOK, hr, decide_eq_true_eq, beq_iff_eq] at hok
    obtain ⟨_, ⟨⟨hn, _⟩, hlen⟩, _⟩ := hok
    have : P.parser.getD o [] = [] := by
      simp [List.getD_eq_getElem?_getD, List.getElem?_eq_none h]
    rw [this] at hlen; simp at hlen; omega

theorem field_scaled (P : Pair) (o : Nat) (hok : fieldOK P o = true) :
    lookupRec P.setScaled o = lookupRec P.parseScaled o := by
  simp only [fieldOK, Bool.and_eq_true, decide_eq_true_eq] at hok
  exact hok.1.2

/-- the constants the parser insists on are in the payload the setter produces -/
theorem payloadGuard_holds (P : Pair) (params : Nat → Nat) (h : payloadGuardOK P = true) :
    payloadGuardHolds P (encode P.setterBits params) = true := by
  simp only [payloadGuardOK, List.all_eq_true, beq_iff_eq] at h
  simp only [payloadGuardHolds, List.all_eq_true, beq_iff_eq]
  intro kb hkb
  have := h kb hkb
  rw [srcAt_eq] at this
  simp only [Pair.setterBits, encode, List.getD_eq_getElem?_getD, List.getElem?_map, this, Option.map_some,
    Option.getD_some]
  cases kb.2 <;> rfl

/-- every payload bit a mirrored field reads lies inside the payload the setter produces -/
theorem bit_in_range (P : Pair) (o : Nat) (hok : fieldOK P o = true) (i k : Nat)
    (hk : (P.parser.getD o [])[i]? = some (some k)) : k < P.setterBits.length := by
  simp only [fieldOK, Bool.and_eq_true] at hok
  have h1 := hok.1.1
  simp only [outOK, Bool.and_eq_true, decide_eq_true_eq, List.all_eq_true, List.mem_range] at h1
  have hi : i < (P.parser.getD o []).length := by
    rcases Nat.lt_or_ge i (P.parser.getD o []).length with h | h
    · exact h
    · rw [List.getElem?_eq_none h] at hk; cases hk
  have hb := h1.2 i hi
  have hget : (P.parser.getD o []).getD i none = some k := by
    rw [List.getD_eq_getElem?_getD, hk]; rfl
  rw [hget, srcAt_fun] at hb
  simp only [bitOK] at hb
  rcases Nat.lt_or_ge k (expand P.setter).length with h | h
  · exact h
  · rw [List.getElem?_eq_none h] at hb
    split at hb <;> simp at hb

theorem pairOK_of (P : Pair) (l : List Nat) (hl : P.checked = l) (hf : l.all (fieldOK P) = true)
    (hg : guardsOK P = true) : pairOK P = true := by
  simp only [pairOK, hl, hf, Bool.true_and]
  exact hg

theorem expand_length : ∀ S : List Seg, (expand S).length = setterLen S
  | [] => by simp [expand, setterLen]
  | s :: t => by
    have ih := expand_length t
    have hexp : expand (s :: t) = s.expand ++ expand t := by simp [expand]
    rw [hexp, List.length_append, Seg.expand_length, ih]
    simp [setterLen]

theorem len_accepted (P : Pair) (params : Nat → Nat) (h : lenOK P = true) :
    lenAccepted P (encode P.setterBits params) = true := by
  simp only [lenOK, Bool.and_eq_true, decide_eq_true_eq] at h
  simp only [lenAccepted, encode, Pair.setterBits, List.length_map, expand_length, Bool.and_eq_true,
    decide_eq_true_eq]
  exact h

end N2k.Layout
