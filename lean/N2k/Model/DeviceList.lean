import N2k.Basic.Time
import N2k.Model.Text
/-!
# Model of the optional device list (`src/N2kDeviceList.cpp`, `src/N2kDeviceList.h`)

Everything runs in `Except Fault` over an explicit heap:

* `tInternalDevice *` is an `Id`; the heap is `Id → Option Device`; `delete` sets the cell to `none`, so a freed
  object stays observable: **every** `p->…` is `State.deref`, which is `Fault.useAfterFree` on a dead `Id`.
  `new` hands out `nextId` (never reused - a dangling pointer can therefore never alias a new object; the real
  allocator may reuse the address, which only makes a use after free less visible).
* `Sources[254]` is `sources : Nat → Option Id` (function update); all accesses are guarded `< 254` as in the C++.
* `malloc` blocks (`ConfI`, `TransmitPGNs`, `ReceivePGNs`) are `Block`s with a size and checked reads/writes
  (`Fault.heapOverflow`); the interior pointers `ManufacturerInformation`, `InstallationDescription1/2` are
  *offsets* into `ConfI` and the C++ size variables (`ConfISize`, `TransmitPGNsSize`, …) are separate fields, so
  "the variable says 10 but the block has 4 bytes" is expressible.
* the parsers are the C16 models `N2k.Text.getStr2` / `N2k.Text.getVarStr` (checked destination buffers); a fault
  inside them is `Fault.parser`.
* the environment `Env` supplies the clock, whether `tNMEA2000::SendMsg` succeeds, and the junk that
  uninitialised memory holds (`junkMem`: fresh `malloc` blocks and the local `tProductInformation` of
  `HandleProductInformation` are not cleared; in the model nothing of it is ever read before it is written, up to
  the terminators); theorems hold for every `Env`. `LastMessageTime` of a new entry is its creation time
  (/repo 66df7f6, `C18:lastmsgtime-uninitialised`).
* the ISO requests sent through `tNMEA2000::SendMsg` are appended to `out` as `(destination, requested PGN)`.

The model transcribes the code AS FIXED in the verification worktree (known_findings.d/C18.json):
`C18:name0-placeholder` (`pDevice2!=pDevice`), `C18:conf-info-sizes` (size query of `GetVarStr` with a null
buffer reports the needed size), `C18:conf-info-stale-pointers` (`InitConfigurationInformation` recomputes the
interior pointers when it keeps its block), `C18:prodinfo-na-defaults`, and the request pacing as of /repo f104fb3
(`C13:devlist-zero-sentinel`).

Integer types: `uint8_t` counters stay below their limits (20 / 4 requests, ≤ 74 PGNs), `uint16_t`/`size_t`
sizes are ≤ 3·335 - all `Nat` without wrap. `unsigned long` is 64 bit (LP64), `N2kMillis()` 32 bit.
-/
namespace N2k.DeviceList
open N2k.Time

abbrev Id := Nat

inductive Fault where
  | useAfterFree (id : Id)
  | doubleFree (id : Id)
  | nullDeref
  | heapOverflow (idx size : Nat)
  | parser (f : N2k.Text.Fault)
  deriving Repr, DecidableEq

abbrev M := Except Fault

def MaxBusDevices : Nat := 254
def pgnClaim : Nat := 60928
def pgnProd : Nat := 126996
def pgnConf : Nat := 126998
def pgnList : Nat := 126464

/-! ## heap blocks -/

structure Block where
  size : Nat
  mem : Nat → Nat

def Block.write (b : Block) (i v : Nat) : M Block :=
  if i < b.size then .ok { b with mem := fun j => if j = i then v else b.mem j }
  else .error (.heapOverflow i b.size)

def Block.read (b : Block) (i : Nat) : M Nat :=
  if i < b.size then .ok (b.mem i) else .error (.heapOverflow i b.size)

/-- read of a 0-terminated sequence starting at `off` (C string / PGN list); running out of the block faults -/
def Block.readZ (b : Block) : Nat → Nat → M (List Nat)
  | 0, off => .error (.heapOverflow off b.size)
  | f + 1, off =>
    if off < b.size then
      if b.mem off = 0 then .ok []
      else match b.readZ f (off + 1) with
        | .ok l => .ok (b.mem off :: l)
        | .error x => .error x
    else .error (.heapOverflow off b.size)

/-! ## devices -/

/-- `tNMEA2000::tProductInformation`; the `char[33]` arrays are represented by their C strings -/
structure ProdInfo where
  n2kVersion : Nat
  productCode : Nat
  modelID : List Nat
  swCode : List Nat
  modelVersion : List Nat
  serialCode : List Nat
  certLevel : Nat
  loadEq : Nat
  deriving DecidableEq, Repr

/-- `ProdI.Clear()` -/
def ProdInfo.clear : ProdInfo := ⟨0, 0, [], [], [], [], 0, 0⟩

structure Device where
  name : Nat
  source : Nat
  createTime : Nat
  prodLoaded : Bool
  prod : ProdInfo
  confLoaded : Bool
  confISize : Nat
  confI : Option Block
  manI : Option Nat
  inst1 : Option Nat
  inst2 : Option Nat
  txSize : Nat
  tx : Option Block
  rxSize : Nat
  rx : Option Block
  nNameRequested : Nat
  prodIRequested : Nat
  nProdIRequested : Nat
  confIRequested : Nat
  nConfIRequested : Nat
  pgnsRequested : Nat
  nPGNsRequested : Nat
  lastMessageTime : Nat

structure Env where
  now : Nat
  canSend : Bool
  junkMem : Nat → Nat

/-- `tInternalDevice(_Name)` (`_Source` defaults to 255) -/
def Device.new (e : Env) (name : Nat) : Device :=
  { name := name, source := 255, createTime := millis32 e.now,
    prodLoaded := false, prod := ProdInfo.clear, confLoaded := false,
    confISize := 0, confI := none, manI := none, inst1 := none, inst2 := none,
    txSize := 0, tx := none, rxSize := 0, rx := none,
    nNameRequested := 0, prodIRequested := 0, nProdIRequested := 0,
    confIRequested := 0, nConfIRequested := 0, pgnsRequested := 0, nPGNsRequested := 0,
    lastMessageTime := millis32 e.now }

def Device.setSource (d : Device) (src : Nat) : Device := { d with source := src }
def Device.setName (d : Device) (n : Nat) : Device := { d with name := n }
/-- `ClearProductInformationLoaded()` -/
def Device.clearProdLoaded (d : Device) : Device :=
  { d with prodLoaded := false, prodIRequested := 0, nProdIRequested := 0 }

/-! ## the list -/

structure State where
  sources : Nat → Option Id
  maxDevices : Nat
  heap : Id → Option Device
  nextId : Id
  listUpdated : Bool
  hasPending : Bool
  out : List (Nat × Nat)

/-- constructor of `tN2kDeviceList` -/
def State.init : State :=
  { sources := fun _ => none, maxDevices := 0, heap := fun _ => none, nextId := 0,
    listUpdated := false, hasPending := true, out := [] }

/-- `p->` -/
def State.deref (s : State) (id : Id) : M Device :=
  match s.heap id with
  | some d => .ok d
  | none => .error (.useAfterFree id)

/-- store through a (checked) pointer -/
def State.put (s : State) (id : Id) (d : Device) : State :=
  { s with heap := fun j => if j = id then some d else s.heap j }

def State.modify (s : State) (id : Id) (f : Device → Device) : M State :=
  match s.heap id with
  | some d => .ok (s.put id (f d))
  | none => .error (.useAfterFree id)

/-- `delete p` -/
def State.free (s : State) (id : Id) : M State :=
  match s.heap id with
  | some _ => .ok { s with heap := fun j => if j = id then none else s.heap j }
  | none => .error (.doubleFree id)

/-- `new tInternalDevice(...)` -/
def State.alloc (s : State) (d : Device) : State :=
  { s with heap := fun j => if j = s.nextId then some d else s.heap j, nextId := s.nextId + 1 }

/-- `Sources[i]=v` -/
def State.setSrc (s : State) (i : Nat) (v : Option Id) : State :=
  { s with sources := fun j => if j = i then v else s.sources j }

/-- `Sources[p->GetSource()]=v`: the index comes out of an object, so the array bound is checked -/
def State.setSrcAt (s : State) (i : Nat) (v : Option Id) : M State :=
  if i < MaxBusDevices then .ok (s.setSrc i v) else .error (.heapOverflow i MaxBusDevices)

/-- `Request…(dest)`: `SetN2kPGNISORequest` + `SendMsg`; returns the `SendMsg` result -/
def State.emit (s : State) (dest pgn : Nat) : State := { s with out := s.out ++ [(dest, pgn)] }

def request (e : Env) (s : State) (dest pgn : Nat) : State × Bool :=
  if e.canSend then (s.emit dest pgn, true) else (s, false)

/-! ## find functions -/

/-- `for (i=…; i<MaxDevices && result==0; i++) if ( Sources[i]!=0 && pred(Sources[i]) ) result=Sources[i];` -/
def findLoop (s : State) (p : Device → Bool) : Nat → Nat → M (Option Id)
  | 0, _ => .ok none
  | k + 1, i =>
    match s.sources i with
    | none => findLoop s p k (i + 1)
    | some id =>
      match s.deref id with
      | .error x => .error x
      | .ok d => if p d then .ok (some id) else findLoop s p k (i + 1)

/-- `LocalFindDeviceBySource` -/
def findBySource (s : State) (src : Nat) : Option Id :=
  if src ≥ MaxBusDevices then none else s.sources src

/-- `LocalFindDeviceByName` -/
def findByName (s : State) (name : Nat) : M (Option Id) :=
  findLoop s (fun d => d.name == name) s.maxDevices 0

/-- `GetManufacturerCode()` / `GetUniqueNumber()` of a NAME -/
def manufacturerCode (name : Nat) : Nat := (name % 4294967296) / 2097152
def uniqueNumber (name : Nat) : Nat := name % 2097152

/-- `LocalFindDeviceByIDs` -/
def findByIDs (s : State) (man uniq : Nat) : M (Option Id) :=
  if man = 0xffff ∧ uniq = 0xffffffff then .ok none
  else findLoop s (fun d => (man == 0xffff || manufacturerCode d.name == man) &&
                            (uniq == 0xffffffff || uniqueNumber d.name == uniq)) s.maxDevices 0

/-- `LocalFindDeviceByProduct` -/
def findByProduct (s : State) (man code src : Nat) : M (Option Id) :=
  let start := if src < s.maxDevices then src + 1 else 0
  if man = 0xffff ∨ code = 0xffff then .ok none
  else findLoop s (fun d => manufacturerCode d.name == man && d.prod.productCode == code)
         (s.maxDevices - start) start

/-- `Count()` -/
def count (s : State) : Nat := ((List.range s.maxDevices).filter fun i => (s.sources i).isSome).length

/-- `for (i=0; i<N2kMaxBusDevices && Sources[i]!=0; i++);`  (`k` = slots left to look at) -/
def firstEmpty (s : State) : Nat → Nat → Option Nat
  | 0, _ => none
  | k + 1, i => if (s.sources i).isNone then some i else firstEmpty s k (i + 1)

/-! ## adding / moving entries -/

/-- `SaveDevice(pDevice,Source)` -/
def saveDevice (s : State) (id : Id) (src : Nat) : M State :=
  if src ≥ MaxBusDevices then .ok s
  else match s.modify id (fun d => d.setSource src) with
    | .error x => .error x
    | .ok s1 =>
      let s2 := s1.setSrc src (some id)
      .ok (if src ≥ s2.maxDevices then { s2 with maxDevices := src + 1 } else s2)

/-- `AddDevice(Source)` -/
def addDevice (e : Env) (s : State) (src : Nat) : M State :=
  let r := request e s src pgnClaim
  if r.2 then
    let s1 := r.1.alloc (Device.new e 0)
    match saveDevice s1 r.1.nextId src with
    | .error x => .error x
    | .ok s2 => .ok { s2 with hasPending := true }
  else .ok r.1

/-! ## PGN 60928 -/

structure Msg where
  pgn : Nat
  source : Nat
  data : List Nat

def Msg.text (m : Msg) : N2k.Text.Msg := ⟨fun i => m.data.getD i 0xff, m.data.length⟩

def byteAt (t : N2k.Text.Msg) (i : Nat) : Nat := t.data i

/-- `GetByte(Index)` (never reads beyond `DataLen`) → (value, Index) -/
def getByteP (t : N2k.Text.Msg) (idx : Nat) : Nat × Nat :=
  if idx < t.len then (t.data idx, idx + 1) else (0xff, idx)

/-- `Get2ByteUInt(Index)` -/
def get2 (t : N2k.Text.Msg) (idx : Nat) : Nat × Nat :=
  if idx + 2 ≤ t.len then (t.data idx + 256 * t.data (idx + 1), idx + 2) else (0xffff, idx)

/-- `Get3ByteUInt(Index)` -/
def get3 (t : N2k.Text.Msg) (idx : Nat) : Nat × Nat :=
  if idx + 3 ≤ t.len then (t.data idx + 256 * t.data (idx + 1) + 65536 * t.data (idx + 2), idx + 3)
  else (0xffffffff, idx)

def leValue : List Nat → Nat
  | [] => 0
  | b :: t => b + 256 * leValue t

/-- `GetUInt64(Index)` at index 0 -/
def claimName (m : Msg) : Nat :=
  if 8 ≤ m.data.length then leValue (m.data.take 8) else 0xffffffffffffffff

/-- outcome of the first part of `HandleIsoAddressClaim` (everything before `if ( pDevice==0 )`) -/
structure ClaimA where
  st : State
  dev : Option Id
  done : Bool

/-- the branch `pDevice->GetName()==0` (device reservation made by `HandleMsg`) -/
def claimPlaceholder (s : State) (src name : Nat) (p : Id) : M ClaimA :=
  match findByName s name with
  | .error x => .error x
  | .ok r =>
    -- FIX C18:name0-placeholder: `pDevice2!=0 && pDevice2!=pDevice`
    if r.isSome ∧ r ≠ some p then
      let p2 := r.getD 0
      match s.free p with
      | .error x => .error x
      | .ok s1 =>
        match s1.deref p2 with
        | .error x => .error x
        | .ok d2 =>
          match s1.setSrcAt d2.source none with
          | .error x => .error x
          | .ok s2 =>
            match saveDevice s2 p2 src with
            | .error x => .error x
            | .ok s3 => .ok ⟨s3, some p2, false⟩
    else
      match s.modify p (fun d => d.setName name) with
      | .error x => .error x
      | .ok s1 => .ok ⟨{ s1 with listUpdated := true }, some p, false⟩

/-- the branch `!pDevice->IsSame(CallerName)`: move the old device to some empty place or delete it -/
def claimEvict (e : Env) (s : State) (src : Nat) (p : Id) : M ClaimA :=
  match firstEmpty s MaxBusDevices 0 with
  | some i =>
    match saveDevice s p i with
    | .error x => .error x
    | .ok s1 =>
      let s2 := (request e s1 0xff pgnClaim).1
      .ok ⟨s2.setSrc src none, none, false⟩
  | none =>
    match s.free p with
    | .error x => .error x
    | .ok s1 => .ok ⟨s1.setSrc src none, none, false⟩

def claimA (e : Env) (s : State) (src name : Nat) : M ClaimA :=
  match (if src < MaxBusDevices then s.sources src else none) with
  | none => .ok ⟨s, none, false⟩
  | some p =>
    match s.deref p with
    | .error x => .error x
    | .ok d =>
      if d.name = 0 then claimPlaceholder s src name p
      else if d.name ≠ name then claimEvict e s src p
      else .ok ⟨s, some p, true⟩

/-- `if ( pDevice==0 ) { … }`: new or changed source -/
def claimB (e : Env) (s : State) (src name : Nat) : M (State × Id) :=
  match findByName s name with
  | .error x => .error x
  | .ok (some p) =>
    match s.deref p with
    | .error x => .error x
    | .ok d =>
      match s.setSrcAt d.source none with
      | .error x => .error x
      | .ok s0 =>
        match saveDevice s0 p src with
        | .error x => .error x
        | .ok s1 => .ok (s1, p)
  | .ok none =>
    let s1 := s.alloc (Device.new e name)
    match saveDevice s1 s.nextId src with
    | .error x => .error x
    | .ok s2 => .ok (s2, s.nextId)

/-- tail of `HandleIsoAddressClaim`: in any address change, request information again -/
def claimC (s : State) (p : Id) : M State :=
  match s.modify p Device.clearProdLoaded with
  | .error x => .error x
  | .ok s1 => .ok { s1 with hasPending := true, listUpdated := true }

/-- `HandleIsoAddressClaim` -/
def handleClaim (e : Env) (s : State) (m : Msg) : M State :=
  if m.pgn ≠ pgnClaim then .ok s
  else
    match claimA e s m.source (claimName m) with
    | .error x => .error x
    | .ok a =>
      if a.done then .ok a.st
      else match a.dev with
        | some p => claimC a.st p
        | none =>
          match claimB e a.st m.source (claimName m) with
          | .error x => .error x
          | .ok r => claimC r.1 r.2

/-! ## PGN 126996 -/

def liftT {α : Type} (x : N2k.Text.M α) : M α :=
  match x with
  | .ok a => .ok a
  | .error f => .error (.parser f)

/-- the C string in a `char[n]` -/
def cstrD (n : Nat) (d : N2k.Text.D) : List Nat := ((List.range n).map d).takeWhile (· ≠ 0)

/-- one `N2kMsg.GetStr(33,buf,32,0xff,Index)` into an uninitialised local buffer → (C string, Index) -/
def getStr33 (e : Env) (t : N2k.Text.Msg) (idx : Nat) : M (List Nat × Nat) :=
  match N2k.Text.getStr2 t 33 e.junkMem 32 0xff idx with
  | .error f => .error (.parser f)
  | .ok r => .ok (cstrD 33 r.2.2, r.2.1)

/-- `ParseN2kPGN126996` into the local `tProductInformation` -/
def parseProd (e : Env) (m : Msg) : M ProdInfo :=
  let t := m.text
  let v := get2 t 0
  let c := get2 t v.2
  match getStr33 e t c.2 with
  | .error x => .error x
  | .ok s1 =>
  match getStr33 e t s1.2 with
  | .error x => .error x
  | .ok s2 =>
  match getStr33 e t s2.2 with
  | .error x => .error x
  | .ok s3 =>
  match getStr33 e t s3.2 with
  | .error x => .error x
  | .ok s4 =>
    let cert := getByteP t s4.2
    let load := getByteP t cert.2
    .ok ⟨v.1, c.1, s1.1, s2.1, s3.1, s4.1, cert.1, load.1⟩

/-- `tInternalDevice::SetProductInformation` (`ClearSetCharBuf` copies at most 32 characters).
    FIX C18:prodinfo-na-defaults: version, certification level and load equivalency are stored as received -/
def storedProd (p : ProdInfo) : ProdInfo :=
  { p with modelID := p.modelID.take 32, swCode := p.swCode.take 32,
           modelVersion := p.modelVersion.take 32, serialCode := p.serialCode.take 32 }

/-- body of `HandleProductInformation` for the device `d` at the source; returns (device, ListUpdated raised) -/
def prodUpdate (d : Device) (p : ProdInfo) : Device × Bool :=
  if d.prodLoaded then (d, false)
  else if d.prod = p then ({ d with prodLoaded := true }, false)     -- `IsSameProductInformation`
  else ({ d with prod := storedProd p, prodLoaded := true }, true)

/-- `HandleProductInformation` -/
def handleProd (e : Env) (s : State) (m : Msg) : M State :=
  match (if m.source < MaxBusDevices then s.sources m.source else none) with
  | none => .ok s
  | some id =>
    match s.deref id with
    | .error x => .error x
    | .ok d =>
      if d.prodLoaded then .ok s
      else match parseProd e m with
        | .error x => .error x
        | .ok p =>
          let r := prodUpdate d p
          .ok { (s.put id r.1) with listUpdated := s.listUpdated || r.2 }

/-! ## PGN 126998 -/

/-- `GetVarStr(StrBufSize, 0, Index)`: the size query → (ret, StrBufSize, Index).
    FIX C18:conf-info-sizes: with no buffer the size needed for the string is reported (for UCS-2 the upper
    bound of 3 UTF-8 bytes per character) instead of 0 -/
def varStrSize (t : N2k.Text.Msg) (idx : Nat) : Bool × Nat × Nat :=
  let l := getByteP t idx
  let ty := getByteP t l.2
  if l.1 ≤ 2 ∨ l.1 = 0xff ∨ ty.1 > 1 ∨ ty.2 ≥ t.len then
    if l.1 = 2 ∧ ty.1 ≤ 1 then (true, 0, ty.2) else (false, 0, N2k.Text.MaxDataLen)
  else
    let len := l.1 - 2
    let len := if len + ty.2 > t.len then t.len - ty.2 else len
    (true, if ty.1 = 1 then len else (len / 2) * 3, ty.2 + len)

structure ConfSizes where
  ok : Bool
  man : Nat
  i1 : Nat
  i2 : Nat

/-- `ParseN2kPGN126998(N2kMsg,ManISize,0,InstDesc1Size,0,InstDesc2Size,0)` -/
def parseConfSizes (t : N2k.Text.Msg) : ConfSizes :=
  let a := varStrSize t 0
  if a.1 then
    let b := varStrSize t a.2.2
    if b.1 then
      let c := varStrSize t b.2.2
      ⟨c.1, c.2.1, a.2.1, b.2.1⟩
    else ⟨false, 0, a.2.1, b.2.1⟩
  else ⟨false, 0, a.2.1, 0⟩

/-- `if ( _Size>0 ) { P=ConfI+off; P[0]='\0'; } else P=0;` -/
def setField (blk : Option Block) (sz off : Nat) : M (Option Block × Option Nat) :=
  if sz > 0 then
    match blk with
    | none => .error .nullDeref
    | some b =>
      match b.write off 0 with
      | .error x => .error x
      | .ok b1 => .ok (some b1, some off)
  else .ok (blk, none)

def plusTerm (n : Nat) : Nat := if n > 0 then n + 1 else n

structure ConfInit where
  dev : Device
  man : Nat
  i1 : Nat
  i2 : Nat

/-- `InitConfigurationInformation(_ManISize,_InstDesc1Size,_InstDesc2Size)` (sizes by reference).
    FIX C18:conf-info-stale-pointers: the three pointers are recomputed also when the block is kept -/
def initConf (e : Env) (d : Device) (man i1 i2 : Nat) : M ConfInit :=
  let a := plusTerm man
  let b := plusTerm i1
  let c := plusTerm i2
  let total := a + b + c
  -- `if ( ConfI!=0 && ConfISize<_ConfISize ) { free(ConfI); ConfI=0; ConfISize=0; }`
  let keep := d.confI.isSome ∧ ¬ d.confISize < total
  let blk0 : Option Block := if keep then d.confI else (if total > 0 then some ⟨total, e.junkMem⟩ else none)
  let size0 := if keep then d.confISize else total
  match setField blk0 a 0 with
  | .error x => .error x
  | .ok f1 =>
  match setField f1.1 b a with
  | .error x => .error x
  | .ok f2 =>
  match setField f2.1 c (a + b) with
  | .error x => .error x
  | .ok f3 =>
    .ok ⟨{ d with confISize := size0, confI := f3.1, manI := f1.2, inst1 := f2.2, inst2 := f3.2,
                  confLoaded := true }, a, b, c⟩

/-- `GetVarStr(StrBufSize=sz, StrBuf=P, Index)` with `P` an interior pointer of `ConfI` → (ret, Index, ConfI).
    The parser works on the `sz` bytes at `P`; they must lie inside the block. -/
def varStrInto (t : N2k.Text.Msg) (blk : Option Block) (p : Option Nat) (sz idx : Nat) :
    M (Bool × Nat × Option Block) :=
  match p with
  | none => let r := varStrSize t idx; .ok (r.1, r.2.2, blk)
  | some off =>
    match blk with
    | none => .error .nullDeref
    | some b =>
      match N2k.Text.getVarStr t sz (fun i => b.mem (off + i)) 0xff idx with
      | .error f => .error (.parser f)
      | .ok r =>
        if off + sz ≤ b.size then
          .ok (r.1, r.2.2.1,
               some { b with mem := fun j => if off ≤ j ∧ j < off + sz then r.2.2.2 (j - off) else b.mem j })
        else .error (.heapOverflow (off + sz) b.size)

/-- the second `ParseN2kPGN126998`, writing the three strings through the interior pointers -/
def storeConf (t : N2k.Text.Msg) (d : Device) (man i1 i2 : Nat) : M Device :=
  match varStrInto t d.confI d.inst1 i1 0 with
  | .error x => .error x
  | .ok r1 =>
    if r1.1 then
      match varStrInto t r1.2.2 d.inst2 i2 r1.2.1 with
      | .error x => .error x
      | .ok r2 =>
        if r2.1 then
          match varStrInto t r2.2.2 d.manI man r2.2.1 with
          | .error x => .error x
          | .ok r3 => .ok { d with confI := r3.2.2 }
        else .ok { d with confI := r2.2.2 }
    else .ok { d with confI := r1.2.2 }

/-- body of `HandleConfigurationInformation` for the device at the source → (device, ListUpdated raised) -/
def confUpdate (e : Env) (d : Device) (m : Msg) : M (Device × Bool) :=
  let q := parseConfSizes m.text
  if q.ok then
    match initConf e d q.man q.i1 q.i2 with
    | .error x => .error x
    | .ok r =>
      if r.man + r.i1 + r.i2 > 0 then
        match storeConf m.text r.dev r.man r.i1 r.i2 with
        | .error x => .error x
        | .ok d1 => .ok (d1, true)
      else .ok (r.dev, true)
  else .ok (d, false)

/-- `HandleConfigurationInformation` -/
def handleConf (e : Env) (s : State) (m : Msg) : M State :=
  match (if m.source < MaxBusDevices then s.sources m.source else none) with
  | none => .ok s
  | some id =>
    match s.deref id with
    | .error x => .error x
    | .ok d =>
      match confUpdate e d m with
      | .error x => .error x
      | .ok r => .ok { (s.put id r.1) with listUpdated := s.listUpdated || r.2 }

/-! ## PGN 126464 -/

/-- `InitTransmitPGNs(count)` / `InitReceivePGNs(count)` on (block, size variable) -/
def initPGNs (e : Env) (blk : Option Block) (size count : Nat) : M (Option Block × Nat) :=
  let keep := blk.isSome ∧ ¬ size < count
  let blk1 : Option Block := if keep then blk else some ⟨count + 1, e.junkMem⟩
  let size1 := if keep then size else count
  match blk1 with
  | none => .ok (none, size1)
  | some b =>
    match b.write 0 0 with
    | .error x => .error x
    | .ok b1 => .ok (some b1, size1)

/-- `for (iPGN=0; iPGN<PGNCount; iPGN++) PGNList[iPGN]=N2kMsg.Get3ByteUInt(Index);` (`k` = PGNCount-iPGN) -/
def pgnFill (t : N2k.Text.Msg) : Nat → Nat → Nat → Block → M (Nat × Block)
  | 0, i, _, b => .ok (i, b)
  | k + 1, i, idx, b =>
    let v := get3 t idx
    match b.write i v.1 with
    | .error x => .error x
    | .ok b1 => pgnFill t k (i + 1) v.2 b1

/-- fill + `PGNList[iPGN]=0;` -/
def pgnStore (t : N2k.Text.Msg) (cnt idx : Nat) (b : Block) : M Block :=
  match pgnFill t cnt 0 idx b with
  | .error x => .error x
  | .ok r => r.2.write r.1 0

/-- body of `HandleSupportedPGNList` for the device at the source -/
def pgnUpdate (e : Env) (d : Device) (m : Msg) : M Device :=
  let t := m.text
  let ty := getByteP t 0
  let cnt := (t.len - ty.2) / 3
  if ty.1 = 0 then
    match initPGNs e d.tx d.txSize cnt with
    | .error x => .error x
    | .ok r =>
      match r.1 with
      | none => .ok { d with tx := none, txSize := r.2 }
      | some b =>
        match pgnStore t cnt ty.2 b with
        | .error x => .error x
        | .ok b1 => .ok { d with tx := some b1, txSize := r.2 }
  else if ty.1 = 1 then
    match initPGNs e d.rx d.rxSize cnt with
    | .error x => .error x
    | .ok r =>
      match r.1 with
      | none => .ok { d with rx := none, rxSize := r.2 }
      | some b =>
        match pgnStore t cnt ty.2 b with
        | .error x => .error x
        | .ok b1 => .ok { d with rx := some b1, rxSize := r.2 }
  else .ok d

/-- `HandleSupportedPGNList` -/
def handlePGNList (e : Env) (s : State) (m : Msg) : M State :=
  match (if m.source < MaxBusDevices then s.sources m.source else none) with
  | none => .ok s
  | some id =>
    match s.deref id with
    | .error x => .error x
    | .ok d =>
      match pgnUpdate e d m with
      | .error x => .error x
      | .ok d1 => .ok { (s.put id d1) with listUpdated := true }

/-! ## request sequencing (`HandleOther`) -/

inductive Kind where
  | prod | conf | pgns
  deriving DecidableEq, Repr

def Kind.pgn : Kind → Nat
  | .prod => pgnProd
  | .conf => pgnConf
  | .pgns => pgnList

/-- `ShouldRequestProductInformation` / `…ConfigurationInformation` / `…PGNList` -/
def should (k : Kind) (d : Device) : Bool :=
  match k with
  | .prod => !d.prodLoaded && decide (d.nProdIRequested < 4)
  | .conf => !d.confLoaded && decide (d.nConfIRequested < 4)
  | .pgns => (d.tx.isNone || d.rx.isNone) && decide (d.nPGNsRequested < 4)

/-- the request counter `n…Requested` / the time stamp `…Requested` of a kind -/
def nRequested (k : Kind) (d : Device) : Nat :=
  match k with
  | .prod => d.nProdIRequested
  | .conf => d.nConfIRequested
  | .pgns => d.nPGNsRequested

def lastRequested (k : Kind) (d : Device) : Nat :=
  match k with
  | .prod => d.prodIRequested
  | .conf => d.confIRequested
  | .pgns => d.pgnsRequested

/-- `ReadyForRequest…` (as of /repo f104fb3: the counter, not the time stamp value 0, says "never requested";
    all three kinds use `N2kHasElapsed`; the three periods and the first-request delay are 1000 ms) -/
def ready (e : Env) (k : Kind) (d : Device) : Bool :=
  should k d && (nRequested k d == 0 || hasElapsed (lastRequested k d) 1000 (millis32 e.now)) &&
  hasElapsed d.createTime 1000 (millis32 e.now)

/-- `Set…Requested()` -/
def markRequested (e : Env) (k : Kind) (d : Device) : Device :=
  match k with
  | .prod => { d with prodIRequested := millis32 e.now, nProdIRequested := d.nProdIRequested + 1 }
  | .conf => { d with confIRequested := millis32 e.now, nConfIRequested := d.nConfIRequested + 1 }
  | .pgns => { d with pgnsRequested := millis32 e.now, nPGNsRequested := d.nPGNsRequested + 1 }

/-- one of the three `for ( int i=0; i<MaxDevices; i++)` loops; `true` = `return` inside the loop -/
def reqLoop (e : Env) (k : Kind) : Nat → Nat → State → M (State × Bool)
  | 0, _, s => .ok (s, false)
  | n + 1, i, s =>
    match s.sources i with
    | none => reqLoop e k n (i + 1) s
    | some id =>
      match s.deref id with
      | .error x => .error x
      | .ok d =>
        if ready e k d then
          if e.canSend then
            .ok ({ ((s.emit d.source k.pgn).put id (markRequested e k d)) with hasPending := true }, true)
          else reqLoop e k n (i + 1) s
        else reqLoop e k n (i + 1) { s with hasPending := s.hasPending || should k d }

/-- `Sources[N2kMsg.Source]->ShouldRequestName() && RequestIsoAddressClaim(N2kMsg.Source)` -/
def reqName (e : Env) (s : State) (src : Nat) : M State :=
  match s.sources src with
  | none => .error .nullDeref
  | some id =>
    match s.deref id with
    | .error x => .error x
    | .ok d =>
      if d.name = 0 ∧ d.nNameRequested < 20 then
        let r := request e s src pgnClaim
        if r.2 then
          .ok { (r.1.put id { d with nNameRequested := d.nNameRequested + 1 }) with hasPending := true }
        else .ok r.1
      else .ok s

/-- `HandleOther` -/
def handleOther (e : Env) (s : State) (m : Msg) : M State :=
  if m.source ≥ MaxBusDevices then .ok s
  else if !s.hasPending then .ok s
  else
    match reqName e { s with hasPending := false } m.source with
    | .error x => .error x
    | .ok s1 =>
      match reqLoop e .prod s1.maxDevices 0 s1 with
      | .error x => .error x
      | .ok r1 =>
        if r1.2 || r1.1.hasPending then .ok r1.1
        else match reqLoop e .conf r1.1.maxDevices 0 r1.1 with
          | .error x => .error x
          | .ok r2 =>
            if r2.2 || r2.1.hasPending then .ok r2.1
            else match reqLoop e .pgns r2.1.maxDevices 0 r2.1 with
              | .error x => .error x
              | .ok r3 => .ok r3.1

/-! ## `HandleMsg` -/

def isInfoPgn (pgn : Nat) : Bool := pgn == pgnProd || pgn == pgnConf || pgn == pgnList

/-- the first `switch`: reserve a device for an unknown source; `true` = `return` -/
def preStep (e : Env) (s : State) (m : Msg) : M (State × Bool) :=
  if (s.sources m.source).isNone then
    if m.pgn = pgnClaim then .ok (s, false)
    else match addDevice e s m.source with
      | .error x => .error x
      | .ok s1 => .ok (s1, !isInfoPgn m.pgn)
  else .ok (s, false)

def dispatch (e : Env) (s : State) (m : Msg) : M State :=
  if m.pgn = pgnClaim then handleClaim e s m
  else if m.pgn = pgnProd then handleProd e s m
  else if m.pgn = pgnConf then handleConf e s m
  else if m.pgn = pgnList then handlePGNList e s m
  else handleOther e s m

/-- `if ( Sources[N2kMsg.Source]!=0 ) { … LastMessageTime=N2kMillis(); }` -/
def postStep (e : Env) (s : State) (src : Nat) : M State :=
  match s.sources src with
  | none => .ok s
  | some id =>
    match s.deref id with
    | .error x => .error x
    | .ok d =>
      let restart := d.name = 0 ∧ d.nNameRequested > 0 ∧ hasElapsed d.lastMessageTime 60000 (millis32 e.now) = true
      let d1 := if restart then { d with nNameRequested := 0 } else d
      let s1 := if restart then { s with hasPending := true } else s
      .ok (s1.put id { d1 with lastMessageTime := millis32 e.now })

/-- `tN2kDeviceList::HandleMsg` -/
def handleMsg (e : Env) (s : State) (m : Msg) : M State :=
  if m.source ≥ MaxBusDevices then .ok s
  else match preStep e s m with
    | .error x => .error x
    | .ok r =>
      if r.2 then .ok r.1
      else match dispatch e r.1 m with
        | .error x => .error x
        | .ok s1 => postStep e s1 m.source

/-- `ReadResetIsListUpdated()` -/
def readResetIsListUpdated (s : State) : State × Bool :=
  if s.listUpdated then ({ s with listUpdated := false }, true) else (s, false)

/-! ## getters of a found device (what the application reads back) -/

/-- a `const char *` getter: null → `none` -/
def getStrAt (blk : Option Block) (p : Option Nat) : M (Option (List Nat)) :=
  match p with
  | none => .ok none
  | some off =>
    match blk with
    | none => .error .nullDeref
    | some b =>
      match b.readZ (b.size + 1) off with
      | .error x => .error x
      | .ok l => .ok (some l)

def Device.getManufacturerInformation (d : Device) : M (Option (List Nat)) := getStrAt d.confI d.manI
def Device.getInstallationDescription1 (d : Device) : M (Option (List Nat)) := getStrAt d.confI d.inst1
def Device.getInstallationDescription2 (d : Device) : M (Option (List Nat)) := getStrAt d.confI d.inst2

/-- `GetTransmitPGNs()` / `GetReceivePGNs()` read up to the terminating 0 -/
def getPGNs (blk : Option Block) : M (Option (List Nat)) := getStrAt blk (blk.map fun _ => 0)

/-- a run of `HandleMsg` over a history of (environment, message) pairs -/
def run (s : State) : List (Env × Msg) → M State
  | [] => .ok s
  | (e, m) :: t =>
    match handleMsg e s m with
    | .error x => .error x
    | .ok s1 => run s1 t

end N2k.DeviceList
