"""C06 - scaled numeric fields of tN2kMsg. SPEC drives tools/check.py; MANIFEST feeds tools/gen_manifest.py."""
SPEC = {
    'engine': 'scaled', 'harness': 'scaled.cpp', 'repo_srcs': ['N2kMsg.cpp', 'N2kStream.cpp', 'N2kTimer.cpp'],
    'lean_modules': ['N2k.Props.C06'], 'props_files': ['N2k/Props/C06.lean'],
    'case_start': ['msg', 'put', 'get', 'putf', 'getf', 'qz'],
    'trusted_base': [
        "model N2k/Model/Scaled.lean transcribes SetBuf*Double / GetBuf*Double / tN2kMsg::Add*Double / Get*Double / "
        "AddFloat / GetFloat / SetBufFloat / GetBufFloat of N2kMsg.cpp by hand (little-endian host, 8-byte double)",
        "MODELLED, NOT VERIFIED: the IEEE-754 computation vd = round(v/precision) (and v/precision for the 8-byte field). "
        "Theorems C06_quantise* are about its exact rational counterpart (core Lean Rat); the harness' front-end stream "
        "judges the bytes the real code stored against the exact quotient (128-bit rationals in the harness, acceptsQ over Rat "
        "in the model, C06_front_accepted) with the tolerance the property states (half a step; one step for the 8-byte field; "
        "plus min(2^-40*|q|, 1) for the IEEE quotient) for every resolution literal of the library; bytes are compared with the "
        "model's rounding only where the property determines the code",
        "the final multiplication vl*precision of the getters is observed at precision 1.0 only (int->double conversion "
        "modelled by dblOfInt for the 8-byte field) and, with real resolutions, checked by the harness oracle with a "
        "2^-30 relative slack",
        "float fields are modelled as 32-bit patterns; C++ float ==, isnan are transcribed as bit tests (f32Eq, f32IsNaN)",
    ],
    'assumptions': ["Index >= 0 and DataLen <= MaxDataLen (223) on entry to the getters",
                    "Add* is called with room left in Data (capacity of Add* is not part of C06)",
                    "x86-64/LP64: long is 64 bits (N2kInt32Min is written -2147483648L), little endian, IEEE double"],
}
MANIFEST = {
    'text': "Kernel-checked theorems over ALL integers, all nine field kinds (1/2/3/4-byte signed+unsigned, 8-byte), all "
            "buffers, offsets and payload lengths: every code from the minimum to the out-of-range code round-trips "
            "through store and load (sign extension of 3-byte fields included); the NA marker stores the NA code and reads "
            "as the default; everything out of range, NaN and +-inf saturates to exactly the out-of-range code with no "
            "undefined conversion; getters return the default and keep the index when the field does not fit and never "
            "depend on bytes behind the payload; float patterns round-trip, NaN/NA read as default; rounding error <= half "
            "a step (< one step, 8-byte) proved over the rationals. The IEEE front end round(v/precision) is modelled, not "
            "verified: a correspondence run drives the real Add/Get functions (exhaustive 1- and 2-byte codes, boundaries "
            "and random codes for wider fields, NaN/inf/huge/-0, all 224x224 offset/length pairs for 10 getters, 21 "
            "resolution literals against exact rational rounding) under ASan/UBSan with float-cast-overflow.",
    'design_ref': 'DESIGN.md section 4, C06; section 3 "Floating point"',
    'note': "Trusted: Lean kernel; hand transcription of N2kMsg.cpp validated by differential runs; IEEE arithmetic of "
            "round(v/precision) and vl*precision not verified (tolerance-aware differential stream only); LP64 little-endian "
            "host. Models the tree with the two C06 fix commits (3-byte sign extension, 8-byte range test).",
}
