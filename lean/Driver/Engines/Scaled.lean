import N2k.Model.Scaled
import Driver.Util
-- engine: scaled
/-! Engine `scaled` (C06): runs `addInt` / `getDouble` / `addFloat` / `getFloat` / `frontQ` of the model.

ops (kind = `1s 1u 2s 2u 3s 3u 4s 4u 8s`, or `f` for the float field where noted):
* `put kind vd [undef]`      vd, undef ∈ integer | `nan` | `+inf` | `-inf`  → appended bytes (hex) | `fault`
* `get kind hex`             payload = hex, index 0                          → integer | `def`
* `msg hex`                  sets the whole `Data` array (case start)        → `ok`
* `getat kind idx len`       (kind may be `f`) getter on the current array with DataLen = len → `value|def idx'`
* `putf p [undef]`           float bit patterns as decimal integers          → appended bytes (hex)
* `getf hex`                                                                 → pattern (decimal) | `def`
* `qz kind mv ev mp ep`      v = mv·2^ev, precision = mp·2^ep (exact)        → bytes of the exact code where the property
                             determines it (1..4-byte field, quotient not within 2^-40 of a tie) | `stored`
* `chk kind mv ev mp ep hex` judge of the bytes the library stored for that `qz` (`acceptsQ`, slack `slackQ`) → `ok` | `bad`
* `chkx kind v hex`          the same for an integer `v` at precision 1 with no slack (8-byte integer stream) → `ok` | `bad`

`put 8s v` with `v` in range and not the NA marker answers `stored`: the property allows any code within one
step there; the following `chkx` line judges what the library stored.
-/
namespace Driver.Scaled
open N2k.Scaled Driver

def kind? : String → Option (Nat × Bool)
  | "1s" => some (1, true) | "1u" => some (1, false)
  | "2s" => some (2, true) | "2u" => some (2, false)
  | "3s" => some (3, true) | "3u" => some (3, false)
  | "4s" => some (4, true) | "4u" => some (4, false)
  | "8s" => some (8, true)
  | _ => none

def vd? : String → Option Vd
  | "nan" => some .nan
  | "+inf" => some .posInf
  | "-inf" => some .negInf
  | s => s.toInt?.map .int

def bytesOut : Except Fault (List Nat) → String
  | .ok bs => hexOfBytes bs
  | .error _ => "fault"

def valOut : Option Int → String
  | some v => toString (dblOfInt v)   -- the getter returns `vl * 1.0`
  | none => "def"

/-- `m · 2^e` as an exact rational quotient `v / p` -/
def quot (mv ev mp ep : Int) : Rat :=
  let s := ev - ep
  if 0 ≤ s then mkRat (mv * 2 ^ s.toNat) mp.toNat else mkRat mv (mp.toNat * 2 ^ (-s).toNat)

/-- does the property leave the stored code open? Always for the 8-byte field (one step: two or three
candidates); for the others at an exact tie or within 2^-40 (relative) of one, where the double quotient may
fall on either side. Otherwise exactly one code is within half a step and the bytes are compared. -/
def codeOpen (w : Nat) (q : Rat) : Bool :=
  if w = 8 then true else
  let a := absQ q
  let m : Rat := (a.floor : Int)
  let d := absQ (a - (m + 1 / 2))
  decide (d * 1099511627776 ≤ a)

/-- `put 8s v` with an in-range, available `v`: the stored code is open within one step -/
def put8Open (w : Nat) (s : Bool) (v undef : Vd) : Bool :=
  match v with
  | .int k => w == 8 && !(v.ceq undef) && !(v.ceq (.int (-1000000000))) &&
      decide (loBound w s ≤ k) && decide (k < orCode w s)
  | _ => false

def verdict (b : Bool) : String := if b then "ok" else "bad"

def step (data : List Nat) (w : List String) : List Nat × String :=
  let bad := (data, "bad-op")
  match w with
  | ["put", k, v] => match kind? k, vd? v with
    | some (w, s), some v =>
      if put8Open w s v (.int (-1000000000)) then (data, "stored")
      else (data, bytesOut (addInt w s v (.int (-1000000000))))
    | _, _ => bad
  | ["put", k, v, u] => match kind? k, vd? v, vd? u with
    | some (w, s), some v, some u =>
      if put8Open w s v u then (data, "stored") else (data, bytesOut (addInt w s v u))
    | _, _, _ => bad
  | ["get", k, h] => match kind? k, hexBytes? h with
    | some (w, s), some bs => match getDouble w s bs bs.length 0 with
      | .ok (v, _) => (data, valOut v)
      | .error _ => (data, "fault")
    | _, _ => bad
  | ["msg", h] => match hexBytes? h with
    | some bs => (bs, "ok")
    | none => bad
  | ["getat", "f", i, n] => match nat? i, nat? n with
    | some i, some n => match getFloat data n i with
      | .ok (v, i') => (data, s!"{match v with | some p => toString p | none => "def"} {i'}")
      | .error _ => (data, "fault")
    | _, _ => bad
  | ["getat", k, i, n] => match kind? k, nat? i, nat? n with
    | some (w, s), some i, some n => match getDouble w s data n i with
      | .ok (v, i') => (data, s!"{valOut v} {i'}")
      | .error _ => (data, "fault")
    | _, _, _ => bad
  | ["putf", p] => match nat? p with
    | some p => (data, hexOfBytes (addFloat p f32NA))
    | none => bad
  | ["putf", p, u] => match nat? p, nat? u with
    | some p, some u => (data, hexOfBytes (addFloat p u))
    | _, _ => bad
  | ["getf", h] => match hexBytes? h with
    | some bs => match getFloat bs bs.length 0 with
      | .ok (some p, _) => (data, toString p)
      | .ok (none, _) => (data, "def")
      | .error _ => (data, "fault")
    | none => bad
  | ["qz", k, mv, ev, mp, ep] => match kind? k, mv.toInt?, ev.toInt?, mp.toInt?, ep.toInt? with
    | some (w, s), some mv, some ev, some mp, some ep =>
      if mp ≤ 0 then bad else
      let q := quot mv ev mp ep
      if codeOpen w q then (data, "stored")
      else (data, bytesOut (addDouble w s false false (.int (frontQ w q))))
    | _, _, _, _, _ => bad
  | ["chk", k, mv, ev, mp, ep, h] =>
    match kind? k, mv.toInt?, ev.toInt?, mp.toInt?, ep.toInt?, hexBytes? h with
    | some (w, s), some mv, some ev, some mp, some ep, some bs =>
      if mp ≤ 0 ∨ bs.length ≠ w then bad else
      let q := quot mv ev mp ep
      (data, verdict (acceptsQ w s q (slackQ q) (getBufDouble w s bs)))
    | _, _, _, _, _, _ => bad
  | ["chkx", k, v, h] => match kind? k, v.toInt?, hexBytes? h with
    | some (w, s), some v, some bs =>
      if bs.length ≠ w then bad else (data, verdict (acceptsQ w s (v : Rat) 0 (getBufDouble w s bs)))
    | _, _, _ => bad
  | _ => bad

def main : IO Unit := loop step ([] : List Nat)

end Driver.Scaled
