import N2k.Model.Text
/-! Basic facts about the checked memories of `N2k.Model.Text` (C16). Core Lean only. -/
namespace N2k.Text

@[simp] theorem bind_ok {α β : Type} (a : α) (f : α → M β) : (Except.ok a >>= f) = f a := rfl
@[simp] theorem bind_error {α β : Type} (e : Fault) (f : α → M β) :
    ((Except.error e : M α) >>= f) = Except.error e := rfl
@[simp] theorem pure_eq {α : Type} (a : α) : (pure a : M α) = Except.ok a := rfl
@[simp] theorem throw_eq {α : Type} (e : Fault) : (throw e : M α) = Except.error e := rfl

/-- `l` written into `d` from index `i` on -/
def blit (d : D) (i : Nat) (l : List Nat) : D :=
  fun j => if i ≤ j ∧ j < i + l.length then l.getD (j - i) 0 else d j

@[simp] theorem blit_nil (d : D) (i : Nat) : blit d i [] = d := by
  funext j; simp [blit]; omega

theorem blit_cons (d : D) (i b : Nat) (l : List Nat) :
    blit (upd d i b) (i + 1) l = blit d i (b :: l) := by
  funext j
  simp only [blit, upd, List.length_cons]
  by_cases h1 : j = i
  · subst h1
    have h2 : ¬ (j + 1 ≤ j ∧ j < j + 1 + l.length) := by omega
    rw [if_neg h2]; simp
  · by_cases h2 : i + 1 ≤ j ∧ j < i + 1 + l.length
    · have h3 : i ≤ j ∧ j < i + (l.length + 1) := by omega
      rw [if_pos h2, if_pos h3]
      have : j - i = (j - (i + 1)) + 1 := by omega
      rw [this]; simp
    · have h3 : ¬ (i ≤ j ∧ j < i + (l.length + 1)) := by omega
      rw [if_neg h2, if_neg h3, if_neg h1]

theorem blit_lt (d : D) (i : Nat) (l : List Nat) (j : Nat) (h : j < i) : blit d i l j = d j := by
  simp [blit]; omega

theorem blit_ge (d : D) (i : Nat) (l : List Nat) (j : Nat) (h : i + l.length ≤ j) : blit d i l j = d j := by
  simp [blit]; omega

theorem blit_in (d : D) (i : Nat) (l : List Nat) (k : Nat) (h : k < l.length) :
    blit d i l (i + k) = l.getD k 0 := by
  simp [blit, h]

theorem blit_append (d : D) (i : Nat) (l₁ l₂ : List Nat) :
    blit (blit d i l₁) (i + l₁.length) l₂ = blit d i (l₁ ++ l₂) := by
  induction l₁ generalizing d i with
  | nil => simp
  | cons b t ih =>
    rw [← blit_cons, List.cons_append, ← blit_cons, List.length_cons]
    have : i + (t.length + 1) = i + 1 + t.length := by omega
    rw [this, ih]

theorem blit_append' (d : D) (i n : Nat) (l₁ l₂ : List Nat) (h : l₁.length = n) :
    blit (blit d i l₁) (i + n) l₂ = blit d i (l₁ ++ l₂) := by
  subst h; exact blit_append d i l₁ l₂

theorem upd_blit (d : D) (i : Nat) (l : List Nat) (k v : Nat) (h : k < l.length) :
    upd (blit d i l) (i + k) v = blit d i (l.set k v) := by
  funext j
  simp only [upd, blit, List.length_set]
  by_cases h1 : j = i + k
  · subst h1; simp [h, List.getD_eq_getElem?_getD]
  · rw [if_neg h1]
    by_cases h2 : i ≤ j ∧ j < i + l.length
    · rw [if_pos h2, if_pos h2]
      have : k ≠ j - i := by omega
      simp [List.getD_eq_getElem?_getD, List.getElem?_set_ne this]
    · rw [if_neg h2, if_neg h2]

theorem wr_ok {d : D} {i v : Nat} (h : i < MaxDataLen) : wr d i v = Except.ok (upd d i v) := by
  simp [wr, h]

theorem wd_ok {n : Nat} {d : D} {i v : Nat} (h : i < n) : wd n d i v = Except.ok (upd d i v) := by
  simp [wd, h]

/-! ### pointers -/

@[simp] theorem Ptr.add_zero (p : Ptr) : p.add 0 = p := by cases p <;> rfl
@[simp] theorem Ptr.past_add (k : Nat) : Ptr.past.add k = Ptr.past := by cases k <;> rfl
@[simp] theorem Ptr.deref_at (l : List Nat) : (Ptr.at l).deref = Except.ok (l.headD 0) := by
  cases l <;> rfl

theorem Ptr.add_cons {b : Nat} (t : List Nat) (k : Nat) (hb : b ≠ 0) :
    (Ptr.at (b :: t)).add (k + 1) = (Ptr.at t).add k := by
  simp [Ptr.add, hb]

/-- stepping over `j` non-zero bytes stays inside the string -/
theorem Ptr.add_at (t : List Nat) (j : Nat) (hj : j ≤ t.length) (hnz : ∀ b ∈ t.take j, b ≠ 0) :
    (Ptr.at t).add j = Ptr.at (t.drop j) := by
  induction j generalizing t with
  | zero => simp
  | succ j ih =>
    cases t with
    | nil => simp at hj
    | cons b t =>
      have hb : b ≠ 0 := hnz b (by simp)
      rw [Ptr.add_cons t j hb]
      simp only [List.drop_succ_cons]
      exact ih t (by simpa using hj) (fun x hx => hnz x (by simp [hx]))

theorem Ptr.add_add (p : Ptr) (a b : Nat) : (p.add a).add b = p.add (a + b) := by
  induction a generalizing p with
  | zero => simp
  | succ a ih =>
    cases p with
    | past => simp
    | «at» l =>
      cases l with
      | nil =>
        have : a + 1 + b = (a + b) + 1 := by omega
        rw [this]; simp [Ptr.add]
      | cons x t =>
        have : a + 1 + b = (a + b) + 1 := by omega
        rw [this]
        simp only [Ptr.add]
        split
        · simp
        · exact ih _

end N2k.Text
