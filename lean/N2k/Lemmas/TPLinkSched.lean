import N2k.Lemmas.TPLinkMain
/-! C10: the RTS/CTS exchange of two library nodes under an ARBITRARY poll order. A schedule is a list of `(who, delay)`;
each step moves what the other node handed to its driver into the polled node's receive queue, lets `delay` ms pass at the polled
node and polls it. The sender's arming time `t0` is carried separately from its clock `tA`. -/
namespace N2k.TP
open N2k.Send N2k.Time N2k.Spec

/-- which node polls -/
inductive Who | A | B
  deriving DecidableEq, Repr

/-- one poll of one node: the frames the other node sent so far arrive, `d` ms pass at the polled node, it polls -/
def step (w : Who) (d : Nat) (ab : Node × Node) : Node × Node :=
  match w with
  | .B => ((wire ab.1 ab.2).1, poll (advance (wire ab.1 ab.2).2 d))
  | .A => (poll (advance (wire ab.2 ab.1).2 d), (wire ab.2 ab.1).1)

/-- a schedule: any sequence of polls of A and B -/
def run : List (Who × Nat) → Node × Node → Node × Node
  | [], ab => ab
  | p :: t, ab => run t (step p.1 p.2 ab)

/-- the alternating `round` of `TPLinkMain` is the schedule `[(B, dB), (A, dA)]` -/
theorem round_eq_steps (dB dA : Nat) (ab : Node × Node) : round dB dA ab = run [(.B, dB), (.A, dA)] ab := rfl

/-- the timing condition on a schedule, phase by phase. `waitA = false`: frames of A are under way to B (the next poll of B is
effective, polls of A find nothing); `waitA = true`: B has answered (the next poll of A is effective, polls of B find nothing).
`el` is the time that passed at A since it armed its timeout `tmo`. EVERY poll of A up to and including the one that reads B's
answer happens before A's timeout is due; then A re-arms with 100 ms. Nothing is demanded of B's delays. -/
def timely : Bool → Nat → Nat → List (Who × Nat) → Prop
  | _, _, _, [] => True
  | false, el, tmo, (.A, d) :: t => el + d < tmo ∧ timely false (el + d) tmo t
  | false, el, tmo, (.B, _) :: t => timely true el tmo t
  | true, el, tmo, (.B, _) :: t => timely true el tmo t
  | true, el, tmo, (.A, d) :: t => el + d < tmo ∧ timely false 0 100 t

/-- the number of effective polls of a schedule (polls that find frames: B's after A sent, A's after B answered) -/
def effective : Bool → List (Who × Nat) → Nat
  | _, [] => 0
  | false, (.A, _) :: t => effective false t
  | false, (.B, _) :: t => 1 + effective true t
  | true, (.B, _) :: t => effective true t
  | true, (.A, _) :: t => 1 + effective false t

/-- total time of a schedule -/
def total (sch : List (Who × Nat)) : Nat := (sch.map (·.2)).sum

section
variable (a b : Node) (ia ib : Nat) (da db : Dev) (m : Msg) (j : Nat) (S' : List Slot) (a0 : Slot)

/-- the sender with packets up to `seq` handed over, timeout `tmo` armed at `t0`, clock `tA`, frames `fs` at its driver -/
def sndAt (seq t0 tmo tA : Nat) (fs : List Frame) : Node :=
  (atTime a tA).upd (txTp ia a m seq t0 tmo) a.slots a.out fs []

/-- the phases of the exchange -/
inductive Ph
  | rts                         -- RTS under way to B
  | cts (k tmo : Nat)           -- CTS for packets from `k` under way to A (A's timeout is `tmo`)
  | win (k : Nat)               -- window from `k` under way to B
  | ack (S'' : List Slot)       -- delivered; EndOfMsgACK under way to A

def Ph.waitA : Ph → Bool
  | .rts => false | .cts _ _ => true | .win _ => false | .ack _ => true
def Ph.tmo : Ph → Nat
  | .rts => 50 | .cts _ t => t | .win _ => 100 | .ack _ => 100
/-- effective polls still needed at most -/
def Ph.need (np : Nat) : Ph → Nat
  | .rts => 2 * np + 2 | .cts k _ => 2 * (np - k) + 1 | .win k => 2 * (np - k) | .ack _ => 1
def Ph.ok (m : Msg) : Ph → Prop
  | .rts => True
  | .cts k t => k % tpCtsPackets (tpPacketCount m.len) = 0 ∧ k < tpPacketCount m.len ∧ t ≤ 100
  | .win k => k % tpCtsPackets (tpPacketCount m.len) = 0 ∧ k < tpPacketCount m.len
  | .ack _ => True

/-- the two nodes in a phase: A's timeout armed at `t0`, clocks `tA`, `tB`, receiver's session time `mt` -/
def conf (ph : Ph) (t0 tA tB mt : Nat) : Node × Node :=
  match ph with
  | .rts => (sndAt a ia m 0 t0 50 tA [cmFrame da.source m.dst (announceBytes 16 m)], (atTime b tB).upd b.tp b.slots [] [] [])
  | .cts k t => (sndAt a ia m k t0 t tA [],
      rcv (atTime b tB) db m da.source j S' a0 mt [] k [cmFrame db.source da.source (ctsBytes m.pgn (tpPacketCount m.len) (k + 1))] [])
  | .win k => (sndAt a ia m (k + min (tpCtsPackets (tpPacketCount m.len)) (tpPacketCount m.len - k)) t0 100 tA
        ((List.range (min (tpCtsPackets (tpPacketCount m.len)) (tpPacketCount m.len - k))).map fun x => dtFrame da.source m (k + x)),
      rcv (atTime b tB) db m da.source j S' a0 mt [] k [] [])
  | .ack S'' => (sndAt a ia m (tpPacketCount m.len) t0 100 tA [],
      (atTime b tB).upd b.tp S'' [delivered m da.source db.source]
        [cmFrame db.source da.source (endAckBytes m.pgn m.len (tpPacketCount m.len))] [])

variable {a b ia ib da db m j S' a0}

/-- **an extra poll of the sender** while nothing has arrived and its timeout is not due changes only its clock -/
theorem step_A_idle (h : LinkHyp a b ia ib da db m j S' a0) (seq t0 tmo tA tB d : Nat) (fs : List Frame)
    (sl : List Slot) (out : List Delivery) (htmo : tmo ≤ 100) (ht : t0 ≤ tA + d ∧ tA + d < t0 + tmo) (h64 : tA + d + 100 < M64) :
    step .A d (sndAt a ia m seq t0 tmo tA fs, (atTime b tB).upd b.tp sl out [] []) =
      (sndAt a ia m seq t0 tmo (tA + d) fs, (atTime b tB).upd b.tp sl out [] []) := by
  unfold step sndAt
  simp only [wire_upd, List.append_nil, advance_upd]
  rw [poll_idle _ da ((h.devA.atTime (tA + d)).upd _ _ _ _ _ (fun k hk => by simp [txTp, hk, h.devA.others k hk]))
    (upd_quiet _ _ _ _ _ _ (atTime_quiet (tA + d) h.qa)) h.aInfo (fun _ => by
      simp only [upd_tp, txTp, ↓reduceIte]
      exact isTime_fromNow_early _ _ _ _ ht.1 ht.2 (by omega) (by omega)) rfl]

/-- **an extra poll of the receiver** while nothing has arrived changes only its clock -/
theorem step_B_idle (h : LinkHyp a b ia ib da db m j S' a0) (tA tB d : Nat) (tpA : Nat → TpDev) (slA : List Slot)
    (outA : List Delivery) (sl : List Slot) (out : List Delivery) (fs : List Frame) :
    step .B d ((atTime a tA).upd tpA slA outA [] [], (atTime b tB).upd b.tp sl out fs []) =
      ((atTime a tA).upd tpA slA outA [] [], (atTime b (tB + d)).upd b.tp sl out fs []) := by
  unfold step
  simp only [wire_upd, List.append_nil, advance_upd]
  exact congrArg (Prod.mk _) (poll_idle _ db ((h.devB.atTime (tB + d)).same sl out fs []) (upd_quiet _ _ _ _ _ _ (atTime_quiet (tB + d) h.qb)) h.bInfo
    (fun hp => by
      have hp' : (b.tp ib).hasPending = true := hp
      rw [h.bIdle] at hp'; cases hp') rfl)

/-- B polls with the RTS: it opens the session and answers CTS(1) -/
theorem step_B_rts (h : LinkHyp a b ia ib da db m j S' a0) (t0 tA tB mt d : Nat) :
    step .B d (conf a b ia da db m j S' a0 .rts t0 tA tB mt) =
      conf a b ia da db m j S' a0 (.cts 0 50) t0 tA (tB + d) (millis32 (tB + d)) := by
  have hsa := h.srcA
  have h' := h.at tA (tB + d)
  unfold step conf sndAt
  simp only [wire_upd, List.nil_append, advance_upd]
  have hp := poll_rts (atTime b (tB + d)) db m da.source j S' a0 h'.devB h'.qb (by omega) h.mdst h.len223 h.pgn24 h.bIdle h.bInfo h.known
    h.hS h.hj h.ha0
  rw [show (atTime b (tB + d)).tp = b.tp from rfl, show (atTime b (tB + d)).slots = b.slots from rfl] at hp
  rw [hp]
  rfl

/-- A polls with a CTS before its timeout: it sends the window and re-arms 100 ms -/
theorem step_A_cts (h : LinkHyp a b ia ib da db m j S' a0) (k tmo t0 tA tB mt d : Nat) (hk : k < tpPacketCount m.len) (htmo : tmo ≤ 100)
    (ht : t0 ≤ tA + d ∧ tA + d < t0 + tmo) (h64 : tA + d + 100 < M64) :
    step .A d (conf a b ia da db m j S' a0 (.cts k tmo) t0 tA tB mt) =
      conf a b ia da db m j S' a0 (.win k) (tA + d) (tA + d) tB mt := by
  have hsb := h.dstB
  have h' := h.at (tA + d) tB
  have hpc := tpPacketCount_le m.len h.len223
  unfold step conf sndAt rcv
  simp only [wire_upd, List.nil_append, advance_upd]
  have hc := poll_cts (atTime a (tA + d)) da m db.source k t0 tmo (tpPacketCount m.len) a.slots a.out h'.devA h'.qa h.aInfo h.mdst
    (by omega) h.len223 h.pgn24 htmo ⟨ht.1, ht.2⟩ (by show tA + d + 100 < M64; exact h64) (by omega)
  rw [txTp_atTime, txTp_atTime] at hc
  rw [hc]
  rfl

/-- B polls with a complete window that is not the last: it grants the next one -/
theorem step_B_window (h : LinkHyp a b ia ib da db m j S' a0) (k t0 tA tB mt d : Nat) (hkc : k % tpCtsPackets (tpPacketCount m.len) = 0)
    (hmore : k + tpCtsPackets (tpPacketCount m.len) < tpPacketCount m.len) :
    step .B d (conf a b ia da db m j S' a0 (.win k) t0 tA tB mt) =
      conf a b ia da db m j S' a0 (.cts (k + tpCtsPackets (tpPacketCount m.len)) 100) t0 tA (tB + d) (millis32 (tB + d)) := by
  have hsa := h.srcA
  have h' := h.at tA (tB + d)
  have hmin : min (tpCtsPackets (tpPacketCount m.len)) (tpPacketCount m.len - k) = tpCtsPackets (tpPacketCount m.len) := by omega
  have htight := tpPacketCount_tight m.len (by have := h.len9; omega)
  unfold step conf sndAt rcv
  simp only [wire_upd, List.nil_append, hmin, advance_upd]
  have hw := poll_window (atTime b (tB + d)) db m da.source j S' a0 k (tpCtsPackets (tpPacketCount m.len)) mt rfl h'.devB h'.qb
    (by omega) h.mdst h.none h.jlt h.len223 h.bIdle h.bInfo hkc (by omega)
  unfold rcv at hw
  rw [show (atTime b (tB + d)).tp = b.tp from rfl] at hw
  rw [show (atTime b tB).tp = b.tp from rfl]
  rw [hw]
  rfl

/-- B polls with the last window: it delivers the message and acknowledges -/
theorem step_B_last (h : LinkHyp a b ia ib da db m j S' a0) (k t0 tA tB mt d : Nat) (hkc : k % tpCtsPackets (tpPacketCount m.len) = 0)
    (hk : k < tpPacketCount m.len) (hlast : tpPacketCount m.len ≤ k + tpCtsPackets (tpPacketCount m.len)) :
    ∃ S'', step .B d (conf a b ia da db m j S' a0 (.win k) t0 tA tB mt) =
      conf a b ia da db m j S' a0 (.ack S'') t0 tA (tB + d) mt := by
  have hsa := h.srcA
  have h' := h.at tA (tB + d)
  have hmin : min (tpCtsPackets (tpPacketCount m.len)) (tpPacketCount m.len - k) = tpPacketCount m.len - k := by omega
  have htight := tpPacketCount_tight m.len (by have := h.len9; omega)
  have hcov := tpPacketCount_cover m.len
  unfold step conf sndAt rcv
  simp only [wire_upd, List.nil_append, hmin, advance_upd]
  obtain ⟨S'', hw⟩ := poll_last (atTime b (tB + d)) db m da.source j S' a0 k (tpCtsPackets (tpPacketCount m.len)) (tpPacketCount m.len - k) mt
    rfl h'.devB h'.qb (by omega) h.mdst h.none h.jlt h.len223 h.hdata h.bIdle h.bInfo hkc (by omega) (by omega) (by omega)
  unfold rcv at hw
  rw [show (atTime b (tB + d)).tp = b.tp from rfl] at hw
  rw [show (atTime b tB).tp = b.tp from rfl]
  rw [hw]
  refine ⟨S'', ?_⟩
  have e : k + (tpPacketCount m.len - k) = tpPacketCount m.len := by omega
  rw [e]

/-- A polls with the EndOfMsgACK before its timeout: the transfer is over -/
theorem step_A_ack (h : LinkHyp a b ia ib da db m j S' a0) (S'' : List Slot) (t0 tA tB mt d : Nat)
    (ht : t0 ≤ tA + d ∧ tA + d < t0 + 100) (h64 : tA + d + 100 < M64) :
    step .A d (conf a b ia da db m j S' a0 (.ack S'') t0 tA tB mt) =
      ((atTime a (tA + d)).upd (doneTp ia a m (tpPacketCount m.len)) a.slots a.out [] [],
       (atTime b tB).upd b.tp S'' [delivered m da.source db.source] [] []) := by
  have hsb := h.dstB
  have h' := h.at (tA + d) tB
  unfold step conf sndAt
  simp only [wire_upd, List.nil_append, advance_upd]
  have hc := poll_endack (atTime a (tA + d)) da m db.source (tpPacketCount m.len) t0 100 m.len (tpPacketCount m.len) a.slots a.out
    h'.devA h'.qa h.aInfo h.mdst (by omega) h.pgn24 (by omega) ⟨ht.1, ht.2⟩ (by show tA + d + 100 < M64; exact h64)
  rw [txTp_atTime, doneTp_atTime] at hc
  rw [hc]

theorem total_cons (w : Who) (d : Nat) (t : List (Who × Nat)) : total ((w, d) :: t) = d + total t := by simp [total]

/-- **any poll order**: from any phase, every timely schedule with enough effective polls completes the transfer - and does so
no later than with the `need`-th effective poll -/
theorem run_complete (h : LinkHyp a b ia ib da db m j S' a0) : ∀ (sch : List (Who × Nat)) (ph : Ph) (t0 tA tB mt : Nat),
    ph.ok m → t0 ≤ tA → timely ph.waitA (tA - t0) ph.tmo sch → ph.need (tpPacketCount m.len) ≤ effective ph.waitA sch →
    tA + total sch + 100 < M64 →
    ∃ r S'' tA' tB', r ≤ sch.length ∧ effective ph.waitA (sch.take r) ≤ ph.need (tpPacketCount m.len) ∧
      run (sch.take r) (conf a b ia da db m j S' a0 ph t0 tA tB mt) =
      ((atTime a tA').upd (doneTp ia a m (tpPacketCount m.len)) a.slots a.out [] [],
       (atTime b tB').upd b.tp S'' [delivered m da.source db.source] [] [])
  | [], ph, _, _, _, _, hok, _, _, hn, _ => by
    cases ph <;> simp only [Ph.need, effective, Ph.ok] at hn hok <;> omega
  | (w, d) :: t, ph, t0, tA, tB, mt, hok, h0, htm, hn, h64 => by
    have hcpos := tpCtsPackets_pos (tpPacketCount m.len)
    rw [total_cons] at h64
    cases ph with
    | rts =>
      cases w with
      | A =>
        simp only [Ph.waitA, Ph.tmo, timely, effective, Ph.need] at htm hn ⊢
        obtain ⟨r, S'', tA', tB', hr, he, hR⟩ := run_complete h t .rts t0 (tA + d) tB mt trivial (by omega)
          (by simp only [Ph.waitA, Ph.tmo]; rw [show tA + d - t0 = tA - t0 + d by omega]; exact htm.2)
          (by simp only [Ph.waitA, Ph.need]; exact hn) (by omega)
        refine ⟨r + 1, S'', tA', tB', by simp; omega, ?_, ?_⟩
        · simp only [List.take_succ_cons, effective]; exact he
        · simp only [List.take_succ_cons, run]
          rw [show conf a b ia da db m j S' a0 .rts t0 tA tB mt = (sndAt a ia m 0 t0 50 tA [cmFrame da.source m.dst (announceBytes 16 m)],
              (atTime b tB).upd b.tp b.slots [] [] []) from rfl,
            step_A_idle h 0 t0 50 tA tB d _ _ _ (by omega) (by omega) (by omega)]
          exact hR
      | B =>
        simp only [Ph.waitA, Ph.tmo, timely, effective, Ph.need] at htm hn ⊢
        have hnp : 0 < tpPacketCount m.len := by have := h.len9; unfold tpPacketCount; omega
        obtain ⟨r, S'', tA', tB', hr, he, hR⟩ := run_complete h t (.cts 0 50) t0 tA (tB + d) (millis32 (tB + d))
          ⟨Nat.zero_mod _, hnp, by omega⟩ h0 (by simp only [Ph.waitA, Ph.tmo]; exact htm)
          (by simp only [Ph.waitA, Ph.need]; omega) (by omega)
        refine ⟨r + 1, S'', tA', tB', by simp; omega, ?_, ?_⟩
        · simp only [List.take_succ_cons, effective]; simp only [Ph.waitA, Ph.need] at he; omega
        · simp only [List.take_succ_cons, run]
          rw [step_B_rts h]
          exact hR
    | cts k tmo =>
      obtain ⟨hkc, hk, htmo⟩ := hok
      cases w with
      | B =>
        simp only [Ph.waitA, Ph.tmo, timely, effective, Ph.need] at htm hn ⊢
        obtain ⟨r, S'', tA', tB', hr, he, hR⟩ := run_complete h t (.cts k tmo) t0 tA (tB + d) mt ⟨hkc, hk, htmo⟩ h0
          (by simp only [Ph.waitA, Ph.tmo]; exact htm) (by simp only [Ph.waitA, Ph.need]; exact hn) (by omega)
        refine ⟨r + 1, S'', tA', tB', by simp; omega, ?_, ?_⟩
        · simp only [List.take_succ_cons, effective]; exact he
        · simp only [List.take_succ_cons, run]
          rw [show conf a b ia da db m j S' a0 (.cts k tmo) t0 tA tB mt = ((atTime a tA).upd (txTp ia a m k t0 tmo) a.slots a.out [] [],
              (atTime b tB).upd b.tp (S'.set j (sess a0 m da.source db.source mt k)) []
                [cmFrame db.source da.source (ctsBytes m.pgn (tpPacketCount m.len) (k + 1))] []) from rfl,
            step_B_idle h]
          exact hR
      | A =>
        simp only [Ph.waitA, Ph.tmo, timely, effective, Ph.need] at htm hn ⊢
        obtain ⟨r, S'', tA', tB', hr, he, hR⟩ := run_complete h t (.win k) (tA + d) (tA + d) tB mt ⟨hkc, hk⟩ (Nat.le_refl _)
          (by simp only [Ph.waitA, Ph.tmo, Nat.sub_self]; exact htm.2) (by simp only [Ph.waitA, Ph.need]; omega) (by omega)
        refine ⟨r + 1, S'', tA', tB', by simp; omega, ?_, ?_⟩
        · simp only [List.take_succ_cons, effective]; simp only [Ph.waitA, Ph.need] at he; omega
        · simp only [List.take_succ_cons, run]
          rw [step_A_cts h k tmo t0 tA tB mt d hk htmo (by omega) (by omega)]
          exact hR
    | win k =>
      obtain ⟨hkc, hk⟩ := hok
      cases w with
      | A =>
        simp only [Ph.waitA, Ph.tmo, timely, effective, Ph.need] at htm hn ⊢
        obtain ⟨r, S'', tA', tB', hr, he, hR⟩ := run_complete h t (.win k) t0 (tA + d) tB mt ⟨hkc, hk⟩ (by omega)
          (by simp only [Ph.waitA, Ph.tmo]; rw [show tA + d - t0 = tA - t0 + d by omega]; exact htm.2)
          (by simp only [Ph.waitA, Ph.need]; exact hn) (by omega)
        refine ⟨r + 1, S'', tA', tB', by simp; omega, ?_, ?_⟩
        · simp only [List.take_succ_cons, effective]; exact he
        · simp only [List.take_succ_cons, run]
          rw [show conf a b ia da db m j S' a0 (.win k) t0 tA tB mt =
              (sndAt a ia m (k + min (tpCtsPackets (tpPacketCount m.len)) (tpPacketCount m.len - k)) t0 100 tA
                ((List.range (min (tpCtsPackets (tpPacketCount m.len)) (tpPacketCount m.len - k))).map fun x => dtFrame da.source m (k + x)),
               (atTime b tB).upd b.tp (S'.set j (sess a0 m da.source db.source mt k)) [] [] []) from rfl,
            step_A_idle h _ t0 100 tA tB d _ _ _ (by omega) (by omega) (by omega)]
          exact hR
      | B =>
        simp only [Ph.waitA, Ph.tmo, timely, effective, Ph.need] at htm hn ⊢
        by_cases hlast : tpPacketCount m.len ≤ k + tpCtsPackets (tpPacketCount m.len)
        · obtain ⟨S2, hs⟩ := step_B_last h k t0 tA tB mt d hkc hk hlast
          obtain ⟨r, S'', tA', tB', hr, he, hR⟩ := run_complete h t (.ack S2) t0 tA (tB + d) mt trivial h0
            (by simp only [Ph.waitA, Ph.tmo]; exact htm) (by simp only [Ph.waitA, Ph.need]; omega) (by omega)
          refine ⟨r + 1, S'', tA', tB', by simp; omega, ?_, ?_⟩
          · simp only [List.take_succ_cons, effective]; simp only [Ph.waitA, Ph.need] at he; omega
          · simp only [List.take_succ_cons, run]
            rw [hs]
            exact hR
        · have hmore : k + tpCtsPackets (tpPacketCount m.len) < tpPacketCount m.len := by omega
          obtain ⟨r, S'', tA', tB', hr, he, hR⟩ := run_complete h t (.cts (k + tpCtsPackets (tpPacketCount m.len)) 100) t0 tA (tB + d)
            (millis32 (tB + d)) ⟨add_mod_self_of_dvd k _ hkc, hmore, Nat.le_refl _⟩ h0
            (by simp only [Ph.waitA, Ph.tmo]; exact htm) (by simp only [Ph.waitA, Ph.need]; omega) (by omega)
          refine ⟨r + 1, S'', tA', tB', by simp; omega, ?_, ?_⟩
          · simp only [List.take_succ_cons, effective]; simp only [Ph.waitA, Ph.need] at he; omega
          · simp only [List.take_succ_cons, run]
            rw [step_B_window h k t0 tA tB mt d hkc hmore]
            exact hR
    | ack S2 =>
      cases w with
      | B =>
        simp only [Ph.waitA, Ph.tmo, timely, effective, Ph.need] at htm hn ⊢
        obtain ⟨r, S'', tA', tB', hr, he, hR⟩ := run_complete h t (.ack S2) t0 tA (tB + d) mt trivial h0
          (by simp only [Ph.waitA, Ph.tmo]; exact htm) (by simp only [Ph.waitA, Ph.need]; exact hn) (by omega)
        refine ⟨r + 1, S'', tA', tB', by simp; omega, ?_, ?_⟩
        · simp only [List.take_succ_cons, effective]; exact he
        · simp only [List.take_succ_cons, run]
          rw [show conf a b ia da db m j S' a0 (.ack S2) t0 tA tB mt = ((atTime a tA).upd (txTp ia a m (tpPacketCount m.len) t0 100) a.slots a.out [] [],
              (atTime b tB).upd b.tp S2 [delivered m da.source db.source]
                [cmFrame db.source da.source (endAckBytes m.pgn m.len (tpPacketCount m.len))] []) from rfl,
            step_B_idle h]
          exact hR
      | A =>
        simp only [Ph.waitA, Ph.tmo, timely, effective, Ph.need] at htm hn ⊢
        refine ⟨1, S2, tA + d, tB, by simp, ?_, ?_⟩
        · simp [effective]
        · simp only [List.take_succ_cons, List.take_zero, run]
          exact step_A_ack h S2 t0 tA tB mt d (by omega) (by omega)

end

end N2k.TP
