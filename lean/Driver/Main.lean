import Driver.Ring
/-! `n2kdrv <engine>` — executes the Lean model's definitions on a line protocol (see DESIGN.md App. A). -/
def main (args : List String) : IO UInt32 := do
  match args with
  | ["ring"] => Driver.Ring.main; return 0
  | _ => IO.eprintln "usage: n2kdrv <engine>"; return 2
