// C02 harness: feeds CAN frames to the REAL tNMEA2000 (ParseMessages -> SetN2kCANBufMsg -> message handler)
// through the mock driver and observes the messages handed to the application.
// ops:  reset <t32|t64> <slots> <mode> <origin>   node constructed at virtual time <origin>, N2km_ListenOnly,
//                                                 SetN2kCANMsgBufSize(slots), mode 1 = SetHandleOnlyKnownMessages,
//                                                 then polled for 700 ms (1 ms steps) so that it is open
//       sflist <0|1> <pgn>... / fplist <0|1> <pgn>...   application PGN lists (0 = Set...Messages, 1 = Extend...Messages)
//       t <ms>                                    advance the virtual clock
//       rx <idhex> <len> <hex>                    one frame from the bus (fast packet / single frame, or a TP.CM RTS/BAM frame
//                                                 that opens a TP session slot); output = delivered message
//                                                 "prio pgn src dst len hex" or "-"
//       q                                         dump of the reassembly slots
// Oracle: reference reassembler written from the property statement, keyed by (PGN, source); see refStep(); the slot budget
// ("as many concurrent senders as slots") is time-aware and independent of the receiver's slot policy, see needPlace().
#include "node.h"
#include "spec_tables.h"   // frozen NMEA 2000 lists: SPEC_FAST_PACKET[], SPEC_SINGLE_FRAME[]
#include <algorithm>
#include <list>
using namespace vh;
static Ctx C;

struct Node : public MockN2k {
  std::string dump() {
    std::string r; char b[128];
    for (int i = 0; i < MaxN2kCANMsgs; i++) {
      tN2kCANMsg &m = N2kCANMsgBuf[i];
      if (i) r += ' ';
      if (m.FreeMsg) { r += 'F'; continue; }
      snprintf(b, sizeof b, "%lu.%u.%u.%u.%u.%u.%d.%lu", m.N2kMsg.PGN, m.N2kMsg.Source, m.N2kMsg.Destination, m.N2kMsg.Priority,
               m.LastFrame, m.CopiedLen, m.N2kMsg.DataLen, m.N2kMsg.MsgTime);
      r += b; if (m.N2kMsg.IsTPMessage()) r += ".T";
    }
    return r;
  }
  unsigned slots() const { return MaxN2kCANMsgs; }
};

static Node *N = nullptr;
static unsigned nSlots = 5; static int mode = 0;

struct Deliv { unsigned prio; unsigned long pgn; unsigned src, dst; int len; std::vector<unsigned char> data; };
static std::vector<Deliv> got;
static void onMsg(const tN2kMsg &m) {
  Deliv d; d.prio = m.Priority; d.pgn = m.PGN; d.src = m.Source; d.dst = m.Destination; d.len = m.DataLen;
  int n = m.DataLen < 0 ? 0 : (m.DataLen > tN2kMsg::MaxDataLen ? tN2kMsg::MaxDataLen : m.DataLen);
  d.data.assign(m.Data, m.Data + n); got.push_back(d);
}
static std::string delivStr(const Deliv &d) {
  char b[96]; snprintf(b, sizeof b, "%u %lu %u %u %d ", d.prio, d.pgn, d.src, d.dst, d.len);
  return std::string(b) + hex(d.data.data(), d.data.size());
}

// ------------------------------------------------------------- reference reassembler (from the property statement)
static bool inTable(const unsigned long *t, size_t n, unsigned long pgn) { for (size_t i = 0; i < n; i++) if (t[i] == pgn) return true; return false; }
// application-declared lists (documented API: Set...Messages REPLACES the library's default list of that kind,
// Extend...Messages adds a second list); system and mandatory PGNs are always known
static bool haveSF[2], haveFP[2]; static std::set<unsigned long> userSF[2], userFP[2];
static const unsigned long SYS_SF[] = {59392UL, 59904UL, 60160UL, 60416UL, 60928UL};
static const unsigned long SYS_FP[] = {65240UL, 126208UL, 126464UL, 126996UL, 126998UL};
static bool specFast(unsigned long pgn) {
  if (pgn == 0) return false;
  if (inTable(SYS_FP, 5, pgn)) return true;
  if (!haveFP[0] && inTable(SPEC_FAST_PACKET, sizeof(SPEC_FAST_PACKET) / sizeof(SPEC_FAST_PACKET[0]), pgn)) return true;
  if (userFP[0].count(pgn) || userFP[1].count(pgn)) return true;
  if (userSF[0].count(pgn) || userSF[1].count(pgn)) return false;
  return pgn == 126720UL || (pgn >= 130816UL && pgn <= 131071UL);
}
static bool specKnown(unsigned long pgn) {
  if (pgn == 0) return false;
  if (inTable(SYS_SF, 5, pgn) || inTable(SYS_FP, 5, pgn)) return true;
  if (!haveFP[0] && inTable(SPEC_FAST_PACKET, sizeof(SPEC_FAST_PACKET) / sizeof(SPEC_FAST_PACKET[0]), pgn)) return true;
  if (!haveSF[0] && inTable(SPEC_SINGLE_FRAME, sizeof(SPEC_SINGLE_FRAME) / sizeof(SPEC_SINGLE_FRAME[0]), pgn)) return true;
  return userFP[0].count(pgn) || userFP[1].count(pgn) || userSF[0].count(pgn) || userSF[1].count(pgn);
}
static bool isTPpgn(unsigned long pgn) { return pgn == 60416UL || pgn == 60160UL; }

struct Partial { unsigned prio, dst, seq, next, L; std::vector<unsigned char> bytes; uint64_t t0; /* generator clock at its first frame */ bool placed, risk; };
typedef std::pair<unsigned long, unsigned> Key;
static std::map<Key, Partial> ref;
// TP sessions opened by TP.CM RTS/BAM (no data packets follow in this harness): they deliver nothing, but each holds a place
static std::map<std::pair<unsigned, unsigned>, uint64_t> tpHeld;   // (source, destination) -> generator clock of the announce
// case-level facts about the INPUT (used only to name the failing input class)
static bool caseTight = false;         // at some point not every unfinished message fitted into the slots
static bool caseOtherDst = false;      // a first frame superseded an unfinished message of its PGN+source that had another destination
static bool caseSupersede = false;     // a first frame superseded an unfinished message of its PGN+source (same destination)
static long caseDeliv = 0, caseFPDeliv = 0, caseInterleaved = 0, caseDiscard = 0, caseFrames = 0;
static std::string caseKind = "replay";

struct RefOut { bool deliv; Deliv d; bool oversize; bool demand; };

// Which of the owed deliveries are DEMANDED ("up to as many concurrent senders as there are reassembly slots", "slot-reuse
// timing (100 ms) at any clock value"). The reference reassembler `ref` is the pure statement (it never drops a message for
// lack of room); it decides what MAY be delivered (anything else is extra/corrupt). What MUST be delivered is decided per
// message, without assuming which slot policy the receiver follows where the property leaves it open (whether an
// undeliverable announcement holds a place, which of several old messages gives way):
//  * a place can be held only by an unfinished message of the reference or by a TP session (pessimistic: all of them count);
//  * `placed`: when the message starts, the others + 1 fit into the slots, or - when they do not - fewer than nSlots of the
//    others are younger than 100 ms (margin: age <= 101 counts as young; no age near 2^31 ms, which a 32-bit clock cannot
//    compare), so that a free place or one that has timed out exists under every permitted policy;
//  * `risk`: while the message was unfinished, another message needed a place when not everything fitted and this one was
//    already >= 99 ms old: it may legitimately have given way.
// A completed message is demanded iff placed and not at risk.
static bool needPlace(const std::map<std::pair<unsigned long, unsigned>, Partial>::iterator *self);

static void refDecode(unsigned long id, unsigned &prio, unsigned long &pgn, unsigned &src, unsigned &dst) {
  prio = (id >> 26) & 7; unsigned dp = (id >> 24) & 1, pf = (id >> 16) & 0xff, ps = (id >> 8) & 0xff; src = id & 0xff;
  if (pf < 240) { pgn = ((unsigned long)dp << 16) | ((unsigned long)pf << 8); dst = ps; }
  else { pgn = ((unsigned long)dp << 16) | ((unsigned long)pf << 8) | ps; dst = 255; }
}

static bool needPlace(const std::map<Key, Partial>::iterator *self) {
  size_t others = ref.size() - (self ? 1 : 0) + tpHeld.size();
  if (others + 1 <= nSlots) return true;              // room even if every unfinished message still holds a place
  caseTight = true; C.count("budget_tight");
  bool farApart = false; size_t young = 0;
  for (auto it = ref.begin(); it != ref.end(); ++it) {
    if (self && it == *self) continue;
    uint64_t age = g_now - it->second.t0;
    if (age >= 2147483648ULL - 1000) farApart = true;
    if (age <= 101) young++;
    if (age >= 99) it->second.risk = true;
  }
  for (auto it = tpHeld.begin(); it != tpHeld.end(); ++it) {
    uint64_t age = g_now - it->second;
    if (age >= 2147483648ULL - 1000) farApart = true;
    if (age <= 101) young++;
  }
  bool ok = !farApart && young + 1 <= nSlots;
  if (ok) C.count("budget_stale_must_give_way");
  return ok;
}

// TP.CM RTS/BAM: delivers nothing; a new announce replaces the session of the same source and destination; the session
// holds a place if the announced size is receivable (<= 223) and the transported PGN passes the known-message gate
static void refTPOpen(unsigned src, unsigned dst, const unsigned char *b) {
  unsigned long tpgn = (unsigned long)b[5] | ((unsigned long)b[6] << 8) | ((unsigned long)b[7] << 16);
  unsigned nBytes = (unsigned)b[1] | ((unsigned)b[2] << 8);
  tpHeld.erase(std::make_pair(src, dst));
  needPlace(nullptr);
  if (nBytes <= 223 && (mode != 1 || specKnown(tpgn))) tpHeld[std::make_pair(src, dst)] = g_now;
  C.count("ref_tp_open");
}

// b = the 8 bytes the receiver sees, len = DLC
static RefOut refStep(unsigned long id, unsigned len, const unsigned char *b) {
  RefOut o; o.deliv = false; o.oversize = false; o.demand = false;
  unsigned prio, src, dst; unsigned long pgn; refDecode(id, prio, pgn, src, dst);
  if (pgn == 60416UL && (b[0] == 16 || b[0] == 32)) { refTPOpen(src, dst, b); return o; }   // TP session announce
  if (isTPpgn(pgn)) return o;                       // other ISO-TP frames: never generated here (C10)
  if (mode == 1 && !specKnown(pgn)) return o;       // node handles only known messages
  Key k(pgn, src);
  if (!specFast(pgn)) {                             // single frame: delivered with the DLC as length
    o.demand = needPlace(nullptr);
    o.deliv = true; o.d.prio = prio; o.d.pgn = pgn; o.d.src = src; o.d.dst = dst; o.d.len = (int)len; o.d.data.assign(b, b + len);
    return o;
  }
  bool first = (b[0] & 0x1f) == 0;
  if (first) {
    auto it = ref.find(k);
    bool placed = needPlace(it != ref.end() ? &it : nullptr);
    if (it != ref.end()) { if (it->second.dst != dst) caseOtherDst = true; else caseSupersede = true; caseDiscard++; }   // superseded
    Partial p; p.prio = prio; p.dst = dst; p.seq = b[0] >> 5; p.next = 1; p.L = b[1]; p.t0 = g_now; p.placed = placed; p.risk = false;
    for (unsigned j = 2; j < len; j++) p.bytes.push_back(b[j]);
    if (p.L <= 223 && p.bytes.size() >= p.L) {
      ref.erase(k); o.deliv = true; o.demand = placed; o.d.prio = prio; o.d.pgn = pgn; o.d.src = src; o.d.dst = dst; o.d.len = (int)p.L;
      o.d.data.assign(p.bytes.begin(), p.bytes.begin() + p.L);
    } else { if (ref.size() > 0 && it == ref.end()) caseInterleaved++; ref[k] = p; }
    return o;
  }
  auto it = ref.find(k);
  if (it == ref.end()) return o;                    // no first frame: ignored
  Partial &p = it->second;
  if ((unsigned)(b[0] >> 5) == p.seq && (unsigned)(b[0] & 0x1f) == p.next) {
    for (unsigned j = 1; j < len; j++) p.bytes.push_back(b[j]);
    p.next++;
    if (p.L <= 223 && p.bytes.size() >= p.L) {
      o.deliv = true; o.demand = p.placed && !p.risk; o.d.prio = p.prio; o.d.pgn = pgn; o.d.src = src; o.d.dst = p.dst; o.d.len = (int)p.L;
      o.d.data.assign(p.bytes.begin(), p.bytes.begin() + p.L); ref.erase(it);
    }
  } else { ref.erase(it); caseDiscard++; }          // missing / out-of-sequence frame: discarded as a whole
  return o;
}

static std::string inputClass() { return caseOtherDst ? "stale-addressed-slot" : caseSupersede ? "free-before-match" : ""; }

static void oracle(const RefOut &r, unsigned long id) {
  unsigned prio, src, dst; unsigned long pgn; refDecode(id, prio, pgn, src, dst);
  const char *cls = specFast(pgn) ? "fp" : "single";
  for (auto &d : got) if (d.len > 223) C.fail("C02:oversize-delivered", "delivered len=%d pgn=%lu", d.len, d.pgn);
  if (got.size() > 1) { C.fail("C02:duplicate-delivery", "%zu deliveries for one frame", got.size()); return; }
  if (got.empty() && !r.deliv) return;
  std::string ic = inputClass();
  if (!got.empty() && !r.deliv) {
    C.fail(!ic.empty() ? "C02:" + ic : std::string("C02:extra:") + cls, "delivered %s but no message is complete", delivStr(got[0]).c_str());
    return;
  }
  if (got.empty() && r.deliv) {
    if (!r.demand) { C.count("missing_not_demanded"); return; }   // beyond the slot count / after 100 ms only safety is required
    C.fail(!ic.empty() ? "C02:" + ic : std::string("C02:missing:") + cls, "owed %s, nothing delivered", delivStr(r.d).c_str());
    return;
  }
  const Deliv &d = got[0];
  const char *field = d.pgn != r.d.pgn ? "pgn" : d.src != r.d.src ? "src" : d.dst != r.d.dst ? "dst" : d.prio != r.d.prio ? "prio"
                    : d.len != r.d.len ? "len" : d.data != r.d.data ? "data" : nullptr;
  if (field) C.fail(!ic.empty() ? "C02:" + ic : std::string("C02:corrupt:") + field, "delivered %s, sent %s", delivStr(d).c_str(), delivStr(r.d).c_str());
}

// ------------------------------------------------------------------------------------------------ exec
static std::list<std::vector<unsigned long>> keep;   // storage of the PGN lists handed to the library
static std::string caseDesc;
static void endCase() {
  if (!N) return;
  C.cases++;
  C.count("case_" + caseKind);
  if (caseTight) C.count("cases_tight");
  if (caseFPDeliv > 0 && caseInterleaved > 0 && caseDiscard > 0) C.nontrivial(caseDesc);
  caseDesc.clear();
}

static void exec(const std::string &line) {
  std::vector<std::string> w = split(line);
  if (w.empty()) return;
  if (w[0] == "reset" && w.size() == 5) {
    endCase();
    C.op("%s", line.c_str()); caseDesc = line;
    nSlots = (unsigned)strtoul(w[2].c_str(), 0, 10); mode = atoi(w[3].c_str());
    uint64_t origin = strtoull(w[4].c_str(), 0, 10);
    g_now = origin;
    delete N; N = new Node(); keep.clear();
    for (int g = 0; g < 2; g++) { haveSF[g] = haveFP[g] = false; userSF[g].clear(); userFP[g].clear(); }
    N->SetMode(tNMEA2000::N2km_ListenOnly);
    N->EnableForward(false);
    N->SetN2kCANMsgBufSize((uint8_t)nSlots);
    if (mode == 1) N->SetHandleOnlyKnownMessages();
    N->SetMsgHandler(onMsg);
    openAndSettle(*N, 700);
    if (!N->isOpen()) C.fail("harness:not-open", "node did not open");
    if (nSlots == 0) nSlots = N->slots();   // library default: the property is parametric in the slot count
    if (N->slots() != nSlots) C.fail("harness:slots", "MaxN2kCANMsgs=%u wanted %u", N->slots(), nSlots);
    ref.clear(); tpHeld.clear(); caseTight = caseOtherDst = caseSupersede = false; caseDeliv = caseFPDeliv = caseInterleaved = caseDiscard = caseFrames = 0;
    got.clear();
    C.out("ok"); return;
  }
  C.op("%s", line.c_str()); C.count("op_" + w[0]); caseDesc += ';'; caseDesc += line;
  if (!N) { C.out("bad-op"); return; }
  if (w[0] == "t" && w.size() == 2) { g_now += strtoull(w[1].c_str(), 0, 10); C.out("ok"); return; }
  if (w[0] == "q" && w.size() == 1) { C.outs(N->dump()); return; }
  if ((w[0] == "sflist" || w[0] == "fplist") && w.size() >= 2 && (w[1] == "0" || w[1] == "1")) {
    int g = w[1] == "1"; keep.emplace_back();
    for (size_t i = 2; i < w.size(); i++) keep.back().push_back(strtoul(w[i].c_str(), 0, 10));
    keep.back().push_back(0);
    const unsigned long *p = keep.back().data(); bool sf = w[0] == "sflist";
    if (sf) { if (g) N->ExtendSingleFrameMessages(p); else N->SetSingleFrameMessages(p); haveSF[g] = true; userSF[g].clear(); }
    else { if (g) N->ExtendFastPacketMessages(p); else N->SetFastPacketMessages(p); haveFP[g] = true; userFP[g].clear(); }
    for (size_t i = 2; i < w.size(); i++) (sf ? userSF[g] : userFP[g]).insert(strtoul(w[i].c_str(), 0, 10));
    C.out("ok"); return;
  }
  if (w[0] == "rx" && w.size() == 4) {
    unsigned long id = strtoul(w[1].c_str(), 0, 16); unsigned len = (unsigned)strtoul(w[2].c_str(), 0, 10);
    std::vector<unsigned char> by = unhex(w[3]);
    if (len > 8 || by.size() != len) { C.out("bad-op"); return; }
    unsigned char buf[8]; memset(buf, 0xAA, 8); if (len) memcpy(buf, by.data(), len);
    got.clear();
    N->rx(id, (unsigned char)len, buf);
    N->ParseMessages();
    if (!N->rxq.empty()) C.fail("harness:rxq", "frame not consumed");
    std::string o; for (auto &d : got) { if (!o.empty()) o += " | "; o += delivStr(d); }
    C.outs(o.empty() ? "-" : o);
    RefOut r = refStep(id, len, buf);
    caseFrames++;
    if (r.deliv) { caseDeliv++; if (specFast(r.d.pgn)) { caseFPDeliv++; if (r.d.len > 6) C.count("ref_fp_multi_frame_delivered"); } C.count("ref_delivered"); }
    if (!got.empty()) C.count("impl_delivered");
    oracle(r, id);
    return;
  }
  C.out("bad-op");
}

// -------------------------------------------------------------------------------------------- generators
static unsigned long canId(unsigned prio, unsigned long pgn, unsigned src, unsigned dst) {
  unsigned long pf = (pgn >> 8) & 0xff;
  unsigned long id = ((unsigned long)(prio & 7) << 26) | (pgn << 8) | src;
  if (pf < 240) id |= (unsigned long)dst << 8;
  return id;
}
struct GFrame { unsigned long id; unsigned len; unsigned char b[8]; };
static void feed(const GFrame &f) {
  char l[96]; snprintf(l, sizeof l, "rx %lx %u %s", f.id, f.len, hex(f.b, f.len).c_str()); exec(l);
}
static void tick(uint64_t ms) { char l[48]; snprintf(l, sizeof l, "t %llu", (unsigned long long)ms); exec(l); }
static void reset(const char *fl, unsigned slots, int md, uint64_t origin) {
  char l[96]; snprintf(l, sizeof l, "reset %s %u %d %llu", fl, slots, md, (unsigned long long)origin); exec(l);
}

// frames of one message; announced = value of the length byte (normally pl.size())
static std::vector<GFrame> encode(unsigned prio, unsigned long pgn, unsigned src, unsigned dst, const std::vector<unsigned char> &pl,
                                  bool fast, unsigned seq, unsigned announced, bool shortLast) {
  std::vector<GFrame> r; unsigned long id = canId(prio, pgn, src, dst);
  if (!fast) { GFrame f; f.id = id; f.len = (unsigned)std::min<size_t>(pl.size(), 8); memset(f.b, 0xff, 8); if (f.len) memcpy(f.b, pl.data(), f.len); r.push_back(f); return r; }
  size_t L = pl.size(), nfr = L <= 6 ? 1 : 1 + (L - 6 + 6) / 7;
  for (size_t k = 0; k < nfr && k < 32; k++) {
    GFrame f; f.id = id; f.len = 8; memset(f.b, 0xff, 8); f.b[0] = (unsigned char)((seq & 7) * 32 + k);
    size_t used;
    if (k == 0) { f.b[1] = (unsigned char)announced; size_t j = 0; for (; j < 6 && j < L; j++) f.b[2 + j] = pl[j]; used = 2 + j; }
    else { size_t off = 6 + 7 * (k - 1), j = 0; for (; j < 7 && off + j < L; j++) f.b[1 + j] = pl[off + j]; used = 1 + j; }
    if (shortLast && k + 1 == nfr) f.len = (unsigned)used;
    r.push_back(f);
  }
  return r;
}

// TP.CM RTS (control 16, addressed) or BAM (control 32, broadcast) announcing `tpgn` with `nBytes` bytes
static GFrame tpcm(bool bam, unsigned src, unsigned dst, unsigned long tpgn, unsigned nBytes) {
  GFrame f; f.id = canId(7, 60416UL, src, bam ? 255 : dst); f.len = 8;
  f.b[0] = bam ? 32 : 16; f.b[1] = (unsigned char)(nBytes & 0xff); f.b[2] = (unsigned char)(nBytes >> 8);
  f.b[3] = (unsigned char)((nBytes + 6) / 7); f.b[4] = 0xff;
  f.b[5] = (unsigned char)(tpgn & 0xff); f.b[6] = (unsigned char)((tpgn >> 8) & 0xff); f.b[7] = (unsigned char)((tpgn >> 16) & 0xff);
  return f;
}

// application-declared PGNs (not in any library table)
static const unsigned long USER_FP[] = {130000UL, 127000UL, 65300UL, 129999UL};
static const unsigned long USER_SF[] = {65280UL, 65535UL, 61184UL, 2560UL};
// lists bitmask: 1 = SetSingleFrameMessages, 2 = ExtendSingleFrameMessages, 4 = SetFastPacketMessages, 8 = ExtendFastPacketMessages
static void declareLists(Rng &R, unsigned lists) {
  for (int k = 0; k < 4; k++) {
    if (!(lists & (1u << k))) continue;
    bool sf = k < 2; std::string l = sf ? "sflist " : "fplist "; l += (k & 1) ? "1" : "0";
    const unsigned long *pool = sf ? USER_SF : USER_FP;
    for (int i = 0; i < 4; i++) if (R.chance(1, 2)) l += " " + std::to_string(pool[i]);
    if (R.chance(1, 3)) l += sf ? " 127250" : " 129029";     // a library default PGN declared again
    exec(l);
  }
}

static const unsigned long FP_PDU2[] = {127489UL, 127506UL, 129029UL, 129540UL, 126996UL, 126998UL, 65240UL, 130816UL, 131071UL, 130900UL, 128275UL, 129285UL};
static const unsigned long FP_PDU1[] = {126208UL, 126464UL, 126720UL};
static const unsigned long SF_KNOWN[] = {127250UL, 127488UL, 128267UL, 129025UL, 130306UL, 126992UL, 59904UL, 60928UL, 59392UL, 126993UL};
static const unsigned long UNKNOWN[] = {0UL, 61184UL /*PDU1 proprietary single*/, 65280UL, 127000UL, 130000UL, 2560UL /*0x0A00*/, 126000UL, 65535UL};

struct Stream { unsigned src; unsigned long pgn; bool fast; unsigned seq; std::deque<GFrame> pend; unsigned dstA, dstB; };

static void startMsg(Rng &R, Stream &s, bool allowOversize) {
  unsigned prio = (unsigned)R.below(8);
  unsigned dst = ((s.pgn >> 8) & 0xff) < 240 ? (R.chance(1, 2) ? s.dstA : s.dstB) : 255;
  std::vector<unsigned char> pl;
  if (!s.fast) { size_t n = R.chance(1, 6) ? (size_t)R.below(9) : 8; for (size_t i = 0; i < n; i++) pl.push_back((unsigned char)R.below(256)); }
  else {
    size_t n; unsigned c = (unsigned)R.below(20);
    if (c == 0) n = (size_t)R.below(7); else if (c == 1) n = 223; else if (c == 2) n = (size_t)R.range(216, 223); else if (c == 3) n = (size_t)R.pick(std::vector<int>{6, 7, 13, 14, 20}); else if (c < 12) n = (size_t)R.range(7, 30); else n = (size_t)R.range(0, 223);
    for (size_t i = 0; i < n; i++) pl.push_back((unsigned char)R.below(256));
  }
  unsigned announced = (unsigned)pl.size();
  if (s.fast && allowOversize && R.chance(1, 25)) { announced = (unsigned)R.range(224, 255); pl.resize(223, 0x5a); }
  std::vector<GFrame> fr = encode(prio, s.pgn, s.src, dst, pl, s.fast, s.seq, announced, R.chance(1, 8));
  if (s.fast) s.seq = (s.seq + 1) & 7;
  for (auto &f : fr) s.pend.push_back(f);
}

static unsigned long pickPgn(Rng &R, int cls, bool &fast) {
  switch (cls) {
    case 0: fast = true; return FP_PDU2[R.below(sizeof(FP_PDU2) / sizeof(FP_PDU2[0]))];
    case 1: fast = true; return FP_PDU1[R.below(sizeof(FP_PDU1) / sizeof(FP_PDU1[0]))];
    case 2: fast = false; return SF_KNOWN[R.below(sizeof(SF_KNOWN) / sizeof(SF_KNOWN[0]))];
    default: fast = false; return UNKNOWN[R.below(sizeof(UNKNOWN) / sizeof(UNKNOWN[0]))];
  }
}

static uint64_t pickOrigin(Rng &R) {
  switch (R.below(6)) {
    case 0: return 0;
    case 1: return R.chance(1, 4) ? 4294967296ULL * (uint64_t)R.range(1, 2) - 700 - (uint64_t)R.range(0, 3)    // first frames AT the wrap instant
                                  : 4294967296ULL - 700 - (uint64_t)R.range(0, 400);       // the 32-bit clock wraps during the case
    case 2: return 4294967296ULL + (uint64_t)R.range(0, 100000);
    case 3: return 2147483648ULL - 700 - (uint64_t)R.range(0, 300);
    default: return (uint64_t)R.range(0, 5000000);
  }
}

// K well-formed senders, interleaved by a seeded scheduler; bus faults: drop, cut (rest of the message lost), duplicate, reorder
static void randomCase(Rng &R, const char *fl, const char *kind, unsigned slots, unsigned K, int steps, unsigned pDrop, unsigned pCut,
                       unsigned pDup, unsigned pSwap, int pduMix /*0: PDU2 only, 1: addressed too*/, bool oversize, int md,
                       unsigned lists = 0, unsigned pTP = 0) {
  caseKind = kind;
  reset(fl, slots, md, pickOrigin(R));
  declareLists(R, lists);
  std::vector<Stream> st;
  for (unsigned i = 0; i < K; i++) {
    Stream s; s.src = (unsigned)R.pick(std::vector<int>{0, 1, 2, 3, 17, 35, 100, 200, 251, 252, 253, 254, 255}); if (R.chance(1, 2)) s.src = 10 + i;
    int cls = (int)R.below(10); cls = cls < 5 ? 0 : cls < 7 ? (pduMix ? 1 : 0) : cls < 9 ? 2 : 3;
    s.pgn = pickPgn(R, cls, s.fast); s.seq = (unsigned)R.below(8);
    if (lists && R.chance(1, 2)) { s.fast = R.chance(1, 2); s.pgn = s.fast ? USER_FP[R.below(4)] : USER_SF[R.below(4)]; } s.dstA = R.chance(1, 3) ? 255 : (unsigned)R.below(253); s.dstB = R.chance(1, 2) ? s.dstA : (unsigned)R.below(256);
    bool clash = false; for (auto &o : st) if (o.src == s.src && o.pgn == s.pgn) clash = true;   // one stream per (source, PGN)
    if (!clash) st.push_back(s);
  }
  for (int i = 0; i < steps; i++) {
    Stream &s = st[R.below(st.size())];
    if (pTP && R.below(1000) < pTP) {     // the sender announces its PGN through ISO-TP as well (data packets lost): a stale TP session
      C.count("gen_tp_open");
      feed(tpcm(R.chance(1, 2), s.src, R.chance(1, 2) ? s.dstA : s.dstB, s.pgn, R.chance(1, 8) ? (unsigned)R.range(224, 1785) : (unsigned)R.range(9, 223)));
    }
    if (s.pend.empty()) { if (R.chance(2, 3)) startMsg(R, s, oversize); else continue; }
    GFrame f = s.pend.front(); s.pend.pop_front();
    unsigned x = (unsigned)R.below(1000);
    if (x < pDrop) { C.count("fault_drop"); }
    else if (x < pDrop + pCut) { C.count("fault_cut"); s.pend.clear(); }
    else if (x < pDrop + pCut + pDup) { C.count("fault_dup"); feed(f); feed(f); }
    else if (x < pDrop + pCut + pDup + pSwap && !s.pend.empty()) { C.count("fault_swap"); GFrame g = s.pend.front(); s.pend.pop_front(); feed(g); feed(f); }
    else feed(f);
    unsigned y = (unsigned)R.below(1000);
    if (y < 300) tick((uint64_t)R.range(1, 3));
    else if (y < 330) tick((uint64_t)R.range(95, 105));
    else if (y < 335) tick((uint64_t)R.pick(std::vector<long long>{2147483546LL, 2147483647LL, 2147483648LL, 4294967196LL, 4294967296LL, 1000LL, 60000LL}));
    else if (y < 350) exec("q");
    else if (y < 400) {
      // exact clock values: when a distinguished value of the 32-bit millisecond clock (0 = the wrap instant, 2^31, and their
      // neighbours) is near, step exactly onto it and let several streams begin a message in that very millisecond
      uint64_t c32 = g_now & 0xffffffffULL, d31 = (2147483648ULL - (c32 & 0x7fffffffULL)) & 0x7fffffffULL;   // distance to next multiple of 2^31
      if (d31 <= 3000) {
        uint64_t d = d31 + (uint64_t)R.pick(std::vector<int>{0, 0, 0, 1}) ;
        if (d31 > 0 && R.chance(1, 5)) d = d31 - 1;
        if (d) tick(d);
        C.count("gen_exact_clock_value");
        unsigned n = (unsigned)R.range(1, 3);
        for (unsigned k = 0; k < n; k++) {
          Stream &z = st[R.below(st.size())];
          if (!z.pend.empty()) { C.count("fault_cut"); z.pend.clear(); }
          startMsg(R, z, false); feed(z.pend.front()); z.pend.pop_front();
        }
      }
    }
  }
  exec("q");
}

// directed: first frames arriving exactly at distinguished values of the millisecond clock (value V mod 2^32 = 0: the wrap
// instant; 2^31; and +-1), K <= slots senders interleaved, nothing lost: every message is owed
static void clockValueCase(Rng &R, const char *fl, unsigned slots, uint64_t V, unsigned lead, int variant) {
  caseKind = "clock_value";
  reset(fl, slots, 0, V - 700 - lead);
  if (lead) tick(lead);
  unsigned K = std::min(slots, 3u);
  std::vector<std::vector<GFrame>> m;
  static const unsigned long PG[] = {129029UL, 129540UL, 127489UL};
  for (unsigned i = 0; i < K; i++) {
    std::vector<unsigned char> pl((size_t)R.range(15, 43)); for (auto &c : pl) c = (unsigned char)R.below(256);
    m.push_back(encode(3, PG[(i + variant) % 3], 30 + i, 255, pl, true, (unsigned)R.below(8), (unsigned)pl.size(), false));
  }
  // first frames: the first sender at V, the others in the same millisecond or 1..2 ms later
  for (unsigned i = 0; i < K; i++) { feed(m[i][0]); if (variant & 1) tick((uint64_t)R.range(0, 2)); }
  if (variant & 2) { GFrame sf = encode(6, 127250UL, 92, 255, std::vector<unsigned char>(8, 0x22), false, 0, 8, false)[0]; feed(sf); }
  exec("q");
  size_t mx = 0; for (auto &x : m) mx = std::max(mx, x.size());
  for (size_t k = 1; k < mx; k++) for (unsigned i = 0; i < K; i++) if (k < m[i].size()) { feed(m[i][k]); if (R.chance(1, 3)) tick(1); }
  exec("q");
}

// raw garbage: arbitrary identifiers (ISO-TP PGNs excluded), lengths and bytes, mixed with a few real streams
static void garbageCase(Rng &R, const char *fl, unsigned slots, int steps, int md) {
  caseKind = "garbage";
  reset(fl, slots, md, pickOrigin(R));
  std::vector<unsigned long> ids;
  for (int i = 0; i < 6; i++) {
    bool fast; unsigned long pgn = pickPgn(R, (int)R.below(4), fast);
    ids.push_back(canId((unsigned)R.below(8), pgn, (unsigned)R.below(4), (unsigned)R.below(3)));
  }
  for (int i = 0; i < steps; i++) {
    GFrame f; f.id = R.chance(2, 3) ? ids[R.below(ids.size())] : (unsigned long)(R.next() & 0x1fffffffUL);
    unsigned pf = (f.id >> 16) & 0xff;
    if (pf == 0xEB || pf == 0xEC) f.id ^= 0x100000UL;                        // keep ISO-TP out (C10)
    f.len = R.chance(2, 3) ? 8 : (unsigned)R.below(9);
    for (int j = 0; j < 8; j++) f.b[j] = (unsigned char)R.below(256);
    if (R.chance(2, 3)) f.b[0] = (unsigned char)((R.below(2) << 5) | R.below(4));   // small sequence/counter space: chains do form
    if (R.chance(1, 2)) f.b[1] = (unsigned char)R.pick(std::vector<int>{0, 1, 5, 6, 7, 8, 13, 14, 20, 223, 224, 255});
    feed(f);
    if (R.chance(1, 10)) tick((uint64_t)R.range(1, 120));
  }
  exec("q");
}

// directed: every slot holds an unfinished message; after 99/100/101 ms another sender starts (100 ms recycling)
static void recycleCase(Rng &R, const char *fl, unsigned slots, uint64_t origin, uint64_t wait) {
  caseKind = "recycle";
  reset(fl, slots, 0, origin);
  std::vector<unsigned char> pl(20); for (auto &c : pl) c = (unsigned char)R.below(256);
  for (unsigned i = 0; i < slots; i++) { feed(encode(3, 129029UL, 20 + i, 255, pl, true, 1, 20, false)[0]); tick((uint64_t)R.below(3)); }
  exec("q");
  tick(wait);
  auto fr = encode(2, 127489UL, 90, 255, pl, true, 5, 20, false);
  for (auto &f : fr) feed(f);
  exec("q");
  for (unsigned i = 0; i < slots; i++) { auto g = encode(3, 129029UL, 20 + i, 255, pl, true, 1, 20, false); feed(g[1]); feed(g[2]); }
  exec("q");
}

// directed: every slot is held by an abandoned message (first frame only, started at distinct times just before the clock
// value `boundary`); after `wait` ms (> 100) the only active senders transmit complete messages: each must be delivered
// (the oldest stale slot gives way), whatever the clock value - 0, around 2^31, across the 2^32 wrap
static void staleBudgetCase(Rng &R, const char *fl, unsigned slots, uint64_t origin, uint64_t wait, int variant) {
  caseKind = "stale_budget";
  reset(fl, slots, 0, origin);
  std::vector<unsigned char> pl(20); for (auto &c : pl) c = (unsigned char)R.below(256);
  for (unsigned i = 0; i < slots; i++) { feed(encode(3, 129029UL, 20 + i, 255, pl, true, 1, 20, false)[0]); tick((uint64_t)R.range(1, 2)); }
  tick(wait);
  auto a = encode(2, 127489UL, 90, 255, pl, true, 5, 20, false);
  auto b = encode(2, 129540UL, 91, 255, pl, true, 6, 20, false);
  if (variant == 0) { for (auto &f : a) feed(f); for (auto &f : b) feed(f); }                 // one after the other
  else if (variant == 1) { for (size_t k = 0; k < a.size(); k++) { feed(a[k]); feed(b[k]); } }   // interleaved: two stale slots give way
  else { GFrame sf = encode(6, 127250UL, 92, 255, std::vector<unsigned char>(8, 0x11), false, 0, 8, false)[0]; feed(sf); for (auto &f : a) feed(f); feed(sf); }
  exec("q");
}

// directed: a stale TP session slot (TP.CM RTS/BAM for PGN P from source S, all data packets lost) and fast packets of the
// same P from the same S (sequence id 0 first: its continuation counter equals LastFrame+1 of the TP slot) and of others
static void tpStaleCase(Rng &R, const char *fl, unsigned slots, int variant, int md) {
  caseKind = "tp_stale";
  reset(fl, slots, md, pickOrigin(R));
  static const unsigned long PG[] = {126996UL, 126998UL, 126208UL, 129029UL, 130816UL, 126464UL};
  unsigned long P = PG[variant % 6]; bool bam = (variant / 6) % 2; unsigned S = 40 + (unsigned)R.below(3), D = bam ? 255 : 33;
  unsigned fpDst = ((P >> 8) & 0xff) < 240 ? (R.chance(1, 2) ? D : 255) : 255;
  std::vector<unsigned char> pl(20), p2(9); for (auto &c : pl) c = (unsigned char)R.below(256); for (auto &c : p2) c = (unsigned char)R.below(256);
  // optionally another sender is in the middle of a message, so the TP slot is not slot 0
  unsigned pre = (variant / 12) % 2 && slots > 2 ? 1 : 0;
  auto o = encode(4, 127489UL, 30, 255, pl, true, 2, 20, false);
  if (pre) feed(o[0]);
  feed(tpcm(bam, S, D, P, (variant / 24) % 2 ? 300 : 133));          // 300: not receivable, no slot is taken
  if (R.chance(1, 3)) { tick(3); feed(tpcm(bam, S, D, P, 133)); }   // repeated announce replaces the session
  exec("q");
  tick((uint64_t)R.range(1, 20));
  auto a = encode(6, P, S, fpDst, pl, true, 0, 20, false);           // sequence id 0
  for (auto &f : a) feed(f);
  auto b = encode(6, P, S, fpDst, p2, true, 1, 9, false);
  for (auto &f : b) feed(f);
  auto c = encode(6, P, S + 7, 255, pl, true, 0, 20, false);         // same PGN from another source, interleaved with S
  auto d = encode(6, P, S, fpDst, pl, true, 2, 20, false);
  for (size_t k = 0; k < c.size(); k++) { feed(c[k]); feed(d[k]); }
  if (pre) { feed(o[1]); feed(o[2]); }
  feed(tpcm(!bam, S, D, P, 50));                                      // a second session (other destination class) from S
  for (auto &f : encode(6, P, S, fpDst, pl, true, 0, 20, false)) feed(f);
  exec("q");
}

// directed: a sender leaves a fast packet unfinished (rest lost) and sends the next one; as many senders as slots
static void abandonCase(Rng &R, const char *fl, unsigned slots, bool readdress) {
  caseKind = readdress ? "readdress" : "abandon";
  reset(fl, slots, 0, pickOrigin(R));
  unsigned long pgnX = readdress ? 126208UL : 129029UL;
  std::vector<unsigned char> pl(16); for (auto &c : pl) c = (unsigned char)R.below(256);
  // senders 1..slots-1 start a message each (slots 0..slots-2 busy), X starts in the last slot and loses the rest
  std::vector<std::vector<GFrame>> other;
  for (unsigned i = 0; i + 1 < slots; i++) { other.push_back(encode(4, 127489UL, 30 + i, 255, pl, true, 2, 16, false)); feed(other.back()[0]); }
  auto x1 = encode(5, pgnX, 77, readdress ? 10 : 255, pl, true, (unsigned)R.below(8), 16, false);
  feed(x1[0]); if (R.chance(1, 2)) feed(x1[1]);
  // the others complete; their slots become free
  for (auto &o : other) { feed(o[1]); feed(o[2]); }
  // X sends its next message (other destination in the readdress variant), again cut, then a third one
  unsigned seq2 = (x1[0].b[0] >> 5) + 1;
  auto x2 = encode(5, pgnX, 77, readdress ? 11 : 255, pl, true, seq2, 16, false);
  if (readdress) { for (auto &f : x2) feed(f); }
  else { feed(x2[0]); }
  exec("q");
  // now every other sender starts again, then X's third message and everybody completes: one slot per sender suffices
  for (auto &o : other) { o = encode(4, 127489UL, o[0].id & 0xff, 255, pl, true, 3, 16, false); feed(o[0]); }
  auto x3 = encode(5, pgnX, 77, readdress ? 10 : 255, pl, true, seq2 + 1, 16, false);
  feed(x3[0]);
  for (auto &o : other) { feed(o[1]); feed(o[2]); }
  feed(x3[1]); feed(x3[2]);
  exec("q");
}

// directed: sequence id reuse after 8 messages with a stale addressed slot (bytes of two messages must not be combined)
static void seqWrapCase(Rng &R, const char *fl, unsigned slots) {
  caseKind = "seqwrap";
  reset(fl, slots, 0, pickOrigin(R));
  std::vector<unsigned char> pl(16), sm(4); for (auto &c : pl) c = (unsigned char)R.below(256); for (auto &c : sm) c = (unsigned char)R.below(256);
  auto m1 = encode(3, 126208UL, 50, 10, pl, true, 1, 16, false); feed(m1[0]);       // to A, rest lost
  for (unsigned s = 2; s < 9; s++) feed(encode(3, 126208UL, 50, 11, sm, true, s & 7, 4, false)[0]);   // 7 short ones to B
  std::vector<unsigned char> p9(16); for (auto &c : p9) c = (unsigned char)R.below(256);
  for (auto &f : encode(3, 126208UL, 50, 11, p9, true, 1, 16, false)) feed(f);     // sequence id 1 again, to B
  exec("q");
}

// exhaustive: all interleavings of the frame streams of `n` short messages with at most one dropped frame
static void interleavings(const char *fl, unsigned slots, const std::vector<std::vector<GFrame>> &msgs) {
  size_t n = msgs.size(); std::vector<size_t> order;
  for (size_t i = 0; i < n; i++) for (size_t j = 0; j < msgs[i].size(); j++) order.push_back(i);
  std::sort(order.begin(), order.end());
  do {
    for (int drop = -1; drop < (int)order.size(); drop++) {
      caseKind = "exhaustive";
      reset(fl, slots, 0, 1000);
      std::vector<size_t> pos(n, 0);
      for (size_t k = 0; k < order.size(); k++) { const GFrame &f = msgs[order[k]][pos[order[k]]++]; if ((int)k != drop) feed(f); }
    }
  } while (std::next_permutation(order.begin(), order.end()));
  C.count("exhaustive_spaces");
}

int main(int argc, char **argv) {
  C.init(argc, argv);
  C.rule = "case = one node (reset) with its frame history; non-trivial = a multi-frame fast packet was delivered while frames of "
           "another unfinished message were interleaved and at least one message was discarded/superseded; distinct = hash of the op sequence";
#ifdef N2K_VERIF_T32
  const char *fl = "t32";
#else
  const char *fl = "t64";
#endif
  if (!C.replay.empty()) { for (auto &l : readLines(C.replay)) exec(l); endCase(); C.finish(); return 0; }
  Rng R(C.seed * 0x2545F4914F6CDD1DULL + 0x9E3779B97F4A7C15ULL * (C.seed ^ 0xC02));
  // directed scenarios first
  for (unsigned slots = 1; slots <= 8; slots++) {
    abandonCase(R, fl, slots, false); abandonCase(R, fl, slots, true); seqWrapCase(R, fl, slots);
    for (uint64_t w : {0ULL, 94ULL, 99ULL, 100ULL, 101ULL, 200ULL})
      for (uint64_t o : {0ULL, 4294967296ULL - 700 - 50, 4294967296ULL - 700 - 103, 77777ULL}) recycleCase(R, fl, slots, o, w);
  }
  {
    const uint64_t B31 = 2147483648ULL, B32 = 4294967296ULL;
    int v = 0;
    for (unsigned slots = 1; slots <= 8; slots++)
      for (uint64_t wait : std::vector<uint64_t>{101, 150, 1000})
        for (uint64_t origin : std::vector<uint64_t>{0, B31 - 700 - 20, B31 - 700 - 5000, B31 - 700 + 50, B32 - 700 - 20, B32 - 700 - 60, B32 - 700 + 20, 2 * B32 - 700 - 18})
          staleBudgetCase(R, fl, slots, origin, wait, v++ % 3);
  }
  {
    const uint64_t B31 = 2147483648ULL, B32 = 4294967296ULL;
    int v = 0;
    for (unsigned slots = 1; slots <= 8; slots++)
      for (uint64_t V : std::vector<uint64_t>{B32, 2 * B32, B32 - 1, B32 + 1, B31, B31 - 1, 3 * B31})
        for (unsigned lead : std::vector<unsigned>{0, 1, 9})
          clockValueCase(R, fl, slots, V, lead, v++);
  }
  C.sample("directed: first frames exactly at clock value 0 (2^32 and 2*2^32 wrap instants), 2^32-1, 2^32+1, 2^31, 2^31-1, 3*2^31; up to 3 interleaved senders <= slots, node opened 700/701/709 ms earlier; slots 1..8");
  for (unsigned slots = 1; slots <= 8; slots++)
    for (int v = 0; v < 48; v += (slots <= 3 ? 1 : 5)) tpStaleCase(R, fl, slots, v + (int)slots, (v % 7) == 3 ? 1 : 0);
  C.sample("directed: stale TP session slot (TP.CM RTS/BAM announcing P from S, no data packets) then fast packets of P from S (sequence id 0 first) and from others; 126996/126998/126208/129029/130816/126464; slots 1..8; TP slot first or behind a busy slot; unreceivable announce (300 bytes)");
  for (unsigned lists = 1; lists < 16; lists++)
    for (int md = 0; md < 2; md++)
      randomCase(R, fl, "lists", (unsigned)R.range(2, 6), 4, 120, 20, 10, 0, 0, 1, false, md, lists, 0);
  C.sample("directed: every combination of Set/ExtendSingleFrameMessages and Set/ExtendFastPacketMessages (15) x handle-all/only-known, streams of application-declared, default, proprietary and unknown PGNs");
  C.sample("directed: all slots held by abandoned messages started just before clock value 0+700 / 2^31 +-k / 2^32 (and 2*2^32), next complete messages arrive 101/150/1000 ms later and must be delivered; slots 1..8");
  C.sample("directed: abandon+restart with as many senders as slots; re-addressed restart; sequence-id wrap onto a stale slot; 100 ms recycling at 0/94/99/100/101/200 ms incl. across the 2^32 wrap");
  int ncases = C.thorough ? 2500 : 260;
  for (int i = 0; i < ncases; i++) {
    unsigned slots = R.chance(1, 12) ? 0 : (unsigned)R.range(1, 8); unsigned eff = slots ? slots : 5;
    int md = R.chance(1, 6) ? 1 : 0;
    int steps = (int)R.range(40, C.thorough ? 900 : 500);
    switch (R.below(8)) {
      case 0: case 1: randomCase(R, fl, "wf_drops", slots, (unsigned)R.range(1, eff), steps, 40, 15, 0, 0, (int)R.below(2), true, md); break;          // <= slots senders
      case 2: randomCase(R, fl, "wf_pdu2", slots, (unsigned)R.range(1, eff), steps, 30, 40, 0, 0, 0, false, md); break;
      case 3: randomCase(R, fl, "faulty", slots, (unsigned)R.range(1, eff), steps, 30, 15, 30, 30, 1, true, md); break;
      case 4: randomCase(R, fl, "overload", slots, eff + (unsigned)R.range(1, 4), steps, 20, 20, 10, 10, 1, true, md, 0, R.chance(1, 2) ? 10 : 0); break;  // slot-exhaustion
      case 5: if (R.chance(1, 2)) randomCase(R, fl, "clean", slots, (unsigned)R.range(1, eff), steps, 0, 0, 0, 0, 1, false, md);
              else randomCase(R, fl, "lists_tp", slots, (unsigned)R.range(1, eff), steps, 20, 20, 5, 5, 1, true, md, (unsigned)R.below(16), 15); break;
      case 6: garbageCase(R, fl, slots, steps, md); break;
      default: randomCase(R, fl, "wf_addressed", slots, (unsigned)R.range(1, eff), steps, 20, 50, 0, 0, 1, false, md, 0, R.chance(1, 2) ? 12 : 0); break;
    }
  }
  C.sample("random: K senders x {PDU2 fast packet, addressed fast packet, single frame, unknown PGN} x lengths 0..223 (+announced 224..255), seeded interleaving, drop/cut/duplicate/reorder, clock jumps (1..3, 95..105 ms, 2^31, 2^32), slots 0(=5)..8, handle-all / only-known");
  // exhaustive small scopes
  {
    std::vector<unsigned char> a(9), b(10), c(15);
    for (size_t i = 0; i < a.size(); i++) a[i] = (unsigned char)(0x10 + i);
    for (size_t i = 0; i < b.size(); i++) b[i] = (unsigned char)(0x40 + i);
    for (size_t i = 0; i < c.size(); i++) c[i] = (unsigned char)(0x80 + i);
    auto A = encode(2, 129029UL, 1, 255, a, true, 1, 9, false);      // 2 frames
    auto B = encode(3, 129029UL, 2, 255, b, true, 1, 10, false);     // same PGN, other source, same sequence id
    auto B2 = encode(3, 127489UL, 1, 255, b, true, 4, 10, false);    // same source as A, other PGN
    auto A2 = encode(2, 129029UL, 1, 255, c, true, 2, 15, false);    // next message of A's stream (3 frames)
    for (unsigned slots = 1; slots <= 3; slots++) {
      interleavings(fl, slots, {A, B}); interleavings(fl, slots, {A, B2});
      std::vector<GFrame> AA = A; AA.insert(AA.end(), A2.begin(), A2.end());    // one stream, two messages in order
      interleavings(fl, slots, {AA, B});
      if (C.thorough) { interleavings(fl, slots, {A, B, B2}); interleavings(fl, slots, {AA, B, B2}); }
    }
    C.sample("exhaustive: all interleavings of 2-3 frame streams (2-3 frames per message, same PGN/other source, same source/other PGN, two consecutive messages of one stream) with at most one dropped frame, 1..3 slots");
  }
  endCase();
  C.finish();
  return 0;
}
