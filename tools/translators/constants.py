"""C++ -> Lean translator for the numeric constants the hand-written models copy from the source.

Regenerates lean/N2k/Gen/Constants.lean on every run. lean/N2k/Props/Consts.lean proves (by `decide`) that every
generated value equals the frozen value the models and the property statements use (lean/N2k/Spec/Constants.lean),
so a changed constant is a broken proof obligation of every property that lists Props/Consts.lean."""
import os, re

# name in Lean, file, regex with one group for the value
SITES = [
    ('addressClaimTimeoutMs', 'NMEA2000.cpp', r'#define\s+N2kAddressClaimTimeout\s+(\w+)'),
    ('openSettleMs', 'NMEA2000.cpp', r'OpenState=os_WaitOpen;\s*OpenScheduler\.FromNow\((\w+)\)'),
    ('openRetryMs', 'NMEA2000.cpp', r'// Open failed, delay next open\s*OpenScheduler\.FromNow\((\w+)\)'),
    ('tpMaxFrames', 'NMEA2000.cpp', r'#define\s+TP_MAX_FRAMES\s+(\w+)'),
    ('tpCm', 'NMEA2000.cpp', r'#define\s+TP_CM\s+(\w+)'),
    ('tpDt', 'NMEA2000.cpp', r'#define\s+TP_DT\s+(\w+)'),
    ('tpCmBam', 'NMEA2000.cpp', r'#define\s+TP_CM_BAM\s+(\w+)'),
    ('tpCmRts', 'NMEA2000.cpp', r'#define\s+TP_CM_RTS\s+(\w+)'),
    ('tpCmCts', 'NMEA2000.cpp', r'#define\s+TP_CM_CTS\s+(\w+)'),
    ('tpCmAck', 'NMEA2000.cpp', r'#define\s+TP_CM_ACK\s+(\w+)'),
    ('tpCmAbort', 'NMEA2000.cpp', r'#define\s+TP_CM_Abort\s+(\w+)'),
    ('maxPgnsInList', 'NMEA2000.cpp', r'#define\s+MAX_PGNS_IN_LIST\s+(\w+)'),
    ('maxReadFramesOnParse', 'NMEA2000.cpp', r'static const int MaxReadFramesOnParse\s*=\s*(\w+)'),
    ('heartbeatDefaultOffsetMs', 'NMEA2000.cpp', r'SetHeartbeatIntervalAndOffset\(DefaultHeartbeatInterval,\s*(\w+)\)'),
    ('heartbeatDefaultIntervalMs', 'NMEA2000.h', r'#define\s+DefaultHeartbeatInterval\s+(\w+)'),
    ('msgBufTimeMs', 'NMEA2000.h', r'#define\s+Max_N2kMsgBuf_Time\s+(\w+)'),
    ('maxCanBusAddress', 'NMEA2000.h', r'#define\s+N2kMaxCanBusAddress\s+(\w+)'),
    ('nullCanBusAddress', 'NMEA2000.h', r'#define\s+N2kNullCanBusAddress\s+(\w+)'),
    ('maxModelIdLen', 'NMEA2000.h', r'#define\s+Max_N2kModelID_len\s+(\w+)'),
    ('maxSwCodeLen', 'NMEA2000.h', r'#define\s+Max_N2kSwCode_len\s+(\w+)'),
    ('maxModelVersionLen', 'NMEA2000.h', r'#define\s+Max_N2kModelVersion_len\s+(\w+)'),
    ('maxModelSerialCodeLen', 'NMEA2000.h', r'#define\s+Max_N2kModelSerialCode_len\s+(\w+)'),
    ('maxConfigurationInfoFieldLen', 'NMEA2000.h', r'#define\s+Max_N2kConfigurationInfoField_len\s+(\w+)'),
    ('maxDataLen', 'N2kMsg.h', r'static const int MaxDataLen\s*=\s*(\w+)'),
    ('actisenseReaderBufLen', 'ActisenseReader.h', r'#define\s+MAX_STREAM_MSG_BUF_LEN\s+(\w+)'),
    ('maxBusDevices', 'N2kDeviceList.h', r'#define\s+N2kMaxBusDevices\s+(\w+)'),
    ('maxSatelliteInfoCount', 'N2kMessages.cpp', r'#define\s+MaxSatelliteInfoCount\s+(\w+)'),
    ('defaultCanSendFrames', 'NMEA2000.cpp', r'MaxCANSendFrames\s*=\s*(\w+);'),
    ('defaultCanMsgBufs', 'NMEA2000.cpp', r'if \( MaxN2kCANMsgs==0 \) MaxN2kCANMsgs=(\w+);'),
]


# constants that have a NAME in the source: read by EXECUTION (the translation unit is included textually and the value printed), so that
# the form of the definition (#define, static const, constexpr, enum) does not matter.  Lean name -> C++ expression
NAMED = [
    ('addressClaimTimeoutMs', 'N2kAddressClaimTimeout'), ('tpMaxFrames', 'TP_MAX_FRAMES'), ('tpCm', 'TP_CM'), ('tpDt', 'TP_DT'),
    ('tpCmBam', 'TP_CM_BAM'), ('tpCmRts', 'TP_CM_RTS'), ('tpCmCts', 'TP_CM_CTS'), ('tpCmAck', 'TP_CM_ACK'), ('tpCmAbort', 'TP_CM_Abort'),
    ('maxPgnsInList', 'MAX_PGNS_IN_LIST'), ('heartbeatDefaultIntervalMs', 'DefaultHeartbeatInterval'), ('msgBufTimeMs', 'Max_N2kMsgBuf_Time'),
    ('maxCanBusAddress', 'N2kMaxCanBusAddress'), ('nullCanBusAddress', 'N2kNullCanBusAddress'), ('maxModelIdLen', 'Max_N2kModelID_len'),
    ('maxSwCodeLen', 'Max_N2kSwCode_len'), ('maxModelVersionLen', 'Max_N2kModelVersion_len'),
    ('maxModelSerialCodeLen', 'Max_N2kModelSerialCode_len'), ('maxConfigurationInfoFieldLen', 'Max_N2kConfigurationInfoField_len'),
    ('maxDataLen', 'tN2kMsg::MaxDataLen'), ('actisenseReaderBufLen', 'MAX_STREAM_MSG_BUF_LEN'), ('maxBusDevices', 'N2kMaxBusDevices'),
]
DEPS = ['N2kMsg.cpp', 'N2kStream.cpp', 'N2kTimer.cpp', 'N2kGroupFunction.cpp', 'N2kGroupFunctionDefaultHandlers.cpp', 'N2kMessages.cpp']


def num(tok):
    m = re.fullmatch(r'(0[xX][0-9a-fA-F]+|\d+)[uUlL]*', tok)
    if not m:
        raise RuntimeError('not an integer literal: %r' % tok)
    return int(m.group(1), 0)


def by_execution(src):
    """-> {lean name: value} for the NAMED constants that exist; names the compiler does not know are dropped one by one"""
    import subprocess, tempfile, hashlib
    h = hashlib.sha256()
    for fn in sorted(os.listdir(src)):
        if fn.endswith(('.h', '.tpp', '.cpp')):
            h.update(fn.encode()); h.update(open(os.path.join(src, fn), 'rb').read())
    h.update(repr(NAMED).encode())
    cache_dir = os.path.join(os.path.dirname(os.path.abspath(__file__)), '..', '..', 'build', 'translate')
    os.makedirs(cache_dir, exist_ok=True)
    cache = os.path.join(cache_dir, 'constants_%s.txt' % h.hexdigest()[:24])
    if os.path.exists(cache):
        return dict((l.split('=')[0], int(l.split('=')[1])) for l in open(cache).read().split('\n') if '=' in l)
    names = list(NAMED)
    out = None
    with tempfile.TemporaryDirectory() as td:
        for _ in range(len(NAMED) + 1):
            prog = ['#include "NMEA2000.cpp"', '#include "ActisenseReader.h"', '#include "N2kDeviceList.h"', '#include <stdio.h>', 'int main() {']
            prog += ['  printf("%s=%%llu\\n", (unsigned long long)(%s));' % (ln, cx) for ln, cx in names]
            prog += ['  return 0; }']
            cpp = os.path.join(td, 'c.cpp'); exe = os.path.join(td, 'c')
            open(cpp, 'w').write('\n'.join(prog) + '\n')
            r = subprocess.run(['g++', '-std=c++11', '-O0', '-w', '-I' + src, cpp] + [os.path.join(src, d) for d in DEPS] + ['-o', exe],
                               stdout=subprocess.PIPE, stderr=subprocess.STDOUT, text=True)
            if r.returncode == 0:
                rr = subprocess.run([exe], stdout=subprocess.PIPE, text=True, timeout=60)
                out = rr.stdout
                break
            bad = set(re.findall(r"c\.cpp:(\d+):", r.stdout))
            drop = [names[int(b) - 6] for b in bad if 6 <= int(b) < 6 + len(names)]
            if not drop:
                raise RuntimeError('constant extraction program does not compile: ' + r.stdout[-500:])
            names = [n for n in names if n not in drop]
    if out is None:
        raise RuntimeError('constant extraction failed')
    tmp = cache + '.%d' % os.getpid()
    open(tmp, 'w').write(out)
    os.replace(tmp, cache)
    return dict((l.split('=')[0], int(l.split('=')[1])) for l in out.split('\n') if '=' in l)


def run(src, gendir):
    """Named constants by execution; the regex reading of SITES is the cross-check for those and the only source for literals that
    have no name in the source (those are best effort: a literal the regex no longer finds is left out of the generated file, and only
    an obligation that mentions it - none at present - would then fail to build)."""
    vals = by_execution(src)
    cache, textual, missing, disagree = {}, 0, [], []
    for name, fn, rx in SITES:
        try:
            if fn not in cache:
                cache[fn] = open(os.path.join(src, fn)).read()
            ms = re.findall(rx, cache[fn])
            v = num(ms[0]) if len(ms) == 1 else None
        except Exception:
            v = None
        if v is None:
            if name not in vals:
                missing.append(name)
            continue
        textual += 1
        if name in vals and vals[name] != v:
            disagree.append(name)
        vals.setdefault(name, v)
    if disagree:
        raise RuntimeError('textual and executed readings differ for ' + ', '.join(disagree))
    out = ['/-! GENERATED by tools/translators/constants.py from /repo/src on every run (named constants are read by executing the',
           'translation unit, unnamed literals by pattern). Do not edit. -/', 'namespace N2k.Gen.Const', '']
    for name, _, _ in SITES:
        if name in vals:
            out.append('def %s : Nat := %d' % (name, vals[name]))
    out += ['', 'end N2k.Gen.Const', '']
    os.makedirs(gendir, exist_ok=True)
    path = os.path.join(gendir, 'Constants.lean')
    new = '\n'.join(out)
    if not os.path.exists(path) or open(path).read() != new:
        open(path, 'w').write(new)
    return {'items_translated': len(vals), 'fallbacks': 0, 'obligations': 0, 'method': 'execution (named) + pattern (literals)',
            'textual_cross_check_agree': textual, 'not_found': missing}


if __name__ == '__main__':
    import sys
    print(run(sys.argv[1] if len(sys.argv) > 1 else '/repo/src', os.path.join(os.path.dirname(__file__), '..', '..', 'lean', 'N2k', 'Gen')))
