// C09 harness: NMEA group function PGN 126208 on the REAL tNMEA2000 behind the mock CAN driver.
// Requests arrive as fast-packet frames through the receive path (ParseMessages); the answers are the frames the
// driver gets, reassembled to messages for readability.
// ops (config, all answered "ok"; the node is built and settled lazily at the first action op):
//   reset <t32|t64> <mode> <now>       new node; <now> is the virtual time AFTER open + address claim settled
//   dev <i> <src> <unique> <manu> <devinst> <func> <class> <sysinst> <indgrp>
//   prod <i> <n2kver> <prodcode> <hexModelID> <hexSwCode> <hexModelVersion> <hexSerialCode> <cert> <len>
//   conf|confp <hexManInfo> <hexInstDesc1> <hexInstDesc2> (confp: given as PROGMEM strings) | txlist <i> <pgn>.. | rxlist <i> <pgn>.. | addhandler <pgn>
// ops (action):
//   gf <src> <dst> <prio> <len> <hexdata>   a reassembled 126208 message (hexdata = all bytes the frames carry)
//   gftp <src> <dst> <len> <hexdata>   the same carried by ISO-TP RTS/CTS (last op of its case; output "tp", judged by the oracle only)
//   t <ms> | poll | getDevInfo <d> | getInstDesc | getHeartbeat <d> | readResetFlags
// The oracle states no latency and no order among answers: a request that produced nothing yet stays pending and is judged
// when its answer arrives at a later poll; it is unanswered only after 1 s of polling (the generator polls until then).
// output of gf/poll: messages "pgn:src:dst:prio:hexpayload" (heartbeat payload without its interval bytes, periodic
// heartbeats are dropped: C12), "-" when none.
#include "node.h"
#include <memory>
#include <list>
#include <algorithm>
using namespace vh;
static Ctx C;

struct Node : public MockN2k {
  unsigned char src(int i) { return Devices[i].N2kSource; }
};

struct DevCfg {
  unsigned src = 0; uint32_t unique = 0; unsigned manu = 0, devinst = 0, func = 0, cls = 0, sys = 0, ind = 0;
  bool hasProd = false; unsigned ver = 0, code = 0, cert = 0, len = 0; std::string mid, sw, mv, sc;
  std::vector<unsigned long> tx, rx; bool hasTx = false, hasRx = false;
};
struct Cfg {
  std::string fl; int mode = 1; uint64_t now = 0; std::vector<DevCfg> devs; std::string man, d1, d2;
  std::vector<unsigned long> handlers; bool built = false; bool progmem = false;
};
static Cfg cfg;
static Node *N = nullptr;
static std::list<std::vector<unsigned long>> keep;
static std::list<std::unique_ptr<tN2kGroupFunctionHandler>> keepH;

// ------------------------------------------------------------------------------------------ oracle shadow state
// What the property lets an observer expect, tracked from the requests themselves (never from the model).
struct Shadow {
  bool devValid = true, hbValid = true;      // false after a request the oracle does not judge: resynchronise from the node
  unsigned devinst = 0, sys = 0; uint32_t hbPeriod = 60000, hbOffset = 10000;
  bool mayClaim = false;                     // a 60928 request/command may have armed the delayed address claim
};
static std::vector<Shadow> sh;
static bool confValid = true; static std::string shD1, shD2;
static int expDev = 0, expInst = 0;          // expectation for the changed flags: 0 false, 1 true, -1 not judged
static bool nodeMode() { return cfg.mode == 1 || cfg.mode == 2; }

struct OutMsg { unsigned long pgn; unsigned src, dst, prio; std::vector<unsigned char> pl; };
static bool isFp(unsigned long pgn) { return pgn == 126208UL || pgn == 126464UL || pgn == 126996UL || pgn == 126998UL; }

static void decodeId(unsigned long id, unsigned long &pgn, unsigned &src, unsigned &dst, unsigned &prio) {
  unsigned pf = (id >> 16) & 0xff, ps = (id >> 8) & 0xff, dp = (id >> 24) & 1;
  src = id & 0xff; prio = (id >> 26) & 7;
  if (pf < 240) { pgn = ((unsigned long)dp << 16) | ((unsigned long)pf << 8); dst = ps; }
  else { pgn = ((unsigned long)dp << 16) | ((unsigned long)pf << 8) | ps; dst = 0xff; }
}

// frames -> messages; periodic heartbeats (sequence counter != 0xff) are dropped
static std::vector<OutMsg> reassemble(const std::vector<Frame> &fr) {
  std::vector<OutMsg> r;
  for (size_t i = 0; i < fr.size();) {
    OutMsg m; decodeId(fr[i].id, m.pgn, m.src, m.dst, m.prio);
    if (isFp(m.pgn)) {
      size_t total = fr[i].buf[1]; size_t nmore = total > 6 ? (total - 6 + 6) / 7 : 0;
      for (int j = 2; j < 8; j++) m.pl.push_back(fr[i].buf[j]);
      size_t k = 0;
      for (; k < nmore && i + 1 + k < fr.size(); k++) if (fr[i + 1 + k].id == fr[i].id) for (int j = 1; j < 8; j++) m.pl.push_back(fr[i + 1 + k].buf[j]);
      if (m.pl.size() > total) m.pl.resize(total);
      i += 1 + nmore;
    } else { m.pl.assign(fr[i].buf, fr[i].buf + (fr[i].len > 8 ? 8 : fr[i].len)); i++; }
    if (m.pgn == 126993UL && m.pl.size() >= 3 && m.pl[2] != 0xff) { C.count("periodic_heartbeat_dropped"); continue; }
    r.push_back(m);
  }
  return r;
}
static std::string msgsStr(const std::vector<OutMsg> &ms) {
  std::string s;
  for (auto &m : ms) {
    if (!s.empty()) s += ' ';
    char b[64]; snprintf(b, sizeof b, "%lu:%u:%u:%u:", m.pgn, m.src, m.dst, m.prio); s += b;
    if (m.pgn == 126993UL) s += m.pl.size() > 2 ? hex(m.pl.data() + 2, m.pl.size() - 2) : "-";
    else s += hex(m.pl.data(), m.pl.size());
  }
  return s.empty() ? "-" : s;
}

static int devOfAddr(unsigned a) { for (size_t i = 0; i < cfg.devs.size(); i++) if (cfg.devs[i].src == a) return (int)i; return -1; }
static std::string cs(const std::string &s, size_t maxc) { std::string r; for (char c : s) { if (!c || r.size() >= maxc) break; r += c; } return r; }
static std::string bytesStr(const std::vector<unsigned char> &v) { return std::string(v.begin(), v.end()); }

static void resetOracle(size_t n);
static void build() {
  if (cfg.built) return;
  cfg.built = true;
  g_now = cfg.now >= 700 ? cfg.now - 700 : 0;
  delete N; keepH.clear(); N = new Node(); keep.clear();
  int n = (int)cfg.devs.size(); if (n < 1) { C.fail("harness:no-device", "no dev op before the first action"); exit(3); }
  N->SetDeviceCount(n);
  if (!cfg.devs[0].hasProd) {   // the library's documented default product information (DefProductInformation)
    DevCfg &z = cfg.devs[0]; z.ver = 2101; z.code = 666; z.mid = "Arduino N2k->PC"; z.sw = "1.0.0.0"; z.mv = "1.0.0"; z.sc = "00000001"; z.cert = 0; z.len = 1; }
  for (int i = 0; i < n; i++) {
    DevCfg &d = cfg.devs[i];
    N->SetDeviceInformation(d.unique, d.func, d.cls, d.manu, d.ind, i);
    N->SetDeviceInformationInstances(d.devinst & 7, (d.devinst >> 3) & 0x1f, d.sys, i);
    if (d.hasProd) N->SetProductInformation(d.sc.c_str(), d.code, d.mid.c_str(), d.sw.c_str(), d.mv.c_str(), d.len, d.ver, d.cert, i);
    if (d.hasTx) { keep.push_back(d.tx); keep.back().push_back(0); N->ExtendTransmitMessages(keep.back().data(), i); }
    if (d.hasRx) { keep.push_back(d.rx); keep.back().push_back(0); N->ExtendReceiveMessages(keep.back().data(), i); }
  }
  // confp: the application gave the strings with SetProgmemConfigurationInformation (copied to RAM by the first command that writes one)
  static std::string km, k1, k2; km = cfg.man; k1 = cfg.d1; k2 = cfg.d2;
  if (cfg.progmem) N->SetProgmemConfigurationInformation(km.c_str(), k1.c_str(), k2.c_str());
  else N->SetConfigurationInformation(km.c_str(), k1.c_str(), k2.c_str());
  N->SetMode((tNMEA2000::tN2kMode)cfg.mode, cfg.devs[0].src);
  for (int i = 0; i < n; i++) N->SetN2kSource(cfg.devs[i].src, i);
  N->EnableForward(false);
  openAndSettle(*N, (int)(cfg.now - g_now));
  for (unsigned long p : cfg.handlers) { keepH.emplace_back(new tN2kGroupFunctionHandler(N, p)); N->AddGroupFunctionHandler(keepH.back().get()); }
  N->ReadResetDeviceInformationChanged(); N->ReadResetInstallationDescriptionChanged(); N->ReadResetAddressChanged();
  N->sent.clear();
  if (g_now != cfg.now) C.fail("harness:clock", "settled at %llu, op line says %llu", (unsigned long long)g_now, (unsigned long long)cfg.now);
  for (int i = 0; i < n; i++) if (N->src(i) != cfg.devs[i].src) C.fail("harness:address", "device %d has address %u, configured %u", i, N->src(i), cfg.devs[i].src);
  if (!N->isOpen()) C.fail("harness:not-open", "node did not open");
  sh.assign(n, Shadow()); resetOracle((size_t)n);
  for (int i = 0; i < n; i++) { sh[i].devinst = cfg.devs[i].devinst; sh[i].sys = cfg.devs[i].sys; }
  confValid = true; shD1 = cs(cfg.d1, 70); shD2 = cs(cfg.d2, 70); expDev = 0; expInst = 0;
}

// ------------------------------------------------------------------------------------------ oracle: request reader
// An independent reading of the request following the published layout of PGN 126208. `judged` is set only for
// requests in the strict grammar (complete, every field known, nothing left over); only for those does the oracle
// predict match / mismatch. Everything else is held to the structural rules (answer kind and count) only.
static bool isProprietaryPgn(unsigned long p) { return p == 61184UL || (p >= 65280UL && p <= 65535UL) || p == 126720UL || (p >= 130816UL && p <= 131071UL); }
static std::string ucs2ToUtf8(const unsigned char *p, size_t n) {
  std::string r;
  for (size_t i = 0; i + 1 < n; i += 2) {
    unsigned c = p[i] | (p[i + 1] << 8);
    if (c < 0x80) r += (char)c; else if (c < 0x800) { r += (char)(0xC0 | (c >> 6)); r += (char)(0x80 | (c & 0x3F)); }
    else { r += (char)(0xE0 | (c >> 12)); r += (char)(0x80 | ((c >> 6) & 0x3F)); r += (char)(0x80 | (c & 0x3F)); }
  }
  return r;
}
// canonical variable-length string at p[i..): returns false when not canonical/complete
static bool readVarStr(const std::vector<unsigned char> &p, size_t &i, std::string &out) {
  if (i + 2 > p.size()) return false;
  unsigned l = p[i], t = p[i + 1];
  if (l < 2 || l == 0xff || t > 1 || i + l > p.size()) return false;
  if (l == 2) { out.clear(); i += 2; return true; }
  if (t == 1) { out.assign(p.begin() + i + 2, p.begin() + i + l); for (unsigned char c : out) if (c < 0x20 || c > 0x7e) return false; if (out.size() > 70) return false; }
  else { if ((l - 2) % 2) return false; for (size_t k = i + 2; k + 1 < i + l; k += 2) { unsigned c = p[k] | (p[k + 1] << 8); if (c < 0x20 || (c >= 0xD800 && c <= 0xDFFF)) return false; } out = ucs2ToUtf8(&p[i + 2], l - 2); if (out.size() > 70) return false; }
  i += l; return true;
}
// canonical fixed 32 byte string: printable characters then only 0xff (or only 0x00) padding
static bool readFixStr(const std::vector<unsigned char> &p, size_t &i, std::string &out) {
  if (i + 32 > p.size()) return false;
  size_t k = 0; out.clear();
  while (k < 32 && p[i + k] >= 0x20 && p[i + k] <= 0x7e) out += (char)p[i + k++];
  if (k < 32) { unsigned char pad = p[i + k]; if (pad != 0xff && pad != 0x00) return false; for (size_t j = k; j < 32; j++) if (p[i + j] != pad) return false; }
  i += 32; return true;
}

struct Req {
  unsigned fc = 255; unsigned long pgn = 0; bool havePgn = false; bool havePairs = false; unsigned pairs = 0;
  bool judged = false;            // strict grammar satisfied
  bool skipped = false;           // contains a field the oracle deliberately does not judge (60928 fields 6, 10)
  std::vector<unsigned> fields;   // field ids (judged requests)
  std::vector<bool> match;        // per device: all selection fields equal the device's values (judged requests, fc 0)
  uint32_t interval = 0xffffffff; unsigned offset = 0xffff; bool haveTiming = false;
  // commands
  int cLower = -1, cUpper = -1, cSys = -1; bool w1 = false, w2 = false; std::string s1, s2;
};

static Req readReq(const std::vector<unsigned char> &p) {
  Req q; size_t L = p.size();
  if (L >= 1) q.fc = p[0];
  if (L >= 4) { q.pgn = p[1] | (p[2] << 8) | ((unsigned long)p[3] << 16); q.havePgn = true; }
  size_t n = cfg.devs.size(); q.match.assign(n, true);
  if (q.fc == 0) {
    if (L >= 11) { q.interval = p[4] | (p[5] << 8) | (p[6] << 16) | ((uint32_t)p[7] << 24); q.offset = p[8] | (p[9] << 8); q.haveTiming = true; q.pairs = p[10]; q.havePairs = true; }
    if (!q.havePairs) return q;
    size_t i = 11; bool ok = true;
    for (unsigned k = 0; k < q.pairs && ok; k++) {
      if (i >= L) { ok = false; break; }
      unsigned f = p[i++]; q.fields.push_back(f);
      auto num = [&](unsigned bytes, uint32_t mask, std::function<uint32_t(const DevCfg &, const Shadow &)> cur) {
        if (i + bytes > L) { ok = false; return; }
        uint32_t v = 0; for (unsigned b = 0; b < bytes; b++) v |= (uint32_t)p[i + b] << (8 * b);
        i += bytes;
        for (size_t d = 0; d < n; d++) if ((v & mask) != cur(cfg.devs[d], sh[d])) q.match[d] = false;
      };
      auto fstr = [&](std::function<std::string(const DevCfg &)> cur) {
        std::string s; if (!readFixStr(p, i, s)) { ok = false; return; }
        for (size_t d = 0; d < n; d++) { const DevCfg &pd = cfg.devs[d].hasProd ? cfg.devs[d] : cfg.devs[0]; if (s != cs(cur(pd), 32)) q.match[d] = false; }
      };
      if (q.pgn == 60928UL) {
        switch (f) {
          case 1: num(3, 0x1fffff, [](const DevCfg &d, const Shadow &) { return d.unique; }); break;
          case 2: num(2, 0x7ff, [](const DevCfg &d, const Shadow &) { return (uint32_t)d.manu; }); break;
          case 3: num(1, 0x07, [](const DevCfg &, const Shadow &s) { return (uint32_t)(s.devinst & 7); }); break;
          case 4: num(1, 0x1f, [](const DevCfg &, const Shadow &s) { return (uint32_t)(s.devinst >> 3); }); break;
          case 5: num(1, 0xff, [](const DevCfg &d, const Shadow &) { return (uint32_t)d.func; }); break;
          case 7: num(1, 0x7f, [](const DevCfg &d, const Shadow &) { return (uint32_t)d.cls; }); break;
          case 8: num(1, 0x0f, [](const DevCfg &, const Shadow &s) { return (uint32_t)s.sys; }); break;
          case 9: num(1, 0x07, [](const DevCfg &d, const Shadow &) { return (uint32_t)d.ind; }); break;
          case 6: case 10: q.skipped = true; if (i + 1 > L) ok = false; else i++; break;   // reserved / self-configurable: not judged
          default: ok = false;
        }
      } else if (q.pgn == 126464UL) {
        if (f == 1) { if (i + 1 > L) ok = false; else { unsigned v = p[i++]; if (v > 1) ok = false; } } else ok = false;
      } else if (q.pgn == 126996UL) {
        auto pr = [&](const DevCfg &d) -> const DevCfg & { return d.hasProd ? d : cfg.devs[0]; };
        switch (f) {
          case 1: num(2, 0xffff, [&](const DevCfg &d, const Shadow &) { return (uint32_t)pr(d).ver; }); break;
          case 2: num(2, 0xffff, [&](const DevCfg &d, const Shadow &) { return (uint32_t)pr(d).code; }); break;
          case 3: fstr([](const DevCfg &d) { return d.mid; }); break;
          case 4: fstr([](const DevCfg &d) { return d.sw; }); break;
          case 5: fstr([](const DevCfg &d) { return d.mv; }); break;
          case 6: fstr([](const DevCfg &d) { return d.sc; }); break;
          case 7: num(1, 0xff, [&](const DevCfg &d, const Shadow &) { return (uint32_t)pr(d).cert; }); break;
          case 8: num(1, 0xff, [&](const DevCfg &d, const Shadow &) { return (uint32_t)pr(d).len; }); break;
          default: ok = false;
        }
      } else if (q.pgn == 126998UL) {
        std::string s;
        if (f < 1 || f > 3 || !readVarStr(p, i, s)) ok = false;
        else { if (!confValid && f != 3) ok = false; const std::string cur = f == 1 ? shD1 : f == 2 ? shD2 : cs(cfg.man, 70); for (size_t d = 0; d < n; d++) if (s != cur) q.match[d] = false; }
      } else if (q.pgn == 126993UL) { ok = false; }
      else ok = false;
    }
    q.judged = ok && i == L && (q.pgn == 60928UL || q.pgn == 126464UL || q.pgn == 126996UL || q.pgn == 126998UL || (q.pgn == 126993UL && q.pairs == 0));
    return q;
  }
  if (q.fc == 1) {
    if (L >= 6) { q.pairs = p[5]; q.havePairs = true; }
    if (!q.havePairs) return q;
    size_t i = 6; bool ok = true;
    for (unsigned k = 0; k < q.pairs && ok; k++) {
      if (i >= L) { ok = false; break; }
      unsigned f = p[i++]; q.fields.push_back(f);
      if (q.pgn == 60928UL) {
        if ((f == 3 || f == 4 || f == 8) && i < L) { unsigned v = p[i++]; if (f == 3) q.cLower = v & 7; else if (f == 4) q.cUpper = v & 0x1f; else q.cSys = v & 0x0f; }
        else ok = false;
      } else if (q.pgn == 126998UL) {
        std::string s;
        if ((f == 1 || f == 2) && readVarStr(p, i, s)) { if (f == 1) { q.w1 = true; q.s1 = s; } else { q.w2 = true; q.s2 = s; } }
        else ok = false;
      } else ok = false;
    }
    q.judged = ok && i == L && (q.pgn == 60928UL || q.pgn == 126998UL);
    return q;
  }
  if (q.fc == 3 || q.fc == 5) {
    size_t pos = (q.havePgn && isProprietaryPgn(q.pgn)) ? 8 : 6;
    if (L > pos) { q.pairs = p[pos]; q.havePairs = true; }
  }
  return q;
}

// ------------------------------------------------------------------------------------------ oracle: answers
static void checkAck(const OutMsg &a, const Req &q, unsigned reqSrc, unsigned devAddr) {
  if (a.pl.size() < 6) { C.fail("C09:ack-length", "Acknowledge of %zu bytes", a.pl.size()); return; }
  if (a.pl[0] != 2) C.fail("C09:ack-function-code", "function code %u", a.pl[0]);
  if (a.dst != reqSrc || a.src != devAddr) C.fail("C09:ack-dest", "Acknowledge %u->%u, request %u->%u", a.src, a.dst, reqSrc, devAddr);
  if (q.havePgn) { unsigned long e = a.pl[1] | (a.pl[2] << 8) | ((unsigned long)a.pl[3] << 16); if (e != q.pgn) C.fail("C09:ack-pgn-echo", "Acknowledge echoes PGN %lu, request names %lu", e, q.pgn); }
  if (q.havePairs && a.pl[5] != q.pairs) C.fail("C09:ack-pairs-echo:fc" + std::to_string(q.fc), "Acknowledge says %u parameter pairs, request %u", a.pl[5], q.pairs);
  size_t want = 6 + (a.pl[5] + 1) / 2;
  if (a.pl.size() != want) C.fail("C09:ack-length", "%u pairs need %zu bytes, Acknowledge has %zu", a.pl[5], want, a.pl.size());
  if (a.pl.size() > 223) C.fail("C09:ack-overflow", "%zu bytes", a.pl.size());
}

static std::string fieldKey(const Req &q) {
  std::string k = "C09:" + std::to_string(q.pgn) + "-field-attr:";
  if (q.fields.empty()) return k + "none";
  bool same = true; for (unsigned f : q.fields) if (f != q.fields[0]) same = false;
  return same ? k + "f" + std::to_string(q.fields[0]) : k + "multi";
}

// configuration information answer must carry the shadow descriptions
static void checkConfMsg(const OutMsg &m) {
  if (!confValid) return;
  size_t i = 0; std::string a, b, c;
  auto rd = [&](std::string &o) { if (i + 2 > m.pl.size()) return false; unsigned l = m.pl[i], t = m.pl[i + 1]; if (l < 2 || i + l > m.pl.size()) return false; o = t == 1 ? std::string(m.pl.begin() + i + 2, m.pl.begin() + i + l) : ucs2ToUtf8(&m.pl[i + 2], l - 2); i += l; return true; };
  if (!rd(a) || !rd(b) || !rd(c)) { C.fail("C09:126998-readback", "configuration information not decodable"); return; }
  if (a != shD1 || b != shD2) C.fail("C09:126998-readback", "configuration information carries '%s' / '%s', commanded '%s' / '%s'", a.c_str(), b.c_str(), shD1.c_str(), shD2.c_str());
  else C.count("conf_readback_checked");
}
// A request is answered "towards the requester"; the property states no latency and no order among several answer
// messages. An addressed request that produced nothing yet therefore stays PENDING: whatever the device emits later
// (Acknowledge, or the requested PGN) is its answer and is judged then; only if nothing arrives within ANSWER_BOUND_MS of
// polling is it unanswered. (The library itself delays the address claim that answers a 60928 request.)
static const int64_t ANSWER_BOUND_MS = 1000;
// Several requests may be pending on one device at a time as long as they name different PGNs: an Acknowledge echoes the PGN
// and a positive answer carries it, so each answer finds its request. Only a second request for the SAME PGN makes the older
// one unjudgeable (it is dropped, its late answer tolerated).
struct Pending { Req q; unsigned reqSrc = 0; bool bc = false, demanded = false; int64_t since = 0; long line = 0; };
typedef std::map<unsigned long, Pending> PendMap;    // key: PGN the request names (0xFFFFFF when the message is too short to name one)
static std::vector<PendMap> pend;
static unsigned long keyOf(const Req &q) { return q.havePgn ? q.pgn : 0xFFFFFFUL; }
typedef std::map<unsigned long, int64_t> Served;   // PGN -> start of the window in which (more of) it may arrive
static std::vector<Served> lastServed;      // further messages of a served PGN may trail (e.g. the second PGN list)
static void resetOracle(size_t n) { pend.assign(n, PendMap()); lastServed.assign(n, Served()); }

static void checkClaimName(const OutMsg &m) {
  int d = devOfAddr(m.src);
  if (d < 0 || m.pl.size() != 8) { C.fail("C09:claim-shape", "address claim from %u with %zu bytes", m.src, m.pl.size()); return; }
  if (sh[d].devValid && (m.pl[4] != sh[d].devinst || (m.pl[7] & 0x0f) != sh[d].sys)) C.fail("C09:60928-claim-name", "claim carries instance %u / system %u, expected %u / %u", m.pl[4], m.pl[7] & 0x0f, sh[d].devinst, sh[d].sys);
}
// an address claim nobody asked for by a request: allowed once after a 60928 command (a NAME change is re-announced)
static void checkClaim(const OutMsg &m) {
  int d = devOfAddr(m.src);
  checkClaimName(m);
  if (d < 0) return;
  if (!sh[d].mayClaim) C.fail("C09:unexpected-claim", "device %d claims without a 60928 request or command", d);
  sh[d].mayClaim = false; C.count("claim_seen");
}

static std::string caseDesc; static bool caseServed = false, caseAck = false;
static bool isDedicated(const Req &q) { return q.havePgn && (q.pgn == 60928UL || q.pgn == 126464UL || q.pgn == 126993UL || q.pgn == 126996UL || q.pgn == 126998UL); }

// the answer of device d to request q has arrived (acks and/or messages with the requested PGN): judge it
static void judge(size_t d, const Req &q, unsigned reqSrc, bool bc, const std::vector<const OutMsg *> &acks, const std::vector<const OutMsg *> &pos) {
  unsigned A = cfg.devs[d].src; bool dedicated = isDedicated(q);
  for (auto a : acks) checkAck(*a, q, reqSrc, A);
  for (auto m : pos) { if (m->pgn == 126998UL) checkConfMsg(*m); if (m->pgn == 60928UL) { checkClaimName(*m); C.count("claim_seen"); } }
  std::string cls = std::to_string(q.fc) + ":" + std::to_string(q.pgn);
  if (!pos.empty()) lastServed[d][q.pgn] = (int64_t)g_now;
  if (bc) {   // broadcast request
    if (!acks.empty()) C.fail("C09:broadcast-acknowledged", "device %zu acknowledges a broadcast request for PGN %lu", d, q.pgn);
    if (!pos.empty() && !dedicated) C.fail("C09:broadcast-unrelated", "PGN %lu", q.pgn);
    bool served = !pos.empty();
    bool j = q.judged && !q.skipped && q.pgn != 126993UL && q.interval == 0xffffffffU && q.offset == 0xffff;
    if (j && served != (bool)q.match[d]) C.fail(fieldKey(q), "broadcast request, device %zu: fields %s but %s", d, q.match[d] ? "match" : "do not match", served ? "served" : "not served");
    if (q.pgn == 126993UL) sh[d].hbValid = false, expDev = -1;
    return;
  }
  if (acks.size() > 1) C.fail("C09:multiple-acknowledge:fc" + std::to_string(q.fc), "%zu Acknowledges", acks.size());
  if (q.fc == 1 || q.fc == 3 || q.fc == 5) {
    if (acks.size() != 1) C.fail("C09:unanswered:fc" + std::to_string(q.fc) + (dedicated ? ":" + std::to_string(q.pgn) : ""), "addressed command/read/write for PGN %lu got %zu Acknowledges", q.pgn, acks.size());
    else caseAck = true;
    C.nontrivial("cmd:" + cls + ":" + std::to_string(q.pairs));
    if (q.fc == 1 && q.judged && q.pgn == 60928UL) {
      unsigned di = sh[d].devinst, si = sh[d].sys;
      if (q.cLower >= 0) di = (di & 0xF8) | (unsigned)q.cLower;
      if (q.cUpper >= 0) di = (di & 0x07) | ((unsigned)q.cUpper << 3);
      if (q.cSys >= 0) si = (unsigned)q.cSys;
      if (sh[d].devValid && (di != sh[d].devinst || si != sh[d].sys) && expDev != -1) expDev = 1;
      if (!sh[d].devValid) expDev = -1;
      sh[d].devinst = di; sh[d].sys = si; sh[d].mayClaim = true;      // a NAME change is followed by a new address claim
      C.count("cmd60928_judged");
    } else if (q.fc == 1 && q.judged && q.pgn == 126998UL) {
      if (confValid) { if ((q.w1 && q.s1 != shD1) || (q.w2 && q.s2 != shD2)) { if (expInst != -1) expInst = 1; } else if (q.w1 || q.w2) expInst = -1; }
      else expInst = -1;
      if (q.w1) shD1 = q.s1; if (q.w2) shD2 = q.s2;
      C.count("cmd126998_judged");
    } else if (q.fc == 1 && (q.pgn == 60928UL || q.pgn == 126998UL)) {
      // malformed command for a PGN with a command handler: effects not predicted
      if (q.pgn == 60928UL) { sh[d].devValid = false; sh[d].mayClaim = true; expDev = -1; } else { confValid = false; expInst = -1; }
    }
    // every other command / read / write is not supported: the shadow stays, so a state change shows at the read-back
    return;
  }
  // fc 0 addressed
  bool served = acks.empty() && !pos.empty();
  if (!acks.empty() && !pos.empty()) C.fail("C09:ack-and-answer", "request for PGN %lu answered by %zu messages AND an Acknowledge", q.pgn, pos.size());
  if (!pos.empty() && !dedicated) C.fail("C09:unrelated-answer:fc0", "PGN %lu", q.pgn);
  if (served) caseServed = true; else caseAck = true;
  C.nontrivial("req:" + cls + ":" + (served ? "s" : "a") + ":" + (q.fields.empty() ? "-" : std::to_string(q.fields[0])) + ":" + std::to_string(q.fields.size()));
  if (q.pgn == 126993UL) {
    bool noChange = q.interval == 0xffffffffU && q.offset == 0xffff;
    if (q.judged && q.haveTiming && !noChange && q.interval != 0xffffffffU && q.interval != 0xfffffffeU) {
      bool within = q.interval >= 1000 && q.interval <= 60000 && (q.offset == 0xffff || q.offset <= 6000);
      if (within != served) C.fail(std::string("C09:126993-limits:") + (within ? "refused-inside" : "accepted-outside"), "interval %u offset %u: %s", q.interval, q.offset, served ? "heartbeat sent" : "Acknowledge");
      if (within) {
        uint32_t np = q.interval, no = sh[d].hbOffset; bool offKnown = true;
        if (q.offset != 0xffff && q.offset != 0) no = q.offset * 10U; else if (q.offset == 0) offKnown = false;   // offset 0: not judged
        if (sh[d].hbValid && (np != sh[d].hbPeriod || (offKnown && no != sh[d].hbOffset)) && expDev != -1) expDev = 1;
        sh[d].hbPeriod = np; if (offKnown) sh[d].hbOffset = no; else { sh[d].hbValid = false; expDev = -1; }
      }
      C.count(within ? "hb_within" : "hb_outside");
    } else { sh[d].hbValid = false; expDev = -1; }
    return;
  }
  if (dedicated && q.judged && !q.skipped && q.interval == 0xffffffffU && q.offset == 0xffff) {
    if (served != (bool)q.match[d]) C.fail(fieldKey(q), "device %zu: selection fields %s the device's values but the request was %s", d, q.match[d] ? "match" : "do not match", served ? "served" : "answered by an Acknowledge");
    C.count(q.match[d] ? "judged_match" : "judged_mismatch");
  } else C.count("unjudged_request");
}

// nothing came out yet for q on device d: keep it pending (what its effects will be is unknown until the answer shows)
static void defer(size_t d, const Req &q, unsigned reqSrc, bool bc, bool demanded) {
  Pending &p = pend[d][keyOf(q)];
  p.q = q; p.reqSrc = reqSrc; p.bc = bc; p.demanded = demanded; p.since = (int64_t)g_now; p.line = C.opline;
  C.count(demanded ? "answer_pending" : "broadcast_watch");
  if (q.fc == 1 && q.pgn == 60928UL) { sh[d].devValid = false; sh[d].mayClaim = true; expDev = -1; }
  if (q.fc == 1 && q.pgn == 126998UL) { confValid = false; expInst = -1; }
  if (q.fc == 0 && q.pgn == 126993UL) { sh[d].hbValid = false; expDev = -1; }
}

// messages that answer a pending request are taken out of `out` and judged; returns what is left
static std::vector<OutMsg> routeLate(const std::vector<OutMsg> &out) {
  std::vector<OutMsg> rest; size_t n = cfg.devs.size();
  std::vector<std::map<unsigned long, std::pair<std::vector<const OutMsg *>, std::vector<const OutMsg *>>>> got(n);
  for (auto &m : out) {
    int d = devOfAddr(m.src);
    if (d >= 0 && !pend[d].empty()) {
      if (m.pgn == 126208UL && m.pl.size() >= 4) {
        unsigned long e = m.pl[1] | (m.pl[2] << 8) | ((unsigned long)m.pl[3] << 16);
        if (pend[d].count(e)) { got[d][e].first.push_back(&m); continue; }
      } else if (pend[d].count(m.pgn) && pend[d][m.pgn].q.fc == 0) { got[d][m.pgn].second.push_back(&m); continue; }
    }
    rest.push_back(m);
  }
  for (size_t d = 0; d < n; d++) for (auto &kv : got[d]) {
    Pending p = pend[d][kv.first]; pend[d].erase(kv.first);
    C.count("late_answer");
    judge(d, p.q, p.reqSrc, p.bc, kv.second.first, kv.second.second);
  }
  return rest;
}
// what no request explains: an address claim is allowed after a 60928 command, a trailing message of a PGN just served too
static void unsolicited(const std::vector<OutMsg> &rest, const char *where) {
  for (auto &m : rest) {
    int d = devOfAddr(m.src);
    if (d >= 0 && lastServed[d].count(m.pgn) && (int64_t)g_now - lastServed[d][m.pgn] <= ANSWER_BOUND_MS) {
      if (m.pgn == 126998UL) checkConfMsg(m); if (m.pgn == 60928UL) checkClaimName(m); C.count("trailing_answer"); continue; }
    if (m.pgn == 60928UL) { checkClaim(m); continue; }
    C.fail(std::string("C09:unsolicited:") + where, "PGN %lu from %u without a request", m.pgn, m.src);
  }
}
static void checkDeadline() {
  for (size_t d = 0; d < pend.size(); d++) for (auto it = pend[d].begin(); it != pend[d].end();) {
    const Pending &p = it->second; const Req &q = p.q;
    if ((int64_t)g_now - p.since < ANSWER_BOUND_MS) { ++it; continue; }
    if (p.demanded) C.fail("C09:unanswered:fc" + std::to_string(q.fc) + (isDedicated(q) ? ":" + std::to_string(q.pgn) : std::string()), "request of op %ld for PGN %lu: no answer within %lld ms of polling", p.line, q.pgn, (long long)((int64_t)g_now - p.since));
    it = pend[d].erase(it);
  }
}

static void oracleGf(unsigned reqSrc, unsigned dst, const std::vector<unsigned char> &p, const std::vector<OutMsg> &out0) {
  Req q = readReq(p);
  size_t n = cfg.devs.size();
  int target = devOfAddr(dst);
  bool bc = dst == 255;
  C.count("fc_" + std::to_string(q.fc > 7 ? 7 : q.fc));
  if (!nodeMode()) { if (!out0.empty()) C.fail("C09:answer-in-listen-mode", "%zu messages", out0.size()); return; }
  bool asks = (q.fc == 0 || q.fc == 1 || q.fc == 3 || q.fc == 5) && (bc ? q.fc == 0 : target >= 0);
  // a device that is asked now about the SAME PGN gives up the older pending request (its answer could not be told apart;
  // if that one was a request for a served PGN, a message with it is tolerated for the rest of its window)
  if (asks) for (size_t d = 0; d < n; d++) if ((bc || (int)d == target) && pend[d].count(keyOf(q))) {
    const Pending &o = pend[d][keyOf(q)]; C.count("pending_overlapped");
    if (o.q.fc == 0 && isDedicated(o.q)) lastServed[d][o.q.pgn] = o.since;
    pend[d].erase(keyOf(q));
  }
  // answers to requests still pending on OTHER devices may surface in this op
  std::vector<OutMsg> out = routeLate(out0);
  auto leftover = [&](const std::vector<OutMsg> &v, const char *w) { unsolicited(v, w); };
  if (!bc && target < 0) { std::vector<OutMsg> r; for (auto &m : out) { if (m.pgn == 60928UL) r.push_back(m); else C.fail("C09:answered-foreign", "request for address %u answered with PGN %lu", dst, m.pgn); } leftover(r, "foreign"); return; }
  auto invalidateAll = [&]() { for (auto &s : sh) { s.devValid = s.hbValid = false; } confValid = false; expDev = expInst = -1; };
  if (q.fc == 2 || q.fc == 4 || q.fc == 6) {
    std::vector<OutMsg> r; for (auto &m : out) { if (m.pgn == 60928UL) r.push_back(m); else C.fail("C09:answered-reply:fc" + std::to_string(q.fc), "PGN %lu answers an Acknowledge/ReadReply/WriteReply", m.pgn); } leftover(r, "reply");
    C.nontrivial("reply:" + std::to_string(q.fc) + ":" + std::to_string(q.pgn) + (bc ? "b" : "a")); return;   // and no state change: shadow unchanged
  }
  if (bc && (q.fc == 1 || q.fc == 3 || q.fc == 5)) {
    std::vector<OutMsg> r; for (auto &m : out) { if (m.pgn == 60928UL) r.push_back(m); else C.fail("C09:broadcast-answered:fc" + std::to_string(q.fc), "PGN %lu answers a broadcast command/read/write", m.pgn); } leftover(r, "broadcast");
    C.nontrivial("bc:" + std::to_string(q.fc) + ":" + std::to_string(q.pgn)); return;
  }
  if (q.fc > 6) { C.count("invalid_function_code"); if (!out.empty()) C.count("invalid_function_code_answered"); invalidateAll(); return; }
  bool dedicated = isDedicated(q);
  std::vector<OutMsg> rest;
  for (auto &m : out) { int d = devOfAddr(m.src); if (d < 0 || (!bc && d != target)) rest.push_back(m); }
  // ---- per asked device
  for (size_t d = 0; d < n; d++) {
    if (!bc && (int)d != target) continue;
    unsigned A = cfg.devs[d].src;
    std::vector<const OutMsg *> acks, pos;
    for (auto &m : out) if (m.src == A) { if (m.pgn == 126208UL) acks.push_back(&m); else if (q.fc == 0 && q.havePgn && m.pgn == q.pgn) pos.push_back(&m); else rest.push_back(m); }
    if (acks.empty() && pos.empty()) {
      bool j = q.judged && !q.skipped && q.pgn != 126993UL && q.interval == 0xffffffffU && q.offset == 0xffff;
      if (!bc) defer(d, q, reqSrc, false, true);                               // an addressed message must be answered
      else if (dedicated) defer(d, q, reqSrc, true, j && q.match[d]);          // a matching broadcast request too; a mismatching one must stay silent
      continue;
    }
    judge(d, q, reqSrc, bc, acks, pos);
  }
  for (auto &m : rest) { int d = devOfAddr(m.src); if (!bc && d >= 0 && d != target && m.pgn != 60928UL) C.fail("C09:answer-from-wrong-device", "device %d answers a request for device %d", d, target); }
  leftover(rest, "request");
}

// ------------------------------------------------------------------------------------------ executing ops
static unsigned fpSeq = 0;
static void feed(unsigned src, unsigned dst, unsigned prio, unsigned len, const std::vector<unsigned char> &data) {
  unsigned long id = ((unsigned long)(prio & 7) << 26) | (126208UL << 8) | ((unsigned long)dst << 8) | src;
  size_t nfr = len <= 6 ? 1 : 1 + (len - 6 + 6) / 7;
  unsigned seq = (fpSeq++) & 7;
  for (size_t k = 0; k < nfr; k++) {
    unsigned char b[8]; memset(b, 0xff, 8); b[0] = (unsigned char)(seq << 5 | k);
    if (k == 0) { b[1] = (unsigned char)len; for (size_t j = 0; j < 6; j++) b[2 + j] = data[j]; }
    else for (size_t j = 0; j < 7; j++) b[1 + j] = data[6 + 7 * (k - 1) + j];
    N->rx(id, 8, b);
  }
  int guard = 0;
  do { N->ParseMessages(); } while (!N->rxq.empty() && ++guard < 10);
}
// the same message carried by ISO-TP (RTS/CTS) to one of the node's devices: announce, let the node answer CTS, send the data packets
static void feedTP(unsigned src, unsigned dst, unsigned len, const std::vector<unsigned char> &data) {
  unsigned npk = (len + 6) / 7;
  unsigned long cm = (7UL << 26) | (60416UL << 8) | ((unsigned long)dst << 8) | src, dt = (7UL << 26) | (60160UL << 8) | ((unsigned long)dst << 8) | src;
  unsigned char b[8] = {16, (unsigned char)(len & 0xff), (unsigned char)(len >> 8), (unsigned char)npk, 0xff, 0x00, 0xED, 0x01};
  N->rx(cm, 8, b); N->ParseMessages();
  for (unsigned k = 0; k < npk; k++) { unsigned char f[8]; memset(f, 0xff, 8); f[0] = (unsigned char)(k + 1); for (unsigned j = 0; j < 7 && 7 * k + j < len; j++) f[1 + j] = data[7 * k + j]; N->rx(dt, 8, f); }
  int guard = 0; do { N->ParseMessages(); } while (!N->rxq.empty() && ++guard < 10);
}
// TP-carried request (no selection field, "no change" timing) for a served PGN, addressed to a device: the answer comes by
// ISO-TP too and must go towards the requester - the announce (TP.CM RTS naming the requested PGN) is addressed to him
static void oracleTp(unsigned reqSrc, unsigned dst, const std::vector<unsigned char> &p, const std::vector<Frame> &fr) {
  Req q = readReq(p); int d = devOfAddr(dst);
  if (!nodeMode() || d < 0 || q.fc != 0 || !q.judged || !q.fields.empty() || q.interval != 0xffffffffU || q.offset != 0xffff) return;
  if (!(q.pgn == 126464UL || q.pgn == 126996UL || q.pgn == 126998UL)) return;
  bool toReq = false, toOther = false; unsigned other = 0;
  for (auto &f : fr) {
    unsigned long pgn; unsigned src, fd, prio; decodeId(f.id, pgn, src, fd, prio);
    if (src != dst) continue;
    if (pgn == 60416UL && (f.buf[0] == 16 || f.buf[0] == 32) && (f.buf[5] | (f.buf[6] << 8) | ((unsigned long)f.buf[7] << 16)) == q.pgn) { if (fd == reqSrc || fd == 255) toReq = true; else { toOther = true; other = fd; } }   // to the requester, or announced to all (PDU2 PGNs)
    if (pgn == q.pgn || pgn == 126208UL) { if (pgn == 126208UL ? fd == reqSrc : true) toReq = true; }   // answered without TP / by an Acknowledge
  }
  C.count("tp_request_judged");
  if (toOther && !toReq) C.fail("C09:answer-not-to-requester:tp", "TP-carried request %u->%u for PGN %lu: answer announced to %u", reqSrc, dst, q.pgn, other);
  else if (!toReq) C.fail("C09:unanswered:tp", "TP-carried request %u->%u for PGN %lu not answered", reqSrc, dst, q.pgn);
  else { caseServed = true; C.nontrivial("tp:" + std::to_string(q.pgn)); }
}
static size_t carried(unsigned len) { size_t nfr = len <= 6 ? 1 : 1 + (len - 6 + 6) / 7; return 6 + 7 * (nfr - 1); }

static void exec(const std::string &line0);
// poll (10 ms steps) until every request that must be answered has its answer, at most ANSWER_BOUND_MS
static void flushPending() {
  if (!N || !cfg.built || !nodeMode()) return;
  for (int guard = 0; guard < 130; guard++) {
    bool any = false; for (auto &pm : pend) for (auto &kv : pm) if (kv.second.demanded) any = true;
    if (!any) return;
    exec("t 10"); exec("poll");
  }
}
static void endCase() {
  flushPending();
  if (N && cfg.built) { C.cases++; if (caseServed && caseAck) C.nontrivial(caseDesc); }
  caseDesc.clear(); caseServed = caseAck = false;
}

static void exec(const std::string &line0) {
  std::vector<std::string> w = split(line0);
  std::string line = line0;
  if (w[0] == "gf" && w.size() == 6) {   // canonical form: hexdata is exactly what the frames carry
    unsigned len = strtoul(w[4].c_str(), 0, 10); if (len > 223) len = 223;
    std::vector<unsigned char> d = unhex(w[5]); d.resize(carried(len), 0xff);
    line = "gf " + w[1] + " " + w[2] + " " + w[3] + " " + std::to_string(len) + " " + hex(d.data(), d.size());
    w = split(line);
  }
  if (w[0] == "reset") endCase();
  C.op("%s", line.c_str()); C.count("op_" + w[0]); caseDesc += line; caseDesc += ';';
  auto num = [&](size_t i) { return strtoull(w[i].c_str(), 0, 10); };
  if (w[0] == "reset" && w.size() == 4) { cfg = Cfg(); cfg.fl = w[1]; cfg.mode = atoi(w[2].c_str()); cfg.now = num(3); C.out("ok"); return; }
  if (w[0] == "dev" && w.size() == 10 && !cfg.built && num(1) == cfg.devs.size()) {
    DevCfg d; d.src = num(2); d.unique = num(3); d.manu = num(4); d.devinst = num(5); d.func = num(6); d.cls = num(7); d.sys = num(8); d.ind = num(9);
    cfg.devs.push_back(d); C.out("ok"); return; }
  if (w[0] == "prod" && w.size() == 10 && !cfg.built && num(1) < cfg.devs.size()) {
    DevCfg &d = cfg.devs[num(1)]; d.hasProd = true; d.ver = num(2); d.code = num(3); d.mid = cs(bytesStr(unhex(w[4])), 32); d.sw = cs(bytesStr(unhex(w[5])), 32); d.mv = cs(bytesStr(unhex(w[6])), 32); d.sc = cs(bytesStr(unhex(w[7])), 32); d.cert = num(8); d.len = num(9);
    C.out("ok"); return; }
  if ((w[0] == "conf" || w[0] == "confp") && w.size() == 4 && !cfg.built) { cfg.progmem = w[0] == "confp"; cfg.man = cs(bytesStr(unhex(w[1])), 70); cfg.d1 = cs(bytesStr(unhex(w[2])), 70); cfg.d2 = cs(bytesStr(unhex(w[3])), 70); C.out("ok"); return; }
  if ((w[0] == "txlist" || w[0] == "rxlist") && w.size() >= 2 && !cfg.built && num(1) < cfg.devs.size()) {
    DevCfg &d = cfg.devs[num(1)]; std::vector<unsigned long> l; for (size_t i = 2; i < w.size(); i++) l.push_back(num(i));
    if (w[0] == "txlist") { d.tx = l; d.hasTx = true; } else { d.rx = l; d.hasRx = true; } C.out("ok"); return; }
  if (w[0] == "addhandler" && w.size() == 2 && !cfg.built) { cfg.handlers.push_back(num(1)); C.out("ok"); return; }
  if (cfg.fl.empty() || cfg.devs.empty()) { C.out("bad-op"); return; }
  build();
  if (w[0] == "gf" && w.size() == 6) {
    unsigned src = num(1), dst = num(2), prio = num(3), len = num(4); std::vector<unsigned char> d = unhex(w[5]);
    N->sent.clear();
    feed(src, dst, prio, len, d);
    std::vector<OutMsg> out = reassemble(N->sent); N->sent.clear();
    C.outs(msgsStr(out));
    std::vector<unsigned char> p(d.begin(), d.begin() + len);
    oracleGf(src, dst, p, out);
    if (nodeMode()) checkDeadline();
    return;
  }
  if (w[0] == "gftp" && w.size() == 5) {   // output is not compared (the model has no ISO-TP sender): the oracle judges the answer
    unsigned src = num(1), dst = num(2), len = num(3); std::vector<unsigned char> d = unhex(w[4]); if (len > d.size()) len = d.size();
    N->sent.clear(); feedTP(src, dst, len, d);
    std::vector<Frame> fr = N->sent; N->sent.clear();
    C.out("tp");
    oracleTp(src, dst, std::vector<unsigned char>(d.begin(), d.begin() + len), fr);
    return;
  }
  if (w[0] == "t" && w.size() == 2) { g_now += num(1); C.out("ok"); return; }
  if (w[0] == "poll") {
    N->sent.clear(); N->ParseMessages();
    std::vector<OutMsg> out = reassemble(N->sent); N->sent.clear();
    C.outs(msgsStr(out));
    if (nodeMode()) { unsolicited(routeLate(out), "poll"); checkDeadline(); }
    else if (!out.empty()) C.fail("C09:answer-in-listen-mode", "%zu messages", out.size());
    return;
  }
  if (w[0] == "getDevInfo" && w.size() == 2 && num(1) < cfg.devs.size()) {
    int d = (int)num(1); tNMEA2000::tDeviceInformation di = N->GetDeviceInformation(d);
    C.out("%lu %u %u %u %u %u %u %llx", (unsigned long)di.GetUniqueNumber(), di.GetManufacturerCode(), di.GetDeviceInstance(), di.GetDeviceFunction(), di.GetDeviceClass(), di.GetSystemInstance(), di.GetIndustryGroup(), (unsigned long long)di.GetName());
    const DevCfg &c = cfg.devs[d];
    if (di.GetUniqueNumber() != c.unique || di.GetManufacturerCode() != c.manu || di.GetDeviceFunction() != c.func || di.GetDeviceClass() != c.cls || di.GetIndustryGroup() != c.ind)
      C.fail("C09:devinfo-corrupted", "a group function changed unique number / manufacturer / function / class / industry group of device %d", d);
    if (sh[d].devValid) { if (di.GetDeviceInstance() != sh[d].devinst || di.GetSystemInstance() != sh[d].sys) C.fail("C09:60928-command-effect", "device %d has instance %u / system instance %u, commanded history says %u / %u", d, di.GetDeviceInstance(), di.GetSystemInstance(), sh[d].devinst, sh[d].sys); else C.count("devinfo_checked"); }
    sh[d].devinst = di.GetDeviceInstance(); sh[d].sys = di.GetSystemInstance(); sh[d].devValid = true;
    return;
  }
  if (w[0] == "getInstDesc") {
    char a[80], b[80], c[80]; N->GetInstallationDescription1(a, 71); N->GetInstallationDescription2(b, 71); N->GetManufacturerInformation(c, 71);
    C.out("%s %s %s", hex((unsigned char *)a, strlen(a)).c_str(), hex((unsigned char *)b, strlen(b)).c_str(), hex((unsigned char *)c, strlen(c)).c_str());
    if (std::string(c) != cs(cfg.man, 70)) C.fail("C09:maninfo-corrupted", "manufacturer information changed");
    if (confValid) { if (shD1 != a || shD2 != b) C.fail("C09:126998-command-effect", "descriptions '%s' / '%s', commanded history says '%s' / '%s'", a, b, shD1.c_str(), shD2.c_str()); else C.count("instdesc_checked"); }
    shD1 = a; shD2 = b; confValid = true;
    return;
  }
  if (w[0] == "getHeartbeat" && w.size() == 2 && num(1) < cfg.devs.size()) {
    int d = (int)num(1); uint32_t p = N->GetHeartbeatInterval(d), o = N->GetHeartbeatOffset(d);
    C.out("%u %u", p, o);
    if (sh[d].hbValid) { if (p != sh[d].hbPeriod || o != sh[d].hbOffset) C.fail("C09:126993-effect", "device %d heartbeat %u/%u, requested history says %u/%u", d, p, o, sh[d].hbPeriod, sh[d].hbOffset); else C.count("heartbeat_checked"); }
    sh[d].hbPeriod = p; sh[d].hbOffset = o; sh[d].hbValid = true;
    return;
  }
  if (w[0] == "readResetFlags") {
    bool a = N->ReadResetDeviceInformationChanged(), b = N->ReadResetInstallationDescriptionChanged();
    C.out("%d %d", (int)a, (int)b);
    if (expDev != -1 && (int)a != expDev) C.fail(std::string("C09:devinfo-changed-flag:") + (a ? "spurious" : "missing"), "device information changed flag is %d, expected %d", (int)a, expDev);
    if (expInst != -1 && (int)b != expInst) C.fail(std::string("C09:instdesc-changed-flag:") + (b ? "spurious" : "missing"), "installation description changed flag is %d, expected %d", (int)b, expInst);
    if (expDev != -1 && expInst != -1) C.count("flags_checked");
    expDev = 0; expInst = 0;
    return;
  }
  C.out("bad-op");
}

// ------------------------------------------------------------------------------------------------ generators
static void put(std::vector<unsigned char> &v, uint32_t x, int bytes) { for (int i = 0; i < bytes; i++) v.push_back((unsigned char)(x >> (8 * i))); }
static void gf(unsigned src, unsigned dst, const std::vector<unsigned char> &p, int lenOverride = -1, unsigned prio = 3, bool flush = true) {
  if (flush) flushPending();
  unsigned len = lenOverride >= 0 ? (unsigned)lenOverride : (unsigned)p.size(); if (len > 223) len = 223;
  std::vector<unsigned char> d = p; d.resize(carried(len), 0xff);
  char b[64]; snprintf(b, sizeof b, "gf %u %u %u %u ", src, dst, prio, len);
  exec(std::string(b) + hex(d.data(), d.size()));
}
static void readBack(int d) {
  exec("t 3"); exec("poll"); flushPending();
  if (d >= 0) { exec("getDevInfo " + std::to_string(d)); exec("getHeartbeat " + std::to_string(d)); }
  else for (size_t i = 0; i < cfg.devs.size(); i++) { exec("getDevInfo " + std::to_string(i)); exec("getHeartbeat " + std::to_string(i)); }
  exec("getInstDesc"); exec("readResetFlags");
}
static std::vector<unsigned char> reqHdr(unsigned long pgn, uint32_t iv, unsigned off, unsigned pairs) {
  std::vector<unsigned char> p; p.push_back(0); put(p, pgn, 3); put(p, iv, 4); put(p, off, 2); p.push_back((unsigned char)pairs); return p;
}
static std::vector<unsigned char> cmdHdr(unsigned long pgn, unsigned prio, unsigned pairs) {
  std::vector<unsigned char> p; p.push_back(1); put(p, pgn, 3); p.push_back((unsigned char)(0xf0 | prio)); p.push_back((unsigned char)pairs); return p;
}
static std::vector<unsigned char> rwHdr(unsigned fc, unsigned long pgn, unsigned nsel, unsigned npar) {
  std::vector<unsigned char> p; p.push_back((unsigned char)fc); put(p, pgn, 3);
  if (isProprietaryPgn(pgn)) put(p, 0x9800 | 2046, 2);
  p.push_back(0xff); p.push_back((unsigned char)nsel); p.push_back((unsigned char)npar); return p;
}
static void fix32(std::vector<unsigned char> &p, const std::string &s, unsigned char pad = 0xff) { for (size_t i = 0; i < 32; i++) p.push_back(i < s.size() ? (unsigned char)s[i] : pad); }
static void varstr(std::vector<unsigned char> &p, const std::string &s, bool ucs2 = false) {
  if (!ucs2) { p.push_back((unsigned char)(s.size() + 2)); p.push_back(1); for (char c : s) p.push_back((unsigned char)c); }
  else { p.push_back((unsigned char)(2 * s.size() + 2)); p.push_back(0); for (char c : s) { p.push_back((unsigned char)c); p.push_back(0); } }
}
static const unsigned long OTHER_PGNS[] = {59392UL, 126208UL, 127250UL, 129029UL, 130000UL, 0UL, 0xFFFFFFUL, 61184UL, 65280UL, 65535UL, 126720UL, 130816UL, 131071UL, 59904UL, 60160UL, 126992UL};
static const unsigned long DEDICATED[] = {60928UL, 126464UL, 126993UL, 126996UL, 126998UL};

// value bytes of field f of `pgn` that match device d (current shadow), or differ when !match
static bool fieldValue(Rng &R, unsigned long pgn, unsigned f, int d, bool match, std::vector<unsigned char> &p, int wrongAttr = -1) {
  const DevCfg &c = cfg.devs[d]; const DevCfg &pc = c.hasProd ? c : cfg.devs[0];
  auto n = [&](uint32_t v, uint32_t mask, int bytes) { uint32_t x = v; if (!match) { uint32_t flip; do flip = (uint32_t)R.next() & mask; while (!flip); x ^= flip; } if (R.chance(1, 3)) x |= ~mask & (bytes == 1 ? 0xffU : bytes == 2 ? 0xffffU : 0xffffffU); put(p, x, bytes); };
  if (pgn == 60928UL) switch (f) {
    case 1: n(c.unique, 0x1fffff, 3); return true;  case 2: n(c.manu, 0x7ff, 2); return true;
    case 3: n(sh[d].devinst & 7, 7, 1); return true; case 4: n(sh[d].devinst >> 3, 0x1f, 1); return true;
    case 5: n(c.func, 0xff, 1); return true; case 6: p.push_back((unsigned char)R.below(256)); return true;
    case 7: n(c.cls, 0x7f, 1); return true; case 8: n(sh[d].sys, 0x0f, 1); return true;
    case 9: n(c.ind, 7, 1); return true; case 10: p.push_back((unsigned char)R.below(256)); return true; default: return false; }
  if (pgn == 126464UL) { if (f != 1) return false; p.push_back(match ? (unsigned char)R.below(2) : (unsigned char)R.range(2, 255)); return true; }
  if (pgn == 126996UL) {
    const std::string strs[4] = {pc.mid, pc.sw, pc.mv, pc.sc};
    switch (f) {
      case 1: n(pc.ver, 0xffff, 2); return true; case 2: n(pc.code, 0xffff, 2); return true;
      case 3: case 4: case 5: case 6: {
        std::string s = strs[f - 3];
        if (!match) { if (wrongAttr >= 0 && wrongAttr != (int)f - 3) s = strs[wrongAttr]; else if (s.empty() || R.chance(1, 2)) s += "x"; else s[R.below(s.size())] ^= 1; if (s.size() > 32) s = s.substr(0, 31) + (s[31] == 'y' ? "z" : "y"); }
        fix32(p, s, R.chance(1, 4) ? 0x00 : 0xff); return true; }
      case 7: n(pc.cert, 0xff, 1); return true; case 8: n(pc.len, 0xff, 1); return true; default: return false; }
  }
  if (pgn == 126998UL) {
    if (f < 1 || f > 3) return false;
    std::string s = f == 1 ? shD1 : f == 2 ? shD2 : cs(cfg.man, 70);
    if (!match) { if (wrongAttr >= 0) s = wrongAttr == 0 ? shD1 : wrongAttr == 1 ? shD2 : cs(cfg.man, 70); else if (s.empty() || R.chance(1, 2)) s += "!"; else s[R.below(s.size())] ^= 1; if (s.size() > 70) s.resize(70); }
    bool ascii = true; for (unsigned char ch : s) if (ch < 0x20 || ch > 0x7e) ascii = false;
    if (!ascii) { // stored UTF-8 (came from a UCS-2 command): send it back as UCS-2
      p.push_back(0); size_t at = p.size() - 1; p.push_back(0); size_t cnt = 0;
      for (size_t i = 0; i < s.size();) { unsigned ch = (unsigned char)s[i]; unsigned u; if (ch < 0x80) { u = ch; i += 1; } else if ((ch & 0xE0) == 0xC0) { u = (ch & 0x1F) << 6 | ((unsigned char)s[i + 1] & 0x3F); i += 2; } else { u = (ch & 0x0F) << 12 | ((unsigned char)s[i + 1] & 0x3F) << 6 | ((unsigned char)s[i + 2] & 0x3F); i += 3; } p.push_back(u & 0xff); p.push_back(u >> 8); cnt += 2; }
      p[at] = (unsigned char)(cnt + 2); return true; }
    varstr(p, s, R.chance(1, 4)); return true;
  }
  return false;
}
static unsigned maxField(unsigned long pgn) { return pgn == 60928UL ? 10 : pgn == 126464UL ? 1 : pgn == 126996UL ? 8 : pgn == 126998UL ? 3 : 0; }

static unsigned pickReqSrc(Rng &R) { for (;;) { unsigned s = (unsigned)R.below(252); if (devOfAddr(s) < 0) return s; } }

// the per-field experiment: for every field of every handler: match / mismatch / other attribute's value / truncated / repeated / unknown
static void fieldExperiments(Rng &R) {
  for (size_t d = 0; d < cfg.devs.size(); d++) {
    unsigned A = cfg.devs[d].src;
    for (unsigned long pgn : {60928UL, 126464UL, 126996UL, 126998UL}) {
      unsigned S = pickReqSrc(R);
      { auto p = reqHdr(pgn, 0xffffffff, 0xffff, 0); gf(S, A, p); readBack((int)d); }     // no selection field
      for (unsigned f = 1; f <= maxField(pgn); f++) {
        for (int variant = 0; variant < 7; variant++) {
          auto p = reqHdr(pgn, 0xffffffff, 0xffff, variant >= 4 && variant <= 5 ? 2 : 1);
          p.push_back((unsigned char)f);
          int len = -1;
          switch (variant) {
            case 0: fieldValue(R, pgn, f, (int)d, true, p); break;
            case 1: fieldValue(R, pgn, f, (int)d, false, p); break;
            case 2: { int wa = pgn == 126996UL ? (int)R.below(4) : (int)R.below(3); fieldValue(R, pgn, f, (int)d, false, p, wa); break; }   // string fields: another attribute's value
            case 3: { fieldValue(R, pgn, f, (int)d, true, p); size_t cut = 12 + R.below(p.size() - 12); len = (int)cut; break; }            // truncated
            case 4: fieldValue(R, pgn, f, (int)d, true, p); p.push_back((unsigned char)f); fieldValue(R, pgn, f, (int)d, true, p); break;  // repeated, both match
            case 5: fieldValue(R, pgn, f, (int)d, true, p); p.push_back((unsigned char)f); fieldValue(R, pgn, f, (int)d, false, p); break; // repeated, second differs
            case 6: { unsigned g = 1 + (unsigned)R.below(maxField(pgn)); p[10] = 2; fieldValue(R, pgn, f, (int)d, R.chance(3, 4), p); p.push_back((unsigned char)g); fieldValue(R, pgn, g, (int)d, R.chance(3, 4), p); break; } // two different fields
          }
          gf(S, R.chance(1, 8) ? 255 : A, p, len);
          if (pgn == 60928UL) { exec("t 3"); exec("poll"); }
        }
      }
      // unknown field ids, alone and after a good one
      for (int k = 0; k < 4; k++) {
        unsigned uf = maxField(pgn) + 1 + (unsigned)R.below(k < 2 ? 3 : 244); if (uf > 255) uf = 255;
        auto p = reqHdr(pgn, 0xffffffff, 0xffff, k % 2 ? 3 : 1);
        if (k % 2) { p.push_back(1); fieldValue(R, pgn, 1, (int)d, true, p); }
        p.push_back((unsigned char)uf); p.push_back((unsigned char)R.below(256));
        if (k % 2) { p.push_back(1); fieldValue(R, pgn, 1, (int)d, true, p); }
        gf(S, A, p); if (pgn == 60928UL) { exec("t 3"); exec("poll"); }
      }
      readBack((int)d);
    }
  }
}

static std::string randStr(Rng &R, size_t maxLen) { size_t n = R.chance(1, 6) ? maxLen : R.below(maxLen + 1); std::string s; for (size_t i = 0; i < n; i++) s += (char)R.range(0x20, 0x7e); return s; }

static void commandExperiments(Rng &R) {
  for (size_t d = 0; d < cfg.devs.size(); d++) {
    unsigned A = cfg.devs[d].src, S = pickReqSrc(R);
    // 60928: every subset of {lower, upper, system instance}, several values, any priority setting
    for (int sub = 0; sub < 8; sub++) for (int rep = 0; rep < 2; rep++) {
      unsigned np = (sub & 1) + (sub >> 1 & 1) + (sub >> 2 & 1);
      auto p = cmdHdr(60928UL, R.chance(2, 3) ? 8 : (unsigned)R.below(16), np);
      if (sub & 1) { p.push_back(3); p.push_back((unsigned char)R.below(256)); }
      if (sub & 2) { p.push_back(4); p.push_back((unsigned char)R.below(256)); }
      if (sub & 4) { p.push_back(8); p.push_back((unsigned char)R.below(256)); }
      gf(S, A, p); readBack((int)d);
      if (rep) { gf(S, A, p); readBack((int)d); }   // same command again: nothing changes
      // a request filtering on the new values is served
      auto q = reqHdr(60928UL, 0xffffffff, 0xffff, 3); q.push_back(3); fieldValue(R, 60928UL, 3, (int)d, true, q); q.push_back(4); fieldValue(R, 60928UL, 4, (int)d, true, q); q.push_back(8); fieldValue(R, 60928UL, 8, (int)d, true, q);
      gf(S, A, q); readBack((int)d);
    }
    // 60928: boundary value bytes for each commanded field (all ones, zero, the field's mask and its neighbours, reserved bits set)
    { const unsigned vals[] = {0xff, 0x00, 0x07, 0x08, 0x1f, 0x20, 0xf8, 0xe0, 0xf0, 0x0f, 0xfe, 0x7f};
      for (unsigned f : {3u, 4u, 8u}) for (unsigned v : vals) {
        { auto p0 = cmdHdr(60928UL, 8, 1); p0.push_back((unsigned char)f); p0.push_back((unsigned char)(v ^ 0x55)); gf(S, A, p0); }   // move away first, so that every value is a change
        auto p = cmdHdr(60928UL, 8, 1); p.push_back((unsigned char)f); p.push_back((unsigned char)v); gf(S, A, p); readBack((int)d);
      }
    }
    // 126998: descriptions 1 / 2 / both, ASCII and UCS-2, lengths 0..70, then read back through a request
    // (the first command writes ONE description only: the other one must survive the first write)
    for (int k = 0; k < 10; k++) {
      int which = k == 0 ? 1 + (int)R.below(2) : 1 + (int)R.below(3); bool ucs = R.chance(1, 4);
      auto p = cmdHdr(126998UL, R.chance(2, 3) ? 8 : (unsigned)R.below(16), which == 3 ? 2 : 1);
      size_t maxl = ucs ? 35 : 70;
      if (which & 1) { p.push_back(1); varstr(p, randStr(R, maxl), ucs); }
      if (which & 2) { p.push_back(2); varstr(p, randStr(R, which == 3 ? 30 : maxl), ucs); }
      gf(S, A, p); readBack((int)d);
      auto q = reqHdr(126998UL, 0xffffffff, 0xffff, 0); gf(S, A, q);
      auto q2 = reqHdr(126998UL, 0xffffffff, 0xffff, 2); q2.push_back(1); fieldValue(R, 126998UL, 1, (int)d, true, q2); q2.push_back(2); fieldValue(R, 126998UL, 2, (int)d, true, q2); gf(S, A, q2);
    }
    { // UCS-2 beyond ASCII: 2- and 3-byte UTF-8 in the stored description
      auto p = cmdHdr(126998UL, 8, 1); p.push_back(1); const unsigned u[] = {0x48, 0xE4, 0x20AC, 0x416, 0x7FF, 0x800, 0xFFFD, 0x7f, 0x80};
      p.push_back((unsigned char)(2 * 9 + 2)); p.push_back(0); for (unsigned c : u) { p.push_back(c & 0xff); p.push_back(c >> 8); }
      gf(S, A, p); readBack((int)d);
      auto q = reqHdr(126998UL, 0xffffffff, 0xffff, 0); gf(S, A, q);
      auto q2 = reqHdr(126998UL, 0xffffffff, 0xffff, 1); q2.push_back(1); fieldValue(R, 126998UL, 1, (int)d, true, q2); gf(S, A, q2);
      auto p2 = cmdHdr(126998UL, 8, 1); p2.push_back(1); varstr(p2, randStr(R, 20)); gf(S, A, p2); readBack((int)d);
    }
    // 126993: interval / offset over the ranges, boundaries first
    const uint32_t ivs[] = {0, 1, 999, 1000, 1001, 5000, 59999, 60000, 60001, 65535, 65536, 655320, 655321, 0x7fffffff, 0xfffffffd, 0xfffffffe, 0xffffffff};
    const unsigned offs[] = {0xffff, 0, 1, 10, 5999, 6000, 6001, 0xfffe, 0x8000};
    for (uint32_t iv : ivs) for (int k = 0; k < 3; k++) {
      unsigned off = k == 0 ? 0xffff : offs[R.below(sizeof offs / sizeof *offs)];
      auto p = reqHdr(126993UL, iv, off, 0); gf(S, R.chance(1, 10) ? 255 : A, p); readBack((int)d);
    }
    for (int k = 0; k < 30; k++) {
      uint32_t iv = R.chance(1, 2) ? (uint32_t)R.range(900, 61000) : (uint32_t)R.next();
      unsigned off = R.chance(1, 3) ? 0xffff : R.chance(1, 2) ? (unsigned)R.range(0, 6100) : (unsigned)R.below(65536);
      auto p = reqHdr(126993UL, iv, off, R.chance(1, 8) ? (unsigned)R.range(1, 5) : 0); gf(S, A, p); readBack((int)d);
    }
    { auto p = cmdHdr(126993UL, 8, 0); gf(S, A, p); readBack((int)d); }
  }
}

// histories of several requests inside the library's answer-delay window: every ordered pair (and random triples) of requests
// for DIFFERENT PGNs to one device in the same millisecond, then fine-grained polling; every one of them must get its answer
static void burstExperiments(Rng &R, bool triples) {
  for (size_t d = 0; d < cfg.devs.size(); d++) {
    unsigned A = cfg.devs[d].src, S = pickReqSrc(R);
    auto make = [&](int k) -> std::vector<unsigned char> {
      switch (k) {
        case 0: return reqHdr(60928UL, 0xffffffff, 0xffff, 0);
        case 1: { auto p = cmdHdr(60928UL, 8, 1); p.push_back(R.chance(1, 2) ? 3 : 4); p.push_back((unsigned char)R.below(256)); return p; }
        case 2: return reqHdr(126996UL, 0xffffffff, 0xffff, 0);
        case 3: return reqHdr(126998UL, 0xffffffff, 0xffff, 0);
        case 4: return reqHdr(126464UL, 0xffffffff, 0xffff, 0);
        case 5: return reqHdr(126993UL, (uint32_t)R.range(1000, 60000), 0xffff, 0);
        case 6: return reqHdr(130000UL, 0xffffffff, 0xffff, 0);
        default: { auto p = cmdHdr(126998UL, 8, 1); p.push_back(1); varstr(p, randStr(R, 30)); return p; }
      }
    };
    auto settle = [&]() { for (int i = 0; i < 4; i++) { exec("t 1"); exec("poll"); } readBack((int)d); };
    for (int i = 0; i < 8; i++) for (int j = 0; j < 8; j++) if (i != j && !(i <= 1 && j <= 1) && !((i == 3 || i == 7) && (j == 3 || j == 7))) {
      gf(S, A, make(i)); gf(S, A, make(j), -1, 3, false); settle();
    }
    for (int t = 0; t < (triples ? 60 : 6); t++) {
      int a = (int)R.below(8), b, c; do b = (int)R.below(8); while (b == a || (a <= 1 && b <= 1) || ((a == 3 || a == 7) && (b == 3 || b == 7)));
      do c = (int)R.below(8); while (c == a || c == b || ((a <= 1 || b <= 1) && c <= 1) || ((a == 3 || a == 7 || b == 3 || b == 7) && (c == 3 || c == 7)));
      gf(S, A, make(a)); if (R.chance(1, 2)) exec("t 1"); gf(S, A, make(b), -1, 3, false); if (R.chance(1, 3)) { exec("t 1"); exec("poll"); } gf(S, A, make(c), -1, 3, false); settle();
    }
  }
}

static void newNode(Rng &R, const char *flavor, int ndev, int mode);
// requests carried by ISO-TP (RTS/CTS to the device): one per node, as its last op (the node's TP answer stays in progress)
static void tpExperiments(Rng &R, const char *flavor) {
  for (unsigned long pgn : {126464UL, 126996UL, 126998UL}) {
    newNode(R, flavor, 1 + (int)R.below(2), -1);
    size_t d = R.below(cfg.devs.size());
    auto p = reqHdr(pgn, 0xffffffff, 0xffff, 0);
    unsigned S = pickReqSrc(R);
    char b[64]; snprintf(b, sizeof b, "gftp %u %u %zu ", S, cfg.devs[d].src, p.size());
    exec(std::string(b) + hex(p.data(), p.size()));
  }
}

// all function codes x target PGNs x addressed / broadcast / foreign
static void dispatchSweep(Rng &R) {
  std::vector<unsigned long> pgns(DEDICATED, DEDICATED + 5); for (unsigned long p : OTHER_PGNS) pgns.push_back(p);
  for (size_t d = 0; d < cfg.devs.size(); d++) for (unsigned long t : cfg.devs[d].tx) pgns.push_back(t);
  for (unsigned fc = 0; fc <= 8; fc++) for (unsigned long pgn : pgns) for (int dk = 0; dk < 3; dk++) {
    unsigned S = pickReqSrc(R);
    unsigned dst = dk == 0 ? cfg.devs[R.below(cfg.devs.size())].src : dk == 1 ? 255 : pickReqSrc(R);
    if (dk == 2 && !R.chance(1, 4)) continue;
    std::vector<unsigned char> p; unsigned pairs = R.chance(1, 2) ? 0 : (unsigned)R.range(1, 4);
    if (fc == 0) p = reqHdr(pgn, 0xffffffff, 0xffff, pairs);
    else if (fc == 1) p = cmdHdr(pgn, R.chance(1, 2) ? 8 : (unsigned)R.below(16), pairs);
    else if (fc == 2) { p.push_back(2); put(p, pgn, 3); p.push_back((unsigned char)R.below(256)); p.push_back((unsigned char)pairs); }
    else if (fc == 3 || fc == 5) p = rwHdr(fc, pgn, (unsigned)R.below(3), pairs);
    else if (fc == 4 || fc == 6) p = rwHdr(fc, pgn, 0, pairs);
    else { p.push_back((unsigned char)(fc == 7 ? 7 : R.range(7, 255))); put(p, pgn, 3); p.push_back(0xff); p.push_back(0); }
    for (unsigned k = 0; k < pairs; k++) { p.push_back((unsigned char)R.range(1, 12)); p.push_back((unsigned char)R.below(256)); }
    gf(S, dst, p, -1, (unsigned)R.below(8));
    readBack(-1);
  }
}

// declared pair counts 0..255 against short bodies
static void pairCountSweep(Rng &R, int step) {
  for (unsigned n = 0; n <= 255; n += (n < 8 || n > 248) ? 1 : step) {
    unsigned A = cfg.devs[R.below(cfg.devs.size())].src, S = pickReqSrc(R);
    for (unsigned fc : {0u, 1u, 3u, 5u}) {
      unsigned long pgn = R.chance(1, 2) ? DEDICATED[R.below(5)] : OTHER_PGNS[R.below(sizeof OTHER_PGNS / sizeof *OTHER_PGNS)];
      std::vector<unsigned char> p = fc == 0 ? reqHdr(pgn, R.chance(1, 2) ? 0xffffffff : (uint32_t)R.next(), R.chance(1, 2) ? 0xffff : (unsigned)R.below(65536), n) : fc == 1 ? cmdHdr(pgn, 8, n) : rwHdr(fc, pgn, 0, n);
      size_t body = R.chance(1, 3) ? 0 : R.below(40); for (size_t i = 0; i < body; i++) p.push_back((unsigned char)(R.chance(1, 2) ? R.range(1, 10) : R.below(256)));
      gf(S, A, p);
    }
    if (n % 16 == 0) readBack(-1);
  }
}

// malformed stream: random bytes behind a plausible start, every length
static void malformed(Rng &R, int count) {
  for (int i = 0; i < count; i++) {
    unsigned len = R.chance(1, 3) ? (unsigned)R.below(14) : (unsigned)R.below(224);
    std::vector<unsigned char> p(len); for (auto &b : p) b = (unsigned char)R.below(256);
    if (len > 0 && R.chance(3, 4)) p[0] = (unsigned char)R.below(7);
    if (len >= 4 && R.chance(3, 4)) { unsigned long pgn = R.chance(2, 3) ? DEDICATED[R.below(5)] : OTHER_PGNS[R.below(sizeof OTHER_PGNS / sizeof *OTHER_PGNS)]; p[1] = pgn & 0xff; p[2] = (pgn >> 8) & 0xff; p[3] = (pgn >> 16) & 0xff; }
    if (len >= 11 && p[0] == 0 && R.chance(1, 2)) { for (int k = 4; k < 10; k++) p[k] = 0xff; p[10] = (unsigned char)R.below(6); for (size_t k = 11; k + 1 < len; k += 1 + R.below(4)) p[k] = (unsigned char)R.range(1, 10); }
    if (len >= 6 && p[0] == 1 && R.chance(1, 2)) { p[5] = (unsigned char)R.below(6); for (size_t k = 6; k + 1 < len; k += 1 + R.below(3)) p[k] = (unsigned char)R.range(1, 9); }
    unsigned dst = R.chance(1, 6) ? 255 : R.chance(1, 12) ? pickReqSrc(R) : cfg.devs[R.below(cfg.devs.size())].src;
    gf(pickReqSrc(R), dst, p, -1, (unsigned)R.below(8));
    if (R.chance(1, 3)) readBack(-1);
  }
  readBack(-1);
}

static int caseNo = 0;
static void newNode(Rng &R, const char *flavor, int ndev, int mode = -1) {
  static const char *mids[] = {"Verif model A", "M", "Model-ID-with-exactly-32-chars-xx", "gateway"};
  static const char *sws[] = {"1.2.3.4 (2024-01-01)", "SW", "Software-code-with-32-characters", "v9"};
  static const char *mvs[] = {"HW rev C", "V", "Model-version-of-32-characters-x", "2"};
  static const char *scs[] = {"00012345", "S", "Serial-code-with-32-characters-x", "SN-7"};
  int k = caseNo++;
  uint64_t now = R.chance(1, 3) ? 0xFFFFFFFFULL - R.below(2000) : (R.chance(1, 2) ? 1000 + R.below(100000) : 0x7FFFFFFFULL - R.below(2000));
  if (mode < 0) mode = R.chance(1, 2) ? 1 : 2;
  char b[400]; snprintf(b, sizeof b, "reset %s %d %llu", flavor, mode, (unsigned long long)now); exec(b);
  unsigned base = (unsigned)R.range(1, 150);
  for (int i = 0; i < ndev; i++) {
    unsigned src = i == 0 ? base : base + 3 + 25 * (unsigned)(i - 1) + (unsigned)R.below(20);
    snprintf(b, sizeof b, "dev %d %u %lu %u %u %u %u %u %u", i, src, (unsigned long)R.below(0x200000), (unsigned)R.below(0x800), (unsigned)R.below(256), (unsigned)R.below(255) /* 255 = "keep" in SetDeviceInformation */, (unsigned)R.below(128), (unsigned)R.below(16), (unsigned)R.below(8)); exec(b);
    if (i == 0 ? !R.chance(1, 6) : R.chance(2, 3)) {
      int v = (k + i) % 4; std::string mid = mids[v], sw = sws[(v + i) % 4], mv = mvs[v], sc = scs[(v + 2 * i) % 4];
      if (i) { mid += "#2"; if (mid.size() > 32) mid = mid.substr(0, 30) + "#2"; }
      snprintf(b, sizeof b, "prod %d %u %u ", i, (unsigned)R.range(0, 0xfffe), (unsigned)R.below(0x10000)); std::string l = b;
      l += hex((const unsigned char *)mid.data(), mid.size()) + " " + hex((const unsigned char *)sw.data(), sw.size()) + " " + hex((const unsigned char *)mv.data(), mv.size()) + " " + hex((const unsigned char *)sc.data(), sc.size());
      snprintf(b, sizeof b, " %u %u", (unsigned)R.below(255), (unsigned)R.below(255)); exec(l + b);
    }
    if (R.chance(1, 2)) { snprintf(b, sizeof b, "txlist %d 127250 129029%s", i, R.chance(1, 2) ? " 130900" : ""); exec(b); }
    if (R.chance(1, 2)) { snprintf(b, sizeof b, "rxlist %d 127258 129025", i); exec(b); }
  }
  bool progmem = k % 2 == 0;    // how the application gave the configuration strings: PROGMEM or RAM
  std::string man = "Verif Oy, www.example.invalid", d1 = !progmem && R.chance(1, 4) ? "" : randStr(R, 70), d2 = !progmem && R.chance(1, 4) ? "" : randStr(R, 40);
  if (progmem) { if (d1.empty()) d1 = "Port engine room"; if (d2.empty()) d2 = "Bilge"; }
  auto hx = [](const std::string &s) { return hex((const unsigned char *)s.data(), s.size()); };
  exec(std::string(progmem ? "confp " : "conf ") + hx(man) + " " + hx(d1) + " " + hx(d2));
  if (R.chance(1, 3)) exec("addhandler " + std::to_string(R.chance(1, 2) ? 127250UL : 130000UL));
}

int main(int argc, char **argv) {
  C.init(argc, argv);
  C.rule = "case = one node (reset .. next reset) with its request stream; non-trivial = the case contains a served request and an Acknowledge; distinct = (function code, target PGN, answer kind, first field, pair count) classes plus hashes of such cases";
#ifdef N2K_VERIF_T32
  const char *flavor = "t32";
#else
  const char *flavor = "t64";
#endif
  if (!C.replay.empty()) {
    for (auto &l : readLines(C.replay)) { std::vector<std::string> w = split(l); if (w[0] == "reset" && w.size() == 4) exec("reset " + std::string(flavor) + " " + w[2] + " " + w[3]); else exec(l); }
    endCase(); C.finish(); return 0;
  }
  Rng R(C.seed * 0x9E3779B1ULL + 0xC09);
  int rounds = C.thorough ? 6 : 1;
  for (int r = 0; r < rounds; r++) {
    newNode(R, flavor, 1); fieldExperiments(R); commandExperiments(R);
    newNode(R, flavor, 2); fieldExperiments(R); commandExperiments(R);
    newNode(R, flavor, 1 + r % 2); burstExperiments(R, C.thorough);
    newNode(R, flavor, r % 2 ? 2 : 1); dispatchSweep(R);
    newNode(R, flavor, 2); pairCountSweep(R, C.thorough ? 1 : 9);
    newNode(R, flavor, (int)R.range(1, 3)); malformed(R, C.thorough ? 1500 : 400);
    newNode(R, flavor, 1, (int)R.pick(std::vector<int>{0, 3, 4})); malformed(R, 30);
    tpExperiments(R, flavor);
  }
  C.sample("per-field experiment: request 60928/126464/126996/126998 with each field matching / differing / carrying another attribute / truncated / repeated / paired with another field / unknown ids");
  C.sample("commands: 60928 every subset of {lower, upper, system instance}; 126998 descriptions ASCII and UCS-2 with read-back request; 126993 interval/offset boundaries and random 32/16-bit values");
  C.sample("bursts: every ordered pair (random triples) of requests/commands for different PGNs to one device within one millisecond, then 1 ms polls: each must be answered; boundary value bytes (0xff, 0, masks) for every commanded 60928 field; configuration strings given as PROGMEM or RAM, first 126998 command writes one description");
  C.sample("dispatch: function codes 0..8 x {5 dedicated, transmit, unknown, proprietary PGNs} x addressed/broadcast/foreign; pair counts 0..255; malformed random bodies of every length");
  endCase();
  C.finish();
  return 0;
}
