import N2k.Lemmas.Layout
import N2k.Gen.LayoutProofs
/-! # C05 — every PGN setter/parser pair round-trips all field values

The layouts of the real `SetN2kPGNxxx` / `ParseN2kPGNxxx` functions are regenerated from the C++ source on every
run (`N2k/Gen/Layouts.lean`), one obligation `C05_pgn_<N>_<field> : fieldOK pair_<N> o = true` per field is
decided by the kernel (`N2k/Gen/LayoutProofs.lean`). The theorems below are generic in the pair and are then
instantiated with the generated table. Values are integer *codes*: the integer itself (two's complement in
the field width) for integer / enumeration / flag fields, the `8w`-bit code of a scaled field; the double ↔ code
step (half a resolution step, NA ↦ NA) is property C06 and `fieldOK` pins both sides to the same
`(offset, width, signed, resolution)` record. -/
namespace N2k.C05
open N2k.Layout

/-- One field: if the parser's bits mirror the setter's, the parser returns the value (code) the setter was given,
for every value in the field's domain (`Pair.inDomain`: everything below `2^W`; for an `n`-bit field whose all-ones
pattern the parser hands back as the enumeration's own "not available" value - PGN 130311 humidity source -
everything below the all-ones pattern and that NA value, so NA is preserved as NA), and both sides agree on the
scaled side record. -/
theorem C05_field_roundtrip (P : Pair) (o : Nat) (params : Nat → Nat)
    (hok : fieldOK P o = true) (hdom : P.inDomain o (params o)) :
    P.value o ((decode P.parser (encode P.setterBits params)).getD o 0) = params o ∧
      lookupRec P.setScaled o = lookupRec P.parseScaled o :=
  ⟨field_value_roundtrip P o params hok hdom, field_scaled P o hok⟩

/-- Whole pair: parsing the message produced by the setter succeeds (PGN guard, payload constants such as the
Maretron proprietary header, accepted length) and returns every field that is both set and parsed. -/
theorem C05_layout_roundtrip (P : Pair) (params : Nat → Nat) (hok : pairOK P = true)
    (hdom : ∀ o ∈ P.checked, P.inDomain o (params o)) :
    ∃ vals, parseMsg P (setMsg P params).1 (setMsg P params).2 = some vals ∧
      ∀ o ∈ P.checked, vals.getD o 0 = params o ∧
        lookupRec P.setScaled o = lookupRec P.parseScaled o := by
  simp only [pairOK, guardsOK, Bool.and_eq_true, List.all_eq_true] at hok
  obtain ⟨hf, ⟨hpg, hg⟩, hl⟩ := hok
  refine ⟨(List.range P.parser.length).map fun o =>
    P.value o ((decode P.parser (encode P.setterBits params)).getD o 0), ?_, ?_⟩
  · have h1 : pgnAccepted P P.pgn = true := by
      simp only [guardOK, beq_iff_eq] at hg
      simp [pgnAccepted, hg]
    simp only [parseMsg, setMsg, h1, len_accepted P params hl, payloadGuard_holds P params hpg, Bool.and_self,
      ↓reduceIte]
  · intro o ho
    have h := C05_field_roundtrip P o params (hf o ho) (hdom o ho)
    refine ⟨?_, h.2⟩
    by_cases hin : o < P.parser.length
    · simp only [List.getD_eq_getElem?_getD, List.getElem?_map, List.getElem?_range hin, Option.map_some,
        Option.getD_some]
      simpa [List.getD_eq_getElem?_getD] using h.1
    · -- no parser entry: the returned list is too short (value 0), and the obligation forces the parameter to be 0
      have hge : P.parser.length ≤ o := by omega
      have h0 : (decode P.parser (encode P.setterBits params)).getD o 0 = 0 := by
        simp [decode, List.getD_eq_getElem?_getD, List.getElem?_eq_none (by simp; omega : (List.map _ P.parser).length ≤ o)]
      have h1 := h.1
      rw [h0, value_out_of_range P o (hf o ho) hge] at h1
      rw [← h1]
      simp [List.getD_eq_getElem?_getD, List.getElem?_eq_none (by simp; omega : (List.map _ (List.range P.parser.length)).length ≤ o)]

/-- A parser with a PGN guard refuses every message that carries another PGN, whatever the payload. -/
theorem C05_guard (P : Pair) (g pgn : Nat) (payload : List Bool) (hg : P.guard = some g) (hne : pgn ≠ g) :
    parseMsg P pgn payload = none := by
  simp [parseMsg, pgnAccepted, hg, hne]

/-- A mirrored field is read from payload bits below the payload length only: bytes behind the payload the
setter produced (junk in the 223-byte buffer) have no influence on it. -/
theorem C05_junk_independent (P : Pair) (o : Nat) (hok : fieldOK P o = true) (payload junk : List Bool)
    (hlen : payload.length = P.setterBits.length) :
    decodeOne (payload ++ junk) (P.parser.getD o []) = decodeOne payload (P.parser.getD o []) := by
  unfold decodeOne
  congr 1
  apply List.map_congr_left
  intro b hb
  cases b with
  | none => rfl
  | some k =>
    obtain ⟨i, hi⟩ := List.mem_iff_getElem?.mp hb
    have hk : k < payload.length := by rw [hlen]; exact bit_in_range P o hok i k hi
    simp only [List.getD_eq_getElem?_getD, List.getElem?_append_left hk]

/-- The obligations generated from the source on this run give the round trip for every translated pair … -/
theorem C05_generated_roundtrip (P : Pair) (hP : P ∈ N2k.Gen.Layouts.okPairs) (params : Nat → Nat)
    (hdom : ∀ o ∈ P.checked, P.inDomain o (params o)) :
    ∃ vals, parseMsg P (setMsg P params).1 (setMsg P params).2 = some vals ∧
      ∀ o ∈ P.checked, vals.getD o 0 = params o ∧
        lookupRec P.setScaled o = lookupRec P.parseScaled o :=
  C05_layout_roundtrip P params
    (List.all_eq_true.mp N2k.Gen.LayoutProofs.C05_all_pairs P hP) hdom

/-- … and the refusal of foreign PGNs by every translated parser. -/
theorem C05_generated_guard (P : Pair) (hP : P ∈ N2k.Gen.Layouts.okPairs) (pgn : Nat) (payload : List Bool)
    (hne : pgn ≠ P.pgn) : parseMsg P pgn payload = none := by
  have hok := List.all_eq_true.mp N2k.Gen.LayoutProofs.C05_all_pairs P hP
  simp only [pairOK, guardsOK, guardOK, Bool.and_eq_true, beq_iff_eq] at hok
  exact C05_guard P P.pgn pgn payload hok.2.1.2 hne

/-! Non-vacuity: the table is not empty, a concrete pair is in it, and its layouts compute. -/
example : N2k.Gen.Layouts.okPairs.length ≥ 40 := by decide +kernel
example : N2k.Gen.Layouts.pair_127505 ∈ N2k.Gen.Layouts.okPairs := by
  simp [N2k.Gen.Layouts.okPairs]
/-- PGN 127505, Instance 3, FluidType 5, Level code 1000, Capacity code 2000: bytes and back -/
example : bitsToBytes (encode N2k.Gen.Layouts.pair_127505.setterBits (fun o => [3, 5, 1000, 2000].getD o 0))
    = [0x53, 0xe8, 0x03, 0xd0, 0x07, 0x00, 0x00, 0xff] := by decide +kernel
example : decode N2k.Gen.Layouts.pair_127505.parser
    (encode N2k.Gen.Layouts.pair_127505.setterBits (fun o => [3, 5, 1000, 2000].getD o 0)) = [3, 5, 1000, 2000] := by
  decide +kernel
/-- a parser with too narrow a mask (0x04 for a 4-bit field, as ParseN2kPGN127510 had) does not mirror -/
example : outOK (fun k => ([.param 0 0, .param 0 1, .param 0 2, .param 0 3] : Setter)[k]?) 0 4
    [none, none, some 2, none] = false := by decide

end N2k.C05
