import N2k.Lemmas.ClaimReport
import N2k.Lemmas.ClaimArb
import N2k.Lemmas.ClaimConverge
import N2k.Lemmas.SendGate
import N2k.Lemmas.ClaimRxSlot
/-!
# C03 — Address claiming converges to unique addresses and the lower NAME wins

Model: `N2k.Claim` (`Model/Claim.lean`: `search`/`getNextAddress` = `GetNextAddress`, `handleClaim` =
`HandleISOAddressClaim`, `handleCommandedAddress`, `startAddressClaimAll`, `openStep`, `parse` = `ParseMessages`,
the `addressChanged` latch) on top of the send path `N2k.Send`; `N2k.Bus` (`Model/Bus.lean`): any number of
nodes, each a library instance (any number of devices) or a foreign node following `Spec/Iso11783.lean`, on an
atomic-broadcast bus; steps = node `i` processes the head of its inbox | node `i` is polled (opens, timers
expire, foreign node starts) | time advances | a commanded-address message reaches node `i` | `Restart()`.

Bus hypotheses (`BusOK`, stated in `C03_unique_at_quiescence`): atomic broadcast to every node that is on the bus
(part of `Bus.step`), no frame loss or reordering (inboxes are FIFO lists), claim sends are not refused (driver
script empty, default accept, send queue empty: `SendOK`), the application has not declared PGN 60928 a
fast-packet PGN, nodes are claimants (NodeOnly/ListenAndNode), NAMEs are 64-bit values, configured addresses are
0..251 or 254 and distinct among the devices of one instance; a node that is not open has no address on the bus
and announces every device when it opens.

What is proved for arbitrary `n` and every interleaving is *safety*: uniqueness at every quiescent reachable
state, the arbitration decision, the report of every own-address change; `C03_claim_not_lost` discharges the
hypothesis "a delivered claim reaches the handler" whenever a receive slot is free or recyclable. Liveness (a quiescent state is reached)
is NOT proved: `C03_converges_partial` gives the per-device progress measure only; the harness explores
convergence by search.
-/
namespace N2k.C03
open N2k.Send N2k.Time N2k.Claim N2k.Bus

/-! ## GetNextAddress -/

/-- **C03_next_address.** From a valid address `src` with a valid end-of-search address `e`, the search loop
terminates within `dist src e + 1` passes (the termination measure; `searchFuel` = 600 is always enough), latches
`AddressChanged`, leaves the end-of-search address alone and returns the first address after `src` in the
cyclic order 0..251 (`cand src k = (src+k) % 252`: 251 wraps to 0), up to and including `e`, that no sibling
device uses; it returns 254 exactly when there is none, i.e. when the search reaches the end-of-search address.
Each candidate is visited at most once (`k ≤ dist src e ≤ 251`). -/
theorem C03_next_address (restart : Bool) (sibs : List Nat) (src e fuel : Nat) (hs : src ≤ 251) (he : e ≤ 251)
    (hf : dist src e + 1 ≤ fuel) :
    let r := search restart sibs fuel src e
    r.done = true ∧ r.changed = true ∧ r.endSource = e ∧ dist src e ≤ 251 ∧
    ((r.source = 254 ∧ ∀ j, 1 ≤ j → j ≤ dist src e → sibs.contains (cand src j) = true) ∨
     (∃ k, 1 ≤ k ∧ k ≤ dist src e ∧ r.source = cand src k ∧ r.source ≤ 251 ∧ r.source ≠ src ∧
        sibs.contains r.source = false ∧ ∀ j, 1 ≤ j → j < k → sibs.contains (cand src j) = true)) := by
  intro r
  have p := search_post restart sibs (dist src e) fuel src e hs he rfl hf
  have hd : dist src e ≤ 251 := by unfold dist; omega
  refine ⟨p.done, p.changed, p.endSame, hd, ?_⟩
  rcases p.result with h | ⟨k, h1, h2, hr, hn, hall⟩
  · exact Or.inl h
  · refine Or.inr ⟨k, h1, h2, hr, ?_, ?_, by rw [hr]; exact hn, hall⟩
    · show (search restart sibs fuel src e).source ≤ 251
      rw [hr]; unfold cand; omega
    · show (search restart sibs fuel src e).source ≠ src
      rw [hr]; unfold cand; omega

example : dist 250 249 + 1 ≤ searchFuel ∧ (search false [251, 0] searchFuel 250 249).source = 1 := by decide
example : (search false [251, 0] searchFuel 249 251).source = 250 ∧ (search false [251] searchFuel 250 251).source = 254 := by
  decide

/-- from the null address nothing happens without `RestartAtEnd`; with it the search restarts at 14 with
end-of-search 13 (`StartAddressClaim()` on open / `Restart()`) -/
theorem C03_next_address_null (sibs : List Nat) (e : Nat) :
    search false sibs searchFuel 254 e = ⟨254, e, false, true⟩ ∧
    search true sibs searchFuel 254 e =
      (if sibs.contains 14 then search true sibs (searchFuel - 1) 14 13 else ⟨14, 13, true, true⟩) :=
  ⟨search_null_norestart sibs 599 e, search_null_restart sibs 599 e⟩

/-- on a well-formed instance `GetNextAddress` touches device `i` only and keeps the instance well-formed: the new
address is 254 or a valid address no sibling uses -/
theorem C03_next_address_inst (x : Inst) (ok : LibOK x) (i : Nat) (restart : Bool) :
    LibOK (getNextAddress x i restart) ∧ Only i x (getNextAddress x i restart) :=
  getNextAddress_ok x ok i restart

/-! ## arbitration -/

/-- **C03_arbitration.** An open, well-formed instance receives a claim `(nm, src)` for a valid address that its
device `i` (NAME `d.name`) holds.
* own NAME lower: the device keeps `src` and one claim frame `(d.name, src)` is sent (re-claim);
* own NAME higher: the device moves to `r = GetNextAddress` (≠ `src`; 254 or a valid address no sibling uses),
  the change is latched, and one frame `(d.name, r)` is sent: the new claim, or cannot-claim when `r = 254`. -/
theorem C03_arbitration (x : Inst) (ok : LibOK x) (ho : x.s.openState = 3) (src nm i : Nat) (d : Dev)
    (hv : src ≤ 251) (hf : findSourceDev x.s.devs src = some i) (hd : x.s.devs[i]? = some d) :
    (d.name < nm →
      (handleClaim x src nm).s.devs.map (fun d => (d.name, d.source)) = x.s.devs.map (fun d => (d.name, d.source)) ∧
      (handleClaim x src nm).s.drv.sent = x.s.drv.sent ++ [frameOfClaim (d.name, src)]) ∧
    (nm < d.name →
      let r := (search false (siblings x.s.devs i) searchFuel d.source d.endSource).source
      r ≠ src ∧ (r = 254 ∨ (r ≤ 251 ∧ (siblings x.s.devs i).contains r = false)) ∧
      (∃ d', (handleClaim x src nm).s.devs[i]? = some d' ∧ d'.name = d.name ∧ d'.source = r) ∧
      (handleClaim x src nm).addressChanged = true ∧
      (handleClaim x src nm).s.drv.sent = x.s.drv.sent ++ [frameOfClaim (d.name, r)]) :=
  handleClaim_arbitration x ok ho src nm i d hv hf hd

/-! ## every own-address change is reported; the reported address is the transmitted one -/

/-- **C03_changed_reported.** In every step of a library instance on the bus — `ParseMessages` in any open state
with nothing or one item received (an address claim: lost arbitration or exhausted address space; a commanded
address), including the step in which it opens and restarts null addresses at 14, and `Restart()` — a device
whose address after the step differs from its address before has set the `AddressChanged` latch within that
step; the latch is only cleared by `ReadResetAddressChanged`. -/
theorem C03_changed_reported (x : Inst) (ok : LibOK x) (r : Option Rx) :
    Rep x (parse x r.toList) ∧ Rep x (restart x) ∧
    (readResetAddressChanged x).2 = x.addressChanged ∧ (readResetAddressChanged x).1.addressChanged = false ∧
    (readResetAddressChanged x).1.s = x.s :=
  ⟨rep_parse x ok r, rep_restart x ok, rfl, rfl, rfl⟩

/-- **C03_reported_is_used.** Whatever passes the gate of `SendMsg` for device `i` is stamped with that device's
current address (the value `GetN2kSource(i)` reports): the identifier is built from `d0.source`, and the device
entry the gate leaves behind still has that address. For the claim frame itself the receiver reads back exactly
`(NAME, source)`. -/
theorem C03_reported_is_used (s : St) (m : Msg) (i : Nat) (s1 : St) (d1 : Dev) (canId : Nat)
    (h : gate s m (some i) = .pass s1 d1 canId) :
    ∃ d0, s.devs[i]? = some d0 ∧ s1.devs[i]? = some d1 ∧ d1.source = d0.source ∧
      canId = n2kToCanId m.prio m.pgn d0.source (if m.pgn &&& 0xff ≠ 0 then 0xff else m.dst) := by
  obtain ⟨d0, p⟩ := gate_pass s m (some i) s1 d1 canId h
  have hd : s.devs[i]? = some d0 := by simpa using p.dev0
  have hlen := (List.getElem?_eq_some_iff.mp hd).1
  refine ⟨d0, hd, ?_, by rw [p.d1eq, isACS_source], by rw [p.id]; rfl⟩
  rw [p.s1eq]; simp [updDev, List.getElem?_set_self hlen]

theorem C03_claim_frame_reads_back (d : Dev) (hn : d.name < 2^64) (hs : d.source < 256) :
    libDecode (claimFrameL d) = some (d.name, d.source) ∧
    Iso.decodeClaim (claimFrameL d).id (claimFrameL d).len (claimFrameL d).data = some (d.name, d.source) := by
  rw [claimFrameL_eq d hs]
  exact ⟨libDecode_frameOfClaim d.name d.source hn hs, isoDecode_frameOfClaim d.name d.source hn hs⟩

/-! ## uniqueness at quiescence, for any number of nodes and every interleaving -/

/-- a bus on which nobody has an address yet satisfies the invariant -/
theorem inv_of_fresh (b : Bus) (h : ∀ i, i < b.n → claimants (b.node i).kind = []) : ClaimBus.Inv (absBus b) := by
  intro i j hi _ _ c hc
  simp only [absBus, h i hi] at hc; cases hc

/-- **C03_unique_at_quiescence.** Take any bus of `n` nodes satisfying the bus hypotheses `BusOK` and the invariant
"two nodes holding the same valid address have a claim of one of them pending at the other" (true in particular
when nobody is on the bus yet: `inv_of_fresh`). After ANY sequence of steps — deliveries in any interleaving,
polls, time advances, commanded addresses, restarts, late joiners — the hypotheses and the invariant still hold
(`run_inv`), so whenever all inboxes are empty no two claimants on different nodes share an address 0..251. -/
theorem C03_unique_at_quiescence (b0 : Bus) (ok : BusOK b0) (h0 : ClaimBus.Inv (absBus b0)) (evs : List Ev)
    (hq : quiescent (run b0 evs)) (i j : Nat) (hi : i < (run b0 evs).n) (hj : j < (run b0 evs).n) (hij : i ≠ j)
    (c c' : Iso.Claim) (hc : c ∈ claimants ((run b0 evs).node i).kind) (hc' : c' ∈ claimants ((run b0 evs).node j).kind)
    (ha : c.2 < 252) : c.2 ≠ c'.2 := by
  have h := run_inv evs b0 ok h0
  refine ClaimBus.unique_at_quiescence (absBus (run b0 evs)) h.2 (fun k hk => ?_) i j hi hj hij c c' hc hc' ha
  simp only [absBus, hq k hk, List.filterMap_nil]

/-- **siblings.** In every reachable state the devices of one library instance are well-formed and do not share a
valid address (with the fix for `C03:commanded-onto-sibling` this needs no extra hypothesis), and every address is
0..251 or 254. Together with `C03_unique_at_quiescence`: at quiescence every device owns an address nobody else
holds, or is at the null address. -/
theorem C03_siblings_distinct (b0 : Bus) (ok : BusOK b0) (h0 : ClaimBus.Inv (absBus b0)) (evs : List Ev)
    (k : Nat) (hk : k < (run b0 evs).n) (x : Inst) (hx : ((run b0 evs).node k).kind = .lib x) :
    SibOK x.s.devs ∧ ∀ d ∈ x.s.devs, d.source ≤ 251 ∨ d.source = 254 := by
  have h := (run_inv evs b0 ok h0).1.nodes k hk
  rw [hx] at h
  exact ⟨h.sibs, fun d hd => (h.devs d hd).2.1⟩

/-! ## progress -/

/-- **C03_converges_partial.** Progress measure of one device: as long as its end-of-search address is not moved
(it moves only after a claim stood for 250 ms, a commanded address, or a restart from null), every lost
arbitration either ends at 254 or strictly decreases `dist source endSource ≤ 251`; so a device changes address
at most 252 times before it gives up or holds an address for 250 ms. MISSING (not proved): that the n-node system
reaches a quiescent state at all (liveness under fair delivery); explored by the harness only. -/
theorem C03_converges_partial (x : Inst) (ok : LibOK x) (i : Nat) (d : Dev) (hd : x.s.devs[i]? = some d)
    (hs : d.source ≤ 251) :
    ∃ d', (getNextAddress x i false).s.devs[i]? = some d' ∧ d'.endSource = d.endSource ∧
      (d'.source = 254 ∨ dist d'.source d'.endSource < dist d.source d.endSource) ∧ dist d.source d.endSource ≤ 251 := by
  have dok := ok.dev hd
  have he := dok.2.2 hs
  have hdist : dist d.source d.endSource ≤ 251 := by unfold dist; omega
  have p := search_post false (siblings x.s.devs i) (dist d.source d.endSource) searchFuel d.source d.endSource hs he rfl
    (by unfold searchFuel; omega)
  have hlen := (List.getElem?_eq_some_iff.mp hd).1
  unfold getNextAddress
  simp only [hd, p.done, ↓reduceIte, List.getElem?_set_self hlen, Option.some.injEq, exists_eq_left']
  refine ⟨p.endSame, ?_, hdist⟩
  by_cases h254 : (search false (siblings x.s.devs i) searchFuel d.source d.endSource).source = 254
  · exact Or.inl h254
  · right; simp only [p.endSame]; exact p.progress hs he h254

/-- **C03_converges_two_nodes (liveness for the two-node contest; what this adds to `C03_converges_partial`).**
Bus of two claimants with distinct NAMEs on the concrete model: node 0 a one-device library instance (open,
well-formed, any timer state, NAME `n0`), node 1 a started ISO 11783-5 node `f0` with the higher NAME and any
next-address choice `nx` (only `nx f0 ≠ f0.addr`, `< 256`). Both hold the same valid address `a = f0.addr` and their
claims cross (each has the other's claim pending) — the state after simultaneous start-up on equal preferred addresses.
For EVERY schedule `evs` of deliveries (any interleaving, any number of idle deliveries at empty inboxes):
exactly `4 - k` deliveries found a pending frame, where `k ≤ 4` is the number still needed (`PhL`); no frame is ever
created beyond these four; as long as `k ≠ 0` some node has a pending frame (so a schedule in which every pending frame
is eventually delivered drives `k` to 0 after exactly 4 effective deliveries: the bound); and at `k = 0` the bus is
quiescent, the library device (lower NAME) holds `a` and the foreign node has moved to `nx f0 ≠ a`.
The mirror case (library with the higher NAME moves) is `C03_converges_two_nodes_lib_moves`. Not covered (still partial,
`C03_converges_partial`): more than two nodes, several devices per instance. Two library instances against each other:
`C03_converges_two_nodes_lib_lib`; with polls and clock advances interleaved: `C03_converges_two_nodes_timed` (library vs
library), `C03_converges_two_nodes_timed_lib_keeps` / `_timed_lib_moves` (library vs foreign node). -/
theorem C03_converges_two_nodes (b0 : Bus) (n0 : Nat) (f0 : Iso.Node) (nx : Iso.Node → Nat)
    (hlt : n0 < f0.name) (hn1 : f0.name < 2^64) (ha : f0.addr ≤ 251) (hnx : ∀ f, nx f < 256) (hne : nx f0 ≠ f0.addr)
    (hnext : b0.next = nx) (h0 : Two b0 n0 f0.addr f0 [(f0.name, f0.addr)] [(n0, f0.addr)]) (evs : List Nat) :
    ∃ k, k + eff b0 evs = 4 ∧ PhL n0 f0 nx k (run b0 (evs.map Ev.deliver)) ∧
      (k ≠ 0 → ∃ i, i < (run b0 (evs.map Ev.deliver)).n ∧ ((run b0 (evs.map Ev.deliver)).node i).inbox ≠ []) ∧
      (k = 0 → quiescent (run b0 (evs.map Ev.deliver)) ∧
        claimants ((run b0 (evs.map Ev.deliver)).node 0).kind = [(n0, f0.addr)] ∧
        claimants ((run b0 (evs.map Ev.deliver)).node 1).kind = [(f0.name, nx f0)]) := by
  obtain ⟨k, hp, he⟩ := converge_run (PhL n0 f0 nx) (fun k b i h => phL_step n0 f0 nx hlt hn1 ha hnx hne k b h i) evs 4 b0
    ⟨hnext, h0⟩
  refine ⟨k, he, hp, fun hk => ?_, fun hk => ?_⟩
  · obtain ⟨k', rfl⟩ : ∃ k', k = k' + 1 := ⟨k - 1, by omega⟩
    exact phL_pending hp
  · subst hk; exact phL_zero hp

/-- **C03_converges_two_nodes_lib_moves (the mirror case).** Same two-node bus and crossed claims as in
`C03_converges_two_nodes`, but the library device `d0` (NAME `n0`, end-of-search address `d0.endSource`) has the HIGHER
NAME. For every schedule of deliveries the same accounting holds (`k` + deliveries that found a pending frame = 4, no frame
beyond these four is created, some frame is pending while `k ≠ 0`). At `k = 0` the bus is quiescent, the foreign node
(lower NAME) still holds the contested address `a`, and the library device sits at `nxt a d0.endSource`: the next address
`(a+1) % 252` (251 wraps to 0; no sibling to skip) or 254 when `a` is its end-of-search address (search exhausted); the
change is latched for the application (`Chg`: `AddressChanged` is set and not yet read). -/
theorem C03_converges_two_nodes_lib_moves (b0 : Bus) (n0 : Nat) (f0 : Iso.Node) (x0 : Inst) (d0 : Dev) (nx : Iso.Node → Nat)
    (hgt : f0.name < n0) (hn1 : f0.name < 2^64) (ha : f0.addr ≤ 251) (hnx : ∀ f, nx f < 256)
    (hnext : b0.next = nx) (hx0 : (b0.node 0).kind = .lib x0) (hd0 : x0.s.devs = [d0])
    (h0 : Two b0 n0 f0.addr f0 [(f0.name, f0.addr)] [(n0, f0.addr)]) (evs : List Nat) :
    ∃ k, k + eff b0 evs = 4 ∧ PhH n0 f0 x0 d0.endSource nx k (run b0 (evs.map Ev.deliver)) ∧
      (k ≠ 0 → ∃ i, i < (run b0 (evs.map Ev.deliver)).n ∧ ((run b0 (evs.map Ev.deliver)).node i).inbox ≠ []) ∧
      (k = 0 → quiescent (run b0 (evs.map Ev.deliver)) ∧
        claimants ((run b0 (evs.map Ev.deliver)).node 0).kind = [(n0, nxt f0.addr d0.endSource)] ∧
        claimants ((run b0 (evs.map Ev.deliver)).node 1).kind = [(f0.name, f0.addr)] ∧
        nxt f0.addr d0.endSource ≠ f0.addr ∧ Chg (run b0 (evs.map Ev.deliver))) := by
  obtain ⟨k, hp, he⟩ := converge_run (PhH n0 f0 x0 d0.endSource nx)
    (fun k b i h => phH_step n0 f0 x0 d0 nx hgt hn1 ha hnx hd0 k b h i) evs 4 b0 ⟨hnext, h0, hx0⟩
  refine ⟨k, he, hp, fun hk => ?_, fun hk => ?_⟩
  · obtain ⟨k', rfl⟩ : ∃ k', k = k' + 1 := ⟨k - 1, by omega⟩
    exact phH_pending hp
  · subst hk
    obtain ⟨q, c0, c1, hc⟩ := phH_zero hp
    exact ⟨q, c0, c1, nxt_ne _ _ ha, hc⟩

/-- **C03_converges_two_nodes_lib_lib.** Two one-device library instances (open, well-formed, any timer states) with
distinct NAMEs `n0 < n1` hold the same valid address `a` with their claims crossed (node 0 = the lower NAME; the other
numbering is the same statement with the indices swapped). For every schedule of deliveries: `k` + deliveries that found a
pending frame = 4 (the constant), no further frame is created, some frame is pending while `k ≠ 0`; at `k = 0` the bus is
quiescent, the lower NAME is still at `a`, the other device (`d1`, the only device of `y0`) is at `nxt a d1.endSource`
(next address, 251→0 wrap, 254 when `a` is its end-of-search address) and its change is latched (`ChgAt … 1`). -/
theorem C03_converges_two_nodes_lib_lib (b0 : Bus) (n0 n1 a : Nat) (y0 : Inst) (d1 : Dev)
    (hlt : n0 < n1) (ha : a ≤ 251) (hn : b0.n = 2) (hy0 : (b0.node 1).kind = .lib y0) (hd1 : y0.s.devs = [d1])
    (h0 : Side b0 0 n0 a [(n1, a)]) (h1 : Side b0 1 n1 a [(n0, a)]) (evs : List Nat) :
    ∃ k, k + eff b0 evs = 4 ∧ PhLL n0 n1 a y0 d1.endSource k (run b0 (evs.map Ev.deliver)) ∧
      (k ≠ 0 → ∃ i, i < (run b0 (evs.map Ev.deliver)).n ∧ ((run b0 (evs.map Ev.deliver)).node i).inbox ≠ []) ∧
      (k = 0 → quiescent (run b0 (evs.map Ev.deliver)) ∧
        claimants ((run b0 (evs.map Ev.deliver)).node 0).kind = [(n0, a)] ∧
        claimants ((run b0 (evs.map Ev.deliver)).node 1).kind = [(n1, nxt a d1.endSource)] ∧
        nxt a d1.endSource ≠ a ∧ ChgAt (run b0 (evs.map Ev.deliver)) 1) := by
  obtain ⟨k, hp, he⟩ := converge_run (PhLL n0 n1 a y0 d1.endSource)
    (fun k b i h => phLL_step n0 n1 a y0 d1 hlt ha hd1 k b h i) evs 4 b0 ⟨hn, h0, h1, hy0⟩
  refine ⟨k, he, hp, fun hk => ?_, fun hk => ?_⟩
  · obtain ⟨k', rfl⟩ : ∃ k', k = k' + 1 := ⟨k - 1, by omega⟩
    exact phLL_pending hp
  · subst hk
    obtain ⟨q, c0, c1, hc⟩ := phLL_zero hp
    exact ⟨q, c0, c1, nxt_ne _ _ ha, hc⟩

/-- **C03_converges_two_nodes_timed.** The library-vs-library contest of `C03_converges_two_nodes_lib_lib` under schedules
that interleave deliveries with POLLS of either node (`ParseMessages` with nothing to read: the heartbeat pass lets an
expired claim timer run out) and CLOCK ADVANCES by any amount (`Sch`). Polls and clock advances create no frame and move no
address; the only thing they can change for the contest is the loser's end-of-search address: a claim timer that expires
before the device loses sets it to the address before `a` (`updEnd a`). So the accounting is unchanged — `k` + effective
deliveries = 4 for every such schedule, a frame is pending while `k ≠ 0` — and at `k = 0` the bus is quiescent, the lower
NAME holds `a`, the other device is at `r ≠ a` with `r = nxt a e0` (end-of-search address `e0` it started with) or
`r = nxt a (updEnd a) = (a+1) % 252` (timer expired first), and its change is latched. `EndIn` is the hypothesis that node 1
has one device with end-of-search address `e0`. -/
theorem C03_converges_two_nodes_timed (b0 : Bus) (n0 n1 a e0 : Nat) (y0 : Inst) (d1 : Dev)
    (hlt : n0 < n1) (ha : a ≤ 251) (hn : b0.n = 2) (hy0 : (b0.node 1).kind = .lib y0) (hd1 : y0.s.devs = [d1])
    (he0 : d1.endSource = e0) (h0 : Side b0 0 n0 a [(n1, a)]) (h1 : Side b0 1 n1 a [(n0, a)]) (evs : List Sch) :
    ∃ k, k + effS b0 evs = 4 ∧ PhT n0 n1 a e0 k (run b0 (evs.map Sch.toEv)) ∧
      (k ≠ 0 → ∃ i, i < (run b0 (evs.map Sch.toEv)).n ∧ ((run b0 (evs.map Sch.toEv)).node i).inbox ≠ []) ∧
      (k = 0 → quiescent (run b0 (evs.map Sch.toEv)) ∧
        claimants ((run b0 (evs.map Sch.toEv)).node 0).kind = [(n0, a)] ∧
        (∃ r, R a e0 r ∧ r ≠ a ∧ claimants ((run b0 (evs.map Sch.toEv)).node 1).kind = [(n1, r)]) ∧
        ChgAt (run b0 (evs.map Sch.toEv)) 1) := by
  obtain ⟨k, hp, he⟩ := converge_runS (PhT n0 n1 a e0) (fun k b ev h => phT_step n0 n1 a e0 hlt ha k b h ev) evs 4 b0
    ⟨hn, h0, h1, y0, d1, hy0, hd1, Or.inl he0⟩
  refine ⟨k, he, hp, fun hk => ?_, fun hk => ?_⟩
  · obtain ⟨k', rfl⟩ : ∃ k', k = k' + 1 := ⟨k - 1, by omega⟩
    exact phT_pending hp
  · subst hk; exact phT_zero ha hp

/-- **C03_converges_two_nodes_timed_lib_keeps.** `C03_converges_two_nodes` (library device with the lower NAME against a
foreign node) for schedules of deliveries, polls of either node and clock advances by any amount: polls and advances keep
every phase (they send nothing and move nothing; the library's claim timer may expire, which is irrelevant for a device that
keeps its address; a started foreign node ignores a poll), so `k` + effective deliveries = 4 and the end state are the same. -/
theorem C03_converges_two_nodes_timed_lib_keeps (b0 : Bus) (n0 : Nat) (f0 : Iso.Node) (nx : Iso.Node → Nat)
    (hlt : n0 < f0.name) (hn1 : f0.name < 2^64) (ha : f0.addr ≤ 251) (hnx : ∀ f, nx f < 256) (hne : nx f0 ≠ f0.addr)
    (hnext : b0.next = nx) (h0 : Two b0 n0 f0.addr f0 [(f0.name, f0.addr)] [(n0, f0.addr)]) (evs : List Sch) :
    ∃ k, k + effS b0 evs = 4 ∧ PhL n0 f0 nx k (run b0 (evs.map Sch.toEv)) ∧
      (k ≠ 0 → ∃ i, i < (run b0 (evs.map Sch.toEv)).n ∧ ((run b0 (evs.map Sch.toEv)).node i).inbox ≠ []) ∧
      (k = 0 → quiescent (run b0 (evs.map Sch.toEv)) ∧
        claimants ((run b0 (evs.map Sch.toEv)).node 0).kind = [(n0, f0.addr)] ∧
        claimants ((run b0 (evs.map Sch.toEv)).node 1).kind = [(f0.name, nx f0)]) := by
  obtain ⟨k, hp, he⟩ := converge_runS (PhL n0 f0 nx) (fun k b ev h => phL_stepS n0 f0 nx hlt hn1 ha hnx hne k b h ev) evs 4 b0
    ⟨hnext, h0⟩
  refine ⟨k, he, hp, fun hk => ?_, fun hk => ?_⟩
  · obtain ⟨k', rfl⟩ : ∃ k', k = k' + 1 := ⟨k - 1, by omega⟩
    exact phL_pending hp
  · subst hk; exact phL_zero hp

/-- **C03_converges_two_nodes_timed_lib_moves.** The mirror case `C03_converges_two_nodes_lib_moves` for schedules of
deliveries, polls of either node and clock advances. As in `C03_converges_two_nodes_timed`, a poll can let the library
device's claim timer run out before it loses, which moves its end-of-search address from `e0` to `updEnd a`; so at `k = 0`
(after exactly 4 effective deliveries) the foreign node holds `a`, the library device is at `r ≠ a` with `r = nxt a e0` or
`r = nxt a (updEnd a) = (a+1) % 252`, and the change is latched. -/
theorem C03_converges_two_nodes_timed_lib_moves (b0 : Bus) (n0 e0 : Nat) (f0 : Iso.Node) (x0 : Inst) (d0 : Dev) (nx : Iso.Node → Nat)
    (hgt : f0.name < n0) (hn1 : f0.name < 2^64) (ha : f0.addr ≤ 251) (hnx : ∀ f, nx f < 256)
    (hnext : b0.next = nx) (hx0 : (b0.node 0).kind = .lib x0) (hd0 : x0.s.devs = [d0]) (he0 : d0.endSource = e0)
    (h0 : Two b0 n0 f0.addr f0 [(f0.name, f0.addr)] [(n0, f0.addr)]) (evs : List Sch) :
    ∃ k, k + effS b0 evs = 4 ∧ PhHt n0 f0 e0 nx k (run b0 (evs.map Sch.toEv)) ∧
      (k ≠ 0 → ∃ i, i < (run b0 (evs.map Sch.toEv)).n ∧ ((run b0 (evs.map Sch.toEv)).node i).inbox ≠ []) ∧
      (k = 0 → quiescent (run b0 (evs.map Sch.toEv)) ∧
        (∃ r, R f0.addr e0 r ∧ r ≠ f0.addr ∧ claimants ((run b0 (evs.map Sch.toEv)).node 0).kind = [(n0, r)]) ∧
        claimants ((run b0 (evs.map Sch.toEv)).node 1).kind = [(f0.name, f0.addr)] ∧ Chg (run b0 (evs.map Sch.toEv))) := by
  obtain ⟨k, hp, he⟩ := converge_runS (PhHt n0 f0 e0 nx) (fun k b ev h => phHt_stepS n0 f0 e0 nx hgt hn1 ha hnx k b h ev) evs 4 b0
    ⟨hnext, h0, x0, d0, hx0, hd0, Or.inl he0⟩
  refine ⟨k, he, hp, fun hk => ?_, fun hk => ?_⟩
  · obtain ⟨k', rfl⟩ : ∃ k', k = k' + 1 := ⟨k - 1, by omega⟩
    exact phHt_pending hp
  · subst hk; exact phHt_zero ha hp

/-! ## the receive slots in front of the claim handler; a device without an address stays silent -/

open N2k.ClaimRx in
/-- **C03_claim_not_lost.** The bus theorems assume that a delivered claim frame reaches `HandleISOAddressClaim`.
In the library it first needs a receive slot. If `FindFreeCANMsgIndex` finds one — a slot is free, or the oldest
unfinished message is at least 100 ms old *modulo 2^32* (`Rx.findFree`, the C02 model, across the clock wrap too) —
`ParseMessages` handles the claim exactly as `Claim.parse` does. -/
theorem C03_claim_not_lost (n : Node) (f : Frame) (hp : (rawOf f).pgn = 60928) (hlen : f.len ≤ 8)
    (hslot : Rx.findFree n.rx n.inst.s.now (rawOf f) < n.rx.N) :
    (parseFrame n f).inst = parse n.inst [.frame f] := by
  unfold parseFrame
  by_cases hr : readsBus n.inst = true
  · rw [if_pos hr]
    have h := (rx_claim n.rx n.inst.s.now (rawOf f) hp (rawOf_wf f hlen)).1 hslot
    cases hres : (Rx.rx cfg n.rx n.inst.s.now (rawOf f)).2 with
    | none => rw [hres] at h; cases h
    | some m => simp only [hres]
  · rw [if_neg hr]
    have hr' : readsBus n.inst = false := by simpa using hr
    exact (parse_not_reading n.inst hr' _).symm

open N2k.ClaimRx in
/-- **C03_claim_lost_without_slot.** The hypothesis of `C03_claim_not_lost` is needed: when `FindFreeCANMsgIndex`
finds no slot (every receive slot holds an unfinished message younger than 100 ms) the claim frame is dropped, the
instance behaves as if nothing had been received and the receive slots are unchanged. Five concurrent unfinished
fast-packet talkers are outside the property's quantifier (buses of claimants) and beyond the slot count C02 demands
delivery for: an observation, not a finding (replay in `notes/C03_rx_slots_busy_observation.md`). -/
theorem C03_claim_lost_without_slot (n : Node) (f : Frame) (hp : (rawOf f).pgn = 60928) (hlen : f.len ≤ 8)
    (hno : ¬ Rx.findFree n.rx n.inst.s.now (rawOf f) < n.rx.N) :
    (parseFrame n f).inst = parse n.inst [] ∧ (parseFrame n f).rx = n.rx := by
  unfold parseFrame
  by_cases hr : readsBus n.inst = true
  · rw [if_pos hr, (rx_claim n.rx n.inst.s.now (rawOf f) hp (rawOf_wf f hlen)).2 hno]
    exact ⟨rfl, rfl⟩
  · rw [if_neg hr]; exact ⟨rfl, rfl⟩

open N2k.ClaimRx in
/-- the same for a commanded address: if the TP.CM (BAM/RTS) frame gets a session slot, the reassembled message is
handled exactly as `Claim.parse` handles it -/
theorem C03_commanded_not_lost (n : Node) (dst nm a : Nat) (hr : readsBus n.inst = true)
    (hslot : Rx.findFirst (Rx.rx cfg n.rx n.inst.s.now (cmdOpenFrame dst)).1 (Rx.tpMatchP 65240 toolAddr dst)
        (Rx.rx cfg n.rx n.inst.s.now (cmdOpenFrame dst)).1.N 0 < (Rx.rx cfg n.rx n.inst.s.now (cmdOpenFrame dst)).1.N) :
    (parseCmd n dst nm a).inst = parse n.inst [.cmd dst nm a] := by
  unfold parseCmd
  simp only [hr, ↓reduceIte, hslot]

/-- **C03_null_address_silent.** A device that could not claim an address (any address above 251) transmits nothing
but address claims, whatever source the application left in the message: the application's `SendMsg` of any other
PGN returns false and hands nothing to the driver or the send queue. -/
theorem C03_null_address_silent (x : Inst) (ho : x.s.openState = 3) (m : Msg) (i : Nat) (d0 : Dev)
    (hd : x.s.devs[i]? = some d0) (hsrc : d0.source > 251) (hp : m.pgn ≠ 60928) :
    (ClaimRx.appSend x m (some i)).2 = false ∧ (ClaimRx.appSend x m (some i)).1.s.drv = x.s.drv ∧
    (ClaimRx.appSend x m (some i)).1.s.ring = x.s.ring := by
  unfold ClaimRx.appSend
  simp only [ho, ↓reduceIte]
  exact ClaimRx.null_address_silent x.s m i d0 hd hsrc hp

/-! ## non-vacuity: a concrete bus satisfying the hypotheses, and a contested run -/

def demoLib (src name : Nat) : BNode := ⟨.lib (mkInst .t32 4294967000 1 40 [(src, name)]), []⟩
def demoBus : Bus :=
  { n := 3, node := fun i => if i = 0 then demoLib 251 0xC032820000000300 else if i = 1 then demoLib 251 0xC032820000000200
                             else ⟨.foreign ⟨0x1000, 0, true, 255, false⟩, []⟩ }

theorem demoLib_ok (src name : Nat) (hs : src ≤ 251) (hn : name < 2^64) :
    LibOK (mkInst .t32 4294967000 1 40 [(src, name)]) := by
  have hfp : isFastPacketPGN {} 60928 = false := by decide
  refine ⟨⟨rfl, rfl, rfl, rfl, rfl, hfp⟩, ?_, ?_⟩
  · intro d hd
    simp only [mkInst, List.map_cons, List.map_nil, List.mem_singleton] at hd
    subst hd
    exact ⟨hn, Or.inl hs, fun _ => updEnd_le src hs⟩
  · intro i j di dj hij hi hj _
    simp only [mkInst, List.map_cons, List.map_nil] at hi hj
    have h1 : i = 0 := by
      rcases i with _ | i
      · rfl
      · simp at hi
    have h2 : j = 0 := by
      rcases j with _ | j
      · rfl
      · simp at hj
    omega

theorem demoBus_ok : BusOK demoBus := by
  refine ⟨fun i _ => ?_, fun n => ?_⟩
  · unfold demoBus
    by_cases h0 : i = 0
    · simp only [h0, ↓reduceIte]; exact demoLib_ok 251 _ (by omega) (by omega)
    · by_cases h1 : i = 1
      · simp only [h1, ↓reduceIte]; exact demoLib_ok 251 _ (by omega) (by omega)
      · simp only [h0, h1, ↓reduceIte]
        show (0x1000 : Nat) < 2^64 ∧ (255 : Nat) < 256 ∧ (0 : Nat) < 256
        omega
  · show Iso.nextAddr n < 256
    unfold Iso.nextAddr Iso.nullAddr Iso.maxAddr
    simp only []
    repeat' split
    all_goals omega

theorem demoBus_fresh : ClaimBus.Inv (absBus demoBus) := by
  refine inv_of_fresh demoBus (fun i _ => ?_)
  unfold demoBus
  by_cases h0 : i = 0
  · simp [h0, demoLib, claimants, mkInst]
  · by_cases h1 : i = 1
    · simp [h1, demoLib, claimants, mkInst]
    · simp [h0, h1, claimants]

/-- two library instances that both prefer 251 (clock 300 ms before the 32-bit wrap) and a foreign node at 0:
the higher NAME loses 251, wraps to 0, loses 0 to the foreign node's lower NAME and ends at 1 -/
def demoEvs : List Ev :=
  [.adv 1, .poll 0, .poll 1, .poll 2, .adv 201, .poll 0, .poll 1, .deliver 0, .deliver 2, .deliver 2, .deliver 2,
   .deliver 1, .deliver 1, .deliver 0, .deliver 1, .deliver 2, .deliver 0, .deliver 1]

theorem demo_quiescent : quiescent (run demoBus demoEvs) := by
  have : ∀ i, i < 3 → ((run demoBus demoEvs).node i).inbox = [] := by decide
  exact this

example : claimants ((run demoBus demoEvs).node 0).kind = [(0xC032820000000300, 1)] ∧
    claimants ((run demoBus demoEvs).node 1).kind = [(0xC032820000000200, 251)] ∧
    claimants ((run demoBus demoEvs).node 2).kind = [(0x1000, 0)] := by decide

/-- the hypotheses of `C03_unique_at_quiescence` are satisfiable with a contested, non-trivial run -/
example (c c' : Iso.Claim) (hc : c ∈ claimants ((run demoBus demoEvs).node 0).kind)
    (hc' : c' ∈ claimants ((run demoBus demoEvs).node 1).kind) (ha : c.2 < 252) : c.2 ≠ c'.2 :=
  C03_unique_at_quiescence demoBus demoBus_ok demoBus_fresh demoEvs demo_quiescent 0 1 (by decide) (by decide)
    (by decide) c c' hc hc' ha

/-- hypotheses of `C03_arbitration`, `C03_changed_reported`, `C03_converges_partial`: an open well-formed instance -/
def demoOpen : Inst := { mkInst .t64 1000 2 40 [(251, 0x300), (0, 0x200)] with s := { (mkInst .t64 1000 2 40 [(251, 0x300), (0, 0x200)]).s with openState := 3 } }
example : findSourceDev demoOpen.s.devs 251 = some 0 ∧ demoOpen.s.openState = 3 := by decide
example : ((handleClaim demoOpen 251 0x100).s.devs.map (·.source), (handleClaim demoOpen 251 0x100).addressChanged) = ([1, 0], true) := by
  decide

/-- witness that the slot hypothesis is needed (`C03_claim_lost_when_slots_busy`): five talkers started a fast-packet message 10 ms ago; the lower NAME
0x100 claims 251, which device 0 (NAME 0x300) holds: the claim is dropped, the device keeps 251 and says nothing;
with one slot free the same claim makes it move on to 1 -/
def busySlot : Rx.Slot := ⟨false, 129029, 40, 255, 3, false, 0, 43, [1, 2, 3, 4, 5, 6], 990, []⟩
def demoBusy : ClaimRx.Node := ⟨demoOpen, ⟨5, fun _ => busySlot⟩⟩
def demoOneFree : ClaimRx.Node := ⟨demoOpen, ⟨5, fun i => if i = 3 then Rx.emptySlot else busySlot⟩⟩

theorem C03_claim_lost_when_slots_busy :
    ¬ Rx.findFree demoBusy.rx demoBusy.inst.s.now (ClaimRx.rawOf (frameOfClaim (0x100, 251))) < demoBusy.rx.N ∧
    ((ClaimRx.stepFrame demoBusy (frameOfClaim (0x100, 251))).1.inst.s.devs.map (·.source),
     (ClaimRx.stepFrame demoBusy (frameOfClaim (0x100, 251))).2) = ([251, 0], []) ∧
    (ClaimRx.stepFrame demoOneFree (frameOfClaim (0x100, 251))).1.inst.s.devs.map (·.source) = [1, 0] := by decide

/-- hypotheses of `C03_claim_not_lost` are satisfiable: one slot free; and all slots taken but the oldest message
stamped 2 s before the 32-bit wrap, the claim arriving after it (recyclable modulo 2^32) -/
example : Rx.findFree demoOneFree.rx demoOneFree.inst.s.now (ClaimRx.rawOf (frameOfClaim (0x100, 251))) < demoOneFree.rx.N := by
  decide
def staleSlot : Rx.Slot := { busySlot with msgTime := 4294965296 }
def demoWrap : ClaimRx.Node :=
  ⟨{ demoOpen with s := { demoOpen.s with now := 4294967296 + 500 } }, ⟨5, fun _ => staleSlot⟩⟩
example : Rx.findFree demoWrap.rx demoWrap.inst.s.now (ClaimRx.rawOf (frameOfClaim (0x100, 251))) < demoWrap.rx.N ∧
    (ClaimRx.stepFrame demoWrap (frameOfClaim (0x100, 251))).1.inst.s.devs.map (·.source) = [1, 0] := by decide

/-- witness for `C03_null_address_silent`: device 0 at 254, the caller's message carries source 15 -/
def demoNull : Inst := { demoOpen with s := { demoOpen.s with devs := demoOpen.s.devs.set 0 (mkDev .t64 254 0x300) } }
example : (ClaimRx.appSend demoNull { prio := 2, pgn := 127488, src := 15, dst := 255, len := 8, data := [1,2,3,4,5,6,7,8] } (some 0)).2 = false := by
  decide

/-- hypotheses of `C03_converges_two_nodes` are satisfiable: library NAME 0x300 and foreign NAME 0x400 both at 251,
claims crossed -/
def demoX : Inst := { mkInst .t32 4294967000 1 40 [(251, 0x300)] with
  s := { (mkInst .t32 4294967000 1 40 [(251, 0x300)]).s with openState := 3 } }
def demoF : Iso.Node := ⟨0x400, 251, true, 251, true⟩
def demoTwo : Bus :=
  { n := 2, node := fun i => if i = 0 then ⟨.lib demoX, [frameOfClaim (0x400, 251)]⟩ else ⟨.foreign demoF, [frameOfClaim (0x300, 251)]⟩ }
example : Two demoTwo 0x300 demoF.addr demoF [(demoF.name, demoF.addr)] [(0x300, demoF.addr)] ∧ (0x300 : Nat) < demoF.name ∧
    Iso.nextAddr demoF ≠ demoF.addr := by
  refine ⟨⟨rfl, ⟨demoX, rfl, libOK_of_fields _ _ (demoLib_ok 251 0x300 (by omega) (by omega)) rfl rfl rfl rfl rfl rfl rfl, rfl, rfl⟩,
    rfl, rfl, rfl, rfl, ?_, ?_⟩, by decide, by decide⟩
  · intro c hc; simp at hc; subst hc; exact ⟨by decide, by decide⟩
  · intro c hc; simp at hc; subst hc; exact ⟨by decide, by decide⟩

/-- hypotheses of `C03_converges_two_nodes_lib_moves` are satisfiable: library NAME 0x300 against the foreign NAME 0x200,
both at 251 with crossed claims; the device will wrap to 0 (its end-of-search address is 250) -/
def demoFlow : Iso.Node := ⟨0x200, 251, true, 251, true⟩
def demoTwoH : Bus :=
  { n := 2, node := fun i => if i = 0 then ⟨.lib demoX, [frameOfClaim (0x200, 251)]⟩ else ⟨.foreign demoFlow, [frameOfClaim (0x300, 251)]⟩ }
example : Two demoTwoH 0x300 demoFlow.addr demoFlow [(demoFlow.name, demoFlow.addr)] [(0x300, demoFlow.addr)] ∧
    demoFlow.name < (0x300 : Nat) ∧ (demoTwoH.node 0).kind = .lib demoX ∧ demoX.s.devs = [mkDev .t32 251 0x300] ∧
    nxt demoFlow.addr (mkDev .t32 251 0x300).endSource = 0 := by
  refine ⟨⟨rfl, ⟨demoX, rfl, libOK_of_fields _ _ (demoLib_ok 251 0x300 (by omega) (by omega)) rfl rfl rfl rfl rfl rfl rfl, rfl, rfl⟩,
    rfl, rfl, rfl, rfl, ?_, ?_⟩, by decide, rfl, rfl, by decide⟩
  · intro c hc; simp at hc; subst hc; exact ⟨by decide, by decide⟩
  · intro c hc; simp at hc; subst hc; exact ⟨by decide, by decide⟩

/-- hypotheses of `C03_converges_two_nodes_lib_lib` are satisfiable: two instances (NAMEs 0x200 < 0x300) at 251, claims crossed -/
def demoY : Inst := { mkInst .t32 4294967000 1 40 [(251, 0x200)] with
  s := { (mkInst .t32 4294967000 1 40 [(251, 0x200)]).s with openState := 3 } }
def demoLL : Bus :=
  { n := 2, node := fun i => if i = 0 then ⟨.lib demoY, [frameOfClaim (0x300, 251)]⟩ else ⟨.lib demoX, [frameOfClaim (0x200, 251)]⟩ }
example : Side demoLL 0 0x200 251 [(0x300, 251)] ∧ Side demoLL 1 0x300 251 [(0x200, 251)] ∧ (demoLL.node 1).kind = .lib demoX ∧
    demoX.s.devs = [mkDev .t32 251 0x300] := by
  refine ⟨⟨⟨demoY, rfl, libOK_of_fields _ _ (demoLib_ok 251 0x200 (by omega) (by omega)) rfl rfl rfl rfl rfl rfl rfl, rfl, rfl⟩, rfl, ?_⟩,
    ⟨⟨demoX, rfl, libOK_of_fields _ _ (demoLib_ok 251 0x300 (by omega) (by omega)) rfl rfl rfl rfl rfl rfl rfl, rfl, rfl⟩, rfl, ?_⟩, rfl, rfl⟩
  · intro c hc; simp at hc; subst hc; exact ⟨by decide, by decide⟩
  · intro c hc; simp at hc; subst hc; exact ⟨by decide, by decide⟩

/-- `C03_converges_two_nodes_timed` on the concrete bus `demoLL` (hypotheses shown satisfiable above): a schedule with
deliveries, polls and a 300 ms clock advance in the middle of the contest -/
def demoSch : List Sch := [.deliver 0, .adv 300, .poll 1, .deliver 1, .poll 0, .deliver 0, .adv 5, .deliver 1]
example : ((run demoLL (demoSch.map Sch.toEv)).node 1).inbox = [] ∧
    claimants ((run demoLL (demoSch.map Sch.toEv)).node 1).kind = [(0x300, 0)] := by decide

/-- the timed library-vs-foreign theorems on the concrete buses `demoTwo` / `demoTwoH` (hypotheses shown satisfiable above):
schedules with polls and a 300 ms clock advance in the middle of the contest -/
def demoSch2 : List Sch := [.deliver 1, .adv 300, .poll 0, .poll 1, .deliver 0, .deliver 0, .adv 7, .deliver 1]
example : claimants ((run demoTwo (demoSch2.map Sch.toEv)).node 0).kind = [(0x300, 251)] ∧
    claimants ((run demoTwo (demoSch2.map Sch.toEv)).node 1).kind = [(0x400, 0)] ∧
    claimants ((run demoTwoH (demoSch2.map Sch.toEv)).node 0).kind = [(0x300, 0)] ∧
    claimants ((run demoTwoH (demoSch2.map Sch.toEv)).node 1).kind = [(0x200, 251)] := by decide

end N2k.C03
