import N2k.Basic.Win
import N2k.Model.Send
/-! Send-queue ring (`SendFrames` / `SendFrame` / `GetNextFreeCANSendFrame`): abstraction to a list and
the one-step invariant "driver-accepted ++ queued = previous ++ [f if success]". -/
namespace N2k.Send
open Win

def Ring.WF (r : Ring) : Prop := 2 ≤ r.n ∧ r.read < r.n ∧ r.write < r.n

/-- queued frames, oldest first: slots read+1 … write in ring order -/
def Ring.abs (r : Ring) : List Frame :=
  (List.range r.cnt).map fun i => r.buf ((r.read + 1 + i) % r.n)

def Frame.WF (f : Frame) : Prop := f.len ≤ 8 ∧ f.data.length = f.len

theorem clampFrame_id (f : Frame) (h : f.WF) : clampFrame f = f := by
  obtain ⟨h1, h2⟩ := h
  cases f with
  | mk id len data =>
    simp only [clampFrame, Frame.mk.injEq, true_and]
    simp only at h1 h2
    refine ⟨by omega, ?_⟩
    rw [Nat.min_eq_left h1, ← h2, List.take_length]

theorem Drv.send_true (d : Drv) (f : Frame) (h : (d.send f).2 = true) :
    (d.send f).1.sent = d.sent ++ [f] := by
  unfold Drv.send at h ⊢
  cases hs : d.script with
  | nil =>
    rw [hs] at h
    by_cases hd : d.dflt = true
    · simp [hd]
    · simp [hd] at h
  | cons a t =>
    rw [hs] at h
    cases a
    · simp at h
    · simp

theorem Drv.send_false (d : Drv) (f : Frame) (h : (d.send f).2 = false) :
    (d.send f).1.sent = d.sent := by
  unfold Drv.send at h ⊢
  cases hs : d.script with
  | nil =>
    rw [hs] at h
    by_cases hd : d.dflt = true
    · simp [hd] at h
    · simp [hd]
  | cons a t =>
    rw [hs] at h
    cases a
    · simp
    · simp at h

theorem Ring.cnt_eq_win (r : Ring) : r.cnt = Win.cnt r.n r.read r.write := rfl

theorem cnt_zero_iff' (r : Ring) (h : r.WF) : r.cnt = 0 ↔ r.read = r.write :=
  Win.cnt_zero_iff (by have := h.1; omega) h.2.1 h.2.2

theorem abs_nil_of_eq (r : Ring) (h : r.WF) (he : r.read = r.write) : r.abs = [] := by
  have := (cnt_zero_iff' r h).mpr he
  simp [Ring.abs, this]

theorem abs_dequeue (r : Ring) (h : r.WF) (hne : r.read ≠ r.write) :
    r.abs = r.buf ((r.read + 1) % r.n) :: ({ r with read := (r.read + 1) % r.n } : Ring).abs := by
  obtain ⟨h1, h2, h3⟩ := h
  have hn : 0 < r.n := by omega
  have ht' : (r.read + 1) % r.n < r.n := Nat.mod_lt _ hn
  have hc : r.cnt = ({ r with read := (r.read + 1) % r.n } : Ring).cnt + 1 := by
    show Win.cnt r.n r.read r.write = Win.cnt r.n ((r.read + 1) % r.n) r.write + 1
    have hs := succ_mod h2
    generalize (r.read + 1) % r.n = x at ht' hs ⊢
    rcases cnt_spec hn h2 h3 with ⟨a, b⟩ | ⟨a, b⟩ <;>
      rcases cnt_spec hn ht' h3 with ⟨c, d⟩ | ⟨c, d⟩ <;>
      rcases hs with ⟨e, f⟩ | ⟨e, f⟩ <;> omega
  unfold Ring.abs
  rw [hc, List.range_succ_eq_map, List.map_cons, List.map_map]
  congr 1
  apply List.map_congr_left
  intro i _
  simp only [Function.comp, Nat.succ_eq_add_one]
  congr 1
  rw [Nat.add_mod ((r.read + 1) % r.n + 1) i, Nat.add_mod ((r.read + 1) % r.n) 1, Nat.mod_mod,
      ← Nat.add_mod (r.read + 1) 1, ← Nat.add_mod]
  congr 1; omega

def Ring.push (r : Ring) (f : Frame) : Ring :=
  { r with write := (r.write + 1) % r.n, buf := fun i => if i = (r.write + 1) % r.n then f else r.buf i }

theorem enqueue_eq (r : Ring) (h : r.WF) (f : Frame) :
    enqueue r f = if (r.write + 1) % r.n ≠ r.read then some (r.push f) else none := by
  have : r.n ≠ 0 := by have := h.1; omega
  simp [enqueue, this, Ring.push]

theorem abs_push (r : Ring) (h : r.WF) (f : Frame) (hne : (r.write + 1) % r.n ≠ r.read) :
    (r.push f).WF ∧ (r.push f).abs = r.abs ++ [f] := by
  have hwf := h
  obtain ⟨h1, h2, h3⟩ := h
  have hn : 0 < r.n := by omega
  have hwf' : (r.push f).WF := ⟨h1, h2, Nat.mod_lt _ hn⟩
  refine ⟨hwf', ?_⟩
  have b := cnt_spec hn h2 h3
  have c := succ_mod h3
  have hc : (r.push f).cnt = r.cnt + 1 := by
    have a := cnt_spec hn hwf'.2.1 hwf'.2.2
    show Win.cnt _ _ _ = Win.cnt _ _ _ + 1
    simp only [Ring.push] at a ⊢
    generalize (r.write + 1) % r.n = x at a c hne ⊢
    rcases a with ⟨a1, a2⟩ | ⟨a1, a2⟩ <;> rcases b with ⟨b1, b2⟩ | ⟨b1, b2⟩ <;>
      rcases c with ⟨c1, c2⟩ | ⟨c1, c2⟩ <;> omega
  unfold Ring.abs
  rw [hc, List.range_succ, List.map_append, List.map_cons, List.map_nil]
  have hlt : r.cnt < r.n := Win.cnt_lt hn
  have b' : (r.read ≤ r.write ∧ r.cnt = r.write - r.read) ∨ (r.write < r.read ∧ r.cnt = r.write + r.n - r.read) := b
  congr 1
  · apply List.map_congr_left
    intro i hi
    have hi' : i < r.cnt := List.mem_range.mp hi
    have hidx : (r.read + 1 + i) % r.n ≠ (r.write + 1) % r.n := by
      have m := @mod_wrap (r.read + 1 + i) r.n (by omega)
      rcases b' with ⟨b1, b2⟩ | ⟨b1, b2⟩ <;> rcases c with ⟨c1, c2⟩ | ⟨c1, c2⟩ <;>
        rcases m with ⟨m1, m2⟩ | ⟨m1, m2⟩ <;> rw [c2] at hne ⊢ <;> rw [m2] <;> omega
    simp [Ring.push, hidx]
  · have hidx : (r.read + 1 + r.cnt) % r.n = (r.write + 1) % r.n := by
      have m := @mod_wrap (r.read + 1 + r.cnt) r.n (by omega)
      rcases b' with ⟨b1, b2⟩ | ⟨b1, b2⟩ <;> rcases c with ⟨c1, c2⟩ | ⟨c1, c2⟩ <;>
        rcases m with ⟨m1, m2⟩ | ⟨m1, m2⟩ <;> rw [c2] at hne ⊢ <;> rw [m2] <;> omega
    simp [Ring.push, hidx]

theorem flush_inv : ∀ (fuel : Nat) (r : Ring) (d : Drv), r.WF → r.cnt ≤ fuel →
    let res := sendFramesAux fuel r d
    res.1.WF ∧ d.sent ++ r.abs = res.2.1.sent ++ res.1.abs ∧ (res.2.2 = true → res.1.abs = []) ∧
    res.1.n = r.n := by
  intro fuel
  induction fuel with
  | zero =>
    intro r d h hc
    have : r.cnt = 0 := by omega
    have he := (cnt_zero_iff' r h).mp this
    simp [sendFramesAux, h, abs_nil_of_eq r h he]
  | succ k ih =>
    intro r d h hc
    unfold sendFramesAux
    by_cases he : r.read = r.write
    · simp [he, h, abs_nil_of_eq r h he]
    · simp only [he, ↓reduceIte]
      have hd := abs_dequeue r h he
      have hwf' : ({ r with read := (r.read + 1) % r.n } : Ring).WF :=
        ⟨h.1, Nat.mod_lt _ (by have := h.1; omega), h.2.2⟩
      generalize hsd : d.send (r.buf ((r.read + 1) % r.n)) = sd
      obtain ⟨d', b⟩ := sd
      cases b
      · have hsent := Drv.send_false d _ (by rw [hsd])
        rw [hsd] at hsent
        simp only at hsent ⊢
        simp [h, hsent]
      · have hsent := Drv.send_true d _ (by rw [hsd])
        rw [hsd] at hsent
        simp only at hsent
        have hc' : ({ r with read := (r.read + 1) % r.n } : Ring).cnt ≤ k := by
          have : r.cnt = ({ r with read := (r.read + 1) % r.n } : Ring).cnt + 1 := by
            have := congrArg List.length hd
            simpa [Ring.abs] using this
          omega
        have := ih { r with read := (r.read + 1) % r.n } d' hwf' hc'
        simp only at this ⊢
        refine ⟨this.1, ?_, this.2.2.1, this.2.2.2⟩
        rw [← this.2.1, hd, hsent]; simp

theorem queueOr_inv (r1 : Ring) (d1 : Drv) (f : Frame) (hw1 : r1.WF) (hf : f.WF) :
    let res := queueOr r1 d1 f
    res.1.WF ∧ res.1.n = r1.n ∧ res.2.1 = d1 ∧
    res.1.abs = r1.abs ++ (if res.2.2 then [f] else []) := by
  unfold queueOr
  rw [clampFrame_id f hf]
  simp only [enqueue_eq r1 hw1]
  by_cases hne : (r1.write + 1) % r1.n ≠ r1.read
  · have := abs_push r1 hw1 f hne
    simp only [hne, ↓reduceIte, ne_eq, not_false_eq_true]
    exact ⟨this.1, by simp [Ring.push], trivial, by simp [this.2]⟩
  · simp only [hne, ↓reduceIte]
    exact ⟨hw1, trivial, trivial, by simp⟩

/-- **one-step invariant of `SendFrame`** -/
theorem sendFrame_inv (r : Ring) (d : Drv) (f : Frame) (h : r.WF) (hf : f.WF) :
    let res := sendFrame r d f
    res.1.WF ∧ res.1.n = r.n ∧
    res.2.1.sent ++ res.1.abs = d.sent ++ r.abs ++ (if res.2.2 then [f] else []) := by
  have hfl := flush_inv r.cnt r d h (Nat.le_refl _)
  simp only at hfl
  unfold sendFrame sendFrames
  generalize sendFramesAux r.cnt r d = res at hfl
  obtain ⟨r1, d1, ok⟩ := res
  simp only at hfl ⊢
  obtain ⟨hw1, hs1, hn1, hnn⟩ := hfl
  cases ok
  · simp only [Bool.false_eq_true, ↓reduceIte]
    obtain ⟨q1, q2, q3, q4⟩ := queueOr_inv r1 d1 f hw1 hf
    refine ⟨q1, by rw [q2, hnn], ?_⟩
    rw [q3, q4, hs1]; simp
  · simp only [↓reduceIte]
    by_cases hsd : (d1.send f).2 = true
    · have hsent := Drv.send_true d1 f hsd
      simp only [hsd, ↓reduceIte]
      exact ⟨hw1, hnn, by simp [hsent, hs1, hn1 rfl]⟩
    · have hsd' : (d1.send f).2 = false := by simpa using hsd
      have hsent := Drv.send_false d1 f hsd'
      simp only [hsd', Bool.false_eq_true, ↓reduceIte]
      obtain ⟨q1, q2, q3, q4⟩ := queueOr_inv r1 (d1.send f).1 f hw1 hf
      refine ⟨q1, by rw [q2, hnn], ?_⟩
      rw [q3, q4, hsent, hs1]; simp

/-- a full queue: `SendFrame` reports failure exactly when nothing could be sent or stored, and the
stored frames are then untouched -/
theorem sendFrame_fail (r : Ring) (d : Drv) (f : Frame) (h : r.WF) (hf : f.WF)
    (hres : (sendFrame r d f).2.2 = false) :
    (sendFrame r d f).2.1.sent ++ (sendFrame r d f).1.abs = d.sent ++ r.abs := by
  have := (sendFrame_inv r d f h hf).2.2
  simp only [hres] at this
  simpa using this

theorem fpFrame_WF (id : Nat) (m : Msg) (order i : Nat) : (⟨id, 8, fpFrame m order i⟩ : Frame).WF := by
  unfold Frame.WF fpFrame
  by_cases hi : i = 0 <;> simp [hi]

theorem sendFpLoop_prefix (id : Nat) (m : Msg) (order : Nat) : ∀ (k i : Nat) (r : Ring) (d : Drv), r.WF →
    let res := sendFpLoop id m order k i r d
    res.1.WF ∧ ∃ j, j ≤ k ∧ (res.2.2 = true ↔ j = k) ∧
      res.2.1.sent ++ res.1.abs = d.sent ++ r.abs ++
        (List.range j).map fun t => (⟨id, 8, fpFrame m order (i + t)⟩ : Frame) := by
  intro k
  induction k with
  | zero => intro i r d h; exact ⟨h, 0, Nat.le_refl _, by simp [sendFpLoop], by simp [sendFpLoop]⟩
  | succ k ih =>
    intro i r d h
    have hf := fpFrame_WF id m order i
    obtain ⟨a, _, c⟩ := sendFrame_inv r d ⟨id, 8, fpFrame m order i⟩ h hf
    unfold sendFpLoop
    generalize sendFrame r d ⟨id, 8, fpFrame m order i⟩ = res at a c
    obtain ⟨r', d', ok⟩ := res
    simp only at a c ⊢
    cases ok
    · simp only
      refine ⟨a, 0, Nat.zero_le _, by simp, ?_⟩
      simpa using c
    · simp only
      obtain ⟨i1, j, hj, hiff, hs⟩ := ih (i + 1) r' d' a
      refine ⟨i1, j + 1, by omega, by rw [hiff]; omega, ?_⟩
      rw [hs, c, List.range_succ_eq_map, List.map_cons, List.map_map]
      simp only [↓reduceIte, Nat.add_zero, List.append_assoc, List.cons_append, List.nil_append,
        List.append_cancel_left_eq, List.cons.injEq, true_and]
      apply List.map_congr_left
      intro t _
      simp only [Function.comp, Nat.succ_eq_add_one]
      congr 2; omega


end N2k.Send
