import N2k.Lemmas.DeviceListView
/-!
# C18 helper lemmas, part 7: what one run of `HandleMsg` does to ONE entry

For an entry `d` shown under `src`:
* `step_foreign`: a message from another source that is no claim of `d`'s NAME leaves `d` alone (up to
  request bookkeeping);
* `step_own`: a message from `src` that is no address claim changes `d` as described by `OwnEffect`;
* `step_claim_fresh`: a claim `(src,n)` handled while the list does not yet show `n` under `src` leaves an entry
  with `n` under `src` whose product information will be taken again.
From these, the history-level lemmas `run_prod_keep`, … used by the information theorems.
-/
namespace N2k.DeviceList

/-- `m` is no address claim from `src` and no address claim of NAME `n` -/
def NoTouch (m : Msg) (src n : Nat) : Prop :=
  ¬ (m.pgn = pgnClaim ∧ m.source < MaxBusDevices ∧ (m.source = src ∨ claimName m = n))

theorem step_foreign {e : Env} {s s' : State} {m : Msg} (h : StepDesc e s s' m) {src : Nat} {d : Device}
    (hd : devAt s src = some d) (hne : m.source ≠ src ∨ m.source ≥ MaxBusDevices) (hnt : NoTouch m src d.name) :
    ∃ d', devAt s' src = some d' ∧ d'.core = d.core := by
  cases h with
  | ignored _ hs => subst hs; exact ⟨d, hd, rfl⟩
  | claim s1 hsrc hc hf hpost =>
    have hx : src ≠ m.source := by rcases hne with h | h; exact fun h2 => h h2.symm; omega
    have hn : d.name ≠ claimName m := fun h2 => hnt ⟨hc, hsrc, Or.inr h2.symm⟩
    exact hpost.names (hf.others src d hx hd hn)
  | reserved _ _ _ _ hpre => exact ⟨d, hpre.names hd, rfl⟩
  | prod s0 s1 hsrc _ hpre hstep hpost =>
    have hx : src ≠ m.source := by rcases hne with h | h; exact fun h2 => h h2.symm; omega
    exact hpost.names (by rw [hstep.other src hx]; exact hpre.names hd)
  | conf s0 s1 hsrc _ hpre hstep hpost =>
    have hx : src ≠ m.source := by rcases hne with h | h; exact fun h2 => h h2.symm; omega
    exact hpost.names (by rw [hstep.other src hx]; exact hpre.names hd)
  | pgns s0 s1 hsrc _ hpre hstep hpost =>
    have hx : src ≠ m.source := by rcases hne with h | h; exact fun h2 => h h2.symm; omega
    exact hpost.names (by rw [hstep.other src hx]; exact hpre.names hd)
  | other _ _ _ _ hpost => exact hpost.names hd

/-- what a non-claim message from the entry's own source does to it -/
inductive OwnEffect (e : Env) (m : Msg) (d : Device) : Device → Prop
  | prod (p : ProdInfo) : m.pgn = pgnProd → parseProd e m = .ok p →
      OwnEffect e m d (if d.prodLoaded then d else (prodUpdate d p).1)
  | conf (r : Device × Bool) : m.pgn = pgnConf → confUpdate e d m = .ok r → ConfChanged d r.1 → OwnEffect e m d r.1
  | pgns (d1 : Device) : m.pgn = pgnList → pgnUpdate e d m = .ok d1 → PgnChanged d d1 → OwnEffect e m d d1
  | none : m.pgn ≠ pgnProd → m.pgn ≠ pgnConf → m.pgn ≠ pgnList → OwnEffect e m d d

theorem step_own {e : Env} {s s' : State} {m : Msg} (h : StepDesc e s s' m) {d : Device}
    (hd : devAt s m.source = some d) (hsrc : m.source < MaxBusDevices) (hnc : m.pgn ≠ pgnClaim) :
    ∃ d1 d', OwnEffect e m d d1 ∧ devAt s' m.source = some d' ∧ d'.core = d1.core := by
  cases h with
  | ignored h254 _ => omega
  | claim s1 _ hc _ _ => exact absurd hc hnc
  | reserved _ _ _ hnone _ => rw [hnone] at hd; cases hd
  | prod s0 s1 _ hp hpre hstep hpost =>
    obtain ⟨d1, h1, ⟨p, hpp, he, _⟩, _⟩ := hstep.present d (hpre.names hd)
    obtain ⟨d', h2, h3⟩ := hpost.names h1
    exact ⟨d1, d', by rw [he]; exact .prod p hp hpp, h2, h3⟩
  | conf s0 s1 _ hp hpre hstep hpost =>
    obtain ⟨d1, h1, ⟨r, hr, he, hcc, _⟩, _⟩ := hstep.present d (hpre.names hd)
    obtain ⟨d', h2, h3⟩ := hpost.names h1
    exact ⟨d1, d', by rw [he]; exact .conf r hp hr (by rw [← he]; exact hcc), h2, h3⟩
  | pgns s0 s1 _ hp hpre hstep hpost =>
    obtain ⟨d1, h1, ⟨hr, hcc, _⟩, _⟩ := hstep.present d (hpre.names hd)
    obtain ⟨d', h2, h3⟩ := hpost.names h1
    exact ⟨d1, d', .pgns d1 hp hr hcc, h2, h3⟩
  | other _ _ hinfo _ hpost =>
    obtain ⟨d', h2, h3⟩ := hpost.names hd
    refine ⟨d, d', .none ?_ ?_ ?_, h2, h3⟩ <;>
    · intro hp; simp [isInfoPgn, hp] at hinfo

theorem step_claim_fresh {e : Env} {s s' : State} {m : Msg} (h : StepDesc e s s' m)
    (hc : m.pgn = pgnClaim) (hsrc : m.source < MaxBusDevices)
    (hfresh : ¬ ∃ d, devAt s m.source = some d ∧ d.name = claimName m) :
    ∃ d', devAt s' m.source = some d' ∧ d'.name = claimName m ∧ d'.prodLoaded = false := by
  cases h with
  | ignored h254 _ => omega
  | claim s1 _ _ hf hpost =>
    rcases hf.change with ⟨_, d, hd, hn, _⟩ | ⟨_, d, hd, hl⟩
    · exact absurd ⟨d, hd, hn⟩ hfresh
    · obtain ⟨d0, hd0, hn0⟩ := hf.at_src
      rw [hd] at hd0; cases hd0
      obtain ⟨d', h1, h2⟩ := hpost.names hd
      exact ⟨d', h1, by rw [core_name h2, hn0], by rw [core_prodLoaded h2]; exact hl⟩
  | reserved _ hnc _ _ _ => exact absurd hc hnc
  | prod s0 s1 _ hp _ _ _ => rw [hc] at hp; cases hp
  | conf s0 s1 _ hp _ _ _ => rw [hc] at hp; cases hp
  | pgns s0 s1 _ hp _ _ _ => rw [hc] at hp; cases hp
  | other _ hnc _ _ _ => exact absurd hc hnc

/-! ## product information -/

theorem takeWhile_length_le {α : Type} (p : α → Bool) : ∀ (l : List α) (i : Nat) (x : α),
    l[i]? = some x → p x = false → (l.takeWhile p).length ≤ i := by
  intro l
  induction l with
  | nil => intro i x h; simp at h
  | cons a t ih =>
    intro i x h hp
    cases i with
    | zero =>
      simp only [List.getElem?_cons_zero, Option.some.injEq] at h
      subst h
      simp [List.takeWhile, hp]
    | succ i =>
      simp only [List.getElem?_cons_succ] at h
      have := ih i x h hp
      simp only [List.takeWhile]
      split
      · simp; omega
      · simp

theorem cstrD_length {n : Nat} {d : N2k.Text.D} (h : ∃ i, i < n ∧ d i = 0) : (cstrD n d).length < n := by
  obtain ⟨i, hi, h0⟩ := h
  have := takeWhile_length_le (fun x : Nat => decide (x ≠ 0)) ((List.range n).map d) i (d i)
    (by simp [hi]) (by simp [h0])
  unfold cstrD
  omega

theorem getStr33_len {e : Env} {t : N2k.Text.Msg} {idx : Nat} {r : List Nat × Nat} (h : getStr33 e t idx = .ok r) :
    r.1.length ≤ 32 := by
  obtain ⟨b, i, dst, hg, hterm⟩ := N2k.Text.getStr2_safe t 33 e.junkMem 32 0xff idx
  simp only [getStr33, hg] at h
  cases h
  have := cstrD_length (hterm (by omega))
  show (cstrD 33 dst).length ≤ 32
  omega

/-- a parsed product information fits the fields it is stored in -/
theorem parseProd_stored {e : Env} {m : Msg} {p : ProdInfo} (h : parseProd e m = .ok p) : storedProd p = p := by
  unfold parseProd at h
  cases h1 : getStr33 e m.text (get2 m.text (get2 m.text 0).2).2 with
  | error x => simp [h1] at h
  | ok r1 =>
    simp only [h1] at h
    cases h2 : getStr33 e m.text r1.2 with
    | error x => simp [h2] at h
    | ok r2 =>
      simp only [h2] at h
      cases h3 : getStr33 e m.text r2.2 with
      | error x => simp [h3] at h
      | ok r3 =>
        simp only [h3] at h
        cases h4 : getStr33 e m.text r3.2 with
        | error x => simp [h4] at h
        | ok r4 =>
          simp only [h4] at h
          cases h
          have l1 := getStr33_len h1
          have l2 := getStr33_len h2
          have l3 := getStr33_len h3
          have l4 := getStr33_len h4
          simp [storedProd, List.take_of_length_le, l1, l2, l3, l4]

theorem prodUpdate_first {d : Device} {p : ProdInfo} (hl : d.prodLoaded = false) (hs : storedProd p = p) :
    (prodUpdate d p).1.prod = p ∧ (prodUpdate d p).1.prodLoaded = true ∧ (prodUpdate d p).1.name = d.name := by
  unfold prodUpdate
  simp only [hl, Bool.false_eq_true, if_false]
  by_cases h : d.prod = p
  · simp [h]
  · simp [h, hs]

/-- no message of the history is an address claim from `src` or of NAME `n` -/
def Quiet (l : List (Env × Msg)) (src n : Nat) : Prop := ∀ em ∈ l, NoTouch em.2 src n

theorem run_append (s : State) (a b : List (Env × Msg)) :
    run s (a ++ b) = match run s a with | .ok s1 => run s1 b | .error x => .error x := by
  induction a generalizing s with
  | nil => rfl
  | cons em t ih =>
    simp only [List.cons_append, run]
    cases handleMsg em.1 s em.2 with
    | error x => rfl
    | ok s1 => exact ih s1

/-- the product-information part of an entry is stable while nobody claims its address or NAME, except for the
    first 126996 from its source while it is not loaded -/
theorem step_prod_keep {e : Env} {s s' : State} {m : Msg} (h : StepDesc e s s' m) {src : Nat} {d : Device}
    (hd : devAt s src = some d) (hnt : NoTouch m src d.name)
    (hown : m.source = src → m.pgn = pgnProd → d.prodLoaded = true) :
    ∃ d', devAt s' src = some d' ∧ d'.name = d.name ∧ d'.prodLoaded = d.prodLoaded ∧ d'.prod = d.prod := by
  have fromCore : ∀ d1 d' : Device, d'.core = d1.core → d1.name = d.name → d1.prodLoaded = d.prodLoaded → d1.prod = d.prod →
      d'.name = d.name ∧ d'.prodLoaded = d.prodLoaded ∧ d'.prod = d.prod := by
    intro d1 d' hc h1 h2 h3
    exact ⟨by rw [core_name hc, h1],
      by rw [core_prodLoaded hc, h2], by rw [core_prod hc, h3]⟩
  by_cases hsrc : m.source = src ∧ m.source < MaxBusDevices
  · obtain ⟨hs, h254⟩ := hsrc
    subst hs
    have hnc : m.pgn ≠ pgnClaim := fun hc => hnt ⟨hc, h254, Or.inl rfl⟩
    obtain ⟨d1, d', heff, h1, h2⟩ := step_own h hd h254 hnc
    refine ⟨d', h1, ?_⟩
    cases heff with
    | prod p hp _ =>
      have := hown rfl hp
      simp only [this, if_true] at h2
      exact fromCore d d' h2 rfl rfl rfl
    | conf r _ _ hcc =>
      obtain ⟨sz, blk, mm, a, b, cl, he, _⟩ := hcc
      rw [he] at h2
      exact fromCore _ d' h2 rfl rfl rfl
    | pgns d1 _ _ hcc =>
      obtain ⟨tb, ts, rb, rs, he, _⟩ := hcc
      rw [he] at h2
      exact fromCore _ d' h2 rfl rfl rfl
    | none _ _ _ => exact fromCore d d' h2 rfl rfl rfl
  · have hne : m.source ≠ src ∨ m.source ≥ MaxBusDevices := by
      by_cases h1 : m.source = src
      · exact Or.inr (by have := fun h2 => hsrc ⟨h1, h2⟩; omega)
      · exact Or.inl h1
    obtain ⟨d', h1, h2⟩ := step_foreign h hd hne hnt
    exact ⟨d', h1, fromCore d d' h2 rfl rfl rfl⟩

theorem run_prod_keep : ∀ (l : List (Env × Msg)) {s : State} {src : Nat} {d : Device}, Inv s →
    devAt s src = some d → Quiet l src d.name →
    (d.prodLoaded = true ∨ ∀ em ∈ l, ¬ (em.2.source = src ∧ em.2.pgn = pgnProd)) →
    ∃ s' d', run s l = .ok s' ∧ Inv s' ∧ devAt s' src = some d' ∧ d'.name = d.name ∧
      d'.prodLoaded = d.prodLoaded ∧ d'.prod = d.prod := by
  intro l
  induction l with
  | nil => intro s src d hi hd _ _; exact ⟨s, d, rfl, hi, hd, rfl, rfl, rfl⟩
  | cons em t ih =>
    intro s src d hi hd hq hp
    obtain ⟨s1, h1, hi1, hdesc⟩ := handleMsg_spec em.1 hi em.2
    obtain ⟨d1, hd1, hn1, hl1, hp1⟩ := step_prod_keep hdesc hd (hq em (by simp)) (by
      intro hs hpg
      rcases hp with hp | hp
      · exact hp
      · exact absurd ⟨hs, hpg⟩ (hp em (by simp)))
    obtain ⟨s', d', h2, hi2, hd2, hn2, hl2, hp2⟩ := ih hi1 hd1
      (by intro em' hem'; rw [hn1]; exact hq em' (by simp [hem']))
      (by rcases hp with hp | hp
          · exact Or.inl (by rw [hl1]; exact hp)
          · exact Or.inr (fun em' hem' => hp em' (by simp [hem'])))
    exact ⟨s', d', by simp [run, h1, h2], hi2, hd2, by rw [hn2, hn1], by rw [hl2, hl1], by rw [hp2, hp1]⟩

/-- the first 126996 from the source of an entry that is not loaded is stored -/
theorem step_prod_first {e : Env} {s s' : State} {m : Msg} (h : StepDesc e s s' m) {d : Device}
    (hd : devAt s m.source = some d) (hsrc : m.source < MaxBusDevices) (hp : m.pgn = pgnProd)
    (hl : d.prodLoaded = false) :
    ∃ d' p, parseProd e m = .ok p ∧ devAt s' m.source = some d' ∧ d'.name = d.name ∧ d'.prodLoaded = true ∧ d'.prod = p := by
  have hnc : m.pgn ≠ pgnClaim := by rw [hp]; decide
  obtain ⟨d1, d', heff, h1, h2⟩ := step_own h hd hsrc hnc
  cases heff with
  | prod p _ hpp =>
    simp only [hl, Bool.false_eq_true, if_false] at h2
    obtain ⟨a, b, c⟩ := prodUpdate_first (p := p) hl (parseProd_stored hpp)
    exact ⟨d', p, hpp, h1, by rw [core_name h2, c],
      by rw [core_prodLoaded h2]; exact b, by rw [core_prod h2]; exact a⟩
  | conf r hc _ _ => rw [hp] at hc; cases hc
  | pgns d1 hc _ _ => rw [hp] at hc; cases hc
  | none hc _ _ => exact absurd hp hc

end N2k.DeviceList
