import N2k.Lemmas.SeasmartRoundtrip
/-!
# C19 helper lemmas: what acceptance says about the text (`parse_sound`)
-/
namespace N2k.Seasmart

/-! ## positional value -/

theorem strtol16_acc (l : List Nat) : ∀ a : Nat,
    l.foldl (fun a c => a * 16 + digitVal c) a = a * 16 ^ l.length + l.foldl (fun a c => a * 16 + digitVal c) 0 := by
  induction l with
  | nil => intro a; simp
  | cons c t ih =>
    intro a
    simp only [List.foldl_cons, List.length_cons, Nat.zero_mul, Nat.zero_add]
    rw [ih (a * 16 + digitVal c), ih (digitVal c), Nat.pow_succ, Nat.add_mul, Nat.mul_assoc, Nat.mul_comm 16, Nat.add_assoc]

theorem strtol16_append (a b : List Nat) : strtol16 (a ++ b) = strtol16 a * 16 ^ b.length + strtol16 b := by
  unfold strtol16
  rw [List.foldl_append, strtol16_acc b]

theorem digitVal_lt {c : Nat} (h : isxdigit c = true) : digitVal c < 16 := by
  unfold isxdigit at h
  unfold digitVal
  simp only [Bool.or_eq_true, Bool.and_eq_true, decide_eq_true_eq] at h
  split
  · omega
  · split <;> omega

theorem strtol16_lt (l : List Nat) (h : l.all isxdigit = true) : strtol16 l < 16 ^ l.length := by
  induction l with
  | nil => simp [strtol16]
  | cons c t ih =>
    simp only [List.all_cons, Bool.and_eq_true] at h
    have h1 := digitVal_lt h.1
    have h2 := ih h.2
    have : strtol16 (c :: t) = digitVal c * 16 ^ t.length + strtol16 t := by
      have := strtol16_append [c] t
      simpa [strtol16] using this
    rw [this, List.length_cons, Nat.pow_succ]
    have h3 : digitVal c * 16 ^ t.length ≤ 15 * 16 ^ t.length := Nat.mul_le_mul_right _ (by omega)
    omega

/-! ## what a successful field read says about the text -/

theorem hexField_split {d : List Nat} {k v : Nat} (h : hexField d k = some v) :
    ∃ f, d = f ++ d.drop k ∧ f.length = k ∧ f.all isxdigit = true ∧ v = strtol16 f % 4294967296 := by
  obtain ⟨h1, h2, h3⟩ := hexField_some h
  exact ⟨d.take k, (List.take_append_drop k d).symm, by simp [h1], h2, h3⟩

theorem drop_of_getD {d : List Nat} {i v : Nat} (h : d.getD i 0 = v) (hv : v ≠ 0) :
    d.drop i = v :: d.drop (i + 1) := by
  have hi : i < d.length := lt_of_getD_ne_zero (by rw [h]; exact hv)
  rw [List.drop_eq_getElem_cons hi]
  congr 1
  simpa [List.getD_eq_getElem?_getD, List.getElem?_eq_getElem hi] using h

theorem hexField_sep_split {d : List Nat} {k v : Nat} (h : hexField d k = some v) (hs : d.getD k 0 = 44) :
    ∃ f, d = f ++ 44 :: d.drop (k + 1) ∧ f.length = k ∧ f.all isxdigit = true ∧ v = strtol16 f % 4294967296 := by
  obtain ⟨f, e, hl, hx, hv⟩ := hexField_split h
  exact ⟨f, by rw [← drop_of_getD hs (by decide)]; exact e, hl, hx, hv⟩

theorem dataSpec_split (n : Nat) : ∀ (d data : List Nat), dataSpec n d = some data →
    ∃ f, d = f ++ d.drop (2 * n) ∧ f.length = 2 * n ∧ f.all isxdigit = true ∧ data = hexPairs f ∧
      data.length = n := by
  induction n with
  | zero => intro d data h; simp [dataSpec] at h; subst h; exact ⟨[], by simp, rfl, rfl, rfl, rfl⟩
  | succ n ih =>
    intro d data h
    simp only [dataSpec] at h
    cases h1 : hexField d 2 with
    | none => rw [h1] at h; cases h
    | some b =>
      rw [h1] at h; simp only [] at h
      cases h2 : dataSpec n (d.drop 2) with
      | none => rw [h2] at h; cases h
      | some data' =>
        rw [h2] at h; simp only [Option.some.injEq] at h
        obtain ⟨f2, e2, l2, x2, v2⟩ := hexField_split h1
        obtain ⟨f', e', l', x', v', n'⟩ := ih _ _ h2
        refine ⟨f2 ++ f', ?_, by simp [l2, l']; omega, by simp [x2, x'], ?_, by simp [← h, n']⟩
        · rw [List.drop_drop] at e'
          rw [List.append_assoc, show 2 * (n + 1) = 2 + 2 * n by omega, ← e', ← e2]
        · -- the two digits
          match f2, l2, x2, v2 with
          | [a, c], _, x2, v2 =>
            simp only [List.all_cons, List.all_nil, Bool.and_true, Bool.and_eq_true] at x2
            have ha := digitVal_lt x2.1
            have hc := digitVal_lt x2.2
            simp only [strtol16, List.foldl_cons, List.foldl_nil, Nat.zero_mul, Nat.zero_add] at v2
            simp only [List.cons_append, List.nil_append, hexPairs, ← h, ← v']
            congr 1
            omega


theorem length_two {l : List Nat} (h : l.length = 2) : ∃ a b, l = [a, b] := by
  match l, h with
  | [a, b], _ => exact ⟨a, b, rfl⟩

theorem parse_sound_aux {s d5 d6 data : List Nat} {r : Res} {hi lo tsv srcv ck k : Nat}
    (h0 : s.take 7 = pre7)
    (h1 : hexField (s.drop 7) 2 = some hi)
    (h2 : hexField ((s.drop 7).drop 2) 4 = some lo)
    (c2 : ((s.drop 7).drop 2).getD 4 0 = 44)
    (h3 : hexField (((s.drop 7).drop 2).drop 5) 8 = some tsv)
    (c3 : (((s.drop 7).drop 2).drop 5).getD 8 0 = 44)
    (h4 : hexField ((((s.drop 7).drop 2).drop 5).drop 9) 2 = some srcv)
    (c4 : ((((s.drop 7).drop 2).drop 5).drop 9).getD 2 0 = 44)
    (hd5 : (((((s.drop 7).drop 2).drop 5).drop 9).drop 3) = d5)
    (e2 : ¬ k / 2 > 223)
    (h5 : dataSpec (k / 2) d5 = some data)
    (hd6 : List.drop (2 * (k / 2)) d5 = d6)
    (c6 : d6.getD 0 0 = 42)
    (h7 : hexField (d6.drop 1) 2 = some ck)
    (e3 : ck = xorAll ((s.drop 1).takeWhile (fun x => decide ¬x = 42)) % 256)
    (h : ({ pgn := hi * 65536 + lo, ts := tsv, src := srcv % 256, data := data } : Res) = r) :
    ∃ fp ft fs fd c1 c2 rest,
      s = pre7 ++ (fp ++ 44 :: (ft ++ 44 :: (fs ++ 44 :: (fd ++ 42 :: c1 :: c2 :: rest)))) ∧
      fp.length = 6 ∧ ft.length = 8 ∧ fs.length = 2 ∧ fd.length = 2 * r.data.length ∧
      (fp ++ ft ++ fs ++ fd ++ [c1, c2]).all isxdigit = true ∧
      r.pgn = strtol16 fp ∧ r.ts = strtol16 ft ∧ r.src = strtol16 fs ∧ r.data = hexPairs fd ∧
      r.data.length ≤ 223 ∧
      strtol16 [c1, c2] =
        xorAll ((pre7 ++ (fp ++ 44 :: (ft ++ 44 :: (fs ++ 44 :: fd)))).drop 1) % 256 := by
  subst h
  have E1 : s = pre7 ++ s.drop 7 := by rw [← h0]; exact (List.take_append_drop 7 s).symm
  generalize s.drop 7 = d1 at *
  obtain ⟨a2, ea2, la2, xa2, va2⟩ := hexField_split h1
  generalize d1.drop 2 = d2 at *
  obtain ⟨a4, ea4, la4, xa4, va4⟩ := hexField_sep_split h2 c2
  simp only [Nat.reduceAdd] at ea4
  generalize d2.drop 5 = d3 at *
  obtain ⟨a8, ea8, la8, xa8, va8⟩ := hexField_sep_split h3 c3
  simp only [Nat.reduceAdd] at ea8
  generalize d3.drop 9 = d4 at *
  obtain ⟨b2, eb2, lb2, xb2, vb2⟩ := hexField_sep_split h4 c4
  simp only [Nat.reduceAdd] at eb2
  rw [hd5] at eb2
  obtain ⟨fd, efd, lfd, xfd, vfd, nfd⟩ := dataSpec_split _ _ _ h5
  rw [hd6] at efd
  have e6 := drop_of_getD c6 (by decide)
  simp only [List.drop_zero, Nat.zero_add] at e6
  obtain ⟨cc, ecc, lcc, xcc, vcc⟩ := hexField_split h7
  obtain ⟨c1, c2', rfl⟩ := length_two lcc
  have hs : s = pre7 ++ ((a2 ++ a4) ++ 44 :: (a8 ++ 44 :: (b2 ++ 44 :: (fd ++ 42 :: c1 :: c2' :: (d6.drop 1).drop 2)))) := by
    rw [E1, ea2, ea4, ea8, eb2, efd, e6, ecc]; simp
  refine ⟨a2 ++ a4, a8, b2, fd, c1, c2', (d6.drop 1).drop 2, hs, by simp [la2, la4], la8, lb2, ?_, ?_, ?_, ?_, ?_, vfd, ?_, ?_⟩
  · simp only []; omega
  · simp only [List.all_append, Bool.and_eq_true]; exact ⟨⟨⟨⟨⟨xa2, xa4⟩, xa8⟩, xb2⟩, xfd⟩, xcc⟩
  · have b1 := strtol16_lt a2 xa2
    have b2' := strtol16_lt a4 xa4
    rw [la2] at b1; rw [la4] at b2'
    simp only [strtol16_append, la4]
    simp only [Nat.reducePow] at *
    omega
  · have b1 := strtol16_lt a8 xa8
    rw [la8] at b1
    simp only [Nat.reducePow] at b1
    simp only []; omega
  · have b1 := strtol16_lt b2 xb2
    rw [lb2] at b1
    simp only [Nat.reducePow] at b1
    simp only []; omega
  · simp only []; omega
  · have b1 := strtol16_lt [c1, c2'] xcc
    simp only [List.length_cons, List.length_nil, Nat.reducePow, Nat.zero_add, Nat.reduceAdd] at b1
    have hno : ∀ c ∈ (pre7 ++ (a2 ++ a4 ++ 44 :: (a8 ++ 44 :: (b2 ++ 44 :: fd)))).drop 1, c ≠ 42 := by
      intro c hc
      have hc := List.mem_of_mem_drop hc
      simp only [List.mem_append, List.mem_cons] at hc
      have hx : ∀ l : List Nat, l.all isxdigit = true → c ∈ l → c ≠ 42 :=
        fun l hl hm => isxdigit_ne_42 (List.all_eq_true.mp hl c hm)
      rcases hc with hc | ((hc | hc) | hc | hc | hc | hc | hc | hc)
      · have : ∀ c ∈ pre7, c ≠ 42 := by decide
        exact this c hc
      · exact hx _ xa2 hc
      · exact hx _ xa4 hc
      · rw [hc]; decide
      · exact hx _ xa8 hc
      · rw [hc]; decide
      · exact hx _ xb2 hc
      · rw [hc]; decide
      · exact hx _ xfd hc
    have hsd : s.drop 1 = (pre7 ++ (a2 ++ a4 ++ 44 :: (a8 ++ 44 :: (b2 ++ 44 :: fd)))).drop 1 ++
        42 :: c1 :: c2' :: (d6.drop 1).drop 2 := by
      rw [hs]; simp [pre7]
    rw [hsd, takeWhile_ne42 _ _ hno] at e3
    omega

theorem parse_sound {s : List Nat} {r : Res} (h : parse s = some r) :
    ∃ fp ft fs fd c1 c2 rest,
      s = pre7 ++ (fp ++ 44 :: (ft ++ 44 :: (fs ++ 44 :: (fd ++ 42 :: c1 :: c2 :: rest)))) ∧
      fp.length = 6 ∧ ft.length = 8 ∧ fs.length = 2 ∧ fd.length = 2 * r.data.length ∧
      (fp ++ ft ++ fs ++ fd ++ [c1, c2]).all isxdigit = true ∧
      r.pgn = strtol16 fp ∧ r.ts = strtol16 ft ∧ r.src = strtol16 fs ∧ r.data = hexPairs fd ∧
      r.data.length ≤ 223 ∧
      strtol16 [c1, c2] =
        xorAll ((pre7 ++ (fp ++ 44 :: (ft ++ 44 :: (fs ++ 44 :: fd)))).drop 1) % 256 := by
  unfold parse at h
  simp only [] at h
  by_cases h0 : s.take 7 = pre7
  · simp only [h0, ne_eq, not_true_eq_false, if_false] at h
    cases h1 : hexField (s.drop 7) 2 with
    | none => rw [h1] at h; cases h
    | some hi =>
      rw [h1] at h; simp only [] at h
      cases h2 : hexField ((s.drop 7).drop 2) 4 with
      | none => rw [h2] at h; cases h
      | some lo =>
        rw [h2] at h; simp only [] at h
        by_cases c2 : ((s.drop 7).drop 2).getD 4 0 = 44
        · simp only [c2, not_true_eq_false, if_false] at h
          cases h3 : hexField (((s.drop 7).drop 2).drop 5) 8 with
          | none => rw [h3] at h; cases h
          | some tsv =>
            rw [h3] at h; simp only [] at h
            by_cases c3 : (((s.drop 7).drop 2).drop 5).getD 8 0 = 44
            · simp only [c3, not_true_eq_false, if_false] at h
              cases h4 : hexField ((((s.drop 7).drop 2).drop 5).drop 9) 2 with
              | none => rw [h4] at h; cases h
              | some srcv =>
                rw [h4] at h; simp only [] at h
                by_cases c4 : ((((s.drop 7).drop 2).drop 5).drop 9).getD 2 0 = 44
                · simp only [c4, not_true_eq_false, if_false] at h
                  generalize hd5 : (((((s.drop 7).drop 2).drop 5).drop 9).drop 3) = d5 at h
                  generalize hk : (List.takeWhile (fun c => decide (¬c = 0 ∧ ¬c = 42)) d5).length = k at h
                  by_cases e1 : k % 2 = 0
                  · simp only [e1, not_true_eq_false, if_false] at h
                    by_cases e2 : k / 2 > 223
                    · simp only [e2, if_true] at h; cases h
                    · simp only [e2, if_false] at h
                      cases h5 : dataSpec (k / 2) d5 with
                      | none => rw [h5] at h; cases h
                      | some data =>
                        rw [h5] at h; simp only [] at h
                        generalize hd6 : List.drop (2 * (k / 2)) d5 = d6 at h
                        by_cases c6 : d6.getD 0 0 = 42
                        · simp only [c6, not_true_eq_false, if_false] at h
                          cases h7 : hexField (d6.drop 1) 2 with
                          | none => rw [h7] at h; cases h
                          | some ck =>
                            rw [h7] at h; simp only [] at h
                            by_cases e3 : ck = xorAll ((s.drop 1).takeWhile (fun x => decide ¬x = 42)) % 256
                            · rw [if_neg (fun hn => hn e3)] at h
                              simp only [Option.some.injEq] at h
                              exact parse_sound_aux h0 h1 h2 c2 h3 c3 h4 c4 hd5 e2 h5 hd6 c6 h7 e3 h
                            · rw [if_pos e3] at h; cases h
                        · simp only [c6, not_false_eq_true, if_true] at h; cases h
                  · simp only [e1, not_false_eq_true, if_true] at h; cases h
                · simp only [c4, not_false_eq_true, if_true] at h; cases h
            · simp only [c3, not_false_eq_true, if_true] at h; cases h
        · simp only [c2, not_false_eq_true, if_true] at h; cases h
  · simp only [h0, ne_eq, not_false_eq_true, if_true] at h; cases h


theorem hexData_ne_0 (d : List Nat) : ∀ c ∈ hexData d, c ≠ 0 := by
  induction d with
  | nil => intro c h; simp [hexData] at h
  | cons x t ih =>
    intro c h
    rw [hexData_cons] at h
    simp only [hexByte, List.cons_append, List.nil_append, List.mem_cons] at h
    rcases h with h | h | h
    · rw [h]; exact hexChar_ne_0 _ (by omega)
    · rw [h]; exact hexChar_ne_0 _ (by omega)
    · exact ih c h

theorem body_ne_0 (m : Msg) (ts : Nat) : ∀ c ∈ body m ts, c ≠ 0 := by
  intro c h
  simp only [body, pre7, hexByte, List.cons_append, List.nil_append, List.mem_cons] at h
  rcases h with h | h | h | h | h | h | h | h | h | h | h | h | h | h | h | h | h | h | h | h | h | h | h | h | h | h | h
  all_goals first | (rw [h]; first | exact hexChar_ne_0 _ (by omega) | decide) | exact hexData_ne_0 _ c h

theorem sentence_ne_0 (m : Msg) (ts : Nat) : ∀ c ∈ sentence m ts, c ≠ 0 := by
  intro c h
  simp only [sentence, hexByte, List.mem_append, List.mem_cons, List.not_mem_nil, or_false] at h
  rcases h with h | h | h | h
  · exact body_ne_0 m ts c h
  · rw [h]; decide
  · rw [h]; exact hexChar_ne_0 _ (by omega)
  · rw [h]; exact hexChar_ne_0 _ (by omega)

end N2k.Seasmart
